(* QWaveletTree::new / From<Vec<T>> / FromIterator regenerated (Gen/FnsQwtnew.v): closed statements and every public
   construction path followed by the regenerated queries. *)
From Coq Require Import ZArith Lia Permutation ZifyBool ZifyN ZifyNat.
From QwtModel Require Import ListX Loops Seq Consts Words SelTable QVec RSQ QWT QVecP RSQBuild QWTP.
From QwtModel Require Import FnsQv2 FnsQvb FnsRss FnsRsq FnsQwt FnsQwtnew FnsQv2Ok FnsQvbOk FnsRsqFromOk FnsQwtNewOk FnsWrapRsqOk.
Open Scope N_scope.

(* ------------------------------------------------------------------ (A) QWaveletTree: new / From<Vec<T>> / FromIterator *)
(* the premise of Proofs/FnsQwtNewOk.v (RSQVector::from regenerated = hand model) is the theorem
   g_rsq256_from_sim / g_rsq512_from_sim of Proofs/FnsRsqFromOk.v: the statements are now closed *)
Definition g_qwt256_new_sim_closed := g_qwt256_new_sim g_rsq256_from_sim.
Definition g_qwt512_new_sim_closed := g_qwt512_new_sim g_rsq512_from_sim.
Definition g_qwt256_new_e2e_closed := g_qwt256_new_e2e g_rsq256_from_sim.
Definition g_qwt512_new_e2e_closed := g_qwt512_new_e2e g_rsq512_from_sim.
Check g_qwt256_new_sim_closed.
Check g_qwt512_new_sim_closed.
Check g_qwt256_new_e2e_closed.
Check g_qwt512_new_e2e_closed.

Lemma g_qwt256_from_vec_new w seq : g_qwt256_from_vec w seq = let! r := g_qwt256_new w seq in Val (snd r).
Proof.
  unfold g_qwt256_from_vec. destruct (g_qwt256_new w seq) as [[s' [[[[[[[a b] c] d] e] f] g] h]]|]; reflexivity.
Qed.
Lemma g_qwt256_from_iter_new w seq : g_qwt256_from_iter w seq = let! r := g_qwt256_new w seq in Val (snd r).
Proof.
  unfold g_qwt256_from_iter. destruct (g_qwt256_new w seq) as [[s' [[[[[[[a b] c] d] e] f] g] h]]|]; reflexivity.
Qed.
Lemma g_qwt512_from_vec_new w seq : g_qwt512_from_vec w seq = let! r := g_qwt512_new w seq in Val (snd r).
Proof.
  unfold g_qwt512_from_vec. destruct (g_qwt512_new w seq) as [[s' [[[[[[[a b] c] d] e] f] g] h]]|]; reflexivity.
Qed.
Lemma g_qwt512_from_iter_new w seq : g_qwt512_from_iter w seq = let! r := g_qwt512_new w seq in Val (snd r).
Proof.
  unfold g_qwt512_from_iter. destruct (g_qwt512_new w seq) as [[s' [[[[[[[a b] c] d] e] f] g] h]]|]; reflexivity.
Qed.

(* every public construction path of the quad tree, regenerated *)
Definition qwt256_ctor (k wT : N) (seq : list N) :=
  if k =? 0 then (let! r := g_qwt256_new wT seq in Val (snd r))
  else if k =? 1 then g_qwt256_from_vec wT seq else g_qwt256_from_iter wT seq.
Definition qwt512_ctor (k wT : N) (seq : list N) :=
  if k =? 0 then (let! r := g_qwt512_new wT seq in Val (snd r))
  else if k =? 1 then g_qwt512_from_vec wT seq else g_qwt512_from_iter wT seq.

(* every construction path followed by the regenerated queries is the list specification *)
Theorem g_qwt256_ctors_correct : forall k w s, width_ok w -> Forall (fun x => x < 2 ^ w) s -> len s < RSQ_MAXN ->
  exists n nl sg d p sb sm oc,
    qwt256_ctor k w s = Val (n, nl, sg, d, p, sb, sm, oc) /\
    g_qwt256_len n = Val (len s) /\ g_qwt256_is_empty n = Val (len s =? 0) /\
    g_qwt256_n_levels nl = Val (if len s =? 0 then 0 else (msb (maxN s) + 1 + 1) / 2) /\
    (forall i, g_qwt256_get w n nl d p sb oc i = Val (nthN s i)) /\
    (forall c i, c < 2 ^ w ->
       g_qwt256_rank w n nl sg d sb oc c i
       = Val (if negb (len s =? 0) && (i <=? len s) && (c <=? maxN s) then Some (rank_spec s c i) else None)) /\
    (forall c k fuel, c < 2 ^ w -> k < 2 ^ 64 -> (S (S (N.to_nat (len s / (8 * 256)))) <= fuel)%nat ->
       g_qwt256_select fuel w n nl sg d p sb sm oc c k
       = Val (if negb (len s =? 0) && (c <=? maxN s) then select_spec s c k else None)) /\
    (forall i x, nthN s i = Some x -> g_qwt256_get_unchecked w nl d p sb oc i = Val x) /\
    (forall c i, 0 < len s -> c <= maxN s -> i <= len s ->
       g_qwt256_rank_unchecked w nl d sb oc c i = Val (rank_spec s c i)) /\
    (forall c k p' fuel, c < 2 ^ w -> select_spec s c k = Some p' ->
       (S (S (N.to_nat (len s / (8 * 256)))) <= fuel)%nat ->
       g_qwt256_select_unchecked fuel w n nl sg d p sb sm oc c k = Val p').
Proof.
  intros k w s Hw HF Hn.
  destruct (g_qwt256_new_e2e_closed w s Hw HF Hn) as (s' & n & nl & sg & d & p & sb & sm & oc & G & _ & Rest).
  exists n, nl, sg, d, p, sb, sm, oc. split; [|exact Rest].
  unfold qwt256_ctor. rewrite g_qwt256_from_vec_new, g_qwt256_from_iter_new, G.
  destruct (k =? 0); [reflexivity|]. destruct (k =? 1); reflexivity.
Qed.

Theorem g_qwt512_ctors_correct : forall k w s, width_ok w -> Forall (fun x => x < 2 ^ w) s -> len s < RSQ_MAXN ->
  exists n nl sg d p sb sm oc,
    qwt512_ctor k w s = Val (n, nl, sg, d, p, sb, sm, oc) /\
    g_qwt512_len n = Val (len s) /\ g_qwt512_is_empty n = Val (len s =? 0) /\
    g_qwt512_n_levels nl = Val (if len s =? 0 then 0 else (msb (maxN s) + 1 + 1) / 2) /\
    (forall i, g_qwt512_get w n nl d p sb oc i = Val (nthN s i)) /\
    (forall c i, c < 2 ^ w ->
       g_qwt512_rank w n nl sg d sb oc c i
       = Val (if negb (len s =? 0) && (i <=? len s) && (c <=? maxN s) then Some (rank_spec s c i) else None)) /\
    (forall c k fuel, c < 2 ^ w -> k < 2 ^ 64 -> (S (S (N.to_nat (len s / (8 * 512)))) <= fuel)%nat ->
       g_qwt512_select fuel w n nl sg d p sb sm oc c k
       = Val (if negb (len s =? 0) && (c <=? maxN s) then select_spec s c k else None)) /\
    (forall i x, nthN s i = Some x -> g_qwt512_get_unchecked w nl d p sb oc i = Val x) /\
    (forall c i, 0 < len s -> c <= maxN s -> i <= len s ->
       g_qwt512_rank_unchecked w nl d sb oc c i = Val (rank_spec s c i)) /\
    (forall c k p' fuel, c < 2 ^ w -> select_spec s c k = Some p' ->
       (S (S (N.to_nat (len s / (8 * 512)))) <= fuel)%nat ->
       g_qwt512_select_unchecked fuel w n nl sg d p sb sm oc c k = Val p').
Proof.
  intros k w s Hw HF Hn.
  destruct (g_qwt512_new_e2e_closed w s Hw HF Hn) as (s' & n & nl & sg & d & p & sb & sm & oc & G & _ & Rest).
  exists n, nl, sg, d, p, sb, sm, oc. split; [|exact Rest].
  unfold qwt512_ctor. rewrite g_qwt512_from_vec_new, g_qwt512_from_iter_new, G.
  destruct (k =? 0); [reflexivity|]. destruct (k =? 1); reflexivity.
Qed.

(* ------------------------------------------------------------------ (C) non-vacuity (vm_compute), 40 u8 symbols *)
Definition wrap_example_input : list N := map (fun i => (i * i * 7 + 3 * i) mod 200) (seqN 0 40).

Example quad_wrappers_example :
  len wrap_example_input = 40 /\
  is_val (qwt256_ctor 0 8 wrap_example_input) = true /\
  qwt256_ctor 1 8 wrap_example_input = qwt256_ctor 0 8 wrap_example_input /\
  qwt256_ctor 2 8 wrap_example_input = qwt256_ctor 0 8 wrap_example_input /\
  qwt512_ctor 1 8 wrap_example_input = qwt512_ctor 0 8 wrap_example_input /\
  qwt512_ctor 2 8 wrap_example_input = qwt512_ctor 0 8 wrap_example_input /\
  match g_rsq256_new 8 wrap_example_input, nthN wrap_example_input 3 with
  | Val (d, p, _, _, _), Some x => g_rsq256_get d p 3 = Val (Some (x mod 4)) /\ x = 72
  | _, _ => False
  end.
Proof. vm_compute. repeat split; reflexivity. Qed.

Print Assumptions g_qwt256_new_sim_closed.
Print Assumptions g_qwt512_new_sim_closed.
Print Assumptions g_qwt256_new_e2e_closed.
Print Assumptions g_qwt512_new_e2e_closed.
Print Assumptions g_qwt256_ctors_correct.
Print Assumptions g_qwt512_ctors_correct.
Print Assumptions quad_wrappers_example.
