(* C12: the double-ended, exact-size iterator WTIterator (Model/Iter.v) over any indexed structure
   behaves, on EVERY finite call history (next / next_back / len in any order, including calls after
   exhaustion), exactly like a deque over the not-yet-yielded elements, and never faults.
   Instantiated for the plain quad wavelet tree (QWTP.qwt_spec) and the Huffman-shaped one
   (HQWTP.hq_spec). *)
From Coq Require Import ZArith Lia ZifyBool ZifyN ZifyNat.
From QwtModel Require Import ListX Iter ListXP QWT Huff RSQBuild QWTP HQWTP.
Ltac Zify.zify_post_hook ::= Z.div_mod_to_equations.
Arguments N.add : simpl never.
Arguments N.sub : simpl never.
Arguments N.mul : simpl never.
Arguments N.eqb : simpl never.
Arguments N.ltb : simpl never.
Arguments N.leb : simpl never.
Arguments N.pred : simpl never.
Arguments N.of_nat : simpl never.
Arguments N.div : simpl never.
Arguments N.modulo : simpl never.
Arguments N.pow : simpl never.

(* ---------------------------------------------------------------- list lemmas *)
Lemma nthN_firstnN {A} (l : list A) : forall k j,
  nthN (firstnN k l) j = if j <? k then nthN l j else None.
Proof.
  induction l as [|x l IH]; intros k j; cbn [firstnN nthN].
  - now destruct (j <? k).
  - destruct (N.eqb_spec k 0) as [->|Hk].
    + replace (j <? 0) with false by lia. reflexivity.
    + cbn [nthN]. destruct (N.eqb_spec j 0) as [->|Hj].
      * replace (0 <? k) with true by lia. reflexivity.
      * rewrite IH. replace (N.pred j <? N.pred k) with (j <? k) by lia. reflexivity.
Qed.

Lemma skipnN_0 {A} (l : list A) : skipnN 0 l = l.
Proof. destruct l; reflexivity. Qed.

Lemma nthN_skipnN {A} (l : list A) : forall i j, nthN (skipnN i l) j = nthN l (i + j).
Proof.
  induction l as [|x l IH]; intros i j; cbn [skipnN]; [reflexivity|].
  destruct (N.eqb_spec i 0) as [->|Hi].
  - now rewrite N.add_0_l.
  - rewrite IH. cbn [nthN]. destruct (N.eqb_spec (i + j) 0); [lia|].
    f_equal. lia.
Qed.

Lemma len_skipnN {A} (l : list A) i : len (skipnN i l) = len l - i.
Proof. rewrite skipnN_skipn. unfold len. rewrite skipn_length. lia. Qed.

(* list extensionality for nthN *)
Lemma nthN_ext {A} (l1 : list A) : forall l2, (forall i, nthN l1 i = nthN l2 i) -> l1 = l2.
Proof.
  induction l1 as [|x l1 IH]; intros [|y l2] H.
  - reflexivity.
  - specialize (H 0). discriminate H.
  - specialize (H 0). discriminate H.
  - pose proof (H 0) as H0. rewrite !nthN_0 in H0. injection H0 as ->. f_equal.
    apply IH. intros i. specialize (H (i + 1)). now rewrite !nthN_succ in H.
Qed.

(* the not yet yielded elements of [s] in state (i, e) *)
Definition slice {A} (s : list A) (i e : N) : list A := firstnN (e - i) (skipnN i s).

Lemma nthN_slice {A} (s : list A) i e j :
  nthN (slice s i e) j = if j <? e - i then nthN s (i + j) else None.
Proof. unfold slice. now rewrite nthN_firstnN, nthN_skipnN. Qed.

Lemma slice_len {A} (s : list A) i e : i <= e -> e <= len s -> len (slice s i e) = e - i.
Proof. intros H1 H2. unfold slice. rewrite firstnN_len, len_skipnN. lia. Qed.

Lemma slice_empty {A} (s : list A) i e : e <= i -> slice s i e = [].
Proof.
  intros H. apply nthN_ext. intros j. rewrite nthN_slice.
  replace (j <? e - i) with false by lia. reflexivity.
Qed.

Lemma slice_full {A} (s : list A) : slice s 0 (len s) = s.
Proof. unfold slice. rewrite skipnN_0, N.sub_0_r. now apply firstnN_all. Qed.

Lemma slice_cons {A} (s : list A) i e x : i < e -> nthN s i = Some x ->
  slice s i e = x :: slice s (i + 1) e.
Proof.
  intros H Hx. apply nthN_ext. intros j. rewrite nthN_slice.
  destruct (N.eqb_spec j 0) as [->|Hj].
  - replace (0 <? e - i) with true by lia. now rewrite N.add_0_r, nthN_0.
  - replace j with (N.pred j + 1) at 3 by lia. rewrite nthN_succ, nthN_slice.
    replace (N.pred j <? e - (i + 1)) with (j <? e - i) by lia.
    replace (i + 1 + N.pred j) with (i + j) by lia. reflexivity.
Qed.

Lemma slice_snoc {A} (s : list A) i e x : i < e -> e <= len s -> nthN s (e - 1) = Some x ->
  slice s i e = slice s i (e - 1) ++ [x].
Proof.
  intros H He Hx. apply nthN_ext. intros j. rewrite nthN_slice.
  assert (Hl : len (slice s i (e - 1)) = e - 1 - i) by (apply slice_len; lia).
  destruct (N.ltb_spec j (e - 1 - i)) as [Hj|Hj].
  - rewrite nthN_app1 by lia. rewrite nthN_slice.
    replace (j <? e - i) with true by lia. replace (j <? e - 1 - i) with true by lia. reflexivity.
  - rewrite nthN_app2 by lia. rewrite Hl.
    destruct (N.eqb_spec j (e - 1 - i)) as [->|Hne].
    + replace (e - 1 - i <? e - i) with true by lia. rewrite N.sub_diag, nthN_0.
      now replace (i + (e - 1 - i)) with (e - 1) by lia.
    + replace (j <? e - i) with false by lia.
      replace (j - (e - 1 - i)) with (N.pred (j - (e - 1 - i)) + 1) by lia. now rewrite nthN_succ.
Qed.

Lemma len_rev {A} (l : list A) : len (rev l) = len l.
Proof. unfold len. now rewrite rev_length. Qed.

(* ---------------------------------------------------------------- the main theorem *)
Section Run.
Variables (get_u : N -> outcome N) (s : list N).
Hypothesis Hlen : len s < 2 ^ 64.
Hypothesis Hget : forall i x, nthN s i = Some x -> get_u i = Val x.

(* invariant: state (i, e) with i <= e <= len s, remaining elements = slice s i e *)
Lemma wtit_run_inv : forall h i e, i <= e -> e <= len s ->
  wtit_run get_u (mk_wtit i e) h = Val (deque_run (slice s i e) h).
Proof.
  induction h as [|op h IH]; intros i e Hie Hes; [reflexivity|].
  destruct op; cbn [wtit_run deque_run].
  - (* next *)
    unfold wtit_next. cbn [it_i it_end]. destruct (N.ltb_spec i e) as [Hlt|Hge].
    + unfold oadd. replace (i + 1 <? 2 ^ 64) with true by lia. cbn [bind].
      replace (i + 1 - 1) with i by lia.
      destruct (nthN_lt_some s i ltac:(lia)) as (x & Hx).
      rewrite (Hget i x Hx). cbn [bind]. rewrite IH by lia. cbn [bind].
      now rewrite (slice_cons s i e x Hlt Hx).
    + cbn [bind]. rewrite IH by lia. cbn [bind]. rewrite (slice_empty s i e) by lia. reflexivity.
  - (* next_back *)
    unfold wtit_next_back. cbn [it_i it_end]. destruct (N.ltb_spec i e) as [Hlt|Hge].
    + unfold osub. replace (1 <=? e) with true by lia. cbn [bind].
      destruct (nthN_lt_some s (e - 1) ltac:(lia)) as (x & Hx).
      rewrite (Hget (e - 1) x Hx). cbn [bind]. rewrite IH by lia. cbn [bind].
      rewrite (slice_snoc s i e x Hlt Hes Hx). rewrite rev_app_distr. cbn [rev app].
      now rewrite rev_involutive.
    + cbn [bind]. rewrite IH by lia. cbn [bind]. rewrite (slice_empty s i e) by lia. reflexivity.
  - (* len *)
    unfold wtit_len, osub. cbn [it_i it_end]. replace (i <=? e) with true by lia. cbn [bind].
    rewrite IH by lia. cbn [bind]. now rewrite slice_len by lia.
Qed.

Theorem wtit_run_correct_sec : forall h,
  wtit_run get_u (wtit_new (len s)) h = Val (deque_run s h).
Proof.
  intros h. unfold wtit_new. rewrite wtit_run_inv by lia. now rewrite slice_full.
Qed.
End Run.

Theorem wtit_run_correct : forall (get_u : N -> outcome N) (s : list N),
  len s < 2 ^ 64 -> (forall i x, nthN s i = Some x -> get_u i = Val x) ->
  forall h, wtit_run get_u (wtit_new (len s)) h = Val (deque_run s h).
Proof. exact wtit_run_correct_sec. Qed.

(* ---------------------------------------------------------------- facts about the deque *)
(* the remaining elements after a history *)
Fixpoint deque_rem (rem : list N) (h : list itop) : list N :=
  match h with
  | [] => rem
  | INext :: r => match rem with [] => deque_rem [] r | _ :: rem' => deque_rem rem' r end
  | IBack :: r => match rev rem with [] => deque_rem [] r | _ :: rr => deque_rem (rev rr) r end
  | ILen :: r => deque_rem rem r
  end.

Lemma deque_run_app : forall h1 rem h2,
  deque_run rem (h1 ++ h2) = deque_run rem h1 ++ deque_run (deque_rem rem h1) h2.
Proof.
  induction h1 as [|op h1 IH]; intros rem h2; [reflexivity|].
  destruct op; cbn [app deque_run deque_rem].
  - destruct rem; cbn [app]; now rewrite IH.
  - destruct (rev rem); cbn [app]; now rewrite IH.
  - cbn [app]. now rewrite IH.
Qed.

Lemma deque_run_length : forall h rem, length (deque_run rem h) = length h.
Proof.
  induction h as [|op h IH]; intros rem; [reflexivity|].
  destruct op; cbn [deque_run].
  - destruct rem; cbn [length]; now rewrite IH.
  - destruct (rev rem); cbn [length]; now rewrite IH.
  - cbn [length]. now rewrite IH.
Qed.

(* what an exhausted iterator answers *)
Definition exhausted_out (op : itop) : itout := match op with ILen => OLen 0 | _ => ONone end.

Lemma deque_run_nil : forall h, deque_run [] h = map exhausted_out h.
Proof.
  induction h as [|op h IH]; [reflexivity|].
  destruct op; cbn [deque_run rev map exhausted_out]; now rewrite IH.
Qed.

(* a call that answers None leaves (and found) the deque empty *)
Lemma deque_none_rem : forall h1 rem op h2,
  nth_error (deque_run rem (h1 ++ op :: h2)) (length h1) = Some ONone ->
  deque_rem rem (h1 ++ [op]) = [].
Proof.
  intros h1 rem op h2. rewrite deque_run_app.
  rewrite nth_error_app2 by (rewrite deque_run_length; lia).
  rewrite deque_run_length, Nat.sub_diag.
  replace (deque_rem rem (h1 ++ [op])) with (deque_rem (deque_rem rem h1) [op]).
  2:{ clear. revert rem. induction h1 as [|o h1 IH]; intros rem; [reflexivity|].
      destruct o; cbn [app deque_rem]; [destruct rem|destruct (rev rem)|]; apply IH. }
  generalize (deque_rem rem h1) as r. intros r.
  destruct op; cbn [deque_run deque_rem nth_error].
  - destruct r; [reflexivity|discriminate].
  - destruct (rev r); [reflexivity|discriminate].
  - discriminate.
Qed.

(* ---------------------------------------------------------------- consequences *)
Lemma deque_forward : forall s k,
  deque_run s (repeat INext (length s + k)) = map OSome s ++ repeat ONone k.
Proof.
  induction s as [|x s IH]; intros k.
  - cbn [length Nat.add map app]. rewrite deque_run_nil.
    induction k as [|k IHk]; [reflexivity|]. cbn [repeat map exhausted_out]. now rewrite IHk.
  - cbn [length Nat.add repeat deque_run map app]. now rewrite IH.
Qed.

Lemma deque_backward_rev : forall r k,
  deque_run (rev r) (repeat IBack (length r + k)) = map OSome r ++ repeat ONone k.
Proof.
  induction r as [|x r IH]; intros k.
  - cbn [rev length Nat.add map app]. rewrite deque_run_nil.
    induction k as [|k IHk]; [reflexivity|]. cbn [repeat map exhausted_out]. now rewrite IHk.
  - cbn [length Nat.add repeat deque_run map app]. rewrite rev_involutive. now rewrite IH.
Qed.

Lemma deque_backward : forall s k,
  deque_run s (repeat IBack (length s + k)) = map OSome (rev s) ++ repeat ONone k.
Proof.
  intros s k. rewrite <- (deque_backward_rev (rev s) k). now rewrite rev_involutive, rev_length.
Qed.

(* number of elements yielded in a list of outputs *)
Fixpoint count_some (o : list itout) : N :=
  match o with
  | [] => 0
  | OSome _ :: r => 1 + count_some r
  | _ :: r => count_some r
  end.

Lemma deque_len_exact : forall h rem k n,
  nth_error (deque_run rem h) k = Some (OLen n) ->
  n = len rem - count_some (firstn k (deque_run rem h)).
Proof.
  induction h as [|op h IH]; intros rem k n H.
  - destruct k; discriminate H.
  - destruct op; cbn [deque_run] in *.
    + destruct rem as [|x rem'].
      * destruct k as [|k]; [discriminate H|]. cbn [nth_error firstn count_some] in *.
        now apply IH.
      * destruct k as [|k]; [discriminate H|]. cbn [nth_error firstn count_some] in *.
        apply IH in H. rewrite len_cons. lia.
    + destruct (rev rem) as [|x rr] eqn:E.
      * destruct k as [|k]; [discriminate H|]. cbn [nth_error firstn count_some] in *.
        apply IH in H. assert (rem = []) as -> by (now apply (f_equal (@rev N)) in E; rewrite rev_involutive in E).
        exact H.
      * destruct k as [|k]; [discriminate H|]. cbn [nth_error firstn count_some] in *.
        apply IH in H. assert (Hl : len rem = len (rev rr) + 1).
        { rewrite <- (len_rev rem), E, len_cons, len_rev. reflexivity. }
        lia.
    + destruct k as [|k]; cbn [nth_error firstn count_some] in *.
      * injection H as <-. lia.
      * now apply IH.
Qed.

Section Consequences.
Variables (get_u : N -> outcome N) (s : list N).
Hypothesis Hlen : len s < 2 ^ 64.
Hypothesis Hget : forall i x, nthN s i = Some x -> get_u i = Val x.

(* len s + k calls of next(): the elements in order, then None k times *)
Corollary wtit_forward_sec : forall k,
  wtit_run get_u (wtit_new (len s)) (repeat INext (length s + k)) =
  Val (map OSome s ++ repeat ONone k).
Proof. intros k. rewrite (wtit_run_correct get_u s Hlen Hget). now rewrite deque_forward. Qed.

(* len s + k calls of next_back(): the elements in reverse order, then None k times *)
Corollary wtit_backward_sec : forall k,
  wtit_run get_u (wtit_new (len s)) (repeat IBack (length s + k)) =
  Val (map OSome (rev s) ++ repeat ONone k).
Proof. intros k. rewrite (wtit_run_correct get_u s Hlen Hget). now rewrite deque_backward. Qed.

(* fused: once call number |h1| (a next or next_back, since len never answers None) returned None,
   every later next/next_back returns None and every later len returns 0 *)
Corollary wtit_fused_sec : forall h1 op h2 out,
  wtit_run get_u (wtit_new (len s)) (h1 ++ op :: h2) = Val out ->
  nth_error out (length h1) = Some ONone ->
  skipn (S (length h1)) out = map exhausted_out h2.
Proof.
  intros h1 op h2 out E Hn. rewrite (wtit_run_correct get_u s Hlen Hget) in E. injection E as <-.
  pose proof (deque_none_rem h1 s op h2 Hn) as Hrem.
  replace (h1 ++ op :: h2) with ((h1 ++ [op]) ++ h2) by (now rewrite <- app_assoc).
  rewrite deque_run_app, Hrem, deque_run_nil.
  replace (S (length h1)) with (length (deque_run s (h1 ++ [op])) + 0)%nat
    by (rewrite deque_run_length, app_length; cbn [length]; lia).
  rewrite skipn_app, skipn_all2 by lia.
  replace (_ - _)%nat with 0%nat by lia. reflexivity.
Qed.

(* exact size: every len() reports the number of elements not yet yielded *)
Corollary wtit_len_exact_sec : forall h out k n,
  wtit_run get_u (wtit_new (len s)) h = Val out ->
  nth_error out k = Some (OLen n) ->
  n = len s - count_some (firstn k out).
Proof.
  intros h out k n E H. rewrite (wtit_run_correct get_u s Hlen Hget) in E. injection E as <-.
  now apply deque_len_exact.
Qed.
End Consequences.

Corollary wtit_forward : forall (get_u : N -> outcome N) (s : list N),
  len s < 2 ^ 64 -> (forall i x, nthN s i = Some x -> get_u i = Val x) ->
  forall k, wtit_run get_u (wtit_new (len s)) (repeat INext (length s + k)) =
            Val (map OSome s ++ repeat ONone k).
Proof. exact wtit_forward_sec. Qed.

Corollary wtit_backward : forall (get_u : N -> outcome N) (s : list N),
  len s < 2 ^ 64 -> (forall i x, nthN s i = Some x -> get_u i = Val x) ->
  forall k, wtit_run get_u (wtit_new (len s)) (repeat IBack (length s + k)) =
            Val (map OSome (rev s) ++ repeat ONone k).
Proof. exact wtit_backward_sec. Qed.

Corollary wtit_fused : forall (get_u : N -> outcome N) (s : list N),
  len s < 2 ^ 64 -> (forall i x, nthN s i = Some x -> get_u i = Val x) ->
  forall h1 op h2 out,
  wtit_run get_u (wtit_new (len s)) (h1 ++ op :: h2) = Val out ->
  nth_error out (length h1) = Some ONone ->
  skipn (S (length h1)) out = map exhausted_out h2.
Proof. exact wtit_fused_sec. Qed.

Corollary wtit_len_exact : forall (get_u : N -> outcome N) (s : list N),
  len s < 2 ^ 64 -> (forall i x, nthN s i = Some x -> get_u i = Val x) ->
  forall h out k n,
  wtit_run get_u (wtit_new (len s)) h = Val out ->
  nth_error out k = Some (OLen n) ->
  n = len s - count_some (firstn k out).
Proof. exact wtit_len_exact_sec. Qed.

(* the same two facts on the specification side *)
Corollary deque_fused : forall s h1 op h2,
  nth_error (deque_run s (h1 ++ op :: h2)) (length h1) = Some ONone ->
  skipn (S (length h1)) (deque_run s (h1 ++ op :: h2)) = map exhausted_out h2.
Proof.
  intros s h1 op h2 Hn. pose proof (deque_none_rem h1 s op h2 Hn) as Hrem.
  replace (h1 ++ op :: h2) with ((h1 ++ [op]) ++ h2) by (now rewrite <- app_assoc).
  rewrite deque_run_app, Hrem, deque_run_nil.
  replace (S (length h1)) with (length (deque_run s (h1 ++ [op])) + 0)%nat
    by (rewrite deque_run_length, app_length; cbn [length]; lia).
  rewrite skipn_app, skipn_all2 by lia.
  replace (_ - _)%nat with 0%nat by lia. reflexivity.
Qed.

(* ---------------------------------------------------------------- the tree families *)
Theorem qwt_iter_correct : forall w bsize t seq, qwt_spec w bsize t seq -> len seq < 2 ^ 64 ->
  forall h, wtit_run (qwt_get_unchecked w bsize t) (wtit_new (qwt_len t)) h = Val (deque_run seq h).
Proof.
  intros w bsize t seq HS Hl h.
  destruct HS as (El & _ & _ & _ & _ & _ & _ & _ & Hgu & _).
  rewrite El. now apply wtit_run_correct.
Qed.

Theorem hq_iter_correct : forall w bsize t seq, hq_spec w bsize t seq -> len seq < 2 ^ 64 ->
  forall h, wtit_run (hq_get_unchecked w bsize t) (wtit_new (hq_len t)) h = Val (deque_run seq h).
Proof.
  intros w bsize t seq HS Hl h.
  destruct HS as (El & _ & _ & _ & _ & Hgu & _).
  rewrite El. now apply wtit_run_correct.
Qed.

(* from the constructors: iterating a freshly built tree *)
Corollary qwt_new_iter : forall w bsize seq, QWTP.width_ok w -> (bsize = 256 \/ bsize = 512) ->
  Forall (fun x => x < 2 ^ w) seq -> len seq < RSQBuild.RSQ_MAXN ->
  exists t, qwt_new w bsize seq = Val t /\
    forall h, wtit_run (qwt_get_unchecked w bsize t) (wtit_new (qwt_len t)) h = Val (deque_run seq h).
Proof.
  intros w bsize seq Hw Hb HF Hn.
  destruct (qwt_new_correct w bsize seq Hw Hb HF Hn) as (t & E & HS).
  exists t. split; [exact E|]. apply (qwt_iter_correct w bsize t seq HS).
  rewrite RSQBuild.RSQ_MAXN_val in Hn. change (2 ^ 64) with 18446744073709551616. lia.
Qed.

Corollary hq_build_iter : forall w bsize seq tab, HQWTP.width_ok w -> (bsize = 256 \/ bsize = 512) ->
  Forall (fun x => x < 2 ^ w) seq -> len seq < RSQBuild.RSQ_MAXN -> table_ok seq tab ->
  exists t, hq_build bsize seq tab = Val t /\
    forall h, wtit_run (hq_get_unchecked w bsize t) (wtit_new (hq_len t)) h = Val (deque_run seq h).
Proof.
  intros w bsize seq tab Hw Hb HF Hn HT.
  destruct (hq_build_correct w bsize seq tab Hw Hb HF Hn HT) as (t & E & HS).
  exists t. split; [exact E|]. apply (hq_iter_correct w bsize t seq HS).
  rewrite RSQBuild.RSQ_MAXN_val in Hn. change (2 ^ 64) with 18446744073709551616. lia.
Qed.

(* ---------------------------------------------------------------- example *)
Example deque_example :
  deque_run [10; 20; 30] [INext; ILen; IBack; IBack; ILen; INext; IBack; ILen] =
  [OSome 10; OLen 2; OSome 30; OSome 20; OLen 0; ONone; ONone; OLen 0].
Proof. vm_compute. reflexivity. Qed.

(* the model iterator on the same history, over a list-backed get_unchecked *)
Example wtit_example :
  wtit_run (uidx [10; 20; 30]) (wtit_new 3) [INext; ILen; IBack; IBack; ILen; INext; IBack; ILen] =
  Val [OSome 10; OLen 2; OSome 30; OSome 20; OLen 0; ONone; ONone; OLen 0].
Proof. vm_compute. reflexivity. Qed.

Print Assumptions wtit_run_correct.
Print Assumptions wtit_forward.
Print Assumptions wtit_backward.
Print Assumptions wtit_fused.
Print Assumptions wtit_len_exact.
Print Assumptions deque_fused.
Print Assumptions deque_len_exact.
Print Assumptions qwt_iter_correct.
Print Assumptions hq_iter_correct.
Print Assumptions qwt_new_iter.
Print Assumptions hq_build_iter.
Print Assumptions deque_example.
Print Assumptions wtit_example.
