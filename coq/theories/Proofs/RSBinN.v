(* RSNarrow: construction invariant and correctness of the queries (used by RSBinP.v). *)
From Coq Require Import ZArith Lia ZifyBool ZifyN ZifyNat.
From QwtModel Require Import ListX Seq RSBin ListXP RSBinL RSBinB.
Ltac Zify.zify_post_hook ::= Z.div_mod_to_equations.
Arguments N.add : simpl never.
Arguments N.sub : simpl never.
Arguments N.mul : simpl never.
Arguments N.eqb : simpl never.
Arguments N.ltb : simpl never.
Arguments N.leb : simpl never.
Arguments N.pred : simpl never.
Arguments N.of_nat : simpl never.
Arguments N.land : simpl never.
Arguments N.lor : simpl never.
Arguments N.lxor : simpl never.
Arguments N.shiftr : simpl never.
Arguments N.shiftl : simpl never.
Arguments N.div : simpl never.
Arguments N.modulo : simpl never.
Arguments N.pow : simpl never.
Arguments N.testbit : simpl never.

Lemma RSN_BLOCK_SIZE_val : RSN_BLOCK_SIZE = 8. Proof. reflexivity. Qed.
Lemma RSN_ONES_PER_HINT_val : RSN_ONES_PER_HINT = 1024. Proof. reflexivity. Qed.
Lemma RSN_ZEROS_PER_HINT_val : RSN_ZEROS_PER_HINT = 1024. Proof. reflexivity. Qed.
Lemma RSN_SUB_BITS_val : RSN_SUB_BITS = 9. Proof. reflexivity. Qed.
Lemma RSN_SUB_BITS_TAIL_val : RSN_SUB_BITS_TAIL = 9. Proof. reflexivity. Qed.
Lemma RSN_SBR_BITS_val : RSN_SBR_BITS = 9. Proof. reflexivity. Qed.
Lemma RSN_SBR_MASK_val : RSN_SBR_MASK = 511. Proof. reflexivity. Qed.

(* in-block counters: ones of the first j words of block b *)
Definition cN (ws : list N) (b j : N) : N := R1 ws (512 * b + 64 * j) - R1 ws (512 * b).
Definition encN (ws : list N) (b : N) : N := enc 512 0 (cN ws b) 7.

Lemma cN_bound ws b j : j <= 7 -> cN ws b j < 512.
Proof. intros H. unfold cN. pose proof (R1_lip ws (512 * b) (512 * b + 64 * j)). lia. Qed.

Lemma encN_lt ws b : encN ws b < 2 ^ 63.
Proof.
  unfold encN. pose proof (enc_bound 512 0 (cN ws b) 7) as H.
  change (N.of_nat 7) with 7 in H. change ((0 + 1) * 512 ^ 7) with (2 ^ 63) in H.
  apply H; [lia|]. intros i _ Hi. apply cN_bound. lia.
Qed.

Lemma rsn_word_eq st g w :
  rsn_word st g w =
  let shift := g mod 8 in
  let pop := popcount w in
  let subranks := if 1 <=? shift then N.lor (N.shiftl (ns_subranks st) 9 mod M64) (ns_cur_subrank st)
                  else ns_subranks st in
  let next_rank := ns_next_rank st + pop in
  let zeros := ns_zeros st + (64 - pop) in
  let u1 := hint_upd 1024 (ns_s1 st) (ns_hint1 st) next_rank (g / 8) in
  let u0 := hint_upd 1024 (ns_s0 st) (ns_hint0 st) zeros (g / 8) in
  if shift =? 7
  then mk_rsns (next_rank :: subranks :: ns_pairs st) next_rank 0 0 (fst u0) (fst u1) (snd u0) (snd u1) zeros
  else mk_rsns (ns_pairs st) next_rank (ns_cur_subrank st + pop) subranks (fst u0) (fst u1) (snd u0) (snd u1) zeros.
Proof.
  unfold rsn_word, hint_upd.
  rewrite RSN_BLOCK_SIZE_val, RSN_ONES_PER_HINT_val, RSN_ZEROS_PER_HINT_val, RSN_SUB_BITS_val.
  change (8 - 1) with 7. cbv zeta.
  destruct (ns_hint1 st <? (ns_next_rank st + popcount w) / 1024);
  destruct (ns_hint0 st <? (ns_zeros st + (64 - popcount w)) / 1024); reflexivity.
Qed.

Lemma rsn_loop_inv (P : rsn_state -> N -> Prop) ws :
  (forall st g w, nthN ws g = Some w -> P st g -> P (rsn_word st g w) (g + 1)) ->
  forall rest pre st, ws = pre ++ rest -> P st (len pre) -> P (rsn_loop st (len pre) rest) (len ws).
Proof.
  intros Hstep. induction rest as [|w rest IH]; intros pre st E HP; cbn [rsn_loop].
  - subst ws. rewrite app_nil_r. exact HP.
  - replace (len pre + 1) with (len (pre ++ [w])) by (lens; lia).
    apply IH; [rewrite <- app_assoc; exact E|].
    replace (len (pre ++ [w])) with (len pre + 1) by (lens; lia).
    apply Hstep; [|exact HP]. subst ws. rewrite nthN_app2 by lia. rewrite N.sub_diag. apply nthN_0.
Qed.

Definition ninv (ws : list N) (st : rsn_state) (g : N) : Prop :=
  ns_next_rank st = R1 ws (64 * g) /\
  ns_zeros st = 64 * g - R1 ws (64 * g) /\
  ns_cur_subrank st = R1 ws (64 * g) - R1 ws (512 * (g / 8)) /\
  ns_subranks st = enc 512 0 (cN ws (g / 8)) (Nat.pred (N.to_nat (g mod 8))) /\
  (exists L, ns_pairs st = rev L /\ len L = 2 * (g / 8) + 1 /\
     (forall b, b <= g / 8 -> nthN L (2 * b) = Some (R1 ws (512 * b))) /\
     (forall b, b < g / 8 -> nthN L (2 * b + 1) = Some (encN ws b))) /\
  sinv (Rc ws true) 512 1024 (len ws / 8) (ns_s1 st) (ns_hint1 st) (R1 ws (64 * g)) /\
  sinv (Rc ws false) 512 1024 (len ws / 8) (ns_s0 st) (ns_hint0 st) (64 * g - R1 ws (64 * g)).

Definition rsn_st0 : rsn_state := mk_rsns [0] 0 0 0 [0] [0] 0 0 0.

Lemma ninv_init ws : ninv ws rsn_st0 0.
Proof.
  unfold ninv, rsn_st0. cbn [ns_next_rank ns_zeros ns_cur_subrank ns_subranks ns_pairs ns_s1 ns_s0 ns_hint1 ns_hint0].
  change (64 * 0) with 0. change (0 / 8) with 0. change (0 mod 8) with 0. change (512 * 0) with 0.
  rewrite R1_0. repeat split.
  - exists [0]. repeat split.
    + intros b Hb. replace b with 0 by lia. rewrite R1_0. reflexivity.
    + intros b Hb. lia.
  - apply sinv_init; [lia|apply Rc_0].
  - apply sinv_init; [lia|apply Rc_0].
Qed.

Section Narrow.
Hypothesis PC : popcount_ok.
Hypothesis SIW : siw_ok.

Lemma ninv_step ws st g w : words_ok ws -> nthN ws g = Some w -> ninv ws st g -> ninv ws (rsn_word st g w) (g + 1).
Proof.
  intros Hok Hg (Inext & Izeros & Icur & Isub & (L & IL & ILlen & ILa & ILb) & Is1 & Is0).
  pose proof (nthN_some_lt _ _ _ Hg) as Hglt.
  assert (Hw : w < 2 ^ 64) by apply (Forall_nthN _ _ _ _ Hok Hg).
  pose proof (popcount_le64 PC w Hw) as Hpop.
  pose proof (R1_word_full PC ws g w Hok Hg) as HR.
  pose proof (R1_le ws (64 * g)) as Hle.
  assert (Hb8 : R1 ws (512 * (g / 8)) <= R1 ws (64 * g)) by (apply R1_mono; lia).
  (* the new sub-counter word *)
  set (m := g mod 8) in *. set (b := g / 8) in *.
  assert (Hsr : (if 1 <=? m then N.lor (N.shiftl (ns_subranks st) 9 mod M64) (ns_cur_subrank st)
                 else ns_subranks st) = enc 512 0 (cN ws b) (N.to_nat m)).
  { rewrite Isub. fold m. fold b. destruct (N.leb_spec 1 m) as [Hm|Hm].
    - assert (Em : N.to_nat m = S (Nat.pred (N.to_nat m))) by lia. rewrite Em at 2. cbn [enc]. rewrite <- Em.
      rewrite N2Nat.id.
      set (a := enc 512 0 (cN ws b) (Nat.pred (N.to_nat m))).
      assert (Ha : a < 2 ^ 54).
      { pose proof (enc_bound 512 0 (cN ws b) (Nat.pred (N.to_nat m))) as Hb.
        assert (512 ^ N.of_nat (Nat.pred (N.to_nat m)) <= 512 ^ 6) by (apply N.pow_le_mono_r; unfold m; lia).
        change (512 ^ 6) with (2 ^ 54) in H.
        assert (a < (0 + 1) * 512 ^ N.of_nat (Nat.pred (N.to_nat m))).
        { apply Hb; [lia|]. intros i _ Hi. apply cN_bound. unfold m in *. lia. }
        lia. }
      assert (Hc : ns_cur_subrank st = cN ws b m).
      { rewrite Icur. unfold cN. fold b. f_equal. f_equal. unfold b, m. lia. }
      rewrite Hc. pose proof (cN_bound ws b m) as Hcb.
      rewrite N.shiftl_mul_pow2. rewrite N.mod_small.
      + rewrite <- N.shiftl_mul_pow2. rewrite lor_shiftl_add by (change (2 ^ 9) with 512; apply Hcb; unfold m; lia).
        reflexivity.
      + change (2 ^ 9) with 512. change M64 with (2 ^ 54 * 1024). lia.
    - replace m with 0 by lia. reflexivity. }
  rewrite rsn_word_eq. cbv zeta. fold m. fold b. rewrite Hsr.
  assert (Hs1 := sinv_step (Rc ws true) 512 1024 (len ws / 8) (ns_s1 st) (ns_hint1 st)
                  (R1 ws (64 * g)) (R1 ws (64 * (g + 1))) b).
  assert (Hs0 := sinv_step (Rc ws false) 512 1024 (len ws / 8) (ns_s0 st) (ns_hint0 st)
                  (64 * g - R1 ws (64 * g)) (64 * (g + 1) - R1 ws (64 * (g + 1))) b).
  assert (Hs1' : sinv (Rc ws true) 512 1024 (len ws / 8)
            (fst (hint_upd 1024 (ns_s1 st) (ns_hint1 st) (ns_next_rank st + popcount w) b))
            (snd (hint_upd 1024 (ns_s1 st) (ns_hint1 st) (ns_next_rank st + popcount w) b))
            (R1 ws (64 * (g + 1)))).
  { rewrite Inext, <- HR.
    apply Hs1; [lia|assumption|lia|lia|unfold b; lia
               |cbn [Rc]; unfold b; apply R1_mono; lia|cbn [Rc]; unfold b; apply R1_mono; lia]. }
  assert (Hs0' : sinv (Rc ws false) 512 1024 (len ws / 8)
            (fst (hint_upd 1024 (ns_s0 st) (ns_hint0 st) (ns_zeros st + (64 - popcount w)) b))
            (snd (hint_upd 1024 (ns_s0 st) (ns_hint0 st) (ns_zeros st + (64 - popcount w)) b))
            (64 * (g + 1) - R1 ws (64 * (g + 1)))).
  { replace (ns_zeros st + (64 - popcount w)) with (64 * (g + 1) - R1 ws (64 * (g + 1))) by lia.
    apply Hs0; [lia|assumption|lia|lia|unfold b; lia| |].
    - change (64 * g - R1 ws (64 * g)) with (Rc ws false (64 * g)). apply Rc_mono. unfold b. lia.
    - change (64 * (g + 1) - R1 ws (64 * (g + 1))) with (Rc ws false (64 * (g + 1))). apply Rc_mono. unfold b. lia. }
  clear Hs1 Hs0.
  destruct (N.eqb_spec m 7) as [Hm7|Hm7].
  - (* the block is complete *)
    assert (E8 : (g + 1) / 8 = b + 1) by (unfold b, m in *; lia).
    assert (Em : (g + 1) mod 8 = 0) by (unfold b, m in *; lia).
    assert (E64 : 64 * (g + 1) = 512 * (b + 1)) by (unfold b, m in *; lia).
    unfold ninv. cbn [ns_next_rank ns_zeros ns_cur_subrank ns_subranks ns_pairs ns_s1 ns_s0 ns_hint1 ns_hint0].
    rewrite E8, Em. split; [lia|]. split; [lia|]. split; [rewrite E64; lia|]. split; [reflexivity|].
    split; [|split; assumption].
    exists (L ++ [enc 512 0 (cN ws b) (N.to_nat m); ns_next_rank st + popcount w]).
    split; [rewrite rev_app_distr, IL; reflexivity|]. split; [lens; lia|]. split.
    + intros b' Hb'. destruct (N.eq_dec b' (b + 1)) as [->|Hne].
      * rewrite nthN_app2 by lia. replace (2 * (b + 1) - len L) with (0 + 1) by lia.
        rewrite nthN_succ, nthN_0. f_equal. rewrite <- E64. lia.
      * rewrite nthN_app1 by lia. apply ILa. fold b. lia.
    + intros b' Hb'. destruct (N.eq_dec b' b) as [->|Hne].
      * rewrite nthN_app2 by lia. replace (2 * b + 1 - len L) with 0 by lia.
        rewrite nthN_0. rewrite Hm7. reflexivity.
      * rewrite nthN_app1 by lia. apply ILb. fold b. lia.
  - assert (E8 : (g + 1) / 8 = b) by (unfold b, m in *; lia).
    assert (Em : (g + 1) mod 8 = m + 1) by (unfold b, m in *; lia).
    unfold ninv. cbn [ns_next_rank ns_zeros ns_cur_subrank ns_subranks ns_pairs ns_s1 ns_s0 ns_hint1 ns_hint0].
    rewrite E8, Em. split; [lia|]. split; [lia|]. split; [fold b in Hb8; lia|].
    split; [f_equal; lia|]. split; [|split; assumption].
    exists L. fold b in ILlen, ILa, ILb. repeat split; assumption.
Qed.

Lemma ninv_final ws : words_ok ws -> ninv ws (rsn_loop rsn_st0 0 ws) (len ws).
Proof.
  intros Hok. apply (rsn_loop_inv (ninv ws) ws) with (pre := []); [|reflexivity|apply ninv_init].
  intros st g w Hg Hi. now apply ninv_step.
Qed.

(* ------------------------------------------------------------------ the directory *)
Definition rsn_last (nl : N) : N := if 0 <? nl mod 8 then nl + 1 else nl.

Definition rsn_dir_ok (ws : list N) (lastb : N) (r : rsnarrow) : Prop :=
  len (rsn_pairs r) = 2 * (lastb + 1) /\
  (forall b, b <= lastb -> nthN (rsn_pairs r) (2 * b) = Some (R1 ws (512 * b)) /\
                           nthN (rsn_pairs r) (2 * b + 1) = Some (encN ws b)) /\
  samples_ok (Rc ws true) 512 1024 (64 * len ws) lastb (Rc ws true (64 * len ws)) (rsn_samples1 r) /\
  samples_ok (Rc ws false) 512 1024 (64 * len ws) lastb (Rc ws false (64 * len ws)) (rsn_samples0 r).

Lemma encN_tail ws b : len ws <= 8 * b -> encN ws b = 0.
Proof.
  intros H. unfold encN. rewrite enc_zero; [reflexivity|].
  intros i _ _. unfold cN. rewrite (R1_sat ws (512 * b + 64 * i)), (R1_sat ws (512 * b)) by lia. lia.
Qed.

Lemma rsn_new_ok bv : bv_wf bv -> exists r, rsn_new bv = Val r /\ rsn_bv r = bv /\
  rsn_dir_ok (bv_words bv) (rsn_last (nlines bv)) r.
Proof.
  intros Hwf. pose proof (wf_len bv Hwf) as Hlen. pose proof (wf_ok bv Hwf) as Hok.
  set (ws := bv_words bv) in *. set (nl := nlines bv) in *.
  destruct (ninv_final ws Hok) as (Inext & Izeros & Icur & Isub & (L & IL & ILlen & ILa & ILb) & Is1 & Is0).
  unfold rsn_new. fold ws. fold rsn_st0. set (st := rsn_loop rsn_st0 0 ws) in *.
  assert (E8 : len ws / 8 = nl) by lia. assert (Em : len ws mod 8 = 0) by lia.
  rewrite E8 in *. rewrite Em in Isub.
  assert (Ecur : ns_cur_subrank st = 0) by (rewrite Icur; replace (64 * len ws) with (512 * nl) by lia; lia).
  assert (Esub : ns_subranks st = 0) by (rewrite Isub; reflexivity).
  rewrite Ecur, Esub, RSN_BLOCK_SIZE_val.
  rewrite iterN_fix by reflexivity.
  assert (Htail : forall b, nl <= b -> R1 ws (512 * b) = R1 ws (64 * len ws) /\ encN ws b = 0).
  { intros b Hb. split; [apply R1_sat; lia|apply encN_tail; lia]. }
  assert (Hs1 := fun lastb => sinv_final _ _ _ _ _ _ _ lastb (64 * len ws) Is1).
  assert (Hs0 := fun lastb => sinv_final _ _ _ _ _ _ _ lastb (64 * len ws) Is0).
  unfold rsn_last. fold nl. destruct (N.ltb_spec 0 (nl mod 8)) as [Hm|Hm].
  - (* an extra pair *)
    assert (Elen : len (0 :: ns_next_rank st :: 0 :: ns_pairs st) / 2 = nl + 2).
    { rewrite IL. lens. unfold len at 1. rewrite rev_length. fold (len L). lia. }
    rewrite Elen. unfold osub. destruct (N.leb_spec 1 (nl + 2)); [|lia]. cbn [bind].
    replace (nl + 2 - 1) with (nl + 1) by lia.
    eexists. split; [reflexivity|]. split; [reflexivity|].
    unfold rsn_dir_ok. cbn [rsn_pairs rsn_samples0 rsn_samples1].
    assert (Ep : rev (0 :: ns_next_rank st :: 0 :: ns_pairs st) = L ++ [0; ns_next_rank st; 0]).
    { cbn [rev]. rewrite IL, rev_involutive, <- !app_assoc. reflexivity. }
    rewrite Ep. split; [lens; lia|]. split.
    + intros b Hb. destruct (N.le_gt_cases b nl) as [Hb1|Hb1].
      * split; [rewrite nthN_app1 by lia; apply ILa; lia|].
        destruct (N.eq_dec b nl) as [->|Hne].
        -- rewrite nthN_app2 by lia. replace (2 * nl + 1 - len L) with 0 by lia. rewrite nthN_0.
           f_equal. symmetry. apply Htail. lia.
        -- rewrite nthN_app1 by lia. apply ILb. lia.
      * assert (b = nl + 1) by lia. subst b. destruct (Htail (nl + 1)) as [T1 T2]; [lia|].
        rewrite T1, T2, <- Inext. split.
        -- rewrite nthN_app2 by lia. replace (2 * (nl + 1) - len L) with (0 + 1) by lia.
           rewrite nthN_succ. apply nthN_0.
        -- rewrite nthN_app2 by lia. replace (2 * (nl + 1) + 1 - len L) with (0 + 1 + 1) by lia.
           rewrite !nthN_succ. apply nthN_0.
    + split; [apply Hs1|apply Hs0]; lia.
  - assert (Elen : len (0 :: ns_pairs st) / 2 = nl + 1).
    { rewrite IL. lens. unfold len at 1. rewrite rev_length. fold (len L). lia. }
    rewrite Elen. unfold osub. destruct (N.leb_spec 1 (nl + 1)); [|lia]. cbn [bind].
    replace (nl + 1 - 1) with nl by lia.
    eexists. split; [reflexivity|]. split; [reflexivity|].
    unfold rsn_dir_ok. cbn [rsn_pairs rsn_samples0 rsn_samples1].
    assert (Ep : rev (0 :: ns_pairs st) = L ++ [0]).
    { cbn [rev]. rewrite IL, rev_involutive. reflexivity. }
    rewrite Ep. split; [lens; lia|]. split.
    + intros b Hb. split; [rewrite nthN_app1 by lia; apply ILa; lia|].
      destruct (N.eq_dec b nl) as [->|Hne].
      * rewrite nthN_app2 by lia. replace (2 * nl + 1 - len L) with 0 by lia. rewrite nthN_0.
        f_equal. symmetry. apply Htail. lia.
      * rewrite nthN_app1 by lia. apply ILb. lia.
    + split; [apply Hs1|apply Hs0]; lia.
Qed.

(* ------------------------------------------------------------------ queries *)
Lemma nthN_abs b i : nthN (bv_abs b) i =
  if i <? bv_nbits b then option_map (fun x => x =? 1) (nthN (FL (bv_words b)) i) else None.
Proof.
  unfold bv_abs. rewrite nthN_map, nthN_firstnN. fold (FL (bv_words b)).
  destruct (i <? bv_nbits b); reflexivity.
Qed.

Section NQueries.
Variable bv : bitvec.
Variable r : rsnarrow.
Hypothesis Hwf : bv_wf bv.
Hypothesis Hbv : rsn_bv r = bv.
Let ws := bv_words bv.
Let nl := nlines bv.
Let lastb := rsn_last nl.
Hypothesis Hdir : rsn_dir_ok ws lastb r.

Lemma nl_le_lastb : nl <= lastb.
Proof. unfold lastb, rsn_last. destruct (0 <? nl mod 8); lia. Qed.

Lemma lastb_small : lastb < 2 ^ 40.
Proof.
  pose proof (wf_nbits bv Hwf) as Hn. fold nl in Hn. unfold lastb, rsn_last.
  change (2 ^ 43) with 8796093022208 in Hn. change (2 ^ 40) with 1099511627776.
  destruct (0 <? nl mod 8); lia.
Qed.

Lemma R1_small j : R1 ws j < 2 ^ 44.
Proof.
  pose proof (R1_le_len ws j) as H. pose proof (wf_len bv Hwf) as Hl. pose proof (wf_nbits bv Hwf) as Hn.
  fold ws in Hl. fold nl in Hl, Hn. change (2 ^ 43) with 8796093022208 in Hn. change (2 ^ 44) with 17592186044416. lia.
Qed.

Lemma rsn_block_rank_ok b : b <= lastb -> rsn_block_rank r b = Val (R1 ws (512 * b)).
Proof.
  intros Hb. destruct Hdir as (_ & Hp & _). pose proof lastb_small as Hs. change (2 ^ 40) with 1099511627776 in Hs.
  unfold rsn_block_rank, omul. change (2 ^ 64) with 18446744073709551616.
  destruct (N.ltb_spec (b * 2) 18446744073709551616); [|lia]. cbn [bind]. unfold idx.
  replace (b * 2) with (2 * b) by lia. rewrite (proj1 (Hp b Hb)). reflexivity.
Qed.

Lemma rsn_sub_block_rank_ok s : s / 8 <= lastb -> rsn_sub_block_rank r s = Val (R1 ws (64 * s)).
Proof.
  intros Hs. destruct Hdir as (_ & Hp & _). pose proof lastb_small as Hsm. change (2 ^ 40) with 1099511627776 in Hsm.
  unfold rsn_sub_block_rank.
  rewrite RSN_BLOCK_SIZE_val, RSN_SBR_BITS_val, RSN_SBR_MASK_val.
  rewrite rsn_block_rank_ok by assumption. cbn [bind]. unfold rsn_sub_block_ranks, omul, oadd.
  change (2 ^ 64) with 18446744073709551616.
  destruct (N.ltb_spec (s / 8 * 2) 18446744073709551616); [|lia]. cbn [bind].
  destruct (N.ltb_spec (s / 8 * 2 + 1) 18446744073709551616); [|lia]. cbn [bind]. unfold idx.
  replace (s / 8 * 2 + 1) with (2 * (s / 8) + 1) by lia. rewrite (proj2 (Hp (s / 8) Hs)). cbn [bind].
  unfold osub. destruct (N.leb_spec (s mod 8) 7); [|lia]. cbn [bind].
  unfold oshr. destruct (N.ltb_spec ((7 - s mod 8) * 9) 64); [|lia]. cbn [bind].
  rewrite land511.
  match goal with |- (if ?a + ?x mod 512 <? _ then _ else _) = _ =>
    pose proof (R1_small (512 * (s / 8))) as Hr; change (2 ^ 44) with 17592186044416 in Hr;
    destruct (N.ltb_spec (a + x mod 512) 18446744073709551616); [|lia] end.
  f_equal. rewrite N.shiftr_div_pow2.
  replace ((7 - s mod 8) * 9) with (9 * (7 - s mod 8)) by lia. rewrite N.pow_mul_r. change (2 ^ 9) with 512.
  destruct (N.eq_dec (s mod 8) 0) as [E|E].
  - rewrite E. change (7 - 0) with 7. rewrite (N.div_small (encN ws (s / 8)) (512 ^ 7)) by (change (512 ^ 7) with (2 ^ 63); apply encN_lt).
    change (0 mod 512) with 0. rewrite N.add_0_r. f_equal. lia.
  - unfold encN. pose proof (enc_field 512 0 (cN ws (s / 8)) 7) as Hf. change (N.of_nat 7) with 7 in Hf.
    rewrite Hf; [|lia|intros i _ Hi; apply cN_bound; lia|lia|lia].
    unfold cN. replace (512 * (s / 8) + 64 * (s mod 8)) with (64 * s) by lia.
    pose proof (R1_mono ws (512 * (s / 8)) (64 * s)). lia.
Qed.

Lemma len_ws : len ws = 8 * nl.
Proof. apply wf_len. exact Hwf. Qed.

Lemma rsn_rank1_unchecked_ok i : i <= bv_nbits bv -> rsn_rank1_unchecked r i = Val (R1 ws i).
Proof.
  intros Hi. unfold rsn_rank1_unchecked. destruct (N.eqb_spec i 0) as [->|Hi0].
  - unfold ws. rewrite R1_0. reflexivity.
  - pose proof (wf_nbits bv Hwf) as Hn. pose proof len_ws as Hl. pose proof nl_le_lastb as Hll. fold nl in Hn.
    rewrite shiftr6, land63, shiftr3, Hbv. fold ws.
    rewrite rsn_sub_block_rank_ok by lia. cbn [bind].
    destruct (N.ltb_spec ((i - 1) / 64 / 8 * 8) (len ws)); [|lia]. cbn [bind].
    destruct (nthN_lt_some ws ((i - 1) / 64)) as (w & Ew); [lia|].
    unfold idx. rewrite Ew. cbn [bind]. f_equal.
    rewrite popcount_shl_low by lia.
    rewrite <- (R1_word PC ws _ w _ Ew) by lia. f_equal. lia.
Qed.

Let s := bv_abs bv.

Lemma rsn_rank1_ok i :
  rsn_rank1 r i = Val (if (negb (len s =? 0)) && (i <=? len s) then Some (rank1_spec s i) else None).
Proof.
  unfold rsn_rank1, s. rewrite (len_abs bv Hwf), Hbv. unfold bv_is_empty, bv_len.
  destruct (N.eqb_spec (bv_nbits bv) 0) as [E|E]; cbn [negb orb andb]; [reflexivity|].
  destruct (N.ltb_spec (bv_nbits bv) i); destruct (N.leb_spec i (bv_nbits bv)); try lia; [reflexivity|].
  rewrite rsn_rank1_unchecked_ok by assumption. cbn [bind]. rewrite rank1_abs by assumption. reflexivity.
Qed.

Lemma rsn_rank0_ok i :
  rsn_rank0 r i = Val (if (negb (len s =? 0)) && (i <=? len s) then Some (rank0_spec s i) else None).
Proof.
  unfold rsn_rank0. rewrite rsn_rank1_ok. cbn [bind]. unfold s. rewrite (len_abs bv Hwf).
  destruct (N.eqb_spec (bv_nbits bv) 0) as [E|E]; cbn [negb andb]; [reflexivity|].
  destruct (N.leb_spec i (bv_nbits bv)); [|reflexivity].
  rewrite rank1_abs, rank0_abs by assumption. pose proof (R1_le (bv_words bv) i).
  unfold osub. destruct (N.leb_spec (R1 (bv_words bv) i) i); [|lia]. reflexivity.
Qed.

Lemma rsn_n_ones_ok : rsn_n_ones r = Val (countb s).
Proof.
  unfold rsn_n_ones, s. rewrite (countb_abs bv Hwf). rewrite Hbv. unfold bv_is_empty, bv_len.
  destruct (N.eqb_spec (bv_nbits bv) 0) as [E|E].
  - rewrite E, R1_0. reflexivity.
  - rewrite rsn_rank1_ok. unfold s. rewrite (len_abs bv Hwf).
    destruct (N.eqb_spec (bv_nbits bv) 0); [lia|]. destruct (N.leb_spec (bv_nbits bv - 1) (bv_nbits bv)); [|lia].
    cbn [negb andb bind ounwrap]. rewrite (bv_get_correct bv _ Hwf). cbn [bind].
    rewrite nthN_abs. destruct (N.ltb_spec (bv_nbits bv - 1) (bv_nbits bv)); [|lia].
    pose proof (wf_nbits bv Hwf) as Hn. pose proof len_ws as Hl. fold nl in Hn.
    destruct (nthN_lt_some (FL (bv_words bv)) (bv_nbits bv - 1)) as (x & Ex); [rewrite len_FL; fold ws; lia|].
    rewrite Ex. cbn [option_map ounwrap bind]. f_equal.
    rewrite (rank1_abs bv _ Hwf) by lia. unfold R1.
    replace (bv_nbits bv) with (bv_nbits bv - 1 + 1) at 2 by lia.
    rewrite (rank_spec_succ _ _ _ _ Ex). reflexivity.
Qed.

Lemma rsn_n_zeros_ok : rsn_n_zeros r = Val (len s - countb s).
Proof.
  unfold rsn_n_zeros. rewrite rsn_n_ones_ok. cbn [bind]. rewrite Hbv. unfold bv_len, s.
  rewrite (len_abs bv Hwf), (countb_abs bv Hwf). pose proof (R1_le (bv_words bv) (bv_nbits bv)).
  unfold osub. destruct (N.leb_spec (R1 (bv_words bv) (bv_nbits bv)) (bv_nbits bv)); [reflexivity|lia].
Qed.

(* select *)
Definition nblk (one : bool) (r : rsnarrow) (b : N) : outcome N :=
  if one then rsn_block_rank r b
  else let! br := rsn_block_rank r b in osub (RSN_BLOCK_SIZE * 64 * b) br.
Definition nsub (one : bool) (r : rsnarrow) (s : N) : outcome N :=
  if one then rsn_sub_block_rank r s
  else let! sr := rsn_sub_block_rank r s in osub (64 * s) sr.

Lemma rsn_select_subblock_eq one i : rsn_select_subblock one r i =
  let samples := if one then rsn_samples1 r else rsn_samples0 r in
  let! hs := idx samples (i / 1024) in
  let! he0 := idx samples (i / 1024 + 1) in
  let! hs' := scan_while (nblk one r) i hs (1 + he0) (S (length (rsn_pairs r))) in
  let! p0 := osub hs' 1 in
  let! position := scan_for (nsub one r) i (p0 * 8) 0 8 in
  let! rank := nsub one r position in
  Val (position, rank).
Proof. destruct one; reflexivity. Qed.

Lemma nblk_ok one b : b <= lastb -> nblk one r b = Val (Rc ws one (512 * b)).
Proof.
  intros Hb. unfold nblk. rewrite rsn_block_rank_ok by assumption. destruct one; [reflexivity|].
  cbn [bind Rc]. rewrite RSN_BLOCK_SIZE_val. replace (8 * 64 * b) with (512 * b) by lia.
  pose proof (R1_le ws (512 * b)). unfold osub. destruct (N.leb_spec (R1 ws (512 * b)) (512 * b)); [reflexivity|lia].
Qed.

Lemma nsub_ok one s0 : s0 / 8 <= lastb -> nsub one r s0 = Val (Rc ws one (64 * s0)).
Proof.
  intros Hb. unfold nsub. rewrite rsn_sub_block_rank_ok by assumption. destruct one; [reflexivity|].
  cbn [bind Rc]. pose proof (R1_le ws (64 * s0)).
  unfold osub. destruct (N.leb_spec (R1 ws (64 * s0)) (64 * s0)); [reflexivity|lia].
Qed.

Lemma rsn_select_subblock_ok one k p : select_spec (FL ws) (cbit one) k = Some p ->
  rsn_select_subblock one r k = Val (p / 64, Rc ws one (64 * (p / 64))).
Proof.
  intros Hsel. destruct (Rc_select ws one k p Hsel) as (Hp & HRp & HRp1).
  pose proof len_ws as Hl. pose proof nl_le_lastb as Hll.
  destruct Hdir as (Hplen & _ & Hsam1 & Hsam0).
  assert (Hsam : samples_ok (Rc ws one) 512 1024 (64 * len ws) lastb (Rc ws one (64 * len ws))
                   (if one then rsn_samples1 r else rsn_samples0 r)) by (destruct one; assumption).
  assert (Hmono : forall i j, i <= j -> Rc ws one i <= Rc ws one j) by (intros; now apply Rc_mono).
  assert (Hkt : k < Rc ws one (64 * len ws)).
  { pose proof (Hmono (p + 1) (64 * len ws)). lia. }
  assert (H512 : 0 < 512) by lia. assert (H1024 : 0 < 1024) by lia.
  assert (Hk1 : Rc ws one p <= k) by lia. assert (Hk2 : k < Rc ws one (p + 1)) by lia.
  destruct (samples_bracket _ _ _ _ _ _ _ k p H512 H1024 Hmono Hsam Hp Hk1 Hk2 Hkt)
    as (hs & he & Ehs & Ehe & Hhs & Hhe & Hhel).
  rewrite rsn_select_subblock_eq. cbv zeta. unfold idx at 1. rewrite Ehs. cbn [bind].
  unfold idx at 1. rewrite Ehe. cbn [bind].
  rewrite (scan_while_find (nblk one r) (fun b => Rc ws one (512 * b)) k (p / 512 + 1)).
  - cbn [bind]. unfold osub. destruct (N.leb_spec 1 (p / 512 + 1)); [|lia]. cbn [bind].
    replace (p / 512 + 1 - 1) with (p / 512) by lia.
    rewrite (scan_for_find (nsub one r) (fun s0 => Rc ws one (64 * s0)) k (p / 512 * 8) (p / 64 - p / 512 * 8)).
    + cbn [bind]. replace (p / 512 * 8 + (p / 64 - p / 512 * 8)) with (p / 64) by lia.
      rewrite nsub_ok by lia. reflexivity.
    + lia.
    + intros j Hj. rewrite nsub_ok by lia. split; [reflexivity|].
      rewrite <- HRp. apply Hmono. lia.
    + intros Hj. rewrite nsub_ok by lia. split; [reflexivity|].
      assert (Rc ws one (p + 1) <= Rc ws one (64 * (p / 512 * 8 + (p / 64 - p / 512 * 8 + 1)))) by (apply Hmono; lia).
      lia.
  - lia.
  - lia.
  - intros b Hb1 Hb2. cbv beta. rewrite nblk_ok by lia. split; [reflexivity|].
    rewrite <- HRp. apply Hmono. lia.
  - intros Hlt. cbv beta. rewrite nblk_ok by lia. split; [reflexivity|].
    assert (Rc ws one (p + 1) <= Rc ws one (512 * (p / 512 + 1))) by (apply Hmono; lia). lia.
  - unfold len in Hplen. lia.
Qed.

Lemma rsn_select_unchecked_ok one k p : select_spec (map N_of_bool s) (cbit one) k = Some p ->
  rsn_select_unchecked one r k = Val p.
Proof.
  intros Hsel0. pose proof (select_abs bv one k p Hsel0) as Hsel. fold ws in Hsel.
  destruct (Rc_select ws one k p Hsel) as (Hp & HRp & HRp1). pose proof len_ws as Hl.
  unfold rsn_select_unchecked. rewrite (rsn_select_subblock_ok one k p Hsel). cbn [bind].
  rewrite shiftr3, Hbv. fold ws.
  destruct (N.ltb_spec (p / 64 / 8 * 8) (len ws)); [|lia]. cbn [bind].
  destruct (nthN_lt_some ws (p / 64)) as (w & Ew); [lia|].
  unfold idx. rewrite Ew. cbn [bind].
  assert (Hle : Rc ws one (64 * (p / 64)) <= k) by (rewrite <- HRp; apply Rc_mono; lia).
  unfold osub. destruct (N.leb_spec (Rc ws one (64 * (p / 64))) k); [|lia]. cbn [bind].
  change (if one then w else notw w) with (wsel one w).
  rewrite (siw_c SIW one w _ (p mod 64)).
  - cbn [bind]. f_equal. lia.
  - apply (Forall_nthN _ _ _ _ (wf_ok bv Hwf) Ew).
  - apply select_word_local; assumption.
Qed.

Lemma rsn_select1_ok k : rsn_select1 r k = Val (select1_spec s k).
Proof.
  unfold rsn_select1. rewrite rsn_n_ones_ok. cbn [bind]. unfold select1_spec.
  destruct (N.leb_spec (countb s) k) as [Hle|Hlt].
  - symmetry. f_equal. apply select_spec_none_iff. rewrite <- countb_countN. exact Hle.
  - destruct (select_spec_lt (map N_of_bool s) 1 k) as (p & Ep); [rewrite <- countb_countN; exact Hlt|].
    rewrite Ep. rewrite (rsn_select_unchecked_ok true k p Ep). reflexivity.
Qed.

Lemma rsn_select0_ok k : rsn_select0 r k = Val (select0_spec s k).
Proof.
  unfold rsn_select0. rewrite rsn_n_zeros_ok. cbn [bind]. unfold select0_spec.
  assert (Hc : countN 0 (map N_of_bool s) = len s - countb s).
  { unfold s. pose proof (count_abs bv false Hwf) as Hc0. cbn [cbit Rc] in Hc0.
    rewrite Hc0, (len_abs bv Hwf), (countb_abs bv Hwf). reflexivity. }
  destruct (N.leb_spec (len s - countb s) k) as [Hle|Hlt].
  - symmetry. f_equal. apply select_spec_none_iff. rewrite Hc. exact Hle.
  - destruct (select_spec_lt (map N_of_bool s) 0 k) as (p & Ep); [rewrite Hc; exact Hlt|].
    rewrite Ep. rewrite (rsn_select_unchecked_ok false k p Ep). reflexivity.
Qed.

End NQueries.
End Narrow.
