(* T3 (RSWide: superblock_rank, sub_block_rank): see Proofs/LeavesLib.v for the explanation.  Written once; compiles
   as long as the definitions regenerated from src/bitvector/rs_wide.rs keep their meaning.

   No disagreement with the hand model (Model/RSBin.v) on in-range arguments.  Hypothesis beyond the parameter
   type: the type invariant of `Box<[u128]>` (entries below 2^128): then `(m >> 84) as usize` truncates nothing,
   `result = 0; result += ..` and the addition of a 12-bit field to a 44-bit counter cannot overflow, and the
   shift amount `(7 - left) * 12` is at most 72. *)
From Coq Require Import ZArith Lia ZifyBool ZifyN.
From QwtModel Require Import ListX Consts SelTable Words RSBin LeavesRSW LeavesLib.
Open Scope N_scope.

(* ------------------------------------------------------------------ RSWide::superblock_rank *)
Theorem g_rsw_superblock_rank_ok : forall r block,
  Forall (fun w => w < 2 ^ 128) (rsw_meta r) -> block < 2 ^ 64 ->
  g_rsw_superblock_rank (rsw_meta r) block = rsw_superblock_rank r block.
Proof.
  intros r block HF _. unfold g_rsw_superblock_rank, rsw_superblock_rank, RSW_SB_SHIFT_RD.
  obind_as m E. pose proof (idx_Forall _ _ _ _ HF E) as Hm. cbv beta in Hm.
  assert (Hs : N.shiftr m 84 < 2 ^ 44) by (apply shiftr_lt; exact Hm).
  now rewrite N.mod_small by lia.
Qed.

Lemma rsw_superblock_rank_lt r b v : Forall (fun w => w < 2 ^ 128) (rsw_meta r) ->
  rsw_superblock_rank r b = Val v -> v < 2 ^ 44.
Proof.
  intros HF. unfold rsw_superblock_rank, RSW_SB_SHIFT_RD. destruct (idx (rsw_meta r) b) as [m|] eqn:E; cbn [bind]; [|discriminate].
  intros Ev. apply Val_inj in Ev. rewrite <- Ev. pose proof (idx_Forall _ _ _ _ HF E) as Hm. cbv beta in Hm.
  apply shiftr_lt. exact Hm.
Qed.

(* ------------------------------------------------------------------ RSWide::sub_block_rank *)
Theorem g_rsw_sub_block_rank_ok : forall r sub_block,
  Forall (fun w => w < 2 ^ 128) (rsw_meta r) -> sub_block < 2 ^ 64 ->
  g_rsw_sub_block_rank (rsw_meta r) sub_block = rsw_sub_block_rank r sub_block.
Proof.
  intros r sb HF Hsb.
  unfold g_rsw_sub_block_rank, rsw_sub_block_rank, RSW_BLK_BITS_RD, RSW_BLK_MASK. cbv zeta.
  fold_consts.
  assert (Hb : sb / 8 < 2 ^ 64) by (apply div_lt_bound; exact Hsb).
  assert (Hl : sb mod 8 < 8) by (apply N.mod_upper_bound; discriminate).
  remember (sb mod 8) as left eqn:El. clear El.
  rewrite g_rsw_superblock_rank_ok by assumption.
  obind_as sr E1. pose proof (rsw_superblock_rank_lt _ _ _ HF E1) as Hsr.
  rewrite oadd_0_l by lia. cbn [bind].
  rewrite ?bind_Val_r.
  rewrite ?(N.eqb_sym 0 left).
  destruct (N.eqb_spec left 0) as [E0|E0]; cbn [negb]; cbv iota; [reflexivity|].
  obind_as m E2.
  assert (H12 : forall x, N.land x 4095 < 2 ^ 12) by (intros x; apply (land_ones_lt x 12)).
  unfold osub. ocase. unfold omul. ocase. unfold oshr. ocase.
  rewrite N.mod_small by (eapply N.lt_trans; [apply H12|reflexivity]).
  rewrite ?bind_Val_r. unfold oadd.
  pose proof (H12 (N.shiftr m ((7 - left) * 12))). ocase. reflexivity.
Qed.

Print Assumptions g_rsw_superblock_rank_ok.
Print Assumptions g_rsw_sub_block_rank_ok.
