(* T5 (bit-vector iterators of src/bitvector/mod.rs): the definitions REGENERATED from the Rust source
   (Gen/FnsIters.v: BitVectorBitPositionsIter<BIT>::{new, with_pos, next} for BIT = true / false and
   BitVectorIter::{next, len}) agree with the hand model (Model/BitVec.v: pi_new, pi_with_pos, pi_next,
   pi_collect, bvit_next, bvit_len), and the correctness theorems of the hand model (Proofs/BitVecP.v:
   pi_collect_correct, pi_next_none_forever, bvit_correct; pinned as C08_positions, C08_positions_fused,
   C12_bits) are transferred to the generated code.

   Summary (exact statements below).
     g_pi_new_ok          new: equality, no hypothesis.
     g_pi_with_pos_ok     with_pos: equality for pos < 2^64.  The only operation that can fault is the checked
                          `cur_word_pos + 1` with cur_word_pos = pos >> 6 (it cannot for a usize pos); the shift
                          `cur_word >> (pos % 64)` is always in range and the read `data[cur_word_pos]` is guarded.
     g_pi_next_ok         next: for every state satisfying [pi_reach] (defined here; holds for pi_new, for
                          pi_with_pos with pos < 2^64 - 64 or pos >= n_bits, preserved by pi_next), words < 2^64,
                          len words < 2^58 and every fuel >= S (length words): the generated function returns the
                          RESULT of the hand pi_next and the state [g_state_after], which is the state of the hand
                          pi_next except when the refill loop ran off the end of the words ([pi_exhausted]):
                          there the hand model normalises cur_position to its value on entry whereas the code
                          leaves `cur_word_pos << 6` of the last word loaded (GENUINE, deliberate, difference of
                          the states: [state_mismatch_example]); cur_word_pos and cur_word agree also there.
     g_pi_next_state      the states agree whenever the loop was not exhausted, in particular (g_pi_next_some)
                          whenever the result is Some.
     g_pi_next_fused      from EVERY state (no invariant): after the generated next has returned None, calling
                          it again returns None and leaves the state unchanged (so does every further call).
     g_pi_collect_ok      the observable run (collect until the first None) of the generated next equals the
                          hand pi_collect, from every reachable state.
     g_positions_correct  END-TO-END (C08): for bv_inv b, pos < 2^64: generated with_pos / new followed by the
                          generated next collects exactly positions_from bit (bv_abs b) pos / 0.
     g_bvit_next_ok, g_bvit_len_ok, g_bvit_correct   BitVectorIter (C12_bits on generated code). *)
From Coq Require Import ZArith Lia ZifyBool ZifyN ZifyNat.
From QwtModel Require Import ListX Loops Consts Words BitVec ListXP BitsLib BitVecW BitVecIter BitVecP
  LeavesUtils FnsBv FnsIters LeavesLib FnsBvOk.
Open Scope N_scope.
Ltac Zify.zify_post_hook ::= Z.div_mod_to_equations.
Arguments N.add : simpl never.
Arguments N.sub : simpl never.
Arguments N.mul : simpl never.
Arguments N.eqb : simpl never.
Arguments N.ltb : simpl never.
Arguments N.leb : simpl never.
Arguments N.pred : simpl never.
Arguments N.of_nat : simpl never.
Arguments N.land : simpl never.
Arguments N.lor : simpl never.
Arguments N.lxor : simpl never.
Arguments N.shiftr : simpl never.
Arguments N.shiftl : simpl never.
Arguments N.testbit : simpl never.
Arguments N.div : simpl never.
Arguments N.modulo : simpl never.
Arguments N.pow : simpl never.
Arguments N.max : simpl never.

(* ================================================================== dispatch on the const parameter BIT *)
Definition g_pi_new (bit : bool) := if bit then g_pi1_new else g_pi0_new.
Definition g_pi_with_pos (bit : bool) := if bit then g_pi1_with_pos else g_pi0_with_pos.
Definition g_pi_next (bit : bool) := if bit then g_pi1_next else g_pi0_next.

(* the two instances of next are one text with the loaded word passed through [word_for bit] *)
Definition gw_cond : N * N * N -> outcome bool :=
  fun '(cur_word, cur_position, cur_word_pos) => Val (N.eqb cur_word 0).
Definition gw_body (bit : bool) (data : list N) (n_bits : N)
  : N * N * N -> outcome (step (N * N * N) (list N * N * N * N * N * option N)) :=
  fun '(cur_word, cur_position, cur_word_pos) =>
    if N.ltb cur_word_pos (len data) then
      let! t1 := idx data cur_word_pos in
      let cur_word := word_for bit t1 in
      let cur_position := N.shiftl cur_word_pos 6 mod 2 ^ 64 in
      let! cur_word_pos := oadd 64 cur_word_pos 1 in
      Val (Next (cur_word, cur_position, cur_word_pos))
    else
      Val (Ret (data, n_bits, cur_position, cur_word_pos, cur_word, None)).
Definition gw_next (bit : bool) (fuel : nat) (data : list N) (n_bits cur_position cur_word_pos cur_word : N)
  : outcome (list N * N * N * N * N * option N) :=
  if N.leb n_bits cur_position then
    Val (data, n_bits, cur_position, cur_word_pos, cur_word, None)
  else
    let! r := while_loop gw_cond (gw_body bit data n_bits) fuel (cur_word, cur_position, cur_word_pos) in
    match r with
    | Retd v => Val v
    | Done (cur_word, cur_position, cur_word_pos) =>
        let l := tzcnt 64 cur_word in
        let! cur_position := oadd 64 cur_position l in
        let pos := cur_position in
        let! cur_word := (if N.leb 63 l then
          Val 0
        else
          let! t1 := oadd 64 l 1 in
          oshr 64 cur_word t1) in
        let! cur_position := oadd 64 cur_position 1 in
        Val (data, n_bits, cur_position, cur_word_pos, cur_word, if N.leb n_bits pos then None else (Some pos))
    end.

Lemma g_pi_next_gw bit : g_pi_next bit = gw_next bit.
Proof. destruct bit; reflexivity. Qed.

Lemma gw_cond_eq cw cp cwp : gw_cond (cw, cp, cwp) = Val (cw =? 0).
Proof. reflexivity. Qed.
Lemma gw_body_eq bit data n_bits cw cp cwp : gw_body bit data n_bits (cw, cp, cwp) =
  if cwp <? len data then
    let! t1 := idx data cwp in
    let! cwp' := oadd 64 cwp 1 in
    Val (Next (word_for bit t1, N.shiftl cwp 6 mod 2 ^ 64, cwp'))
  else Val (Ret (data, n_bits, cp, cwp, cw, None)).
Proof. reflexivity. Qed.

(* trailing_zeros as the translator has it = the hand model's *)
Lemma tz_pos_ctz p : tz_pos p = ctz_pos p.
Proof. induction p as [p IH|p IH|]; cbn [tz_pos ctz_pos]; try reflexivity. rewrite IH. lia. Qed.
Lemma tzcnt_ctz x : tzcnt 64 x = ctz x.
Proof. destruct x; [reflexivity|apply tz_pos_ctz]. Qed.

Lemma pow2_pos k : 0 < 2 ^ k.
Proof. apply N.neq_0_lt_0, N.pow_nonzero. discriminate. Qed.

(* ================================================================== (1) new *)
Theorem g_pi_new_ok : forall bit b,
  g_pi_new bit (bv_words b) (bv_nbits b) =
  Val (bv_words b, bv_nbits b, pi_cur_position pi_new, pi_cur_word_pos pi_new, pi_cur_word pi_new).
Proof. intros [|] b; reflexivity. Qed.

Theorem g_pi1_new_ok : forall b, g_pi1_new (bv_words b) (bv_nbits b) = Val (bv_words b, bv_nbits b, 0, 0, 0).
Proof. reflexivity. Qed.
Theorem g_pi0_new_ok : forall b, g_pi0_new (bv_words b) (bv_nbits b) = Val (bv_words b, bv_nbits b, 0, 0, 0).
Proof. reflexivity. Qed.

(* ================================================================== (2) with_pos *)
(* Checked operations of with_pos: `data[cur_word_pos]` (guarded by cur_word_pos < data.len(): never faults),
   `cur_word >> l` with l = pos % 64 < 64 (never faults), `cur_word_pos + 1` with cur_word_pos = pos >> 6:
   faults only if pos >> 6 = 2^64 - 1, impossible for pos < 2^64 (any usize).  No hypothesis on the words. *)
Theorem g_pi_with_pos_ok : forall bit b pos, pos < 2 ^ 64 ->
  g_pi_with_pos bit (bv_words b) (bv_nbits b) pos =
  Val (bv_words b, bv_nbits b, pi_cur_position (pi_with_pos bit b pos),
       pi_cur_word_pos (pi_with_pos bit b pos), pi_cur_word (pi_with_pos bit b pos)).
Proof.
  intros bit b pos Hpos. unfold pi_with_pos. cbn [pi_cur_position pi_cur_word_pos pi_cur_word].
  assert (Hs : N.shiftr pos 6 + 1 < 2 ^ 64) by (rewrite shr6; lia).
  assert (Hm : pos mod 64 < 64) by lia.
  destruct bit; unfold g_pi_with_pos, g_pi1_with_pos, g_pi0_with_pos; cbv zeta.
  - destruct (N.ltb_spec (N.shiftr pos 6) (len (bv_words b))) as [Hlt|Hge].
    + destruct (nthN_lt_some _ _ Hlt) as (w & Ew). unfold idx. rewrite Ew. cbn [bind].
      unfold oshr, oadd. destruct (N.ltb_spec (pos mod 64) 64); [|lia]. cbn [bind].
      destruct (N.ltb_spec (N.shiftr pos 6 + 1) (2 ^ 64)); [|lia]. reflexivity.
    + rewrite nthN_none by assumption. cbn [bind].
      unfold oshr, oadd. destruct (N.ltb_spec (pos mod 64) 64); [|lia]. cbn [bind].
      destruct (N.ltb_spec (N.shiftr pos 6 + 1) (2 ^ 64)); [|lia]. reflexivity.
  - destruct (N.ltb_spec (N.shiftr pos 6) (len (bv_words b))) as [Hlt|Hge].
    + destruct (nthN_lt_some _ _ Hlt) as (w & Ew). unfold idx. rewrite Ew. cbn [bind].
      unfold oshr, oadd. destruct (N.ltb_spec (pos mod 64) 64); [|lia]. cbn [bind].
      destruct (N.ltb_spec (N.shiftr pos 6 + 1) (2 ^ 64)); [|lia]. reflexivity.
    + rewrite nthN_none by assumption. cbn [bind].
      unfold oshr, oadd. destruct (N.ltb_spec (pos mod 64) 64); [|lia]. cbn [bind].
      destruct (N.ltb_spec (N.shiftr pos 6 + 1) (2 ^ 64)); [|lia]. reflexivity.
Qed.

Corollary g_pi1_with_pos_ok : forall b pos, pos < 2 ^ 64 ->
  g_pi1_with_pos (bv_words b) (bv_nbits b) pos =
  Val (bv_words b, bv_nbits b, pi_cur_position (pi_with_pos true b pos),
       pi_cur_word_pos (pi_with_pos true b pos), pi_cur_word (pi_with_pos true b pos)).
Proof. exact (g_pi_with_pos_ok true). Qed.
Corollary g_pi0_with_pos_ok : forall b pos, pos < 2 ^ 64 ->
  g_pi0_with_pos (bv_words b) (bv_nbits b) pos =
  Val (bv_words b, bv_nbits b, pi_cur_position (pi_with_pos false b pos),
       pi_cur_word_pos (pi_with_pos false b pos), pi_cur_word (pi_with_pos false b pos)).
Proof. exact (g_pi_with_pos_ok false). Qed.

(* ================================================================== (3) next *)
(* ------------------------------------------------------------------ the reachability invariant *)
(* [pi_live]: cur_word holds at most the 64 * cur_word_pos - cur_position bits still to report of the current
   word, and the word index is below 2^58 (so that `cur_word_pos << 6`, `cur_position + l`, `cur_position + 1`
   stay below 2^64).  A state already past the end (n_bits <= cur_position) is reachable whatever its fields
   (with_pos beyond the end): next returns None at once without any arithmetic. *)
Definition pi_live (st : positer) : Prop :=
  pi_cur_word st < 2 ^ 64 /\
  pi_cur_position st <= 64 * pi_cur_word_pos st /\
  pi_cur_word st < 2 ^ (64 * pi_cur_word_pos st - pi_cur_position st) /\
  pi_cur_word_pos st < 2 ^ 58.
Definition pi_reach (b : bitvec) (st : positer) : Prop :=
  bv_nbits b <= pi_cur_position st \/ pi_live st.

Lemma pi_live_new : pi_live pi_new.
Proof.
  unfold pi_live, pi_new. cbn [pi_cur_word pi_cur_position pi_cur_word_pos].
  split; [lia|]. split; [lia|]. split; [apply pow2_pos|lia].
Qed.
Lemma pi_reach_new b : pi_reach b pi_new.
Proof. right. apply pi_live_new. Qed.

Lemma pi_live_with_pos bit b pos : words_ok (bv_words b) -> pos < 2 ^ 64 - 64 -> pi_live (pi_with_pos bit b pos).
Proof.
  intros Hok Hpos. unfold pi_live, pi_with_pos. cbn [pi_cur_word pi_cur_position pi_cur_word_pos].
  rewrite shr6. fold (cword bit (bv_words b) (pos / 64)).
  pose proof (cword_ok bit (bv_words b) (pos / 64) Hok) as Hc. unfold word_ok in Hc.
  split; [|split; [|split]].
  - pose proof (shiftr_le (cword bit (bv_words b) (pos / 64)) (pos mod 64)). lia.
  - lia.
  - apply shiftr_lt. replace (pos mod 64 + (64 * (pos / 64 + 1) - pos)) with 64 by lia. exact Hc.
  - lia.
Qed.
Lemma pi_reach_with_pos bit b pos : words_ok (bv_words b) ->
  pos < 2 ^ 64 - 64 \/ bv_nbits b <= pos -> pi_reach b (pi_with_pos bit b pos).
Proof.
  intros Hok [H|H]; [right; now apply pi_live_with_pos|left; exact H].
Qed.

(* the refill loop keeps the invariant and stops on a non-zero word *)
Lemma pi_refill_live bit ws : words_ok ws -> len ws < 2 ^ 58 -> forall fuel st, pi_live st ->
  match pi_refill bit ws st fuel with
  | Some st1 => pi_live st1 /\ pi_cur_word st1 <> 0
  | None => True
  end.
Proof.
  intros Hok Hlen. induction fuel as [|fuel IH]; intros st Hst.
  - cbn [pi_refill]. destruct (N.eqb_spec (pi_cur_word st) 0); [exact I|]. now split.
  - cbn [pi_refill]. destruct (N.eqb_spec (pi_cur_word st) 0) as [Hz|Hnz]; [|now split].
    destruct (nthN ws (pi_cur_word_pos st)) as [w|] eqn:Ew; [|exact I].
    apply IH. pose proof (nthN_some_lt _ _ _ Ew) as Hlt.
    pose proof (word_for_ok bit w (Forall_nthN _ _ _ _ Hok Ew)) as Hw. unfold word_ok in Hw.
    unfold pi_live. cbn [pi_cur_word pi_cur_position pi_cur_word_pos].
    rewrite N.shiftl_mul_pow2. change (2 ^ 6) with 64.
    split; [exact Hw|]. split; [lia|]. split; [|lia].
    replace (64 * (pi_cur_word_pos st + 1) - pi_cur_word_pos st * 64) with 64 by lia. exact Hw.
Qed.

(* ------------------------------------------------------------------ the while loop = pi_refill *)
(* [f] = fuel of the generated loop, [fh] = fuel of the hand-written refill; both only have to be large enough.
   When the hand refill finds a word, the loop leaves with that state; when it runs off the end, the loop
   returns None from inside with cur_word = 0, cur_word_pos advanced to the number of words and cur_position
   left at `cur_word_pos << 6` of the last word loaded (unchanged when none was loaded). *)
Lemma refill_sim bit ws nbits : len ws < 2 ^ 58 ->
  forall (f fh : nat) cw cp cwp, (1 <= f)%nat -> len ws < cwp + N.of_nat f -> len ws < cwp + N.of_nat fh ->
  match pi_refill bit ws (mk_pi cp cwp cw) fh with
  | Some st1 => while_loop gw_cond (gw_body bit ws nbits) f (cw, cp, cwp) =
                Val (Done (pi_cur_word st1, pi_cur_position st1, pi_cur_word_pos st1))
  | None => while_loop gw_cond (gw_body bit ws nbits) f (cw, cp, cwp) =
            Val (Retd (ws, nbits, (if cwp <? len ws then 64 * (len ws - 1) else cp), N.max cwp (len ws), 0, None))
  end.
Proof.
  intros Hlen. induction f as [|f IH]; intros fh cw cp cwp Hf1 Hf Hfh; [lia|].
  cbn [while_loop]. rewrite gw_cond_eq. cbn [bind].
  destruct (N.eqb_spec cw 0) as [->|Hnz].
  - rewrite gw_body_eq. destruct (N.ltb_spec cwp (len ws)) as [Hlt|Hge].
    + destruct (nthN_lt_some ws cwp Hlt) as (w & Ew). unfold idx. rewrite Ew. cbn [bind].
      unfold oadd. destruct (N.ltb_spec (cwp + 1) (2 ^ 64)) as [_|]; [|lia]. cbn [bind].
      rewrite N.shiftl_mul_pow2. change (2 ^ 6) with 64. rewrite N.mod_small by lia.
      destruct fh as [|fh]; [lia|].
      cbn [pi_refill pi_cur_word pi_cur_word_pos pi_cur_position]. rewrite N.eqb_refl, Ew.
      rewrite N.shiftl_mul_pow2. change (2 ^ 6) with 64.
      specialize (IH fh (word_for bit w) (cwp * 64) (cwp + 1) ltac:(lia) ltac:(lia) ltac:(lia)).
      destruct (pi_refill bit ws (mk_pi (cwp * 64) (cwp + 1) (word_for bit w)) fh) as [st1|]; [exact IH|].
      rewrite IH.
      replace (if cwp + 1 <? len ws then 64 * (len ws - 1) else cwp * 64) with (64 * (len ws - 1))
        by (destruct (N.ltb_spec (cwp + 1) (len ws)); lia).
      replace (N.max (cwp + 1) (len ws)) with (N.max cwp (len ws)) by lia. reflexivity.
    + destruct fh as [|fh]; cbn [pi_refill pi_cur_word pi_cur_word_pos pi_cur_position]; rewrite N.eqb_refl;
        [|rewrite nthN_none by lia]; (replace (N.max cwp (len ws)) with cwp by lia; reflexivity).
  - destruct fh as [|fh]; cbn [pi_refill pi_cur_word pi_cur_word_pos pi_cur_position];
      (destruct (N.eqb_spec cw 0); [contradiction|]); reflexivity.
Qed.

(* ------------------------------------------------------------------ next *)
(* the refill loop ran off the end of the words (the only place where hand model and code differ) *)
Definition pi_exhausted (bit : bool) (b : bitvec) (st : positer) : bool :=
  negb (bv_nbits b <=? pi_cur_position st) &&
  match pi_refill bit (bv_words b) st (S (length (bv_words b))) with None => true | Some _ => false end.

(* the fields the GENERATED next leaves behind *)
Definition g_state_after (bit : bool) (b : bitvec) (st : positer) : positer :=
  if pi_exhausted bit b st then
    mk_pi (if pi_cur_word_pos st <? len (bv_words b) then 64 * (len (bv_words b) - 1) else pi_cur_position st)
          (N.max (pi_cur_word_pos st) (len (bv_words b))) 0
  else snd (pi_next bit b st).

Lemma pi_exhausted_none bit b st : pi_exhausted bit b st = true -> fst (pi_next bit b st) = None.
Proof.
  unfold pi_exhausted, pi_next. destruct (bv_nbits b <=? pi_cur_position st); [discriminate|]. cbn [negb andb].
  destruct (pi_refill bit (bv_words b) st (S (length (bv_words b)))); [discriminate|reflexivity].
Qed.

(* in the exhausted case the hand state and the generated state agree on cur_word_pos and cur_word *)
Lemma g_state_after_fields bit b st :
  pi_cur_word_pos (g_state_after bit b st) = pi_cur_word_pos (snd (pi_next bit b st)) /\
  pi_cur_word (g_state_after bit b st) = pi_cur_word (snd (pi_next bit b st)).
Proof.
  unfold g_state_after. destruct (pi_exhausted bit b st) eqn:E; [|now split].
  unfold pi_exhausted in E. unfold pi_next. destruct (bv_nbits b <=? pi_cur_position st); [discriminate|].
  cbn [negb andb] in E. destruct (pi_refill bit (bv_words b) st (S (length (bv_words b)))); [discriminate|].
  now split.
Qed.

Theorem g_pi_next_ok : forall bit b st fuel,
  words_ok (bv_words b) -> len (bv_words b) < 2 ^ 58 -> pi_reach b st ->
  (S (length (bv_words b)) <= fuel)%nat ->
  g_pi_next bit fuel (bv_words b) (bv_nbits b) (pi_cur_position st) (pi_cur_word_pos st) (pi_cur_word st) =
  Val (bv_words b, bv_nbits b,
       pi_cur_position (g_state_after bit b st), pi_cur_word_pos (g_state_after bit b st),
       pi_cur_word (g_state_after bit b st), fst (pi_next bit b st)).
Proof.
  intros bit b [cp cwp cw] fuel Hok Hlen Hreach Hfuel. cbn [pi_cur_position pi_cur_word_pos pi_cur_word].
  rewrite g_pi_next_gw. unfold gw_next, g_state_after, pi_exhausted, pi_next.
  cbn [pi_cur_position pi_cur_word_pos pi_cur_word].
  destruct (N.leb_spec (bv_nbits b) cp) as [Hend|Hin]; [reflexivity|]. cbn [negb andb].
  destruct Hreach as [Hr|Hlive]; [cbn [pi_cur_position] in Hr; lia|].
  pose proof (refill_sim bit (bv_words b) (bv_nbits b) Hlen fuel (S (length (bv_words b))) cw cp cwp) as Hsim.
  pose proof (pi_refill_live bit (bv_words b) Hok Hlen (S (length (bv_words b))) _ Hlive) as Hre.
  unfold len in Hsim at 1 2. specialize (Hsim ltac:(lia) ltac:(lia) ltac:(lia)).
  destruct (pi_refill bit (bv_words b) (mk_pi cp cwp cw) (S (length (bv_words b)))) as [[cp1 cwp1 cw1]|].
  2:{ rewrite Hsim. reflexivity. }
  rewrite Hsim. cbn [bind pi_cur_position pi_cur_word_pos pi_cur_word fst snd].
  cbn [pi_cur_position pi_cur_word_pos pi_cur_word] in Hre. destruct Hre as ((Hw & Hle & Hbits & Hcwp) & Hnz).
  cbn [pi_cur_position pi_cur_word_pos pi_cur_word] in Hw, Hle, Hbits, Hcwp.
  rewrite tzcnt_ctz. cbv zeta.
  pose proof (ctz_lt cw1 64 Hnz Hw) as Hl64. pose proof (ctz_lt cw1 _ Hnz Hbits) as Hlb.
  set (l := ctz cw1) in *.
  unfold oadd. destruct (N.ltb_spec (cp1 + l) (2 ^ 64)); [|lia]. cbn [bind].
  destruct (N.leb_spec 63 l) as [H63|H63]; cbn [bind].
  - destruct (N.ltb_spec (cp1 + l + 1) (2 ^ 64)); [|lia].
    destruct (N.leb_spec (bv_nbits b) (cp1 + l)); reflexivity.
  - destruct (N.ltb_spec (l + 1) (2 ^ 64)); [|lia]. cbn [bind].
    unfold oshr. destruct (N.ltb_spec (l + 1) 64); [|lia]. cbn [bind].
    destruct (N.ltb_spec (cp1 + l + 1) (2 ^ 64)); [|lia].
    destruct (N.leb_spec (bv_nbits b) (cp1 + l)); reflexivity.
Qed.

(* the result (the Option the caller sees) is always the hand model's *)
Corollary g_pi_next_result : forall bit b st fuel,
  words_ok (bv_words b) -> len (bv_words b) < 2 ^ 58 -> pi_reach b st ->
  (S (length (bv_words b)) <= fuel)%nat ->
  exists cp' cwp' cw',
  g_pi_next bit fuel (bv_words b) (bv_nbits b) (pi_cur_position st) (pi_cur_word_pos st) (pi_cur_word st) =
  Val (bv_words b, bv_nbits b, cp', cwp', cw', fst (pi_next bit b st)).
Proof. intros. eexists _, _, _. now apply g_pi_next_ok. Qed.

(* result AND state are the hand model's unless the loop was exhausted *)
Corollary g_pi_next_state : forall bit b st fuel,
  words_ok (bv_words b) -> len (bv_words b) < 2 ^ 58 -> pi_reach b st ->
  (S (length (bv_words b)) <= fuel)%nat -> pi_exhausted bit b st = false ->
  g_pi_next bit fuel (bv_words b) (bv_nbits b) (pi_cur_position st) (pi_cur_word_pos st) (pi_cur_word st) =
  Val (bv_words b, bv_nbits b,
       pi_cur_position (snd (pi_next bit b st)), pi_cur_word_pos (snd (pi_next bit b st)),
       pi_cur_word (snd (pi_next bit b st)), fst (pi_next bit b st)).
Proof.
  intros bit b st fuel Hok Hlen Hr Hf Hex. rewrite g_pi_next_ok by assumption.
  unfold g_state_after. rewrite Hex. reflexivity.
Qed.

(* ... in particular whenever a position is returned *)
Corollary g_pi_next_some : forall bit b st fuel p st',
  words_ok (bv_words b) -> len (bv_words b) < 2 ^ 58 -> pi_reach b st ->
  (S (length (bv_words b)) <= fuel)%nat -> pi_next bit b st = (Some p, st') ->
  g_pi_next bit fuel (bv_words b) (bv_nbits b) (pi_cur_position st) (pi_cur_word_pos st) (pi_cur_word st) =
  Val (bv_words b, bv_nbits b, pi_cur_position st', pi_cur_word_pos st', pi_cur_word st', Some p).
Proof.
  intros bit b st fuel p st' Hok Hlen Hr Hf E. rewrite g_pi_next_state; try assumption.
  - rewrite E. reflexivity.
  - destruct (pi_exhausted bit b st) eqn:Hex; [|reflexivity].
    apply pi_exhausted_none in Hex. rewrite E in Hex. discriminate.
Qed.

(* the per-BIT instances, as generated *)
Corollary g_pi1_next_ok : forall b st fuel,
  words_ok (bv_words b) -> len (bv_words b) < 2 ^ 58 -> pi_reach b st ->
  (S (length (bv_words b)) <= fuel)%nat ->
  g_pi1_next fuel (bv_words b) (bv_nbits b) (pi_cur_position st) (pi_cur_word_pos st) (pi_cur_word st) =
  Val (bv_words b, bv_nbits b,
       pi_cur_position (g_state_after true b st), pi_cur_word_pos (g_state_after true b st),
       pi_cur_word (g_state_after true b st), fst (pi_next true b st)).
Proof. exact (g_pi_next_ok true). Qed.
Corollary g_pi0_next_ok : forall b st fuel,
  words_ok (bv_words b) -> len (bv_words b) < 2 ^ 58 -> pi_reach b st ->
  (S (length (bv_words b)) <= fuel)%nat ->
  g_pi0_next fuel (bv_words b) (bv_nbits b) (pi_cur_position st) (pi_cur_word_pos st) (pi_cur_word st) =
  Val (bv_words b, bv_nbits b,
       pi_cur_position (g_state_after false b st), pi_cur_word_pos (g_state_after false b st),
       pi_cur_word (g_state_after false b st), fst (pi_next false b st)).
Proof. exact (g_pi_next_ok false). Qed.

(* the invariant is preserved by the hand pi_next (hence along every run of the iterator) *)
Theorem pi_reach_next : forall bit b st,
  words_ok (bv_words b) -> len (bv_words b) < 2 ^ 58 -> pi_reach b st -> pi_reach b (snd (pi_next bit b st)).
Proof.
  intros bit b st Hok Hlen Hreach. unfold pi_next.
  destruct (N.leb_spec (bv_nbits b) (pi_cur_position st)) as [Hend|Hin]; [left; exact Hend|].
  destruct Hreach as [Hr|Hlive]; [lia|].
  pose proof (pi_refill_live bit (bv_words b) Hok Hlen (S (length (bv_words b))) _ Hlive) as Hre.
  destruct (pi_refill bit (bv_words b) st (S (length (bv_words b)))) as [[cp1 cwp1 cw1]|].
  - cbn [pi_cur_position pi_cur_word_pos pi_cur_word] in *. destruct Hre as ((Hw & Hle & Hbits & Hcwp) & Hnz).
    cbn [pi_cur_position pi_cur_word_pos pi_cur_word] in Hw, Hle, Hbits, Hcwp. cbv zeta.
    pose proof (ctz_lt cw1 64 Hnz Hw) as Hl64. pose proof (ctz_lt cw1 _ Hnz Hbits) as Hlb.
    set (l := ctz cw1) in *.
    assert (Hst2 : pi_live (mk_pi (cp1 + l + 1) cwp1 (if 63 <=? l then 0 else N.shiftr cw1 (l + 1)))).
    { unfold pi_live. cbn [pi_cur_position pi_cur_word_pos pi_cur_word].
      split; [|split; [|split]].
      - destruct (N.leb_spec 63 l); [lia|]. pose proof (shiftr_le cw1 (l + 1)). lia.
      - lia.
      - destruct (N.leb_spec 63 l); [apply pow2_pos|]. apply shiftr_lt.
        replace (l + 1 + (64 * cwp1 - (cp1 + l + 1))) with (64 * cwp1 - cp1) by lia. exact Hbits.
      - exact Hcwp. }
    destruct (N.leb_spec (bv_nbits b) (cp1 + l)); cbn [snd]; right; exact Hst2.
  - cbn [snd]. right. destruct Hlive as (Hw & Hle & Hbits & Hcwp).
    unfold pi_live. cbn [pi_cur_position pi_cur_word_pos pi_cur_word].
    split; [lia|]. split; [lia|]. split; [apply pow2_pos|lia].
Qed.

(* ------------------------------------------------------------------ fused: None is final (every state) *)
(* a `return None` from inside the loop happens with cur_word = 0 and cur_word_pos past the last word *)
Lemma loop_retd bit data nbits : forall f s v,
  while_loop gw_cond (gw_body bit data nbits) f s = Val (Retd v) ->
  exists cp cwp, v = (data, nbits, cp, cwp, 0, None) /\ len data <= cwp.
Proof.
  induction f as [|f IH]; intros [[cw cp] cwp] v; cbn [while_loop]; [discriminate|].
  rewrite gw_cond_eq. cbn [bind]. destruct (N.eqb_spec cw 0) as [->|]; [|discriminate].
  rewrite gw_body_eq. destruct (N.ltb_spec cwp (len data)) as [Hlt|Hge].
  - destruct (idx data cwp); cbn [bind]; [|discriminate].
    destruct (oadd 64 cwp 1); cbn [bind]; [|discriminate]. apply IH.
  - cbn [bind]. intros E. injection E as <-. eauto.
Qed.

(* No hypothesis on the state, the words or n_bits: whenever the generated next returns None, the state it
   leaves is a fixed point: every further call (with at least one unit of loop fuel) returns None again and
   leaves the fields unchanged.  This is C08_positions_fused for the generated code. *)
Theorem g_pi_next_fused : forall bit fuel data nbits cp cwp cw d' n' cp' cwp' cw',
  g_pi_next bit fuel data nbits cp cwp cw = Val (d', n', cp', cwp', cw', None) ->
  forall fuel', (1 <= fuel')%nat ->
  g_pi_next bit fuel' d' n' cp' cwp' cw' = Val (d', n', cp', cwp', cw', None).
Proof.
  intros bit fuel data nbits cp cwp cw d' n' cp' cwp' cw'. rewrite g_pi_next_gw. unfold gw_next.
  destruct (N.leb_spec nbits cp) as [Hend|Hin].
  - intros E. injection E as <- <- <- <- <-. intros fuel' _.
    destruct (N.leb_spec nbits cp); [reflexivity|lia].
  - destruct (while_loop gw_cond (gw_body bit data nbits) fuel (cw, cp, cwp)) as [[[[cw1 cp1] cwp1]|v]|] eqn:EW;
      cbn [bind]; [| |discriminate].
    + cbv zeta. set (l := tzcnt 64 cw1). unfold oadd at 1.
      destruct (cp1 + l <? 2 ^ 64); cbn [bind]; [|discriminate].
      destruct (if 63 <=? l then Val 0 else let! t1 := oadd 64 l 1 in oshr 64 cw1 t1) as [cw2|]; cbn [bind];
        [|discriminate].
      unfold oadd. destruct (cp1 + l + 1 <? 2 ^ 64); [|discriminate].
      destruct (N.leb_spec nbits (cp1 + l)) as [Hp|Hp]; [|discriminate].
      intros E. injection E as <- <- <- <- <-. intros fuel' _.
      destruct (N.leb_spec nbits (cp1 + l + 1)); [reflexivity|lia].
    + apply loop_retd in EW. destruct EW as (cp2 & cwp2 & -> & Hge).
      intros E. injection E as <- <- <- <- <-. intros fuel' Hf.
      destruct (N.leb_spec nbits cp2); [reflexivity|].
      destruct fuel' as [|fuel']; [lia|]. cbn [while_loop]. rewrite gw_cond_eq. cbn [bind].
      rewrite N.eqb_refl, gw_body_eq. destruct (N.ltb_spec cwp2 (len data)); [lia|]. reflexivity.
Qed.

(* ------------------------------------------------------------------ the observable run *)
(* what `for p in iter` / collect() sees: call the GENERATED next until the first None (at most n items),
   threading the fields it returns *)
Fixpoint g_pi_collect (bit : bool) (fuelw : nat) (data : list N) (n_bits cp cwp cw : N) (n : nat)
  : outcome (list N) :=
  match n with
  | O => Val []
  | S k =>
      let! (data', n_bits', cp', cwp', cw', r) := g_pi_next bit fuelw data n_bits cp cwp cw in
      match r with
      | Some p => let! l := g_pi_collect bit fuelw data' n_bits' cp' cwp' cw' k in Val (p :: l)
      | None => Val []
      end
  end.

Theorem g_pi_collect_ok : forall bit b fuelw,
  words_ok (bv_words b) -> len (bv_words b) < 2 ^ 58 -> (S (length (bv_words b)) <= fuelw)%nat ->
  forall n st, pi_reach b st ->
  g_pi_collect bit fuelw (bv_words b) (bv_nbits b) (pi_cur_position st) (pi_cur_word_pos st) (pi_cur_word st) n =
  Val (pi_collect bit b st n).
Proof.
  intros bit b fuelw Hok Hlen Hf. induction n as [|n IH]; intros st Hreach; [reflexivity|].
  cbn [g_pi_collect pi_collect].
  pose proof (pi_reach_next bit b st Hok Hlen Hreach) as Hnext.
  destruct (pi_next bit b st) as [[p|] st'] eqn:E.
  - rewrite (g_pi_next_some bit b st fuelw p st') by assumption. cbn [bind]. cbv beta iota.
    cbn [snd] in Hnext. rewrite IH by assumption. reflexivity.
  - rewrite g_pi_next_ok by assumption. rewrite E. reflexivity.
Qed.

(* ================================================================== (4) end to end: C08 on generated code *)
Lemma inv_len_words b : bv_inv b -> len (bv_words b) < 2 ^ 58.
Proof. intros H. rewrite (inv_words_len b H). pose proof (inv_small b H). lia. Qed.

(* collecting through the generated with_pos (resp. new) and the generated next: exactly the positions >= pos
   (resp. all positions) holding [bit], increasing (positions_from, see positions_from_In); for EVERY usize pos *)
Theorem g_positions_correct : forall bit b pos fuelw n,
  bv_inv b -> pos < 2 ^ 64 -> (S (length (bv_words b)) <= fuelw)%nat -> len (bv_abs b) < N.of_nat n ->
  (let! (d, nb, cp, cwp, cw) := g_pi_with_pos bit (bv_words b) (bv_nbits b) pos in
   g_pi_collect bit fuelw d nb cp cwp cw n) = Val (positions_from bit (bv_abs b) pos) /\
  (let! (d, nb, cp, cwp, cw) := g_pi_new bit (bv_words b) (bv_nbits b) in
   g_pi_collect bit fuelw d nb cp cwp cw n) = Val (positions_from bit (bv_abs b) 0).
Proof.
  intros bit b pos fuelw n Hinv Hpos Hf Hn.
  pose proof (inv_words_ok b Hinv) as Hok. pose proof (inv_len_words b Hinv) as Hlen.
  pose proof (inv_small b Hinv) as Hsmall.
  destruct (pi_collect_correct bit b pos n Hinv Hn) as [H1 H2]. split.
  - rewrite g_pi_with_pos_ok by assumption. cbn [bind]. cbv beta iota.
    rewrite g_pi_collect_ok; try assumption; [now rewrite H1|].
    apply pi_reach_with_pos; [assumption|]. lia.
  - rewrite g_pi_new_ok. cbn [bind]. cbv beta iota.
    rewrite g_pi_collect_ok; try assumption; [now rewrite H2|]. apply pi_reach_new.
Qed.

(* the per-BIT instances written with the generated names only *)
Corollary g_ones_positions_correct : forall b pos fuelw n,
  bv_inv b -> pos < 2 ^ 64 -> (S (length (bv_words b)) <= fuelw)%nat -> len (bv_abs b) < N.of_nat n ->
  (let! (d, nb, cp, cwp, cw) := g_pi1_with_pos (bv_words b) (bv_nbits b) pos in
   g_pi_collect true fuelw d nb cp cwp cw n) = Val (positions_from true (bv_abs b) pos) /\
  (let! (d, nb, cp, cwp, cw) := g_pi1_new (bv_words b) (bv_nbits b) in
   g_pi_collect true fuelw d nb cp cwp cw n) = Val (positions_from true (bv_abs b) 0).
Proof. exact (g_positions_correct true). Qed.
Corollary g_zeros_positions_correct : forall b pos fuelw n,
  bv_inv b -> pos < 2 ^ 64 -> (S (length (bv_words b)) <= fuelw)%nat -> len (bv_abs b) < N.of_nat n ->
  (let! (d, nb, cp, cwp, cw) := g_pi0_with_pos (bv_words b) (bv_nbits b) pos in
   g_pi_collect false fuelw d nb cp cwp cw n) = Val (positions_from false (bv_abs b) pos) /\
  (let! (d, nb, cp, cwp, cw) := g_pi0_new (bv_words b) (bv_nbits b) in
   g_pi_collect false fuelw d nb cp cwp cw n) = Val (positions_from false (bv_abs b) 0).
Proof. exact (g_positions_correct false). Qed.

(* every single call, along the run from with_pos / new: the generated next never faults and returns the
   hand model's result (so the sequence of Options the caller sees, including the Nones after the end, is
   the hand model's; with g_pi_next_fused the generated state after a None stays put) *)
Theorem g_pi_next_total : forall bit b st fuel, bv_inv b -> pi_reach b st ->
  (S (length (bv_words b)) <= fuel)%nat ->
  exists cp' cwp' cw',
  g_pi_next bit fuel (bv_words b) (bv_nbits b) (pi_cur_position st) (pi_cur_word_pos st) (pi_cur_word st) =
  Val (bv_words b, bv_nbits b, cp', cwp', cw', fst (pi_next bit b st)).
Proof.
  intros bit b st fuel Hinv Hr Hf. apply g_pi_next_result; try assumption.
  - apply (inv_words_ok b Hinv).
  - apply (inv_len_words b Hinv).
Qed.

(* ================================================================== (5) BitVectorIter *)
(* checked operations of next: `self.i += 1` (faults iff i = 2^64 - 1, reached only if n_bits = 2^64 > i;
   excluded by i < 2^64 - 1, or by n_bits < 2^64), `self.i - 1` (never: i + 1 >= 1), the slice read of
   get_bit_slice (same as the hand model, g_get_bit_slice_ok) *)
Theorem g_bvit_next_ok : forall b i, i < 2 ^ 64 - 1 ->
  g_bvit_next (bv_words b) (bv_nbits b) i =
  let! (v, i') := bvit_next b i in Val (bv_words b, bv_nbits b, i', v).
Proof.
  intros b i Hi. unfold g_bvit_next, bvit_next.
  destruct (N.ltb_spec i (bv_nbits b)) as [Hlt|Hge]; [|reflexivity].
  unfold oadd. destruct (N.ltb_spec (i + 1) (2 ^ 64)); [|lia]. cbn [bind].
  unfold osub. destruct (N.leb_spec 1 (i + 1)); [|lia]. cbn [bind].
  replace (i + 1 - 1) with i by lia. rewrite g_get_bit_slice_ok.
  destruct (bv_get_bit_slice (bv_words b) i); reflexivity.
Qed.

Theorem g_bvit_len_ok : forall b i, g_bvit_len (bv_nbits b) i = bvit_len b i.
Proof. reflexivity. Qed.

(* C12_bits on the generated code: for every i (no bound needed: i < n_bits < 2^63 when the increment runs) *)
Theorem g_bvit_correct : forall b i, bv_inv b ->
  g_bvit_next (bv_words b) (bv_nbits b) i =
    Val (bv_words b, bv_nbits b, (if i <? len (bv_abs b) then i + 1 else i), nthN (bv_abs b) i) /\
  (i <= len (bv_abs b) -> g_bvit_len (bv_nbits b) i = Val (len (bv_abs b) - i)).
Proof.
  intros b i Hinv. destruct (bvit_correct b i Hinv) as [H1 H2]. split.
  - destruct (N.ltb_spec i (bv_nbits b)) as [Hlt|Hge].
    + pose proof (inv_small b Hinv). rewrite g_bvit_next_ok by lia. rewrite H1. reflexivity.
    + unfold g_bvit_next. destruct (N.ltb_spec i (bv_nbits b)); [lia|].
      unfold bvit_next in H1. destruct (N.ltb_spec i (bv_nbits b)); [lia|].
      injection H1 as <- <-. reflexivity.
  - intros Hi. rewrite g_bvit_len_ok. now apply H2.
Qed.

(* ================================================================== the full sequence of results *)
(* k successive calls of next (not stopping at None): the Options the caller sees.  Although the generated
   state after an exhausted refill differs from the hand model's in cur_position, the sequences are equal *)
Fixpoint pi_run (bit : bool) (b : bitvec) (st : positer) (k : nat) : list (option N) :=
  match k with
  | O => []
  | S k' => let (r, st') := pi_next bit b st in r :: pi_run bit b st' k'
  end.
Fixpoint g_pi_run (bit : bool) (fuelw : nat) (data : list N) (n_bits cp cwp cw : N) (k : nat)
  : outcome (list (option N)) :=
  match k with
  | O => Val []
  | S k' =>
      let! (data', n_bits', cp', cwp', cw', r) := g_pi_next bit fuelw data n_bits cp cwp cw in
      let! l := g_pi_run bit fuelw data' n_bits' cp' cwp' cw' k' in Val (r :: l)
  end.

Lemma pi_run_dead bit b st : pi_next bit b st = (None, st) -> forall k, pi_run bit b st k = repeat None k.
Proof. intros E. induction k as [|k IH]; [reflexivity|]. cbn [pi_run repeat]. rewrite E. now rewrite IH. Qed.
Lemma g_pi_run_dead bit fuelw d n cp cwp cw :
  g_pi_next bit fuelw d n cp cwp cw = Val (d, n, cp, cwp, cw, None) ->
  forall k, g_pi_run bit fuelw d n cp cwp cw k = Val (repeat None k).
Proof.
  intros E. induction k as [|k IH]; [reflexivity|]. cbn [g_pi_run repeat]. rewrite E. cbn [bind]. cbv beta iota.
  rewrite IH. reflexivity.
Qed.

Theorem g_pi_run_ok : forall bit b fuelw,
  words_ok (bv_words b) -> len (bv_words b) < 2 ^ 58 -> (S (length (bv_words b)) <= fuelw)%nat ->
  forall k st, pi_reach b st ->
  g_pi_run bit fuelw (bv_words b) (bv_nbits b) (pi_cur_position st) (pi_cur_word_pos st) (pi_cur_word st) k =
  Val (pi_run bit b st k).
Proof.
  intros bit b fuelw Hok Hlen Hf. induction k as [|k IH]; intros st Hreach; [reflexivity|].
  cbn [g_pi_run pi_run].
  pose proof (pi_reach_next bit b st Hok Hlen Hreach) as Hnext.
  destruct (pi_next bit b st) as [[p|] st'] eqn:E.
  - rewrite (g_pi_next_some bit b st fuelw p st') by assumption. cbn [bind]. cbv beta iota.
    cbn [snd] in Hnext. rewrite IH by assumption. reflexivity.
  - pose proof (g_pi_next_ok bit b st fuelw Hok Hlen Hreach Hf) as Hg. rewrite E in Hg. cbn [fst] in Hg.
    rewrite Hg. cbn [bind]. cbv beta iota.
    rewrite (g_pi_run_dead bit fuelw _ _ _ _ _ (g_pi_next_fused _ _ _ _ _ _ _ _ _ _ _ _ Hg fuelw ltac:(lia))).
    cbn [bind]. rewrite (pi_run_dead bit b st' (pi_next_none_forever bit b st st' E)). reflexivity.
Qed.

(* ================================================================== the difference of the states, concretely *)
(* eight zero words, 100 bits, BIT = true, fresh iterator: the refill loop loads the eight words and runs off
   the end.  The code leaves cur_position = 7 << 6 = 448, the hand model (which normalises) leaves 0.  Both
   return None, both leave cur_word_pos = 8 and cur_word = 0, and both return None forever after. *)
Example state_mismatch_example :
  let b := mk_bv (repeat 0 8) 100 0 in
  g_pi1_next 9 (bv_words b) (bv_nbits b) 0 0 0 = Val (bv_words b, 100, 448, 8, 0, None) /\
  pi_next true b pi_new = (None, mk_pi 0 8 0) /\
  pi_exhausted true b pi_new = true /\
  g_state_after true b pi_new = mk_pi 448 8 0 /\
  g_pi1_next 9 (bv_words b) (bv_nbits b) 448 8 0 = Val (bv_words b, 100, 448, 8, 0, None).
Proof. vm_compute. repeat split; reflexivity. Qed.

(* ================================================================== (6) non-vacuity *)
(* three words, 170 bits: ones at 3, 63, 128, 168; and its complement on the 170 bits (whose zeros are there:
   the negated last word has ones in the 22 padding bits too, which next cuts off at n_bits) *)
Example g_iterators_example :
  let b1 := mk_bv [2 ^ 3 + 2 ^ 63; 0; 2 ^ 0 + 2 ^ 40] 170 4 in
  let b0 := mk_bv [2 ^ 64 - 1 - 2 ^ 3 - 2 ^ 63; 2 ^ 64 - 1; 2 ^ 42 - 1 - 2 ^ 0 - 2 ^ 40] 170 166 in
  let collect1 b st := match st with
                       | Val (d, nb, cp, cwp, cw) => g_pi_collect true 4 d nb cp cwp cw 200
                       | Fault f => Fault f end in
  let collect0 b st := match st with
                       | Val (d, nb, cp, cwp, cw) => g_pi_collect false 4 d nb cp cwp cw 200
                       | Fault f => Fault f end in
  (* ones, from the start and from positions inside the first / second word *)
  collect1 b1 (g_pi1_new (bv_words b1) (bv_nbits b1)) = Val [3; 63; 128; 168] /\
  collect1 b1 (g_pi1_with_pos (bv_words b1) (bv_nbits b1) 4) = Val [63; 128; 168] /\
  collect1 b1 (g_pi1_with_pos (bv_words b1) (bv_nbits b1) 70) = Val [128; 168] /\
  collect1 b1 (g_pi1_with_pos (bv_words b1) (bv_nbits b1) 169) = Val [] /\
  (* zeros of the complement vector *)
  collect0 b0 (g_pi0_new (bv_words b0) (bv_nbits b0)) = Val [3; 63; 128; 168] /\
  collect0 b0 (g_pi0_with_pos (bv_words b0) (bv_nbits b0) 64) = Val [128; 168] /\
  collect0 b0 (g_pi0_with_pos (bv_words b0) (bv_nbits b0) 128) = Val [128; 168] /\
  (* zeros of b1 from the middle: the first few *)
  (match collect0 b1 (g_pi0_with_pos (bv_words b1) (bv_nbits b1) 61) with
   | Val l => firstn 5 l = [61; 62; 64; 65; 66] /\ length l = 106%nat /\ last l 0 = 169
   | Fault _ => False end) /\
  (* they are the specification's lists and the hand model's *)
  collect1 b1 (g_pi1_with_pos (bv_words b1) (bv_nbits b1) 70) = Val (positions_from true (bv_abs b1) 70) /\
  collect0 b0 (g_pi0_new (bv_words b0) (bv_nbits b0)) = Val (positions_from false (bv_abs b0) 0) /\
  collect0 b1 (g_pi0_with_pos (bv_words b1) (bv_nbits b1) 61) = Val (pi_collect false b1 (pi_with_pos false b1 61) 200) /\
  (* six calls of next in a row: Some, Some, then None for good *)
  g_pi_run true 4 (bv_words b1) (bv_nbits b1) 70 2 0 6 = Val [Some 128; Some 168; None; None; None; None] /\
  (* BitVectorIter *)
  g_bvit_next (bv_words b1) (bv_nbits b1) 63 = Val (bv_words b1, 170, 64, Some true) /\
  g_bvit_next (bv_words b1) (bv_nbits b1) 64 = Val (bv_words b1, 170, 65, Some false) /\
  g_bvit_next (bv_words b1) (bv_nbits b1) 170 = Val (bv_words b1, 170, 170, None) /\
  g_bvit_len (bv_nbits b1) 64 = Val 106.
Proof. vm_compute. repeat split; reflexivity. Qed.

Print Assumptions g_pi_new_ok.
Print Assumptions g_pi_with_pos_ok.
Print Assumptions g_pi1_with_pos_ok.
Print Assumptions g_pi0_with_pos_ok.
Print Assumptions pi_reach_new.
Print Assumptions pi_reach_with_pos.
Print Assumptions pi_reach_next.
Print Assumptions g_pi_next_ok.
Print Assumptions g_pi1_next_ok.
Print Assumptions g_pi0_next_ok.
Print Assumptions g_pi_next_result.
Print Assumptions g_pi_next_state.
Print Assumptions g_pi_next_some.
Print Assumptions g_state_after_fields.
Print Assumptions g_pi_next_fused.
Print Assumptions g_pi_collect_ok.
Print Assumptions g_pi_run_ok.
Print Assumptions g_positions_correct.
Print Assumptions g_ones_positions_correct.
Print Assumptions g_zeros_positions_correct.
Print Assumptions g_pi_next_total.
Print Assumptions g_bvit_next_ok.
Print Assumptions g_bvit_len_ok.
Print Assumptions g_bvit_correct.
Print Assumptions state_mismatch_example.
Print Assumptions g_iterators_example.
