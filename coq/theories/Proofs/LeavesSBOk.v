(* T3 (SuperblockPlain: get_rank, get_superblock_counter): see Proofs/LeavesLib.v for the explanation.  Written once; compiles as long as the
   definitions regenerated from the Rust source keep their meaning. *)
From Coq Require Import ZArith Lia ZifyBool ZifyN.
From QwtModel Require Import ListX Consts SelTable Words RSQ LeavesSB LeavesLib.
Open Scope N_scope.

(* ------------------------------------------------------------------ SuperblockPlain::get_rank *)
(* FINDING: for block_id >= 12 the source evaluates `data >> ((block_id - 1) * 12)` with a shift amount
   >= 128 (Fault Overflow: panic with overflow checks, masked shift otherwise); the hand model
   sb_get_rank returns a value there.  All callers pass block_index & 7. *)
Theorem g_sb_get_rank_ok : forall ws symbol block_id,
  Forall (fun w => w < 2 ^ 128) ws -> symbol < 256 -> block_id <= 11 ->
  g_sb_get_rank ws symbol block_id = sb_get_rank ws symbol block_id.
Proof.
  intros ws symbol b HF _ Hb.
  unfold g_sb_get_rank, sb_get_rank, SB_SHIFT_GR, BLK_BITS_GR, BLK_MASK_GR. cbv zeta.
  obind_as data E. pose proof (uidx_Forall _ _ _ _ HF E) as Hd. cbv beta in Hd.
  assert (Hsb : N.shiftr data 84 < 2 ^ 44) by (apply shiftr_lt; exact Hd).
  rewrite (N.mod_small (N.shiftr data 84)) by lia.
  unfold osub, omul, oshr, oadd.
  assert (Hl : forall x, N.land x 4095 < 2 ^ 12) by (intros x; apply (land_ones_lt x 12)).
  destruct (N.ltb_spec 0 b); cbv beta iota.
  - repeat (ocase; rewrite ?land_mod_low).
    all: try (pose proof (Hl (N.shiftr data ((b - 1) * 12))); lia).
    reflexivity.
  - repeat (ocase; rewrite ?land_mod_low).
    all: replace b with 0 by lia; try reflexivity.
Qed.

Theorem g_sb_get_superblock_counter_ok : forall ws symbol,
  Forall (fun w => w < 2 ^ 128) ws -> symbol < 256 ->
  g_sb_get_superblock_counter ws symbol = sb_get_superblock_counter ws symbol.
Proof.
  intros ws symbol HF _.
  unfold g_sb_get_superblock_counter, sb_get_superblock_counter, SB_SHIFT_GC.
  obind_as data E. pose proof (uidx_Forall _ _ _ _ HF E) as Hd. cbv beta in Hd.
  assert (Hsb : N.shiftr data 84 < 2 ^ 44) by (apply shiftr_lt; exact Hd).
  now rewrite N.mod_small by lia.
Qed.


Print Assumptions g_sb_get_rank_ok.
Print Assumptions g_sb_get_superblock_counter_ok.
