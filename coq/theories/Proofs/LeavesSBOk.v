(* T3 (SuperblockPlain: get_rank, get_superblock_counter): see Proofs/LeavesLib.v for the explanation.  Written once; compiles as long as the
   definitions regenerated from the Rust source keep their meaning. *)
From Coq Require Import ZArith Lia ZifyBool ZifyN.
From QwtModel Require Import ListX Consts SelTable Words RSQ LeavesSB LeavesLib.
Open Scope N_scope.

(* ------------------------------------------------------------------ SuperblockPlain::get_rank *)
(* For block_id >= 12 the source evaluates `data >> ((block_id - 1) * 12)` with a shift amount >= 128
   (Fault Overflow: panic with overflow checks, masked shift otherwise).  The hand model sb_get_rank used
   to return a value there (T3 finding); it now carries every check and truncation of the source, and the
   equality holds for every block_id of the parameter type. *)
Theorem g_sb_get_rank_ok : forall ws symbol block_id,
  Forall (fun w => w < 2 ^ 128) ws -> symbol < 256 -> block_id < 2 ^ 64 ->
  g_sb_get_rank ws symbol block_id = sb_get_rank ws symbol block_id.
Proof.
  intros ws symbol b _ _ _.
  unfold g_sb_get_rank, sb_get_rank, SB_SHIFT_GR, BLK_BITS_GR, BLK_MASK_GR. cbv zeta.
  repeat obind. reflexivity.
Qed.

Theorem g_sb_get_superblock_counter_ok : forall ws symbol,
  Forall (fun w => w < 2 ^ 128) ws -> symbol < 256 ->
  g_sb_get_superblock_counter ws symbol = sb_get_superblock_counter ws symbol.
Proof.
  intros ws symbol _ _.
  unfold g_sb_get_superblock_counter, sb_get_superblock_counter, SB_SHIFT_GC.
  obind. reflexivity.
Qed.


Print Assumptions g_sb_get_rank_ok.
Print Assumptions g_sb_get_superblock_counter_ok.
