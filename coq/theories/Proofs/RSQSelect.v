(* select of the RSQVector model against the list specification *)
From Coq Require Import ZArith Lia ZifyBool ZifyN ZifyNat.
From QwtModel Require Import ListX Seq Consts QVec RSQ ListXP ConstsOk QVecP RSQBits RSQWord RSQList RSQBuild RSQRank.
Ltac Zify.zify_post_hook ::= Z.div_mod_to_equations.
Arguments N.add : simpl never.
Arguments N.sub : simpl never.
Arguments N.mul : simpl never.
Arguments N.eqb : simpl never.
Arguments N.ltb : simpl never.
Arguments N.leb : simpl never.
Arguments N.pred : simpl never.
Arguments N.of_nat : simpl never.
Arguments N.land : simpl never.
Arguments N.lor : simpl never.
Arguments N.shiftr : simpl never.
Arguments N.shiftl : simpl never.
Arguments N.div : simpl never.
Arguments N.modulo : simpl never.
Arguments N.pow : simpl never.
Arguments N.sqrt : simpl never.


Lemma dir_counter bsize s rs c j : bsz bsize -> len s < RSQ_MAXN -> dir_ok bsize s rs -> c <= 3 ->
  j <= len s / (8 * bsize) ->
  exists sb, nthN (rs_superblocks rs) j = Some sb /\
             sb_get_superblock_counter sb c = Val (rk s c (j * (8 * bsize))).
Proof.
  intros Hb Hn Hd Hc Hj. rewrite RSQ_MAXN_val in Hn.
  assert (H43 : len s < 2 ^ 43) by (norm_pow; lia).
  eexists. split; [apply dir_sb; eassumption|].
  unfold W. rewrite sb_get_superblock_counter_rec; [reflexivity|exact Hc|now apply fld_bound|now apply rk_lt44].
Qed.

(* ------------------------------------------------------------------ the two scans *)
Lemma rss_scan_spec rs c i last step (cnt : N -> N) :
  1 <= step ->
  (forall j, j < last -> exists sb, nthN (rs_superblocks rs) j = Some sb /\
                                    sb_get_superblock_counter sb c = Val (cnt j)) ->
  forall fuel first, 1 + (last - first) <= N.of_nat fuel ->
  exists r, rss_scan rs c i first last step fuel = Val r /\
    (r = first \/ exists p, r = p + step /\ first <= p /\ p < last /\ cnt p < i) /\
    (last <= r \/ (r < last /\ i <= cnt r)).
Proof.
  intros Hstep Hsb. induction fuel as [|fuel IH]; intros first Hf; [lia|].
  cbn [rss_scan]. destruct (N.ltb_spec first last) as [Hlt|Hge].
  - destruct (Hsb first Hlt) as (sb & E1 & E2). unfold idx. rewrite E1. cbn [bind]. rewrite E2. cbn [bind].
    destruct (N.leb_spec i (cnt first)) as [Hle|Hgt].
    + exists first. split; [reflexivity|]. split; [now left|right; lia].
    + destruct (IH (first + step) ltac:(lia)) as (r & E & Hr & Hend).
      exists r. split; [exact E|]. split; [|exact Hend]. right.
      destruct Hr as [Hr|(p & Hp1 & Hp2 & Hp3 & Hp4)].
      * exists first. repeat split; try lia.
      * exists p. repeat split; try lia.
  - exists first. split; [reflexivity|]. split; [now left|left; lia].
Qed.

Lemma samples_bracket bsize s c L k : bsz bsize -> fsamp_ok bsize s c L -> k < countN c s ->
  exists x0 x1, nthN L (k / 8192) = Some x0 /\ nthN L (k / 8192 + 1) = Some x1 /\
    x0 <= x1 /\ x1 <= len s / (8 * bsize) /\ rk s c (x0 * (8 * bsize)) <= k /\
    (x1 = len s / (8 * bsize) \/ k < rk s c ((x1 + 1) * (8 * bsize))).
Proof.
  intros Hb (H1 & H2) Hk. remember (k / 8192) as q eqn:Eq.
  destruct (H1 q ltac:(lia)) as (x0 & E0 & Hx0 & Hlo0 & Hhi0).
  destruct (N.lt_ge_cases ((q + 1) * 8192) (countN c s)) as [Hc|Hc].
  - destruct (H1 (q + 1) Hc) as (x1 & E1 & Hx1 & Hlo1 & Hhi1). exists x0, x1.
    split; [exact E0|]. split; [exact E1|]. split; [|split; [exact Hx1|split; [lia|right; lia]]].
    destruct (N.le_gt_cases x0 x1) as [|Hgt]; [assumption|]. exfalso.
    pose proof (rk_mono s c ((x1 + 1) * (8 * bsize)) (x0 * (8 * bsize))). destruct Hb as [-> | ->]; lia.
  - exists x0, (len s / (8 * bsize)).
    split; [exact E0|]. split; [|split; [exact Hx0|split; [lia|split; [lia|now left]]]].
    replace (q + 1) with ((countN c s + 8191) / 8192) by lia. apply H2. lia.
Qed.

(* ------------------------------------------------------------------ the block inside superblock j *)
Lemma block_locate bsize s c k j b : bsz bsize -> j <= len s / (8 * bsize) ->
  rk s c (j * (8 * bsize)) <= k -> k < countN c s ->
  (j = len s / (8 * bsize) \/ k < rk s c ((j + 1) * (8 * bsize))) -> b <= 7 ->
  (forall m, 1 <= m <= b -> fld bsize s (len s + bsize) j m c < k + 1 - rk s c (j * (8 * bsize))) ->
  (b < 7 -> k + 1 - rk s c (j * (8 * bsize)) <= fld bsize s (len s + bsize) j (b + 1) c) ->
  rk s c (j * (8 * bsize)) + (if b =? 0 then 0 else fld bsize s (len s + bsize) j b c)
    = rk s c (j * (8 * bsize) + b * bsize) /\
  rk s c (j * (8 * bsize) + b * bsize) <= k /\ k < rk s c (j * (8 * bsize) + b * bsize + bsize).
Proof.
  intros Hb Hj Hlo Hk Hhi Hb7 Hlt Hnext.
  set (n := len s) in *. set (B := j * (8 * bsize)) in *.
  assert (Hmono : forall x, rk s c B <= rk s c (B + x)) by (intros x; apply rk_mono; lia).
  (* the field of block b is set *)
  assert (Hset : 1 <= b -> B + b * bsize <= n + bsize).
  { intros Hb1. destruct (N.le_gt_cases (B + b * bsize) (n + bsize)) as [|Hgt]; [assumption|]. exfalso.
    assert (Ej : j = n / (8 * bsize)) by (subst B; destruct Hb as [-> | ->]; lia).
    remember ((n / bsize) mod 8 + 1) as m0 eqn:Em0.
    assert (Hm0 : 1 <= m0 <= b /\ B + m0 * bsize <= n + bsize /\ n < B + m0 * bsize)
      by (subst B; destruct Hb as [-> | ->]; lia).
    pose proof (Hlt m0 ltac:(lia)) as Hl. unfold fld in Hl. fold B in Hl.
    replace (B + m0 * bsize <=? n + bsize) with true in Hl by lia.
    rewrite (rk_all s c (B + m0 * bsize)) in Hl by (fold n; lia). lia. }
  assert (Hrkb : rk s c B + (if b =? 0 then 0 else fld bsize s (n + bsize) j b c) = rk s c (B + b * bsize)
                 /\ rk s c (B + b * bsize) <= k).
  { destruct (N.eqb_spec b 0) as [->|Hnz].
    - replace (B + 0 * bsize) with B by lia. lia.
    - pose proof (Hlt b ltac:(lia)) as Hl. unfold fld in *. fold B in Hl. fold B.
      replace (B + b * bsize <=? n + bsize) with true in * by (specialize (Hset ltac:(lia)); lia).
      pose proof (Hmono (b * bsize)). lia. }
  split; [apply Hrkb|]. split; [apply Hrkb|].
  destruct (N.lt_ge_cases b 7) as [Hb6|Hb6].
  - specialize (Hnext Hb6). unfold fld in Hnext. fold B in Hnext.
    destruct (N.leb_spec (B + (b + 1) * bsize) (n + bsize)) as [Hs|Hs]; [|lia].
    replace (B + b * bsize + bsize) with (B + (b + 1) * bsize) by lia.
    pose proof (Hmono ((b + 1) * bsize)). lia.
  - assert (b = 7) by lia. subst b.
    replace (B + 7 * bsize + bsize) with ((j + 1) * (8 * bsize)) by (subst B; lia).
    destruct Hhi as [Ej|Hhi]; [|exact Hhi].
    rewrite rk_all; [exact Hk|]. fold n. subst B. destruct Hb as [-> | ->]; lia.
Qed.

(* ------------------------------------------------------------------ select_block *)
Lemma rss_select_block_ok bsize s rs c k : bsz bsize -> len s < RSQ_MAXN -> dir_ok bsize s rs ->
  c <= 3 -> k < countN c s ->
  exists pos, rss_select_block bsize rs c (k + 1) = Val (pos, rk s c pos) /\
    pos mod bsize = 0 /\ rk s c pos <= k /\ k < rk s c (pos + bsize).
Proof.
  intros Hb Hn Hd Hc Hk. pose proof Hd as (Hlen & Hsbs & sm & Hsm & Hsamp).
  unfold rss_select_block. unfold osub at 1. replace (1 <=? k + 1) with true by lia. cbn [bind].
  replace (k + 1 - 1) with k by lia. rewrite SELECT_NUM_SAMPLES_val, RS_BLOCKS_IN_SB_val.
  rewrite Hsm, idx_vec4 by assumption. cbn [bind].
  destruct (samples_bracket bsize s c (sm c) k Hb (Hsamp c Hc) Hk)
    as (x0 & x1 & E0 & E1 & H01 & Hx1 & Hlo & Hhi).
  unfold idx at 1. rewrite E0. cbn [bind]. unfold idx at 1. rewrite E1. cbn [bind].
  unfold osub at 1. replace (x0 <=? 1 + x1) with true by lia. cbn [bind].
  remember (N.sqrt (1 + x1 - x0) + 1) as step eqn:Estep.
  assert (Hstep : 1 <= step) by lia.
  assert (Hcnt : forall j, j < 1 + x1 -> exists sb, nthN (rs_superblocks rs) j = Some sb /\
            sb_get_superblock_counter sb c = Val ((fun j => rk s c (j * (8 * bsize))) j)).
  { intros j Hj. apply dir_counter; try assumption. lia. }
  assert (Hlen' : N.of_nat (length (rs_superblocks rs)) = len s / (8 * bsize) + 1) by exact Hlen.
  (* first scan *)
  destruct (rss_scan_spec rs c (k + 1) (1 + x1) step _ Hstep Hcnt (S (length (rs_superblocks rs))) x0
              ltac:(lia)) as (r1 & Er1 & Hr1 & Hend1).
  rewrite Er1. cbn [bind]. cbv beta in Hr1, Hend1.
  destruct Hr1 as [->|(p & -> & Hp0 & Hp1 & Hpc)]; [exfalso; lia|].
  unfold osub at 1. replace (step <=? p + step) with true by lia. cbn [bind].
  replace (p + step - step) with p by lia.
  (* second scan *)
  destruct (rss_scan_spec rs c (k + 1) (1 + x1) 1 _ ltac:(lia) Hcnt
              (S (N.to_nat step) + S (length (rs_superblocks rs))) p ltac:(lia)) as (r2 & Er2 & Hr2 & Hend2).
  rewrite Er2. cbn [bind]. cbv beta in Hr2, Hend2.
  destruct Hr2 as [->|(j & -> & Hj0 & Hj1 & Hjc)]; [exfalso; lia|].
  unfold osub at 1. replace (1 <=? j + 1) with true by lia. cbn [bind].
  replace (j + 1 - 1) with j by lia.
  assert (Hjj : j <= len s / (8 * bsize)) by lia.
  unfold idx at 1. rewrite (dir_sb bsize s rs j Hd Hjj). cbn [bind]. unfold W.
  rewrite sb_get_superblock_counter_rec
    by (try assumption; try (now apply fld_bound); apply rk_lt44; rewrite RSQ_MAXN_val in Hn; norm_pow; lia). cbn [bind].
  unfold osub at 1. replace (rk s c (j * (8 * bsize)) <=? k + 1) with true by lia. cbn [bind].
  destruct (sb_block_predecessor_rec (fun c => rk s c (j * (8 * bsize)))
              (fun c k => fld bsize s (len s + bsize) j k c) c (k + 1 - rk s c (j * (8 * bsize))) Hc
              (fld_bound bsize s _ j c Hb)) as (b & Eb & Hb7 & Hlt & Hnext).
  rewrite Eb. cbn [bind].
  assert (Hhi' : j = len s / (8 * bsize) \/ k < rk s c ((j + 1) * (8 * bsize))).
  { destruct Hend2 as [He|He]; [|right; lia]. assert (j = x1) by lia. subst j. exact Hhi. }
  destruct (block_locate bsize s c k j b Hb Hjj ltac:(lia) Hk Hhi' Hb7 Hlt Hnext) as (R1 & R2 & R3).
  exists (j * (8 * bsize) + b * bsize). split; [|split; [|split; assumption]].
  - replace (j * bsize * 8) with (j * (8 * bsize)) by lia. now rewrite R1.
  - destruct Hb as [-> | ->]; lia.
Qed.

(* ------------------------------------------------------------------ select inside the block *)
Lemma nthN_In {A} (l : list A) i a : nthN l i = Some a -> In a l.
Proof. rewrite nthN_nth_error. apply nth_error_In. Qed.

Lemma locate_final s z c p k : nthN (s ++ z) p = Some c -> rk (s ++ z) c p = k -> k < countN c s ->
  nthN s p = Some c /\ rk s c p = k.
Proof.
  intros Hn Hr Hk. destruct (N.lt_ge_cases p (len s)) as [H|H].
  - rewrite nthN_app1 in Hn by assumption. rewrite rk_app_le in Hr by lia. now split.
  - exfalso. rewrite rk_app, rk_all in Hr by assumption. lia.
Qed.

Lemma rsq_select_intra_ok bsize q s rs os c k pos : bsz bsize -> qvb_inv q s -> c <= 3 ->
  pos mod bsize = 0 -> rk s c pos <= k -> k < rk s c (pos + bsize) -> k < countN c s ->
  exists off, rsq_select_intra_block bsize (mk_rsq q rs os) c (k - rk s c pos + 1) pos = Val off /\
    nthN s (pos + off) = Some c /\ rk s c (pos + off) = k.
Proof.
  intros Hb (Hpos & Hall & Hlen & pad & Hcat) Hc Hpm Hlo Hhi Hk.
  unfold rsq_select_intra_block. cbn [rsq_qv]. rewrite shiftr8.
  unfold osub. replace (1 <=? k - rk s c pos + 1) with true by lia. cbn [bind].
  replace (k - rk s c pos + 1 - 1) with (k - rk s c pos) by lia.
  remember (k - rk s c pos) as t eqn:Et. remember (pos / 256) as j0 eqn:Ej0.
  assert (Hposn : pos < len s).
  { destruct (N.lt_ge_cases pos (len s)); [assumption|]. rewrite rk_all in Hlo by assumption. lia. }
  assert (Epos : pos = 256 * j0) by (destruct Hb as [-> | ->]; lia).
  assert (HS : forall x, rk s c x <= rk (concat (qv_data q)) c x).
  { intros x. rewrite Hcat, rk_app. lia. }
  assert (HSe : forall x, x <= len s -> rk (concat (qv_data q)) c x = rk s c x).
  { intros x Hx. rewrite Hcat. now apply rk_app_le. }
  destruct (nthN_lt_some (qv_data q) j0) as (d0 & Ed0); [rewrite Hlen; lia|].
  assert (Ld0 : len d0 = 256).
  { rewrite Forall_forall in Hall. apply Hall. eapply nthN_In. exact Ed0. }
  unfold uidx at 1. rewrite Ed0. cbn [bind].
  pose proof (rk_line c (qv_data q) Hall j0 256 ltac:(lia)) as L0.
  rewrite Ed0, <- Epos in L0. rewrite (rk_all d0) in L0 by lia. rewrite (HSe pos) in L0 by lia.
  destruct (N.lt_ge_cases t (countN c d0)) as [Ht|Ht].
  - destruct (sel_line_found c d0 t 0 Ld0 Ht) as (qq & a & b & E & Hq & Hnq & Hrq). rewrite E.
    cbv beta iota. exists (0 + qq). split; [reflexivity|]. replace (pos + (0 + qq)) with (pos + qq) by lia.
    apply (locate_final s (repeat 0 pad)); [| |exact Hk]; rewrite <- Hcat.
    + rewrite (nthN_concat_uniform 256) by (try exact Hall; lia).
      replace ((pos + qq) / 256) with j0 by lia. rewrite Ed0.
      replace ((pos + qq) mod 256) with qq by lia. exact Hnq.
    + pose proof (rk_line c (qv_data q) Hall j0 qq ltac:(lia)) as Lq.
      rewrite Ed0, <- Epos in Lq. rewrite (HSe pos) in Lq by lia. lia.
  - rewrite (sel_line_notfound c d0 t 0 Ld0 Ht). cbv beta iota.
    destruct Hb as [-> | ->].
    + exfalso. pose proof (HS (pos + 256)). lia.
    + change (512 =? 256) with false. cbv iota.
      pose proof (rk_line c (qv_data q) Hall (j0 + 1) 256 ltac:(lia)) as L1.
      replace (256 * (j0 + 1) + 256) with (pos + 512) in L1 by lia.
      replace (256 * (j0 + 1)) with (pos + 256) in L1 by lia.
      pose proof (HS (pos + 512)) as HS512.
      destruct (nthN (qv_data q) (j0 + 1)) as [d1|] eqn:Ed1; [|exfalso; lia].
      assert (Ld1 : len d1 = 256).
      { rewrite Forall_forall in Hall. apply Hall. eapply nthN_In. exact Ed1. }
      unfold uidx. rewrite Ed1. cbn [bind].
      rewrite (rk_all d1) in L1 by lia.
      assert (Ht1 : t - countN c d0 < countN c d1) by lia.
      destruct (sel_line_found c d1 _ (0 + 256) Ld1 Ht1) as (qq & a & b & E & Hq & Hnq & Hrq). rewrite E.
      cbv beta iota. exists (0 + 256 + qq). split; [reflexivity|].
      replace (pos + (0 + 256 + qq)) with (pos + 256 + qq) by lia.
      apply (locate_final s (repeat 0 pad)); [| |exact Hk]; rewrite <- Hcat.
      * rewrite (nthN_concat_uniform 256) by (try exact Hall; lia).
        replace ((pos + 256 + qq) / 256) with (j0 + 1) by lia. rewrite Ed1.
        replace ((pos + 256 + qq) mod 256) with qq by lia. exact Hnq.
      * pose proof (rk_line c (qv_data q) Hall (j0 + 1) qq ltac:(lia)) as Lq.
        rewrite Ed1 in Lq. replace (256 * (j0 + 1)) with (pos + 256) in Lq by lia. lia.
Qed.

(* ------------------------------------------------------------------ select *)
Lemma rsq_select_ok bsize q s rs c k : bsz bsize -> len s < RSQ_MAXN -> qvb_inv q s ->
  dir_ok bsize s rs -> k < 2 ^ 64 ->
  rsq_select bsize (mk_rsq q rs (occs_smaller_of s)) c k =
  Val (if c <=? 3 then select_spec s c k else None).
Proof.
  intros Hb Hn Hq Hd Hk64. unfold rsq_select.
  destruct (N.leb_spec c 3) as [Hc|Hc]; [|now replace (3 <? c) with true by lia].
  replace (3 <? c) with false by lia. rewrite rsq_occs_unchecked_ok by assumption. cbn [bind].
  destruct (N.leb_spec (countN c s) k) as [Hge|Hk]; [now rewrite select_spec_none|].
  pose proof (countN_le_len c s) as Hcl. rewrite RSQ_MAXN_val in Hn.
  unfold oadd at 1. replace (k + 1 <? 2 ^ 64) with true by (norm_pow; lia). cbn [bind rsq_rs].
  destruct (rss_select_block_ok bsize s rs c k Hb ltac:(rewrite RSQ_MAXN_val; exact Hn) Hd Hc Hk)
    as (pos & E & Hpm & Hlo & Hhi).
  rewrite E. cbn [bind]. unfold osub at 1. replace (rk s c pos <=? k) with true by lia. cbn [bind].
  unfold oadd at 1. replace (k - rk s c pos + 1 <? 2 ^ 64) with true by (norm_pow; lia). cbn [bind].
  destruct (rsq_select_intra_ok bsize q s rs (occs_smaller_of s) c k pos Hb Hq Hc Hpm Hlo Hhi Hk)
    as (off & Eo & Hn1 & Hr1).
  rewrite Eo. cbn [bind]. f_equal. symmetry. now apply select_spec_some.
Qed.
