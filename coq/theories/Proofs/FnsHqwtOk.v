(* T5 (HuffQWaveletTree<T, RSQVector<RSSupportPlain<B>>>, src/quadwt/huffqwt.rs, B = 256 and 512, element
   width wT symbolic): the functions REGENERATED from the source (Gen/FnsHqwt.v: the g_hqwt256_ and g_hqwt512_
   families) agree with the hand model (Model/Huff.v), and return the list specification on every tree
   hq_build builds for a compatible code table (C02).
   Representation: `codes_encode : Vec<PrefixCode>` and `qvs : Vec<RSQVector>` are passed as one list per
   field (hq_enc_content .. hq_occs below). *)
From Coq Require Import ZArith Lia ZifyBool ZifyN ZifyNat.
From QwtModel Require Import ListX Loops Seq Consts SelTable Words QVec RSQ QWT Huff ListXP ConstsOk WordsP BitsLib LeafP.
From QwtModel Require Import LeavesLib FnsRss FnsQv2 FnsRsq FnsQv2Ok FnsRssOk FnsRsqOk FnsHqwt.
From QwtModel Require Import QVecP RSQList RSQWord RSQBuild RSQP WaveletMatrix HuffWM Codes HQWTBridge HQWTWalks HQWTCode HQWTP CraftP HQWTNewP.
Open Scope N_scope.
Arguments N.add : simpl never.
Arguments N.sub : simpl never.
Arguments N.mul : simpl never.
Arguments N.eqb : simpl never.
Arguments N.ltb : simpl never.
Arguments N.leb : simpl never.
Arguments N.pred : simpl never.
Arguments N.of_nat : simpl never.
Arguments N.land : simpl never.
Arguments N.lor : simpl never.
Arguments N.lxor : simpl never.
Arguments N.shiftr : simpl never.
Arguments N.shiftl : simpl never.
Arguments N.testbit : simpl never.
Arguments N.div : simpl never.
Arguments N.modulo : simpl never.
Arguments N.pow : simpl never.
Arguments N.ones : simpl never.
Arguments Z.of_N : simpl never.
Arguments Z.to_N : simpl never.
Arguments Z.of_nat : simpl never.
Arguments Z.modulo : simpl never.
Arguments Z.pow : simpl never.
Arguments Z.sub : simpl never.
Arguments Z.add : simpl never.
Arguments Z.mul : simpl never.
Arguments Z.leb : simpl never.

(* ------------------------------------------------------------------ the fields of the tree *)
(* `codes_encode: Vec<PrefixCode>` and `qvs: Vec<RS>` as the generated functions receive them: struct of arrays *)
Definition hq_enc_content (t : hqwt) : list N := map pc_content (h_codes t).
Definition hq_enc_len (t : hqwt) : list N := map pc_len (h_codes t).
Definition lvl_sbs (r : rsq) : list (list N) := rs_superblocks (rsq_rs r).
Definition lvl_samples (r : rsq) : list (list N) := rs_samples (rsq_rs r).
Definition hq_data (t : hqwt) : list (list (list N)) := map rsq_wdata (h_qvs t).
Definition hq_pos (t : hqwt) : list N := map rsq_pos (h_qvs t).
Definition hq_sbs (t : hqwt) : list (list (list N)) := map lvl_sbs (h_qvs t).
Definition hq_samples (t : hqwt) : list (list (list N)) := map lvl_samples (h_qvs t).
Definition hq_occs (t : hqwt) : list (list N) := map rsq_occs_smaller (h_qvs t).
(* codes_decode is h_decode t, lens is h_lens t *)

Lemma idx_map {A B} (f : A -> B) l i : idx (map f l) i = (let! x := idx l i in Val (f x)).
Proof. unfold idx. rewrite nthN_map. destruct (nthN l i); reflexivity. Qed.

(* ------------------------------------------------------------------ arithmetic helpers *)
Lemma p63 : 2 ^ 63 = 9223372036854775808. Proof. reflexivity. Qed.
Lemma zp64 : (2 ^ 64 = 18446744073709551616)%Z. Proof. reflexivity. Qed.
Lemma zp63 : (2 ^ 63 = 9223372036854775808)%Z. Proof. reflexivity. Qed.

(* a non-negative i64 used as a shift amount (`shift as usize`) *)
Lemma shamt_of_N sh : sh < 2 ^ 64 -> Z.to_N (Z.modulo (Z.of_N sh) (2 ^ 64)%Z) = sh.
Proof.
  intros H. rewrite p64 in H. rewrite Z.mod_small by (rewrite zp64; lia). apply N2Z.id.
Qed.

Lemma zin64 z : (- 9223372036854775808 <= z < 9223372036854775808)%Z -> zin 64 z = true.
Proof.
  intros H. unfold zin. change (Z.of_N 64 - 1)%Z with 63%Z. rewrite zp63.
  destruct (Z.leb_spec (- 9223372036854775808) z), (Z.ltb_spec z 9223372036854775808); try lia; reflexivity.
Qed.

Lemma zwrap_small z : (0 <= z < 9223372036854775808)%Z -> zwrap 64 z = z.
Proof.
  intros H. unfold zwrap. change (Z.of_N 64 - 1)%Z with 63%Z. change (Z.of_N 64) with 64%Z.
  rewrite zp63, zp64. rewrite Z.mod_small by lia.
  destruct (Z.ltb_spec z 9223372036854775808); [reflexivity|lia].
Qed.

Lemma zisub2 z : (0 <= z < 9223372036854775808)%Z -> zisub 64 z 2 = Val (z - 2)%Z.
Proof. intros H. unfold zisub. rewrite zin64 by lia. reflexivity. Qed.
Lemma ziadd2 z : (0 <= z < 9223372036854775806)%Z -> ziadd 64 z 2 = Val (z + 2)%Z.
Proof. intros H. unfold ziadd. rewrite zin64 by lia. reflexivity. Qed.

Lemma land3_le x : N.land x 3 <= 3.
Proof. pose proof (land_lt_r x 3 2 ltac:(reflexivity)) as H. change (2 ^ 2) with 4 in H. lia. Qed.
Lemma land3_mod8 x : N.land x 3 mod 2 ^ 8 = N.land x 3.
Proof. pose proof (land3_le x). apply N.mod_small. change (2 ^ 8) with 256. lia. Qed.

Lemma oadd_small w a b : a + b < 2 ^ w -> oadd w a b = Val (a + b).
Proof. intros H. unfold oadd. destruct (N.ltb_spec (a + b) (2 ^ w)); [reflexivity|lia]. Qed.

(* ------------------------------------------------------------------ well-formed levels and tables *)
(* what the rank / get walks need of a level: well-formed data lines, u128 superblock words (so that a
   rank is below 2^45) and prefix counts that leave room for it *)
Definition lvl_rank_ok (r : rsq) : Prop :=
  rsq_lines_ok r /\
  Forall (Forall (fun w => w < 2 ^ 128)) (rs_superblocks (rsq_rs r)) /\
  Forall (fun x => x < 2 ^ 63) (rsq_occs_smaller r).

(* .. and select: u32 samples, enough fuel for the superblock scans, positions that fit a usize *)
Definition lvl_select_ok (bsize : N) (fuel : nat) (r : rsq) : Prop :=
  lvl_rank_ok r /\
  Forall (Forall (fun x => x < 2 ^ 32)) (rs_samples (rsq_rs r)) /\
  (S (length (rs_superblocks (rsq_rs r))) <= fuel)%nat /\
  (forall c k p, k < 2 ^ 64 -> rsq_select bsize r c k = Val (Some p) -> p < 2 ^ 64).

(* the encode table: code lengths are even and at most 32 bits (PrefixCode { content: u32, len: u32 },
   two bits per level) *)
Definition codes_ok (t : hqwt) : Prop :=
  Forall (fun c => pc_len c mod 2 = 0 /\ pc_len c <= 32) (h_codes t).

Lemma lvl_select_typed bsize fuel r : lvl_select_ok bsize fuel r -> rss_typed (rsq_rs r).
Proof. intros ((_ & H & _) & H' & _). split; assumption. Qed.
Lemma lvl_select_rank bsize fuel qvs : Forall (lvl_select_ok bsize fuel) qvs -> Forall lvl_rank_ok qvs.
Proof. intros H. eapply Forall_impl; [|exact H]. intros r Hr. apply Hr. Qed.

(* a rank of a level with u128 superblock words is small *)
Lemma sb_get_rank_bound s c b v : Forall (fun w => w < 2 ^ 128) s -> sb_get_rank s c b = Val v -> v < 2 ^ 44 + 4096.
Proof.
  intros Hs. unfold sb_get_rank.
  destruct (uidx s c) as [data|] eqn:Ed; cbn [bind]; [|discriminate].
  pose proof (uidx_Forall _ _ _ _ Hs Ed) as Hd. cbv beta in Hd.
  destruct (osub b (if 0 <? b then 1 else 0)) as [k|]; cbn [bind]; [|discriminate].
  destruct (omul 64 k BLK_BITS_GR) as [sh|]; cbn [bind]; [|discriminate].
  destruct (oshr 128 data sh) as [d|]; cbn [bind]; [|discriminate].
  destruct (omul 64 (N.land (d mod 2 ^ 64) BLK_MASK_GR) (if 0 <? b then 1 else 0)) as [bb|] eqn:Eb; cbn [bind]; [|discriminate].
  intros E. apply oadd_Val_inv in E. destruct E as [-> _].
  assert (H1 : N.shiftr data SB_SHIFT_GR mod 2 ^ 64 < 2 ^ 44).
  { assert (H : N.shiftr data SB_SHIFT_GR < 2 ^ 44) by (apply shiftr_lt; exact Hd).
    eapply N.le_lt_trans; [apply N.mod_le; discriminate|exact H]. }
  assert (H2 : bb < 4096).
  { unfold omul in Eb. destruct (_ <? 2 ^ 64) in Eb; [|discriminate]. apply Val_inj in Eb. subst bb.
    pose proof (land_lt_r (d mod 2 ^ 64) BLK_MASK_GR 12 ltac:(reflexivity)) as H. change (2 ^ 12) with 4096 in H.
    destruct (0 <? b); lia. }
  lia.
Qed.

Lemma rank_intra_bound bsize r c i v : rsq_rank_intra_block bsize r c i = Val v -> v <= 512.
Proof.
  unfold rsq_rank_intra_block.
  destruct (odebug_assert (c <=? 3)) as [[]|]; cbn [bind]; [|discriminate].
  destruct (bsize =? 256).
  - destruct (nthN _ _); intros E; [apply line_rank_le in E|apply Val_inj in E]; lia.
  - destruct (match nthN (qv_data (rsq_qv r)) (N.shiftr i 9 * 2) with Some d => _ | None => Val 0 end) as [a|] eqn:Ea;
      cbn [bind]; [|discriminate].
    assert (Ha : a <= 256).
    { destruct (nthN _ _) in Ea; [apply line_rank_le in Ea|apply Val_inj in Ea]; lia. }
    destruct (256 <? N.land i 511).
    + destruct (match nthN (qv_data (rsq_qv r)) (N.shiftr i 9 * 2 + 1) with Some d => _ | None => Val 0 end) as [b|] eqn:Eb;
        cbn [bind]; [|discriminate].
      assert (Hb : b <= 256).
      { destruct (nthN _ _) in Eb; [apply line_rank_le in Eb|apply Val_inj in Eb]; lia. }
      intros E. apply Val_inj in E. lia.
    + intros E. apply Val_inj in E. lia.
Qed.

Lemma rank_unchecked_bound bsize r c i v :
  Forall (Forall (fun w => w < 2 ^ 128)) (rs_superblocks (rsq_rs r)) ->
  rsq_rank_unchecked bsize r c i = Val v -> v < 2 ^ 45.
Proof.
  intros Hs. unfold rsq_rank_unchecked.
  destruct (odebug_assert (c <=? 3)) as [[]|]; cbn [bind]; [|discriminate].
  destruct (rss_rank_block bsize (rsq_rs r) c i) as [a|] eqn:Ea; cbn [bind]; [|discriminate].
  destruct (rsq_rank_intra_block bsize r c i) as [b|] eqn:Eb; cbn [bind]; [|discriminate].
  intros E. apply Val_inj in E. subst v.
  apply rank_intra_bound in Eb.
  unfold rss_rank_block in Ea.
  destruct (odebug_assert (c <=? 3)) as [[]|] in Ea; cbn [bind] in Ea; [|discriminate].
  destruct (uidx (rs_superblocks (rsq_rs r)) _) as [sb|] eqn:Esb; cbn [bind] in Ea; [|discriminate].
  pose proof (uidx_Forall _ _ _ _ Hs Esb) as Hsb. cbv beta in Hsb.
  apply sb_get_rank_bound in Ea; [|exact Hsb].
  change (2 ^ 44) with 17592186044416 in Ea. change (2 ^ 45) with 35184372088832. lia.
Qed.

Lemma rank_bound bsize r c i p :
  Forall (Forall (fun w => w < 2 ^ 128)) (rs_superblocks (rsq_rs r)) ->
  rsq_rank bsize r c i = Val (Some p) -> p < 2 ^ 45.
Proof.
  intros Hs. unfold rsq_rank. destruct ((3 <? c) || (rsq_len r <? i)); [discriminate|].
  destruct (rsq_rank_unchecked bsize r c i) as [v|] eqn:Ev; cbn [bind]; [|discriminate].
  intros E. apply Val_inj in E. injection E as <-. eapply rank_unchecked_bound; eassumption.
Qed.

Lemma occs_smaller_bound r c o : Forall (fun x => x < 2 ^ 63) (rsq_occs_smaller r) ->
  rsq_occs_smaller_unchecked r c = Val o -> o < 2 ^ 63 /\ c <= 3.
Proof.
  intros HF. unfold rsq_occs_smaller_unchecked.
  destruct (N.leb_spec c 3); cbn [odebug_assert bind]; [|discriminate].
  intros E. split; [|assumption]. exact (idx_Forall _ _ _ _ HF E).
Qed.

Lemma get_unchecked_lt4 r i x : rsq_lines_ok r -> rsq_get_unchecked r i = Val x -> x < 4.
Proof.
  intros Hr. unfold rsq_get_unchecked, qv_get_unchecked.
  destruct (odebug_assert _) as [[]|]; cbn [bind]; [|discriminate].
  destruct (uidx (qv_data (rsq_qv r)) _) as [l|] eqn:El; cbn [bind]; [|discriminate].
  pose proof (uidx_Forall _ _ _ _ Hr El) as [_ Hl].
  unfold line_get_unchecked. intros E. exact (uidx_Forall _ _ _ _ Hl E).
Qed.

(* ================================================================== code_index (same text for both block sizes) *)
Lemma sym_back wT symbol : symbol < 2 ^ wT ->
  ((symbol mod 2 ^ 64) mod 2 ^ wT =? symbol) = (symbol mod 2 ^ 64 =? symbol).
Proof.
  intros H. destruct (N.ltb_spec symbol (2 ^ 64)) as [H64|H64].
  - rewrite (N.mod_small symbol (2 ^ 64)) by exact H64. rewrite (N.mod_small symbol (2 ^ wT)) by exact H.
    reflexivity.
  - assert (H1 : symbol mod 2 ^ 64 < 2 ^ 64) by (apply N.mod_lt; discriminate).
    assert (H2 : (symbol mod 2 ^ 64) mod 2 ^ wT <= symbol mod 2 ^ 64) by (apply N.mod_le; apply N.pow_nonzero; discriminate).
    destruct (N.eqb_spec ((symbol mod 2 ^ 64) mod 2 ^ wT) symbol), (N.eqb_spec (symbol mod 2 ^ 64) symbol); try reflexivity; lia.
Qed.

(* Some index exactly when the hand model finds a code (hq_code_of) *)
Theorem g_hqwt256_code_index_ok : forall wT t symbol, symbol < 2 ^ wT ->
  g_hqwt256_code_index wT (hq_enc_content t) (hq_enc_len t) symbol
  = Val (match hq_code_of t symbol with Some _ => Some (sym_index symbol) | None => None end).
Proof.
  intros wT t symbol Hs. unfold g_hqwt256_code_index, hq_code_of, hq_enc_content, hq_enc_len. cbv zeta.
  rewrite (sym_back wT symbol Hs). rewrite len_map. unfold sym_index.
  destruct (negb (symbol mod 2 ^ 64 =? symbol) || (len (h_codes t) <=? symbol mod 2 ^ 64)) eqn:Ec; [reflexivity|].
  apply orb_false_elim in Ec. destruct Ec as [_ Ec].
  rewrite idx_map. unfold idx.
  destruct (nthN (h_codes t) (symbol mod 2 ^ 64)) as [c|] eqn:En; cbn [bind].
  - destruct (pc_len c =? 0); reflexivity.
  - exfalso. destruct (N.leb_spec (len (h_codes t)) (symbol mod 2 ^ 64)) as [|Hlt]; [discriminate|].
    destruct (nthN_lt_some _ _ Hlt) as (a & Ea). congruence.
Qed.
Theorem g_hqwt512_code_index_ok : forall wT t symbol, symbol < 2 ^ wT ->
  g_hqwt512_code_index wT (hq_enc_content t) (hq_enc_len t) symbol
  = Val (match hq_code_of t symbol with Some _ => Some (sym_index symbol) | None => None end).
Proof. exact g_hqwt256_code_index_ok. Qed.

(* ------------------------------------------------------------------ len / is_empty / n_levels *)
Theorem g_hqwt256_len_ok : forall t, g_hqwt256_len (h_n t) = Val (hq_len t).
Proof. reflexivity. Qed.
Theorem g_hqwt512_len_ok : forall t, g_hqwt512_len (h_n t) = Val (hq_len t).
Proof. reflexivity. Qed.
Theorem g_hqwt256_is_empty_ok : forall t, g_hqwt256_is_empty (h_n t) = Val (hq_len t =? 0).
Proof. reflexivity. Qed.
Theorem g_hqwt512_is_empty_ok : forall t, g_hqwt512_is_empty (h_n t) = Val (hq_len t =? 0).
Proof. reflexivity. Qed.
Theorem g_hqwt256_n_levels_ok : forall t, g_hqwt256_n_levels (h_n_levels t) = Val (h_n_levels t).
Proof. reflexivity. Qed.
Theorem g_hqwt512_n_levels_ok : forall t, g_hqwt512_n_levels (h_n_levels t) = Val (h_n_levels t).
Proof. reflexivity. Qed.

(* ================================================================== the walks, once for both block sizes *)
(* The generated text for B = 256 and B = 512 differs only in the names of the RSQVector functions it calls:
   the G_ definitions below are that text with the callees as section variables (the two instances are
   convertible to the generated definitions: [reflexivity] in the theorems after the section), and the
   hypotheses are the agreement theorems of Proofs/FnsRsqOk.v. *)
Section Generic.
  Variable bsize : N.
  Variable g_get_u : list (list N) -> N -> N -> outcome N.
  Variable g_occs_su : list N -> N -> outcome N.
  Variable g_rank_u : list (list N) -> list (list N) -> N -> N -> outcome N.
  Variable g_rank : list (list N) -> N -> list (list N) -> N -> N -> outcome (option N).
  Variable g_select : nat -> list (list N) -> list (list N) -> list (list N) -> list N -> N -> N -> outcome (option N).
  Hypothesis get_u_ok : forall r i, rsq_lines_ok r ->
    g_get_u (rsq_wdata r) (rsq_pos r) i = rsq_get_unchecked r i.
  Hypothesis occs_su_ok : forall r c, g_occs_su (rsq_occs_smaller r) c = rsq_occs_smaller_unchecked r c.
  Hypothesis rank_u_ok : forall r symbol i v, rsq_lines_ok r -> i < 2 ^ 64 -> v < 2 ^ 64 ->
    rsq_rank_unchecked bsize r symbol i = Val v ->
    g_rank_u (rsq_wdata r) (rs_superblocks (rsq_rs r)) symbol i = Val v.
  Hypothesis rank_ok : forall r symbol i v, rsq_lines_ok r -> i < 2 ^ 64 -> (forall p, v = Some p -> p < 2 ^ 64) ->
    rsq_rank bsize r symbol i = Val v ->
    g_rank (rsq_wdata r) (rsq_pos r) (rs_superblocks (rsq_rs r)) symbol i = Val v.
  Hypothesis select_ok : forall r symbol i v fuel,
    rsq_lines_ok r -> rss_typed (rsq_rs r) -> (S (length (rs_superblocks (rsq_rs r))) <= fuel)%nat ->
    (forall p, v = Some p -> p < 2 ^ 64) ->
    rsq_select bsize r symbol i = Val v ->
    g_select fuel (rsq_wdata r) (rs_superblocks (rsq_rs r)) (rs_samples (rsq_rs r)) (rsq_occs_smaller r) symbol i = Val v.

  (* ---------------------------------------------------------------- rank_unchecked / rank *)
  Definition G_rank_unchecked (fuel : nat) (wT : N) (codes_encode_content : list N) (codes_encode_len : list N) (qvs_qv_data : list (list (list N))) (qvs_rs_support_superblocks : list (list (list N))) (qvs_n_occs_smaller : list (list N)) (symbol : N) (i : N) : outcome N :=
    let cur_i := i in
    let cur_p := 0 in
    let t1 := symbol mod 2 ^ 64 in
    let! _ := idx codes_encode_content t1 in
    let! t2 := idx codes_encode_len t1 in
    let! shift := zisub 64 (zwrap 64 (Z.of_N t2)) (2%Z) in
    let! repr := idx codes_encode_content t1 in
    let level := 0 in
    let! r := while_loop (fun '(cur_p, cur_i, level, shift) =>
        Val (Z.leb (0%Z) shift)
      ) (fun '(cur_p, cur_i, level, shift) =>
        let! t3 := oshr 32 repr (Z.to_N (Z.modulo shift (2 ^ 64)%Z)) in
        let two_bits := (N.land t3 3) mod 2 ^ 8 in
        let! t4 := idx qvs_n_occs_smaller level in
        let! offset := g_occs_su t4 two_bits in
        let! t5 := idx qvs_qv_data level in
        let! t6 := idx qvs_rs_support_superblocks level in
        let! t7 := g_rank_u t5 t6 two_bits cur_p in
        let! cur_p := oadd 64 t7 offset in
        let! t8 := idx qvs_qv_data level in
        let! t9 := idx qvs_rs_support_superblocks level in
        let! t10 := g_rank_u t8 t9 two_bits cur_i in
        let! cur_i := oadd 64 t10 offset in
        let! level := oadd 64 level 1 in
        let! shift := zisub 64 shift (2%Z) in
        Val (Next (cur_p, cur_i, level, shift))
      ) fuel (cur_p, cur_i, level, shift) in
    match r with
    | Retd v => Val v
    | Done (cur_p, cur_i, level, shift) =>
        osub cur_i cur_p
    end.

  Definition G_rank (fuel : nat) (wT : N) (n : N) (codes_encode_content : list N) (codes_encode_len : list N) (qvs_qv_data : list (list (list N))) (qvs_rs_support_superblocks : list (list (list N))) (qvs_n_occs_smaller : list (list N)) (symbol : N) (i : N) : outcome (option N) :=
    let! t2 := (if N.ltb n i then Val true else
      let! t1 := g_hqwt256_code_index wT codes_encode_content codes_encode_len symbol in
      Val (match t1 with None => true | Some _ => false end)) in
    if t2 then
      Val None
    else
      let! t3 := G_rank_unchecked fuel wT codes_encode_content codes_encode_len qvs_qv_data qvs_rs_support_superblocks qvs_n_occs_smaller symbol i in
      Val (Some t3).

  Definition G_rank_body (repr : N) (qvs : list rsq) : N * N * N * Z -> outcome (step (N * N * N * Z) N) :=
    fun '(cur_p, cur_i, level, shift) =>
        let! t3 := oshr 32 repr (Z.to_N (Z.modulo shift (2 ^ 64)%Z)) in
        let two_bits := (N.land t3 3) mod 2 ^ 8 in
        let! t4 := idx (map rsq_occs_smaller qvs) level in
        let! offset := g_occs_su t4 two_bits in
        let! t5 := idx (map rsq_wdata qvs) level in
        let! t6 := idx (map lvl_sbs qvs) level in
        let! t7 := g_rank_u t5 t6 two_bits cur_p in
        let! cur_p := oadd 64 t7 offset in
        let! t8 := idx (map rsq_wdata qvs) level in
        let! t9 := idx (map lvl_sbs qvs) level in
        let! t10 := g_rank_u t8 t9 two_bits cur_i in
        let! cur_i := oadd 64 t10 offset in
        let! level := oadd 64 level 1 in
        let! shift := zisub 64 shift (2%Z) in
        Val (Next (cur_p, cur_i, level, shift)).

  (* the i64 shift of the source is 2 * (remaining fragments) - 2; the loop is left when it reaches -2 *)
  Lemma rank_loop_sim repr qvs : Forall lvl_rank_ok qvs ->
    forall n fuel level cur_p cur_i sh p' i', cur_p < 2 ^ 64 -> cur_i < 2 ^ 64 -> level + N.of_nat n < 2 ^ 63 ->
    (n <= 16)%nat -> (n < fuel)%nat -> ((0 < n)%nat -> sh = 2 * N.of_nat n - 2) ->
    hq_rank_walk bsize qvs repr sh cur_p cur_i level n = Val (p', i') ->
    while_loop (fun '(cur_p, cur_i, level, shift) => Val (Z.leb (0%Z) shift)) (G_rank_body repr qvs) fuel
      (cur_p, cur_i, level, (2 * Z.of_nat n - 2)%Z)
    = Val (Done (p', i', level + N.of_nat n, (-2)%Z)).
  Proof.
    intros HF. induction n as [|n IH]; intros fuel level cur_p cur_i sh p' i' Hp Hi Hlv Hn Hfuel Hsh;
      (destruct fuel as [|fuel]; [lia|]).
    - cbn [hq_rank_walk while_loop bind]. intros E. apply Val_inj in E. injection E as <- <-.
      change (2 * Z.of_nat 0 - 2)%Z with (-2)%Z. change (0 <=? -2)%Z with false. cbv iota.
      change (N.of_nat 0) with 0. now rewrite N.add_0_r.
    - specialize (Hsh ltac:(lia)). rewrite p63 in Hlv.
      cbn [hq_rank_walk while_loop bind].
      replace (0 <=? 2 * Z.of_nat (S n) - 2)%Z with true by lia. cbv iota.
      unfold G_rank_body at 1. cbv beta iota zeta.
      replace (2 * Z.of_nat (S n) - 2)%Z with (Z.of_N sh) by lia.
      rewrite shamt_of_N by (rewrite p64; lia).
      unfold oshr. destruct (N.ltb_spec sh 32) as [_|H32]; [|lia]. cbn [bind].
      rewrite land3_mod8. set (tb := N.land (N.shiftr repr sh) 3).
      rewrite !idx_map.
      destruct (idx qvs level) as [qv|] eqn:Eqv; cbn [bind]; [|discriminate].
      pose proof (idx_Forall _ _ _ _ HF Eqv) as (Hl & Hw & Ho).
      rewrite occs_su_ok.
      destruct (rsq_occs_smaller_unchecked qv tb) as [offset|] eqn:Eo; cbn [bind]; [|discriminate].
      destruct (occs_smaller_bound _ _ _ Ho Eo) as [Hoff _].
      destruct (rsq_rank_unchecked bsize qv tb cur_p) as [rp|] eqn:Erp; cbn [bind]; [|discriminate].
      destruct (rsq_rank_unchecked bsize qv tb cur_i) as [ri|] eqn:Eri; cbn [bind]; [|discriminate].
      pose proof (rank_unchecked_bound _ _ _ _ _ Hw Erp) as Hrp.
      pose proof (rank_unchecked_bound _ _ _ _ _ Hw Eri) as Hri.
      change (2 ^ 45) with 35184372088832 in Hrp, Hri. rewrite p63 in Hoff.
      intros E. unfold lvl_sbs at 1 2.
      rewrite (rank_u_ok qv tb cur_p rp Hl Hp ltac:(rewrite p64; lia) Erp). cbn [bind].
      rewrite oadd_small by (rewrite p64; lia). cbn [bind].
      rewrite (rank_u_ok qv tb cur_i ri Hl Hi ltac:(rewrite p64; lia) Eri). cbn [bind].
      rewrite oadd_small by (rewrite p64; lia). cbn [bind].
      rewrite oadd_small by (rewrite p64; lia). cbn [bind].
      rewrite zisub2 by lia. cbn [bind].
      replace (Z.of_N sh - 2)%Z with (2 * Z.of_nat n - 2)%Z by lia.
      replace (level + N.of_nat (S n)) with (level + 1 + N.of_nat n) by lia.
      apply (IH fuel (level + 1) (rp + offset) (ri + offset) (sh - 2));
        try (rewrite ?p64, ?p63; lia). exact E.
  Qed.

  Theorem G_rank_unchecked_sim : forall wT t symbol i v fuel,
    Forall lvl_rank_ok (h_qvs t) -> codes_ok t -> i < 2 ^ 64 -> (17 <= fuel)%nat ->
    hq_rank_unchecked bsize t symbol i = Val v ->
    G_rank_unchecked fuel wT (hq_enc_content t) (hq_enc_len t) (hq_data t) (hq_sbs t) (hq_occs t) symbol i = Val v.
  Proof.
    intros wT t symbol i v fuel HF HC Hi Hfuel. unfold hq_rank_unchecked, G_rank_unchecked. cbv zeta.
    unfold hq_enc_content, hq_enc_len. rewrite !idx_map. fold (sym_index symbol).
    destruct (idx (h_codes t) (sym_index symbol)) as [code|] eqn:Ec; cbn [bind]; [|discriminate].
    pose proof (idx_Forall _ _ _ _ HC Ec) as [Hev H32]. cbv beta in Hev, H32.
    rewrite zwrap_small by lia. rewrite zisub2 by lia. cbn [bind].
    destruct (hq_rank_walk bsize (h_qvs t) (pc_content code) (pc_len code - 2) 0 i 0 (N.to_nat (pc_len code / 2)))
      as [[p' i']|] eqn:Ew; cbn [bind]; [|discriminate].
    assert (H0 : 0 < 2 ^ 64) by (rewrite p64; lia).
    assert (H0' : 0 + N.of_nat (N.to_nat (pc_len code / 2)) < 2 ^ 63) by (rewrite p63; lia).
    pose proof (rank_loop_sim (pc_content code) (h_qvs t) HF (N.to_nat (pc_len code / 2)) fuel 0 0 i
                  (pc_len code - 2) p' i' H0 Hi H0' ltac:(lia) ltac:(lia) ltac:(lia) Ew) as Hloop.
    replace (2 * Z.of_nat (N.to_nat (pc_len code / 2)) - 2)%Z with (Z.of_N (pc_len code) - 2)%Z in Hloop by lia.
    unfold G_rank_body in Hloop. unfold hq_data, hq_sbs, hq_occs. rewrite Hloop. cbn [bind]. trivial.
  Qed.

  Theorem G_rank_sim : forall wT t symbol i v fuel,
    Forall lvl_rank_ok (h_qvs t) -> codes_ok t -> symbol < 2 ^ wT -> i < 2 ^ 64 -> (17 <= fuel)%nat ->
    hq_rank bsize t symbol i = Val v ->
    G_rank fuel wT (h_n t) (hq_enc_content t) (hq_enc_len t) (hq_data t) (hq_sbs t) (hq_occs t) symbol i = Val v.
  Proof.
    intros wT t symbol i v fuel HF HC Hs Hi Hfuel. unfold hq_rank, G_rank.
    destruct (h_n t <? i); cbn [bind]; [trivial|].
    rewrite (g_hqwt256_code_index_ok wT t symbol Hs). cbn [bind].
    destruct (hq_code_of t symbol); cbn [bind]; [|trivial].
    destruct (hq_rank_unchecked bsize t symbol i) as [x|] eqn:Ex; cbn [bind]; [|discriminate].
    intros E. rewrite (G_rank_unchecked_sim wT t symbol i x fuel HF HC Hi Hfuel Ex). exact E.
  Qed.

  (* ---------------------------------------------------------------- get_unchecked / get *)
  Definition G_get_unchecked (wT : N) (n_levels : N) (codes_decode : list (list (N * N))) (qvs_qv_data : list (list (list N))) (qvs_qv_position : list N) (qvs_rs_support_superblocks : list (list (list N))) (qvs_n_occs_smaller : list (list N)) (lens : list N) (i : N) : outcome N :=
    let cur_i := i in
    let result := 0 in
    let shift := 0 in
    let! r := for_loop (fun level '(result, cur_i, shift) =>
        let! t1 := idx lens level in
        if N.leb t1 cur_i then
          Val (Brk (result, cur_i, shift))
        else
          let! _ := idx qvs_qv_data level in
          let! t2 := idx qvs_qv_data level in
          let! t3 := idx qvs_qv_position level in
          let! symbol := g_get_u t2 t3 cur_i in
          let result := N.lor (N.shiftl result 2 mod 2 ^ 32) symbol in
          let! t4 := idx qvs_n_occs_smaller level in
          let! offset := g_occs_su t4 symbol in
          let! t5 := idx qvs_qv_data level in
          let! t6 := idx qvs_rs_support_superblocks level in
          let! t7 := g_rank_u t5 t6 symbol cur_i in
          let! cur_i := oadd 64 t7 offset in
          let! shift := oadd 64 shift 2 in
          Val (Next (result, cur_i, shift))
      ) 0 (N.to_nat (n_levels - 0)) (result, cur_i, shift) in
    match r with
    | Retd v => Val v
    | Done (result, cur_i, shift) =>
        let! t8 := idx codes_decode shift in
        let! idx_ := obsearch_fst t8 result in
        let! t9 := idx codes_decode shift in
        let! t10 := idx t9 idx_ in
        ounwrap (Some (snd t10))
    end.

  Definition G_get (wT : N) (n : N) (n_levels : N) (codes_decode : list (list (N * N))) (qvs_qv_data : list (list (list N))) (qvs_qv_position : list N) (qvs_rs_support_superblocks : list (list (list N))) (qvs_n_occs_smaller : list (list N)) (lens : list N) (i : N) : outcome (option N) :=
    if N.leb n i then
      Val None
    else
      let! t1 := G_get_unchecked wT n_levels codes_decode qvs_qv_data qvs_qv_position qvs_rs_support_superblocks qvs_n_occs_smaller lens i in
      Val (Some t1).

  Definition G_get_body (qvs : list rsq) (lens : list N) : N -> N * N * N -> outcome (step (N * N * N) N) :=
    fun level '(result, cur_i, shift) =>
        let! t1 := idx lens level in
        if N.leb t1 cur_i then
          Val (Brk (result, cur_i, shift))
        else
          let! _ := idx (map rsq_wdata qvs) level in
          let! t2 := idx (map rsq_wdata qvs) level in
          let! t3 := idx (map rsq_pos qvs) level in
          let! symbol := g_get_u t2 t3 cur_i in
          let result := N.lor (N.shiftl result 2 mod 2 ^ 32) symbol in
          let! t4 := idx (map rsq_occs_smaller qvs) level in
          let! offset := g_occs_su t4 symbol in
          let! t5 := idx (map rsq_wdata qvs) level in
          let! t6 := idx (map lvl_sbs qvs) level in
          let! t7 := g_rank_u t5 t6 symbol cur_i in
          let! cur_i := oadd 64 t7 offset in
          let! shift := oadd 64 shift 2 in
          Val (Next (result, cur_i, shift)).

  Lemma get_loop_sim t : Forall lvl_rank_ok (h_qvs t) ->
    forall n level result cur_i shift res' sh', cur_i < 2 ^ 64 -> shift + 2 * N.of_nat n < 2 ^ 64 ->
    hq_get_walk bsize t cur_i result shift level n = Val (res', sh') ->
    exists i', for_loop (G_get_body (h_qvs t) (h_lens t)) level n (result, cur_i, shift) = Val (Done (res', i', sh')).
  Proof.
    intros HF. induction n as [|n IH]; intros level result cur_i shift res' sh' Hi Hsh.
    - cbn [hq_get_walk for_loop]. intros E. apply Val_inj in E. injection E as <- <-. eauto.
    - cbn [hq_get_walk for_loop]. unfold G_get_body at 1. cbv beta iota zeta.
      destruct (idx (h_lens t) level) as [ln|] eqn:Eln; cbn [bind]; [|discriminate].
      destruct (ln <=? cur_i).
      { cbn [bind]. intros E. apply Val_inj in E. injection E as <- <-. eauto. }
      rewrite !idx_map.
      destruct (idx (h_qvs t) level) as [qv|] eqn:Eqv; cbn [bind]; [|discriminate].
      pose proof (idx_Forall _ _ _ _ HF Eqv) as (Hl & Hw & Ho).
      rewrite get_u_ok by exact Hl.
      destruct (rsq_get_unchecked qv cur_i) as [sym|] eqn:Esym; cbn [bind]; [|discriminate].
      rewrite occs_su_ok.
      destruct (rsq_occs_smaller_unchecked qv sym) as [offset|] eqn:Eo; cbn [bind]; [|discriminate].
      destruct (occs_smaller_bound _ _ _ Ho Eo) as [Hoff _].
      destruct (rsq_rank_unchecked bsize qv sym cur_i) as [ri|] eqn:Eri; cbn [bind]; [|discriminate].
      pose proof (rank_unchecked_bound _ _ _ _ _ Hw Eri) as Hri.
      change (2 ^ 45) with 35184372088832 in Hri. rewrite p63 in Hoff.
      intros E. unfold lvl_sbs at 1.
      rewrite (rank_u_ok qv sym cur_i ri Hl Hi ltac:(rewrite p64; lia) Eri). cbn [bind].
      rewrite oadd_small by (rewrite p64; lia). cbn [bind].
      rewrite oadd_small by lia. cbn [bind].
      apply IH; [rewrite p64; lia|lia|exact E].
  Qed.

  (* binary_search_by_key on the decode table: the translation returns the first entry with the key, which is
     the entry the hand model's [find] returns (no sortedness needed) *)
  Lemma find_fst_find (l : list (N * N)) k : forall i0,
    match find (fun p => fst p =? k) l with
    | Some p => exists j, find_fst l k i0 = Some j /\ i0 <= j /\ nthN l (j - i0) = Some p
    | None => find_fst l k i0 = None
    end.
  Proof.
    induction l as [|[x y] l IH]; intros i0; cbn [find find_fst fst]; [reflexivity|].
    destruct (x =? k).
    - exists i0. split; [reflexivity|]. split; [lia|]. rewrite N.sub_diag. reflexivity.
    - specialize (IH (i0 + 1)). destruct (find _ l) as [p|]; [|exact IH].
      destruct IH as (j & E1 & E2 & E3). exists j. split; [exact E1|]. split; [lia|].
      replace (j - i0) with (j - (i0 + 1) + 1) by lia. rewrite nthN_succ. exact E3.
  Qed.

  Lemma lookup_sim tab key s : table_lookup tab key = Val s ->
    (let! idx_ := obsearch_fst tab key in let! t10 := idx tab idx_ in ounwrap (Some (snd t10))) = Val s.
  Proof.
    unfold table_lookup, obsearch_fst. pose proof (find_fst_find tab key 0) as H.
    destruct (find _ tab) as [p|]; [|discriminate].
    destruct H as (j & E1 & _ & E3). rewrite N.sub_0_r in E3.
    intros E. apply Val_inj in E. subst s. rewrite E1. cbn [ounwrap bind]. unfold idx. rewrite E3. reflexivity.
  Qed.

  Theorem G_get_unchecked_sim : forall w wT t i v,
    Forall lvl_rank_ok (h_qvs t) -> h_n_levels t < 2 ^ 62 -> i < 2 ^ 64 ->
    hq_get_unchecked w bsize t i = Val v ->
    G_get_unchecked wT (h_n_levels t) (h_decode t) (hq_data t) (hq_pos t) (hq_sbs t) (hq_occs t) (h_lens t) i = Val v.
  Proof.
    intros w wT t i v HF Hnl Hi. unfold hq_get_unchecked, G_get_unchecked. cbv zeta.
    destruct (hq_get_walk bsize t i 0 0 0 (N.to_nat (h_n_levels t))) as [[res' sh']|] eqn:Ew; cbn [bind]; [|discriminate].
    change (2 ^ 62) with 4611686018427387904 in Hnl.
    destruct (get_loop_sim t HF (N.to_nat (h_n_levels t)) 0 0 i 0 res' sh' Hi ltac:(rewrite p64; lia) Ew) as (i' & Hloop).
    rewrite N.sub_0_r. unfold G_get_body in Hloop. unfold hq_data, hq_pos, hq_sbs, hq_occs.
    rewrite Hloop. cbn [bind]. cbv beta iota zeta.
    destruct (idx (h_decode t) sh') as [tab|] eqn:Et; cbn [bind]; [|discriminate].
    destruct (table_lookup tab res') as [s|] eqn:Es; cbn [bind]; [|discriminate].
    rewrite (lookup_sim tab res' s Es).
    destruct (s <? 2 ^ w); [trivial|discriminate].
  Qed.

  Theorem G_get_sim : forall w wT t i v,
    Forall lvl_rank_ok (h_qvs t) -> h_n_levels t < 2 ^ 62 -> i < 2 ^ 64 ->
    hq_get w bsize t i = Val v ->
    G_get wT (h_n t) (h_n_levels t) (h_decode t) (hq_data t) (hq_pos t) (hq_sbs t) (hq_occs t) (h_lens t) i = Val v.
  Proof.
    intros w wT t i v HF Hnl Hi. unfold hq_get, G_get.
    destruct (h_n t <=? i); [trivial|].
    destruct (hq_get_unchecked w bsize t i) as [x|] eqn:Ex; cbn [bind]; [|discriminate].
    intros E. rewrite (G_get_unchecked_sim w wT t i x HF Hnl Hi Ex). exact E.
  Qed.

  (* ---------------------------------------------------------------- select / select_unchecked *)
  Definition G_select (fuel : nat) (wT : N) (n_levels : N) (codes_encode_content : list N) (codes_encode_len : list N) (qvs_qv_data : list (list (list N))) (qvs_qv_position : list N) (qvs_rs_support_superblocks : list (list (list N))) (qvs_rs_support_select_samples : list (list (list N))) (qvs_n_occs_smaller : list (list N)) (symbol : N) (i : N) : outcome (option N) :=
    let! t1 := g_hqwt256_code_index wT codes_encode_content codes_encode_len symbol in
    match t1 with
    | None => Val None
    | Some _ =>
      let path_off := [] in
      let rank_path_off := [] in
      let t2 := symbol mod 2 ^ 64 in
      let! _ := idx codes_encode_content t2 in
      let! t3 := idx codes_encode_len t2 in
      let! shift := zisub 64 (zwrap 64 (Z.of_N t3)) (2%Z) in
      let! repr := idx codes_encode_content t2 in
      let b := 0 in
      let level := 0 in
      let! r := while_loop (fun '(path_off, b, rank_path_off, level, shift) =>
          Val (Z.leb (0%Z) shift)
        ) (fun '(path_off, b, rank_path_off, level, shift) =>
          let path_off := path_off ++ [b] in
          let! t4 := oshr 32 repr (Z.to_N (Z.modulo shift (2 ^ 64)%Z)) in
          let two_bits := (N.land t4 3) mod 2 ^ 8 in
          let! t5 := idx qvs_qv_data level in
          let! t6 := idx qvs_qv_position level in
          let! t7 := idx qvs_rs_support_superblocks level in
          let! t8 := g_rank t5 t6 t7 two_bits b in
          match t8 with
          | None => Val (Ret None)
          | Some t9 =>
            let rank_b := t9 in
            let! t10 := idx qvs_n_occs_smaller level in
            let! t11 := g_occs_su t10 two_bits in
            let! b := oadd 64 rank_b t11 in
            let rank_path_off := rank_path_off ++ [rank_b] in
            let! level := oadd 64 level 1 in
            let! shift := zisub 64 shift (2%Z) in
            Val (Next (path_off, b, rank_path_off, level, shift))
          end
        ) fuel (path_off, b, rank_path_off, level, shift) in
      match r with
      | Retd v => Val v
      | Done (path_off, b, rank_path_off, level, shift) =>
          let shift := 0%Z in
          let result := i in
          let! r := for_loop_rev (fun level '(b, result, shift) =>
              let! b := idx path_off level in
              let! rank_b := idx rank_path_off level in
              let! t12 := oshr 32 repr (Z.to_N (Z.modulo shift (2 ^ 64)%Z)) in
              let two_bits := (N.land t12 3) mod 2 ^ 8 in
              let! t13 := idx qvs_qv_data level in
              let! t14 := idx qvs_rs_support_superblocks level in
              let! t15 := idx qvs_rs_support_select_samples level in
              let! t16 := idx qvs_n_occs_smaller level in
              match checked_add 64 rank_b result with
              | None => Val (Ret None)
              | Some t17 =>
                let! t18 := g_select fuel t13 t14 t15 t16 two_bits t17 in
                match t18 with
                | None => Val (Ret None)
                | Some t19 =>
                  let! result := osub t19 b in
                  let! shift := ziadd 64 shift (2%Z) in
                  Val (Next (b, result, shift))
                end
              end
            ) level (N.to_nat (level - 0)) (b, result, shift) in
          match r with
          | Retd v => Val v
          | Done (b, result, shift) =>
              Val (Some result)
          end
      end
    end.

  Definition G_select_unchecked (fuel : nat) (wT : N) (n_levels : N) (codes_encode_content : list N) (codes_encode_len : list N) (qvs_qv_data : list (list (list N))) (qvs_qv_position : list N) (qvs_rs_support_superblocks : list (list (list N))) (qvs_rs_support_select_samples : list (list (list N))) (qvs_n_occs_smaller : list (list N)) (symbol : N) (i : N) : outcome N :=
    let! t1 := G_select fuel wT n_levels codes_encode_content codes_encode_len qvs_qv_data qvs_qv_position qvs_rs_support_superblocks qvs_rs_support_select_samples qvs_n_occs_smaller symbol i in
    ounwrap t1.

  Definition G_down_body (repr : N) (qvs : list rsq)
    : list N * N * list N * N * Z -> outcome (step (list N * N * list N * N * Z) (option N)) :=
    fun '(path_off, b, rank_path_off, level, shift) =>
          let path_off := path_off ++ [b] in
          let! t4 := oshr 32 repr (Z.to_N (Z.modulo shift (2 ^ 64)%Z)) in
          let two_bits := (N.land t4 3) mod 2 ^ 8 in
          let! t5 := idx (map rsq_wdata qvs) level in
          let! t6 := idx (map rsq_pos qvs) level in
          let! t7 := idx (map lvl_sbs qvs) level in
          let! t8 := g_rank t5 t6 t7 two_bits b in
          match t8 with
          | None => Val (Ret None)
          | Some t9 =>
            let rank_b := t9 in
            let! t10 := idx (map rsq_occs_smaller qvs) level in
            let! t11 := g_occs_su t10 two_bits in
            let! b := oadd 64 rank_b t11 in
            let rank_path_off := rank_path_off ++ [rank_b] in
            let! level := oadd 64 level 1 in
            let! shift := zisub 64 shift (2%Z) in
            Val (Next (path_off, b, rank_path_off, level, shift))
          end.

  Definition G_up_body (fuel : nat) (repr : N) (qvs : list rsq) (path_off rank_path_off : list N)
    : N -> N * N * Z -> outcome (step (N * N * Z) (option N)) :=
    fun level '(b, result, shift) =>
              let! b := idx path_off level in
              let! rank_b := idx rank_path_off level in
              let! t12 := oshr 32 repr (Z.to_N (Z.modulo shift (2 ^ 64)%Z)) in
              let two_bits := (N.land t12 3) mod 2 ^ 8 in
              let! t13 := idx (map rsq_wdata qvs) level in
              let! t14 := idx (map lvl_sbs qvs) level in
              let! t15 := idx (map lvl_samples qvs) level in
              let! t16 := idx (map rsq_occs_smaller qvs) level in
              match checked_add 64 rank_b result with
              | None => Val (Ret None)
              | Some t17 =>
                let! t18 := g_select fuel t13 t14 t15 t16 two_bits t17 in
                match t18 with
                | None => Val (Ret None)
                | Some t19 =>
                  let! result := osub t19 b in
                  let! shift := ziadd 64 shift (2%Z) in
                  Val (Next (b, result, shift))
                end
              end.

  Lemma down_loop_sim repr qvs : Forall lvl_rank_ok qvs ->
    forall n fuel level b sh po rpo v, b < 2 ^ 64 -> level + N.of_nat n < 2 ^ 63 ->
    (n <= 16)%nat -> (n < fuel)%nat -> ((0 < n)%nat -> sh = 2 * N.of_nat n - 2) ->
    hq_select_down bsize qvs repr sh b level n = Val v ->
    exists b',
      while_loop (fun '(path_off, b, rank_path_off, level, shift) => Val (Z.leb (0%Z) shift))
        (G_down_body repr qvs) fuel (po, b, rpo, level, (2 * Z.of_nat n - 2)%Z)
      = Val (match v with
             | None => Retd None
             | Some P => Done (po ++ map fst P, b', rpo ++ map snd P, level + N.of_nat n, (-2)%Z)
             end) /\
      match v with Some P => length P = n | None => True end.
  Proof.
    intros HF. induction n as [|n IH]; intros fuel level b sh po rpo v Hb Hlv Hn Hfuel Hsh;
      (destruct fuel as [|fuel]; [lia|]).
    - cbn [hq_select_down while_loop bind]. intros E. apply Val_inj in E. subst v.
      exists b. split; [|reflexivity]. change (2 * Z.of_nat 0 - 2)%Z with (-2)%Z. change (0 <=? -2)%Z with false. cbv iota.
      cbn [map]. change (N.of_nat 0) with 0. now rewrite !app_nil_r, N.add_0_r.
    - specialize (Hsh ltac:(lia)). rewrite p63 in Hlv.
      cbn [hq_select_down while_loop bind].
      replace (0 <=? 2 * Z.of_nat (S n) - 2)%Z with true by lia. cbv iota.
      unfold G_down_body at 1. cbv beta iota zeta.
      replace (2 * Z.of_nat (S n) - 2)%Z with (Z.of_N sh) by lia.
      rewrite shamt_of_N by (rewrite p64; lia).
      unfold oshr. destruct (N.ltb_spec sh 32) as [_|H32]; [|lia]. cbn [bind].
      rewrite land3_mod8. set (tb := N.land (N.shiftr repr sh) 3).
      rewrite !idx_map.
      destruct (idx qvs level) as [qv|] eqn:Eqv; cbn [bind]; [|discriminate].
      pose proof (idx_Forall _ _ _ _ HF Eqv) as (Hl & Hw & Ho).
      unfold lvl_sbs at 1.
      destruct (rsq_rank bsize qv tb b) as [[rank_b|]|] eqn:Er; cbn [bind]; [| |discriminate].
      + pose proof (rank_bound _ _ _ _ _ Hw Er) as Hrb. change (2 ^ 45) with 35184372088832 in Hrb.
        rewrite (rank_ok qv tb b (Some rank_b) Hl Hb) by
          (try exact Er; intros p Ep; injection Ep as <-; rewrite p64; lia).
        cbn [bind]. cbv beta iota zeta. rewrite occs_su_ok.
        destruct (rsq_occs_smaller_unchecked qv tb) as [offset|] eqn:Eo; cbn [bind]; [|discriminate].
        destruct (occs_smaller_bound _ _ _ Ho Eo) as [Hoff _]. rewrite p63 in Hoff.
        rewrite oadd_small by (rewrite p64; lia). cbn [bind].
        rewrite oadd_small by (rewrite p64; lia). cbn [bind].
        rewrite zisub2 by lia. cbn [bind].
        replace (Z.of_N sh - 2)%Z with (2 * Z.of_nat n - 2)%Z by lia.
        destruct (hq_select_down bsize qvs repr (sh - 2) (rank_b + offset) (level + 1) n)
          as [rest|] eqn:Erest; cbn [bind]; [|discriminate].
        specialize (IH fuel (level + 1) (rank_b + offset) (sh - 2) (po ++ [b]) (rpo ++ [rank_b]) rest
                       ltac:(rewrite p64; lia) ltac:(rewrite p63; lia) ltac:(lia) ltac:(lia) ltac:(lia) Erest).
        destruct IH as (b' & IH & Hlen).
        destruct rest as [l|]; intros E; apply Val_inj in E; subst v; exists b'; rewrite IH.
        * split; [|cbn [length]; now rewrite Hlen].
          cbn [map fst snd]. rewrite <- !app_assoc. cbn [app].
          replace (level + 1 + N.of_nat n) with (level + N.of_nat (S n)) by lia. reflexivity.
        * split; reflexivity.
      + rewrite (rank_ok qv tb b None Hl Hb) by (try exact Er; intros p Ep; discriminate Ep).
        cbn [bind]. intros E. apply Val_inj in E. subst v. exists b. split; reflexivity.
  Qed.

  Lemma numb_app P1 : forall P2 lvl, numb lvl (P1 ++ P2) = numb lvl P1 ++ numb (lvl + len P1) P2.
  Proof.
    induction P1 as [|[b rb] P1 IH]; intros P2 lvl.
    - cbn [app]. rewrite len_nil, N.add_0_r. reflexivity.
    - cbn [app]. rewrite !numb_cons, IH, len_cons. cbn [app]. do 3 f_equal. lia.
  Qed.

  Lemma idx_mid {A B} (f : A -> B) (X : list A) x Y : idx (map f (X ++ x :: Y)) (len X) = Val (f x).
  Proof.
    rewrite idx_map. unfold idx. rewrite nthN_app2 by lia. rewrite N.sub_diag, nthN_0. reflexivity.
  Qed.

  Lemma up_loop_sim fuel repr qvs : Forall (lvl_select_ok bsize fuel) qvs ->
    forall P1 P2 sh result b0 v, sh + 2 * len P1 <= 32 ->
    hq_select_up bsize qvs repr sh result (rev (numb 0 P1)) = Val v ->
    exists b' shz',
      for_loop_rev (G_up_body fuel repr qvs (map fst (P1 ++ P2)) (map snd (P1 ++ P2)))
        (len P1) (length P1) (b0, result, Z.of_N sh)
      = Val (match v with None => Retd None | Some r => Done (b', r, shz') end).
  Proof.
    intros HF. induction P1 as [|[b rb] P1 IH] using rev_ind; intros P2 sh result b0 v Hsh.
    - cbn [numb number_levels map rev hq_select_up length for_loop_rev]. intros E. apply Val_inj in E. subst v.
      exists b0, (Z.of_N sh). reflexivity.
    - rewrite numb_app, rev_app_distr, numb_cons. cbn [numb number_levels map rev app].
      rewrite N.add_0_l. rewrite <- app_assoc. cbn [app].
      rewrite len_app, len_cons, len_nil, N.add_0_l in *.
      rewrite app_length. cbn [length]. rewrite Nat.add_1_r.
      cbn [hq_select_up for_loop_rev]. replace (len P1 + 1 - 1) with (len P1) by lia.
      unfold G_up_body at 1. cbv beta iota zeta. rewrite !idx_mid. cbn [bind fst snd].
      rewrite shamt_of_N by (rewrite p64; lia).
      unfold oshr. destruct (N.ltb_spec sh 32) as [_|H32]; [|lia]. cbn [bind].
      rewrite land3_mod8. set (tb := N.land (N.shiftr repr sh) 3).
      rewrite !idx_map.
      destruct (idx qvs (len P1)) as [qv|] eqn:Eqv; cbn [bind]; [|discriminate].
      pose proof (idx_Forall _ _ _ _ HF Eqv) as Hqv.
      pose proof (lvl_select_typed _ _ _ Hqv) as Hty.
      destruct Hqv as ((Hl & _ & _) & _ & Hfuel & Hsb).
      unfold checked_add.
      destruct (N.leb_spec (2 ^ 64) (rb + result)) as [Hov|Hov], (N.ltb_spec (rb + result) (2 ^ 64)) as [Hov'|Hov'];
        try lia.
      + intros E. apply Val_inj in E. subst v. exists b0, 0%Z. reflexivity.
      + unfold lvl_sbs at 1. unfold lvl_samples at 1.
        destruct (rsq_select bsize qv tb (rb + result)) as [[p|]|] eqn:Es; cbn [bind]; [| |discriminate].
        * rewrite (select_ok qv tb (rb + result) (Some p) fuel Hl Hty Hfuel) by
            (try exact Es; intros p' Ep; injection Ep as <-; exact (Hsb _ _ _ Hov' Es)).
          cbn [bind].
          destruct (osub p b) as [r'|] eqn:Er'; cbn [bind]; [|discriminate].
          rewrite ziadd2 by lia. cbn [bind].
          replace (Z.of_N sh + 2)%Z with (Z.of_N (sh + 2)) by lia.
          intros E. apply (IH ((b, rb) :: P2) (sh + 2) r' b v); [lia|exact E].
        * rewrite (select_ok qv tb (rb + result) None fuel Hl Hty Hfuel) by
            (try exact Es; intros p' Ep; discriminate Ep).
          cbn [bind]. intros E. apply Val_inj in E. subst v. exists b0, 0%Z. reflexivity.
  Qed.

  Lemma code_of_some t symbol c : hq_code_of t symbol = Some c -> idx (h_codes t) (sym_index symbol) = Val c.
  Proof.
    unfold hq_code_of, idx. destruct (negb _ || _); [discriminate|].
    destruct (nthN (h_codes t) (sym_index symbol)) as [c'|]; [|discriminate].
    destruct (pc_len c' =? 0); [discriminate|]. intros E. injection E as <-. reflexivity.
  Qed.

  Theorem G_select_sim : forall wT t symbol i v fuel,
    Forall (lvl_select_ok bsize fuel) (h_qvs t) -> codes_ok t -> symbol < 2 ^ wT -> (17 <= fuel)%nat ->
    hq_select bsize t symbol i = Val v ->
    G_select fuel wT (h_n_levels t) (hq_enc_content t) (hq_enc_len t) (hq_data t) (hq_pos t) (hq_sbs t)
      (hq_samples t) (hq_occs t) symbol i = Val v.
  Proof.
    intros wT t symbol i v fuel HF HC Hs Hfuel. unfold hq_select, G_select.
    rewrite (g_hqwt256_code_index_ok wT t symbol Hs). cbn [bind].
    destruct (hq_code_of t symbol) as [code|] eqn:Ecode; [|trivial]. cbv zeta.
    apply code_of_some in Ecode.
    unfold hq_enc_content, hq_enc_len. rewrite !idx_map. fold (sym_index symbol). rewrite Ecode. cbn [bind].
    pose proof (idx_Forall _ _ _ _ HC Ecode) as [Hev H32]. cbv beta in Hev, H32.
    rewrite zwrap_small by lia. rewrite zisub2 by lia. cbn [bind].
    destruct (hq_select_down bsize (h_qvs t) (pc_content code) (pc_len code - 2) 0 0 (N.to_nat (pc_len code / 2)))
      as [down|] eqn:Ed; cbn [bind]; [|discriminate].
    assert (H0 : 0 < 2 ^ 64) by (rewrite p64; lia).
    assert (H0' : 0 + N.of_nat (N.to_nat (pc_len code / 2)) < 2 ^ 63) by (rewrite p63; lia).
    pose proof (down_loop_sim (pc_content code) (h_qvs t) (lvl_select_rank _ _ _ HF) (N.to_nat (pc_len code / 2)) fuel 0 0
                  (pc_len code - 2) [] [] down H0 H0' ltac:(lia) ltac:(lia) ltac:(lia) Ed) as Hloop.
    replace (2 * Z.of_nat (N.to_nat (pc_len code / 2)) - 2)%Z with (Z.of_N (pc_len code) - 2)%Z in Hloop by lia.
    unfold G_down_body in Hloop. unfold hq_data, hq_pos, hq_sbs, hq_samples, hq_occs.
    destruct Hloop as (b' & Hloop & HlenP). rewrite Hloop. cbn [bind].
    destruct down as [P|].
    - cbn [app]. cbv beta iota zeta.
      rewrite N.sub_0_r, N.add_0_l. rewrite <- HlenP. rewrite Nat2N.id. fold (len P).
      change (map (fun '(lv, (b, rb)) => (lv, b, rb)) (number_levels P 0)) with (numb 0 P).
      intros E.
      pose proof (up_loop_sim fuel (pc_content code) (h_qvs t) HF P [] 0 i b' v
                    ltac:(unfold len; lia) E) as Hup.
      destruct Hup as (b'' & shz' & Hup).
      rewrite app_nil_r in Hup. unfold G_up_body in Hup. change (Z.of_N 0) with 0%Z in Hup.
      rewrite Hup. cbn [bind]. destruct v; reflexivity.
    - trivial.
  Qed.

  Theorem G_select_unchecked_sim : forall wT t symbol i v fuel,
    Forall (lvl_select_ok bsize fuel) (h_qvs t) -> codes_ok t -> symbol < 2 ^ wT -> (17 <= fuel)%nat ->
    hq_select_unchecked bsize t symbol i = Val v ->
    G_select_unchecked fuel wT (h_n_levels t) (hq_enc_content t) (hq_enc_len t) (hq_data t) (hq_pos t) (hq_sbs t)
      (hq_samples t) (hq_occs t) symbol i = Val v.
  Proof.
    intros wT t symbol i v fuel HF HC Hs Hfuel. unfold hq_select_unchecked, G_select_unchecked.
    destruct (hq_select bsize t symbol i) as [s|] eqn:Es; cbn [bind]; [|discriminate].
    rewrite (G_select_sim wT t symbol i s fuel HF HC Hs Hfuel Es). cbn [bind]. trivial.
  Qed.
End Generic.

(* ================================================================== the two instances *)
(* the generic text instantiated with the RSQVector functions of each block size IS the generated definition *)
Lemma G256_get_unchecked_eq : G_get_unchecked g_rsq256_get_unchecked g_rsq256_occs_smaller_unchecked g_rsq256_rank_unchecked = g_hqwt256_get_unchecked.
Proof. reflexivity. Qed.
Lemma G512_get_unchecked_eq : G_get_unchecked g_rsq512_get_unchecked g_rsq512_occs_smaller_unchecked g_rsq512_rank_unchecked = g_hqwt512_get_unchecked.
Proof. reflexivity. Qed.
Lemma G256_get_eq : G_get g_rsq256_get_unchecked g_rsq256_occs_smaller_unchecked g_rsq256_rank_unchecked = g_hqwt256_get.
Proof. reflexivity. Qed.
Lemma G512_get_eq : G_get g_rsq512_get_unchecked g_rsq512_occs_smaller_unchecked g_rsq512_rank_unchecked = g_hqwt512_get.
Proof. reflexivity. Qed.
Lemma G256_rank_unchecked_eq : G_rank_unchecked g_rsq256_occs_smaller_unchecked g_rsq256_rank_unchecked = g_hqwt256_rank_unchecked.
Proof. reflexivity. Qed.
Lemma G512_rank_unchecked_eq : G_rank_unchecked g_rsq512_occs_smaller_unchecked g_rsq512_rank_unchecked = g_hqwt512_rank_unchecked.
Proof. reflexivity. Qed.
Lemma G256_rank_eq : G_rank g_rsq256_occs_smaller_unchecked g_rsq256_rank_unchecked = g_hqwt256_rank.
Proof. reflexivity. Qed.
Lemma G512_rank_eq : G_rank g_rsq512_occs_smaller_unchecked g_rsq512_rank_unchecked = g_hqwt512_rank.
Proof. reflexivity. Qed.
Lemma G256_select_eq : G_select g_rsq256_occs_smaller_unchecked g_rsq256_rank g_rsq256_select = g_hqwt256_select.
Proof. reflexivity. Qed.
Lemma G512_select_eq : G_select g_rsq512_occs_smaller_unchecked g_rsq512_rank g_rsq512_select = g_hqwt512_select.
Proof. reflexivity. Qed.
Lemma G256_select_unchecked_eq : G_select_unchecked g_rsq256_occs_smaller_unchecked g_rsq256_rank g_rsq256_select = g_hqwt256_select_unchecked.
Proof. reflexivity. Qed.
Lemma G512_select_unchecked_eq : G_select_unchecked g_rsq512_occs_smaller_unchecked g_rsq512_rank g_rsq512_select = g_hqwt512_select_unchecked.
Proof. reflexivity. Qed.

Ltac inst256 L :=
  exact (L 256 g_rsq256_get_unchecked g_rsq256_occs_smaller_unchecked g_rsq256_rank_unchecked g_rsq256_rank g_rsq256_select
           g_rsq256_get_unchecked_ok g_rsq256_occs_smaller_unchecked_ok g_rsq256_rank_unchecked_ok g_rsq256_rank_ok
           g_rsq256_select_ok).
Ltac inst512 L :=
  exact (L 512 g_rsq512_get_unchecked g_rsq512_occs_smaller_unchecked g_rsq512_rank_unchecked g_rsq512_rank g_rsq512_select
           g_rsq512_get_unchecked_ok g_rsq512_occs_smaller_unchecked_ok g_rsq512_rank_unchecked_ok g_rsq512_rank_ok
           g_rsq512_select_ok).

(* ------------------------------------------------------------------ SIMULATIONS (S) *)
(* hypotheses: the levels are well-formed (lvl_rank_ok / lvl_select_ok), code lengths are even and <= 32
   (codes_ok), usize arguments are below 2^64, the symbol fits its type, the fuel covers the at most 16
   iterations of `while shift >= 0` (and, for select, the superblock scans: part of lvl_select_ok) *)
Theorem g_hqwt256_get_unchecked_ok : forall w wT t i v,
  Forall lvl_rank_ok (h_qvs t) -> h_n_levels t < 2 ^ 62 -> i < 2 ^ 64 ->
  hq_get_unchecked w 256 t i = Val v ->
  g_hqwt256_get_unchecked wT (h_n_levels t) (h_decode t) (hq_data t) (hq_pos t) (hq_sbs t) (hq_occs t) (h_lens t) i = Val v.
Proof. inst256 G_get_unchecked_sim. Qed.
Theorem g_hqwt512_get_unchecked_ok : forall w wT t i v,
  Forall lvl_rank_ok (h_qvs t) -> h_n_levels t < 2 ^ 62 -> i < 2 ^ 64 ->
  hq_get_unchecked w 512 t i = Val v ->
  g_hqwt512_get_unchecked wT (h_n_levels t) (h_decode t) (hq_data t) (hq_pos t) (hq_sbs t) (hq_occs t) (h_lens t) i = Val v.
Proof. inst512 G_get_unchecked_sim. Qed.

Theorem g_hqwt256_get_ok : forall w wT t i v,
  Forall lvl_rank_ok (h_qvs t) -> h_n_levels t < 2 ^ 62 -> i < 2 ^ 64 ->
  hq_get w 256 t i = Val v ->
  g_hqwt256_get wT (h_n t) (h_n_levels t) (h_decode t) (hq_data t) (hq_pos t) (hq_sbs t) (hq_occs t) (h_lens t) i = Val v.
Proof. inst256 G_get_sim. Qed.
Theorem g_hqwt512_get_ok : forall w wT t i v,
  Forall lvl_rank_ok (h_qvs t) -> h_n_levels t < 2 ^ 62 -> i < 2 ^ 64 ->
  hq_get w 512 t i = Val v ->
  g_hqwt512_get wT (h_n t) (h_n_levels t) (h_decode t) (hq_data t) (hq_pos t) (hq_sbs t) (hq_occs t) (h_lens t) i = Val v.
Proof. inst512 G_get_sim. Qed.

Theorem g_hqwt256_rank_unchecked_ok : forall wT t symbol i v fuel,
  Forall lvl_rank_ok (h_qvs t) -> codes_ok t -> i < 2 ^ 64 -> (17 <= fuel)%nat ->
  hq_rank_unchecked 256 t symbol i = Val v ->
  g_hqwt256_rank_unchecked fuel wT (hq_enc_content t) (hq_enc_len t) (hq_data t) (hq_sbs t) (hq_occs t) symbol i = Val v.
Proof. inst256 G_rank_unchecked_sim. Qed.
Theorem g_hqwt512_rank_unchecked_ok : forall wT t symbol i v fuel,
  Forall lvl_rank_ok (h_qvs t) -> codes_ok t -> i < 2 ^ 64 -> (17 <= fuel)%nat ->
  hq_rank_unchecked 512 t symbol i = Val v ->
  g_hqwt512_rank_unchecked fuel wT (hq_enc_content t) (hq_enc_len t) (hq_data t) (hq_sbs t) (hq_occs t) symbol i = Val v.
Proof. inst512 G_rank_unchecked_sim. Qed.

Theorem g_hqwt256_rank_ok : forall wT t symbol i v fuel,
  Forall lvl_rank_ok (h_qvs t) -> codes_ok t -> symbol < 2 ^ wT -> i < 2 ^ 64 -> (17 <= fuel)%nat ->
  hq_rank 256 t symbol i = Val v ->
  g_hqwt256_rank fuel wT (h_n t) (hq_enc_content t) (hq_enc_len t) (hq_data t) (hq_sbs t) (hq_occs t) symbol i = Val v.
Proof. inst256 G_rank_sim. Qed.
Theorem g_hqwt512_rank_ok : forall wT t symbol i v fuel,
  Forall lvl_rank_ok (h_qvs t) -> codes_ok t -> symbol < 2 ^ wT -> i < 2 ^ 64 -> (17 <= fuel)%nat ->
  hq_rank 512 t symbol i = Val v ->
  g_hqwt512_rank fuel wT (h_n t) (hq_enc_content t) (hq_enc_len t) (hq_data t) (hq_sbs t) (hq_occs t) symbol i = Val v.
Proof. inst512 G_rank_sim. Qed.

Theorem g_hqwt256_select_ok : forall wT t symbol i v fuel,
  Forall (lvl_select_ok 256 fuel) (h_qvs t) -> codes_ok t -> symbol < 2 ^ wT -> (17 <= fuel)%nat ->
  hq_select 256 t symbol i = Val v ->
  g_hqwt256_select fuel wT (h_n_levels t) (hq_enc_content t) (hq_enc_len t) (hq_data t) (hq_pos t) (hq_sbs t)
    (hq_samples t) (hq_occs t) symbol i = Val v.
Proof. inst256 G_select_sim. Qed.
Theorem g_hqwt512_select_ok : forall wT t symbol i v fuel,
  Forall (lvl_select_ok 512 fuel) (h_qvs t) -> codes_ok t -> symbol < 2 ^ wT -> (17 <= fuel)%nat ->
  hq_select 512 t symbol i = Val v ->
  g_hqwt512_select fuel wT (h_n_levels t) (hq_enc_content t) (hq_enc_len t) (hq_data t) (hq_pos t) (hq_sbs t)
    (hq_samples t) (hq_occs t) symbol i = Val v.
Proof. inst512 G_select_sim. Qed.

Theorem g_hqwt256_select_unchecked_ok : forall wT t symbol i v fuel,
  Forall (lvl_select_ok 256 fuel) (h_qvs t) -> codes_ok t -> symbol < 2 ^ wT -> (17 <= fuel)%nat ->
  hq_select_unchecked 256 t symbol i = Val v ->
  g_hqwt256_select_unchecked fuel wT (h_n_levels t) (hq_enc_content t) (hq_enc_len t) (hq_data t) (hq_pos t) (hq_sbs t)
    (hq_samples t) (hq_occs t) symbol i = Val v.
Proof. inst256 G_select_unchecked_sim. Qed.
Theorem g_hqwt512_select_unchecked_ok : forall wT t symbol i v fuel,
  Forall (lvl_select_ok 512 fuel) (h_qvs t) -> codes_ok t -> symbol < 2 ^ wT -> (17 <= fuel)%nat ->
  hq_select_unchecked 512 t symbol i = Val v ->
  g_hqwt512_select_unchecked fuel wT (h_n_levels t) (hq_enc_content t) (hq_enc_len t) (hq_data t) (hq_pos t) (hq_sbs t)
    (hq_samples t) (hq_occs t) symbol i = Val v.
Proof. inst512 G_select_unchecked_sim. Qed.

(* ================================================================== END TO END *)
(* every level hq_build builds is rsq_new of a digit list no longer than the sequence: well-formed in the
   sense of lvl_select_ok *)
Lemma map_mod256_id ds : Forall (fun x => x < 4) ds -> map (fun v => v mod 256) ds = ds.
Proof.
  induction 1 as [|x l Hx HF IH]; cbn [map]; [reflexivity|]. rewrite IH. f_equal. apply N.mod_small. lia.
Qed.

Lemma rsq_new_occs bsize vs r : rsq_new bsize vs = Val r ->
  rsq_occs_smaller r = occs_smaller_of (map sym4 vs).
Proof.
  intros E. unfold rsq_new in E.
  destruct (qvb_push_all_inv (map (fun v => v mod 256) vs) qvb_new [] qvb_inv_new) as (q & Eq & Hq).
  rewrite Eq in E. cbn [bind app] in *.
  assert (Es : map sym4 (map (fun v => v mod 256) vs) = map sym4 vs).
  { rewrite map_map. apply map_ext. intros v. unfold sym4. lia. }
  rewrite Es in Hq.
  unfold rsq_from_qv in E. rewrite (qv_symbols_inv q _ Hq) in E. cbn [bind] in E.
  destruct (rss_new bsize (map sym4 vs)) as [rs|] eqn:Ers; cbn [bind] in E; [|discriminate].
  apply Val_inj in E. subst r. reflexivity.
Qed.

Lemma occs_smaller_of_bound s : len s < RSQ_MAXN -> Forall (fun x => x < 2 ^ 63) (occs_smaller_of s).
Proof.
  intros H. rewrite RSQ_MAXN_val in H. rewrite p63. unfold occs_smaller_of.
  pose proof (countN_le_len 0 s). pose proof (countN_le_len 1 s).
  pose proof (countN_le_len 2 s). pose proof (countN_le_len 3 s).
  repeat constructor; lia.
Qed.

Lemma lvl_new_ok bsize ds r fuel : (bsize = 256 \/ bsize = 512) -> len ds < RSQ_MAXN ->
  rsq_new bsize ds = Val r -> (S (S (N.to_nat (len ds / (8 * bsize)))) <= fuel)%nat ->
  lvl_select_ok bsize fuel r.
Proof.
  intros Hb Hn Hr Hf.
  destruct (rsq_new_struct bsize ds r Hb Hn Hr) as (Hl & _ & Hspec).
  destruct (rsq_new_dir bsize ds r Hb Hn Hr) as ((Hsm & Hsb) & Hlen).
  split; [split; [exact Hl|split; [exact Hsb|]]|split; [exact Hsm|split]].
  - rewrite (rsq_new_occs bsize ds r Hr). apply occs_smaller_of_bound. now rewrite len_map_sym4.
  - rewrite Hlen. exact Hf.
  - intros c k p Hk E. destruct Hspec as (_ & _ & _ & _ & Hsel & _). rewrite (Hsel c k Hk) in E.
    apply Val_inj in E. destruct (c <=? 3); [|discriminate]. apply select_spec_bounds in E.
    rewrite len_map_sym4 in E. pose proof (RSQ_MAXN_lt64 _ Hn). lia.
Qed.

Section Built.
Variable tab : list pcode.
Variable seq : list N.
Hypothesis Htab : len tab < 2 ^ 64.
Hypothesis Hwf : forall x, In x seq -> exists c, nthN tab x = Some c /\ code_wf 2 c = true.
Variable bsize : N.
Hypothesis Hb : bsize = 256 \/ bsize = 512.
Hypothesis Hn : len seq < RSQ_MAXN.
Notation dig := (code_dig 2 tab).
Notation clen := (code_clen 2 tab).
Notation QQ l := (Q N 4 dig clen l seq).

(* the construction of Proofs/HQWTBridge.v (hq_levels_ok) once more, keeping the structural fact *)
Lemma hq_levels_new : forall k l F, fin_tail tab seq l F ->
  exists rs lens, hq_levels bsize (QQ l ++ F) tab (2 * (N.of_nat l + 1)) k = Val (rs, lens) /\
    Forall (fun r => exists ds, len ds <= len seq /\ rsq_new bsize ds = Val r) rs.
Proof.
  induction k as [|k IH]; intros l F HF.
  - exists [], []. cbn [hq_levels]. split; [reflexivity|constructor].
  - cbn [hq_levels].
    rewrite (mapo_val _ (fun a => if (l <? clen a)%nat then Some (dig l a) else None))
      by (intros a Ha; apply (level_digit_val tab seq Htab Hwf), (level_seq_in tab seq Htab Hwf l F HF a Ha)).
    cbn [bind]. rewrite flat_opt_filter, (level_digits tab seq Htab Hwf l F HF).
    destruct (qvb_push_all_inv (map (dig l) (QQ l)) qvb_new [] qvb_inv_new) as (q & Eq & Hq).
    rewrite Eq. cbn [bind app] in *.
    assert (HD : Forall (fun x => x < 4) (map (dig l) (QQ l))).
    { apply Forall_forall. intros d Hd. apply in_map_iff in Hd as (x & <- & _).
      pose proof (dig_le3 tab l x). lia. }
    rewrite (map_sym4_id _ HD) in Hq.
    assert (HQ : len (QQ l) <= len seq) by (apply Q_len_le, dig_lt).
    assert (HL : len (map (dig l) (QQ l)) < RSQ_MAXN) by (rewrite len_map; lia).
    destruct (rsq_from_qv_correct bsize q _ Hb Hq HD HL) as (r & Er & Hr).
    rewrite Er. cbn [bind].
    rewrite (part_with_codes_ok tab seq Htab Hwf l _ (level_seq_in tab seq Htab Hwf l F HF)). cbn [bind].
    destruct (level_next tab seq Htab Hwf l F HF) as (F' & HF' & E'). rewrite E'.
    destruct (IH (S l) F' HF') as (rs & lens & E & H1).
    replace (2 * (N.of_nat l + 1) + 2) with (2 * (N.of_nat (S l) + 1)) by lia.
    rewrite E. cbn [bind].
    exists (r :: rs), (qv_len q :: lens). split; [reflexivity|].
    constructor; [|exact H1].
    exists (map (dig l) (QQ l)). split; [rewrite len_map; exact HQ|].
    unfold rsq_new. rewrite (map_mod256_id _ HD), Eq. cbn [bind]. exact Er.
Qed.
End Built.

Lemma maxN_le b l : (forall x, In x l -> x <= b) -> maxN l <= b.
Proof.
  induction l as [|y l IH]; intros H; cbn [maxN]; [lia|].
  pose proof (H y (or_introl eq_refl)). specialize (IH (fun x Hx => H x (or_intror Hx))). lia.
Qed.

Lemma In_nthN_ex {A} (l : list A) a : In a l -> exists i, nthN l i = Some a.
Proof.
  intros H. apply In_nth_error in H as (n & Hn). exists (N.of_nat n). now rewrite nthN_nth_error, Nat2N.id.
Qed.

Lemma table_codes_ok seq tab : table_ok seq tab ->
  Forall (fun c => pc_len c mod 2 = 0 /\ pc_len c <= 32) tab.
Proof.
  intros (_ & Hwf & Hocc & _). apply Forall_forall. intros c Hc.
  destruct (In_nthN_ex tab c Hc) as (x & Ex).
  destruct (N.eq_dec (pc_len c) 0) as [E0|Hne]; [rewrite E0; split; [reflexivity|lia]|].
  destruct (Hwf x (Hocc x c Ex Hne)) as (c' & Ec' & W). rewrite Ex in Ec'. injection Ec' as <-.
  unfold code_wf in W.
  apply andb_prop in W as [W W4]. apply andb_prop in W as [W W3]. apply andb_prop in W as [W1 W2].
  split; lia.
Qed.

(* what the simulations need holds for every tree hq_build builds for a compatible table *)
Theorem hq_build_wf : forall bsize seq tab t fuel, (bsize = 256 \/ bsize = 512) -> len seq < RSQ_MAXN ->
  table_ok seq tab -> hq_build bsize seq tab = Val t ->
  (S (S (N.to_nat (len seq / (8 * bsize)))) <= fuel)%nat ->
  Forall (lvl_select_ok bsize fuel) (h_qvs t) /\ codes_ok t /\ h_n_levels t < 2 ^ 62.
Proof.
  intros bsize seq tab t fuel Hb Hn Htok Hbuild Hf.
  destruct seq as [|x0 seq'].
  - unfold hq_build in Hbuild. rewrite rsq_default_is_new in Hbuild.
    destruct (rsq_new bsize []) as [d|] eqn:Ed; cbn [bind] in Hbuild; [|discriminate].
    apply Val_inj in Hbuild. subst t. cbn [h_qvs h_n_levels]. unfold codes_ok. cbn [h_codes].
    split; [|split; [constructor|reflexivity]].
    constructor; [|constructor]. apply (lvl_new_ok bsize [] d fuel Hb Hn Ed Hf).
  - pose proof (table_codes_ok _ _ Htok) as Hco.
    destruct Htok as (Htab & Hwf & Hocc & Hok & Hdist).
    rewrite hq_build_cons in Hbuild. set (s := x0 :: seq') in *.
    assert (HT : fin_tail tab s 0 []) by (intros x []).
    destruct (hq_levels_new tab s Htab Hwf bsize Hb Hn (N.to_nat (maxN (map pc_len tab) / 2)) 0%nat [] HT)
      as (qvs & lens & E & H1).
    cbn [Q] in E. rewrite app_nil_r in E. change (2 * (N.of_nat 0 + 1)) with 2 in E.
    rewrite E in Hbuild. cbn [bind] in Hbuild. apply Val_inj in Hbuild. subst t.
    cbn [h_qvs h_n_levels]. unfold codes_ok. cbn [h_codes].
    split; [|split; [exact Hco|]].
    + eapply Forall_impl; [|exact H1]. intros r (ds & Hds & Hr). cbv beta.
      apply (lvl_new_ok bsize ds r fuel Hb ltac:(lia) Hr).
      assert (Hd : len ds / (8 * bsize) <= len s / (8 * bsize)).
      { apply N.div_le_mono; [destruct Hb; subst bsize; lia|exact Hds]. }
      lia.
    + assert (Hm : maxN (map pc_len tab) <= 32).
      { apply maxN_le. intros x Hx. apply in_map_iff in Hx as (c & <- & Hc).
        rewrite Forall_forall in Hco. apply (Hco c Hc). }
      change (2 ^ 62) with 4611686018427387904.
      assert (maxN (map pc_len tab) / 2 <= maxN (map pc_len tab)) by (apply N.div_le_upper_bound; lia). lia.
Qed.

(* hq_code_of on a built tree, read off the rank contract *)
Lemma code_of_spec w bsize t seq c : hq_spec w bsize t seq -> c < 2 ^ w ->
  match hq_code_of t c with Some _ => 0 < countN c seq | None => countN c seq = 0 end.
Proof.
  intros (S1 & _ & S3 & _) Hc. specialize (S3 c 0 Hc). unfold hq_rank in S3.
  destruct (N.ltb_spec (h_n t) 0) as [|_]; [lia|].
  destruct (N.leb_spec 0 (len seq)) as [_|]; [|lia]. cbn [andb] in S3.
  destruct (hq_code_of t c).
  - destruct (hq_rank_unchecked bsize t c 0); cbn [bind] in S3; [|discriminate].
    apply Val_inj in S3. destruct (N.ltb_spec 0 (countN c seq)); [assumption|discriminate].
  - apply Val_inj in S3. destruct (N.ltb_spec 0 (countN c seq)); [discriminate|lia].
Qed.

(* the contract of C02 (C02_contract, without the prefetch variants that have no generated counterpart here)
   for the GENERATED functions on the fields of the tree *)
Definition g_hqwt_contract (w : N) (t : hqwt) (seq : list N)
  (g_code_index : N -> list N -> list N -> N -> outcome (option N))
  (g_len : N -> outcome N)
  (g_get : N -> N -> N -> list (list (N * N)) -> list (list (list N)) -> list N -> list (list (list N)) -> list (list N) -> list N -> N -> outcome (option N))
  (g_get_unchecked : N -> N -> list (list (N * N)) -> list (list (list N)) -> list N -> list (list (list N)) -> list (list N) -> list N -> N -> outcome N)
  (g_rank : N -> N -> list N -> list N -> list (list (list N)) -> list (list (list N)) -> list (list N) -> N -> N -> outcome (option N))
  (g_rank_unchecked : N -> list N -> list N -> list (list (list N)) -> list (list (list N)) -> list (list N) -> N -> N -> outcome N)
  (g_select : N -> N -> list N -> list N -> list (list (list N)) -> list N -> list (list (list N)) -> list (list (list N)) -> list (list N) -> N -> N -> outcome (option N))
  (g_select_unchecked : N -> N -> list N -> list N -> list (list (list N)) -> list N -> list (list (list N)) -> list (list (list N)) -> list (list N) -> N -> N -> outcome N)
  : Prop :=
  let ec := hq_enc_content t in let el := hq_enc_len t in
  let d := hq_data t in let p := hq_pos t in let sb := hq_sbs t in let sm := hq_samples t in let oc := hq_occs t in
  g_len (h_n t) = Val (len seq) /\
  (forall c, c < 2 ^ w -> g_code_index w ec el c = Val (if 0 <? countN c seq then Some (sym_index c) else None)) /\
  (forall i, i < 2 ^ 64 -> g_get w (h_n t) (h_n_levels t) (h_decode t) d p sb oc (h_lens t) i = Val (nthN seq i)) /\
  (forall i x, nthN seq i = Some x -> g_get_unchecked w (h_n_levels t) (h_decode t) d p sb oc (h_lens t) i = Val x) /\
  (forall c i, c < 2 ^ w -> i < 2 ^ 64 -> g_rank w (h_n t) ec el d sb oc c i =
       Val (if (i <=? len seq) && (0 <? countN c seq) then Some (rank_spec seq c i) else None)) /\
  (forall c i, 0 < countN c seq -> i <= len seq -> g_rank_unchecked w ec el d sb oc c i = Val (rank_spec seq c i)) /\
  (forall c k, c < 2 ^ w -> k < 2 ^ 64 ->
       g_select w (h_n_levels t) ec el d p sb sm oc c k = Val (select_spec seq c k)) /\
  (forall c k q, c < 2 ^ w -> select_spec seq c k = Some q ->
       g_select_unchecked w (h_n_levels t) ec el d p sb sm oc c k = Val q).

Ltac e2e_tac bsz ci_ok get_ok get_u_ok rank_ok rank_u_ok select_ok select_u_ok :=
  intros w seq tab t fuel Hw HF Hn Htok Hbuild Hf17 Hf;
  assert (Hb : bsz = 256 \/ bsz = 512) by auto;
  destruct (hq_build_correct w bsz seq tab Hw Hb HF Hn Htok) as (t' & Et & Hspec);
  rewrite Hbuild in Et; apply Val_inj in Et; subst t';
  destruct (hq_build_wf bsz seq tab t fuel Hb Hn Htok Hbuild Hf) as (Hlv & Hco & Hnl);
  pose proof (lvl_select_rank _ _ _ Hlv) as Hlr;
  pose proof (RSQ_MAXN_lt64 _ Hn) as Hn64;
  pose proof (code_of_spec w bsz t seq) as Hcode;
  unfold g_hqwt_contract; cbv zeta;
  pose proof Hspec as (S1 & S2 & S3 & _ & S5 & S6 & S7 & S8);
  split; [|split; [|split; [|split; [|split; [|split; [|split]]]]]];
  [ rewrite <- S1; reflexivity
  | intros c Hc; rewrite (ci_ok w t c Hc); specialize (Hcode c Hspec Hc);
    destruct (hq_code_of t c); destruct (N.ltb_spec 0 (countN c seq)); try reflexivity; lia
  | intros i Hi; apply (get_ok w w t i _ Hlr Hnl Hi); apply S2
  | intros i x Hx; apply (get_u_ok w w t i _ Hlr Hnl);
    [apply nthN_some_lt in Hx; lia|now apply S6]
  | intros c i Hc Hi; apply (rank_ok w t c i _ fuel Hlr Hco Hc Hi Hf17); now apply S3
  | intros c i Hc Hi; apply (rank_u_ok w t c i _ fuel Hlr Hco ltac:(lia) Hf17); now apply S7
  | intros c k Hc Hk; apply (select_ok w t c k _ fuel Hlv Hco Hc Hf17); now apply S5
  | intros c k q Hc Hq; apply (select_u_ok w t c k _ fuel Hlv Hco Hc Hf17); now apply (S8 c k q) ].

Theorem g_hqwt256_end_to_end : forall w seq tab t fuel, width_ok w ->
  Forall (fun x => x < 2 ^ w) seq -> len seq < RSQ_MAXN -> table_ok seq tab ->
  hq_build 256 seq tab = Val t ->
  (17 <= fuel)%nat -> (S (S (N.to_nat (len seq / (8 * 256)))) <= fuel)%nat ->
  g_hqwt_contract w t seq g_hqwt256_code_index g_hqwt256_len g_hqwt256_get g_hqwt256_get_unchecked
    (g_hqwt256_rank fuel) (g_hqwt256_rank_unchecked fuel) (g_hqwt256_select fuel) (g_hqwt256_select_unchecked fuel).
Proof.
  e2e_tac 256 g_hqwt256_code_index_ok g_hqwt256_get_ok g_hqwt256_get_unchecked_ok g_hqwt256_rank_ok g_hqwt256_rank_unchecked_ok
    g_hqwt256_select_ok g_hqwt256_select_unchecked_ok.
Qed.

Theorem g_hqwt512_end_to_end : forall w seq tab t fuel, width_ok w ->
  Forall (fun x => x < 2 ^ w) seq -> len seq < RSQ_MAXN -> table_ok seq tab ->
  hq_build 512 seq tab = Val t ->
  (17 <= fuel)%nat -> (S (S (N.to_nat (len seq / (8 * 512)))) <= fuel)%nat ->
  g_hqwt_contract w t seq g_hqwt512_code_index g_hqwt512_len g_hqwt512_get g_hqwt512_get_unchecked
    (g_hqwt512_rank fuel) (g_hqwt512_rank_unchecked fuel) (g_hqwt512_select fuel) (g_hqwt512_select_unchecked fuel).
Proof.
  e2e_tac 512 g_hqwt512_code_index_ok g_hqwt512_get_ok g_hqwt512_get_unchecked_ok g_hqwt512_rank_ok g_hqwt512_rank_unchecked_ok
    g_hqwt512_select_ok g_hqwt512_select_unchecked_ok.
Qed.

(* HuffQWaveletTree::new = craft_wm_codes on the external coder's lengths f, then the tree builder (C02_new_end_to_end) *)
Lemma hq_new_build bsize seq f tab t : seq <> [] -> craft4 f (sym_index (maxN seq)) = Val tab ->
  hq_new bsize seq f = Val t -> hq_build bsize seq tab = Val t.
Proof.
  intros Hne Hc H. unfold hq_new in H. destruct seq as [|x0 seq']; [contradiction|].
  rewrite Hc in H. cbn [bind] in H. exact H.
Qed.

Theorem g_hqwt256_new_end_to_end : forall w seq f tab t fuel, width_ok w ->
  Forall (fun x => x < 2 ^ w) seq -> len seq < RSQ_MAXN -> seq <> [] -> maxN seq < 2 ^ 64 - 1 ->
  lengths_for seq f -> craft4 f (sym_index (maxN seq)) = Val tab -> hq_new 256 seq f = Val t ->
  (17 <= fuel)%nat -> (S (S (N.to_nat (len seq / (8 * 256)))) <= fuel)%nat ->
  g_hqwt_contract w t seq g_hqwt256_code_index g_hqwt256_len g_hqwt256_get g_hqwt256_get_unchecked
    (g_hqwt256_rank fuel) (g_hqwt256_rank_unchecked fuel) (g_hqwt256_select fuel) (g_hqwt256_select_unchecked fuel).
Proof.
  intros w seq f tab t fuel Hw HF Hn Hne Hmax Hlf Hc Hnew Hf17 Hf.
  apply (g_hqwt256_end_to_end w seq tab t fuel Hw HF Hn (craft_table_ok_seq seq f tab Hne Hmax Hlf Hc)
           (hq_new_build 256 seq f tab t Hne Hc Hnew) Hf17 Hf).
Qed.
Theorem g_hqwt512_new_end_to_end : forall w seq f tab t fuel, width_ok w ->
  Forall (fun x => x < 2 ^ w) seq -> len seq < RSQ_MAXN -> seq <> [] -> maxN seq < 2 ^ 64 - 1 ->
  lengths_for seq f -> craft4 f (sym_index (maxN seq)) = Val tab -> hq_new 512 seq f = Val t ->
  (17 <= fuel)%nat -> (S (S (N.to_nat (len seq / (8 * 512)))) <= fuel)%nat ->
  g_hqwt_contract w t seq g_hqwt512_code_index g_hqwt512_len g_hqwt512_get g_hqwt512_get_unchecked
    (g_hqwt512_rank fuel) (g_hqwt512_rank_unchecked fuel) (g_hqwt512_select fuel) (g_hqwt512_select_unchecked fuel).
Proof.
  intros w seq f tab t fuel Hw HF Hn Hne Hmax Hlf Hc Hnew Hf17 Hf.
  apply (g_hqwt512_end_to_end w seq tab t fuel Hw HF Hn (craft_table_ok_seq seq f tab Hne Hmax Hlf Hc)
           (hq_new_build 512 seq f tab t Hne Hc Hnew) Hf17 Hf).
Qed.

(* ------------------------------------------------------------------ non-vacuity *)
(* the generated functions evaluated on the example tree of Proofs/HQWTP.v (hq_ex_seq, hq_ex_tab), with the
   minimal fuel 17: the same values as hq_ex_checks / hq_example_spec *)
Definition g_hq_ex_checks256 : Prop :=
  match hq_build 256 hq_ex_seq hq_ex_tab with
  | Val t =>
      let ec := hq_enc_content t in let el := hq_enc_len t in
      let d := hq_data t in let p := hq_pos t in let sb := hq_sbs t in let sm := hq_samples t in let oc := hq_occs t in
      g_hqwt256_len (h_n t) = Val 30 /\ g_hqwt256_is_empty (h_n t) = Val false /\ g_hqwt256_n_levels (h_n_levels t) = Val 2 /\
      map (g_hqwt256_get 8 (h_n t) (h_n_levels t) (h_decode t) d p sb oc (h_lens t)) [0; 1; 2; 3; 29; 30] =
        [Val (Some 5); Val (Some 0); Val (Some 9); Val (Some 2); Val (Some 9); Val None] /\
      map (fun c => g_hqwt256_rank 17 8 (h_n t) ec el d sb oc c 17) [0; 2; 5; 9; 1; 300] =
        [Val (Some 3); Val (Some 3); Val (Some 5); Val (Some 6); Val None; Val None] /\
      map (g_hqwt256_select 17 8 (h_n_levels t) ec el d p sb sm oc 9) [0; 1; 9; 10; 11] =
        [Val (Some 2); Val (Some 6); Val (Some 29); Val None; Val None] /\
      g_hqwt256_rank 17 8 (h_n t) ec el d sb oc 5 31 = Val None /\
      g_hqwt256_select_unchecked 17 8 (h_n_levels t) ec el d p sb sm oc 2 3 = Val 21 /\
      g_hqwt256_get_unchecked 8 (h_n_levels t) (h_decode t) d p sb oc (h_lens t) 7 = Val 0 /\
      g_hqwt256_rank_unchecked 17 8 ec el d sb oc 0 30 = Val 5 /\
      map (g_hqwt256_code_index 8 ec el) [0; 1; 9; 10; 300] = [Val (Some 0); Val None; Val (Some 9); Val None; Val None]
  | Fault _ => False
  end.
Definition g_hq_ex_checks512 : Prop :=
  match hq_build 512 hq_ex_seq hq_ex_tab with
  | Val t =>
      let ec := hq_enc_content t in let el := hq_enc_len t in
      let d := hq_data t in let p := hq_pos t in let sb := hq_sbs t in let sm := hq_samples t in let oc := hq_occs t in
      g_hqwt512_len (h_n t) = Val 30 /\ g_hqwt512_is_empty (h_n t) = Val false /\ g_hqwt512_n_levels (h_n_levels t) = Val 2 /\
      map (g_hqwt512_get 8 (h_n t) (h_n_levels t) (h_decode t) d p sb oc (h_lens t)) [0; 1; 2; 3; 29; 30] =
        [Val (Some 5); Val (Some 0); Val (Some 9); Val (Some 2); Val (Some 9); Val None] /\
      map (fun c => g_hqwt512_rank 17 8 (h_n t) ec el d sb oc c 17) [0; 2; 5; 9; 1; 300] =
        [Val (Some 3); Val (Some 3); Val (Some 5); Val (Some 6); Val None; Val None] /\
      map (g_hqwt512_select 17 8 (h_n_levels t) ec el d p sb sm oc 9) [0; 1; 9; 10; 11] =
        [Val (Some 2); Val (Some 6); Val (Some 29); Val None; Val None] /\
      g_hqwt512_rank 17 8 (h_n t) ec el d sb oc 5 31 = Val None /\
      g_hqwt512_select_unchecked 17 8 (h_n_levels t) ec el d p sb sm oc 2 3 = Val 21 /\
      g_hqwt512_get_unchecked 8 (h_n_levels t) (h_decode t) d p sb oc (h_lens t) 7 = Val 0 /\
      g_hqwt512_rank_unchecked 17 8 ec el d sb oc 0 30 = Val 5 /\
      map (g_hqwt512_code_index 8 ec el) [0; 1; 9; 10; 300] = [Val (Some 0); Val None; Val (Some 9); Val None; Val None]
  | Fault _ => False
  end.
Example g_hq_example_256 : g_hq_ex_checks256.
Proof. vm_compute. repeat split; reflexivity. Qed.
Example g_hq_example_512 : g_hq_ex_checks512.
Proof. vm_compute. repeat split; reflexivity. Qed.

(* the general theorem instantiated on the example *)
Example g_hq_example_thm : exists t, hq_build 256 hq_ex_seq hq_ex_tab = Val t /\
  g_hqwt_contract 8 t hq_ex_seq g_hqwt256_code_index g_hqwt256_len g_hqwt256_get g_hqwt256_get_unchecked
    (g_hqwt256_rank 17) (g_hqwt256_rank_unchecked 17) (g_hqwt256_select 17) (g_hqwt256_select_unchecked 17).
Proof.
  destruct (hq_example_thm 256 (or_introl eq_refl)) as (t & Et & _). exists t. split; [exact Et|].
  apply (g_hqwt256_end_to_end 8 hq_ex_seq hq_ex_tab t 17); try exact Et.
  - left. reflexivity.
  - apply Forall_forall. intros x Hx.
    assert (H : forallb (fun y => y <? 2 ^ 8) hq_ex_seq = true) by (vm_compute; reflexivity).
    rewrite forallb_forall in H. specialize (H x Hx). lia.
  - reflexivity.
  - exact hq_ex_table_ok.
  - lia.
  - vm_compute. lia.
Qed.

(* SUMMARY.
   Simulations (S), per block size: g_hqwtNNN_{get_unchecked,get,rank_unchecked,rank,select,select_unchecked}_ok;
   equalities (E): g_hqwtNNN_{code_index,len,is_empty,n_levels}_ok.  Hypotheses used:
     - Forall lvl_rank_ok (h_qvs t): every level has well-formed data lines (rsq_lines_ok), superblock words
       below 2^128 and n_occs_smaller entries below 2^63;
     - for select: Forall (lvl_select_ok bsize fuel) (h_qvs t): additionally select samples below 2^32,
       fuel > number of superblocks of every level, and the positions rsq_select returns fit a usize;
     - codes_ok t: code lengths even and <= 32 (the i64 `shift` runs 2*(len/2) - 2, .., 0, -2 and is used as a
       shift amount on a u32); h_n_levels t < 2^62 (get: `shift += 2` on usize);
     - symbol < 2^wT (code_index / rank / select), i < 2^64, fuel >= 17.
     - get_unchecked: the generated code returns `T::from(symbol).unwrap()` without the range check of the
       hand model (hq_get_unchecked faults when the decoded symbol is >= 2^w): a simulation, not an equality.
     - no sortedness of the decode tables is needed: obsearch_fst returns the first entry with the key and the
       hand model's table_lookup uses [find] (first entry too).
   End to end: g_hqwtNNN_end_to_end (hq_build, every compatible table: C02_tree_correct_for_every_compatible_table)
   and g_hqwtNNN_new_end_to_end (hq_new: C02_new_end_to_end); every hypothesis above is discharged for built
   trees by hq_build_wf.  No mismatch between the generated functions and the hand model was found. *)
Print Assumptions g_hqwt256_code_index_ok.
Print Assumptions g_hqwt512_code_index_ok.
Print Assumptions g_hqwt256_get_unchecked_ok.
Print Assumptions g_hqwt512_get_unchecked_ok.
Print Assumptions g_hqwt256_get_ok.
Print Assumptions g_hqwt512_get_ok.
Print Assumptions g_hqwt256_rank_unchecked_ok.
Print Assumptions g_hqwt512_rank_unchecked_ok.
Print Assumptions g_hqwt256_rank_ok.
Print Assumptions g_hqwt512_rank_ok.
Print Assumptions g_hqwt256_select_ok.
Print Assumptions g_hqwt512_select_ok.
Print Assumptions g_hqwt256_select_unchecked_ok.
Print Assumptions g_hqwt512_select_unchecked_ok.
Print Assumptions hq_build_wf.
Print Assumptions g_hqwt256_end_to_end.
Print Assumptions g_hqwt512_end_to_end.
Print Assumptions g_hqwt256_new_end_to_end.
Print Assumptions g_hqwt512_new_end_to_end.
Print Assumptions g_hq_example_256.
Print Assumptions g_hq_example_512.
Print Assumptions g_hq_example_thm.
