(* QWaveletTree::rank_prefetch_unchecked / rank_prefetch (WITH_PREFETCH_SUPPORT = false: QWT256 / QWT512) regenerated
   (Gen/FnsQwtnew.v): the estimation phase (reads of occs_smaller_unchecked / rank_block_unchecked of every level,
   the checked arithmetic and the index checks of the arguments of the prefetch_data calls, the i64 shift) never
   faults on a tree the constructor builds and has no effect: the regenerated methods are EQUAL to the regenerated
   rank_unchecked / rank, hence to the list specification. *)
From Coq Require Import ZArith Lia ZifyBool ZifyN ZifyNat.
From QwtModel Require Import ListX Loops Seq Consts SelTable Words QVec RSQ QWT ListXP ConstsOk WordsP BitsLib LeafP.
From QwtModel Require Import LeavesLib FnsRss FnsQv2 FnsRsq FnsQv2Ok FnsRssOk FnsRsqOk FnsQwt FnsQwtnew.
From QwtModel Require Import QVecP RSQList RSQWord RSQBuild RSQP WaveletMatrix QWTArith QWTBuild QWTWalk QWTP.
From QwtModel Require Import FnsQwtOk FnsRsqFromOk FnsQwtNewOk FnsWrapQwtOk.
Ltac Zify.zify_post_hook ::= Z.div_mod_to_equations.
Open Scope N_scope.
Arguments N.add : simpl never.
Arguments N.sub : simpl never.
Arguments N.mul : simpl never.
Arguments N.eqb : simpl never.
Arguments N.ltb : simpl never.
Arguments N.leb : simpl never.
Arguments N.of_nat : simpl never.
Arguments N.land : simpl never.
Arguments N.shiftr : simpl never.
Arguments N.div : simpl never.
Arguments N.modulo : simpl never.
Arguments N.pow : simpl never.

(* ------------------------------------------------------------------ the hand model *)
(* on a tree qwt_new builds from a non-empty sequence the hand model's rank_prefetch_unchecked returns a value for
   EVERY symbol (also symbols above sigma) and every position i <= len (QWTWalk.estimate_ok / rank_final) *)
Lemma qwt_new_prefetch_unchecked_val w bsize s t : width_ok w -> (bsize = 256 \/ bsize = 512) ->
  Forall (fun x => x < 2 ^ w) s -> len s < RSQ_MAXN -> qwt_new w bsize s = Val t -> len s <> 0 ->
  forall c i, i <= len s -> exists v, qwt_rank_prefetch_unchecked w bsize t c i = Val v.
Proof.
  intros Hwok Hb HF Hn E Hne c i Hi.
  assert (Hwpos : 0 < w) by (unfold width_ok in Hwok; lia).
  assert (Enew : qwt_new w bsize s =
            let! s0 := osub (levels_of s) 1 in
            let! qvs := qwt_levels w bsize s (2 * s0) (N.to_nat (levels_of s)) in
            Val {| q_n := len s; q_n_levels := levels_of s; q_sigma := maxN s; q_qvs := qvs |}).
  { destruct s; [exfalso; apply Hne; reflexivity|reflexivity]. }
  rewrite Enew in E. clear Enew.
  set (L := N.to_nat (levels_of s)) in *.
  assert (HLN : levels_of s = N.of_nat L) by (unfold L; lia).
  pose proof (qlevels_pos s) as Hpos. rewrite <- levels_of_qlevels in Hpos.
  assert (HL : (0 < L)%nat) by lia.
  assert (Hpow : 0 < 2 ^ w) by (apply N.neq_0_lt_0, N.pow_nonzero; lia).
  pose proof (maxN_lt s (2 ^ w) Hpow HF) as Hmax.
  pose proof (qlevels_shift s w Hwpos Hmax) as Hsh. rewrite <- levels_of_qlevels, HLN in Hsh.
  assert (Hw : 2 * N.of_nat (L - 1) < w) by lia.
  unfold osub in E. replace (1 <=? levels_of s) with true in E by lia. cbn [bind] in E.
  replace (2 * (levels_of s - 1)) with (2 * N.of_nat (L - 1)) in E by lia.
  destruct (qwt_levels_tree w bsize L s Hb Hn HL Hw) as (qvs & Eq & HT & _).
  rewrite Eq in E. cbn [bind] in E. apply Val_inj in E. subst t.
  assert (Hlen64 : len s < 2 ^ 64).
  { rewrite RSQ_MAXN_val in Hn. change (2 ^ 64) with 18446744073709551616. lia. }
  set (T := {| q_n := len s; q_n_levels := levels_of s; q_sigma := maxN s; q_qvs := qvs |}).
  rewrite (prefetch_unchecked_eq w bsize L s qvs HT HL Hw Hlen64 c i T HLN eq_refl Hi).
  rewrite (rank_final w bsize L s qvs HT HL Hw Hlen64 c i T HLN eq_refl Hi). eexists. reflexivity.
Qed.

(* ------------------------------------------------------------------ small facts *)
Lemma omul_small w a b : a * b < 2 ^ w -> omul w a b = Val (a * b).
Proof. intros H. unfold omul. destruct (N.ltb_spec (a * b) (2 ^ w)); [reflexivity|lia]. Qed.

Lemma idx_val_lt {A} (l : list A) i a : idx l i = Val a -> i < len l.
Proof. exact (idx_lt l i a). Qed.

(* ================================================================== the generic text *)
(* the text of Gen/FnsQwtnew.v with the three functions that depend on the block size abstracted (checked
   convertible to both generated instances by the [exact] of the instance theorems below) *)
Section GenericPf.
  Variable bsize : N.
  Variable g_occs_su : list N -> N -> outcome N.
  Variable g_rank_blk : list (list N) -> N -> N -> outcome N.
  Variable g_rank_unch : N -> N -> list (list (list N)) -> list (list (list N)) -> list (list N) -> N -> N -> outcome N.
  Hypothesis occs_su_ok : forall r c, g_occs_su (rsq_occs_smaller r) c = rsq_occs_smaller_unchecked r c.
  Hypothesis rank_blk_ok : forall r c i,
    g_rank_blk (rs_superblocks (rsq_rs r)) c i = rss_rank_block bsize (rsq_rs r) c i.

  (* for i in 0..level { self.qvs[level + 1].prefetch_data(range.end + 2 * BLOCK_SIZE + i * BLOCK_SIZE); } *)
  Definition G_pf_inner {R} (qvs_qv_data : list (list (list N))) (level range_end BLOCK_SIZE : N)
    : N -> unit -> outcome (step unit R) :=
    fun i _ =>
          let! t16 := oadd 64 level 1 in
          let! _ := idx qvs_qv_data t16 in
          let! t17 := omul 64 2 BLOCK_SIZE in
          let! t18 := oadd 64 range_end t17 in
          let! t19 := omul 64 i BLOCK_SIZE in
          let! t20 := oadd 64 t18 t19 in
          Val (Next tt).

  Definition G_pf_body (wT : N) (qvs_qv_data : list (list (list N))) (qvs_rs_support_superblocks : list (list (list N)))
    (qvs_n_occs_smaller : list (list N)) (symbol BLOCK_SIZE : N) : N -> N * N * Z -> outcome (step (N * N * Z) N) :=
    fun level '(range_start, range_end, shift) =>
      let! t4 := oshr wT symbol (Z.to_N (Z.modulo shift (2 ^ 64)%Z)) in
      let two_bits := (N.land (t4 mod 2 ^ 64) 3) mod 2 ^ 8 in
      let! t5 := idx qvs_n_occs_smaller level in
      let! offset := g_occs_su t5 two_bits in
      let! t6 := idx qvs_rs_support_superblocks level in
      let! rank_start := g_rank_blk t6 two_bits range_start in
      let! t7 := idx qvs_rs_support_superblocks level in
      let! rank_end := g_rank_blk t7 two_bits range_end in
      let! t8 := oadd 64 rank_start offset in
      let! t9 := oadd 64 rank_end offset in
      let range_start := t8 in
      let range_end := t9 in
      let! t10 := oadd 64 level 1 in
      let! _ := idx qvs_qv_data t10 in
      let! t11 := oadd 64 level 1 in
      let! _ := idx qvs_qv_data t11 in
      let! t12 := oadd 64 range_start BLOCK_SIZE in
      let! t13 := oadd 64 level 1 in
      let! _ := idx qvs_qv_data t13 in
      let! t14 := oadd 64 level 1 in
      let! _ := idx qvs_qv_data t14 in
      let! t15 := oadd 64 range_end BLOCK_SIZE in
      let! r := for_loop (G_pf_inner qvs_qv_data level range_end BLOCK_SIZE) 0 (N.to_nat (level - 0)) tt in
      match r with
      | Retd v => Val v
      | Done _ =>
          let! shift := zisub 64 shift (2%Z) in
          Val (Next (range_start, range_end, shift))
      end.

  Definition G_pf_unchecked (wT : N) (n_levels : N) (qvs_qv_data : list (list (list N))) (qvs_rs_support_superblocks : list (list (list N))) (qvs_n_occs_smaller : list (list N)) (symbol : N) (i : N) : outcome N :=
    let range_start := 0 in
    let range_end := i in
    let! t1 := osub n_levels 1 in
    let! t2 := omul 64 2 t1 in
    let shift := zwrap 64 (Z.of_N t2) in
    let BLOCK_SIZE := 256 in
    let! _ := idx qvs_qv_data 0 in
    let! _ := idx qvs_qv_data 0 in
    let! t3 := osub n_levels 1 in
    let! r := for_loop (G_pf_body wT qvs_qv_data qvs_rs_support_superblocks qvs_n_occs_smaller symbol BLOCK_SIZE)
                0 (N.to_nat (t3 - 0)) (range_start, range_end, shift) in
    match r with
    | Retd v => Val v
    | Done (range_start, range_end, shift) =>
        g_rank_unch wT n_levels qvs_qv_data qvs_rs_support_superblocks qvs_n_occs_smaller symbol i
    end.

  Definition G_pf (wT : N) (n : N) (n_levels : N) (sigma : N) (qvs_qv_data : list (list (list N))) (qvs_rs_support_superblocks : list (list (list N))) (qvs_n_occs_smaller : list (list N)) (symbol : N) (i : N) : outcome (option N) :=
    if orb (orb (N.eqb n 0) (N.ltb n i)) (N.ltb sigma symbol) then
      Val None
    else
      let! t1 := G_pf_unchecked wT n_levels qvs_qv_data qvs_rs_support_superblocks qvs_n_occs_smaller symbol i in
      Val (Some t1).

  (* ---- the inner loop: arguments of the prefetches `range.end + 2 * 256 + i * 256`, i < level *)
  Lemma pf_inner_done {R} (data : list (list (list N))) level re x :
    idx data (level + 1) = Val x -> level <= 2 ^ 32 -> re < 2 ^ 63 + 2 ^ 46 ->
    forall k lo, lo + N.of_nat k <= level ->
    for_loop (@G_pf_inner R data level re 256) lo k tt = Val (Done tt).
  Proof.
    intros Ex Hl Hre. change (2 ^ 32) with 4294967296 in Hl.
    change (2 ^ 63 + 2 ^ 46) with 9223442405598953472 in Hre.
    induction k as [|k IH]; intros lo Hlo; [reflexivity|].
    cbn [for_loop]. unfold G_pf_inner at 1.
    rewrite oadd_small by (rewrite p64; lia). cbn [bind]. rewrite Ex. cbn [bind].
    rewrite (omul_small 64 2 256) by (rewrite p64; lia). cbn [bind].
    rewrite oadd_small by (rewrite p64; lia). cbn [bind].
    rewrite omul_small by (rewrite p64; lia). cbn [bind].
    rewrite oadd_small by (rewrite p64; lia). cbn [bind].
    apply IH. lia.
  Qed.

  (* ---- the estimation loop: wherever the hand model's walk returns, the generated loop ends normally *)
  Lemma pf_loop_sim wT symbol qvs : Forall lvl_rank_ok qvs ->
    forall n level rs re sh, sh < 2 ^ 63 -> level + N.of_nat n <= 2 ^ 32 ->
    qwt_estimate_walk wT bsize qvs symbol sh rs re level n = Val tt ->
    exists st, for_loop (G_pf_body wT (map rsq_wdata qvs) (map lvl_sbs qvs) (map rsq_occs_smaller qvs) symbol 256)
                 level n (rs, re, Z.of_N sh) = Val (Done st).
  Proof.
    intros HF. induction n as [|n IH]; intros level rs re sh Hs Hlv.
    - intros _. eexists. reflexivity.
    - cbn [qwt_estimate_walk for_loop]. unfold G_pf_body at 1. cbv beta iota zeta.
      rewrite shamt_of_N by (rewrite p63, ?p64 in *; lia).
      unfold two_bits. destruct (oshr wT symbol sh) as [y|]; cbn [bind]; [|discriminate].
      rewrite land3_mod8. set (tb := N.land (y mod 2 ^ 64) 3).
      rewrite !idx_map.
      destruct (idx qvs level) as [qv|] eqn:Eqv; cbn [bind]; [|discriminate].
      pose proof (idx_Forall _ _ _ _ HF Eqv) as (Hl & Hw & Ho).
      rewrite occs_su_ok.
      destruct (rsq_occs_smaller_unchecked qv tb) as [offset|] eqn:Eo; cbn [bind]; [|discriminate].
      destruct (occs_smaller_bound _ _ _ Ho Eo) as [Hoff _].
      unfold lvl_sbs at 1 2. rewrite !rank_blk_ok.
      destruct (rss_rank_block bsize (rsq_rs qv) tb rs) as [a|] eqn:Ea; cbn [bind]; [|discriminate].
      destruct (rss_rank_block bsize (rsq_rs qv) tb re) as [b|] eqn:Eb; cbn [bind]; [|discriminate].
      pose proof (rank_block_bound _ _ _ _ _ Hw Ea) as Ha.
      pose proof (rank_block_bound _ _ _ _ _ Hw Eb) as Hb.
      change (2 ^ 44 + 4096) with 17592186048512 in Ha, Hb. rewrite p63 in Hoff, Hs.
      change (2 ^ 32) with 4294967296 in Hlv.
      destruct (idx qvs (level + 1)) as [qv1|] eqn:Eqv1; cbn [bind]; [|discriminate].
      destruct (osub sh 2) as [sh'|] eqn:Esh; cbn [bind]; [|discriminate].
      apply osub_Val in Esh. destruct Esh as [-> Hsh].
      intros E.
      rewrite !oadd_small by (rewrite p64; lia). cbn [bind].
      rewrite !idx_map, Eqv1. cbn [bind].
      rewrite (pf_inner_done _ level (b + offset) (rsq_wdata qv1)).
      + cbn [bind]. rewrite !oadd_small by (rewrite p64; lia). cbn [bind].
        rewrite zisub2 by lia. cbn [bind].
        replace (Z.of_N sh - 2)%Z with (Z.of_N (sh - 2)) by lia.
        apply IH; [rewrite p63; lia|change (2 ^ 32) with 4294967296; lia|exact E].
      + rewrite idx_map, Eqv1. reflexivity.
      + change (2 ^ 32) with 4294967296. lia.
      + change (2 ^ 63 + 2 ^ 46) with 9223442405598953472. lia.
      + lia.
  Qed.

  (* ---- rank_prefetch_unchecked: wherever the hand model returns, the estimation phase is transparent *)
  Theorem G_pf_unchecked_eq : forall wT t symbol i v,
    Forall lvl_rank_ok (q_qvs t) -> q_n_levels t <= 2 ^ 32 ->
    qwt_rank_prefetch_unchecked wT bsize t symbol i = Val v ->
    G_pf_unchecked wT (q_n_levels t) (qwt_data t) (qwt_sbs t) (qwt_occs t) symbol i
    = g_rank_unch wT (q_n_levels t) (qwt_data t) (qwt_sbs t) (qwt_occs t) symbol i.
  Proof.
    intros wT t symbol i v HF Hnl. unfold qwt_rank_prefetch_unchecked, G_pf_unchecked. cbv zeta.
    change (2 ^ 32) with 4294967296 in Hnl.
    destruct (osub (q_n_levels t) 1) as [l1|] eqn:El1; cbn [bind]; [|discriminate].
    apply osub_Val in El1. destruct El1 as [El1 Hl1].
    destruct (idx (q_qvs t) 0) as [r0|] eqn:E0; cbn [bind]; [|discriminate].
    destruct (qwt_estimate_walk wT bsize (q_qvs t) symbol (2 * l1) 0 i 0 (N.to_nat l1)) as [[]|] eqn:Ew;
      cbn [bind]; [|discriminate].
    intros _.
    rewrite omul_small by (rewrite p64; lia). cbn [bind].
    rewrite zwrap_small by lia.
    unfold qwt_data at 1 2. rewrite !idx_map, E0. cbn [bind].
    rewrite N.sub_0_r.
    destruct (pf_loop_sim wT symbol (q_qvs t) HF (N.to_nat l1) 0 0 i (2 * l1)) as (st & Est).
    - rewrite p63. lia.
    - change (2 ^ 32) with 4294967296. lia.
    - exact Ew.
    - unfold qwt_data, qwt_sbs, qwt_occs. rewrite Est. cbn [bind]. destruct st as [[a b] c]. reflexivity.
  Qed.

  (* ---- rank_prefetch: the same guard as rank *)
  Theorem G_pf_eq : forall wT t symbol i,
    Forall lvl_rank_ok (q_qvs t) -> q_n_levels t <= 2 ^ 32 ->
    (q_n t <> 0 -> i <= q_n t -> exists v, qwt_rank_prefetch_unchecked wT bsize t symbol i = Val v) ->
    G_pf wT (q_n t) (q_n_levels t) (q_sigma t) (qwt_data t) (qwt_sbs t) (qwt_occs t) symbol i
    = (if orb (orb (N.eqb (q_n t) 0) (N.ltb (q_n t) i)) (N.ltb (q_sigma t) symbol) then Val None
       else let! t1 := g_rank_unch wT (q_n_levels t) (qwt_data t) (qwt_sbs t) (qwt_occs t) symbol i in
            Val (Some t1)).
  Proof.
    intros wT t symbol i HF Hnl Hv. unfold G_pf.
    destruct (N.eqb_spec (q_n t) 0) as [H0|H0]; [reflexivity|].
    destruct (N.ltb_spec (q_n t) i) as [Hi|Hi]; [reflexivity|]. cbn [orb].
    destruct (q_sigma t <? symbol); [reflexivity|].
    destruct (Hv H0 Hi) as (v & Ev). rewrite (G_pf_unchecked_eq wT t symbol i v HF Hnl Ev). reflexivity.
  Qed.
End GenericPf.

(* ================================================================== the two instances *)
(* [exact (G_.. ..)] also checks that the generated definition IS the generic text instantiated with the
   B = 256 / B = 512 functions (conversion). *)
Theorem g_qwt256_rank_prefetch_unchecked_sim : forall wT t symbol i v,
  Forall lvl_rank_ok (q_qvs t) -> q_n_levels t <= 2 ^ 32 ->
  qwt_rank_prefetch_unchecked wT 256 t symbol i = Val v ->
  g_qwt256_rank_prefetch_unchecked wT (q_n_levels t) (qwt_data t) (qwt_sbs t) (qwt_occs t) symbol i
  = g_qwt256_rank_unchecked wT (q_n_levels t) (qwt_data t) (qwt_sbs t) (qwt_occs t) symbol i.
Proof.
  exact (G_pf_unchecked_eq 256 g_rsq256_occs_smaller_unchecked g_rsq256_rank_block_unchecked g_qwt256_rank_unchecked
           g_rsq256_occs_smaller_unchecked_ok g_rsq256_rank_block_unchecked_ok).
Qed.
Theorem g_qwt512_rank_prefetch_unchecked_sim : forall wT t symbol i v,
  Forall lvl_rank_ok (q_qvs t) -> q_n_levels t <= 2 ^ 32 ->
  qwt_rank_prefetch_unchecked wT 512 t symbol i = Val v ->
  g_qwt512_rank_prefetch_unchecked wT (q_n_levels t) (qwt_data t) (qwt_sbs t) (qwt_occs t) symbol i
  = g_qwt512_rank_unchecked wT (q_n_levels t) (qwt_data t) (qwt_sbs t) (qwt_occs t) symbol i.
Proof.
  exact (G_pf_unchecked_eq 512 g_rsq512_occs_smaller_unchecked g_rsq512_rank_block_unchecked g_qwt512_rank_unchecked
           g_rsq512_occs_smaller_unchecked_ok g_rsq512_rank_block_unchecked_ok).
Qed.

Theorem g_qwt256_rank_prefetch_sim : forall wT t symbol i,
  Forall lvl_rank_ok (q_qvs t) -> q_n_levels t <= 2 ^ 32 ->
  (q_n t <> 0 -> i <= q_n t -> exists v, qwt_rank_prefetch_unchecked wT 256 t symbol i = Val v) ->
  g_qwt256_rank_prefetch wT (q_n t) (q_n_levels t) (q_sigma t) (qwt_data t) (qwt_sbs t) (qwt_occs t) symbol i
  = g_qwt256_rank wT (q_n t) (q_n_levels t) (q_sigma t) (qwt_data t) (qwt_sbs t) (qwt_occs t) symbol i.
Proof.
  exact (G_pf_eq 256 g_rsq256_occs_smaller_unchecked g_rsq256_rank_block_unchecked g_qwt256_rank_unchecked
           g_rsq256_occs_smaller_unchecked_ok g_rsq256_rank_block_unchecked_ok).
Qed.
Theorem g_qwt512_rank_prefetch_sim : forall wT t symbol i,
  Forall lvl_rank_ok (q_qvs t) -> q_n_levels t <= 2 ^ 32 ->
  (q_n t <> 0 -> i <= q_n t -> exists v, qwt_rank_prefetch_unchecked wT 512 t symbol i = Val v) ->
  g_qwt512_rank_prefetch wT (q_n t) (q_n_levels t) (q_sigma t) (qwt_data t) (qwt_sbs t) (qwt_occs t) symbol i
  = g_qwt512_rank wT (q_n t) (q_n_levels t) (q_sigma t) (qwt_data t) (qwt_sbs t) (qwt_occs t) symbol i.
Proof.
  exact (G_pf_eq 512 g_rsq512_occs_smaller_unchecked g_rsq512_rank_block_unchecked g_qwt512_rank_unchecked
           g_rsq512_occs_smaller_unchecked_ok g_rsq512_rank_block_unchecked_ok).
Qed.

(* ================================================================== (1) (2) on the fields of every hand-built tree *)
Lemma pf_facts w bsize s t : width_ok w -> (bsize = 256 \/ bsize = 512) ->
  Forall (fun x => x < 2 ^ w) s -> len s < RSQ_MAXN -> qwt_new w bsize s = Val t ->
  Forall lvl_rank_ok (q_qvs t) /\ q_n_levels t <= 2 ^ 32 /\ q_n t = len s /\
  (len s = 0 -> q_n_levels t = 0) /\
  (len s <> 0 -> forall c i, i <= len s -> exists v, qwt_rank_prefetch_unchecked w bsize t c i = Val v).
Proof.
  intros Hwok Hb HF Hn E.
  destruct (e2e_facts w bsize s t Hwok Hb HF Hn E) as (_ & Hspec & HR & _ & _ & _ & _ & Hqn).
  destruct (qwt_new_built w bsize s t Hwok Hb HF Hn E) as (_ & _ & Hnl).
  split; [exact HR|]. split; [change (2 ^ 32) with 4294967296; lia|]. split; [exact Hqn|]. split.
  - intros H0. destruct Hspec as (_ & _ & _ & Hl & _). rewrite Hl. now replace (len s =? 0) with true by lia.
  - intros Hne. exact (qwt_new_prefetch_unchecked_val w bsize s t Hwok Hb HF Hn E Hne).
Qed.

(* (1) the estimation phase never faults and has no effect: EVERY symbol (no `c < 2^w` needed), every i <= len *)
Theorem g_qwt256_rank_prefetch_unchecked_new : forall w s t, width_ok w -> Forall (fun x => x < 2 ^ w) s ->
  len s < RSQ_MAXN -> qwt_new w 256 s = Val t -> forall c i, i <= len s ->
  g_qwt256_rank_prefetch_unchecked w (q_n_levels t) (qwt_data t) (qwt_sbs t) (qwt_occs t) c i
  = g_qwt256_rank_unchecked w (q_n_levels t) (qwt_data t) (qwt_sbs t) (qwt_occs t) c i.
Proof.
  intros w s t Hwok HF Hn E c i Hi.
  destruct (pf_facts w 256 s t Hwok ltac:(auto) HF Hn E) as (HR & Hnl & Hqn & H0 & Hv).
  destruct (N.eq_dec (len s) 0) as [Hz|Hnz].
  - unfold g_qwt256_rank_prefetch_unchecked, g_qwt256_rank_unchecked. rewrite (H0 Hz). reflexivity.
  - destruct (Hv Hnz c i Hi) as (v & Ev). exact (g_qwt256_rank_prefetch_unchecked_sim w t c i v HR Hnl Ev).
Qed.
Theorem g_qwt512_rank_prefetch_unchecked_new : forall w s t, width_ok w -> Forall (fun x => x < 2 ^ w) s ->
  len s < RSQ_MAXN -> qwt_new w 512 s = Val t -> forall c i, i <= len s ->
  g_qwt512_rank_prefetch_unchecked w (q_n_levels t) (qwt_data t) (qwt_sbs t) (qwt_occs t) c i
  = g_qwt512_rank_unchecked w (q_n_levels t) (qwt_data t) (qwt_sbs t) (qwt_occs t) c i.
Proof.
  intros w s t Hwok HF Hn E c i Hi.
  destruct (pf_facts w 512 s t Hwok ltac:(auto) HF Hn E) as (HR & Hnl & Hqn & H0 & Hv).
  destruct (N.eq_dec (len s) 0) as [Hz|Hnz].
  - unfold g_qwt512_rank_prefetch_unchecked, g_qwt512_rank_unchecked. rewrite (H0 Hz). reflexivity.
  - destruct (Hv Hnz c i Hi) as (v & Ev). exact (g_qwt512_rank_prefetch_unchecked_sim w t c i v HR Hnl Ev).
Qed.

(* .. and with the precondition of the unsafe method it is the list specification *)
Corollary g_qwt256_rank_prefetch_unchecked_spec : forall w s t, width_ok w -> Forall (fun x => x < 2 ^ w) s ->
  len s < RSQ_MAXN -> qwt_new w 256 s = Val t -> forall c i, 0 < len s -> c <= maxN s -> i <= len s ->
  g_qwt256_rank_prefetch_unchecked w (q_n_levels t) (qwt_data t) (qwt_sbs t) (qwt_occs t) c i = Val (rank_spec s c i).
Proof.
  intros w s t Hwok HF Hn E c i Hp Hc Hi. rewrite (g_qwt256_rank_prefetch_unchecked_new w s t Hwok HF Hn E c i Hi).
  exact (g_qwt256_rank_unchecked_new w s t Hwok HF Hn E c i Hp Hc Hi).
Qed.
Corollary g_qwt512_rank_prefetch_unchecked_spec : forall w s t, width_ok w -> Forall (fun x => x < 2 ^ w) s ->
  len s < RSQ_MAXN -> qwt_new w 512 s = Val t -> forall c i, 0 < len s -> c <= maxN s -> i <= len s ->
  g_qwt512_rank_prefetch_unchecked w (q_n_levels t) (qwt_data t) (qwt_sbs t) (qwt_occs t) c i = Val (rank_spec s c i).
Proof.
  intros w s t Hwok HF Hn E c i Hp Hc Hi. rewrite (g_qwt512_rank_prefetch_unchecked_new w s t Hwok HF Hn E c i Hi).
  exact (g_qwt512_rank_unchecked_new w s t Hwok HF Hn E c i Hp Hc Hi).
Qed.

(* (2) the checked method: equal to the regenerated rank for EVERY symbol and EVERY i (out of range: both None) *)
Theorem g_qwt256_rank_prefetch_eq_rank : forall w s t, width_ok w -> Forall (fun x => x < 2 ^ w) s ->
  len s < RSQ_MAXN -> qwt_new w 256 s = Val t -> forall c i,
  g_qwt256_rank_prefetch w (q_n t) (q_n_levels t) (q_sigma t) (qwt_data t) (qwt_sbs t) (qwt_occs t) c i
  = g_qwt256_rank w (q_n t) (q_n_levels t) (q_sigma t) (qwt_data t) (qwt_sbs t) (qwt_occs t) c i.
Proof.
  intros w s t Hwok HF Hn E c i.
  destruct (pf_facts w 256 s t Hwok ltac:(auto) HF Hn E) as (HR & Hnl & Hqn & H0 & Hv).
  apply g_qwt256_rank_prefetch_sim; [exact HR|exact Hnl|]. rewrite Hqn. intros Hne Hi. now apply Hv.
Qed.
Theorem g_qwt512_rank_prefetch_eq_rank : forall w s t, width_ok w -> Forall (fun x => x < 2 ^ w) s ->
  len s < RSQ_MAXN -> qwt_new w 512 s = Val t -> forall c i,
  g_qwt512_rank_prefetch w (q_n t) (q_n_levels t) (q_sigma t) (qwt_data t) (qwt_sbs t) (qwt_occs t) c i
  = g_qwt512_rank w (q_n t) (q_n_levels t) (q_sigma t) (qwt_data t) (qwt_sbs t) (qwt_occs t) c i.
Proof.
  intros w s t Hwok HF Hn E c i.
  destruct (pf_facts w 512 s t Hwok ltac:(auto) HF Hn E) as (HR & Hnl & Hqn & H0 & Hv).
  apply g_qwt512_rank_prefetch_sim; [exact HR|exact Hnl|]. rewrite Hqn. intros Hne Hi. now apply Hv.
Qed.

Theorem g_qwt256_rank_prefetch_new : forall w s t, width_ok w -> Forall (fun x => x < 2 ^ w) s ->
  len s < RSQ_MAXN -> qwt_new w 256 s = Val t -> forall c i, c < 2 ^ w ->
  g_qwt256_rank_prefetch w (q_n t) (q_n_levels t) (q_sigma t) (qwt_data t) (qwt_sbs t) (qwt_occs t) c i
  = Val (if negb (len s =? 0) && (i <=? len s) && (c <=? maxN s) then Some (rank_spec s c i) else None).
Proof.
  intros w s t Hwok HF Hn E c i Hc. rewrite (g_qwt256_rank_prefetch_eq_rank w s t Hwok HF Hn E c i).
  exact (g_qwt256_rank_new w s t Hwok HF Hn E c i Hc).
Qed.
Theorem g_qwt512_rank_prefetch_new : forall w s t, width_ok w -> Forall (fun x => x < 2 ^ w) s ->
  len s < RSQ_MAXN -> qwt_new w 512 s = Val t -> forall c i, c < 2 ^ w ->
  g_qwt512_rank_prefetch w (q_n t) (q_n_levels t) (q_sigma t) (qwt_data t) (qwt_sbs t) (qwt_occs t) c i
  = Val (if negb (len s =? 0) && (i <=? len s) && (c <=? maxN s) then Some (rank_spec s c i) else None).
Proof.
  intros w s t Hwok HF Hn E c i Hc. rewrite (g_qwt512_rank_prefetch_eq_rank w s t Hwok HF Hn E c i).
  exact (g_qwt512_rank_new w s t Hwok HF Hn E c i Hc).
Qed.

(* ================================================================== (3) END TO END with the regenerated constructors *)
Theorem g_qwt256_ctors_rank_prefetch : forall k w s, width_ok w -> Forall (fun x => x < 2 ^ w) s ->
  len s < RSQ_MAXN ->
  exists n nl sg d p sb sm oc,
    qwt256_ctor k w s = Val (n, nl, sg, d, p, sb, sm, oc) /\
    (forall c i, c < 2 ^ w ->
       g_qwt256_rank_prefetch w n nl sg d sb oc c i
       = Val (if negb (len s =? 0) && (i <=? len s) && (c <=? maxN s) then Some (rank_spec s c i) else None) /\
       g_qwt256_rank_prefetch w n nl sg d sb oc c i = g_qwt256_rank w n nl sg d sb oc c i) /\
    (forall c i, i <= len s ->
       g_qwt256_rank_prefetch_unchecked w nl d sb oc c i = g_qwt256_rank_unchecked w nl d sb oc c i) /\
    (forall c i, 0 < len s -> c <= maxN s -> i <= len s ->
       g_qwt256_rank_prefetch_unchecked w nl d sb oc c i = Val (rank_spec s c i)).
Proof.
  intros k w s Hw HF Hn.
  destruct (qwt_new_correct w 256 s Hw (or_introl eq_refl) HF Hn) as (t & Et & _).
  destruct (g_qwt256_new_sim_closed w s t Hw HF Hn Et) as (s' & G & _).
  exists (q_n t), (q_n_levels t), (q_sigma t), (qwt_data t), (qwt_pos t), (qwt_sbs t), (qwt_samples t), (qwt_occs t).
  split; [|split; [|split]].
  - unfold qwt256_ctor. rewrite g_qwt256_from_vec_new, g_qwt256_from_iter_new, G.
    destruct (k =? 0); [reflexivity|]. destruct (k =? 1); reflexivity.
  - intros c i Hc. split; [exact (g_qwt256_rank_prefetch_new w s t Hw HF Hn Et c i Hc)|].
    exact (g_qwt256_rank_prefetch_eq_rank w s t Hw HF Hn Et c i).
  - exact (g_qwt256_rank_prefetch_unchecked_new w s t Hw HF Hn Et).
  - exact (g_qwt256_rank_prefetch_unchecked_spec w s t Hw HF Hn Et).
Qed.

Theorem g_qwt512_ctors_rank_prefetch : forall k w s, width_ok w -> Forall (fun x => x < 2 ^ w) s ->
  len s < RSQ_MAXN ->
  exists n nl sg d p sb sm oc,
    qwt512_ctor k w s = Val (n, nl, sg, d, p, sb, sm, oc) /\
    (forall c i, c < 2 ^ w ->
       g_qwt512_rank_prefetch w n nl sg d sb oc c i
       = Val (if negb (len s =? 0) && (i <=? len s) && (c <=? maxN s) then Some (rank_spec s c i) else None) /\
       g_qwt512_rank_prefetch w n nl sg d sb oc c i = g_qwt512_rank w n nl sg d sb oc c i) /\
    (forall c i, i <= len s ->
       g_qwt512_rank_prefetch_unchecked w nl d sb oc c i = g_qwt512_rank_unchecked w nl d sb oc c i) /\
    (forall c i, 0 < len s -> c <= maxN s -> i <= len s ->
       g_qwt512_rank_prefetch_unchecked w nl d sb oc c i = Val (rank_spec s c i)).
Proof.
  intros k w s Hw HF Hn.
  destruct (qwt_new_correct w 512 s Hw (or_intror eq_refl) HF Hn) as (t & Et & _).
  destruct (g_qwt512_new_sim_closed w s t Hw HF Hn Et) as (s' & G & _).
  exists (q_n t), (q_n_levels t), (q_sigma t), (qwt_data t), (qwt_pos t), (qwt_sbs t), (qwt_samples t), (qwt_occs t).
  split; [|split; [|split]].
  - unfold qwt512_ctor. rewrite g_qwt512_from_vec_new, g_qwt512_from_iter_new, G.
    destruct (k =? 0); [reflexivity|]. destruct (k =? 1); reflexivity.
  - intros c i Hc. split; [exact (g_qwt512_rank_prefetch_new w s t Hw HF Hn Et c i Hc)|].
    exact (g_qwt512_rank_prefetch_eq_rank w s t Hw HF Hn Et c i).
  - exact (g_qwt512_rank_prefetch_unchecked_new w s t Hw HF Hn Et).
  - exact (g_qwt512_rank_prefetch_unchecked_spec w s t Hw HF Hn Et).
Qed.

(* ================================================================== (4) non-vacuity (vm_compute) *)
(* 300 u8 symbols (maximum 194: 4 levels); (c, i) with i = len, i = len + 1, symbols above sigma *)
Definition pf_example_queries : list (N * N) :=
  [(0, 0); (0, 300); (0, 301); (72, 4); (72, 299); (72, 300); (72, 301); (194, 300); (3, 257); (200, 300); (255, 17);
   (194, 1000)].
Definition pf_example_spec : N * N -> outcome (option N) := fun '(c, i) =>
  Val (if (i <=? 300) && (c <=? 194) then Some (rank_spec g_qwt_new_example_input c i) else None).

Example g_qwt256_rank_prefetch_example :
  match qwt256_ctor 0 8 g_qwt_new_example_input with
  | Val (n, nl, sg, d, p, sb, sm, oc) =>
      n = 300 /\ nl = 4 /\ sg = 194 /\
      map (fun '(c, i) => g_qwt256_rank_prefetch 8 n nl sg d sb oc c i) pf_example_queries
      = map (fun '(c, i) => g_qwt256_rank 8 n nl sg d sb oc c i) pf_example_queries /\
      map (fun '(c, i) => g_qwt256_rank_prefetch 8 n nl sg d sb oc c i) pf_example_queries
      = map pf_example_spec pf_example_queries /\
      map (fun '(c, i) => g_qwt256_rank_prefetch 8 n nl sg d sb oc c i) pf_example_queries
      = [Val (Some 0); Val (Some 7); Val None; Val (Some 1); Val (Some 16); Val (Some 16); Val None;
         Val (Some 6); Val (Some 0); Val None; Val None; Val None] /\
      g_qwt256_rank_prefetch_unchecked 8 nl d sb oc 72 300 = Val 16 /\
      g_qwt256_rank_prefetch_unchecked 8 nl d sb oc 255 300 = g_qwt256_rank_unchecked 8 nl d sb oc 255 300
  | _ => False
  end.
Proof. vm_compute. repeat split; reflexivity. Qed.

Example g_qwt512_rank_prefetch_example :
  match qwt512_ctor 0 8 g_qwt_new_example_input with
  | Val (n, nl, sg, d, p, sb, sm, oc) =>
      n = 300 /\ nl = 4 /\ sg = 194 /\
      map (fun '(c, i) => g_qwt512_rank_prefetch 8 n nl sg d sb oc c i) pf_example_queries
      = map (fun '(c, i) => g_qwt512_rank 8 n nl sg d sb oc c i) pf_example_queries /\
      map (fun '(c, i) => g_qwt512_rank_prefetch 8 n nl sg d sb oc c i) pf_example_queries
      = map pf_example_spec pf_example_queries /\
      map (fun '(c, i) => g_qwt512_rank_prefetch 8 n nl sg d sb oc c i) pf_example_queries
      = [Val (Some 0); Val (Some 7); Val None; Val (Some 1); Val (Some 16); Val (Some 16); Val None;
         Val (Some 6); Val (Some 0); Val None; Val None; Val None] /\
      g_qwt512_rank_prefetch_unchecked 8 nl d sb oc 72 300 = Val 16 /\
      g_qwt512_rank_prefetch_unchecked 8 nl d sb oc 255 300 = g_qwt512_rank_unchecked 8 nl d sb oc 255 300
  | _ => False
  end.
Proof. vm_compute. repeat split; reflexivity. Qed.

(* ------------------------------------------------------------------ summary / findings
   GENERIC TEXT. G_pf_inner / G_pf_body / G_pf_unchecked / G_pf (Section GenericPf) is the text of Gen/FnsQwtnew.v with
     g_rsqNNN_occs_smaller_unchecked, g_rsqNNN_rank_block_unchecked and g_qwtNNN_rank_unchecked abstracted; the
     [exact] of the four instance theorems checks it convertible to BOTH generated families.
   SIMULATION (pf_loop_sim): one generated loop step against one step of qwt_estimate_walk.  Hypotheses:
     Forall lvl_rank_ok qvs (superblock words < 2^128: a block rank is < 2^44 + 4096; n_occs_smaller entries < 2^63),
     shift < 2^63, level + remaining iterations <= 2^32.  No bound on the current range is needed: the new range is
     rank_block + offset < 2^63 + 2^45, so that `range + 256` and `range.end + 2*256 + i*256` (i < level <= 2^32)
     stay below 2^64; `level + 1` is the index the hand model checks too (idx qvs (level + 1)); the i64 shift is the
     hand model's N shift (>= 2 while an iteration remains: the hand model's `osub shift 2`).
     g_rsqNNN_rank_block_unchecked / g_rsqNNN_occs_smaller_unchecked are EQUAL to the hand functions without any
     hypothesis (FnsRsqOk.v), so the simulated loop has the same reads in the same order.
   RESULT. g_qwtNNN_rank_prefetch_unchecked_sim: wherever the hand model's rank_prefetch_unchecked returns a value,
     the regenerated rank_prefetch_unchecked is EQUAL (faults of the final rank included) to the regenerated
     rank_unchecked.  On every tree qwt_new builds (qwt_new_prefetch_unchecked_val, from QWTWalk.estimate_ok /
     rank_final: the estimates stay <= len since rank_block <= rank <= count and count + occs_smaller <= len) this
     holds for EVERY symbol, also above sigma and above 2^w, and every i <= len; for the empty tree (n_levels = 0)
     both sides are the same Fault Overflow of `n_levels - 1` (the precondition of the unsafe method excludes it).
   MISMATCHES: none found. *)

Print Assumptions qwt_new_prefetch_unchecked_val.
Print Assumptions g_qwt256_rank_prefetch_unchecked_sim.
Print Assumptions g_qwt512_rank_prefetch_unchecked_sim.
Print Assumptions g_qwt256_rank_prefetch_sim.
Print Assumptions g_qwt512_rank_prefetch_sim.
Print Assumptions g_qwt256_rank_prefetch_unchecked_new.
Print Assumptions g_qwt512_rank_prefetch_unchecked_new.
Print Assumptions g_qwt256_rank_prefetch_unchecked_spec.
Print Assumptions g_qwt512_rank_prefetch_unchecked_spec.
Print Assumptions g_qwt256_rank_prefetch_eq_rank.
Print Assumptions g_qwt512_rank_prefetch_eq_rank.
Print Assumptions g_qwt256_rank_prefetch_new.
Print Assumptions g_qwt512_rank_prefetch_new.
Print Assumptions g_qwt256_ctors_rank_prefetch.
Print Assumptions g_qwt512_ctors_rank_prefetch.
Print Assumptions g_qwt256_rank_prefetch_example.
Print Assumptions g_qwt512_rank_prefetch_example.
