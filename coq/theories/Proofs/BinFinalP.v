(* End-to-end statements for the binary rank/select structures: RSNarrow / RSWide (RSBinP.v) and
   DArray (DArrayP.v) glued to the bit vector refinement (BitVecP.v).  The theorems start from plain
   inputs (a list of booleans, a list of positions, or any state satisfying the BitVectorMut
   invariant [bv_inv]) instead of from an abstract well-formed bit vector.

   The only premises left are the two word-level facts about [select_in_word] and [popcount]
   (Section hypotheses; they are proved separately). *)
From Coq Require Import ZArith Lia ZifyBool ZifyN ZifyNat Sorted.
From QwtModel Require Import ListX Consts Words BitVec RSBin DArrayM Seq ListXP BitsLib BitVecW BitVecIter BitVecP.
(* RSBinB / DArrayP both define a [bv_wf], and restate [bv_get_correct] etc.: qualified names only *)
From QwtModel Require RSBinB RSBinP DArrayL DArrayB DArrayP.
Ltac Zify.zify_post_hook ::= Z.div_mod_to_equations.
Arguments N.add : simpl never.
Arguments N.sub : simpl never.
Arguments N.mul : simpl never.
Arguments N.eqb : simpl never.
Arguments N.ltb : simpl never.
Arguments N.leb : simpl never.
Arguments N.pred : simpl never.
Arguments N.of_nat : simpl never.
Arguments N.land : simpl never.
Arguments N.lor : simpl never.
Arguments N.shiftr : simpl never.
Arguments N.div : simpl never.
Arguments N.modulo : simpl never.
Arguments N.pow : simpl never.

Notation bin_spec := RSBinP.bin_spec.
Notation da_spec := DArrayP.da_spec.
Notation positions_of := DArrayP.positions_of.

(* ================================================================== forgetting bv_nones *)
(* the same words and length, with the ones counter set to the right value *)
Definition fix_nones (b : bitvec) : bitvec :=
  {| bv_words := bv_words b; bv_nbits := bv_nbits b; bv_nones := countb (bv_abs b) |}.

Lemma fix_nones_abs b : bv_abs (fix_nones b) = bv_abs b.
Proof. reflexivity. Qed.

Lemma fix_nones_get b i : bv_get (fix_nones b) i = bv_get b i.
Proof. reflexivity. Qed.

Lemma fix_nones_pi_next bit b st : pi_next bit (fix_nones b) st = pi_next bit b st.
Proof. reflexivity. Qed.

Lemma fix_nones_pi_collect bit b : forall fuel st,
  pi_collect bit (fix_nones b) st fuel = pi_collect bit b st fuel.
Proof.
  induction fuel as [|fuel IH]; intros st; cbn [pi_collect]; [reflexivity|].
  rewrite fix_nones_pi_next. destruct (pi_next bit b st) as [[p|] st']; [|reflexivity].
  now rewrite IH.
Qed.

(* a vector that is well formed in the sense of the DArray files satisfies [bv_inv] once the ones
   counter is repaired *)
Lemma wf_da_fix_inv b : DArrayP.bv_wf b -> bv_inv (fix_nones b).
Proof.
  intros (H1 & H2 & H3 & H4). unfold bv_inv. rewrite fix_nones_abs.
  cbn [fix_nones bv_words bv_nbits bv_nones]. repeat split; assumption.
Qed.

(* ================================================================== the two position specifications *)
Lemma positions_of_filter bit : forall l pos,
  positions_of bit l pos =
  filter (fun p => Bool.eqb (nthb l (p - pos)) bit) (seqN pos (length l)).
Proof.
  induction l as [|x l IH]; intros pos; cbn [DArrayP.positions_of length seqN filter]; [reflexivity|].
  replace (pos - pos) with 0 by lia. unfold nthb at 1. rewrite nthN_0.
  rewrite IH.
  assert (Et : filter (fun p => Bool.eqb (nthb (x :: l) (p - pos)) bit) (seqN (pos + 1) (length l)) =
               filter (fun p => Bool.eqb (nthb l (p - (pos + 1))) bit) (seqN (pos + 1) (length l))).
  { apply filter_ext_in. intros p Hp. apply in_seqN in Hp. unfold nthb.
    rewrite nthN_cons_pos by lia. replace (p - pos - 1) with (p - (pos + 1)) by lia. reflexivity. }
  rewrite Et. destruct (Bool.eqb x bit); reflexivity.
Qed.

(* ================================================================== extend-by-positions, as a set *)
Lemma ext_pos_step_len l p : len (ext_pos_step l p) = N.max (len l) (p + 1).
Proof.
  unfold ext_pos_step. rewrite setN_len. destruct (N.leb_spec (len l) p) as [H|H].
  - rewrite len_app, len_repeat. lia.
  - lia.
Qed.

Lemma ext_pos_step_nthb l p j : nthb (ext_pos_step l p) j = (j =? p) || nthb l j.
Proof.
  unfold ext_pos_step. rewrite nthb_setN.
  destruct (N.leb_spec (len l) p) as [H|H].
  - rewrite len_app, len_repeat, nthb_app_false.
    destruct (N.ltb_spec p (len l + N.of_nat (N.to_nat (p + 1 - len l)))) as [_|H']; [|lia].
    destruct (j =? p); reflexivity.
  - destruct (N.ltb_spec p (len l)) as [_|H']; [|lia].
    destruct (j =? p); reflexivity.
Qed.

(* for ANY list of positions: the length is the largest position + 1, bit j is set iff j is listed *)
Lemma ext_pos_fold_len : forall ps l,
  len (fold_left ext_pos_step ps l) = N.max (len l) (maxN (map (fun p => p + 1) ps)).
Proof.
  induction ps as [|p ps IH]; intros l; cbn [fold_left map maxN]; [lia|].
  rewrite IH, ext_pos_step_len. lia.
Qed.

Lemma ext_pos_fold_nthb : forall ps l j,
  nthb (fold_left ext_pos_step ps l) j = nthb l j || existsb (N.eqb j) ps.
Proof.
  induction ps as [|p ps IH]; intros l j; cbn [fold_left existsb].
  - now rewrite orb_false_r.
  - rewrite IH, ext_pos_step_nthb. destruct (j =? p), (nthb l j); reflexivity.
Qed.

(* one past the last position (0 for the empty list) *)
Definition pos_len (ps : list N) : N := match last_opt ps with Some p => p + 1 | None => 0 end.

Lemma strictly_increasing_max : forall ps, strictly_increasing ps = true ->
  maxN (map (fun p => p + 1) ps) = pos_len ps.
Proof.
  unfold pos_len. induction ps as [|x ps IH]; intros H; [reflexivity|].
  destruct ps as [|y r]; [cbn [map maxN last_opt]; lia|].
  change (strictly_increasing (x :: y :: r)) with ((x <? y) && strictly_increasing (y :: r)) in H.
  apply andb_true_iff in H. destruct H as (Hxy & Hr). specialize (IH Hr).
  change (last_opt (x :: y :: r)) with (last_opt (y :: r)).
  change (maxN (map (fun p => p + 1) (x :: y :: r))) with (N.max (x + 1) (maxN (map (fun p => p + 1) (y :: r)))).
  rewrite IH. cbn [map maxN] in IH. apply N.ltb_lt in Hxy. lia.
Qed.

(* the list built by `extend_with_positions` on the empty vector, for ANY positions *)
Theorem ext_pos_char_gen : forall ps i,
  nthN (op_spec [] (OExtPos ps)) i =
  if i <? maxN (map (fun p => p + 1) ps) then Some (existsb (N.eqb i) ps) else None.
Proof.
  intros ps i. cbn [op_spec].
  pose proof (ext_pos_fold_len ps []) as Hl. rewrite len_nil in Hl.
  pose proof (ext_pos_fold_nthb ps [] i) as Hb.
  destruct (N.ltb_spec i (maxN (map (fun p => p + 1) ps))) as [Hi|Hi].
  - rewrite nthN_nthb by lia. rewrite Hb. reflexivity.
  - apply nthN_none. lia.
Qed.

(* strictly increasing positions: the characteristic vector of the set, of length last + 1 *)
Theorem ext_pos_char : forall ps, strictly_increasing ps = true -> forall i,
  nthN (op_spec [] (OExtPos ps)) i = if i <? pos_len ps then Some (existsb (N.eqb i) ps) else None.
Proof. intros ps H i. rewrite ext_pos_char_gen, strictly_increasing_max by exact H. reflexivity. Qed.

Corollary ext_pos_len : forall ps, strictly_increasing ps = true ->
  len (op_spec [] (OExtPos ps)) = pos_len ps.
Proof.
  intros ps H. cbn [op_spec]. rewrite ext_pos_fold_len, len_nil, strictly_increasing_max by exact H. lia.
Qed.

Corollary ext_pos_In : forall ps, strictly_increasing ps = true -> forall i,
  nthN (op_spec [] (OExtPos ps)) i = Some true <-> In i ps.
Proof.
  intros ps H i. rewrite ext_pos_char by exact H.
  assert (Hin : In i ps -> i < pos_len ps).
  { intros Hi. rewrite <- strictly_increasing_max by exact H.
    clear H. induction ps as [|x ps IH]; [destruct Hi|]. cbn [map maxN].
    destruct Hi as [->|Hi]; [lia|]. specialize (IH Hi). lia. }
  split.
  - destruct (i <? pos_len ps); [|discriminate]. intros E. injection E as E.
    apply existsb_exists in E. destruct E as (x & Hx & Ex). apply N.eqb_eq in Ex. now subst.
  - intros Hi. destruct (N.ltb_spec i (pos_len ps)) as [_|Hge]; [|specialize (Hin Hi); lia].
    f_equal. apply existsb_exists. exists i. split; [exact Hi|apply N.eqb_refl].
Qed.

Section Final.
Hypothesis select_in_word_correct : forall w k, w < 2 ^ 64 -> k < 128 ->
  select_in_word w k = Val (match select_spec (bits_of 64 w) 1 k with Some p => p | None => 64 end).
Hypothesis popcount_correct : forall n x, x < 2 ^ N.of_nat n -> popcount x = countN 1 (bits_of n x).

(* ================================================================== 1. bridges *)
Lemma bv_inv_wf_rs : forall b, bv_inv b -> bv_nbits b < 2 ^ 43 -> RSBinB.bv_wf b.
Proof. intros b (H1 & H2 & H3 & _ & _) H43. unfold RSBinB.bv_wf. repeat split; assumption. Qed.

Lemma bv_inv_wf_da : forall b, bv_inv b -> DArrayP.bv_wf b.
Proof. intros b (H1 & H2 & H3 & _ & H63). unfold DArrayP.bv_wf. repeat split; assumption. Qed.

(* the two specifications of the position iterator agree *)
Lemma positions_from_of : forall bit l, positions_from bit l 0 = positions_of bit l 0.
Proof.
  intros bit l. rewrite positions_of_filter. unfold positions_from. apply filter_ext.
  intros p. rewrite N.sub_0_r. destruct (N.leb_spec 0 p) as [_|H]; [reflexivity|lia].
Qed.

(* the bit-vector premises of the DArray theorems *)
Lemma pi_collect_new_wf : forall bit b fuel, DArrayP.bv_wf b -> bv_nbits b < N.of_nat fuel ->
  pi_collect bit b pi_new fuel = positions_of bit (bv_abs b) 0.
Proof.
  intros bit b fuel Hwf Hfuel. pose proof (wf_da_fix_inv b Hwf) as Hinv.
  rewrite <- fix_nones_pi_collect, <- positions_from_of, <- (fix_nones_abs b).
  apply (pi_collect_correct bit (fix_nones b) 0 fuel Hinv).
  rewrite (inv_len _ Hinv). exact Hfuel.
Qed.

Lemma bv_get_wf : forall b i, DArrayP.bv_wf b -> bv_get b i = Val (nthN (bv_abs b) i).
Proof.
  intros b i Hwf. rewrite <- fix_nones_get, <- (fix_nones_abs b).
  apply BitVecP.bv_get_correct. apply wf_da_fix_inv. exact Hwf.
Qed.

Lemma bv_from_bools_wf : forall bs, len bs < 2 ^ 63 ->
  exists b, bv_from_bools bs = Val b /\ DArrayP.bv_wf b /\ bv_abs b = bs.
Proof.
  intros bs H. destruct (bv_from_bools_correct bs H) as (b & E & Hinv & Habs).
  exists b. split; [exact E|]. split; [apply bv_inv_wf_da; exact Hinv|exact Habs].
Qed.

(* ================================================================== 2. RSNarrow / RSWide *)
(* from any reachable BitVectorMut state (below the 2^43 bits these structures support) *)
Theorem rsn_of_inv_correct : forall bv, bv_inv bv -> bv_nbits bv < 2 ^ 43 ->
  exists r, rsn_new bv = Val r /\ rsn_bv r = bv /\
    bin_spec (bv_abs bv) (rsn_get r) (rsn_rank1 r) (rsn_rank0 r) (rsn_select1 r) (rsn_select0 r) (rsn_n_ones r) (rsn_n_zeros r) /\
    (forall i, 0 < len (bv_abs bv) -> i <= len (bv_abs bv) -> rsn_rank1_unchecked r i = Val (rank1_spec (bv_abs bv) i)) /\
    (forall k p, select1_spec (bv_abs bv) k = Some p -> rsn_select_unchecked true r k = Val p) /\
    (forall k p, select0_spec (bv_abs bv) k = Some p -> rsn_select_unchecked false r k = Val p).
Proof.
  intros bv Hinv H43.
  exact (RSBinP.rsn_correct select_in_word_correct popcount_correct bv (bv_inv_wf_rs bv Hinv H43)).
Qed.

Theorem rsw_of_inv_correct : forall bv, bv_inv bv -> bv_nbits bv < 2 ^ 43 ->
  exists r, rsw_new bv = Val r /\ rsw_bv r = bv /\
    bin_spec (bv_abs bv) (rsw_get r) (rsw_rank1 r) (rsw_rank0 r) (rsw_select1 r) (rsw_select0 r) (rsw_n_ones r) (Val (rsw_n_zeros_q r)) /\
    (forall i, 0 < len (bv_abs bv) -> i <= len (bv_abs bv) ->
       rsw_rank1_unchecked r i = Val (rank1_spec (bv_abs bv) i) /\ rsw_rank0_unchecked r i = Val (rank0_spec (bv_abs bv) i)) /\
    (forall k p, select1_spec (bv_abs bv) k = Some p -> rsw_select_unchecked true r k = Val p) /\
    (forall k p, select0_spec (bv_abs bv) k = Some p -> rsw_select_unchecked false r k = Val p).
Proof.
  intros bv Hinv H43.
  exact (RSBinP.rsw_correct select_in_word_correct popcount_correct bv (bv_inv_wf_rs bv Hinv H43)).
Qed.

(* built from any list of booleans (FromIterator<bool> for BitVector, then From<BitVector>) *)
Theorem rsn_of_bools_correct : forall bs, len bs < 2 ^ 43 ->
  exists bv r, bv_from_bools bs = Val bv /\ rsn_new bv = Val r /\
    bin_spec bs (rsn_get r) (rsn_rank1 r) (rsn_rank0 r) (rsn_select1 r) (rsn_select0 r) (rsn_n_ones r) (rsn_n_zeros r) /\
    (forall i, 0 < len bs -> i <= len bs -> rsn_rank1_unchecked r i = Val (rank1_spec bs i)) /\
    (forall k p, select1_spec bs k = Some p -> rsn_select_unchecked true r k = Val p) /\
    (forall k p, select0_spec bs k = Some p -> rsn_select_unchecked false r k = Val p).
Proof.
  intros bs Hl. assert (Hl63 : len bs < 2 ^ 63) by lia.
  destruct (bv_from_bools_correct bs Hl63) as (bv & E & Hinv & Habs).
  assert (H43 : bv_nbits bv < 2 ^ 43) by (rewrite <- (inv_len bv Hinv), Habs; exact Hl).
  destruct (rsn_of_inv_correct bv Hinv H43) as (r & Er & _ & Hspec). rewrite Habs in Hspec.
  exists bv, r. split; [exact E|]. split; [exact Er|exact Hspec].
Qed.

Theorem rsw_of_bools_correct : forall bs, len bs < 2 ^ 43 ->
  exists bv r, bv_from_bools bs = Val bv /\ rsw_new bv = Val r /\
    bin_spec bs (rsw_get r) (rsw_rank1 r) (rsw_rank0 r) (rsw_select1 r) (rsw_select0 r) (rsw_n_ones r) (Val (rsw_n_zeros_q r)) /\
    (forall i, 0 < len bs -> i <= len bs ->
       rsw_rank1_unchecked r i = Val (rank1_spec bs i) /\ rsw_rank0_unchecked r i = Val (rank0_spec bs i)) /\
    (forall k p, select1_spec bs k = Some p -> rsw_select_unchecked true r k = Val p) /\
    (forall k p, select0_spec bs k = Some p -> rsw_select_unchecked false r k = Val p).
Proof.
  intros bs Hl. assert (Hl63 : len bs < 2 ^ 63) by lia.
  destruct (bv_from_bools_correct bs Hl63) as (bv & E & Hinv & Habs).
  assert (H43 : bv_nbits bv < 2 ^ 43) by (rewrite <- (inv_len bv Hinv), Habs; exact Hl).
  destruct (rsw_of_inv_correct bv Hinv H43) as (r & Er & _ & Hspec). rewrite Habs in Hspec.
  exists bv, r. split; [exact E|]. split; [exact Er|exact Hspec].
Qed.

(* ================================================================== 3. DArray *)
Theorem da_of_inv_correct : forall s0 bv, bv_inv bv ->
  exists d, da_new s0 bv = Val d /\ da_bv d = bv /\ da_spec s0 d (bv_abs bv).
Proof.
  intros s0 bv Hinv.
  exact (DArrayP.da_new_correct select_in_word_correct popcount_correct pi_collect_new_wf bv_get_wf
           s0 bv (bv_inv_wf_da bv Hinv)).
Qed.

Theorem da_of_bools_correct : forall s0 bs, len bs < 2 ^ 63 ->
  exists d, da_from_bools s0 bs = Val d /\ da_spec s0 d bs.
Proof.
  exact (DArrayP.da_from_bools_correct select_in_word_correct popcount_correct pi_collect_new_wf bv_get_wf
           bv_from_bools_wf).
Qed.

(* position-list constructor: strictly increasing positions below 2^63 - 1 *)
Theorem da_of_positions_correct : forall s0 ps, strictly_increasing ps = true ->
  Forall (fun p => p < 2 ^ 63 - 1) ps ->
  exists d, da_from_positions s0 ps = Val d /\ da_spec s0 d (op_spec [] (OExtPos ps)).
Proof.
  intros s0 ps Hinc HF. destruct (bv_from_positions_correct ps HF) as (bv & E & Hinv & Habs).
  destruct (da_of_inv_correct s0 bv Hinv) as (d & Ed & _ & Hspec).
  exists d. unfold da_from_positions. rewrite Hinc. cbn [oassert bind]. rewrite E. cbn [bind].
  rewrite <- Habs. split; [exact Ed|exact Hspec].
Qed.

(* ... and the documented panic otherwise (DArrayP.da_from_positions_panics): together, for
   positions below 2^63 - 1 the constructor panics iff the list is not strictly increasing *)
Theorem da_of_positions_total : forall s0 ps, Forall (fun p => p < 2 ^ 63 - 1) ps ->
  if strictly_increasing ps
  then exists d, da_from_positions s0 ps = Val d /\ da_spec s0 d (op_spec [] (OExtPos ps))
  else da_from_positions s0 ps = Fault Panic.
Proof.
  intros s0 ps HF. destruct (strictly_increasing ps) eqn:E.
  - apply da_of_positions_correct; assumption.
  - apply DArrayP.da_from_positions_panics. exact E.
Qed.

End Final.

Print Assumptions ext_pos_char_gen.
Print Assumptions ext_pos_char.
Print Assumptions ext_pos_len.
Print Assumptions ext_pos_In.
Print Assumptions bv_inv_wf_rs.
Print Assumptions bv_inv_wf_da.
Print Assumptions positions_from_of.
Print Assumptions pi_collect_new_wf.
Print Assumptions bv_get_wf.
Print Assumptions bv_from_bools_wf.
Print Assumptions rsn_of_inv_correct.
Print Assumptions rsw_of_inv_correct.
Print Assumptions rsn_of_bools_correct.
Print Assumptions rsw_of_bools_correct.
Print Assumptions da_of_inv_correct.
Print Assumptions da_of_bools_correct.
Print Assumptions da_of_positions_correct.
Print Assumptions da_of_positions_total.
