(* C09 helper 2: PrefetchSupport::new never faults and approx_rank_unchecked is characterised
   exactly: defined iff i < 2048 * npush D, and then equal to [pfs_val D c i]. *)
From Coq Require Import ZArith Lia ZifyBool ZifyN ZifyNat.
From QwtModel Require Import ListX Seq Consts RSBin Prefetch ListXP RSQList RSBinB RSBinP BitVecP PrefetchL.
Ltac Zify.zify_post_hook ::= Z.div_mod_to_equations.
Arguments N.add : simpl never.
Arguments N.sub : simpl never.
Arguments N.mul : simpl never.
Arguments N.eqb : simpl never.
Arguments N.ltb : simpl never.
Arguments N.leb : simpl never.
Arguments N.pred : simpl never.
Arguments N.of_nat : simpl never.
Arguments N.land : simpl never.
Arguments N.lor : simpl never.
Arguments N.shiftr : simpl never.
Arguments N.shiftl : simpl never.
Arguments N.div : simpl never.
Arguments N.modulo : simpl never.
Arguments N.pow : simpl never.
Arguments N.min : simpl never.

Lemma bv_inv_wf b : bv_inv b -> bv_nbits b < 2 ^ 43 -> bv_wf b.
Proof. intros (H1 & H2 & H3 & _ & _) H. repeat split; assumption. Qed.

(* the value approx_rank_unchecked(c, i) returns on a level with content D *)
Definition pfs_val (D : list N) (c i : N) : N :=
  rk D c (N.min (len D) (2048 * (i / 2048) + 1)) / 2048 * 2048.
(* first position at which approx_rank_unchecked panics *)
Definition pfs_bound (D : list N) : N := 2048 * npush D.

Lemma pfs_val_le_rank D c i : pfs_val D c i <= rk D c (N.min (len D) (i + 1)).
Proof.
  unfold pfs_val.
  pose proof (rk_mono D c (N.min (len D) (2048 * (i / 2048) + 1)) (N.min (len D) (i + 1)) ltac:(lia)) as H.
  revert H. generalize (rk D c (N.min (len D) (2048 * (i / 2048) + 1))). intros x H. lia.
Qed.
Lemma pfs_val_le_count D c i : pfs_val D c i <= countN c D.
Proof. pose proof (pfs_val_le_rank D c i). pose proof (rk_le_count D c (N.min (len D) (i + 1))). lia. Qed.
Lemma pfs_val_mono D c i j : i <= j -> pfs_val D c i <= pfs_val D c j.
Proof.
  intros Hij. unfold pfs_val.
  pose proof (rk_mono D c (N.min (len D) (2048 * (i / 2048) + 1)) (N.min (len D) (2048 * (j / 2048) + 1)) ltac:(lia)) as H.
  revert H. generalize (rk D c (N.min (len D) (2048 * (i / 2048) + 1))),
                       (rk D c (N.min (len D) (2048 * (j / 2048) + 1))). intros x y H. lia.
Qed.
(* at most one above the exact rank; the excess 1 occurs (see pfs_val_above_rank in PrefetchP.v) *)
Lemma pfs_val_le_rank1 D c i : pfs_val D c i <= rk D c i + 1.
Proof.
  pose proof (pfs_val_le_rank D c i) as H.
  pose proof (rk_mono D c (N.min (len D) (i + 1)) (i + 1) ltac:(lia)) as H1.
  pose proof (rk_lip D c i 1). lia.
Qed.

Definition pfs_spec (p : pfsupport) (D : list N) : Prop :=
  pf_shift p = 11 /\ len (pf_samples p) = 4 /\
  forall c i, c < 4 ->
    pfs_approx_rank p c i = if i <? pfs_bound D then Val (pfs_val D c i) else Fault Panic.

Section PfsNew.
Hypothesis select_in_word_correct : forall w k, w < 2 ^ 64 -> k < 128 ->
  select_in_word w k = Val (match select_spec (bits_of 64 w) 1 k with Some p => p | None => 64 end).
Hypothesis popcount_correct : forall n x, x < 2 ^ N.of_nat n -> popcount x = countN 1 (bits_of n x).

Lemma sample_ok B : len B < 2 ^ 43 ->
  exists r, (let! b := bv_from_bools B in rsn_new b) = Val r /\
    forall J, rsn_rank1 r J = Val (if negb (len B =? 0) && (J <=? len B) then Some (rank1_spec B J) else None).
Proof.
  intros HB.
  destruct (bv_from_bools_correct B) as (b & Eb & Hinv & Habs).
  { assert (2 ^ 43 < 2 ^ 63) by reflexivity. lia. }
  assert (Hwf : bv_wf b).
  { apply bv_inv_wf; [exact Hinv|]. rewrite <- (inv_len b Hinv), Habs. exact HB. }
  destruct (rsn_correct select_in_word_correct popcount_correct b Hwf) as (r & Er & _ & Hspec & _).
  exists r. rewrite Eb. cbn [bind]. split; [exact Er|].
  destruct Hspec as (_ & Hr1 & _). rewrite Habs in Hr1. exact Hr1.
Qed.

Theorem pfs_new_spec : forall D, Forall (fun x => x < 4) D -> len D < 2 ^ 43 ->
  exists p, pfs_new D 11 = Val p /\ pfs_spec p D.
Proof.
  intros D HF Hlen. unfold pfs_new.
  change (oshl 64 1 11) with (Val 2048). cbn [bind].
  rewrite (pfs_loop_final D HF). cbn [bind]. unfold pack. cbn [ps_bvs mapo].
  fold (cbits D 0). fold (cbits D 1). fold (cbits D 2). fold (cbits D 3).
  assert (HB : forall c, len (cbits D c) < 2 ^ 43).
  { intros c. rewrite cbits_len. pose proof (npush_le D).
    change (2 ^ 43) with 8796093022208 in *. lia. }
  destruct (sample_ok (cbits D 0) (HB 0)) as (r0 & E0 & H0).
  destruct (sample_ok (cbits D 1) (HB 1)) as (r1 & E1 & H1).
  destruct (sample_ok (cbits D 2) (HB 2)) as (r2 & E2 & H2).
  destruct (sample_ok (cbits D 3) (HB 3)) as (r3 & E3 & H3).
  rewrite E0. cbn [bind]. rewrite E1. cbn [bind]. rewrite E2. cbn [bind]. rewrite E3. cbn [bind].
  eexists. split; [reflexivity|].
  unfold pfs_spec. cbn [pf_shift pf_samples]. split; [reflexivity|]. split; [reflexivity|].
  intros c i Hc. unfold pfs_approx_rank. cbn [pf_shift pf_samples].
  unfold oshr. change (11 <? 64) with true. cbv iota. cbn [bind].
  change (oshl 64 1 11) with (Val 2048). cbn [bind].
  rewrite N.shiftr_div_pow2. change (2 ^ 11) with 2048.
  assert (G : forall r, (forall J, rsn_rank1 r J =
                 Val (if negb (len (cbits D c) =? 0) && (J <=? len (cbits D c))
                      then Some (rank1_spec (cbits D c) J) else None)) ->
            (let! r0 := rsn_rank1 r (i / 2048 + 1) in let! r4 := ounwrap r0 in omul 64 r4 2048) =
            (if i <? pfs_bound D then Val (pfs_val D c i) else Fault Panic)).
  { intros r Hr. rewrite Hr, cbits_len. cbn [bind]. unfold pfs_bound.
    destruct (N.eqb_spec (npush D) 0) as [Ez|Enz]; cbn [negb andb].
    - rewrite Ez. destruct (N.ltb_spec i (2048 * 0)); [lia|reflexivity].
    - destruct (N.leb_spec (i / 2048 + 1) (npush D)) as [Hle|Hgt]; cbn [ounwrap bind].
      + destruct (N.ltb_spec i (2048 * npush D)); [|lia].
        rewrite cbits_rank by lia. unfold omul, pfs_val.
        pose proof (rk_le_len D c (N.min (len D) (2048 * (i / 2048) + 1))) as Hrl.
        revert Hrl. generalize (rk D c (N.min (len D) (2048 * (i / 2048) + 1))). intros x Hrl.
        change (2 ^ 64) with 18446744073709551616. change (2 ^ 43) with 8796093022208 in Hlen.
        destruct (N.ltb_spec (x / 2048 * 2048) 18446744073709551616); [reflexivity|lia].
      + destruct (N.ltb_spec i (2048 * npush D)); [lia|reflexivity]. }
  assert (Ec : c = 0 \/ c = 1 \/ c = 2 \/ c = 3) by lia.
  destruct Ec as [->|[->|[->| ->]]].
  - change (uidx [r0; r1; r2; r3] 0) with (Val r0). cbn [bind]. exact (G r0 H0).
  - change (uidx [r0; r1; r2; r3] 1) with (Val r1). cbn [bind]. exact (G r1 H1).
  - change (uidx [r0; r1; r2; r3] 2) with (Val r2). cbn [bind]. exact (G r2 H2).
  - change (uidx [r0; r1; r2; r3] 3) with (Val r3). cbn [bind]. exact (G r3 H3).
Qed.

End PfsNew.
