(* T5 (RSQVector API, src/qvector/rs_qvector.rs, both block sizes): the functions REGENERATED from the
   source (Gen/FnsRsq.v: the g_rsq256_ and g_rsq512_ families) agree with the hand model (Model/RSQ.v).
   Representation: the generated code reads the WORD view of the data lines (four u128 per DataLine),
   the hand model the LIST view (256 symbols per line); [pack_qdata] (Proofs/FnsQv2Ok.v) = map pack_qline
   relates them, [qv_lines_ok] = every line has 256 symbols < 4. *)
From Coq Require Import ZArith Lia ZifyBool ZifyN ZifyNat.
From QwtModel Require Import ListX Loops Seq Consts SelTable Words QVec RSQ ListXP ConstsOk WordsP BitsLib LeafP.
From QwtModel Require Import LeavesLine LeavesLineOk LeavesQV LeavesQVOk LeavesUtils LeavesUtilsOk LeavesLib.
From QwtModel Require Import FnsRss FnsQv2 FnsRsq FnsQv2Ok.
Open Scope N_scope.
Arguments N.add : simpl never.
Arguments N.sub : simpl never.
Arguments N.mul : simpl never.
Arguments N.eqb : simpl never.
Arguments N.ltb : simpl never.
Arguments N.leb : simpl never.
Arguments N.pred : simpl never.
Arguments N.of_nat : simpl never.
Arguments N.land : simpl never.
Arguments N.lor : simpl never.
Arguments N.lxor : simpl never.
Arguments N.shiftr : simpl never.
Arguments N.shiftl : simpl never.
Arguments N.testbit : simpl never.
Arguments N.div : simpl never.
Arguments N.modulo : simpl never.
Arguments N.pow : simpl never.
Arguments N.ones : simpl never.

Definition rsq_lines_ok (r : rsq) : Prop := qv_lines_ok (rsq_qv r).
(* the fields of the Rust struct as the generated functions receive them *)
Definition rsq_wdata (r : rsq) : list (list N) := pack_qdata (qv_data (rsq_qv r)).
Definition rsq_pos (r : rsq) : N := qv_position (rsq_qv r).

Lemma p64 : 2 ^ 64 = 18446744073709551616. Proof. reflexivity. Qed.

(* ------------------------------------------------------------------ len / is_empty / get *)
Theorem g_rsq256_len_ok : forall r, g_rsq256_len (rsq_pos r) = Val (rsq_len r).
Proof. reflexivity. Qed.
Theorem g_rsq512_len_ok : forall r, g_rsq512_len (rsq_pos r) = Val (rsq_len r).
Proof. reflexivity. Qed.
Theorem g_rsq256_is_empty_ok : forall r, g_rsq256_is_empty (rsq_pos r) = Val (rsq_is_empty r).
Proof. reflexivity. Qed.
Theorem g_rsq512_is_empty_ok : forall r, g_rsq512_is_empty (rsq_pos r) = Val (rsq_is_empty r).
Proof. reflexivity. Qed.

Theorem g_rsq256_get_unchecked_ok : forall r i, rsq_lines_ok r ->
  g_rsq256_get_unchecked (rsq_wdata r) (rsq_pos r) i = rsq_get_unchecked r i.
Proof. intros r i H. apply g_qv_get_unchecked_ok, H. Qed.
Theorem g_rsq512_get_unchecked_ok : forall r i, rsq_lines_ok r ->
  g_rsq512_get_unchecked (rsq_wdata r) (rsq_pos r) i = rsq_get_unchecked r i.
Proof. intros r i H. apply g_qv_get_unchecked_ok, H. Qed.
Theorem g_rsq256_get_ok : forall r i, rsq_lines_ok r ->
  g_rsq256_get (rsq_wdata r) (rsq_pos r) i = rsq_get r i.
Proof. intros r i H. apply g_qv_get_ok, H. Qed.
Theorem g_rsq512_get_ok : forall r i, rsq_lines_ok r ->
  g_rsq512_get (rsq_wdata r) (rsq_pos r) i = rsq_get r i.
Proof. intros r i H. apply g_qv_get_ok, H. Qed.

(* ------------------------------------------------------------------ occs / occs_smaller *)
(* equalities without any hypothesis: for symbol > 3 both sides fail the same debug assertion; for
   symbol <= 3 the u8 addition symbol + 1 cannot overflow *)
Lemma occs_unchecked_eq (o : list N) symbol :
  (let! _ := odebug_assert (N.leb symbol 3) in
   let! t1 := oadd 8 symbol 1 in
   let! t2 := idx o t1 in
   let! t3 := idx o symbol in
   osub t2 t3)
  = (let! _ := odebug_assert (symbol <=? 3) in
     let! a := idx o ((symbol + 1) mod 256) in
     let! b := idx o symbol in
     osub a b).
Proof.
  destruct (N.leb_spec symbol 3) as [H|H]; cbn [odebug_assert bind]; [|reflexivity].
  unfold oadd. change (2 ^ 8) with 256.
  destruct (N.ltb_spec (symbol + 1) 256); [|lia]. cbn [bind].
  rewrite N.mod_small by lia. reflexivity.
Qed.

Theorem g_rsq256_occs_unchecked_ok : forall r symbol,
  g_rsq256_occs_unchecked (rsq_occs_smaller r) symbol = rsq_occs_unchecked r symbol.
Proof. intros. apply occs_unchecked_eq. Qed.
Theorem g_rsq512_occs_unchecked_ok : forall r symbol,
  g_rsq512_occs_unchecked (rsq_occs_smaller r) symbol = rsq_occs_unchecked r symbol.
Proof. intros. apply occs_unchecked_eq. Qed.

Theorem g_rsq256_occs_ok : forall r symbol,
  g_rsq256_occs (rsq_occs_smaller r) symbol = rsq_occs r symbol.
Proof.
  intros. unfold g_rsq256_occs, rsq_occs. destruct (3 <? symbol); [reflexivity|].
  now rewrite g_rsq256_occs_unchecked_ok.
Qed.
Theorem g_rsq512_occs_ok : forall r symbol,
  g_rsq512_occs (rsq_occs_smaller r) symbol = rsq_occs r symbol.
Proof.
  intros. unfold g_rsq512_occs, rsq_occs. destruct (3 <? symbol); [reflexivity|].
  now rewrite g_rsq512_occs_unchecked_ok.
Qed.

Theorem g_rsq256_occs_smaller_unchecked_ok : forall r symbol,
  g_rsq256_occs_smaller_unchecked (rsq_occs_smaller r) symbol = rsq_occs_smaller_unchecked r symbol.
Proof. reflexivity. Qed.
Theorem g_rsq512_occs_smaller_unchecked_ok : forall r symbol,
  g_rsq512_occs_smaller_unchecked (rsq_occs_smaller r) symbol = rsq_occs_smaller_unchecked r symbol.
Proof. reflexivity. Qed.
Theorem g_rsq256_occs_smaller_ok : forall r symbol,
  g_rsq256_occs_smaller (rsq_occs_smaller r) symbol = rsq_occs_smaller_q r symbol.
Proof. reflexivity. Qed.
Theorem g_rsq512_occs_smaller_ok : forall r symbol,
  g_rsq512_occs_smaller (rsq_occs_smaller r) symbol = rsq_occs_smaller_q r symbol.
Proof. reflexivity. Qed.

(* ------------------------------------------------------------------ rank_intra_block *)
(* one line: the generated word-level rank of the packed line is the list-level rank *)
Lemma line_rank_packed l c i : line_ok l -> c <= 3 -> i <= 256 ->
  g_qline_rank_unchecked (pack_qline l) c i = line_rank_unchecked l c i.
Proof.
  intros Hl Hc Hi. rewrite g_qline_rank_unchecked_ok by (rewrite ?p64; lia).
  destruct (line_view_refined l Hl) as [_ H]. symmetry. now apply H.
Qed.

Lemma nth_line_rank d j c i : Forall line_ok d -> c <= 3 -> i <= 256 ->
  match nthN (pack_qdata d) j with
  | Some w => g_qline_rank_unchecked w c i
  | None => Val 0
  end = match nthN d j with
        | Some l => line_rank_unchecked l c i
        | None => Val 0
        end.
Proof.
  intros Hd Hc Hi. rewrite nthN_pack_qdata.
  destruct (nthN d j) as [l|] eqn:E; cbn [option_map]; [|reflexivity].
  apply line_rank_packed; try assumption. exact (lines_ok_nth _ _ _ Hd E).
Qed.

Lemma line_rank_le l c i v : line_rank_unchecked l c i = Val v -> v <= 256.
Proof.
  unfold line_rank_unchecked. rewrite LINE_SYMS_val.
  destruct (c <=? 3); cbn [odebug_assert bind]; [|discriminate].
  destruct (N.leb_spec i 256); cbn [odebug_assert bind]; [|discriminate].
  intros E. apply Val_inj in E. subst v.
  pose proof (countN_le_len c (firstnN i l)). rewrite firstnN_len in *. lia.
Qed.

Theorem g_rsq256_rank_intra_block_ok : forall r symbol i, rsq_lines_ok r ->
  g_rsq256_rank_intra_block (rsq_wdata r) symbol i = rsq_rank_intra_block 256 r symbol i.
Proof.
  intros r symbol i Hr. unfold g_rsq256_rank_intra_block, rsq_rank_intra_block. cbv zeta.
  destruct (N.leb_spec symbol 3) as [Hs|Hs]; cbn [odebug_assert bind]; [|reflexivity].
  change (256 =? 256) with true. cbn [orb odebug_assert bind]. cbv iota.
  rewrite bind_Val_r. unfold rsq_wdata.
  apply nth_line_rank; try assumption. pose proof (land255_lt i). lia.
Qed.

Lemma land511_lt i : N.land i 511 < 512.
Proof. change 511 with (N.ones 9). apply (land_ones_lt i 9). Qed.

Theorem g_rsq512_rank_intra_block_ok : forall r symbol i, rsq_lines_ok r -> i < 2 ^ 64 ->
  g_rsq512_rank_intra_block (rsq_wdata r) symbol i = rsq_rank_intra_block 512 r symbol i.
Proof.
  intros r symbol i Hr Hi. unfold g_rsq512_rank_intra_block, rsq_rank_intra_block. cbv zeta.
  destruct (N.leb_spec symbol 3) as [Hs|Hs]; cbn [odebug_assert bind]; [|reflexivity].
  change (512 =? 256) with false. change (512 =? 512) with true. cbn [orb odebug_assert bind]. cbv iota.
  pose proof (land511_lt i) as Ho.
  assert (Hb : N.shiftr i 9 < 2 ^ 55) by (apply shiftr_lt; exact Hi).
  change (2 ^ 55) with 36028797018963968 in Hb.
  unfold omul. rewrite p64.
  destruct (N.ltb_spec (N.shiftr i 9 * 2) 18446744073709551616); [|lia]. cbn [bind].
  unfold rsq_wdata.
  rewrite nth_line_rank; try assumption; [|destruct (N.leb_spec (N.land i 511) 256); lia].
  destruct (match nthN (qv_data (rsq_qv r)) (N.shiftr i 9 * 2) with
            | Some l => line_rank_unchecked l symbol (if N.land i 511 <=? 256 then N.land i 511 else 256)
            | None => Val 0 end) as [rank|f] eqn:E1; cbn [bind]; [|reflexivity].
  assert (Hrank : rank <= 256).
  { destruct (nthN (qv_data (rsq_qv r)) (N.shiftr i 9 * 2)); [eapply line_rank_le; exact E1|].
    apply Val_inj in E1. lia. }
  destruct (N.ltb_spec 256 (N.land i 511)) as [Hlt|Hge]; [|reflexivity].
  unfold oadd at 1. rewrite p64.
  destruct (N.ltb_spec (N.shiftr i 9 * 2 + 1) 18446744073709551616); [|lia]. cbn [bind].
  replace (osub (N.land i 511) 256) with (Val (N.land i 511 - 256))
    by (unfold osub; destruct (N.leb_spec 256 (N.land i 511)); [reflexivity|lia]).
  cbn [bind].
  rewrite nth_line_rank by (try assumption; lia).
  destruct (match nthN (qv_data (rsq_qv r)) (N.shiftr i 9 * 2 + 1) with
            | Some l => line_rank_unchecked l symbol (N.land i 511 - 256)
            | None => Val 0 end) as [r2|f] eqn:E3; cbn [bind]; [|reflexivity].
  assert (Hr2 : r2 <= 256).
  { destruct (nthN (qv_data (rsq_qv r)) (N.shiftr i 9 * 2 + 1)); [eapply line_rank_le; exact E3|].
    apply Val_inj in E3. lia. }
  unfold oadd. rewrite p64. destruct (N.ltb_spec (rank + r2) 18446744073709551616); [|lia]. reflexivity.
Qed.

(* ------------------------------------------------------------------ select_intra_block *)
(* the normalised word of a half line: bit j is set iff symbol j of the half is [c] *)
Definition symw (c : N) (A : list N) : N := bits_value (map (fun s => s =? c) A).

Lemma norm_packed l c : line_ok l -> c <= 3 ->
  g_qline_normalize (pack_qline l) c = Val (symw c (firstnN 128 l), symw c (skipnN 128 l)).
Proof.
  intros Hl Hc. destruct (halves l Hl) as (_ & HA & HB & FA & FB).
  rewrite g_qline_normalize_ok by lia. rewrite pack_qline_planes, qline_normalize_val by assumption.
  unfold symw. now rewrite !norm_word by assumption.
Qed.

Lemma popcount_symw c A : popcount (symw c A) = countN c A.
Proof. unfold symw. rewrite popcount_bits_value. apply countb_map_eqb. Qed.

Lemma symw_lt c A : len A = 128 -> symw c A < 2 ^ 128.
Proof. intros H. unfold symw. rewrite <- H, <- (len_map (fun s => s =? c)). apply bits_value_lt. Qed.

Lemma bits_of_symw c A : len A = 128 -> bits_of 128 (symw c A) = map (fun s => N.b2n (s =? c)) A.
Proof.
  intros H. apply list_ext_nthN. intros j. rewrite nthN_bits_of. change (N.of_nat 128) with 128.
  unfold symw. rewrite testbit_bits_value, !nthN_map.
  destruct (N.ltb_spec j 128) as [Hj|Hj].
  - destruct (nthN_lt_some A j) as (x & Ex); [lia|]. rewrite Ex. reflexivity.
  - rewrite (nthN_none A j) by lia. reflexivity.
Qed.

Lemma select_from_b2n c A : forall k pos,
  select_from (map (fun s => N.b2n (s =? c)) A) 1 k pos = select_from A c k pos.
Proof.
  induction A as [|x A IH]; intros k pos; cbn [map select_from]; [reflexivity|].
  rewrite b2n_eqb1. destruct (x =? c); [destruct (k =? 0); [reflexivity|]|]; apply IH.
Qed.

Lemma find_kth_select_from c l : forall k pos, find_kth c l k pos = select_from l c k pos.
Proof.
  induction l as [|x l IH]; intros k pos; cbn [find_kth select_from]; [reflexivity|].
  destruct (x =? c); [destruct (k =? 0); [reflexivity|]|]; apply IH.
Qed.

Lemma select_symw c A k : len A = 128 -> k < 128 ->
  g_select_in_word_u128 (symw c A) k = Val (half_select c A k).
Proof.
  intros HA Hk. pose proof (symw_lt c A HA) as Hw.
  rewrite g_select_in_word_u128_ok by (rewrite ?p64; lia || assumption).
  rewrite select_in_word_u128_correct by assumption.
  rewrite bits_of_symw by assumption. unfold select_spec, half_select.
  now rewrite select_from_b2n, find_kth_select_from.
Qed.

Lemma half_select_le c A k : len A = 128 -> half_select c A k <= 128.
Proof.
  intros HA. unfold half_select. rewrite find_kth_select_from.
  destruct (select_from A c k 0) as [p|] eqn:E; [|lia].
  apply select_from_bounds in E. lia.
Qed.

(* the body of the loop of select_intra_block, as the translator emits it (the same text for both
   block sizes) *)
Definition sel_body (qv_data : list (list N)) (line_id symbol : N) : N -> N * N -> outcome (step (N * N) N) :=
  fun j '(i, result) =>
      let! t1 := oadd 64 line_id j in
      let! t2 := uidx qv_data t1 in
      let! (word_0, word_1) := g_qline_normalize t2 symbol in
      let cnt_0 := popcount word_0 in
      if N.ltb i cnt_0 then
        let! t3 := g_select_in_word_u128 word_0 i in
        let p := t3 in
        let! t4 := oadd 64 result p in
        Val (Ret t4)
      else
        let! i := osub i cnt_0 in
        let! result := oadd 64 result 128 in
        let cnt_1 := popcount word_1 in
        if N.ltb i cnt_1 then
          let! t5 := g_select_in_word_u128 word_1 i in
          let! t6 := oadd 64 result t5 in
          Val (Ret t6)
        else
          let! i := osub i cnt_1 in
          let! result := oadd 64 result 128 in
          Val (Next (i, result)).

Definition sel_step (c : N) (l : list N) (i result : N) : step (N * N) N :=
  match sel_line c l i result with
  | (Some p, _, _) => Ret p
  | (None, i', r') => Next (i', r')
  end.

Lemma sel_body_ok d line_id c j i result : Forall line_ok d -> c <= 3 ->
  line_id + j < 2 ^ 64 -> result <= 256 ->
  sel_body (pack_qdata d) line_id c j (i, result)
  = let! l := uidx d (line_id + j) in Val (sel_step c l i result).
Proof.
  intros Hd Hc Hj Hres. unfold sel_body. cbv beta iota.
  unfold oadd at 1. destruct (N.ltb_spec (line_id + j) (2 ^ 64)); [|lia]. cbn [bind].
  unfold uidx. rewrite nthN_pack_qdata.
  destruct (nthN d (line_id + j)) as [l|] eqn:El; cbn [option_map bind]; [|reflexivity].
  pose proof (lines_ok_nth _ _ _ Hd El) as Hl.
  destruct (halves l Hl) as (_ & HA & HB & _ & _).
  rewrite norm_packed by assumption. cbn [bind]. cbv beta iota zeta.
  rewrite !popcount_symw. unfold sel_step, sel_line. cbv zeta. rewrite firstn128, skipn128.
  set (A := firstnN 128 l) in *. set (B := skipnN 128 l) in *.
  pose proof (countN_le_len c A) as HcA. pose proof (countN_le_len c B) as HcB.
  destruct (N.ltb_spec i (countN c A)) as [K0|K0].
  - rewrite select_symw by (assumption || lia). cbn [bind].
    pose proof (half_select_le c A i HA).
    unfold oadd. destruct (N.ltb_spec (result + half_select c A i) (2 ^ 64)); [|lia].
    reflexivity.
  - unfold osub at 1. destruct (N.leb_spec (countN c A) i); [|lia]. cbn [bind].
    unfold oadd at 1. destruct (N.ltb_spec (result + 128) (2 ^ 64)); [|lia]. cbn [bind].
    destruct (N.ltb_spec (i - countN c A) (countN c B)) as [K1|K1].
    + rewrite select_symw by (assumption || lia). cbn [bind].
      pose proof (half_select_le c B (i - countN c A) HB).
      unfold oadd. destruct (N.ltb_spec (result + 128 + half_select c B (i - countN c A)) (2 ^ 64)); [|lia].
      reflexivity.
    + unfold osub. destruct (N.leb_spec (countN c B) (i - countN c A)); [|lia]. cbn [bind].
      unfold oadd. destruct (N.ltb_spec (result + 128 + 128) (2 ^ 64)); [|lia].
      reflexivity.
Qed.

Lemma sel_line_none_res c l i i1 r1 : sel_line c l i 0 = (None, i1, r1) -> r1 = 256.
Proof.
  unfold sel_line. cbv zeta.
  destruct (i <? countN c (firstn 128 l)); [discriminate|].
  destruct (i - countN c (firstn 128 l) <? countN c (skipn 128 l)); [discriminate|].
  intros E. injection E as _ <-. reflexivity.
Qed.

Lemma shiftr8_lt pos : pos < 2 ^ 64 -> N.shiftr pos 8 < 2 ^ 56.
Proof. intros H. apply shiftr_lt. exact H. Qed.

Theorem g_rsq256_select_intra_block_ok : forall r symbol i pos,
  rsq_lines_ok r -> symbol <= 3 -> pos < 2 ^ 64 ->
  g_rsq256_select_intra_block (rsq_wdata r) symbol i pos = rsq_select_intra_block 256 r symbol i pos.
Proof.
  intros r symbol i pos Hr Hs Hpos. unfold g_rsq256_select_intra_block, rsq_select_intra_block. cbv zeta.
  destruct (osub i 1) as [i0|f]; cbn [bind]; [|reflexivity].
  change (N.to_nat ((if 256 =? 256 then 1 else 2) - 0)) with 1%nat.
  fold (sel_body (rsq_wdata r) (N.shiftr pos 8) symbol).
  pose proof (shiftr8_lt pos Hpos) as Hl. change (2 ^ 56) with 72057594037927936 in Hl.
  cbn [for_loop]. unfold rsq_wdata.
  rewrite sel_body_ok by (try assumption; rewrite ?p64; lia).
  rewrite N.add_0_r.
  destruct (uidx (qv_data (rsq_qv r)) (N.shiftr pos 8)) as [d0|f]; cbn [bind]; [|reflexivity].
  unfold sel_step. destruct (sel_line symbol d0 i0 0) as [[[p|] i1] r1]; cbn [bind]; reflexivity.
Qed.

Theorem g_rsq512_select_intra_block_ok : forall r symbol i pos,
  rsq_lines_ok r -> symbol <= 3 -> pos < 2 ^ 64 ->
  g_rsq512_select_intra_block (rsq_wdata r) symbol i pos = rsq_select_intra_block 512 r symbol i pos.
Proof.
  intros r symbol i pos Hr Hs Hpos. unfold g_rsq512_select_intra_block, rsq_select_intra_block. cbv zeta.
  destruct (osub i 1) as [i0|f]; cbn [bind]; [|reflexivity].
  change (N.to_nat ((if 512 =? 256 then 1 else 2) - 0)) with 2%nat.
  fold (sel_body (rsq_wdata r) (N.shiftr pos 8) symbol).
  pose proof (shiftr8_lt pos Hpos) as Hl. change (2 ^ 56) with 72057594037927936 in Hl.
  cbn [for_loop]. unfold rsq_wdata.
  rewrite sel_body_ok by (try assumption; rewrite ?p64; lia).
  rewrite N.add_0_r.
  destruct (uidx (qv_data (rsq_qv r)) (N.shiftr pos 8)) as [d0|f]; cbn [bind]; [|reflexivity].
  unfold sel_step at 1. destruct (sel_line symbol d0 i0 0) as [[[p|] i1] r1] eqn:E0; cbn [bind]; [reflexivity|].
  apply sel_line_none_res in E0. subst r1.
  change (512 =? 256) with false. cbv iota. change (0 + 1) with 1.
  rewrite sel_body_ok by (try assumption; rewrite ?p64; lia).
  destruct (uidx (qv_data (rsq_qv r)) (N.shiftr pos 8 + 1)) as [d1|f]; cbn [bind]; [|reflexivity].
  unfold sel_step. destruct (sel_line symbol d1 i1 256) as [[[p|] i2] r2]; cbn [bind]; reflexivity.
Qed.

(* ------------------------------------------------------------------ rank / select *)
(* These call RSSupportPlain::rank_block / select_block (Gen/FnsRss.v), whose agreement with the hand
   model rss_rank_block / rss_select_block is proved elsewhere (Proofs/FnsRssOk.v).  The two facts are
   SECTION HYPOTHESES here (premises of every theorem below once the section is closed), for an
   arbitrary well-formedness predicate [rss_wf] on the directory and an arbitrary fuel bound
   [select_fuel]; the arguments are in the range of their Rust types and the results below 2^64
   (premises the instantiation is free to ignore). *)
Lemma oadd_Val_inv w a b v : oadd w a b = Val v -> v = a + b /\ a + b < 2 ^ w.
Proof. unfold oadd. destruct (N.ltb_spec (a + b) (2 ^ w)); intros E; [now inversion E|discriminate]. Qed.

Ltac rank_unchecked_tac g HB intra :=
  intros r symbol i v Hr Hwf Hi Hv; unfold g, rsq_rank_unchecked;
  destruct (N.leb_spec symbol 3) as [Hs|Hs]; cbn [odebug_assert bind]; [|discriminate];
  destruct (rss_rank_block _ (rsq_rs r) symbol i) as [a|] eqn:Ea; cbn [bind]; [|discriminate];
  destruct (rsq_rank_intra_block _ r symbol i) as [b|] eqn:Eb; cbn [bind]; [|discriminate];
  intros E; apply Val_inj in E;
  rewrite (HB _ _ _ a Hwf Hs Hi ltac:(lia) Ea); cbn [bind];
  rewrite intra by assumption; rewrite Eb; cbn [bind];
  unfold oadd; destruct (N.ltb_spec (a + b) (2 ^ 64)); [now subst v|lia].

Ltac rank_tac g HU :=
  intros r symbol i v Hr Hwf Hi Hv; unfold g, rsq_rank;
  change (g_qv_len (rsq_pos r)) with (Val (rsq_len r));
  destruct (3 <? symbol); cbn [orb bind]; [trivial|];
  destruct (rsq_len r <? i); cbv iota; [trivial|];
  destruct (rsq_rank_unchecked _ r symbol i) as [x|] eqn:Ex; cbn [bind]; [|discriminate];
  intros E; apply Val_inj in E; subst v;
  rewrite (HU r symbol i x Hr Hwf Hi (Hv x eq_refl) Ex); reflexivity.

Ltac rank_none_tac g :=
  intros r symbol i H; unfold g;
  change (g_qv_len (rsq_pos r)) with (Val (rsq_len r));
  destruct (3 <? symbol); cbn [bind]; [reflexivity|];
  destruct (N.ltb_spec (rsq_len r) i); [reflexivity|lia].

Ltac select_tac g HS occs intra :=
  intros r symbol i v fuel Hr Hwf Hf Hv; unfold g, rsq_select;
  destruct (N.ltb_spec 3 symbol) as [Hs|Hs]; cbn [bind]; [trivial|];
  rewrite occs;
  destruct (rsq_occs_unchecked r symbol) as [occ|] eqn:Eocc; cbn [bind]; [|discriminate];
  destruct (occ <=? i); cbv iota; [trivial|];
  destruct (oadd 64 i 1) as [i1|] eqn:Ei; cbn [bind]; [|discriminate];
  destruct (rss_select_block _ (rsq_rs r) symbol i1) as [[pos rank]|] eqn:Esb; cbn [bind]; [|discriminate];
  destruct (osub i rank) as [t|] eqn:Et; cbn [bind]; [|discriminate];
  destruct (oadd 64 t 1) as [t1|] eqn:Et1; cbn [bind]; [|discriminate];
  destruct (rsq_select_intra_block _ r symbol t1 pos) as [off|] eqn:Eo; cbn [bind]; [|discriminate];
  intros E; apply Val_inj in E; subst v;
  pose proof (Hv _ eq_refl) as Hp;
  apply oadd_Val_inv in Ei; destruct Ei as [-> Hi1];
  pose proof (osub_Val _ _ _ Et) as [_ Hrank];
  rewrite (HS (rsq_rs r) symbol (i + 1) (pos, rank) fuel Hwf Hs Hi1 Hf
              ltac:(cbn [fst]; lia) ltac:(cbn [snd]; lia) Esb);
  cbn [bind]; cbv beta iota; rewrite Et; cbn [bind]; rewrite Et1; cbn [bind];
  rewrite intra by (try assumption; lia); rewrite Eo; cbn [bind];
  unfold oadd; destruct (N.ltb_spec (pos + off) (2 ^ 64)); [reflexivity|lia].

Ltac select_unchecked_tac g HSel occs :=
  intros r symbol i v fuel Hr Hwf Hf Hv; unfold g, rsq_select_unchecked;
  destruct (symbol <=? 3); cbn [odebug_assert bind]; [|discriminate];
  rewrite occs;
  destruct (rsq_occs r symbol) as [o|] eqn:Eo; cbn [bind]; [|discriminate];
  change (opt_ltb (Some i) o) with (match o with Some oc => i <? oc | None => false end);
  destruct (match o with Some oc => i <? oc | None => false end); cbn [odebug_assert bind]; [|discriminate];
  destruct (rsq_select _ r symbol i) as [s|] eqn:Es; cbn [bind]; [|discriminate];
  intros E;
  rewrite (HSel r symbol i s fuel Hr Hwf Hf); cbn [bind];
  [exact E| |exact Es];
  intros p ->; cbn [ounwrap] in E; apply Val_inj in E; now subst p.

Section Sim256.
  Variable rss_wf : rssupport -> Prop.
  Variable select_fuel : rssupport -> nat.
  Hypothesis rank_block_sim : forall rs symbol i v,
    rss_wf rs -> symbol <= 3 -> i < 2 ^ 64 -> v < 2 ^ 64 ->
    rss_rank_block 256 rs symbol i = Val v ->
    g_rss256_rank_block (rs_superblocks rs) symbol i = Val v.
  Hypothesis select_block_sim : forall rs symbol i v fuel,
    rss_wf rs -> symbol <= 3 -> i < 2 ^ 64 -> (select_fuel rs <= fuel)%nat ->
    fst v < 2 ^ 64 -> snd v < 2 ^ 64 ->
    rss_select_block 256 rs symbol i = Val v ->
    g_rss256_select_block fuel (rs_superblocks rs) (rs_samples rs) symbol i = Val v.

  Theorem g_rsq256_rank_block_unchecked_sim : forall r symbol i v,
    rss_wf (rsq_rs r) -> symbol <= 3 -> i < 2 ^ 64 -> v < 2 ^ 64 ->
    rss_rank_block 256 (rsq_rs r) symbol i = Val v ->
    g_rsq256_rank_block_unchecked (rs_superblocks (rsq_rs r)) symbol i = Val v.
  Proof using rss_wf rank_block_sim. clear select_block_sim select_fuel. intros r symbol i v. apply rank_block_sim. Qed.

  Theorem g_rsq256_rank_unchecked_sim : forall r symbol i v,
    rsq_lines_ok r -> rss_wf (rsq_rs r) -> i < 2 ^ 64 -> v < 2 ^ 64 ->
    rsq_rank_unchecked 256 r symbol i = Val v ->
    g_rsq256_rank_unchecked (rsq_wdata r) (rs_superblocks (rsq_rs r)) symbol i = Val v.
  Proof using rss_wf rank_block_sim. clear select_block_sim select_fuel. rank_unchecked_tac g_rsq256_rank_unchecked rank_block_sim g_rsq256_rank_intra_block_ok. Qed.

  Theorem g_rsq256_rank_sim : forall r symbol i v,
    rsq_lines_ok r -> rss_wf (rsq_rs r) -> i < 2 ^ 64 -> (forall p, v = Some p -> p < 2 ^ 64) ->
    rsq_rank 256 r symbol i = Val v ->
    g_rsq256_rank (rsq_wdata r) (rsq_pos r) (rs_superblocks (rsq_rs r)) symbol i = Val v.
  Proof using rss_wf rank_block_sim. clear select_block_sim select_fuel. rank_tac g_rsq256_rank g_rsq256_rank_unchecked_sim. Qed.

  Theorem g_rsq256_select_sim : forall r symbol i v fuel,
    rsq_lines_ok r -> rss_wf (rsq_rs r) -> (select_fuel (rsq_rs r) <= fuel)%nat ->
    (forall p, v = Some p -> p < 2 ^ 64) ->
    rsq_select 256 r symbol i = Val v ->
    g_rsq256_select fuel (rsq_wdata r) (rs_superblocks (rsq_rs r)) (rs_samples (rsq_rs r))
      (rsq_occs_smaller r) symbol i = Val v.
  Proof using rss_wf select_fuel select_block_sim. clear rank_block_sim.
    select_tac g_rsq256_select select_block_sim g_rsq256_occs_unchecked_ok g_rsq256_select_intra_block_ok.
  Qed.

  Theorem g_rsq256_select_unchecked_sim : forall r symbol i v fuel,
    rsq_lines_ok r -> rss_wf (rsq_rs r) -> (select_fuel (rsq_rs r) <= fuel)%nat -> v < 2 ^ 64 ->
    rsq_select_unchecked 256 r symbol i = Val v ->
    g_rsq256_select_unchecked fuel (rsq_wdata r) (rs_superblocks (rsq_rs r)) (rs_samples (rsq_rs r))
      (rsq_occs_smaller r) symbol i = Val v.
  Proof using rss_wf select_fuel select_block_sim. clear rank_block_sim. select_unchecked_tac g_rsq256_select_unchecked g_rsq256_select_sim g_rsq256_occs_ok. Qed.
End Sim256.

(* rank beyond the end (in particular for every i >= 2^64 > len): None, no directory access *)
Theorem g_rsq256_rank_none : forall r symbol i, rsq_len r < i ->
  forall sbs, g_rsq256_rank (rsq_wdata r) (rsq_pos r) sbs symbol i = Val None.
Proof. intros r symbol i H sbs. revert r symbol i H. rank_none_tac g_rsq256_rank. Qed.

Section Sim512.
  Variable rss_wf : rssupport -> Prop.
  Variable select_fuel : rssupport -> nat.
  Hypothesis rank_block_sim : forall rs symbol i v,
    rss_wf rs -> symbol <= 3 -> i < 2 ^ 64 -> v < 2 ^ 64 ->
    rss_rank_block 512 rs symbol i = Val v ->
    g_rss512_rank_block (rs_superblocks rs) symbol i = Val v.
  Hypothesis select_block_sim : forall rs symbol i v fuel,
    rss_wf rs -> symbol <= 3 -> i < 2 ^ 64 -> (select_fuel rs <= fuel)%nat ->
    fst v < 2 ^ 64 -> snd v < 2 ^ 64 ->
    rss_select_block 512 rs symbol i = Val v ->
    g_rss512_select_block fuel (rs_superblocks rs) (rs_samples rs) symbol i = Val v.

  Theorem g_rsq512_rank_block_unchecked_sim : forall r symbol i v,
    rss_wf (rsq_rs r) -> symbol <= 3 -> i < 2 ^ 64 -> v < 2 ^ 64 ->
    rss_rank_block 512 (rsq_rs r) symbol i = Val v ->
    g_rsq512_rank_block_unchecked (rs_superblocks (rsq_rs r)) symbol i = Val v.
  Proof using rss_wf rank_block_sim. clear select_block_sim select_fuel. intros r symbol i v. apply rank_block_sim. Qed.

  Theorem g_rsq512_rank_unchecked_sim : forall r symbol i v,
    rsq_lines_ok r -> rss_wf (rsq_rs r) -> i < 2 ^ 64 -> v < 2 ^ 64 ->
    rsq_rank_unchecked 512 r symbol i = Val v ->
    g_rsq512_rank_unchecked (rsq_wdata r) (rs_superblocks (rsq_rs r)) symbol i = Val v.
  Proof using rss_wf rank_block_sim. clear select_block_sim select_fuel. rank_unchecked_tac g_rsq512_rank_unchecked rank_block_sim g_rsq512_rank_intra_block_ok. Qed.

  Theorem g_rsq512_rank_sim : forall r symbol i v,
    rsq_lines_ok r -> rss_wf (rsq_rs r) -> i < 2 ^ 64 -> (forall p, v = Some p -> p < 2 ^ 64) ->
    rsq_rank 512 r symbol i = Val v ->
    g_rsq512_rank (rsq_wdata r) (rsq_pos r) (rs_superblocks (rsq_rs r)) symbol i = Val v.
  Proof using rss_wf rank_block_sim. clear select_block_sim select_fuel. rank_tac g_rsq512_rank g_rsq512_rank_unchecked_sim. Qed.

  Theorem g_rsq512_select_sim : forall r symbol i v fuel,
    rsq_lines_ok r -> rss_wf (rsq_rs r) -> (select_fuel (rsq_rs r) <= fuel)%nat ->
    (forall p, v = Some p -> p < 2 ^ 64) ->
    rsq_select 512 r symbol i = Val v ->
    g_rsq512_select fuel (rsq_wdata r) (rs_superblocks (rsq_rs r)) (rs_samples (rsq_rs r))
      (rsq_occs_smaller r) symbol i = Val v.
  Proof using rss_wf select_fuel select_block_sim. clear rank_block_sim.
    select_tac g_rsq512_select select_block_sim g_rsq512_occs_unchecked_ok g_rsq512_select_intra_block_ok.
  Qed.

  Theorem g_rsq512_select_unchecked_sim : forall r symbol i v fuel,
    rsq_lines_ok r -> rss_wf (rsq_rs r) -> (select_fuel (rsq_rs r) <= fuel)%nat -> v < 2 ^ 64 ->
    rsq_select_unchecked 512 r symbol i = Val v ->
    g_rsq512_select_unchecked fuel (rsq_wdata r) (rs_superblocks (rsq_rs r)) (rs_samples (rsq_rs r))
      (rsq_occs_smaller r) symbol i = Val v.
  Proof using rss_wf select_fuel select_block_sim. clear rank_block_sim. select_unchecked_tac g_rsq512_select_unchecked g_rsq512_select_sim g_rsq512_occs_ok. Qed.
End Sim512.

Theorem g_rsq512_rank_none : forall r symbol i, rsq_len r < i ->
  forall sbs, g_rsq512_rank (rsq_wdata r) (rsq_pos r) sbs symbol i = Val None.
Proof. intros r symbol i H sbs. revert r symbol i H. rank_none_tac g_rsq512_rank. Qed.


(* ------------------------------------------------------------------ rank / select, premise-free *)
(* the two facts are theorems of Proofs/FnsRssOk.v: rank_block is an unconditional equality, select_block
   an equality for a typed directory ([rss_typed]: samples are u32, superblock words u128) and
   fuel >= S (number of superblocks) *)
From QwtModel Require Import FnsRssOk.

Definition rss_typed (rs : rssupport) : Prop :=
  Forall (Forall (fun x => x < 2 ^ 32)) (rs_samples rs) /\
  Forall (Forall (fun w => w < 2 ^ 128)) (rs_superblocks rs).
Definition rss_fuel (rs : rssupport) : nat := S (length (rs_superblocks rs)).

Lemma rank_block_sim256 : forall rs symbol i v,
  rss_typed rs -> symbol <= 3 -> i < 2 ^ 64 -> v < 2 ^ 64 ->
  rss_rank_block 256 rs symbol i = Val v -> g_rss256_rank_block (rs_superblocks rs) symbol i = Val v.
Proof. intros rs symbol i v _ _ _ _ E. now rewrite g_rss256_rank_block_ok. Qed.
Lemma rank_block_sim512 : forall rs symbol i v,
  rss_typed rs -> symbol <= 3 -> i < 2 ^ 64 -> v < 2 ^ 64 ->
  rss_rank_block 512 rs symbol i = Val v -> g_rss512_rank_block (rs_superblocks rs) symbol i = Val v.
Proof. intros rs symbol i v _ _ _ _ E. now rewrite g_rss512_rank_block_ok. Qed.
Lemma select_block_sim256 : forall rs symbol i v fuel,
  rss_typed rs -> symbol <= 3 -> i < 2 ^ 64 -> (rss_fuel rs <= fuel)%nat ->
  fst v < 2 ^ 64 -> snd v < 2 ^ 64 ->
  rss_select_block 256 rs symbol i = Val v ->
  g_rss256_select_block fuel (rs_superblocks rs) (rs_samples rs) symbol i = Val v.
Proof. intros rs symbol i v fuel [H1 H2] _ Hi Hf _ _ E. now rewrite g_rss256_select_block_ok. Qed.
Lemma select_block_sim512 : forall rs symbol i v fuel,
  rss_typed rs -> symbol <= 3 -> i < 2 ^ 64 -> (rss_fuel rs <= fuel)%nat ->
  fst v < 2 ^ 64 -> snd v < 2 ^ 64 ->
  rss_select_block 512 rs symbol i = Val v ->
  g_rss512_select_block fuel (rs_superblocks rs) (rs_samples rs) symbol i = Val v.
Proof. intros rs symbol i v fuel [H1 H2] _ Hi Hf _ _ E. now rewrite g_rss512_select_block_ok. Qed.

(* RSQVector::rank_block_unchecked: equality, no hypothesis *)
Theorem g_rsq256_rank_block_unchecked_ok : forall r symbol i,
  g_rsq256_rank_block_unchecked (rs_superblocks (rsq_rs r)) symbol i = rss_rank_block 256 (rsq_rs r) symbol i.
Proof. intros. apply g_rss256_rank_block_ok. Qed.
Theorem g_rsq512_rank_block_unchecked_ok : forall r symbol i,
  g_rsq512_rank_block_unchecked (rs_superblocks (rsq_rs r)) symbol i = rss_rank_block 512 (rsq_rs r) symbol i.
Proof. intros. apply g_rss512_rank_block_ok. Qed.

(* RSQVector::rank_unchecked: the hand model adds the two ranks unchecked, the source in checked usize
   arithmetic: simulation for results below 2^64 *)
Theorem g_rsq256_rank_unchecked_ok : forall r symbol i v,
  rsq_lines_ok r -> i < 2 ^ 64 -> v < 2 ^ 64 ->
  rsq_rank_unchecked 256 r symbol i = Val v ->
  g_rsq256_rank_unchecked (rsq_wdata r) (rs_superblocks (rsq_rs r)) symbol i = Val v.
Proof.
  intros r symbol i v Hr Hi Hv. unfold g_rsq256_rank_unchecked, rsq_rank_unchecked.
  rewrite g_rss256_rank_block_ok, g_rsq256_rank_intra_block_ok by assumption.
  destruct (odebug_assert (symbol <=? 3)) as [[]|]; cbn [bind]; [|discriminate].
  destruct (rss_rank_block 256 (rsq_rs r) symbol i) as [a|]; cbn [bind]; [|discriminate].
  destruct (rsq_rank_intra_block 256 r symbol i) as [b|]; cbn [bind]; [|discriminate].
  intros E. apply Val_inj in E. subst v. unfold oadd. destruct (N.ltb_spec (a + b) (2 ^ 64)); [reflexivity|lia].
Qed.
Theorem g_rsq512_rank_unchecked_ok : forall r symbol i v,
  rsq_lines_ok r -> i < 2 ^ 64 -> v < 2 ^ 64 ->
  rsq_rank_unchecked 512 r symbol i = Val v ->
  g_rsq512_rank_unchecked (rsq_wdata r) (rs_superblocks (rsq_rs r)) symbol i = Val v.
Proof.
  intros r symbol i v Hr Hi Hv. unfold g_rsq512_rank_unchecked, rsq_rank_unchecked.
  rewrite g_rss512_rank_block_ok, g_rsq512_rank_intra_block_ok by assumption.
  destruct (odebug_assert (symbol <=? 3)) as [[]|]; cbn [bind]; [|discriminate].
  destruct (rss_rank_block 512 (rsq_rs r) symbol i) as [a|]; cbn [bind]; [|discriminate].
  destruct (rsq_rank_intra_block 512 r symbol i) as [b|]; cbn [bind]; [|discriminate].
  intros E. apply Val_inj in E. subst v. unfold oadd. destruct (N.ltb_spec (a + b) (2 ^ 64)); [reflexivity|lia].
Qed.

(* RSQVector::rank *)
Theorem g_rsq256_rank_ok : forall r symbol i v,
  rsq_lines_ok r -> i < 2 ^ 64 -> (forall p, v = Some p -> p < 2 ^ 64) ->
  rsq_rank 256 r symbol i = Val v ->
  g_rsq256_rank (rsq_wdata r) (rsq_pos r) (rs_superblocks (rsq_rs r)) symbol i = Val v.
Proof.
  intros r symbol i v Hr Hi Hv E.
  apply (g_rsq256_rank_sim (fun _ => True)
           (fun rs s j w _ _ _ _ E => eq_trans (g_rss256_rank_block_ok rs s j) E)); auto.
Qed.
Theorem g_rsq512_rank_ok : forall r symbol i v,
  rsq_lines_ok r -> i < 2 ^ 64 -> (forall p, v = Some p -> p < 2 ^ 64) ->
  rsq_rank 512 r symbol i = Val v ->
  g_rsq512_rank (rsq_wdata r) (rsq_pos r) (rs_superblocks (rsq_rs r)) symbol i = Val v.
Proof.
  intros r symbol i v Hr Hi Hv E.
  apply (g_rsq512_rank_sim (fun _ => True)
           (fun rs s j w _ _ _ _ E => eq_trans (g_rss512_rank_block_ok rs s j) E)); auto.
Qed.

(* RSQVector::select / select_unchecked *)
Theorem g_rsq256_select_ok : forall r symbol i v fuel,
  rsq_lines_ok r -> rss_typed (rsq_rs r) -> (S (length (rs_superblocks (rsq_rs r))) <= fuel)%nat ->
  (forall p, v = Some p -> p < 2 ^ 64) ->
  rsq_select 256 r symbol i = Val v ->
  g_rsq256_select fuel (rsq_wdata r) (rs_superblocks (rsq_rs r)) (rs_samples (rsq_rs r))
    (rsq_occs_smaller r) symbol i = Val v.
Proof. exact (g_rsq256_select_sim rss_typed rss_fuel select_block_sim256). Qed.
Theorem g_rsq512_select_ok : forall r symbol i v fuel,
  rsq_lines_ok r -> rss_typed (rsq_rs r) -> (S (length (rs_superblocks (rsq_rs r))) <= fuel)%nat ->
  (forall p, v = Some p -> p < 2 ^ 64) ->
  rsq_select 512 r symbol i = Val v ->
  g_rsq512_select fuel (rsq_wdata r) (rs_superblocks (rsq_rs r)) (rs_samples (rsq_rs r))
    (rsq_occs_smaller r) symbol i = Val v.
Proof. exact (g_rsq512_select_sim rss_typed rss_fuel select_block_sim512). Qed.
Theorem g_rsq256_select_unchecked_ok : forall r symbol i v fuel,
  rsq_lines_ok r -> rss_typed (rsq_rs r) -> (S (length (rs_superblocks (rsq_rs r))) <= fuel)%nat ->
  v < 2 ^ 64 ->
  rsq_select_unchecked 256 r symbol i = Val v ->
  g_rsq256_select_unchecked fuel (rsq_wdata r) (rs_superblocks (rsq_rs r)) (rs_samples (rsq_rs r))
    (rsq_occs_smaller r) symbol i = Val v.
Proof. exact (g_rsq256_select_unchecked_sim rss_typed rss_fuel select_block_sim256). Qed.
Theorem g_rsq512_select_unchecked_ok : forall r symbol i v fuel,
  rsq_lines_ok r -> rss_typed (rsq_rs r) -> (S (length (rs_superblocks (rsq_rs r))) <= fuel)%nat ->
  v < 2 ^ 64 ->
  rsq_select_unchecked 512 r symbol i = Val v ->
  g_rsq512_select_unchecked fuel (rsq_wdata r) (rs_superblocks (rsq_rs r)) (rs_samples (rsq_rs r))
    (rsq_occs_smaller r) symbol i = Val v.
Proof. exact (g_rsq512_select_unchecked_sim rss_typed rss_fuel select_block_sim512). Qed.

(* ================================================================== END TO END *)
From QwtModel Require Import QVecP RSQList RSQBuild RSQP.

(* what rsq_new builds: well-formed lines, the directory rss_new builds for the stored symbols, and the
   full contract of C05 *)
Lemma rsq_new_struct bsize vs r : (bsize = 256 \/ bsize = 512) -> len vs < RSQ_MAXN ->
  rsq_new bsize vs = Val r ->
  rsq_lines_ok r /\ rss_new bsize (map sym4 vs) = Val (rsq_rs r) /\ rsq_spec bsize r (map sym4 vs).
Proof.
  intros Hb Hn E.
  destruct (rsq_new_correct bsize vs Hb Hn) as (r' & E' & Hspec). rewrite E in E'. apply Val_inj in E'. subst r'.
  unfold rsq_new in E.
  destruct (qvb_push_all_inv (map (fun v => v mod 256) vs) qvb_new [] qvb_inv_new) as (q & Eq & Hq).
  rewrite Eq in E. cbn [bind app] in *.
  assert (Es : map sym4 (map (fun v => v mod 256) vs) = map sym4 vs).
  { rewrite map_map. apply map_ext. intros v. unfold sym4. lia. }
  rewrite Es in Hq.
  assert (HF : Forall (fun x => x < 4) (map sym4 vs)).
  { apply Forall_forall. intros x Hx. apply in_map_iff in Hx. destruct Hx as (v & <- & _). apply sym4_lt. }
  unfold rsq_from_qv in E. rewrite (qv_symbols_inv q _ Hq) in E. cbn [bind] in E.
  destruct (rss_new bsize (map sym4 vs)) as [rs|] eqn:Ers; cbn [bind] in E; [|discriminate].
  apply Val_inj in E. subst r. cbn [rsq_rs]. split; [|split; [reflexivity|exact Hspec]].
  unfold rsq_lines_ok. cbn [rsq_qv]. exact (qvb_inv_lines_ok q _ Hq HF).
Qed.

Lemma len_map_sym4 vs : len (map sym4 vs) = len vs.
Proof. unfold len. now rewrite map_length. Qed.

Lemma RSQ_MAXN_lt64 n : n < RSQ_MAXN -> n < 2 ^ 64.
Proof. rewrite RSQ_MAXN_val, p64. lia. Qed.

(* ---- the queries that do not touch the block directory: unconditional *)
Section E2E_plain.
  Variable bsize : N.
  Variable vs : list N.
  Variable r : rsq.
  Hypothesis Hb : bsize = 256 \/ bsize = 512.
  Hypothesis Hn : len vs < RSQ_MAXN.
  Hypothesis Hr : rsq_new bsize vs = Val r.
  Let s := map sym4 vs.

  Lemma e2e_lines : rsq_lines_ok r.
  Proof. now destruct (rsq_new_struct bsize vs r Hb Hn Hr). Qed.
  Lemma e2e_spec : rsq_spec bsize r s.
  Proof. now destruct (rsq_new_struct bsize vs r Hb Hn Hr) as (_ & _ & H). Qed.

  Theorem g_rsq_len_new : g_rsq256_len (rsq_pos r) = Val (len vs) /\ g_rsq512_len (rsq_pos r) = Val (len vs).
  Proof.
    destruct e2e_spec as (H & _). subst s. rewrite len_map_sym4 in H.
    rewrite g_rsq256_len_ok, g_rsq512_len_ok, H. split; reflexivity.
  Qed.
  Theorem g_rsq_is_empty_new :
    g_rsq256_is_empty (rsq_pos r) = Val (len vs =? 0) /\ g_rsq512_is_empty (rsq_pos r) = Val (len vs =? 0).
  Proof.
    destruct e2e_spec as (_ & H & _). subst s. rewrite len_map_sym4 in H.
    rewrite g_rsq256_is_empty_ok, g_rsq512_is_empty_ok, H. split; reflexivity.
  Qed.
  Theorem g_rsq_get_new : forall i,
    g_rsq256_get (rsq_wdata r) (rsq_pos r) i = Val (nthN s i) /\
    g_rsq512_get (rsq_wdata r) (rsq_pos r) i = Val (nthN s i).
  Proof.
    intros i. destruct e2e_spec as (_ & _ & H & _).
    rewrite g_rsq256_get_ok, g_rsq512_get_ok by exact e2e_lines. split; apply H.
  Qed.
  Theorem g_rsq_get_unchecked_new : forall i x, nthN s i = Some x ->
    g_rsq256_get_unchecked (rsq_wdata r) (rsq_pos r) i = Val x /\
    g_rsq512_get_unchecked (rsq_wdata r) (rsq_pos r) i = Val x.
  Proof.
    intros i x Hx. destruct e2e_spec as (_ & _ & _ & _ & _ & _ & _ & _ & H & _).
    rewrite g_rsq256_get_unchecked_ok, g_rsq512_get_unchecked_ok by exact e2e_lines. split; now apply H.
  Qed.
  Theorem g_rsq_occs_new : forall c,
    g_rsq256_occs (rsq_occs_smaller r) c = Val (if c <=? 3 then Some (countN c s) else None) /\
    g_rsq512_occs (rsq_occs_smaller r) c = Val (if c <=? 3 then Some (countN c s) else None).
  Proof.
    intros c. destruct e2e_spec as (_ & _ & _ & _ & _ & H & _).
    rewrite g_rsq256_occs_ok, g_rsq512_occs_ok. split; apply H.
  Qed.
  Theorem g_rsq_occs_smaller_new : forall c,
    g_rsq256_occs_smaller (rsq_occs_smaller r) c = Val (if c <=? 3 then Some (count_lt c s) else None) /\
    g_rsq512_occs_smaller (rsq_occs_smaller r) c = Val (if c <=? 3 then Some (count_lt c s) else None).
  Proof.
    intros c. destruct e2e_spec as (_ & _ & _ & _ & _ & _ & H & _).
    rewrite g_rsq256_occs_smaller_ok, g_rsq512_occs_smaller_ok. split; apply H.
  Qed.
  Theorem g_rsq_occs_unchecked_new : forall c, c <= 3 ->
    g_rsq256_occs_unchecked (rsq_occs_smaller r) c = Val (countN c s) /\
    g_rsq512_occs_unchecked (rsq_occs_smaller r) c = Val (countN c s).
  Proof.
    intros c Hc. destruct e2e_spec as (_ & _ & _ & _ & _ & _ & _ & _ & _ & _ & H & _).
    rewrite g_rsq256_occs_unchecked_ok, g_rsq512_occs_unchecked_ok. split; now apply H.
  Qed.
  Theorem g_rsq_occs_smaller_unchecked_new : forall c, c <= 3 ->
    g_rsq256_occs_smaller_unchecked (rsq_occs_smaller r) c = Val (count_lt c s) /\
    g_rsq512_occs_smaller_unchecked (rsq_occs_smaller r) c = Val (count_lt c s).
  Proof.
    intros c Hc. destruct e2e_spec as (_ & _ & _ & _ & _ & _ & _ & _ & _ & _ & _ & H & _).
    rewrite g_rsq256_occs_smaller_unchecked_ok, g_rsq512_occs_smaller_unchecked_ok. split; now apply H.
  Qed.
End E2E_plain.


(* ---- rank / select on what rsq_new builds: the generated functions return the list specification *)
Lemma rsq_new_dir bsize vs r : (bsize = 256 \/ bsize = 512) -> len vs < RSQ_MAXN ->
  rsq_new bsize vs = Val r ->
  rss_typed (rsq_rs r) /\ length (rs_superblocks (rsq_rs r)) = S (N.to_nat (len vs / (8 * bsize))).
Proof.
  intros Hb Hn Hr. destruct (rsq_new_struct bsize vs r Hb Hn Hr) as (_ & Hrs & _).
  assert (HF : Forall (fun x => x < 4) (map sym4 vs)).
  { apply Forall_forall. intros x Hx. apply in_map_iff in Hx. destruct Hx as (v & <- & _). apply sym4_lt. }
  destruct (rss_new_typed bsize (map sym4 vs) (rsq_rs r) Hb ltac:(now rewrite len_map_sym4) HF Hrs)
    as (H1 & H2 & H3).
  rewrite len_map_sym4 in H3. repeat split; assumption.
Qed.

Ltac e2e_rank_tac bsz rank_ok rank_none :=
  intros vs r Hn Hr c i; assert (Hb : bsz = 256 \/ bsz = 512) by (auto);
  destruct (rsq_new_struct bsz vs r Hb Hn Hr) as (Hl & _ & Hspec);
  destruct (rsq_new_dir bsz vs r Hb Hn Hr) as (Hty & Hlen);
  pose proof (RSQ_MAXN_lt64 _ Hn) as Hn64;
  pose proof (len_map_sym4 vs) as Hlm;
  destruct Hspec as (Hlen' & _ & _ & Hrank & _); rewrite Hlm in Hlen';
  rewrite <- Hlm;
  destruct (N.ltb_spec i (2 ^ 64)) as [Hi|Hi];
  [ apply rank_ok; [exact Hl|exact Hi| |apply Hrank];
    intros p; destruct ((c <=? 3) && (i <=? len (map sym4 vs))); [|discriminate];
    intros E; injection E as <-; rewrite rank_spec_rk; pose proof (rk_le (map sym4 vs) c i); lia
  | rewrite rank_none by lia; rewrite Hlm;
    destruct (N.leb_spec i (len vs)); [lia|]; now rewrite andb_false_r ].

Theorem g_rsq256_rank_new : forall vs r, len vs < RSQ_MAXN -> rsq_new 256 vs = Val r -> forall c i,
  g_rsq256_rank (rsq_wdata r) (rsq_pos r) (rs_superblocks (rsq_rs r)) c i
  = Val (if (c <=? 3) && (i <=? len vs) then Some (rank_spec (map sym4 vs) c i) else None).
Proof. e2e_rank_tac 256 g_rsq256_rank_ok g_rsq256_rank_none. Qed.
Theorem g_rsq512_rank_new : forall vs r, len vs < RSQ_MAXN -> rsq_new 512 vs = Val r -> forall c i,
  g_rsq512_rank (rsq_wdata r) (rsq_pos r) (rs_superblocks (rsq_rs r)) c i
  = Val (if (c <=? 3) && (i <=? len vs) then Some (rank_spec (map sym4 vs) c i) else None).
Proof. e2e_rank_tac 512 g_rsq512_rank_ok g_rsq512_rank_none. Qed.

Ltac e2e_rank_unchecked_tac bsz rank_u_ok :=
  intros vs r Hn Hr c i Hc Hi; assert (Hb : bsz = 256 \/ bsz = 512) by (auto);
  destruct (rsq_new_struct bsz vs r Hb Hn Hr) as (Hl & _ & Hspec);
  destruct (rsq_new_dir bsz vs r Hb Hn Hr) as (Hty & Hlen);
  pose proof (RSQ_MAXN_lt64 _ Hn) as Hn64;
  pose proof (len_map_sym4 vs) as Hlm;
  destruct Hspec as (_ & _ & _ & _ & _ & _ & _ & Hru & _);
  apply rank_u_ok; [exact Hl|lia| |apply Hru; [exact Hc|now rewrite Hlm]];
  rewrite rank_spec_rk; pose proof (rk_le (map sym4 vs) c i); lia.

Theorem g_rsq256_rank_unchecked_new : forall vs r, len vs < RSQ_MAXN -> rsq_new 256 vs = Val r ->
  forall c i, c <= 3 -> i <= len vs ->
  g_rsq256_rank_unchecked (rsq_wdata r) (rs_superblocks (rsq_rs r)) c i = Val (rank_spec (map sym4 vs) c i).
Proof. e2e_rank_unchecked_tac 256 g_rsq256_rank_unchecked_ok. Qed.
Theorem g_rsq512_rank_unchecked_new : forall vs r, len vs < RSQ_MAXN -> rsq_new 512 vs = Val r ->
  forall c i, c <= 3 -> i <= len vs ->
  g_rsq512_rank_unchecked (rsq_wdata r) (rs_superblocks (rsq_rs r)) c i = Val (rank_spec (map sym4 vs) c i).
Proof. e2e_rank_unchecked_tac 512 g_rsq512_rank_unchecked_ok. Qed.

(* the block directory alone (what the wavelet-tree prefetch estimation reads) *)
Ltac e2e_rank_block_tac bsz rb_ok :=
  intros vs r Hn Hr c i Hc Hi; assert (Hb : bsz = 256 \/ bsz = 512) by (auto);
  destruct (rsq_new_struct bsz vs r Hb Hn Hr) as (Hl & _ & Hspec);
  destruct (rsq_new_dir bsz vs r Hb Hn Hr) as (Hty & Hlen);
  pose proof (RSQ_MAXN_lt64 _ Hn) as Hn64;
  pose proof (len_map_sym4 vs) as Hlm;
  destruct Hspec as (_ & _ & _ & _ & _ & _ & _ & _ & _ & _ & _ & _ & Hrb);
  destruct (Hrb c i Hc ltac:(now rewrite Hlm)) as (v & E & Hv);
  exists v; split; [now rewrite rb_ok|exact Hv].

Theorem g_rsq256_rank_block_unchecked_new : forall vs r, len vs < RSQ_MAXN -> rsq_new 256 vs = Val r ->
  forall c i, c <= 3 -> i <= len vs ->
  exists v, g_rsq256_rank_block_unchecked (rs_superblocks (rsq_rs r)) c i = Val v /\
            v <= rank_spec (map sym4 vs) c i.
Proof. e2e_rank_block_tac 256 g_rsq256_rank_block_unchecked_ok. Qed.
Theorem g_rsq512_rank_block_unchecked_new : forall vs r, len vs < RSQ_MAXN -> rsq_new 512 vs = Val r ->
  forall c i, c <= 3 -> i <= len vs ->
  exists v, g_rsq512_rank_block_unchecked (rs_superblocks (rsq_rs r)) c i = Val v /\
            v <= rank_spec (map sym4 vs) c i.
Proof. e2e_rank_block_tac 512 g_rsq512_rank_block_unchecked_ok. Qed.

Ltac e2e_select_tac bsz sel_ok :=
  intros vs r Hn Hr c k fuel Hk Hf; assert (Hb : bsz = 256 \/ bsz = 512) by (auto);
  destruct (rsq_new_struct bsz vs r Hb Hn Hr) as (Hl & _ & Hspec);
  destruct (rsq_new_dir bsz vs r Hb Hn Hr) as (Hty & Hlen);
  pose proof (RSQ_MAXN_lt64 _ Hn) as Hn64;
  pose proof (len_map_sym4 vs) as Hlm;
  destruct Hspec as (_ & _ & _ & _ & Hsel & _);
  apply sel_ok; [exact Hl|exact Hty|rewrite Hlen; exact Hf| |apply Hsel; exact Hk];
  intros p; destruct (c <=? 3); [|discriminate]; intros E;
  apply select_spec_bounds in E; lia.

Theorem g_rsq256_select_new : forall vs r, len vs < RSQ_MAXN -> rsq_new 256 vs = Val r ->
  forall c k fuel, k < 2 ^ 64 -> (S (S (N.to_nat (len vs / (8 * 256)))) <= fuel)%nat ->
  g_rsq256_select fuel (rsq_wdata r) (rs_superblocks (rsq_rs r)) (rs_samples (rsq_rs r))
    (rsq_occs_smaller r) c k
  = Val (if c <=? 3 then select_spec (map sym4 vs) c k else None).
Proof. e2e_select_tac 256 g_rsq256_select_ok. Qed.
Theorem g_rsq512_select_new : forall vs r, len vs < RSQ_MAXN -> rsq_new 512 vs = Val r ->
  forall c k fuel, k < 2 ^ 64 -> (S (S (N.to_nat (len vs / (8 * 512)))) <= fuel)%nat ->
  g_rsq512_select fuel (rsq_wdata r) (rs_superblocks (rsq_rs r)) (rs_samples (rsq_rs r))
    (rsq_occs_smaller r) c k
  = Val (if c <=? 3 then select_spec (map sym4 vs) c k else None).
Proof. e2e_select_tac 512 g_rsq512_select_ok. Qed.

Ltac e2e_select_unchecked_tac bsz sel_u_ok :=
  intros vs r Hn Hr c k p fuel Hc Hsp Hf; assert (Hb : bsz = 256 \/ bsz = 512) by (auto);
  destruct (rsq_new_struct bsz vs r Hb Hn Hr) as (Hl & _ & Hspec);
  destruct (rsq_new_dir bsz vs r Hb Hn Hr) as (Hty & Hlen);
  pose proof (RSQ_MAXN_lt64 _ Hn) as Hn64;
  pose proof (len_map_sym4 vs) as Hlm;
  destruct Hspec as (_ & _ & _ & _ & _ & _ & _ & _ & _ & Hsu & _);
  apply sel_u_ok; [exact Hl|exact Hty|rewrite Hlen; exact Hf| |now apply Hsu];
  apply select_spec_bounds in Hsp; lia.

Theorem g_rsq256_select_unchecked_new : forall vs r, len vs < RSQ_MAXN -> rsq_new 256 vs = Val r ->
  forall c k p fuel, c <= 3 -> select_spec (map sym4 vs) c k = Some p ->
  (S (S (N.to_nat (len vs / (8 * 256)))) <= fuel)%nat ->
  g_rsq256_select_unchecked fuel (rsq_wdata r) (rs_superblocks (rsq_rs r)) (rs_samples (rsq_rs r))
    (rsq_occs_smaller r) c k = Val p.
Proof. e2e_select_unchecked_tac 256 g_rsq256_select_unchecked_ok. Qed.
Theorem g_rsq512_select_unchecked_new : forall vs r, len vs < RSQ_MAXN -> rsq_new 512 vs = Val r ->
  forall c k p fuel, c <= 3 -> select_spec (map sym4 vs) c k = Some p ->
  (S (S (N.to_nat (len vs / (8 * 512)))) <= fuel)%nat ->
  g_rsq512_select_unchecked fuel (rsq_wdata r) (rs_superblocks (rsq_rs r)) (rs_samples (rsq_rs r))
    (rsq_occs_smaller r) c k = Val p.
Proof. e2e_select_unchecked_tac 512 g_rsq512_select_unchecked_ok. Qed.

(* Default::default() is the case vs = [] of the theorems above *)
Lemma rsq_default_is_new bsize : rsq_default bsize = rsq_new bsize [].
Proof. reflexivity. Qed.

(* ---- non-vacuity: the generated functions evaluated (vm_compute) on the word view of what rsq_new
   builds for the 600-symbol example of Proofs/RSQP.v (same expected values as rsq_example_checks) *)
Definition g_rsq_example_checks256 : Prop :=
  match rsq_new 256 rsq_example_input with
  | Val r =>
      let d := rsq_wdata r in let p := rsq_pos r in
      let sb := rs_superblocks (rsq_rs r) in let sm := rs_samples (rsq_rs r) in
      let oc := rsq_occs_smaller r in
      g_rsq256_len p = Val 600 /\ g_rsq256_get d p 599 = Val (Some 0) /\
      g_rsq256_rank d p sb 2 300 = Val (Some 87) /\ g_rsq256_rank d p sb 0 600 = Val (Some 173) /\
      g_rsq256_rank d p sb 1 601 = Val None /\
      g_rsq256_select 3 d sb sm oc 1 100 = Val (Some 460) /\ g_rsq256_select 3 d sb sm oc 3 0 = Val (Some 4) /\
      g_rsq256_select 3 d sb sm oc 2 149 = Val (Some 528) /\ g_rsq256_select 3 d sb sm oc 2 1000 = Val None /\
      g_rsq256_occs oc 3 = Val (Some 129) /\ g_rsq256_occs_smaller oc 2 = Val (Some 301) /\
      g_rsq256_select_unchecked 3 d sb sm oc 2 149 = Val 528 /\ g_rsq256_rank_unchecked d sb 2 300 = Val 87
  | Fault _ => False
  end.
Definition g_rsq_example_checks512 : Prop :=
  match rsq_new 512 rsq_example_input with
  | Val r =>
      let d := rsq_wdata r in let p := rsq_pos r in
      let sb := rs_superblocks (rsq_rs r) in let sm := rs_samples (rsq_rs r) in
      let oc := rsq_occs_smaller r in
      g_rsq512_len p = Val 600 /\ g_rsq512_get d p 599 = Val (Some 0) /\
      g_rsq512_rank d p sb 2 300 = Val (Some 87) /\ g_rsq512_rank d p sb 0 600 = Val (Some 173) /\
      g_rsq512_rank d p sb 1 601 = Val None /\
      g_rsq512_select 3 d sb sm oc 1 100 = Val (Some 460) /\ g_rsq512_select 3 d sb sm oc 3 0 = Val (Some 4) /\
      g_rsq512_select 3 d sb sm oc 2 149 = Val (Some 528) /\ g_rsq512_select 3 d sb sm oc 2 1000 = Val None /\
      g_rsq512_occs oc 3 = Val (Some 129) /\ g_rsq512_occs_smaller oc 2 = Val (Some 301) /\
      g_rsq512_select_unchecked 3 d sb sm oc 2 149 = Val 528 /\ g_rsq512_rank_unchecked d sb 2 300 = Val 87
  | Fault _ => False
  end.
Example g_rsq_example_256 : g_rsq_example_checks256.
Proof. vm_compute. repeat split; reflexivity. Qed.
Example g_rsq_example_512 : g_rsq_example_checks512.
Proof. vm_compute. repeat split; reflexivity. Qed.

(* ------------------------------------------------------------------ summary / findings
   EQUALITIES (E), for every r with well-formed lines ([rsq_lines_ok]; none needed where not listed):
     len, is_empty, occs, occs_unchecked, occs_smaller, occs_smaller_unchecked   (no hypothesis at all)
     get, get_unchecked, rank_intra_block (256)                                 (rsq_lines_ok)
     rank_intra_block (512)                                                     (rsq_lines_ok, i < 2^64: `block_id * 2` is checked usize arithmetic)
     select_intra_block                                                         (rsq_lines_ok, symbol <= 3, pos < 2^64)
     rank_block_unchecked                                                       (no hypothesis; from Proofs/FnsRssOk.v)
   SIMULATIONS (S): rank_unchecked / rank (the source adds in checked usize arithmetic: result < 2^64),
     select / select_unchecked (result < 2^64, typed directory [rss_typed], fuel >= S (number of superblocks)).
     The same four are also proved inside Sections Sim256 / Sim512 from two abstract simulation facts about
     rank_block / select_block (any well-formedness predicate, any fuel bound): the _sim theorems.
   END TO END (_new theorems): for every vs with len vs < RSQ_MAXN (= 2^43 - 4096) and r = rsq_new bsize vs,
     the generated functions on the word view of r return the list specification on map sym4 vs
     (the 13 conjuncts of rsq_spec / C05), with no further premise; Default::default() is vs = [].
   FINDING (hand model looser than the source on an out-of-contract input of a PRIVATE function):
     select_intra_block with symbol in 4..255 (u8): DataLine::normalize indexes REPEATEDSYMB[symbol >> 1]
     (two entries) and panics -- g_rsq256_select_intra_block d 4 1 0 = Fault Panic for any non-empty d --
     whereas rsq_select_intra_block 256 r 4 1 0 = Val 0 (sel_line just counts).  Every caller (select)
     checks symbol <= 3 first, so no public function is affected; the equality is stated for symbol <= 3. *)

Print Assumptions g_rsq256_len_ok.
Print Assumptions g_rsq512_len_ok.
Print Assumptions g_rsq256_is_empty_ok.
Print Assumptions g_rsq512_is_empty_ok.
Print Assumptions g_rsq256_get_unchecked_ok.
Print Assumptions g_rsq512_get_unchecked_ok.
Print Assumptions g_rsq256_get_ok.
Print Assumptions g_rsq512_get_ok.
Print Assumptions g_rsq256_occs_unchecked_ok.
Print Assumptions g_rsq512_occs_unchecked_ok.
Print Assumptions g_rsq256_occs_ok.
Print Assumptions g_rsq512_occs_ok.
Print Assumptions g_rsq256_occs_smaller_unchecked_ok.
Print Assumptions g_rsq512_occs_smaller_unchecked_ok.
Print Assumptions g_rsq256_occs_smaller_ok.
Print Assumptions g_rsq512_occs_smaller_ok.
Print Assumptions g_rsq256_rank_intra_block_ok.
Print Assumptions g_rsq512_rank_intra_block_ok.
Print Assumptions g_rsq256_select_intra_block_ok.
Print Assumptions g_rsq512_select_intra_block_ok.
Print Assumptions g_rsq256_rank_block_unchecked_sim.
Print Assumptions g_rsq256_rank_unchecked_sim.
Print Assumptions g_rsq256_rank_sim.
Print Assumptions g_rsq256_select_sim.
Print Assumptions g_rsq256_select_unchecked_sim.
Print Assumptions g_rsq256_rank_none.
Print Assumptions g_rsq512_rank_block_unchecked_sim.
Print Assumptions g_rsq512_rank_unchecked_sim.
Print Assumptions g_rsq512_rank_sim.
Print Assumptions g_rsq512_select_sim.
Print Assumptions g_rsq512_select_unchecked_sim.
Print Assumptions g_rsq512_rank_none.
Print Assumptions g_rsq256_rank_block_unchecked_ok.
Print Assumptions g_rsq512_rank_block_unchecked_ok.
Print Assumptions g_rsq256_rank_unchecked_ok.
Print Assumptions g_rsq512_rank_unchecked_ok.
Print Assumptions g_rsq256_rank_ok.
Print Assumptions g_rsq512_rank_ok.
Print Assumptions g_rsq256_select_ok.
Print Assumptions g_rsq512_select_ok.
Print Assumptions g_rsq256_select_unchecked_ok.
Print Assumptions g_rsq512_select_unchecked_ok.
Print Assumptions g_rsq_len_new.
Print Assumptions g_rsq_is_empty_new.
Print Assumptions g_rsq_get_new.
Print Assumptions g_rsq_get_unchecked_new.
Print Assumptions g_rsq_occs_new.
Print Assumptions g_rsq_occs_smaller_new.
Print Assumptions g_rsq_occs_unchecked_new.
Print Assumptions g_rsq_occs_smaller_unchecked_new.
Print Assumptions g_rsq256_rank_new.
Print Assumptions g_rsq512_rank_new.
Print Assumptions g_rsq256_rank_unchecked_new.
Print Assumptions g_rsq512_rank_unchecked_new.
Print Assumptions g_rsq256_rank_block_unchecked_new.
Print Assumptions g_rsq512_rank_block_unchecked_new.
Print Assumptions g_rsq256_select_new.
Print Assumptions g_rsq512_select_new.
Print Assumptions g_rsq256_select_unchecked_new.
Print Assumptions g_rsq512_select_unchecked_new.
Print Assumptions g_rsq_example_256.
Print Assumptions g_rsq_example_512.

(* the finding above, evaluated: one all-zero line, symbol = 4 *)
Example select_intra_block_symbol4 :
  let r := mk_rsq (mk_qvec [repeat 0 256] 512) (mk_rss [] []) [] in
  rsq_lines_ok r /\
  g_rsq256_select_intra_block (rsq_wdata r) 4 1 0 = Fault Panic /\
  rsq_select_intra_block 256 r 4 1 0 = Val 0.
Proof.
  split; [|vm_compute; split; reflexivity].
  constructor; [|constructor]. split; [reflexivity|]. apply Forall_forall. intros x Hx.
  apply repeat_spec in Hx. subst x. reflexivity.
Qed.
Print Assumptions select_intra_block_symbol4.
