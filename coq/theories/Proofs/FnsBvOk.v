(* T5 (BitVector accessors: DataLine::get_word, get_bit_slice, is_empty, len, get_unchecked, get): the
   definitions REGENERATED from src/bitvector/mod.rs (Gen/FnsBv.v, tools/gen_fns.py) agree with the hand
   model (Model/BitVec.v).

   The generated functions see the data as the code does, a `Box<[DataLine]>` = list of lines of 8 words
   ([list (list N)]); the hand model keeps the flat word slice [bv_words].  The two are related by
       data = chunks 8 (bv_words b)
   and the first part of this file gives the general facts about [chunks] used here and by the files about
   RSNarrow / RSWide (Proofs/FnsRsn2Ok.v ...):
       concat_chunks      concat (chunks (S k) l) = l
       nthN_chunks        i * 8 < len ws -> nthN (chunks 8 ws) i = Some (firstn 8 (skipnN (i * 8) ws))
       nthN_chunks_none   len ws <= i * 8 -> nthN (chunks 8 ws) i = None
       nthN_line          j < 8 -> nthN (firstn 8 (skipnN (i * 8) ws)) j = nthN ws (i * 8 + j)
       idx_line           j < 8 -> idx  (firstn 8 (skipnN (i * 8) ws)) j = idx  ws (i * 8 + j)
       chunks_word        nthN ws i = Some w -> exists line, nthN (chunks 8 ws) (i >> 3) = Some line /\
                                                              nthN line (i mod 8) = Some w
       chunks_lines8      len ws mod 8 = 0 -> Forall (fun l => len l = 8) (chunks 8 ws)

   All the statements about the accessors are EQUALITIES (shape (E)); the only hypothesis that appears is
   "the number of words is a multiple of 8" for DataLine::get_word composed with the line lookup. *)
From Coq Require Import ZArith Lia ZifyBool ZifyN ZifyNat.
From QwtModel Require Import ListX Loops Consts SelTable Words BitVec ListXP LeavesUtils FnsBv LeavesLib.
Open Scope N_scope.
Ltac Zify.zify_post_hook ::= Z.div_mod_to_equations.
Arguments N.add : simpl never.
Arguments N.sub : simpl never.
Arguments N.mul : simpl never.
Arguments N.eqb : simpl never.
Arguments N.ltb : simpl never.
Arguments N.leb : simpl never.
Arguments N.pred : simpl never.
Arguments N.of_nat : simpl never.
Arguments N.land : simpl never.
Arguments N.shiftr : simpl never.
Arguments N.div : simpl never.
Arguments N.modulo : simpl never.
Arguments N.pow : simpl never.

(* ================================================================== general list facts *)
Lemma nthN_skipnN {A} : forall (l : list A) a j, nthN (skipnN a l) j = nthN l (a + j).
Proof.
  induction l as [|x l IH]; intros a j; [reflexivity|].
  cbn [skipnN]. destruct (N.eqb_spec a 0) as [->|Ha]; [now rewrite N.add_0_l|].
  rewrite IH. cbn [nthN]. destruct (N.eqb_spec (a + j) 0) as [E|_]; [lia|].
  f_equal. lia.
Qed.

Lemma nthN_firstn {A} : forall (n : nat) (l : list A) j, j < N.of_nat n -> nthN (firstn n l) j = nthN l j.
Proof.
  induction n as [|n IH]; intros l j Hj; [lia|].
  destruct l as [|x l]; [reflexivity|]. cbn [firstn nthN].
  destruct (N.eqb_spec j 0); [reflexivity|]. apply IH. lia.
Qed.

Lemma nthN_firstn_none {A} : forall (n : nat) (l : list A) j, N.of_nat n <= j -> nthN (firstn n l) j = None.
Proof.
  intros n l j Hj. apply nthN_none. unfold len. pose proof (firstn_le_length n l). lia.
Qed.

Lemma nthN_line {A} (ws : list A) i j : j < 8 -> nthN (firstn 8 (skipnN (i * 8) ws)) j = nthN ws (i * 8 + j).
Proof. intros Hj. rewrite nthN_firstn by exact Hj. apply nthN_skipnN. Qed.

Lemma idx_line {A} (ws : list A) i j : j < 8 -> idx (firstn 8 (skipnN (i * 8) ws)) j = idx ws (i * 8 + j).
Proof. intros Hj. unfold idx. now rewrite nthN_line. Qed.

Lemma uidx_line {A} (ws : list A) i j : j < 8 -> uidx (firstn 8 (skipnN (i * 8) ws)) j = uidx ws (i * 8 + j).
Proof. intros Hj. unfold uidx. now rewrite nthN_line. Qed.

(* ------------------------------------------------------------------ chunks *)
Lemma concat_chunks_aux {A} (k : nat) : forall fuel (l : list A), (length l <= fuel)%nat ->
  concat (chunks_aux (S k) l fuel) = l.
Proof.
  induction fuel as [|f IH]; intros l Hl.
  - destruct l; [reflexivity|cbn [length] in Hl; lia].
  - cbn [chunks_aux]. destruct l as [|x l]; [reflexivity|].
    cbn [concat]. rewrite IH.
    + apply firstn_skipn.
    + rewrite skipn_length. cbn [length] in *. lia.
Qed.

Lemma concat_chunks {A} (k : nat) (l : list A) : concat (chunks (S k) l) = l.
Proof. apply concat_chunks_aux. lia. Qed.

Lemma skipn_skipn_add {A} : forall (b a : nat) (l : list A), skipn a (skipn b l) = skipn (b + a) l.
Proof.
  induction b as [|b IH]; intros a l; [reflexivity|].
  destruct l as [|x l]; [now destruct a|]. cbn [skipn Nat.add]. apply IH.
Qed.

Lemma skipnN_skipn8 {A} (l : list A) i : 0 < i -> skipnN ((i - 1) * 8) (skipn 8 l) = skipnN (i * 8) l.
Proof.
  intros Hi. rewrite !skipnN_skipn, skipn_skipn_add. f_equal. lia.
Qed.

Lemma nthN_chunks_aux {A} : forall fuel (l : list A) i, (length l <= fuel)%nat -> i * 8 < len l ->
  nthN (chunks_aux 8 l fuel) i = Some (firstn 8 (skipnN (i * 8) l)).
Proof.
  induction fuel as [|f IH]; intros l i Hf Hi.
  - destruct l; [unfold len in Hi; cbn [length] in Hi; lia|cbn [length] in Hf; lia].
  - cbn [chunks_aux]. destruct l as [|x l]; [unfold len in Hi; cbn [length] in Hi; lia|].
    cbn [nthN]. destruct (N.eqb_spec i 0) as [->|Hne].
    + reflexivity.
    + replace (N.pred i) with (i - 1) by lia. rewrite IH.
      * rewrite skipnN_skipn8 by lia. reflexivity.
      * rewrite skipn_length. cbn [length] in *. lia.
      * unfold len in *. rewrite skipn_length. lia.
Qed.

Lemma nthN_chunks {A} (ws : list A) i : i * 8 < len ws ->
  nthN (chunks 8 ws) i = Some (firstn 8 (skipnN (i * 8) ws)).
Proof. intros Hi. apply nthN_chunks_aux; [lia|exact Hi]. Qed.

Lemma nthN_chunks_aux_none {A} : forall fuel (l : list A) i, len l <= i * 8 ->
  nthN (chunks_aux 8 l fuel) i = None.
Proof.
  induction fuel as [|f IH]; intros l i Hi; [reflexivity|].
  cbn [chunks_aux]. destruct l as [|x l]; [reflexivity|].
  cbn [nthN]. destruct (N.eqb_spec i 0) as [->|Hne].
  - unfold len in Hi. cbn [length] in Hi. lia.
  - apply IH. unfold len in *. rewrite skipn_length. lia.
Qed.

Lemma nthN_chunks_none {A} (ws : list A) i : len ws <= i * 8 -> nthN (chunks 8 ws) i = None.
Proof. apply nthN_chunks_aux_none. Qed.

(* the word with flat index i is word i mod 8 of line i >> 3 *)
Lemma word_split i : N.shiftr i 3 * 8 + i mod 8 = i.
Proof. rewrite N.shiftr_div_pow2. change (2 ^ 3) with 8. lia. Qed.

Lemma chunks_word {A} (ws : list A) i w : nthN ws i = Some w ->
  exists line, nthN (chunks 8 ws) (N.shiftr i 3) = Some line /\ nthN line (i mod 8) = Some w.
Proof.
  intros E. pose proof (nthN_some_lt _ _ _ E) as Hi. pose proof (word_split i) as Hs.
  exists (firstn 8 (skipnN (N.shiftr i 3 * 8) ws)). split.
  - apply nthN_chunks. lia.
  - rewrite nthN_line by lia. now rewrite Hs.
Qed.

(* with a whole number of lines, every line has its 8 words *)
Lemma chunks_aux_lines8 {A} : forall fuel (l : list A), (length l mod 8 = 0)%nat ->
  Forall (fun c => len c = 8) (chunks_aux 8 l fuel).
Proof.
  induction fuel as [|f IH]; intros l Hm; [constructor|].
  cbn [chunks_aux]. destruct l as [|x l]; [constructor|].
  constructor.
  - unfold len. rewrite firstn_length. cbn [length] in *. lia.
  - apply IH. rewrite skipn_length. cbn [length] in *. lia.
Qed.

Lemma chunks_lines8 {A} (ws : list A) : len ws mod 8 = 0 -> Forall (fun c => len c = 8) (chunks 8 ws).
Proof. intros H. apply chunks_aux_lines8. unfold len in H. lia. Qed.

Lemma len_chunks {A} (ws : list A) : len ws mod 8 = 0 -> len (chunks 8 ws) = len ws / 8.
Proof.
  intros H. pose proof (len_concat_uniform 8 _ (chunks_lines8 ws H)) as E.
  rewrite (concat_chunks 7) in E. lia.
Qed.

(* line lookup followed by word lookup = flat lookup, on a whole number of lines *)
Lemma nthN_chunks_word {A} (ws : list A) i : len ws mod 8 = 0 ->
  match nthN (chunks 8 ws) (N.shiftr i 3) with Some l => nthN l (i mod 8) | None => None end = nthN ws i.
Proof.
  intros Hm. pose proof (word_split i) as Hs.
  destruct (N.ltb_spec (N.shiftr i 3 * 8) (len ws)) as [Hi|Hi].
  - rewrite nthN_chunks by exact Hi. rewrite nthN_line by lia. now rewrite Hs.
  - rewrite nthN_chunks_none by exact Hi. symmetry. apply nthN_none. lia.
Qed.

(* ================================================================== the accessors *)

(* ------------------------------------------------------------------ DataLine::get_word *)
(* on its own: the assertion, then the index *)
Theorem g_bline_get_word_spec : forall (line : list N) i,
  g_bline_get_word line i = if i <? 8 then idx line i else Fault Panic.
Proof. intros line i. unfold g_bline_get_word, oassert. now destruct (i <? 8). Qed.

(* BitVector::get_word(i) = self.data[i >> 3].get_word(i % 8) against the flat model *)
Theorem g_bline_get_word_ok : forall b i, len (bv_words b) mod 8 = 0 ->
  (let! l := idx (chunks 8 (bv_words b)) (N.shiftr i 3) in g_bline_get_word l (i mod 8)) = bv_get_word b i.
Proof.
  intros b i Hm. unfold bv_get_word, idx.
  rewrite <- (nthN_chunks_word (bv_words b) i Hm).
  destruct (nthN (chunks 8 (bv_words b)) (N.shiftr i 3)) as [l|]; cbn [bind]; [|reflexivity].
  rewrite g_bline_get_word_spec. destruct (N.ltb_spec (i mod 8) 8) as [_|H]; [reflexivity|lia].
Qed.

(* the same through get_unchecked on the lines (as RSNarrow::rank1_unchecked does), when the line exists *)
Lemma g_bline_get_word_line : forall (ws : list N) i w, nthN ws i = Some w ->
  exists line, nthN (chunks 8 ws) (N.shiftr i 3) = Some line /\ g_bline_get_word line (i mod 8) = Val w.
Proof.
  intros ws i w E. destruct (chunks_word ws i w E) as (line & E1 & E2).
  exists line. split; [exact E1|]. rewrite g_bline_get_word_spec.
  destruct (N.ltb_spec (i mod 8) 8) as [_|H]; [|lia]. unfold idx. now rewrite E2.
Qed.

(* ------------------------------------------------------------------ get_bit_slice *)
(* `>> pos_in_word` with pos_in_word = index & 63 never overflows: unconditional equality *)
Theorem g_get_bit_slice_ok : forall ws index, g_get_bit_slice ws index = bv_get_bit_slice ws index.
Proof.
  intros ws index. unfold g_get_bit_slice, bv_get_bit_slice. cbv zeta.
  obind. unfold oshr.
  assert (H : N.land index 63 < 2 ^ 6) by (change 63 with (N.ones 6); apply land_ones_lt).
  change (2 ^ 6) with 64 in H.
  destruct (N.ltb_spec (N.land index 63) 64) as [_|]; [|lia]. reflexivity.
Qed.

(* ------------------------------------------------------------------ is_empty / len *)
Theorem g_bv_is_empty_ok : forall b, g_bv_is_empty (bv_nbits b) = Val (bv_is_empty b).
Proof. reflexivity. Qed.

Theorem g_bv_len_ok : forall b, g_bv_len (bv_nbits b) = Val (bv_len b).
Proof. reflexivity. Qed.

(* ------------------------------------------------------------------ get_unchecked / get *)
(* [data] is any list of lines whose concatenation is the word slice; [chunks 8] is one (concat_chunks) *)
Theorem g_bv_get_unchecked_ok : forall b data index, concat data = bv_words b ->
  g_bv_get_unchecked data index = bv_get_unchecked b index.
Proof.
  intros b data index E. unfold g_bv_get_unchecked, bv_get_unchecked. rewrite E. apply g_get_bit_slice_ok.
Qed.

Theorem g_bv_get_ok : forall b data index, concat data = bv_words b ->
  g_bv_get data (bv_nbits b) index = bv_get b index.
Proof.
  intros b data index E. unfold g_bv_get, bv_get, g_bv_len. cbn [bind].
  destruct (bv_nbits b <=? index); [reflexivity|].
  now rewrite (g_bv_get_unchecked_ok b data index E).
Qed.

Corollary g_bv_get_unchecked_chunks : forall b index,
  g_bv_get_unchecked (chunks 8 (bv_words b)) index = bv_get_unchecked b index.
Proof. intros. apply g_bv_get_unchecked_ok, (concat_chunks 7). Qed.

Corollary g_bv_get_chunks : forall b index,
  g_bv_get (chunks 8 (bv_words b)) (bv_nbits b) index = bv_get b index.
Proof. intros. apply g_bv_get_ok, (concat_chunks 7). Qed.

Print Assumptions g_bline_get_word_spec.
Print Assumptions g_bline_get_word_ok.
Print Assumptions g_get_bit_slice_ok.
Print Assumptions g_bv_is_empty_ok.
Print Assumptions g_bv_len_ok.
Print Assumptions g_bv_get_unchecked_ok.
Print Assumptions g_bv_get_ok.
Print Assumptions g_bv_get_unchecked_chunks.
Print Assumptions g_bv_get_chunks.
