(* T5 (RSSupportPlain / SuperblockPlain: block_predecessor, get_block_counter, superblock_index, block_index,
   rank_block, select_block; both block sizes): the functions REGENERATED from
   src/qvector/rs_qvector/rs_support_plain.rs (Gen/FnsRss.v) agree with the hand model (Model/RSQ.v), and the
   theorems about the hand model (Proofs/RSQRank.v, RSQSelect.v, RSQBuild.v) transfer to them. *)
From Coq Require Import ZArith Lia ZifyBool ZifyN ZifyNat.
From QwtModel Require Import ListX Loops Seq Consts SelTable Words QVec RSQ LeavesSB FnsRss LeavesLib ListXP ConstsOk
  RSQBits RSQWord RSQList RSQBuild RSQRank RSQSelect.
Open Scope N_scope.

(* ------------------------------------------------------------------ small helpers *)
Lemma oadd_Val w a b : a + b < 2 ^ w -> oadd w a b = Val (a + b).
Proof. intros H. unfold oadd. now destruct (N.ltb_spec (a + b) (2 ^ w)); [|lia]. Qed.
Lemma omul_Val w a b : a * b < 2 ^ w -> omul w a b = Val (a * b).
Proof. intros H. unfold omul. now destruct (N.ltb_spec (a * b) (2 ^ w)); [|lia]. Qed.
Lemma osub_Val' a b : b <= a -> osub a b = Val (a - b).
Proof. intros H. unfold osub. now destruct (N.leb_spec b a); [|lia]. Qed.

Lemma idx_lt {A} (l : list A) i a : idx l i = Val a -> i < len l.
Proof. unfold idx. destruct (nthN l i) eqn:E; [|discriminate]. intros _. eapply nthN_some_lt; eassumption. Qed.

Lemma idx_Some {A} (l : list A) i a : idx l i = Val a -> nthN l i = Some a.
Proof. unfold idx. destruct (nthN l i); [|discriminate]. intros E. now apply Val_inj in E; subst. Qed.
Lemma uidx_Some {A} (l : list A) i a : uidx l i = Val a -> nthN l i = Some a.
Proof. unfold uidx. destruct (nthN l i); [|discriminate]. intros E. now apply Val_inj in E; subst. Qed.

Lemma land4095_lt x : N.land x 4095 < 4096.
Proof. apply (land_lt_r x 4095 12). reflexivity. Qed.

(* the leaf equalities of Proofs/LeavesSBOk.v hold without their (unused) range hypotheses; restated so
   that the theorems below need no hypothesis on the counters *)
Lemma g_sb_get_rank_eq ws symbol block_id : g_sb_get_rank ws symbol block_id = sb_get_rank ws symbol block_id.
Proof.
  unfold g_sb_get_rank, sb_get_rank, SB_SHIFT_GR, BLK_BITS_GR, BLK_MASK_GR. cbv zeta.
  repeat obind. reflexivity.
Qed.
Lemma g_sb_get_superblock_counter_eq ws symbol :
  g_sb_get_superblock_counter ws symbol = sb_get_superblock_counter ws symbol.
Proof. unfold g_sb_get_superblock_counter, sb_get_superblock_counter, SB_SHIFT_GC. obind. reflexivity. Qed.

(* ------------------------------------------------------------------ fuel monotonicity of while_loop *)
Lemma while_loop_mono {S R} (cond : S -> outcome bool) (body : S -> outcome (step S R)) :
  forall f s v, while_loop cond body f s = Val v -> forall f', (f <= f')%nat -> while_loop cond body f' s = Val v.
Proof.
  induction f as [|f IH]; intros s v E f' Hf; [discriminate|].
  destruct f' as [|f']; [lia|]. cbn [while_loop] in *.
  destruct (cond s) as [c|]; cbn [bind] in *; [|discriminate].
  destruct c; [|exact E].
  destruct (body s) as [[s'|s'|r]|]; cbn [bind] in *; try exact E; try discriminate.
  apply (IH _ _ E). lia.
Qed.

(* more fuel never changes a result other than Fault OutOfFuel *)
Lemma while_loop_mono' {S R} (cond : S -> outcome bool) (body : S -> outcome (step S R)) :
  forall f s, while_loop cond body f s <> Fault OutOfFuel ->
  forall f', (f <= f')%nat -> while_loop cond body f' s = while_loop cond body f s.
Proof.
  induction f as [|f IH]; intros s E f' Hf; [now contradiction E|].
  destruct f' as [|f']; [lia|]. cbn [while_loop] in *.
  destruct (cond s) as [c|]; cbn [bind] in *; [|reflexivity].
  destruct c; [|reflexivity].
  destruct (body s) as [[s'|s'|r]|]; cbn [bind] in *; try reflexivity.
  apply IH; [exact E|lia].
Qed.

(* ------------------------------------------------------------------ SuperblockPlain::get_block_counter *)
(* no hand-model counterpart: the 12-bit field that sb_get_rank adds *)
Theorem g_sb_get_block_counter_ok : forall counters symbol block_id w,
  idx counters symbol = Val w -> 1 <= block_id <= 7 ->
  g_sb_get_block_counter counters symbol block_id = Val (N.land (N.shiftr w ((block_id - 1) * 12)) 4095).
Proof.
  intros counters symbol b w E Hb. unfold g_sb_get_block_counter.
  replace (b <? 8) with true by lia. cbn [odebug_assert bind].
  replace (b =? 0) with false by lia. rewrite E. cbn [bind].
  rewrite osub_Val' by lia. cbn [bind].
  rewrite omul_Val by (norm_pow; lia). cbn [bind].
  unfold oshr. replace ((b - 1) * 12 <? 128) with true by lia. cbn [bind].
  rewrite N.mod_small; [reflexivity|]. pose proof (land4095_lt (N.shiftr w ((b - 1) * 12))). norm_pow. lia.
Qed.
Theorem g_sb_get_block_counter_0 : forall counters symbol,
  g_sb_get_block_counter counters symbol 0 = Val 0.
Proof. reflexivity. Qed.

(* it is the field get_rank adds to the superblock counter *)
Theorem g_sb_get_rank_block_counter : forall counters symbol block_id w c,
  idx counters symbol = Val w -> w < 2 ^ 128 -> 1 <= block_id <= 7 ->
  g_sb_get_block_counter counters symbol block_id = Val c ->
  g_sb_get_rank counters symbol block_id = Val (N.shiftr w 84 mod 2 ^ 64 + c).
Proof.
  intros counters symbol b w c E Hw Hb Ec.
  rewrite (g_sb_get_block_counter_ok counters symbol b w E Hb) in Ec. apply Val_inj in Ec. subst c.
  unfold g_sb_get_rank, uidx. rewrite (idx_Some _ _ _ E). cbn [bind].
  replace (0 <? b) with true by lia. rewrite osub_Val' by lia. cbn [bind].
  rewrite omul_Val by (norm_pow; lia). cbn [bind].
  unfold oshr. replace ((b - 1) * 12 <? 128) with true by lia. cbn [bind].
  rewrite land_mod_low.
  pose proof (land4095_lt (N.shiftr w ((b - 1) * 12))) as Hf.
  pose proof (shiftr_lt w 84 44 Hw) as Hs.
  assert (Hm : N.shiftr w 84 mod 2 ^ 64 <= N.shiftr w 84) by (apply N.mod_le; norm_pow; lia).
  rewrite omul_Val by (norm_pow; lia). cbn [bind].
  rewrite N.mul_1_r. apply oadd_Val. norm_pow. norm_pow in Hs. norm_pow in Hm. lia.
Qed.

(* ------------------------------------------------------------------ SuperblockPlain::block_predecessor *)
Lemma bp_for_loop (body : N -> N * N -> outcome (step (N * N) (N * N))) target :
  (forall bid cnt prev, 1 <= bid ->
     body bid (cnt, prev) = if target <=? N.land cnt 4095 then Val (Ret (bid - 1, prev))
                            else Val (Next (N.shiftr cnt 12, N.land cnt 4095))) ->
  forall n bid cnt prev, 1 <= bid ->
  (let! r := for_loop body bid n (cnt, prev) in
   match r with
   | Retd v => Val v
   | Done (cnt, prev_cnt) => let! t2 := osub 8 1 in Val (t2, prev_cnt)
   end) = Val (sb_block_pred_loop cnt prev target bid n).
Proof.
  intros Hbody. induction n as [|n IH]; intros bid cnt prev Hbid; cbn [for_loop sb_block_pred_loop bind].
  - reflexivity.
  - rewrite Hbody by exact Hbid. unfold BLK_MASK_BP, BLK_BITS_BP.
    destruct (target <=? N.land cnt 4095); cbn [bind]; [reflexivity|].
    apply IH. lia.
Qed.

Theorem g_sb_block_predecessor_ok : forall counters symbol target,
  g_sb_block_predecessor counters symbol target = sb_block_predecessor counters symbol target.
Proof.
  intros counters symbol target. unfold g_sb_block_predecessor, sb_block_predecessor. cbv zeta.
  obind_as cnt E.
  match goal with |- context [for_loop ?b _ _ _] => rewrite (bp_for_loop b target) end; [reflexivity| |lia].
  intros bid c prev Hbid. cbv beta iota zeta.
  rewrite N.mod_small by (pose proof (land4095_lt c); norm_pow; lia).
  destruct (target <=? N.land c 4095); [|reflexivity].
  rewrite osub_Val' by exact Hbid. reflexivity.
Qed.

(* the block found is one of the 8 blocks, its counter a 12-bit field *)
Lemma sb_block_pred_loop_bound target : forall fuel cnt prev bid, bid + N.of_nat fuel = 8 -> prev < 4096 ->
  fst (sb_block_pred_loop cnt prev target bid fuel) <= 7 /\ snd (sb_block_pred_loop cnt prev target bid fuel) < 4096.
Proof.
  induction fuel as [|fuel IH]; intros cnt prev bid Hb Hp; cbn [sb_block_pred_loop].
  - unfold BLOCKS_IN_SB. cbn [fst snd]. lia.
  - unfold BLK_MASK_BP, BLK_BITS_BP. destruct (target <=? N.land cnt 4095).
    + cbn [fst snd]. lia.
    + apply IH; [lia|apply land4095_lt].
Qed.
Lemma sb_block_predecessor_bound s symbol target b br :
  sb_block_predecessor s symbol target = Val (b, br) -> b <= 7 /\ br < 4096.
Proof.
  unfold sb_block_predecessor. destruct (idx s symbol) as [cnt|]; cbn [bind]; [|discriminate].
  intros E. apply Val_inj in E.
  pose proof (sb_block_pred_loop_bound target (N.to_nat (BLOCKS_IN_SB - 1)) cnt 0 1 ltac:(reflexivity) ltac:(lia)) as H.
  rewrite E in H. exact H.
Qed.

(* ------------------------------------------------------------------ superblock_index, block_index, rank_block *)
Theorem g_rss256_superblock_index_ok : forall i, g_rss256_superblock_index i = Val (rss_superblock_index 256 i).
Proof. reflexivity. Qed.
Theorem g_rss512_superblock_index_ok : forall i, g_rss512_superblock_index i = Val (rss_superblock_index 512 i).
Proof. reflexivity. Qed.
Theorem g_rss256_block_index_ok : forall i, g_rss256_block_index i = Val (rss_block_index 256 i).
Proof. reflexivity. Qed.
Theorem g_rss512_block_index_ok : forall i, g_rss512_block_index i = Val (rss_block_index 512 i).
Proof. reflexivity. Qed.

Ltac rank_block_tac :=
  intros r symbol i; unfold rss_rank_block;
  obind; rewrite ?g_rss256_superblock_index_ok, ?g_rss512_superblock_index_ok,
                 ?g_rss256_block_index_ok, ?g_rss512_block_index_ok; cbn [bind];
  obind; unfold RANK_BLOCK_MASK; apply g_sb_get_rank_eq.

Theorem g_rss256_rank_block_ok : forall r symbol i,
  g_rss256_rank_block (rs_superblocks r) symbol i = rss_rank_block 256 r symbol i.
Proof. unfold g_rss256_rank_block. rank_block_tac. Qed.
Theorem g_rss512_rank_block_ok : forall r symbol i,
  g_rss512_rank_block (rs_superblocks r) symbol i = rss_rank_block 512 r symbol i.
Proof. unfold g_rss512_rank_block. rank_block_tac. Qed.

(* ------------------------------------------------------------------ select_block: the two scans *)
(* result of a scan: the start, or below last + step *)
Lemma rss_scan_bound r symbol i last step : forall F first v,
  rss_scan r symbol i first last step F = Val v -> v = first \/ v < last + step.
Proof.
  induction F as [|F IH]; intros first v E; cbn [rss_scan] in E; [discriminate|].
  destruct (N.ltb_spec first last) as [Hlt|Hge]; [|left; now apply Val_inj in E].
  destruct (idx (rs_superblocks r) first) as [sb|]; cbn [bind] in E; [|discriminate].
  destruct (sb_get_superblock_counter sb symbol) as [c|]; cbn [bind] in E; [|discriminate].
  destruct (i <=? c); [left; now apply Val_inj in E|].
  destruct (IH _ _ E) as [-> | H]; right; lia.
Qed.

(* one `while first < last { if counter(first) >= i { break }; first += step }` of the generated code against
   rss_scan: every iteration but the last indexes the superblocks at [first] and [first] grows, so that
   S (length superblocks) iterations are enough on both sides, whatever the two fuels are *)
Lemma scan_sim r symbol i last stp
      (cond : N -> outcome bool) (body : N -> outcome (Loops.step N (N * N))) :
  1 <= stp -> last + stp <= 2 ^ 64 ->
  (forall f, cond f = Val (f <? last)) ->
  (forall f, body f = let! sb := idx (rs_superblocks r) f in
                      let! c := sb_get_superblock_counter sb symbol in
                      if i <=? c then Val (Brk f)
                      else let! f' := oadd 64 f stp in Val (Next f')) ->
  forall F first fuel,
  (S (length (rs_superblocks r) - N.to_nat first) <= F)%nat ->
  (S (length (rs_superblocks r) - N.to_nat first) <= fuel)%nat ->
  while_loop cond body fuel first = let! v := rss_scan r symbol i first last stp F in Val (Done v).
Proof.
  intros Hstep Hlast Hcond Hbody.
  induction F as [|F IH]; intros first fuel HF Hfuel; [lia|].
  destruct fuel as [|fuel]; [lia|]. cbn [while_loop rss_scan]. rewrite Hcond, Hbody. cbn [bind].
  destruct (N.ltb_spec first last) as [Hlt|Hge]; [|reflexivity].
  destruct (idx (rs_superblocks r) first) as [sb|] eqn:E; cbn [bind]; [|reflexivity].
  apply idx_lt in E. unfold len in E.
  destruct (sb_get_superblock_counter sb symbol) as [c|]; cbn [bind]; [|reflexivity].
  destruct (i <=? c); cbn [bind]; [reflexivity|].
  rewrite oadd_Val by lia. cbn [bind]. apply IH; lia.
Qed.

Lemma scan_sim' r symbol i last stp (cond : N -> outcome bool) (body : N -> outcome (Loops.step N (N * N)))
      F first fuel :
  1 <= stp -> last + stp <= 2 ^ 64 ->
  (forall f, cond f = Val (f <? last)) ->
  (forall f, body f = let! sb := idx (rs_superblocks r) f in
                      let! c := sb_get_superblock_counter sb symbol in
                      if i <=? c then Val (Brk f)
                      else let! f' := oadd 64 f stp in Val (Next f')) ->
  (S (length (rs_superblocks r) - N.to_nat first) <= F)%nat ->
  (S (length (rs_superblocks r) - N.to_nat first) <= fuel)%nat ->
  while_loop cond body fuel first = let! v := rss_scan r symbol i first last stp F in Val (Done v).
Proof. intros. now apply scan_sim. Qed.

(* ------------------------------------------------------------------ select_block *)
(* step through `let! r := while_loop .. in match r with ..` against `let! v := rss_scan .. in ..` *)
Ltac scan_step r symbol i last stp F :=
  match goal with
  | |- context [while_loop ?c ?b ?fuel ?first] =>
      rewrite (scan_sim' r symbol i last stp c b F first fuel);
      [ | try lia | try (norm_pow; lia)
        | intros; reflexivity
        | intros; cbv beta; rewrite ?g_sb_get_superblock_counter_eq; reflexivity
        | try lia | try lia ]
  end.

(* one script for both block sizes (the two generated functions differ in the literals 256 / 512 only) *)
Ltac select_block_tac :=
  let r := fresh "r" in
  let symbol := fresh "symbol" in
  let i := fresh "i" in
  let fuel := fresh "fuel" in
  let i1 := fresh "i1" in
  let Ei1 := fresh "Ei1" in
  let samples := fresh "samples" in
  let Esam := fresh "Esam" in
  let first0 := fresh "first0" in
  let Efirst0 := fresh "Efirst0" in
  let last0 := fresh "last0" in
  let Elast0 := fresh "Elast0" in
  let d := fresh "d" in
  let Ed := fresh "Ed" in
  let first2 := fresh "first2" in
  let Efirst2 := fresh "Efirst2" in
  let first4 := fresh "first4" in
  let Efirst4 := fresh "Efirst4" in
  let sb := fresh "sb" in
  let Esb := fresh "Esb" in
  let rank := fresh "rank" in
  let Erank := fresh "Erank" in
  let t := fresh "t" in
  let Et := fresh "Et" in
  intros r symbol i fuel Hi Hsam Hcnt Hfuel;
  unfold rss_select_block, SELECT_NUM_SAMPLES, RS_BLOCKS_IN_SB; cbv zeta;
  obind_as i1 Ei1; apply osub_Val in Ei1; destruct Ei1 as [-> Hi1];
  obind_as samples Esam; obind_as first0 Efirst0; cbn [bind];
  rewrite (oadd_Val 64 ((i - 1) / 8192) 1) by (norm_pow; norm_pow in Hi; lia); cbn [bind];
  obind_as last0 Elast0;
  pose proof (Hsam _ _ (idx_Some _ _ _ Esam) (idx_Some _ _ _ Elast0)) as Hlast0; norm_pow in Hlast0;
  rewrite (oadd_Val 64 1 last0) by (norm_pow; lia); cbn [bind];
  obind_as d Ed; apply osub_Val in Ed; destruct Ed as [Ed Hfl];
  unfold fsqrt;
  pose proof (N.sqrt_le_lin d) as Hsq;
  rewrite (oadd_Val 64 (N.sqrt d) 1) by (norm_pow; lia); cbn [bind];
  (* first scan *)
  scan_step r symbol i (1 + last0) (N.sqrt d + 1) (S (length (rs_superblocks r)));
  destruct (rss_scan r symbol i first0 (1 + last0) (N.sqrt d + 1) (S (length (rs_superblocks r))))
    as [first1|] eqn:Escan1; cbn [bind]; [|reflexivity];
  apply rss_scan_bound in Escan1;
  obind_as first2 Efirst2; apply osub_Val in Efirst2; destruct Efirst2 as [Efirst2 Hf2];
  (* second scan *)
  scan_step r symbol i (1 + last0) 1 (S (N.to_nat (N.sqrt d + 1)) + S (length (rs_superblocks r)))%nat;
  destruct (rss_scan r symbol i first2 (1 + last0) 1 (S (N.to_nat (N.sqrt d + 1)) + S (length (rs_superblocks r))))
    as [first3|] eqn:Escan2; cbn [bind]; [|reflexivity];
  apply rss_scan_bound in Escan2;
  obind_as first4 Efirst4; apply osub_Val in Efirst4; destruct Efirst4 as [Efirst4 Hf4];
  assert (Hfirst4 : first4 <= 4294967296) by lia;
  (* position and rank: no overflow *)
  rewrite (omul_Val 64 first4) by (norm_pow; lia); cbn [bind];
  rewrite (omul_Val 64 (first4 * _)) by (norm_pow; lia); cbn [bind];
  obind_as sb Esb; rewrite g_sb_get_superblock_counter_eq; obind_as rank Erank;
  pose proof (Hcnt _ _ _ (idx_Some _ _ _ Esb) Erank) as Hrank; norm_pow in Hrank;
  obind_as t Et; rewrite g_sb_block_predecessor_ok;
  destruct (sb_block_predecessor sb symbol t) as [[b br]|] eqn:Ebp; cbn [bind]; [|reflexivity];
  apply sb_block_predecessor_bound in Ebp; destruct Ebp as [Hb Hbr];
  rewrite (omul_Val 64 b) by (norm_pow; lia); cbn [bind];
  rewrite (oadd_Val 64 (first4 * _ * _)) by (norm_pow; lia); cbn [bind];
  rewrite (oadd_Val 64 rank br) by (norm_pow; lia); cbn [bind];
  reflexivity.

(* select_block, equality under pointwise hypotheses: the one sample read as `last` is a u32 and the superblock
   counters read for [symbol] are below 2^44 (both hold for well-typed fields, and for what rss_new builds) *)
Lemma g_rss256_select_block_core : forall r symbol i fuel,
  i < 2 ^ 64 ->
  (forall l x, nthN (rs_samples r) symbol = Some l -> nthN l ((i - 1) / 8192 + 1) = Some x -> x < 2 ^ 32) ->
  (forall j sb c, nthN (rs_superblocks r) j = Some sb -> sb_get_superblock_counter sb symbol = Val c -> c < 2 ^ 44) ->
  (S (length (rs_superblocks r)) <= fuel)%nat ->
  g_rss256_select_block fuel (rs_superblocks r) (rs_samples r) symbol i = rss_select_block 256 r symbol i.
Proof. unfold g_rss256_select_block. select_block_tac. Qed.

Lemma g_rss512_select_block_core : forall r symbol i fuel,
  i < 2 ^ 64 ->
  (forall l x, nthN (rs_samples r) symbol = Some l -> nthN l ((i - 1) / 8192 + 1) = Some x -> x < 2 ^ 32) ->
  (forall j sb c, nthN (rs_superblocks r) j = Some sb -> sb_get_superblock_counter sb symbol = Val c -> c < 2 ^ 44) ->
  (S (length (rs_superblocks r)) <= fuel)%nat ->
  g_rss512_select_block fuel (rs_superblocks r) (rs_samples r) symbol i = rss_select_block 512 r symbol i.
Proof. unfold g_rss512_select_block. select_block_tac. Qed.

(* ------------------------------------------------------------------ select_block: main theorems *)
Lemma nthN_Forall {A} (P : A -> Prop) (l : list A) i a : Forall P l -> nthN l i = Some a -> P a.
Proof. intros HF E. apply (idx_Forall P l i a HF). unfold idx. now rewrite E. Qed.

Lemma sb_counter_lt44 sb symbol c : Forall (fun w => w < 2 ^ 128) sb ->
  sb_get_superblock_counter sb symbol = Val c -> c < 2 ^ 44.
Proof.
  intros HF. unfold sb_get_superblock_counter, SB_SHIFT_GC.
  destruct (uidx sb symbol) as [w|] eqn:E; cbn [bind]; [|discriminate]. intros Ec. apply Val_inj in Ec. subst c.
  pose proof (uidx_Forall _ _ _ _ HF E) as Hw. cbv beta in Hw.
  pose proof (shiftr_lt w 84 44 Hw) as Hs. norm_pow. norm_pow in Hs. lia.
Qed.

(* (E) for every value of the field types (select_samples: [Box<[u32]>; 4], counters: [u128; 4], i: usize) and
   every fuel above the number of superblocks, the generated select_block IS the hand model (same value, same
   fault).  The hand model runs its scans with fuels S (length superblocks) and S step + S (length superblocks),
   the generated function with [fuel] for both: every iteration but the last of a scan indexes the superblocks
   at a strictly growing position, so that S (length superblocks) iterations always suffice. *)
Theorem g_rss256_select_block_ok : forall r symbol i fuel,
  i < 2 ^ 64 ->
  Forall (Forall (fun x => x < 2 ^ 32)) (rs_samples r) ->
  Forall (Forall (fun w => w < 2 ^ 128)) (rs_superblocks r) ->
  (S (length (rs_superblocks r)) <= fuel)%nat ->
  g_rss256_select_block fuel (rs_superblocks r) (rs_samples r) symbol i = rss_select_block 256 r symbol i.
Proof.
  intros r symbol i fuel Hi Hsam Hsbs Hfuel. apply g_rss256_select_block_core; try assumption.
  - intros l x El Ex. exact (nthN_Forall _ _ _ _ (nthN_Forall _ _ _ _ Hsam El) Ex).
  - intros j sb c Esb Ec. exact (sb_counter_lt44 sb symbol c (nthN_Forall _ _ _ _ Hsbs Esb) Ec).
Qed.

Theorem g_rss512_select_block_ok : forall r symbol i fuel,
  i < 2 ^ 64 ->
  Forall (Forall (fun x => x < 2 ^ 32)) (rs_samples r) ->
  Forall (Forall (fun w => w < 2 ^ 128)) (rs_superblocks r) ->
  (S (length (rs_superblocks r)) <= fuel)%nat ->
  g_rss512_select_block fuel (rs_superblocks r) (rs_samples r) symbol i = rss_select_block 512 r symbol i.
Proof.
  intros r symbol i fuel Hi Hsam Hsbs Hfuel. apply g_rss512_select_block_core; try assumption.
  - intros l x El Ex. exact (nthN_Forall _ _ _ _ (nthN_Forall _ _ _ _ Hsam El) Ex).
  - intros j sb c Esb Ec. exact (sb_counter_lt44 sb symbol c (nthN_Forall _ _ _ _ Hsbs Esb) Ec).
Qed.

(* the generated function does not depend on the fuel above that bound *)
Corollary g_rss256_select_block_fuel : forall r symbol i fuel fuel',
  i < 2 ^ 64 -> Forall (Forall (fun x => x < 2 ^ 32)) (rs_samples r) ->
  Forall (Forall (fun w => w < 2 ^ 128)) (rs_superblocks r) ->
  (S (length (rs_superblocks r)) <= fuel)%nat -> (S (length (rs_superblocks r)) <= fuel')%nat ->
  g_rss256_select_block fuel (rs_superblocks r) (rs_samples r) symbol i =
  g_rss256_select_block fuel' (rs_superblocks r) (rs_samples r) symbol i.
Proof. intros. now rewrite !g_rss256_select_block_ok. Qed.
Corollary g_rss512_select_block_fuel : forall r symbol i fuel fuel',
  i < 2 ^ 64 -> Forall (Forall (fun x => x < 2 ^ 32)) (rs_samples r) ->
  Forall (Forall (fun w => w < 2 ^ 128)) (rs_superblocks r) ->
  (S (length (rs_superblocks r)) <= fuel)%nat -> (S (length (rs_superblocks r)) <= fuel')%nat ->
  g_rss512_select_block fuel (rs_superblocks r) (rs_samples r) symbol i =
  g_rss512_select_block fuel' (rs_superblocks r) (rs_samples r) symbol i.
Proof. intros. now rewrite !g_rss512_select_block_ok. Qed.

(* ------------------------------------------------------------------ end to end: the directory rss_new builds *)
(* the two pointwise facts select_block needs, from the closed form [dir_ok] of the directory *)
Lemma dir_ok_select_hyps bsize s rs c k : bsz bsize -> len s < RSQ_MAXN -> dir_ok bsize s rs -> c <= 3 ->
  k < countN c s ->
  (forall l x, nthN (rs_samples rs) c = Some l -> nthN l ((k + 1 - 1) / 8192 + 1) = Some x -> x < 2 ^ 32) /\
  (forall j sb v, nthN (rs_superblocks rs) j = Some sb -> sb_get_superblock_counter sb c = Val v -> v < 2 ^ 44).
Proof.
  intros Hb Hn Hd Hc Hk. pose proof Hd as (Hlen & Hsbs & sm & Hsm & Hsamp).
  pose proof Hn as Hn'. rewrite RSQ_MAXN_val in Hn'.
  assert (H43 : len s < 2 ^ 43) by (norm_pow; lia). split.
  - intros l x El Ex. rewrite Hsm, nthN_vec4 in El by exact Hc. injection El as <-.
    replace (k + 1 - 1) with k in Ex by lia.
    destruct (samples_bracket bsize s c (sm c) k Hb (Hsamp c Hc) Hk) as (x0 & x1 & _ & E1 & _ & Hx1 & _).
    rewrite E1 in Ex. injection Ex as <-. norm_pow. destruct Hb as [-> | ->]; lia.
  - intros j sb v Esb Ev. apply nthN_some_lt in Esb as Hj.
    destruct (dir_counter bsize s rs c j Hb Hn Hd Hc ltac:(lia)) as (sb' & Esb' & Ev').
    rewrite Esb in Esb'. injection Esb' as <-. rewrite Ev in Ev'. apply Val_inj in Ev'. subst v.
    now apply rk_lt44.
Qed.

Lemma dir_ok_length bsize s rs : dir_ok bsize s rs ->
  length (rs_superblocks rs) = S (N.to_nat (len s / (8 * bsize))).
Proof. intros (Hlen & _). unfold len in Hlen at 1. lia. Qed.

Lemma rss_new_dir_ok bsize s rs : bsz bsize -> len s < RSQ_MAXN -> Forall (fun x => x < 4) s ->
  rss_new bsize s = Val rs -> dir_ok bsize s rs.
Proof.
  intros Hb Hn HF E. destruct (rss_new_ok bsize s Hb Hn HF) as (r & Er & Hd).
  rewrite E in Er. apply Val_inj in Er. now subst r.
Qed.

(* rank_block of the GENERATED code on the fields of the directory RSSupportPlain::new builds for the symbols s
   (fewer than RSQ_MAXN = 2^43 - 4096 of them): the number of c in the blocks before the block of position i *)
Theorem g_rss256_rank_block_e2e : forall s rs c i,
  len s < RSQ_MAXN -> Forall (fun x => x < 4) s -> rss_new 256 s = Val rs -> c <= 3 -> i <= len s ->
  g_rss256_rank_block (rs_superblocks rs) c i = Val (rank_spec s c (i / 256 * 256)).
Proof.
  intros s rs c i Hn HF E Hc Hi. pose proof (rss_new_dir_ok 256 s rs (or_introl eq_refl) Hn HF E) as Hd.
  rewrite g_rss256_rank_block_ok, rank_spec_rk. now apply rss_rank_block_ok; try (left; reflexivity).
Qed.
Theorem g_rss512_rank_block_e2e : forall s rs c i,
  len s < RSQ_MAXN -> Forall (fun x => x < 4) s -> rss_new 512 s = Val rs -> c <= 3 -> i <= len s ->
  g_rss512_rank_block (rs_superblocks rs) c i = Val (rank_spec s c (i / 512 * 512)).
Proof.
  intros s rs c i Hn HF E Hc Hi. pose proof (rss_new_dir_ok 512 s rs (or_intror eq_refl) Hn HF E) as Hd.
  rewrite g_rss512_rank_block_ok, rank_spec_rk. now apply rss_rank_block_ok; try (right; reflexivity).
Qed.

(* select_block of the GENERATED code on those fields, for the (k+1)-th occurrence of c (k < number of c in s) and
   every fuel above the number of superblocks |s| / (8 B) + 1: the start pos of the block that contains that
   occurrence, with the rank at pos *)
Theorem g_rss256_select_block_e2e : forall s rs c k fuel,
  len s < RSQ_MAXN -> Forall (fun x => x < 4) s -> rss_new 256 s = Val rs -> c <= 3 -> k < countN c s ->
  (S (S (N.to_nat (len s / 2048))) <= fuel)%nat ->
  exists pos, g_rss256_select_block fuel (rs_superblocks rs) (rs_samples rs) c (k + 1)
              = Val (pos, rank_spec s c pos) /\
    pos mod 256 = 0 /\ rank_spec s c pos <= k /\ k < rank_spec s c (pos + 256).
Proof.
  intros s rs c k fuel Hn HF E Hc Hk Hfuel. assert (Hb : bsz 256) by now left.
  pose proof (rss_new_dir_ok 256 s rs Hb Hn HF E) as Hd.
  destruct (dir_ok_select_hyps 256 s rs c k Hb Hn Hd Hc Hk) as (H1 & H2).
  pose proof (countN_le_len c s) as Hcl. pose proof Hn as Hn'. rewrite RSQ_MAXN_val in Hn'.
  destruct (rss_select_block_ok 256 s rs c k Hb Hn Hd Hc Hk) as (pos & Ep & P1 & P2 & P3).
  exists pos. rewrite !rank_spec_rk. split; [|now repeat split].
  rewrite g_rss256_select_block_core; try assumption.
  - norm_pow. lia.
  - rewrite (dir_ok_length 256 s rs Hd). change (8 * 256) with 2048. lia.
Qed.
Theorem g_rss512_select_block_e2e : forall s rs c k fuel,
  len s < RSQ_MAXN -> Forall (fun x => x < 4) s -> rss_new 512 s = Val rs -> c <= 3 -> k < countN c s ->
  (S (S (N.to_nat (len s / 4096))) <= fuel)%nat ->
  exists pos, g_rss512_select_block fuel (rs_superblocks rs) (rs_samples rs) c (k + 1)
              = Val (pos, rank_spec s c pos) /\
    pos mod 512 = 0 /\ rank_spec s c pos <= k /\ k < rank_spec s c (pos + 512).
Proof.
  intros s rs c k fuel Hn HF E Hc Hk Hfuel. assert (Hb : bsz 512) by now right.
  pose proof (rss_new_dir_ok 512 s rs Hb Hn HF E) as Hd.
  destruct (dir_ok_select_hyps 512 s rs c k Hb Hn Hd Hc Hk) as (H1 & H2).
  pose proof (countN_le_len c s) as Hcl. pose proof Hn as Hn'. rewrite RSQ_MAXN_val in Hn'.
  destruct (rss_select_block_ok 512 s rs c k Hb Hn Hd Hc Hk) as (pos & Ep & P1 & P2 & P3).
  exists pos. rewrite !rank_spec_rk. split; [|now repeat split].
  rewrite g_rss512_select_block_core; try assumption.
  - norm_pow. lia.
  - rewrite (dir_ok_length 512 s rs Hd). change (8 * 512) with 4096. lia.
Qed.

(* ------------------------------------------------------------------ the fields rss_new builds are well typed *)
(* the hypotheses of g_rss{256,512}_select_block_ok hold for every directory the constructor builds *)
Lemma Forall_nthN {A} (P : A -> Prop) (l : list A) : (forall i a, nthN l i = Some a -> P a) -> Forall P l.
Proof.
  induction l as [|x l IH]; intros H; constructor.
  - apply (H 0). apply nthN_0.
  - apply IH. intros i b E. apply (H (i + 1)). now rewrite nthN_succ.
Qed.

Lemma dir_ok_words bsize s rs : bsz bsize -> len s < RSQ_MAXN -> dir_ok bsize s rs ->
  Forall (Forall (fun w => w < 2 ^ 128)) (rs_superblocks rs).
Proof.
  intros Hb Hn Hd. pose proof Hd as (Hlen & Hsbs & _). rewrite RSQ_MAXN_val in Hn.
  assert (H43 : len s < 2 ^ 43) by (norm_pow; lia).
  apply Forall_nthN. intros j sb Esb. apply nthN_some_lt in Esb as Hj.
  rewrite Hsbs in Esb by lia. injection Esb as <-. unfold W, sbrec, vec4.
  repeat constructor; apply packw_lt; try (now apply fld_bound); now apply rk_lt44.
Qed.

Lemma rss_new_samples_typed bsize s rs : bsz bsize -> len s < RSQ_MAXN -> Forall (fun x => x < 4) s ->
  rss_new bsize s = Val rs -> Forall (Forall (fun x => x < 2 ^ 32)) (rs_samples rs).
Proof.
  intros Hb Hn HF E. pose proof Hn as Hn'. rewrite RSQ_MAXN_val in Hn'.
  assert (Hn43 : len s < 2 ^ 43) by (norm_pow; lia).
  unfold rss_new in E. rewrite MAX_LEN_val in E.
  replace (len s <? 8796093022208) with true in E by lia. cbn [oassert bind] in E.
  replace ((bsize =? 256) || (bsize =? 512)) with true in E by (destruct Hb as [-> | ->]; reflexivity).
  cbn [bind] in E.
  destruct (rsb_loop_inv bsize s Hb Hn43 HF) as (st & Est & Hinv). rewrite Est in E. cbn [bind] in E.
  destruct Hinv as (_ & _ & _ & _ & (sm & Hsm & Hsamp) & _).
  repeat match type of E with bind ?x _ = _ => destruct x; cbn [bind] in E; [|discriminate] end.
  cbv zeta in E.
  repeat match type of E with bind ?x _ = _ => destruct x; cbn [bind] in E; [|discriminate] end.
  apply Val_inj in E. subst rs. cbn [rs_samples]. rewrite Hsm, map_vec4. unfold vec4.
  assert (P : forall c, c <= 3 -> forall sent, sent < 2 ^ 32 ->
            Forall (fun x => x < 2 ^ 32) (rev (sent :: match sm c with [] => [0] | _ :: _ => sm c end))).
  { intros c Hc sent Hsent. cbn [rev]. apply Forall_app. split; [|repeat constructor; exact Hsent].
    destruct (sm c) as [|y l] eqn:El; [repeat constructor; norm_pow; lia|]. rewrite <- El.
    apply Forall_nthN. intros q x Ex. destruct (Hsamp c Hc) as (_ & Hp).
    destruct (Hp q x Ex) as (Hx & _). norm_pow. destruct Hb as [-> | ->]; lia. }
  assert (Hmod : forall z, z mod 2 ^ 32 < 2 ^ 32) by (intros z; apply N.mod_upper_bound; norm_pow; lia).
  repeat constructor; apply P; try lia; apply Hmod.
Qed.

Theorem rss_new_typed : forall bsize s rs, (bsize = 256 \/ bsize = 512) -> len s < RSQ_MAXN ->
  Forall (fun x => x < 4) s -> rss_new bsize s = Val rs ->
  Forall (Forall (fun x => x < 2 ^ 32)) (rs_samples rs) /\
  Forall (Forall (fun w => w < 2 ^ 128)) (rs_superblocks rs) /\
  length (rs_superblocks rs) = S (N.to_nat (len s / (8 * bsize))).
Proof.
  intros bsize s rs Hb Hn HF E. pose proof (rss_new_dir_ok bsize s rs Hb Hn HF E) as Hd. split; [|split].
  - now apply (rss_new_samples_typed bsize s rs).
  - now apply (dir_ok_words bsize s rs).
  - now apply dir_ok_length.
Qed.

Print Assumptions g_sb_get_block_counter_ok.
Print Assumptions g_sb_get_rank_block_counter.
Print Assumptions g_sb_block_predecessor_ok.
Print Assumptions g_rss256_superblock_index_ok.
Print Assumptions g_rss512_superblock_index_ok.
Print Assumptions g_rss256_block_index_ok.
Print Assumptions g_rss512_block_index_ok.
Print Assumptions g_rss256_rank_block_ok.
Print Assumptions g_rss512_rank_block_ok.
Print Assumptions g_rss256_select_block_ok.
Print Assumptions g_rss512_select_block_ok.
Print Assumptions g_rss256_select_block_fuel.
Print Assumptions g_rss512_select_block_fuel.
Print Assumptions while_loop_mono'.
Print Assumptions g_rss256_rank_block_e2e.
Print Assumptions g_rss512_rank_block_e2e.
Print Assumptions g_rss256_select_block_e2e.
Print Assumptions g_rss512_select_block_e2e.
Print Assumptions rss_new_typed.

(* Summary.
   - No mismatch between the generated functions and the hand model was found: block_predecessor, superblock_index,
     block_index and rank_block are EQUAL to the hand model for all arguments (no hypothesis); select_block is
     EQUAL to it (same value or same fault) for every well-typed field value (u32 samples, u128 counters, usize i)
     and every fuel >= S (length superblocks) (g_rss{256,512}_select_block_ok), and under the two pointwise facts
     of g_rss{256,512}_select_block_core, which is what the end-to-end corollaries use.
   - Nothing about the constructor is missing: dir_ok (Proofs/RSQBuild.v) gives the pointwise facts
     (dir_ok_select_hyps) and the u128 bound of the counters (dir_ok_words); the u32 bound of ALL sample entries is
     not a consequence of dir_ok (fsamp_ok says nothing about the list [0; sentinel] of a symbol that does not
     occur) and is proved from the construction invariant rsb_loop_inv instead (rss_new_samples_typed). *)
