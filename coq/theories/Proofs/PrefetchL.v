(* C09 helper 1: the construction loop of PrefetchSupport::new (Model/Prefetch.v, pfs_loop).
   The four sampled bit vectors evolve independently; for one symbol c the vector has
   [npush D] bits and its first K+1 bits contain  rk D c (min (len D) (2048 K + 1)) / 2048  ones. *)
From Coq Require Import ZArith Lia ZifyBool ZifyN ZifyNat.
From QwtModel Require Import ListX Seq Consts RSBin Prefetch ListXP RSQList.
Ltac Zify.zify_post_hook ::= Z.div_mod_to_equations.
Arguments N.add : simpl never.
Arguments N.sub : simpl never.
Arguments N.mul : simpl never.
Arguments N.eqb : simpl never.
Arguments N.ltb : simpl never.
Arguments N.leb : simpl never.
Arguments N.pred : simpl never.
Arguments N.of_nat : simpl never.
Arguments N.land : simpl never.
Arguments N.lor : simpl never.
Arguments N.shiftr : simpl never.
Arguments N.shiftl : simpl never.
Arguments N.div : simpl never.
Arguments N.modulo : simpl never.
Arguments N.pow : simpl never.
Arguments N.min : simpl never.

(* ---------------------------------------------------------------- pushes *)
(* index i of a level of n symbols pushes one bit to every vector *)
Definition pushp (n i : N) : bool := (i mod 2048 =? 0) || (i =? n - 1).

(* number of pushes among the indices below i (i <= n) *)
Definition npush_upto (n i : N) : N :=
  (i + 2047) / 2048 + (if (i =? n) && negb (n =? 0) && negb (n mod 2048 =? 1) then 1 else 0).

(* number of bits of each sampled vector of a level with content D *)
Definition npush (D : list N) : N := npush_upto (len D) (len D).

Lemma npush_formula D :
  npush D = if len D =? 0 then 0 else len D / 2048 + 1 + (if len D mod 2048 <=? 1 then 0 else 1).
Proof.
  unfold npush, npush_upto. rewrite N.eqb_refl.
  destruct (N.eqb_spec (len D) 0) as [E|E]; [rewrite E; reflexivity|].
  destruct (N.eqb_spec (len D mod 2048) 1), (N.leb_spec (len D mod 2048) 1); cbn [negb andb]; lia.
Qed.

Lemma npush_upto_S n i : i < n ->
  npush_upto n (i + 1) = npush_upto n i + (if pushp n i then 1 else 0).
Proof.
  intros Hi. unfold npush_upto, pushp.
  destruct (N.eqb_spec (i + 1) n), (N.eqb_spec i n), (N.eqb_spec n 0), (N.eqb_spec (n mod 2048) 1),
    (N.eqb_spec (i mod 2048) 0), (N.eqb_spec i (n - 1)); cbn [negb andb orb]; lia.
Qed.

(* the definition by counting *)
Lemma npush_count_aux n : forall k i, i + N.of_nat k <= n ->
  len (filter (pushp n) (seqN i k)) + npush_upto n i = npush_upto n (i + N.of_nat k).
Proof.
  induction k as [|k IH]; intros i Hk.
  - cbn [seqN filter]. rewrite len_nil. replace (i + N.of_nat 0) with i by lia. lia.
  - cbn [seqN filter]. specialize (IH (i + 1) ltac:(lia)).
    rewrite (npush_upto_S n i) in IH by lia.
    replace (i + N.of_nat (S k)) with (i + 1 + N.of_nat k) by lia.
    destruct (pushp n i); [rewrite len_cons|]; lia.
Qed.
Lemma npush_upto_0 n : npush_upto n 0 = 0.
Proof.
  unfold npush_upto. change ((0 + 2047) / 2048) with 0.
  destruct (N.eqb_spec 0 n) as [<-|]; reflexivity.
Qed.
Lemma npush_count D : npush D = len (filter (pushp (len D)) (seqN 0 (length D))).
Proof.
  pose proof (npush_count_aux (len D) (length D) 0) as H.
  rewrite npush_upto_0 in H. unfold npush.
  replace (0 + N.of_nat (length D)) with (len D) in H by (unfold len; lia).
  rewrite <- H; [lia|unfold len; lia].
Qed.

(* the position i = len D (and everything up to len D + 2046) is below 2048 * npush D *)
Lemma npush_slack D : D <> [] -> len D + 2047 <= 2048 * npush D.
Proof.
  intros HD. rewrite npush_formula.
  assert (len D <> 0) by (destruct D; [congruence|rewrite len_cons; lia]).
  destruct (N.eqb_spec (len D) 0); [lia|].
  destruct (N.leb_spec (len D mod 2048) 1); lia.
Qed.
Lemma npush_le D : npush D <= len D / 2048 + 2.
Proof.
  rewrite npush_formula. destruct (N.eqb_spec (len D) 0); [lia|].
  destruct (N.leb_spec (len D mod 2048) 1); lia.
Qed.
Lemma npush_nil : npush [] = 0.
Proof. reflexivity. Qed.

(* ---------------------------------------------------------------- one component *)
Record cst := mk_cst { c_cnt : N; c_pend : bool; c_bv : list bool }.

Definition comp_step (n c : N) (st : cst) (i s : N) : cst :=
  let cnt' := if s =? c then c_cnt st + 1 else c_cnt st in
  let pend' := if (s =? c) && ((c_cnt st + 1) mod 2048 =? 0) then true else c_pend st in
  if pushp n i then mk_cst cnt' false (pend' :: c_bv st) else mk_cst cnt' pend' (c_bv st).

Fixpoint comp_loop (n c : N) (st : cst) (i : N) (syms : list N) : cst :=
  match syms with
  | [] => st
  | s :: r => comp_loop n c (comp_step n c st i s) (i + 1) r
  end.

Definition pack (s0 s1 s2 s3 : cst) : pfs_state :=
  mk_pfss [c_cnt s0; c_cnt s1; c_cnt s2; c_cnt s3] [c_pend s0; c_pend s1; c_pend s2; c_pend s3]
          [c_bv s0; c_bv s1; c_bv s2; c_bv s3].

Lemma pfs_step_comp n i s s0 s1 s2 s3 : s < 4 ->
  pfs_step 2048 n (pack s0 s1 s2 s3) i s =
  Val (pack (comp_step n 0 s0 i s) (comp_step n 1 s1 i s) (comp_step n 2 s2 i s) (comp_step n 3 s3 i s)).
Proof.
  intros Hs. assert (E : s = 0 \/ s = 1 \/ s = 2 \/ s = 3) by lia.
  destruct s0 as [k0 b0 r0], s1 as [k1 b1 r1], s2 as [k2 b2 r2], s3 as [k3 b3 r3].
  unfold pfs_step, comp_step, pack, pushp. cbn [c_cnt c_pend c_bv ps_counters ps_bits ps_bvs].
  destruct E as [->|[->|[->| ->]]].
  - change (idx [k0; k1; k2; k3] 0) with (Val k0). cbn [bind].
    destruct ((i mod 2048 =? 0) || (i =? n - 1)); destruct ((k0 + 1) mod 2048 =? 0); reflexivity.
  - change (idx [k0; k1; k2; k3] 1) with (Val k1). cbn [bind].
    destruct ((i mod 2048 =? 0) || (i =? n - 1)); destruct ((k1 + 1) mod 2048 =? 0); reflexivity.
  - change (idx [k0; k1; k2; k3] 2) with (Val k2). cbn [bind].
    destruct ((i mod 2048 =? 0) || (i =? n - 1)); destruct ((k2 + 1) mod 2048 =? 0); reflexivity.
  - change (idx [k0; k1; k2; k3] 3) with (Val k3). cbn [bind].
    destruct ((i mod 2048 =? 0) || (i =? n - 1)); destruct ((k3 + 1) mod 2048 =? 0); reflexivity.
Qed.

Lemma pfs_loop_comp n syms : Forall (fun x => x < 4) syms -> forall i s0 s1 s2 s3,
  pfs_loop 2048 n (pack s0 s1 s2 s3) i syms =
  Val (pack (comp_loop n 0 s0 i syms) (comp_loop n 1 s1 i syms)
            (comp_loop n 2 s2 i syms) (comp_loop n 3 s3 i syms)).
Proof.
  induction 1 as [|s syms Hs HF IH]; intros i s0 s1 s2 s3; [reflexivity|].
  cbn [pfs_loop comp_loop]. rewrite (pfs_step_comp n i s s0 s1 s2 s3 Hs). cbn [bind]. apply IH.
Qed.

(* ---------------------------------------------------------------- ones in a prefix of bits *)
Lemma rank1_snoc_le B b J : J <= len B -> rank1_spec (B ++ [b]) J = rank1_spec B J.
Proof.
  intros HJ. unfold rank1_spec. rewrite map_app, !rank_spec_rk. apply rk_app_le.
  unfold len. rewrite map_length. exact HJ.
Qed.
Lemma rank1_snoc_all B b : rank1_spec (B ++ [b]) (len B + 1) = rank1_spec B (len B) + (if b then 1 else 0).
Proof.
  unfold rank1_spec. rewrite map_app, !rank_spec_rk, rk_app.
  assert (E : len (map N_of_bool B) = len B) by (unfold len; now rewrite map_length).
  rewrite E. rewrite (rk_all (map N_of_bool B) 1 (len B + 1)) by lia.
  rewrite (rk_all (map N_of_bool B) 1 (len B)) by lia. f_equal.
  replace (len B + 1 - len B) with (0 + 1) by lia. cbn [map]. rewrite rk_cons, rk_nil.
  destruct b; reflexivity.
Qed.
Lemma rank1_le B J : rank1_spec B J <= J.
Proof. unfold rank1_spec. rewrite rank_spec_rk. apply rk_le. Qed.
Lemma len_rev' {A} (l : list A) : len (rev l) = len l.
Proof. unfold len. now rewrite rev_length. Qed.

(* ---------------------------------------------------------------- the invariant *)
(* position up to which the counts have been flushed into the vector before index i *)
Definition flushed (i : N) : N := if i =? 0 then 0 else 2048 * ((i - 1) / 2048) + 1.

Section Comp.
Variables (D : list N) (c : N).
Notation LEN := (len D).
Notation R := (rk D c).

Definition cinv (i : N) (st : cst) : Prop :=
  c_cnt st = R i /\
  len (c_bv st) = npush_upto LEN i /\
  (forall K, K < npush_upto LEN i -> rank1_spec (rev (c_bv st)) (K + 1) = R (N.min LEN (2048 * K + 1)) / 2048) /\
  (i < LEN -> rank1_spec (rev (c_bv st)) (npush_upto LEN i) = R (flushed i) / 2048) /\
  (i < LEN -> c_pend st = (R (flushed i) / 2048 <? R i / 2048)).

Lemma cinv_init : cinv 0 (mk_cst 0 false []).
Proof.
  unfold cinv. cbn [c_cnt c_pend c_bv rev]. rewrite rk_0.
  rewrite npush_upto_0. split; [reflexivity|]. split; [reflexivity|]. split; [intros K HK; lia|].
  split; intros _; unfold flushed; change (0 =? 0) with true; cbv iota; rewrite ?rk_0; reflexivity.
Qed.

Lemma cinv_step i st s : cinv i st -> i < LEN -> nthN D i = Some s -> cinv (i + 1) (comp_step LEN c st i s).
Proof.
  intros (Hc & Hl & HK & Hd & Hp) Hi Hs. specialize (Hd Hi). specialize (Hp Hi).
  pose proof (rk_succ D c i s Hs) as HS.
  pose proof (npush_upto_S LEN i Hi) as HP.
  assert (Hfl : flushed i <= i) by (unfold flushed; destruct (N.eqb_spec i 0); lia).
  pose proof (rk_mono D c (flushed i) i Hfl) as Hmono.
  pose proof (rk_lip D c (flushed i) (i + 1 - flushed i)) as Hlip.
  replace (flushed i + (i + 1 - flushed i)) with (i + 1) in Hlip by lia.
  assert (Hfl1 : pushp LEN i = true -> i + 1 - flushed i <= 2048).
  { unfold pushp, flushed. destruct (N.eqb_spec i 0), (N.eqb_spec (i mod 2048) 0), (N.eqb_spec i (LEN - 1));
      cbn [orb]; intros; try discriminate; lia. }
  (* the new pending flag *)
  set (pend' := if (s =? c) && ((c_cnt st + 1) mod 2048 =? 0) then true else c_pend st).
  assert (Hpend' : pend' = (R (flushed i) / 2048 <? R (i + 1) / 2048)).
  { unfold pend'. rewrite Hc, Hp, HS. revert Hmono. generalize (R (flushed i)), (R i). intros x y Hmono.
    destruct (N.eqb_spec s c), (N.eqb_spec ((y + 1) mod 2048) 0); cbn [andb]; lia. }
  unfold comp_step. fold pend'. destruct (pushp LEN i) eqn:Epush.
  - (* a push *)
    unfold cinv. cbn [c_cnt c_pend c_bv rev].
    assert (Hnew : N.min LEN (2048 * npush_upto LEN i + 1) = i + 1).
    { unfold pushp in Epush. unfold npush_upto. replace (i =? LEN) with false by lia. cbn [andb].
      destruct (N.eqb_spec (i mod 2048) 0), (N.eqb_spec i (LEN - 1)); cbn [orb] in Epush; try discriminate; lia. }
    assert (Hall : rank1_spec (rev (c_bv st) ++ [pend']) (npush_upto LEN i + 1) = R (i + 1) / 2048).
    { rewrite <- Hl, <- (len_rev' (c_bv st)), rank1_snoc_all, len_rev', Hl, Hd, Hpend'.
      specialize (Hfl1 eq_refl).
      assert (H1 : R (i + 1) <= R (flushed i) + 2048) by lia.
      assert (H2 : R (flushed i) <= R (i + 1)) by lia.
      revert H1 H2. generalize (R (flushed i)), (R (i + 1)). intros x y H1 H2.
      destruct (N.ltb_spec (x / 2048) (y / 2048)); lia. }
    split; [rewrite Hc, HS; destruct (s =? c); lia|].
    split; [rewrite len_cons, Hl, HP; lia|].
    split; [|split].
    + intros K HKlt. rewrite HP in HKlt.
      destruct (N.eq_dec K (npush_upto LEN i)) as [->|Hne].
      * rewrite Hall, Hnew. reflexivity.
      * rewrite rank1_snoc_le by (rewrite len_rev', Hl; lia). apply HK. lia.
    + intros Hi1. rewrite HP, Hall. f_equal. f_equal.
      unfold pushp in Epush. unfold flushed. destruct (N.eqb_spec (i + 1) 0); [lia|].
      replace (i + 1 - 1) with i by lia.
      destruct (N.eqb_spec (i mod 2048) 0), (N.eqb_spec i (LEN - 1)); cbn [orb] in Epush; try discriminate; lia.
    + intros Hi1. assert (E : flushed (i + 1) = i + 1).
      { unfold pushp in Epush. unfold flushed. destruct (N.eqb_spec (i + 1) 0); [lia|].
        replace (i + 1 - 1) with i by lia.
        destruct (N.eqb_spec (i mod 2048) 0), (N.eqb_spec i (LEN - 1)); cbn [orb] in Epush; try discriminate; lia. }
      rewrite E. symmetry. apply N.ltb_irrefl.
  - (* no push *)
    unfold cinv. cbn [c_cnt c_pend c_bv].
    assert (HP' : npush_upto LEN (i + 1) = npush_upto LEN i) by lia.
    assert (E : flushed (i + 1) = flushed i).
    { unfold pushp in Epush. unfold flushed. destruct (N.eqb_spec (i + 1) 0); [lia|].
      replace (i + 1 - 1) with i by lia.
      destruct (N.eqb_spec i 0) as [->|]; [discriminate|].
      destruct (N.eqb_spec (i mod 2048) 0), (N.eqb_spec i (LEN - 1)); cbn [orb] in Epush; try discriminate; lia. }
    rewrite HP', E.
    split; [rewrite Hc, HS; destruct (s =? c); lia|].
    split; [exact Hl|]. split; [exact HK|]. split; intros _; assumption.
Qed.

Lemma cinv_loop : forall rest pre st, D = pre ++ rest -> cinv (len pre) st ->
  cinv LEN (comp_loop LEN c st (len pre) rest).
Proof.
  induction rest as [|s rest IH]; intros pre st E HI.
  - cbn [comp_loop]. rewrite E, app_nil_r. exact HI.
  - cbn [comp_loop].
    assert (Hn : nthN D (len pre) = Some s).
    { rewrite E, nthN_app2 by lia. now rewrite N.sub_diag. }
    assert (Hlt : len pre < LEN) by (rewrite E; lens; lia).
    pose proof (cinv_step (len pre) st s HI Hlt Hn) as HI'.
    replace (len pre + 1) with (len (pre ++ [s])) in * by (lens; lia).
    apply IH; [|exact HI']. now rewrite <- app_assoc.
Qed.

(* the final vector of symbol c *)
Definition cfinal : cst := comp_loop LEN c (mk_cst 0 false []) 0 D.
Definition cbits : list bool := rev (c_bv cfinal).

Lemma cbits_len : len cbits = npush D.
Proof.
  destruct (cinv_loop D [] _ eq_refl cinv_init) as (_ & Hl & _).
  unfold cbits. now rewrite len_rev'.
Qed.
Lemma cbits_rank K : K < npush D -> rank1_spec cbits (K + 1) = R (N.min LEN (2048 * K + 1)) / 2048.
Proof.
  destruct (cinv_loop D [] _ eq_refl cinv_init) as (_ & _ & HK & _). exact (HK K).
Qed.
End Comp.

Lemma pfs_loop_final D : Forall (fun x => x < 4) D ->
  pfs_loop 2048 (len D) (mk_pfss [0;0;0;0] [false;false;false;false] [[];[];[];[]]) 0 D =
  Val (pack (cfinal D 0) (cfinal D 1) (cfinal D 2) (cfinal D 3)).
Proof.
  intros HF. exact (pfs_loop_comp (len D) D HF 0 (mk_cst 0 false []) (mk_cst 0 false [])
                      (mk_cst 0 false []) (mk_cst 0 false [])).
Qed.
