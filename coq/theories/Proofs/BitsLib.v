(* Small library used by the bit vector proofs: N-indexed list lemmas, testbit reasoning,
   [bits_of] as a list, [bits_value], popcount and trailing zeros. *)
From Coq Require Import ZArith Lia ZifyBool ZifyN ZifyNat.
From QwtModel Require Import ListX Consts Words BitVec ListXP.
Ltac Zify.zify_post_hook ::= Z.div_mod_to_equations.
Arguments N.add : simpl never.
Arguments N.sub : simpl never.
Arguments N.mul : simpl never.
Arguments N.eqb : simpl never.
Arguments N.ltb : simpl never.
Arguments N.leb : simpl never.
Arguments N.pred : simpl never.
Arguments N.of_nat : simpl never.
Arguments N.land : simpl never.
Arguments N.lor : simpl never.
Arguments N.lxor : simpl never.
Arguments N.shiftr : simpl never.
Arguments N.shiftl : simpl never.
Arguments N.testbit : simpl never.
Arguments N.div : simpl never.
Arguments N.modulo : simpl never.
Arguments N.pow : simpl never.

(* ------------------------------------------------------------------ lists *)
Lemma list_ext_nthN {A} : forall (l1 l2 : list A), (forall i, nthN l1 i = nthN l2 i) -> l1 = l2.
Proof.
  induction l1 as [|x l1 IH]; intros [|y l2] H.
  - reflexivity.
  - specialize (H 0). discriminate H.
  - specialize (H 0). discriminate H.
  - pose proof (H 0) as H0. rewrite !nthN_0 in H0. injection H0 as ->. f_equal.
    apply IH. intros i. specialize (H (i + 1)). now rewrite !nthN_succ in H.
Qed.

Lemma len_map {A B} (f : A -> B) l : len (map f l) = len l.
Proof. unfold len. now rewrite map_length. Qed.
Lemma len_repeat {A} (a : A) n : len (repeat a n) = N.of_nat n.
Proof. unfold len. now rewrite repeat_length. Qed.
Lemma len_seqN : forall n s, len (seqN s n) = N.of_nat n.
Proof.
  induction n as [|n IH]; intros s; cbn [seqN]; [reflexivity|]. rewrite len_cons, IH. lia.
Qed.
Lemma len_0_nil {A} (l : list A) : len l = 0 -> l = [].
Proof. destruct l; [reflexivity|]. rewrite len_cons. lia. Qed.

Lemma nthN_nil {A} i : nthN (@nil A) i = None.
Proof. reflexivity. Qed.
Lemma nthN_cons_pos {A} (x : A) l i : 0 < i -> nthN (x :: l) i = nthN l (i - 1).
Proof. intros H. replace i with (i - 1 + 1) at 1 by lia. apply nthN_succ. Qed.

Lemma nthN_lt_len {A} (l : list A) i : i < len l <-> nthN l i <> None.
Proof.
  split.
  - intros H. destruct (nthN_lt_some l i H) as (a & ->). discriminate.
  - intros H. destruct (N.ltb_spec i (len l)) as [|Hge]; [assumption|].
    now rewrite nthN_none in H.
Qed.

Lemma nthN_firstnN {A} (l : list A) : forall n j, nthN (firstnN n l) j = if j <? n then nthN l j else None.
Proof.
  induction l as [|x l IH]; intros n j; cbn [firstnN].
  - cbn [nthN]. now destruct (j <? n).
  - destruct (N.eqb_spec n 0) as [->|Hn].
    + cbn [nthN]. destruct (N.ltb_spec j 0); [lia|reflexivity].
    + cbn [nthN]. destruct (N.eqb_spec j 0) as [->|Hj].
      * destruct (N.ltb_spec 0 n); [reflexivity|lia].
      * rewrite IH. destruct (N.ltb_spec (N.pred j) (N.pred n)), (N.ltb_spec j n); try lia; reflexivity.
Qed.
Lemma nthN_skipnN {A} (l : list A) : forall i j, nthN (skipnN i l) j = nthN l (i + j).
Proof.
  induction l as [|x l IH]; intros i j; cbn [skipnN].
  - reflexivity.
  - destruct (N.eqb_spec i 0) as [->|Hi].
    + now rewrite N.add_0_l.
    + rewrite IH. cbn [nthN]. destruct (N.eqb_spec (i + j) 0); [lia|]. f_equal. lia.
Qed.
Lemma len_skipnN {A} (l : list A) : forall i, len (skipnN i l) = len l - i.
Proof.
  induction l as [|x l IH]; intros i; cbn [skipnN].
  - rewrite len_nil. lia.
  - destruct (N.eqb_spec i 0) as [->|Hi]; [lia|]. rewrite IH, len_cons. lia.
Qed.
Lemma firstnN_skipnN {A} (l : list A) : forall i, firstnN i l ++ skipnN i l = l.
Proof.
  induction l as [|x l IH]; intros i; cbn [firstnN skipnN]; [reflexivity|].
  destruct (N.eqb_spec i 0); [reflexivity|]. cbn [app]. now rewrite IH.
Qed.
Lemma skipnN_skipnN {A} (l : list A) : forall i j, skipnN j (skipnN i l) = skipnN (i + j) l.
Proof.
  intros i j. apply list_ext_nthN. intros k. rewrite !nthN_skipnN. f_equal. lia.
Qed.

Lemma nthN_repeat_gen {A} (a : A) n i : nthN (repeat a n) i = if i <? N.of_nat n then Some a else None.
Proof.
  destruct (N.ltb_spec i (N.of_nat n)) as [H|H].
  - now apply nthN_repeat.
  - apply nthN_none. rewrite len_repeat. exact H.
Qed.
Lemma nthN_seqN : forall n s j, nthN (seqN s n) j = if j <? N.of_nat n then Some (s + j) else None.
Proof.
  induction n as [|n IH]; intros s j; cbn [seqN].
  - destruct (N.ltb_spec j (N.of_nat 0)); [lia|reflexivity].
  - cbn [nthN]. destruct (N.eqb_spec j 0) as [->|Hj].
    + destruct (N.ltb_spec 0 (N.of_nat (S n))); [|lia]. f_equal. lia.
    + rewrite IH. destruct (N.ltb_spec (N.pred j) (N.of_nat n)), (N.ltb_spec j (N.of_nat (S n))); try lia.
      * f_equal. lia.
      * reflexivity.
Qed.
Lemma nthN_app {A} (l1 l2 : list A) i : nthN (l1 ++ l2) i = if i <? len l1 then nthN l1 i else nthN l2 (i - len l1).
Proof.
  destruct (N.ltb_spec i (len l1)); [now apply nthN_app1|now apply nthN_app2].
Qed.
Lemma nthN_setN {A} (l : list A) i j v :
  nthN (setN l i v) j = if (j =? i) && (i <? len l) then Some v else nthN l j.
Proof.
  destruct (N.eqb_spec j i) as [->|Hne]; cbn [andb].
  - destruct (N.ltb_spec i (len l)) as [H|H].
    + now apply nthN_setN_same.
    + rewrite !nthN_none; [reflexivity|exact H|now rewrite setN_len].
  - apply nthN_setN_other. congruence.
Qed.
Lemma setN_out {A} (l : list A) : forall i v, len l <= i -> setN l i v = l.
Proof.
  intros i v H. apply list_ext_nthN. intros j. rewrite nthN_setN.
  destruct (N.ltb_spec i (len l)); [lia|]. now rewrite andb_false_r.
Qed.

(* countb *)
Lemma countb_app l1 l2 : countb (l1 ++ l2) = countb l1 + countb l2.
Proof. induction l1 as [|x l1 IH]; cbn [app countb]; [lia|]. rewrite IH. lia. Qed.
Lemma countb_le_len l : countb l <= len l.
Proof. induction l as [|x l IH]; cbn [countb]; [lens; lia|]. rewrite len_cons. destruct x; lia. Qed.
Lemma countb_repeat_false n : countb (repeat false n) = 0.
Proof. induction n as [|n IH]; cbn [repeat countb]; [reflexivity|]. rewrite IH. lia. Qed.
Lemma countb_setN l : forall i v old, nthN l i = Some old ->
  countb (setN l i v) + N.b2n old = countb l + N.b2n v.
Proof.
  induction l as [|x l IH]; intros i v old H; [discriminate H|].
  cbn [nthN] in H. cbn [setN]. destruct (N.eqb_spec i 0) as [->|Hi].
  - injection H as ->. cbn [countb]. destruct v, old; cbn [N.b2n]; lia.
  - cbn [countb]. specialize (IH _ v _ H). destruct x; lia.
Qed.
Lemma countb_nth_pos l i : nthN l i = Some true -> 1 <= countb l.
Proof.
  revert i. induction l as [|x l IH]; intros i H; [discriminate H|].
  cbn [nthN] in H. cbn [countb]. destruct (N.eqb_spec i 0).
  - injection H as ->. lia.
  - specialize (IH _ H). destruct x; lia.
Qed.

(* ------------------------------------------------------------------ bits *)
Lemma b2n_eqb1 b : (N.b2n b =? 1) = b.
Proof. now destruct b. Qed.
Lemma b2n_le1 b : N.b2n b <= 1.
Proof. destruct b; cbn [N.b2n]; lia. Qed.

Lemma pow2_pos n : 0 < 2 ^ n.
Proof. apply N.neq_0_lt_0, N.pow_nonzero. discriminate. Qed.

Lemma land1_shiftr_testbit w p : (N.land (N.shiftr w p) 1 =? 1) = N.testbit w p.
Proof.
  change 1 with (N.ones 1) at 1. rewrite N.land_ones. change (2 ^ 1) with 2.
  rewrite <- N.bit0_eqb, N.shiftr_spec'. now rewrite N.add_0_l.
Qed.
Lemma land1_b2n x : N.land x 1 = N.b2n (N.testbit x 0).
Proof.
  change 1 with (N.ones 1) at 1. rewrite N.land_ones. change (2 ^ 1) with 2. now rewrite N.bit0_mod.
Qed.
Lemma testbit_b2n b j : N.testbit (N.b2n b) j = b && (j =? 0).
Proof.
  destruct b; cbn [N.b2n andb].
  - change 1 with (2 ^ 0). rewrite N.pow2_bits_eqb. now rewrite N.eqb_sym.
  - apply N.bits_0.
Qed.

Lemma lt_pow2_bits x n : x < 2 ^ n -> forall j, n <= j -> N.testbit x j = false.
Proof.
  intros H j Hj. destruct (N.eq_dec x 0) as [->|Hx]; [apply N.bits_0|].
  apply N.bits_above_log2. apply N.log2_lt_pow2 in H; lia.
Qed.
Lemma bits_lt_pow2 x n : (forall j, n <= j -> N.testbit x j = false) -> x < 2 ^ n.
Proof.
  intros H. assert (E : x = x mod 2 ^ n).
  { apply N.bits_inj. intros j. destruct (N.ltb_spec j n) as [Hj|Hj].
    - now rewrite N.mod_pow2_bits_low.
    - rewrite N.mod_pow2_bits_high by assumption. now apply H. }
  rewrite E. apply N.mod_lt. pose proof (pow2_pos n). lia.
Qed.

Lemma shr6 x : N.shiftr x 6 = x / 64.
Proof. now rewrite N.shiftr_div_pow2. Qed.
Lemma shr9 x : N.shiftr x 9 = x / 512.
Proof. now rewrite N.shiftr_div_pow2. Qed.
Lemma land63 x : N.land x 63 = x mod 64.
Proof. change 63 with (N.ones 6). now rewrite N.land_ones. Qed.
Lemma land511 x : N.land x 511 = x mod 512.
Proof. change 511 with (N.ones 9). now rewrite N.land_ones. Qed.
Lemma M64m1_ones : M64 - 1 = N.ones 64.
Proof. reflexivity. Qed.

(* bits_of as a list *)
Lemma len_bits_of n x : len (bits_of n x) = N.of_nat n.
Proof. unfold bits_of. now rewrite len_map, len_seqN. Qed.
Lemma nthN_bits_of n x j :
  nthN (bits_of n x) j = if j <? N.of_nat n then Some (N.b2n (N.testbit x j)) else None.
Proof.
  unfold bits_of. rewrite nthN_map, nthN_seqN. destruct (j <? N.of_nat n); [|reflexivity].
  cbn [option_map]. now rewrite N.add_0_l.
Qed.

(* the value of a list of bits, LSB first *)
Fixpoint bits_value (l : list bool) : N :=
  match l with [] => 0 | b :: r => N.b2n b + 2 * bits_value r end.

Lemma testbit_bits_value l : forall j,
  N.testbit (bits_value l) j = match nthN l j with Some b => b | None => false end.
Proof.
  induction l as [|b l IH]; intros j; cbn [bits_value].
  - apply N.bits_0.
  - rewrite N.add_comm. cbn [nthN]. destruct (N.eqb_spec j 0) as [->|Hj].
    + apply N.testbit_0_r.
    + replace j with (N.succ (N.pred j)) at 1 by lia. rewrite N.testbit_succ_r. apply IH.
Qed.
Lemma bits_value_lt l : bits_value l < 2 ^ len l.
Proof.
  apply bits_lt_pow2. intros j Hj. rewrite testbit_bits_value. now rewrite nthN_none.
Qed.

(* the n low bits of x as booleans *)
Definition bools_of (n : N) (x : N) : list bool := map (N.testbit x) (seqN 0 (N.to_nat n)).
Lemma len_bools_of n x : len (bools_of n x) = n.
Proof. unfold bools_of. rewrite len_map, len_seqN. lia. Qed.
Lemma nthN_bools_of n x j : nthN (bools_of n x) j = if j <? n then Some (N.testbit x j) else None.
Proof.
  unfold bools_of. rewrite nthN_map, nthN_seqN. rewrite Nnat.N2Nat.id.
  destruct (j <? n); [|reflexivity]. cbn [option_map]. now rewrite N.add_0_l.
Qed.
Lemma bits_value_bools_of n x : x < 2 ^ n -> bits_value (bools_of n x) = x.
Proof.
  intros H. apply N.bits_inj. intros j. rewrite testbit_bits_value, nthN_bools_of.
  destruct (N.ltb_spec j n); [reflexivity|]. symmetry. now apply (lt_pow2_bits x n).
Qed.

(* popcount *)
Lemma popcount_double v : popcount (2 * v) = popcount v.
Proof. now destruct v. Qed.
Lemma popcount_succ_double v : popcount (1 + 2 * v) = 1 + popcount v.
Proof. now destruct v. Qed.
Lemma popcount_bits_value l : popcount (bits_value l) = countb l.
Proof.
  induction l as [|b l IH]; cbn [bits_value countb]; [reflexivity|].
  destruct b; cbn [N.b2n].
  - now rewrite popcount_succ_double, IH.
  - now rewrite N.add_0_l, popcount_double, IH.
Qed.
Lemma popcount_bools_of n x : x < 2 ^ n -> popcount x = countb (bools_of n x).
Proof. intros H. rewrite <- popcount_bits_value, bits_value_bools_of; auto. Qed.

(* trailing zeros *)
Lemma ctz_pos_spec p : N.testbit (Npos p) (ctz_pos p) = true /\ forall k, k < ctz_pos p -> N.testbit (Npos p) k = false.
Proof.
  induction p as [p IH|p IH|]; cbn [ctz_pos].
  - split; [reflexivity|]. intros k Hk. lia.
  - destruct IH as [IH1 IH2]. split.
    + change (N.pos p~0) with (2 * N.pos p). rewrite N.add_comm, N.add_1_r.
      rewrite N.double_bits_succ. exact IH1.
    + intros k Hk. change (N.pos p~0) with (2 * N.pos p).
      destruct (N.eq_dec k 0) as [->|Hk0]; [apply N.testbit_even_0|].
      replace k with (N.succ (N.pred k)) by lia. rewrite N.double_bits_succ. apply IH2. lia.
  - split; [reflexivity|]. intros k Hk. lia.
Qed.
Lemma ctz_spec x : x <> 0 -> N.testbit x (ctz x) = true /\ forall k, k < ctz x -> N.testbit x k = false.
Proof. destruct x as [|p]; [congruence|]. intros _. apply ctz_pos_spec. Qed.
Lemma ctz_lt x n : x <> 0 -> x < 2 ^ n -> ctz x < n.
Proof.
  intros Hx Hlt. destruct (ctz_spec x Hx) as [H1 _].
  destruct (N.ltb_spec (ctz x) n) as [|Hge]; [assumption|].
  rewrite (lt_pow2_bits x n Hlt _ Hge) in H1. discriminate.
Qed.
