(* The thin public constructors around `new`, regenerated (Gen/FnsWtnew.v, Gen/FnsQwtnew.v, Gen/FnsRsq.v):
   From<Vec<T>>::from, FromIterator::from_iter of the trees, RSQVector::new.  Each is `new` on the same sequence with the
   permuted slice dropped, so the end-to-end statements of the regenerated `new` transfer verbatim. *)
From Coq Require Import ZArith Lia Permutation.
From QwtModel Require Import ListX Loops Seq Consts Words BitVec RSBin QWT Huff.
From QwtModel Require Import FnsBv FnsRsw2 FnsWt FnsWtnew FnsWtOk FnsWtNewOk.
Open Scope N_scope.

Lemma g_wt_from_vec_new w seq : g_wt_from_vec w seq = let! r := g_wt_new w seq in Val (snd r).
Proof.
  unfold g_wt_from_vec. destruct (g_wt_new w seq) as [[s' [[[[[[[[[[[[a b] c] d] e] f] g] h] i] j] k] l] m]]|]; reflexivity.
Qed.
Lemma g_wt_from_iter_new w seq : g_wt_from_iter w seq = let! r := g_wt_new w seq in Val (snd r).
Proof.
  unfold g_wt_from_iter. destruct (g_wt_new w seq) as [[s' [[[[[[[[[[[[a b] c] d] e] f] g] h] i] j] k] l] m]]|]; reflexivity.
Qed.

(* every public construction path of the plain binary tree, regenerated, followed by the regenerated queries *)
Definition wt_ctor (k : N) (w : N) (seq : list N) :=
  if k =? 0 then (let! r := g_wt_new w seq in Val (snd r)) else if k =? 1 then g_wt_from_vec w seq else g_wt_from_iter w seq.

Theorem g_wt_ctors_correct : forall k w seq,
  (w = 8 \/ w = 16 \/ w = 32 \/ w = 64 \/ w = 128) -> Forall (fun x => x < 2 ^ w) seq ->
  len seq < RSQBuild.RSQ_MAXN ->
  exists n nl sg data nbits nones meta samples nzeros lens,
    wt_ctor k w seq = Val (n, nl, sg, None, None, None, data, nbits, nones, meta, samples, nzeros, lens) /\
    g_wt_len n = Val (len seq) /\ g_wt_is_empty n = Val (len seq =? 0) /\
    (forall i, g_wt_get w n nl data meta nzeros i = Val (nthN seq i)) /\
    (forall c i, c < 2 ^ w ->
       g_wt_rank w n nl sg data meta nzeros c i
       = Val (if negb (len seq =? 0) && (i <=? len seq) && (c <=? maxN seq) then Some (rank_spec seq c i) else None)) /\
    (forall c k fuel, c < 2 ^ w -> k < 2 ^ 64 -> (N.to_nat (len seq / 4096) + 3 <= fuel)%nat ->
       g_wt_select fuel w n nl sg data nbits meta samples nzeros c k
       = Val (if negb (len seq =? 0) && (c <=? maxN seq) then select_spec seq c k else None)).
Proof.
  intros k w seq Hw HF Hn.
  destruct (g_wt_new_correct_closed w seq Hw HF Hn)
    as (s' & n & nl & sg & data & nbits & nones & meta & samples & nzeros & lens & _ & G & L1 & L2 & _ & Hg & _ & Hr & _ & Hs & _).
  exists n, nl, sg, data, nbits, nones, meta, samples, nzeros, lens.
  split.
  - unfold wt_ctor. rewrite g_wt_from_vec_new, g_wt_from_iter_new, G.
    destruct (k =? 0); [reflexivity|]. destruct (k =? 1); reflexivity.
  - repeat split; assumption.
Qed.
Print Assumptions g_wt_ctors_correct.
