(* C05: the rank/select quad vector (Model/RSQ.v) answers every query exactly like the list
   specification (Spec/Seq.v), for every input of fewer than RSQ_MAXN symbols and both block
   sizes, and no Fault occurs.
   Structure: RSQBits/RSQWord (packed superblock words), RSQList (list lemmas),
   RSQBuild (construction invariant -> closed form [dir_ok] of the directory),
   RSQRank / RSQSelect (queries from [dir_ok] and the quad vector invariant [qvb_inv]). *)
From Coq Require Import ZArith Lia ZifyBool ZifyN ZifyNat.
From QwtModel Require Import ListX Seq Consts QVec RSQ ListXP ConstsOk QVecP.
From QwtModel Require Import RSQBits RSQWord RSQList RSQBuild RSQRank RSQSelect.
Ltac Zify.zify_post_hook ::= Z.div_mod_to_equations.
Arguments N.add : simpl never.
Arguments N.sub : simpl never.
Arguments N.mul : simpl never.
Arguments N.eqb : simpl never.
Arguments N.ltb : simpl never.
Arguments N.leb : simpl never.
Arguments N.pred : simpl never.
Arguments N.of_nat : simpl never.
Arguments N.land : simpl never.
Arguments N.lor : simpl never.
Arguments N.shiftr : simpl never.
Arguments N.shiftl : simpl never.
Arguments N.div : simpl never.
Arguments N.modulo : simpl never.
Arguments N.pow : simpl never.
Arguments N.sqrt : simpl never.


(* RSQ_MAXN := MAX_LEN - 4096 is defined in RSQBuild.v *)
Lemma RSQ_MAXN_def : RSQ_MAXN = MAX_LEN - 4096. Proof. reflexivity. Qed.

Definition rsq_spec (bsize : N) (r : rsq) (s : list N) : Prop :=
  rsq_len r = len s /\
  rsq_is_empty r = (len s =? 0) /\
  (forall i, rsq_get r i = Val (nthN s i)) /\
  (forall c i, rsq_rank bsize r c i =
     Val (if (c <=? 3) && (i <=? len s) then Some (rank_spec s c i) else None)) /\
  (forall c k, k < 2 ^ 64 -> rsq_select bsize r c k = Val (if c <=? 3 then select_spec s c k else None)) /\
  (forall c, rsq_occs r c = Val (if c <=? 3 then Some (countN c s) else None)) /\
  (forall c, rsq_occs_smaller_q r c = Val (if c <=? 3 then Some (count_lt c s) else None)) /\
  (* unchecked variants under their preconditions (C10) *)
  (forall c i, c <= 3 -> i <= len s -> rsq_rank_unchecked bsize r c i = Val (rank_spec s c i)) /\
  (forall i x, nthN s i = Some x -> rsq_get_unchecked r i = Val x) /\
  (forall c k p, c <= 3 -> select_spec s c k = Some p -> rsq_select_unchecked bsize r c k = Val p) /\
  (forall c, c <= 3 -> rsq_occs_unchecked r c = Val (countN c s)) /\
  (forall c, c <= 3 -> rsq_occs_smaller_unchecked r c = Val (count_lt c s)) /\
  (* what the wavelet-tree prefetch estimation reads: the block directory alone *)
  (forall c i, c <= 3 -> i <= len s ->
     exists v, rss_rank_block bsize (rsq_rs r) c i = Val v /\ v <= rank_spec s c i).

Lemma rsq_spec_intro bsize q s rs : bsz bsize -> qvb_inv q s -> len s < RSQ_MAXN ->
  dir_ok bsize s rs -> rsq_spec bsize (mk_rsq q rs (occs_smaller_of s)) s.
Proof.
  intros Hb Hq Hn Hd. unfold rsq_spec.
  split; [|split; [|split; [|split; [|split; [|split; [|split; [|split; [|split; [|split; [|split; [|split]]]]]]]]]]].
  - unfold rsq_len. cbn [rsq_qv]. now apply qv_len_inv.
  - unfold rsq_is_empty. cbn [rsq_qv]. now rewrite (qv_len_inv q s Hq).
  - intros i. unfold rsq_get. cbn [rsq_qv]. now apply qv_get_inv.
  - intros c i. now apply rsq_rank_ok.
  - intros c k Hk. now apply rsq_select_ok.
  - intros c. apply rsq_occs_ok.
  - intros c. apply rsq_occs_smaller_ok.
  - intros c i Hc Hi. rewrite rank_spec_rk. now apply rsq_rank_unchecked_ok.
  - intros i x Hx. unfold rsq_get_unchecked. cbn [rsq_qv]. now apply (qv_get_unchecked_inv q s).
  - intros c k p Hc Hsel. unfold rsq_select_unchecked.
    replace (c <=? 3) with true by lia. cbn [odebug_assert bind].
    rewrite rsq_occs_ok. replace (c <=? 3) with true by lia. cbn [bind].
    pose proof (select_spec_some_lt s c k p Hsel) as Hk.
    replace (k <? countN c s) with true by lia. cbn [odebug_assert bind].
    pose proof (countN_le_len c s) as Hcl. pose proof Hn as Hn'. rewrite RSQ_MAXN_val in Hn'.
    rewrite (rsq_select_ok bsize q s rs c k Hb Hn Hq Hd) by (norm_pow; lia).
    replace (c <=? 3) with true by lia. cbn [bind]. rewrite Hsel. reflexivity.
  - intros c Hc. now apply rsq_occs_unchecked_ok.
  - intros c Hc. now apply rsq_occs_smaller_unchecked_ok.
  - intros c i Hc Hi. cbn [rsq_rs]. eexists. split; [now apply (rss_rank_block_ok bsize s)|].
    rewrite rank_spec_rk. apply rk_mono. destruct Hb as [-> | ->]; lia.
Qed.

(* quad vector q stores the symbols s (all < 4) *)
Theorem rsq_from_qv_correct : forall bsize q s,
  (bsize = 256 \/ bsize = 512) -> qvb_inv q s -> Forall (fun x => x < 4) s -> len s < RSQ_MAXN ->
  exists r, rsq_from_qv bsize q = Val r /\ rsq_spec bsize r s.
Proof.
  intros bsize q s Hb Hq HF Hn. unfold rsq_from_qv.
  rewrite (qv_symbols_inv q s Hq). cbn [bind].
  destruct (rss_new_ok bsize s Hb Hn HF) as (rs & E & Hd). rewrite E. cbn [bind].
  eexists. split; [reflexivity|]. now apply rsq_spec_intro.
Qed.

Lemma sym4_lt x : sym4 x < 4.
Proof. unfold sym4. lia. Qed.

Theorem rsq_new_correct : forall bsize vs, (bsize = 256 \/ bsize = 512) -> len vs < RSQ_MAXN ->
  exists r, rsq_new bsize vs = Val r /\ rsq_spec bsize r (map sym4 vs).
Proof.
  intros bsize vs Hb Hn. unfold rsq_new.
  destruct (qvb_push_all_inv (map (fun v => v mod 256) vs) qvb_new [] qvb_inv_new) as (q & E & Hq).
  rewrite E. cbn [bind app] in *.
  assert (Es : map sym4 (map (fun v => v mod 256) vs) = map sym4 vs).
  { rewrite map_map. apply map_ext. intros v. unfold sym4. lia. }
  rewrite Es in Hq. apply rsq_from_qv_correct; try assumption.
  - apply Forall_forall. intros x Hx. apply in_map_iff in Hx. destruct Hx as (v & <- & _). apply sym4_lt.
  - unfold len in *. now rewrite map_length.
Qed.

Theorem rsq_default_correct : forall bsize, (bsize = 256 \/ bsize = 512) ->
  exists r, rsq_default bsize = Val r /\ rsq_spec bsize r [].
Proof.
  intros bsize Hb. unfold rsq_default. apply rsq_from_qv_correct.
  - exact Hb.
  - exact qvb_inv_new.
  - constructor.
  - reflexivity.
Qed.

(* ------------------------------------------------------------------ non-vacuity *)
Definition rsq_example_input : list N := map (fun i => (i * i / 7 + i / 3) mod 256) (seqN 0 600).

Definition rsq_example_checks (bsize : N) : Prop :=
  match rsq_new bsize rsq_example_input with
  | Val r =>
      rsq_len r = 600 /\ rsq_get r 599 = Val (Some 0) /\
      rsq_rank bsize r 2 300 = Val (Some 87) /\ rsq_rank bsize r 0 600 = Val (Some 173) /\
      rsq_rank bsize r 1 601 = Val None /\
      rsq_select bsize r 1 100 = Val (Some 460) /\ rsq_select bsize r 3 0 = Val (Some 4) /\
      rsq_select bsize r 2 149 = Val (Some 528) /\ rsq_select bsize r 2 1000 = Val None /\
      rsq_occs r 3 = Val (Some 129) /\ rsq_occs_smaller_q r 2 = Val (Some 301) /\
      rsq_select_unchecked bsize r 2 149 = Val 528 /\ rsq_rank_unchecked bsize r 2 300 = Val 87
  | Fault _ => False
  end.

Example rsq_example_256 : rsq_example_checks 256.
Proof. vm_compute. repeat split; reflexivity. Qed.
Example rsq_example_512 : rsq_example_checks 512.
Proof. vm_compute. repeat split; reflexivity. Qed.
(* the same values from the specification side *)
Example rsq_example_spec :
  let s := map sym4 rsq_example_input in
  len s = 600 /\ nthN s 599 = Some 0 /\ rank_spec s 2 300 = 87 /\ rank_spec s 0 600 = 173 /\
  select_spec s 1 100 = Some 460 /\ select_spec s 3 0 = Some 4 /\ select_spec s 2 149 = Some 528 /\
  select_spec s 2 1000 = None /\ countN 3 s = 129 /\ count_lt 2 s = 301.
Proof. vm_compute. repeat split; reflexivity. Qed.

Print Assumptions rsq_from_qv_correct.
Print Assumptions rsq_new_correct.
Print Assumptions rsq_default_correct.
Print Assumptions rsq_example_256.
Print Assumptions rsq_example_512.
