(* T5 (QWaveletTree<T, RSQVector<RSSupportPlain<B>>>, src/quadwt/mod.rs, B = 256 and 512, element width wT
   symbolic): the functions REGENERATED from the source (Gen/FnsQwt.v: the g_qwt256_ and g_qwt512_ families)
   agree with the hand model (Model/QWT.v), and return the list specification on every tree qwt_new builds.
   Representation: the field `qvs : Vec<RSQVector>` is passed as one list per field of RSQVector
   (qwt_data .. qwt_occs below). *)
From Coq Require Import ZArith Lia ZifyBool ZifyN ZifyNat.
From QwtModel Require Import ListX Loops Seq Consts SelTable Words QVec RSQ QWT ListXP ConstsOk WordsP BitsLib LeafP.
From QwtModel Require Import LeavesLib FnsRss FnsQv2 FnsRsq FnsQv2Ok FnsRssOk FnsRsqOk FnsQwt.
From QwtModel Require Import QVecP RSQList RSQWord RSQBuild RSQP WaveletMatrix QWTArith QWTBuild QWTWalk QWTP.
Open Scope N_scope.
Arguments N.add : simpl never.
Arguments N.sub : simpl never.
Arguments N.mul : simpl never.
Arguments N.eqb : simpl never.
Arguments N.ltb : simpl never.
Arguments N.leb : simpl never.
Arguments N.pred : simpl never.
Arguments N.of_nat : simpl never.
Arguments N.land : simpl never.
Arguments N.lor : simpl never.
Arguments N.lxor : simpl never.
Arguments N.shiftr : simpl never.
Arguments N.shiftl : simpl never.
Arguments N.testbit : simpl never.
Arguments N.div : simpl never.
Arguments N.modulo : simpl never.
Arguments N.pow : simpl never.
Arguments N.ones : simpl never.
Arguments Z.of_N : simpl never.
Arguments Z.to_N : simpl never.
Arguments Z.modulo : simpl never.
Arguments Z.pow : simpl never.
Arguments Z.sub : simpl never.
Arguments Z.add : simpl never.
Arguments Z.mul : simpl never.

(* ------------------------------------------------------------------ the fields of the tree *)
(* `qvs: Vec<RS>` as the generated functions receive it: struct of arrays *)
Definition lvl_sbs (r : rsq) : list (list N) := rs_superblocks (rsq_rs r).
Definition lvl_samples (r : rsq) : list (list N) := rs_samples (rsq_rs r).
Definition qwt_data (t : qwt) : list (list (list N)) := map rsq_wdata (q_qvs t).
Definition qwt_pos (t : qwt) : list N := map rsq_pos (q_qvs t).
Definition qwt_sbs (t : qwt) : list (list (list N)) := map lvl_sbs (q_qvs t).
Definition qwt_samples (t : qwt) : list (list (list N)) := map lvl_samples (q_qvs t).
Definition qwt_occs (t : qwt) : list (list N) := map rsq_occs_smaller (q_qvs t).

Lemma idx_map {A B} (f : A -> B) l i : idx (map f l) i = (let! x := idx l i in Val (f x)).
Proof. unfold idx. rewrite nthN_map. destruct (nthN l i); reflexivity. Qed.

(* ------------------------------------------------------------------ arithmetic helpers *)
Lemma p63 : 2 ^ 63 = 9223372036854775808. Proof. reflexivity. Qed.
Lemma zp64 : (2 ^ 64 = 18446744073709551616)%Z. Proof. reflexivity. Qed.
Lemma zp63 : (2 ^ 63 = 9223372036854775808)%Z. Proof. reflexivity. Qed.

(* a non-negative i64 used as a shift amount (`shift as usize`) *)
Lemma shamt_of_N sh : sh < 2 ^ 64 -> Z.to_N (Z.modulo (Z.of_N sh) (2 ^ 64)%Z) = sh.
Proof.
  intros H. rewrite p64 in H. rewrite Z.mod_small by (rewrite zp64; lia). apply N2Z.id.
Qed.

Lemma zin64 z : (- 9223372036854775808 <= z < 9223372036854775808)%Z -> zin 64 z = true.
Proof.
  intros H. unfold zin. change (Z.of_N 64 - 1)%Z with 63%Z. rewrite zp63.
  destruct (Z.leb_spec (- 9223372036854775808) z), (Z.ltb_spec z 9223372036854775808); try lia; reflexivity.
Qed.

Lemma zwrap_small z : (0 <= z < 9223372036854775808)%Z -> zwrap 64 z = z.
Proof.
  intros H. unfold zwrap. change (Z.of_N 64 - 1)%Z with 63%Z. change (Z.of_N 64) with 64%Z.
  rewrite zp63, zp64. rewrite Z.mod_small by lia.
  destruct (Z.ltb_spec z 9223372036854775808); [reflexivity|lia].
Qed.

Lemma zisub2 z : (0 <= z < 9223372036854775808)%Z -> zisub 64 z 2 = Val (z - 2)%Z.
Proof. intros H. unfold zisub. rewrite zin64 by lia. reflexivity. Qed.
Lemma ziadd2 z : (0 <= z < 9223372036854775806)%Z -> ziadd 64 z 2 = Val (z + 2)%Z.
Proof. intros H. unfold ziadd. rewrite zin64 by lia. reflexivity. Qed.
Lemma zimul2 z : (0 <= z < 4611686018427387904)%Z -> zimul 64 2 z = Val (2 * z)%Z.
Proof. intros H. unfold zimul. rewrite zin64 by lia. reflexivity. Qed.

Lemma land3_le x : N.land x 3 <= 3.
Proof. pose proof (land_lt_r x 3 2 ltac:(reflexivity)) as H. change (2 ^ 2) with 4 in H. lia. Qed.
Lemma land3_mod8 x : N.land x 3 mod 2 ^ 8 = N.land x 3.
Proof. pose proof (land3_le x). apply N.mod_small. change (2 ^ 8) with 256. lia. Qed.

Lemma oadd_small w a b : a + b < 2 ^ w -> oadd w a b = Val (a + b).
Proof. intros H. unfold oadd. destruct (N.ltb_spec (a + b) (2 ^ w)); [reflexivity|lia]. Qed.

(* ------------------------------------------------------------------ well-formed levels *)
(* what the rank / get walks need of a level: well-formed data lines, u128 superblock words (so that a
   rank is below 2^45) and prefix counts that leave room for it *)
Definition lvl_rank_ok (r : rsq) : Prop :=
  rsq_lines_ok r /\
  Forall (Forall (fun w => w < 2 ^ 128)) (rs_superblocks (rsq_rs r)) /\
  Forall (fun x => x < 2 ^ 63) (rsq_occs_smaller r).

(* .. and select: u32 samples, enough fuel for the superblock scans, positions that fit a usize *)
Definition lvl_select_ok (bsize : N) (fuel : nat) (r : rsq) : Prop :=
  lvl_rank_ok r /\
  Forall (Forall (fun x => x < 2 ^ 32)) (rs_samples (rsq_rs r)) /\
  (S (length (rs_superblocks (rsq_rs r))) <= fuel)%nat /\
  (forall c k p, k < 2 ^ 64 -> rsq_select bsize r c k = Val (Some p) -> p < 2 ^ 64).

Lemma lvl_select_typed bsize fuel r : lvl_select_ok bsize fuel r -> rss_typed (rsq_rs r).
Proof. intros ((_ & H & _) & H' & _). split; assumption. Qed.

(* a rank of a level with u128 superblock words is small *)
Lemma sb_get_rank_bound s c b v : Forall (fun w => w < 2 ^ 128) s -> sb_get_rank s c b = Val v -> v < 2 ^ 44 + 4096.
Proof.
  intros Hs. unfold sb_get_rank.
  destruct (uidx s c) as [data|] eqn:Ed; cbn [bind]; [|discriminate].
  pose proof (uidx_Forall _ _ _ _ Hs Ed) as Hd. cbv beta in Hd.
  destruct (osub b (if 0 <? b then 1 else 0)) as [k|]; cbn [bind]; [|discriminate].
  destruct (omul 64 k BLK_BITS_GR) as [sh|]; cbn [bind]; [|discriminate].
  destruct (oshr 128 data sh) as [d|]; cbn [bind]; [|discriminate].
  destruct (omul 64 (N.land (d mod 2 ^ 64) BLK_MASK_GR) (if 0 <? b then 1 else 0)) as [bb|] eqn:Eb; cbn [bind]; [|discriminate].
  intros E. apply oadd_Val_inv in E. destruct E as [-> _].
  assert (H1 : N.shiftr data SB_SHIFT_GR mod 2 ^ 64 < 2 ^ 44).
  { assert (H : N.shiftr data SB_SHIFT_GR < 2 ^ 44) by (apply shiftr_lt; exact Hd).
    eapply N.le_lt_trans; [apply N.mod_le; discriminate|exact H]. }
  assert (H2 : bb < 4096).
  { unfold omul in Eb. destruct (_ <? 2 ^ 64) in Eb; [|discriminate]. apply Val_inj in Eb. subst bb.
    pose proof (land_lt_r (d mod 2 ^ 64) BLK_MASK_GR 12 ltac:(reflexivity)) as H. change (2 ^ 12) with 4096 in H.
    destruct (0 <? b); lia. }
  lia.
Qed.

Lemma rank_intra_bound bsize r c i v : rsq_rank_intra_block bsize r c i = Val v -> v <= 512.
Proof.
  unfold rsq_rank_intra_block.
  destruct (odebug_assert (c <=? 3)) as [[]|]; cbn [bind]; [|discriminate].
  destruct (bsize =? 256).
  - destruct (nthN _ _); intros E; [apply line_rank_le in E|apply Val_inj in E]; lia.
  - destruct (match nthN (qv_data (rsq_qv r)) (N.shiftr i 9 * 2) with Some d => _ | None => Val 0 end) as [a|] eqn:Ea;
      cbn [bind]; [|discriminate].
    assert (Ha : a <= 256).
    { destruct (nthN _ _) in Ea; [apply line_rank_le in Ea|apply Val_inj in Ea]; lia. }
    destruct (256 <? N.land i 511).
    + destruct (match nthN (qv_data (rsq_qv r)) (N.shiftr i 9 * 2 + 1) with Some d => _ | None => Val 0 end) as [b|] eqn:Eb;
        cbn [bind]; [|discriminate].
      assert (Hb : b <= 256).
      { destruct (nthN _ _) in Eb; [apply line_rank_le in Eb|apply Val_inj in Eb]; lia. }
      intros E. apply Val_inj in E. lia.
    + intros E. apply Val_inj in E. lia.
Qed.

Lemma rank_unchecked_bound bsize r c i v :
  Forall (Forall (fun w => w < 2 ^ 128)) (rs_superblocks (rsq_rs r)) ->
  rsq_rank_unchecked bsize r c i = Val v -> v < 2 ^ 45.
Proof.
  intros Hs. unfold rsq_rank_unchecked.
  destruct (odebug_assert (c <=? 3)) as [[]|]; cbn [bind]; [|discriminate].
  destruct (rss_rank_block bsize (rsq_rs r) c i) as [a|] eqn:Ea; cbn [bind]; [|discriminate].
  destruct (rsq_rank_intra_block bsize r c i) as [b|] eqn:Eb; cbn [bind]; [|discriminate].
  intros E. apply Val_inj in E. subst v.
  apply rank_intra_bound in Eb.
  unfold rss_rank_block in Ea.
  destruct (odebug_assert (c <=? 3)) as [[]|] in Ea; cbn [bind] in Ea; [|discriminate].
  destruct (uidx (rs_superblocks (rsq_rs r)) _) as [sb|] eqn:Esb; cbn [bind] in Ea; [|discriminate].
  pose proof (uidx_Forall _ _ _ _ Hs Esb) as Hsb. cbv beta in Hsb.
  apply sb_get_rank_bound in Ea; [|exact Hsb].
  change (2 ^ 44) with 17592186044416 in Ea. change (2 ^ 45) with 35184372088832. lia.
Qed.

Lemma rank_bound bsize r c i p :
  Forall (Forall (fun w => w < 2 ^ 128)) (rs_superblocks (rsq_rs r)) ->
  rsq_rank bsize r c i = Val (Some p) -> p < 2 ^ 45.
Proof.
  intros Hs. unfold rsq_rank. destruct ((3 <? c) || (rsq_len r <? i)); [discriminate|].
  destruct (rsq_rank_unchecked bsize r c i) as [v|] eqn:Ev; cbn [bind]; [|discriminate].
  intros E. apply Val_inj in E. injection E as <-. eapply rank_unchecked_bound; eassumption.
Qed.

Lemma occs_smaller_bound r c o : Forall (fun x => x < 2 ^ 63) (rsq_occs_smaller r) ->
  rsq_occs_smaller_unchecked r c = Val o -> o < 2 ^ 63 /\ c <= 3.
Proof.
  intros HF. unfold rsq_occs_smaller_unchecked.
  destruct (N.leb_spec c 3); cbn [odebug_assert bind]; [|discriminate].
  intros E. split; [|assumption]. exact (idx_Forall _ _ _ _ HF E).
Qed.

Lemma get_unchecked_lt4 r i x : rsq_lines_ok r -> rsq_get_unchecked r i = Val x -> x < 4.
Proof.
  intros Hr. unfold rsq_get_unchecked, qv_get_unchecked.
  destruct (odebug_assert _) as [[]|]; cbn [bind]; [|discriminate].
  destruct (uidx (qv_data (rsq_qv r)) _) as [l|] eqn:El; cbn [bind]; [|discriminate].
  pose proof (uidx_Forall _ _ _ _ Hr El) as [_ Hl].
  unfold line_get_unchecked. intros E. exact (uidx_Forall _ _ _ _ Hl E).
Qed.

(* ================================================================== the walks, once for both block sizes *)
(* The generated text for B = 256 and B = 512 differs only in the names of the RSQVector functions it calls:
   the G_ definitions below are that text with the callees as section variables (the two instances are
   convertible to the generated definitions: [reflexivity] in the theorems after the section), and the
   hypotheses are the agreement theorems of Proofs/FnsRsqOk.v. *)
Section Generic.
  Variable bsize : N.
  Variable g_get_u : list (list N) -> N -> N -> outcome N.
  Variable g_occs_su : list N -> N -> outcome N.
  Variable g_rank_u : list (list N) -> list (list N) -> N -> N -> outcome N.
  Variable g_rank : list (list N) -> N -> list (list N) -> N -> N -> outcome (option N).
  Variable g_select : nat -> list (list N) -> list (list N) -> list (list N) -> list N -> N -> N -> outcome (option N).
  Hypothesis get_u_ok : forall r i, rsq_lines_ok r ->
    g_get_u (rsq_wdata r) (rsq_pos r) i = rsq_get_unchecked r i.
  Hypothesis occs_su_ok : forall r c, g_occs_su (rsq_occs_smaller r) c = rsq_occs_smaller_unchecked r c.
  Hypothesis rank_u_ok : forall r symbol i v, rsq_lines_ok r -> i < 2 ^ 64 -> v < 2 ^ 64 ->
    rsq_rank_unchecked bsize r symbol i = Val v ->
    g_rank_u (rsq_wdata r) (rs_superblocks (rsq_rs r)) symbol i = Val v.
  Hypothesis rank_ok : forall r symbol i v, rsq_lines_ok r -> i < 2 ^ 64 -> (forall p, v = Some p -> p < 2 ^ 64) ->
    rsq_rank bsize r symbol i = Val v ->
    g_rank (rsq_wdata r) (rsq_pos r) (rs_superblocks (rsq_rs r)) symbol i = Val v.
  Hypothesis select_ok : forall r symbol i v fuel,
    rsq_lines_ok r -> rss_typed (rsq_rs r) -> (S (length (rs_superblocks (rsq_rs r))) <= fuel)%nat ->
    (forall p, v = Some p -> p < 2 ^ 64) ->
    rsq_select bsize r symbol i = Val v ->
    g_select fuel (rsq_wdata r) (rs_superblocks (rsq_rs r)) (rs_samples (rsq_rs r)) (rsq_occs_smaller r) symbol i = Val v.

  (* ---------------------------------------------------------------- rank_unchecked / rank *)
  Definition G_rank_unchecked (wT : N) (n_levels : N) (qvs_qv_data : list (list (list N))) (qvs_rs_support_superblocks : list (list (list N))) (qvs_n_occs_smaller : list (list N)) (symbol : N) (i : N) : outcome N :=
    let! t1 := osub n_levels 1 in
    let! t2 := omul 64 2 t1 in
    let shift := zwrap 64 (Z.of_N t2) in
    let cur_i := i in
    let cur_p := 0 in
    let! t3 := osub n_levels 1 in
    let! r := for_loop (fun level '(cur_p, cur_i, shift) =>
        let! t4 := oshr wT symbol (Z.to_N (Z.modulo shift (2 ^ 64)%Z)) in
        let two_bits := (N.land (t4 mod 2 ^ 64) 3) mod 2 ^ 8 in
        let! t5 := idx qvs_n_occs_smaller level in
        let! offset := g_occs_su t5 two_bits in
        let! t6 := idx qvs_qv_data level in
        let! t7 := idx qvs_rs_support_superblocks level in
        let! t8 := g_rank_u t6 t7 two_bits cur_p in
        let! cur_p := oadd 64 t8 offset in
        let! t9 := idx qvs_qv_data level in
        let! t10 := idx qvs_rs_support_superblocks level in
        let! t11 := g_rank_u t9 t10 two_bits cur_i in
        let! cur_i := oadd 64 t11 offset in
        let! shift := zisub 64 shift (2%Z) in
        Val (Next (cur_p, cur_i, shift))
      ) 0 (N.to_nat (t3 - 0)) (cur_p, cur_i, shift) in
    match r with
    | Retd v => Val v
    | Done (cur_p, cur_i, shift) =>
        let! t12 := oshr wT symbol (Z.to_N (Z.modulo shift (2 ^ 64)%Z)) in
        let two_bits := (N.land (t12 mod 2 ^ 64) 3) mod 2 ^ 8 in
        let! t13 := osub n_levels 1 in
        let! t14 := idx qvs_qv_data t13 in
        let! t15 := idx qvs_rs_support_superblocks t13 in
        let! cur_i := g_rank_u t14 t15 two_bits cur_i in
        let! t16 := osub n_levels 1 in
        let! t17 := idx qvs_qv_data t16 in
        let! t18 := idx qvs_rs_support_superblocks t16 in
        let! cur_p := g_rank_u t17 t18 two_bits cur_p in
        osub cur_i cur_p
    end.

  Definition G_rank (wT : N) (n : N) (n_levels : N) (sigma : N) (qvs_qv_data : list (list (list N))) (qvs_rs_support_superblocks : list (list (list N))) (qvs_n_occs_smaller : list (list N)) (symbol : N) (i : N) : outcome (option N) :=
    if orb (orb (N.eqb n 0) (N.ltb n i)) (N.ltb sigma symbol) then
      Val None
    else
      let! t1 := G_rank_unchecked wT n_levels qvs_qv_data qvs_rs_support_superblocks qvs_n_occs_smaller symbol i in
      Val (Some t1).

  Definition G_rank_body (wT : N) (qvs : list rsq) (symbol : N) : N -> N * N * Z -> outcome (step (N * N * Z) N) :=
    fun level '(cur_p, cur_i, shift) =>
        let! t4 := oshr wT symbol (Z.to_N (Z.modulo shift (2 ^ 64)%Z)) in
        let two_bits := (N.land (t4 mod 2 ^ 64) 3) mod 2 ^ 8 in
        let! t5 := idx (map rsq_occs_smaller qvs) level in
        let! offset := g_occs_su t5 two_bits in
        let! t6 := idx (map rsq_wdata qvs) level in
        let! t7 := idx (map lvl_sbs qvs) level in
        let! t8 := g_rank_u t6 t7 two_bits cur_p in
        let! cur_p := oadd 64 t8 offset in
        let! t9 := idx (map rsq_wdata qvs) level in
        let! t10 := idx (map lvl_sbs qvs) level in
        let! t11 := g_rank_u t9 t10 two_bits cur_i in
        let! cur_i := oadd 64 t11 offset in
        let! shift := zisub 64 shift (2%Z) in
        Val (Next (cur_p, cur_i, shift)).

  Lemma rank_loop_sim wT symbol qvs : Forall lvl_rank_ok qvs ->
    forall n level cur_p cur_i sh p' i' s', cur_p < 2 ^ 64 -> cur_i < 2 ^ 64 -> sh < 2 ^ 63 ->
    qwt_rank_walk wT bsize qvs symbol sh cur_p cur_i level n = Val (p', i', s') ->
    for_loop (G_rank_body wT qvs symbol) level n (cur_p, cur_i, Z.of_N sh) = Val (Done (p', i', Z.of_N s')) /\
    p' < 2 ^ 64 /\ i' < 2 ^ 64 /\ s' < 2 ^ 63.
  Proof.
    intros HF. induction n as [|n IH]; intros level cur_p cur_i sh p' i' s' Hp Hi Hs.
    - cbn [qwt_rank_walk for_loop]. intros E. apply Val_inj in E. injection E as <- <- <-. auto.
    - cbn [qwt_rank_walk for_loop]. unfold G_rank_body at 1. cbv beta iota zeta.
      rewrite shamt_of_N by (rewrite p63, ?p64 in *; lia).
      unfold two_bits. destruct (oshr wT symbol sh) as [y|]; cbn [bind]; [|discriminate].
      rewrite land3_mod8. set (tb := N.land (y mod 2 ^ 64) 3).
      rewrite !idx_map.
      destruct (idx qvs level) as [qv|] eqn:Eqv; cbn [bind]; [|discriminate].
      pose proof (idx_Forall _ _ _ _ HF Eqv) as (Hl & Hw & Ho).
      rewrite occs_su_ok.
      destruct (rsq_occs_smaller_unchecked qv tb) as [offset|] eqn:Eo; cbn [bind]; [|discriminate].
      destruct (occs_smaller_bound _ _ _ Ho Eo) as [Hoff _].
      destruct (rsq_rank_unchecked bsize qv tb cur_p) as [rp|] eqn:Erp; cbn [bind]; [|discriminate].
      destruct (rsq_rank_unchecked bsize qv tb cur_i) as [ri|] eqn:Eri; cbn [bind]; [|discriminate].
      pose proof (rank_unchecked_bound _ _ _ _ _ Hw Erp) as Hrp.
      pose proof (rank_unchecked_bound _ _ _ _ _ Hw Eri) as Hri.
      change (2 ^ 45) with 35184372088832 in Hrp, Hri. rewrite p63 in Hoff, Hs. 
      destruct (osub sh 2) as [sh'|] eqn:Esh; cbn [bind]; [|discriminate].
      apply osub_Val in Esh. destruct Esh as [-> Hsh].
      intros E. unfold lvl_sbs at 1 2.
      rewrite (rank_u_ok qv tb cur_p rp Hl Hp ltac:(rewrite p64; lia) Erp). cbn [bind].
      rewrite oadd_small by (rewrite p64; lia). cbn [bind].
      rewrite (rank_u_ok qv tb cur_i ri Hl Hi ltac:(rewrite p64; lia) Eri). cbn [bind].
      rewrite oadd_small by (rewrite p64; lia). cbn [bind].
      rewrite zisub2 by lia. cbn [bind].
      replace (Z.of_N sh - 2)%Z with (Z.of_N (sh - 2)) by lia.
      apply IH; try assumption; rewrite ?p64, ?p63; lia.
  Qed.

  Theorem G_rank_unchecked_sim : forall wT t symbol i v,
    Forall lvl_rank_ok (q_qvs t) -> q_n_levels t <= 2 ^ 62 -> i < 2 ^ 64 ->
    qwt_rank_unchecked wT bsize t symbol i = Val v ->
    G_rank_unchecked wT (q_n_levels t) (qwt_data t) (qwt_sbs t) (qwt_occs t) symbol i = Val v.
  Proof.
    intros wT t symbol i v HF Hnl Hi. unfold qwt_rank_unchecked, G_rank_unchecked.
    destruct (osub (q_n_levels t) 1) as [l1|] eqn:El1; cbn [bind]; [|discriminate].
    apply osub_Val in El1. destruct El1 as [El1 Hl1]. change (2 ^ 62) with 4611686018427387904 in Hnl.
    destruct (qwt_rank_walk wT bsize (q_qvs t) symbol (2 * l1) 0 i 0 (N.to_nat l1)) as [[[p' i'] s']|] eqn:Ew;
      cbn [bind]; [|discriminate].
    assert (H0 : 0 < 2 ^ 64) by (rewrite p64; lia).
    assert (H2 : 2 * l1 < 2 ^ 63) by (rewrite p63; lia).
    destruct (rank_loop_sim wT symbol (q_qvs t) HF _ _ _ _ _ _ _ _ H0 Hi H2 Ew) as (Hloop & Hp' & Hi' & Hs').
    rewrite p63 in H2.
    unfold omul. destruct (N.ltb_spec (2 * l1) (2 ^ 64)) as [_|H]; [|rewrite p64 in H; lia]. cbn [bind].
    rewrite zwrap_small by lia. rewrite N.sub_0_r.
    unfold G_rank_body in Hloop. unfold qwt_data, qwt_sbs, qwt_occs. rewrite Hloop. cbn [bind]. cbv beta iota zeta.
    rewrite shamt_of_N by (rewrite p63, ?p64 in *; lia).
    unfold two_bits. destruct (oshr wT symbol s') as [y|]; cbn [bind]; [|discriminate].
    rewrite land3_mod8. set (tb := N.land (y mod 2 ^ 64) 3).
    rewrite !idx_map.
    destruct (idx (q_qvs t) l1) as [qv|] eqn:Eqv; cbn [bind]; [|discriminate].
    pose proof (idx_Forall _ _ _ _ HF Eqv) as (Hl & Hw & Ho).
    destruct (rsq_rank_unchecked bsize qv tb i') as [ci|] eqn:Eci; cbn [bind]; [|discriminate].
    destruct (rsq_rank_unchecked bsize qv tb p') as [cp|] eqn:Ecp; cbn [bind]; [|discriminate].
    pose proof (rank_unchecked_bound _ _ _ _ _ Hw Eci) as Hci.
    pose proof (rank_unchecked_bound _ _ _ _ _ Hw Ecp) as Hcp.
    change (2 ^ 45) with 35184372088832 in Hci, Hcp.
    intros E. unfold lvl_sbs.
    rewrite (rank_u_ok qv tb i' ci Hl Hi' ltac:(rewrite p64; lia) Eci). cbn [bind].
    rewrite (rank_u_ok qv tb p' cp Hl Hp' ltac:(rewrite p64; lia) Ecp). cbn [bind].
    exact E.
  Qed.

  Theorem G_rank_sim : forall wT t symbol i v,
    Forall lvl_rank_ok (q_qvs t) -> q_n_levels t <= 2 ^ 62 -> i < 2 ^ 64 ->
    qwt_rank wT bsize t symbol i = Val v ->
    G_rank wT (q_n t) (q_n_levels t) (q_sigma t) (qwt_data t) (qwt_sbs t) (qwt_occs t) symbol i = Val v.
  Proof.
    intros wT t symbol i v HF Hnl Hi. unfold qwt_rank, G_rank.
    replace ((q_n t =? 0) || (q_n t <? i) || (q_sigma t <? symbol))%bool
      with ((q_n t <? i) || (q_sigma t <? symbol) || (q_n t =? 0))%bool
      by (destruct (q_n t =? 0), (q_n t <? i), (q_sigma t <? symbol); reflexivity).
    destruct ((q_n t <? i) || (q_sigma t <? symbol) || (q_n t =? 0))%bool; [trivial|].
    destruct (qwt_rank_unchecked wT bsize t symbol i) as [x|] eqn:Ex; cbn [bind]; [|discriminate].
    intros E. rewrite (G_rank_unchecked_sim wT t symbol i x HF Hnl Hi Ex). exact E.
  Qed.

  (* ---------------------------------------------------------------- get_unchecked / get *)
  Definition G_get_unchecked (wT : N) (n_levels : N) (qvs_qv_data : list (list (list N))) (qvs_qv_position : list N) (qvs_rs_support_superblocks : list (list (list N))) (qvs_n_occs_smaller : list (list N)) (i : N) : outcome N :=
    let result := 0 in
    let cur_i := i in
    let! t1 := osub n_levels 1 in
    let! r := for_loop (fun level '(result, cur_i) =>
        let! _ := idx qvs_qv_data level in
        let! t2 := idx qvs_qv_data level in
        let! t3 := idx qvs_qv_position level in
        let! symbol := g_get_u t2 t3 cur_i in
        let! t4 := oshl wT result 2 in
        let result := N.lor t4 (symbol mod 2 ^ wT) in
        let! t5 := idx qvs_n_occs_smaller level in
        let! offset := g_occs_su t5 symbol in
        let! t6 := idx qvs_qv_data level in
        let! t7 := idx qvs_rs_support_superblocks level in
        let! t8 := g_rank_u t6 t7 symbol cur_i in
        let! cur_i := oadd 64 t8 offset in
        Val (Next (result, cur_i))
      ) 0 (N.to_nat (t1 - 0)) (result, cur_i) in
    match r with
    | Retd v => Val v
    | Done (result, cur_i) =>
        let! t9 := osub n_levels 1 in
        let! t10 := idx qvs_qv_data t9 in
        let! t11 := idx qvs_qv_position t9 in
        let! symbol := g_get_u t10 t11 cur_i in
        let! t12 := oshl wT result 2 in
        Val (N.lor t12 (symbol mod 2 ^ wT))
    end.

  Definition G_get (wT : N) (n : N) (n_levels : N) (qvs_qv_data : list (list (list N))) (qvs_qv_position : list N) (qvs_rs_support_superblocks : list (list (list N))) (qvs_n_occs_smaller : list (list N)) (i : N) : outcome (option N) :=
    if N.leb n i then
      Val None
    else
      let! t1 := G_get_unchecked wT n_levels qvs_qv_data qvs_qv_position qvs_rs_support_superblocks qvs_n_occs_smaller i in
      Val (Some t1).

  Definition G_get_body (wT : N) (qvs : list rsq) : N -> N * N -> outcome (step (N * N) N) :=
    fun level '(result, cur_i) =>
        let! _ := idx (map rsq_wdata qvs) level in
        let! t2 := idx (map rsq_wdata qvs) level in
        let! t3 := idx (map rsq_pos qvs) level in
        let! symbol := g_get_u t2 t3 cur_i in
        let! t4 := oshl wT result 2 in
        let result := N.lor t4 (symbol mod 2 ^ wT) in
        let! t5 := idx (map rsq_occs_smaller qvs) level in
        let! offset := g_occs_su t5 symbol in
        let! t6 := idx (map rsq_wdata qvs) level in
        let! t7 := idx (map lvl_sbs qvs) level in
        let! t8 := g_rank_u t6 t7 symbol cur_i in
        let! cur_i := oadd 64 t8 offset in
        Val (Next (result, cur_i)).

  Lemma sym_mod_small wT x : 2 < wT -> x < 4 -> x mod 2 ^ wT = x.
  Proof.
    intros Hw Hx. apply N.mod_small. assert (H : 2 ^ 3 <= 2 ^ wT) by (apply N.pow_le_mono_r; lia).
    change (2 ^ 3) with 8 in H. lia.
  Qed.

  Lemma get_loop_sim wT qvs : 2 < wT -> Forall lvl_rank_ok qvs ->
    forall n level result cur_i res' i', cur_i < 2 ^ 64 ->
    qwt_get_walk wT bsize qvs result cur_i level n = Val (res', i') ->
    for_loop (G_get_body wT qvs) level n (result, cur_i) = Val (Done (res', i')) /\ i' < 2 ^ 64.
  Proof.
    intros HwT HF. induction n as [|n IH]; intros level result cur_i res' i' Hi.
    - cbn [qwt_get_walk for_loop]. intros E. apply Val_inj in E. injection E as <- <-. auto.
    - cbn [qwt_get_walk for_loop]. unfold G_get_body at 1. cbv beta iota zeta.
      rewrite !idx_map.
      destruct (idx qvs level) as [qv|] eqn:Eqv; cbn [bind]; [|discriminate].
      pose proof (idx_Forall _ _ _ _ HF Eqv) as (Hl & Hw & Ho).
      rewrite get_u_ok by exact Hl.
      destruct (rsq_get_unchecked qv cur_i) as [sym|] eqn:Esym; cbn [bind]; [|discriminate].
      pose proof (get_unchecked_lt4 _ _ _ Hl Esym) as Hsym.
      unfold oshl. destruct (N.ltb_spec 2 wT); [|lia]. cbn [bind].
      rewrite (sym_mod_small wT sym HwT Hsym).
      rewrite occs_su_ok.
      destruct (rsq_occs_smaller_unchecked qv sym) as [offset|] eqn:Eo; cbn [bind]; [|discriminate].
      destruct (occs_smaller_bound _ _ _ Ho Eo) as [Hoff _].
      destruct (rsq_rank_unchecked bsize qv sym cur_i) as [ri|] eqn:Eri; cbn [bind]; [|discriminate].
      pose proof (rank_unchecked_bound _ _ _ _ _ Hw Eri) as Hri.
      change (2 ^ 45) with 35184372088832 in Hri. rewrite p63 in Hoff.
      intros E. unfold lvl_sbs at 1.
      rewrite (rank_u_ok qv sym cur_i ri Hl Hi ltac:(rewrite p64; lia) Eri). cbn [bind].
      rewrite oadd_small by (rewrite p64; lia). cbn [bind].
      apply IH; [rewrite p64; lia|exact E].
  Qed.

  Theorem G_get_unchecked_sim : forall wT t i v, 2 < wT ->
    Forall lvl_rank_ok (q_qvs t) -> i < 2 ^ 64 ->
    qwt_get_unchecked wT bsize t i = Val v ->
    G_get_unchecked wT (q_n_levels t) (qwt_data t) (qwt_pos t) (qwt_sbs t) (qwt_occs t) i = Val v.
  Proof.
    intros wT t i v HwT HF Hi. unfold qwt_get_unchecked, G_get_unchecked. cbv zeta.
    destruct (osub (q_n_levels t) 1) as [l1|] eqn:El1; cbn [bind]; [|discriminate].
    destruct (qwt_get_walk wT bsize (q_qvs t) 0 i 0 (N.to_nat l1)) as [[res' i']|] eqn:Ew; cbn [bind]; [|discriminate].
    destruct (get_loop_sim wT (q_qvs t) HwT HF _ _ _ _ _ _ Hi Ew) as (Hloop & Hi').
    rewrite N.sub_0_r. unfold G_get_body in Hloop. unfold qwt_data, qwt_pos, qwt_sbs, qwt_occs.
    rewrite Hloop. cbn [bind]. cbv beta iota zeta.
    rewrite !idx_map.
    destruct (idx (q_qvs t) l1) as [qv|] eqn:Eqv; cbn [bind]; [|discriminate].
    pose proof (idx_Forall _ _ _ _ HF Eqv) as (Hl & Hw & Ho).
    rewrite get_u_ok by exact Hl.
    destruct (rsq_get_unchecked qv i') as [sym|] eqn:Esym; cbn [bind]; [|discriminate].
    pose proof (get_unchecked_lt4 _ _ _ Hl Esym) as Hsym.
    unfold oshl. destruct (N.ltb_spec 2 wT); [|lia]. cbn [bind].
    rewrite (sym_mod_small wT sym HwT Hsym). trivial.
  Qed.

  Theorem G_get_sim : forall wT t i v, 2 < wT ->
    Forall lvl_rank_ok (q_qvs t) -> i < 2 ^ 64 ->
    qwt_get wT bsize t i = Val v ->
    G_get wT (q_n t) (q_n_levels t) (qwt_data t) (qwt_pos t) (qwt_sbs t) (qwt_occs t) i = Val v.
  Proof.
    intros wT t i v HwT HF Hi. unfold qwt_get, G_get.
    destruct (q_n t <=? i); [trivial|].
    destruct (qwt_get_unchecked wT bsize t i) as [x|] eqn:Ex; cbn [bind]; [|discriminate].
    intros E. rewrite (G_get_unchecked_sim wT t i x HwT HF Hi Ex). exact E.
  Qed.

  (* ---------------------------------------------------------------- select / select_unchecked *)
  Definition G_select (fuel : nat) (wT : N) (n : N) (n_levels : N) (sigma : N) (qvs_qv_data : list (list (list N))) (qvs_qv_position : list N) (qvs_rs_support_superblocks : list (list (list N))) (qvs_rs_support_select_samples : list (list (list N))) (qvs_n_occs_smaller : list (list N)) (symbol : N) (i : N) : outcome (option N) :=
    if orb (N.eqb n 0) (N.ltb sigma symbol) then
      Val None
    else
      let path_off := [] in
      let rank_path_off := [] in
      let b := 0 in
      let! t1 := osub n_levels 1 in
      let! shift := zimul 64 (2%Z) (zwrap 64 (Z.of_N t1)) in
      let! r := for_loop (fun level '(path_off, b, shift, rank_path_off) =>
          let path_off := path_off ++ [b] in
          let! t2 := oshr wT symbol (Z.to_N (Z.modulo shift (2 ^ 64)%Z)) in
          let two_bits := N.land (t2 mod 2 ^ 64) 3 in
          let! t3 := idx qvs_qv_data level in
          let! t4 := idx qvs_qv_position level in
          let! t5 := idx qvs_rs_support_superblocks level in
          let! t6 := g_rank t3 t4 t5 (two_bits mod 2 ^ 8) b in
          match t6 with
          | None => Val (Ret None)
          | Some t7 =>
            let rank_b := t7 in
            let! t8 := idx qvs_n_occs_smaller level in
            let! t9 := g_occs_su t8 (two_bits mod 2 ^ 8) in
            let! b := oadd 64 rank_b t9 in
            let! shift := zisub 64 shift (2%Z) in
            let rank_path_off := rank_path_off ++ [rank_b] in
            Val (Next (path_off, b, shift, rank_path_off))
          end
        ) 0 (N.to_nat (n_levels - 0)) (path_off, b, shift, rank_path_off) in
      match r with
      | Retd v => Val v
      | Done (path_off, b, shift, rank_path_off) =>
          let shift := 0%Z in
          let result := i in
          let! r := for_loop_rev (fun level '(b, result, shift) =>
              let! b := idx path_off level in
              let! rank_b := idx rank_path_off level in
              let! t10 := oshr wT symbol (Z.to_N (Z.modulo shift (2 ^ 64)%Z)) in
              let two_bits := N.land (t10 mod 2 ^ 64) 3 in
              let! t11 := idx qvs_qv_data level in
              let! t12 := idx qvs_rs_support_superblocks level in
              let! t13 := idx qvs_rs_support_select_samples level in
              let! t14 := idx qvs_n_occs_smaller level in
              match checked_add 64 rank_b result with
              | None => Val (Ret None)
              | Some t15 =>
                let! t16 := g_select fuel t11 t12 t13 t14 (two_bits mod 2 ^ 8) t15 in
                match t16 with
                | None => Val (Ret None)
                | Some t17 =>
                  let! result := osub t17 b in
                  let! shift := ziadd 64 shift (2%Z) in
                  Val (Next (b, result, shift))
                end
              end
            ) n_levels (N.to_nat (n_levels - 0)) (b, result, shift) in
          match r with
          | Retd v => Val v
          | Done (b, result, shift) =>
              Val (Some result)
          end
      end.

  Definition G_select_unchecked (fuel : nat) (wT : N) (n : N) (n_levels : N) (sigma : N) (qvs_qv_data : list (list (list N))) (qvs_qv_position : list N) (qvs_rs_support_superblocks : list (list (list N))) (qvs_rs_support_select_samples : list (list (list N))) (qvs_n_occs_smaller : list (list N)) (symbol : N) (i : N) : outcome N :=
    let! t1 := G_select fuel wT n n_levels sigma qvs_qv_data qvs_qv_position qvs_rs_support_superblocks qvs_rs_support_select_samples qvs_n_occs_smaller symbol i in
    ounwrap t1.

  Definition G_down_body (wT : N) (qvs : list rsq) (symbol : N)
    : N -> list N * N * Z * list N -> outcome (step (list N * N * Z * list N) (option N)) :=
    fun level '(path_off, b, shift, rank_path_off) =>
          let path_off := path_off ++ [b] in
          let! t2 := oshr wT symbol (Z.to_N (Z.modulo shift (2 ^ 64)%Z)) in
          let two_bits := N.land (t2 mod 2 ^ 64) 3 in
          let! t3 := idx (map rsq_wdata qvs) level in
          let! t4 := idx (map rsq_pos qvs) level in
          let! t5 := idx (map lvl_sbs qvs) level in
          let! t6 := g_rank t3 t4 t5 (two_bits mod 2 ^ 8) b in
          match t6 with
          | None => Val (Ret None)
          | Some t7 =>
            let rank_b := t7 in
            let! t8 := idx (map rsq_occs_smaller qvs) level in
            let! t9 := g_occs_su t8 (two_bits mod 2 ^ 8) in
            let! b := oadd 64 rank_b t9 in
            let! shift := zisub 64 shift (2%Z) in
            let rank_path_off := rank_path_off ++ [rank_b] in
            Val (Next (path_off, b, shift, rank_path_off))
          end.

  Definition G_up_body (fuel : nat) (wT : N) (qvs : list rsq) (symbol : N) (path_off rank_path_off : list N)
    : N -> N * N * Z -> outcome (step (N * N * Z) (option N)) :=
    fun level '(b, result, shift) =>
              let! b := idx path_off level in
              let! rank_b := idx rank_path_off level in
              let! t10 := oshr wT symbol (Z.to_N (Z.modulo shift (2 ^ 64)%Z)) in
              let two_bits := N.land (t10 mod 2 ^ 64) 3 in
              let! t11 := idx (map rsq_wdata qvs) level in
              let! t12 := idx (map lvl_sbs qvs) level in
              let! t13 := idx (map lvl_samples qvs) level in
              let! t14 := idx (map rsq_occs_smaller qvs) level in
              match checked_add 64 rank_b result with
              | None => Val (Ret None)
              | Some t15 =>
                let! t16 := g_select fuel t11 t12 t13 t14 (two_bits mod 2 ^ 8) t15 in
                match t16 with
                | None => Val (Ret None)
                | Some t17 =>
                  let! result := osub t17 b in
                  let! shift := ziadd 64 shift (2%Z) in
                  Val (Next (b, result, shift))
                end
              end.

  Lemma down_loop_sim wT symbol qvs : Forall lvl_rank_ok qvs ->
    forall n level b sh shz po rpo v, b < 2 ^ 64 -> N.of_nat n < 2 ^ 62 ->
    ((0 < n)%nat -> shz = Z.of_N sh /\ sh = 2 * N.of_nat (n - 1)) ->
    qwt_select_down wT bsize qvs symbol sh b level n = Val v ->
    exists r, for_loop (G_down_body wT qvs symbol) level n (po, b, shz, rpo) = Val r /\
    match v with
    | None => r = Retd None
    | Some P => length P = n /\ exists b' shz', r = Done (po ++ map fst P, b', shz', rpo ++ map snd P)
    end.
  Proof.
    intros HF. induction n as [|n IH]; intros level b sh shz po rpo v Hb Hn Hsh.
    - cbn [qwt_select_down for_loop]. intros E. apply Val_inj in E. subst v.
      eexists. split; [reflexivity|]. split; [reflexivity|].
      exists b, shz. cbn [map]. now rewrite !app_nil_r.
    - destruct (Hsh ltac:(lia)) as [-> Hsh']. clear Hsh.
      change (2 ^ 62) with 4611686018427387904 in Hn.
      cbn [qwt_select_down for_loop]. unfold G_down_body at 1. cbv beta iota zeta.
      rewrite shamt_of_N by (rewrite p64; lia).
      unfold two_bits. destruct (oshr wT symbol sh) as [y|]; cbn [bind]; [|discriminate].
      rewrite land3_mod8. set (tb := N.land (y mod 2 ^ 64) 3).
      rewrite !idx_map.
      destruct (idx qvs level) as [qv|] eqn:Eqv; cbn [bind]; [|discriminate].
      pose proof (idx_Forall _ _ _ _ HF Eqv) as (Hl & Hw & Ho).
      unfold lvl_sbs at 1.
      destruct (rsq_rank bsize qv tb b) as [[rank_b|]|] eqn:Er; cbn [bind]; [| |discriminate].
      + pose proof (rank_bound _ _ _ _ _ Hw Er) as Hrb. change (2 ^ 45) with 35184372088832 in Hrb.
        rewrite (rank_ok qv tb b (Some rank_b) Hl Hb) by
          (try exact Er; intros p Ep; injection Ep as <-; rewrite p64; lia).
        cbn [bind]. cbv beta iota zeta. rewrite occs_su_ok.
        destruct (rsq_occs_smaller_unchecked qv tb) as [offset|] eqn:Eo; cbn [bind]; [|discriminate].
        destruct (occs_smaller_bound _ _ _ Ho Eo) as [Hoff _]. rewrite p63 in Hoff.
        rewrite oadd_small by (rewrite p64; lia). cbn [bind].
        rewrite zisub2 by lia. cbn [bind].
        destruct (qwt_select_down wT bsize qvs symbol (if 2 <=? sh then sh - 2 else 0) (rank_b + offset) (level + 1) n)
          as [rest|] eqn:Erest; cbn [bind]; [|discriminate].
        specialize (IH (level + 1) (rank_b + offset) (if 2 <=? sh then sh - 2 else 0) (Z.of_N sh - 2)%Z
                       (po ++ [b]) (rpo ++ [rank_b]) rest ltac:(rewrite p64; lia)
                       ltac:(change (2 ^ 62) with 4611686018427387904; lia)).
        assert (Hsh2 : (0 < n)%nat -> (Z.of_N sh - 2)%Z = Z.of_N (if 2 <=? sh then sh - 2 else 0) /\
                         (if 2 <=? sh then sh - 2 else 0) = 2 * N.of_nat (n - 1)).
        { intros Hn0. destruct (N.leb_spec 2 sh); lia. }
        destruct (IH Hsh2 Erest) as (r & Hr & Hm). exists r. split; [exact Hr|].
        destruct rest as [l|]; intros; match goal with E : Val _ = Val v |- _ => apply Val_inj in E; subst v end.
        * destruct Hm as (Hlen & b' & shz' & ->). split; [cbn [length]; now rewrite Hlen|].
          exists b', shz'. cbn [map fst snd]. now rewrite <- !app_assoc.
        * exact Hm.
      + rewrite (rank_ok qv tb b None Hl Hb) by (try exact Er; intros p Ep; discriminate Ep).
        cbn [bind]. intros E. apply Val_inj in E. subst v. eexists. split; reflexivity.
  Qed.

  Lemma mpath_app P1 : forall P2 lvl, mpath (P1 ++ P2) lvl = mpath P1 lvl ++ mpath P2 (lvl + len P1).
  Proof.
    induction P1 as [|[b rb] P1 IH]; intros P2 lvl.
    - cbn [app]. rewrite len_nil, N.add_0_r. reflexivity.
    - cbn [app]. rewrite !mpath_cons, IH, len_cons. cbn [app]. do 3 f_equal. lia.
  Qed.

  Lemma idx_mid {A B} (f : A -> B) (X : list A) x Y : idx (map f (X ++ x :: Y)) (len X) = Val (f x).
  Proof.
    rewrite idx_map. unfold idx. rewrite nthN_app2 by lia. rewrite N.sub_diag, nthN_0. reflexivity.
  Qed.

  Lemma up_loop_sim fuel wT symbol qvs : Forall (lvl_select_ok bsize fuel) qvs ->
    forall P1 P2 sh result b0 v, sh + 2 * len P1 < 2 ^ 63 ->
    qwt_select_up wT bsize qvs symbol sh result (rev (mpath P1 0)) = Val v ->
    exists r,
      for_loop_rev (G_up_body fuel wT qvs symbol (map fst (P1 ++ P2)) (map snd (P1 ++ P2)))
        (len P1) (length P1) (b0, result, Z.of_N sh) = Val r /\
      match v with
      | None => r = Retd None
      | Some x => exists b' shz', r = Done (b', x, shz')
      end.
  Proof.
    intros HF. induction P1 as [|[b rb] P1 IH] using rev_ind; intros P2 sh result b0 v Hsh.
    - cbn [mpath number_levels map rev qwt_select_up length for_loop_rev]. intros E. apply Val_inj in E. subst v.
      eexists. split; [reflexivity|]. exists b0, (Z.of_N sh). reflexivity.
    - rewrite mpath_app, rev_app_distr, mpath_cons. cbn [mpath number_levels map rev app].
      rewrite N.add_0_l. rewrite <- app_assoc. cbn [app].
      rewrite len_app, len_cons, len_nil, N.add_0_l in *. rewrite p63 in Hsh.
      rewrite app_length. cbn [length]. rewrite Nat.add_1_r.
      cbn [qwt_select_up for_loop_rev]. replace (len P1 + 1 - 1) with (len P1) by lia.
      unfold G_up_body at 1. cbv beta iota zeta. rewrite !idx_mid. cbn [bind fst snd].
      rewrite shamt_of_N by (rewrite p64; lia).
      unfold two_bits. destruct (oshr wT symbol sh) as [y|]; cbn [bind]; [|discriminate].
      rewrite land3_mod8. set (tb := N.land (y mod 2 ^ 64) 3).
      rewrite !idx_map.
      destruct (idx qvs (len P1)) as [qv|] eqn:Eqv; cbn [bind]; [|discriminate].
      pose proof (idx_Forall _ _ _ _ HF Eqv) as Hqv.
      pose proof (lvl_select_typed _ _ _ Hqv) as Hty.
      destruct Hqv as ((Hl & _ & _) & _ & Hfuel & Hsb).
      unfold checked_add.
      destruct (N.leb_spec (2 ^ 64) (rb + result)) as [Hov|Hov], (N.ltb_spec (rb + result) (2 ^ 64)) as [Hov'|Hov'];
        try lia.
      + intros E. apply Val_inj in E. subst v. eexists. split; reflexivity.
      + unfold lvl_sbs at 1. unfold lvl_samples at 1.
        destruct (rsq_select bsize qv tb (rb + result)) as [[p|]|] eqn:Es; cbn [bind]; [| |discriminate].
        * rewrite (select_ok qv tb (rb + result) (Some p) fuel Hl Hty Hfuel) by
            (try exact Es; intros p' Ep; injection Ep as <-; exact (Hsb _ _ _ Hov' Es)).
          cbn [bind].
          destruct (osub p b) as [r'|] eqn:Er'; cbn [bind]; [|discriminate].
          rewrite ziadd2 by lia. cbn [bind].
          replace (Z.of_N sh + 2)%Z with (Z.of_N (sh + 2)) by lia.
          intros E. apply (IH ((b, rb) :: P2) (sh + 2) r' b v); [rewrite p63; lia|exact E].
        * rewrite (select_ok qv tb (rb + result) None fuel Hl Hty Hfuel) by
            (try exact Es; intros p' Ep; discriminate Ep).
          cbn [bind]. intros E. apply Val_inj in E. subst v. eexists. split; reflexivity.
  Qed.

  Lemma lvl_select_rank fuel qvs : Forall (lvl_select_ok bsize fuel) qvs -> Forall lvl_rank_ok qvs.
  Proof. apply Forall_impl. intros r H. apply H. Qed.

  Theorem G_select_sim : forall fuel wT t symbol i v,
    Forall (lvl_select_ok bsize fuel) (q_qvs t) -> q_n_levels t < 2 ^ 62 ->
    qwt_select wT bsize t symbol i = Val v ->
    G_select fuel wT (q_n t) (q_n_levels t) (q_sigma t) (qwt_data t) (qwt_pos t) (qwt_sbs t) (qwt_samples t)
      (qwt_occs t) symbol i = Val v.
  Proof.
    intros fuel wT t symbol i v HF Hnl. unfold qwt_select, G_select.
    rewrite (orb_comm (q_n t =? 0)).
    destruct ((q_sigma t <? symbol) || (q_n t =? 0))%bool; [trivial|]. cbv zeta.
    destruct (osub (q_n_levels t) 1) as [l1|] eqn:El1; cbn [bind]; [|discriminate].
    apply osub_Val in El1. destruct El1 as [El1 Hl1]. change (2 ^ 62) with 4611686018427387904 in Hnl.
    rewrite zwrap_small by lia. rewrite zimul2 by lia. cbn [bind].
    destruct (qwt_select_down wT bsize (q_qvs t) symbol (2 * l1) 0 0 (N.to_nat (q_n_levels t))) as [down|] eqn:Ed;
      cbn [bind]; [|discriminate].
    assert (H0 : 0 < 2 ^ 64) by (rewrite p64; lia).
    assert (H1 : N.of_nat (N.to_nat (q_n_levels t)) < 2 ^ 62) by (change (2 ^ 62) with 4611686018427387904; lia).
    assert (H3 : (0 < N.to_nat (q_n_levels t))%nat ->
                 (2 * Z.of_N l1)%Z = Z.of_N (2 * l1) /\ 2 * l1 = 2 * N.of_nat (N.to_nat (q_n_levels t) - 1))
      by (intros _; lia).
    destruct (down_loop_sim wT symbol (q_qvs t) (lvl_select_rank _ _ HF) _ _ _ _ (2 * Z.of_N l1)%Z [] [] _ H0 H1
                H3 Ed) as (r & Hr & Hm).
    rewrite N.sub_0_r. unfold G_down_body in Hr. unfold qwt_data, qwt_pos, qwt_sbs, qwt_samples, qwt_occs.
    rewrite Hr. cbn [bind]. clear Hr.
    destruct down as [path|].
    - destruct Hm as (Hlen & b' & shz' & ->). cbn [app]. cbv beta iota zeta.
      change (map (fun '(lv, (b, rb)) => (lv, b, rb)) (number_levels path 0)) with (mpath path 0).
      intros Eu.
      assert (Hnl' : q_n_levels t = len path) by (unfold len; rewrite Hlen; lia).
      assert (H2 : 0 + 2 * len path < 2 ^ 63) by (rewrite p63; lia).
      destruct (up_loop_sim fuel wT symbol (q_qvs t) HF path [] 0 i b' v H2 Eu) as (r & Hr & Hm).
      rewrite app_nil_r, <- Hnl', Hlen in Hr. unfold G_up_body in Hr. change (Z.of_N 0) with 0%Z in Hr.
      rewrite Hr. cbn [bind]. clear Hr.
      destruct v as [x|].
      + destruct Hm as (b'' & shz'' & ->). reflexivity.
      + subst r. reflexivity.
    - subst r. trivial.
  Qed.

  Theorem G_select_unchecked_sim : forall fuel wT t symbol i v,
    Forall (lvl_select_ok bsize fuel) (q_qvs t) -> q_n_levels t < 2 ^ 62 ->
    qwt_select_unchecked wT bsize t symbol i = Val v ->
    G_select_unchecked fuel wT (q_n t) (q_n_levels t) (q_sigma t) (qwt_data t) (qwt_pos t) (qwt_sbs t)
      (qwt_samples t) (qwt_occs t) symbol i = Val v.
  Proof.
    intros fuel wT t symbol i v HF Hnl. unfold qwt_select_unchecked, G_select_unchecked.
    destruct (qwt_select wT bsize t symbol i) as [s|] eqn:Es; cbn [bind]; [|discriminate].
    rewrite (G_select_sim fuel wT t symbol i s HF Hnl Es). cbn [bind]. trivial.
  Qed.
End Generic.

(* ================================================================== the two instances: SIMULATIONS *)
(* [exact (G_.._sim ..)] also checks that the generated definition IS the generic text instantiated with the
   B = 256 / B = 512 functions of Gen/FnsRsq.v (conversion). *)
Ltac inst256 thm :=
  exact (thm 256 g_rsq256_get_unchecked g_rsq256_occs_smaller_unchecked g_rsq256_rank_unchecked g_rsq256_rank
           g_rsq256_select g_rsq256_get_unchecked_ok g_rsq256_occs_smaller_unchecked_ok
           g_rsq256_rank_unchecked_ok g_rsq256_rank_ok g_rsq256_select_ok).
Ltac inst512 thm :=
  exact (thm 512 g_rsq512_get_unchecked g_rsq512_occs_smaller_unchecked g_rsq512_rank_unchecked g_rsq512_rank
           g_rsq512_select g_rsq512_get_unchecked_ok g_rsq512_occs_smaller_unchecked_ok
           g_rsq512_rank_unchecked_ok g_rsq512_rank_ok g_rsq512_select_ok).

(* ---- len / is_empty / n_levels: equalities *)
Theorem g_qwt256_len_ok : forall t, g_qwt256_len (q_n t) = Val (qwt_len t).
Proof. reflexivity. Qed.
Theorem g_qwt512_len_ok : forall t, g_qwt512_len (q_n t) = Val (qwt_len t).
Proof. reflexivity. Qed.
Theorem g_qwt256_is_empty_ok : forall t, g_qwt256_is_empty (q_n t) = Val (qwt_is_empty t).
Proof. reflexivity. Qed.
Theorem g_qwt512_is_empty_ok : forall t, g_qwt512_is_empty (q_n t) = Val (qwt_is_empty t).
Proof. reflexivity. Qed.
Theorem g_qwt256_n_levels_ok : forall t, g_qwt256_n_levels (q_n_levels t) = Val (q_n_levels t).
Proof. reflexivity. Qed.
Theorem g_qwt512_n_levels_ok : forall t, g_qwt512_n_levels (q_n_levels t) = Val (q_n_levels t).
Proof. reflexivity. Qed.

(* ---- get_unchecked / get *)
Theorem g_qwt256_get_unchecked_sim : forall wT t i v, 2 < wT ->
  Forall lvl_rank_ok (q_qvs t) -> i < 2 ^ 64 ->
  qwt_get_unchecked wT 256 t i = Val v ->
  g_qwt256_get_unchecked wT (q_n_levels t) (qwt_data t) (qwt_pos t) (qwt_sbs t) (qwt_occs t) i = Val v.
Proof. inst256 G_get_unchecked_sim. Qed.
Theorem g_qwt512_get_unchecked_sim : forall wT t i v, 2 < wT ->
  Forall lvl_rank_ok (q_qvs t) -> i < 2 ^ 64 ->
  qwt_get_unchecked wT 512 t i = Val v ->
  g_qwt512_get_unchecked wT (q_n_levels t) (qwt_data t) (qwt_pos t) (qwt_sbs t) (qwt_occs t) i = Val v.
Proof. inst512 G_get_unchecked_sim. Qed.
Theorem g_qwt256_get_sim : forall wT t i v, 2 < wT ->
  Forall lvl_rank_ok (q_qvs t) -> i < 2 ^ 64 ->
  qwt_get wT 256 t i = Val v ->
  g_qwt256_get wT (q_n t) (q_n_levels t) (qwt_data t) (qwt_pos t) (qwt_sbs t) (qwt_occs t) i = Val v.
Proof. inst256 G_get_sim. Qed.
Theorem g_qwt512_get_sim : forall wT t i v, 2 < wT ->
  Forall lvl_rank_ok (q_qvs t) -> i < 2 ^ 64 ->
  qwt_get wT 512 t i = Val v ->
  g_qwt512_get wT (q_n t) (q_n_levels t) (qwt_data t) (qwt_pos t) (qwt_sbs t) (qwt_occs t) i = Val v.
Proof. inst512 G_get_sim. Qed.

(* ---- rank_unchecked / rank *)
Theorem g_qwt256_rank_unchecked_sim : forall wT t symbol i v,
  Forall lvl_rank_ok (q_qvs t) -> q_n_levels t <= 2 ^ 62 -> i < 2 ^ 64 ->
  qwt_rank_unchecked wT 256 t symbol i = Val v ->
  g_qwt256_rank_unchecked wT (q_n_levels t) (qwt_data t) (qwt_sbs t) (qwt_occs t) symbol i = Val v.
Proof. inst256 G_rank_unchecked_sim. Qed.
Theorem g_qwt512_rank_unchecked_sim : forall wT t symbol i v,
  Forall lvl_rank_ok (q_qvs t) -> q_n_levels t <= 2 ^ 62 -> i < 2 ^ 64 ->
  qwt_rank_unchecked wT 512 t symbol i = Val v ->
  g_qwt512_rank_unchecked wT (q_n_levels t) (qwt_data t) (qwt_sbs t) (qwt_occs t) symbol i = Val v.
Proof. inst512 G_rank_unchecked_sim. Qed.
Theorem g_qwt256_rank_sim : forall wT t symbol i v,
  Forall lvl_rank_ok (q_qvs t) -> q_n_levels t <= 2 ^ 62 -> i < 2 ^ 64 ->
  qwt_rank wT 256 t symbol i = Val v ->
  g_qwt256_rank wT (q_n t) (q_n_levels t) (q_sigma t) (qwt_data t) (qwt_sbs t) (qwt_occs t) symbol i = Val v.
Proof. inst256 G_rank_sim. Qed.
Theorem g_qwt512_rank_sim : forall wT t symbol i v,
  Forall lvl_rank_ok (q_qvs t) -> q_n_levels t <= 2 ^ 62 -> i < 2 ^ 64 ->
  qwt_rank wT 512 t symbol i = Val v ->
  g_qwt512_rank wT (q_n t) (q_n_levels t) (q_sigma t) (qwt_data t) (qwt_sbs t) (qwt_occs t) symbol i = Val v.
Proof. inst512 G_rank_sim. Qed.

(* ---- select / select_unchecked (any i: the source guards `rank_b + result` by checked_add) *)
Theorem g_qwt256_select_sim : forall fuel wT t symbol i v,
  Forall (lvl_select_ok 256 fuel) (q_qvs t) -> q_n_levels t < 2 ^ 62 ->
  qwt_select wT 256 t symbol i = Val v ->
  g_qwt256_select fuel wT (q_n t) (q_n_levels t) (q_sigma t) (qwt_data t) (qwt_pos t) (qwt_sbs t) (qwt_samples t)
    (qwt_occs t) symbol i = Val v.
Proof. inst256 G_select_sim. Qed.
Theorem g_qwt512_select_sim : forall fuel wT t symbol i v,
  Forall (lvl_select_ok 512 fuel) (q_qvs t) -> q_n_levels t < 2 ^ 62 ->
  qwt_select wT 512 t symbol i = Val v ->
  g_qwt512_select fuel wT (q_n t) (q_n_levels t) (q_sigma t) (qwt_data t) (qwt_pos t) (qwt_sbs t) (qwt_samples t)
    (qwt_occs t) symbol i = Val v.
Proof. inst512 G_select_sim. Qed.
Theorem g_qwt256_select_unchecked_sim : forall fuel wT t symbol i v,
  Forall (lvl_select_ok 256 fuel) (q_qvs t) -> q_n_levels t < 2 ^ 62 ->
  qwt_select_unchecked wT 256 t symbol i = Val v ->
  g_qwt256_select_unchecked fuel wT (q_n t) (q_n_levels t) (q_sigma t) (qwt_data t) (qwt_pos t) (qwt_sbs t)
    (qwt_samples t) (qwt_occs t) symbol i = Val v.
Proof. inst256 G_select_unchecked_sim. Qed.
Theorem g_qwt512_select_unchecked_sim : forall fuel wT t symbol i v,
  Forall (lvl_select_ok 512 fuel) (q_qvs t) -> q_n_levels t < 2 ^ 62 ->
  qwt_select_unchecked wT 512 t symbol i = Val v ->
  g_qwt512_select_unchecked fuel wT (q_n t) (q_n_levels t) (q_sigma t) (qwt_data t) (qwt_pos t) (qwt_sbs t)
    (qwt_samples t) (qwt_occs t) symbol i = Val v.
Proof. inst512 G_select_unchecked_sim. Qed.

(* ================================================================== END TO END *)
(* ---- every level qwt_new builds is well formed.  A level is `rsq_from_qv bsize qv` for the quad vector qv
   of the level's digit list D (qwt_levels); rsq_new_struct / rsq_new_dir of Proofs/FnsRsqOk.v generalised
   from rsq_new to rsq_from_qv: *)
Lemma rsq_from_qv_struct bsize q D r : (bsize = 256 \/ bsize = 512) -> qvb_inv q D ->
  Forall (fun x => x < 4) D -> len D < RSQ_MAXN -> rsq_from_qv bsize q = Val r ->
  rsq_lines_ok r /\ rss_typed (rsq_rs r) /\
  length (rs_superblocks (rsq_rs r)) = S (N.to_nat (len D / (8 * bsize))) /\
  rsq_occs_smaller r = occs_smaller_of D.
Proof.
  intros Hb Hq HF Hn E. unfold rsq_from_qv in E. rewrite (qv_symbols_inv q _ Hq) in E. cbn [bind] in E.
  destruct (rss_new bsize D) as [rs|] eqn:Ers; cbn [bind] in E; [|discriminate].
  apply Val_inj in E. subst r. cbn [rsq_rs rsq_occs_smaller].
  destruct (rss_new_typed bsize D rs Hb Hn HF Ers) as (H1 & H2 & H3).
  split; [|split; [split; assumption|split; [exact H3|reflexivity]]].
  unfold rsq_lines_ok. cbn [rsq_qv]. exact (qvb_inv_lines_ok q _ Hq HF).
Qed.

Lemma count4_le D : countN 0 D + countN 1 D + countN 2 D + countN 3 D <= len D.
Proof.
  induction D as [|x D IH]; [cbn [countN]; change (len (@nil N)) with 0; lia|].
  cbn [countN]. rewrite len_cons.
  destruct (N.eqb_spec x 0), (N.eqb_spec x 1), (N.eqb_spec x 2), (N.eqb_spec x 3); lia.
Qed.

Lemma occs_smaller_of_le D : Forall (fun x => x <= len D) (occs_smaller_of D).
Proof.
  pose proof (count4_le D). unfold occs_smaller_of. cbv zeta. repeat constructor; lia.
Qed.

(* what is known of a level of a built tree over n symbols *)
Definition lvl_built (bsize n : N) (r : rsq) : Prop :=
  exists D, len D = n /\ rsq_spec bsize r D /\
    rsq_lines_ok r /\ rss_typed (rsq_rs r) /\
    length (rs_superblocks (rsq_rs r)) = S (N.to_nat (n / (8 * bsize))) /\
    rsq_occs_smaller r = occs_smaller_of D.

Lemma lvl_built_of bsize q D r : (bsize = 256 \/ bsize = 512) -> qvb_inv q D ->
  Forall (fun x => x < 4) D -> len D < RSQ_MAXN -> rsq_from_qv bsize q = Val r -> lvl_built bsize (len D) r.
Proof.
  intros Hb Hq HF Hn E.
  destruct (rsq_from_qv_correct bsize q D Hb Hq HF Hn) as (r' & E' & Hspec).
  rewrite E in E'. apply Val_inj in E'. subst r'.
  destruct (rsq_from_qv_struct bsize q D r Hb Hq HF Hn E) as (H1 & H2 & H3 & H4).
  exists D. split; [reflexivity|]. split; [exact Hspec|]. split; [exact H1|]. split; [exact H2|].
  split; [exact H3|exact H4].
Qed.

Lemma lvl_built_rank_ok bsize n r : n < RSQ_MAXN -> lvl_built bsize n r -> lvl_rank_ok r.
Proof.
  intros Hn (D & HD & _ & Hl & (_ & Hw) & _ & Ho). split; [exact Hl|]. split; [exact Hw|].
  rewrite Ho. eapply Forall_impl; [|apply occs_smaller_of_le]. cbv beta. intros x Hx.
  rewrite RSQ_MAXN_val in Hn. rewrite p63. lia.
Qed.

Lemma lvl_built_select_ok bsize n fuel r : n < RSQ_MAXN -> (S (S (N.to_nat (n / (8 * bsize)))) <= fuel)%nat ->
  lvl_built bsize n r -> lvl_select_ok bsize fuel r.
Proof.
  intros Hn Hf Hb. pose proof (lvl_built_rank_ok bsize n r Hn Hb) as Hr.
  destruct Hb as (D & HD & Hspec & Hl & (Hs & Hw) & Hlen & Ho).
  split; [exact Hr|]. split; [exact Hs|]. split; [now rewrite Hlen|].
  intros c k p Hk E. destruct Hspec as (_ & _ & _ & _ & Hsel & _). rewrite (Hsel c k Hk) in E.
  apply Val_inj in E. destruct (c <=? 3); [|discriminate]. apply select_spec_bounds in E.
  rewrite RSQ_MAXN_val in Hn. rewrite p64. lia.
Qed.

(* the induction of QWTBuild.qwt_levels_ok again, keeping the structural facts of every level *)
Lemma qwt_levels_built w bsize L s : (bsize = 256 \/ bsize = 512) -> len s < RSQ_MAXN ->
  2 * N.of_nat (L - 1) < w ->
  forall n l0 shift rs, (l0 + n = L)%nat -> ((0 < n)%nat -> shift = 2 * N.of_nat (L - 1 - l0)) ->
  qwt_levels w bsize (qlev L l0 s) shift n = Val rs -> Forall (lvl_built bsize (len s)) rs.
Proof.
  intros Hb Hn Hw. induction n as [|n IH]; intros l0 shift rs Hl Hs E.
  - cbn [qwt_levels] in E. apply Val_inj in E. subst rs. constructor.
  - rewrite (Hs ltac:(lia)) in E. clear Hs shift. cbn [qwt_levels] in E.
    assert (Hsh : 2 * N.of_nat (L - 1 - l0) < w) by lia.
    rewrite (mapo_val _ (qdig L l0)) in E by (intros x _; now apply two_bits_qdig).
    cbn [bind] in E. fold (qD L l0 s) in E.
    destruct (qvb_push_all_inv (qD L l0 s) qvb_new [] qvb_inv_new) as (q & Eq & Hq).
    rewrite Eq in E. cbn [bind] in E. cbn [app] in Hq. rewrite (map_sym4_id _ (qD_lt4 L l0 s)) in Hq.
    destruct (rsq_from_qv bsize q) as [r|] eqn:Er; cbn [bind] in E; [|discriminate].
    rewrite (stable_partition_parts w L l0 _ Hsh) in E. cbn [bind] in E. rewrite <- qlev_S in E.
    destruct (qwt_levels w bsize (qlev L (S l0) s) _ n) as [rest|] eqn:Erest; cbn [bind] in E; [|discriminate].
    apply Val_inj in E. subst rs. constructor.
    + rewrite <- (qD_len L l0 s). apply (lvl_built_of bsize q); try assumption; [apply qD_lt4|now rewrite qD_len].
    + eapply (IH (S l0)); [lia| |exact Erest].
      intros Hn0. replace (2 <=? 2 * N.of_nat (L - 1 - l0)) with true by lia. lia.
Qed.

Lemma qwt_new_built w bsize s t : width_ok w -> (bsize = 256 \/ bsize = 512) ->
  Forall (fun x => x < 2 ^ w) s -> len s < RSQ_MAXN -> qwt_new w bsize s = Val t ->
  Forall (lvl_built bsize (len s)) (q_qvs t) /\ qwt_spec w bsize t s /\ q_n_levels t <= 64.
Proof.
  intros Hwok Hb HF Hn E.
  destruct (qwt_new_correct w bsize s Hwok Hb HF Hn) as (t' & E' & Hspec).
  rewrite E in E'. apply Val_inj in E'. subst t'.
  assert (Hwpos : 0 < w) by (unfold width_ok in Hwok; lia).
  assert (Hw128 : w <= 128) by (unfold width_ok in Hwok; lia).
  split; [|split; [exact Hspec|]].
  - destruct s as [|x0 s'] eqn:Es.
    + unfold qwt_new in E. destruct (rsq_default bsize) as [d|] eqn:Ed; cbn [bind] in E; [|discriminate].
      apply Val_inj in E. subst t. cbn [q_qvs]. constructor; [|constructor].
      apply (lvl_built_of bsize qvb_new [] d Hb qvb_inv_new); [constructor|exact Hn|exact Ed].
    + rewrite <- Es in *.
      assert (Enew : qwt_new w bsize s =
                let! s0 := osub (levels_of s) 1 in
                let! qvs := qwt_levels w bsize s (2 * s0) (N.to_nat (levels_of s)) in
                Val {| q_n := len s; q_n_levels := levels_of s; q_sigma := maxN s; q_qvs := qvs |}).
      { rewrite Es. reflexivity. }
      rewrite Enew in E. clear Enew.
      set (L := N.to_nat (levels_of s)) in *.
      assert (HLN : levels_of s = N.of_nat L) by (unfold L; lia).
      pose proof (qlevels_pos s) as Hpos. rewrite <- levels_of_qlevels in Hpos.
      assert (Hpow : 0 < 2 ^ w) by (apply N.neq_0_lt_0, N.pow_nonzero; lia).
      pose proof (maxN_lt s (2 ^ w) Hpow HF) as Hmax.
      pose proof (qlevels_shift s w Hwpos Hmax) as Hsh. rewrite <- levels_of_qlevels, HLN in Hsh.
      assert (Hw : 2 * N.of_nat (L - 1) < w) by lia.
      unfold osub in E. replace (1 <=? levels_of s) with true in E by lia. cbn [bind] in E.
      destruct (qwt_levels w bsize s (2 * (levels_of s - 1)) L) as [qvs|] eqn:Eq; cbn [bind] in E; [|discriminate].
      apply Val_inj in E. subst t. cbn [q_qvs].
      apply (qwt_levels_built w bsize L s Hb Hn Hw L 0%nat (2 * (levels_of s - 1)) qvs); [lia|intros _; lia|exact Eq].
  - destruct Hspec as (_ & _ & _ & Hnl & _). rewrite Hnl. destruct (len s =? 0); [lia|].
    assert (Hpow : 0 < 2 ^ w) by (apply N.neq_0_lt_0, N.pow_nonzero; lia).
    pose proof (maxN_lt s (2 ^ w) Hpow HF) as Hmax.
    pose proof (qlevels_shift s w Hwpos Hmax) as Hsh. rewrite <- levels_of_qlevels in Hsh. lia.
Qed.

(* ---- the generated queries on what qwt_new builds return the list specification (the contract of C01) *)
Lemma width_gt2 w : width_ok w -> 2 < w.
Proof. unfold width_ok. lia. Qed.

Lemma built_rank_all bsize n qvs : n < RSQ_MAXN -> Forall (lvl_built bsize n) qvs -> Forall lvl_rank_ok qvs.
Proof. intros Hn. apply Forall_impl. intros r. now apply lvl_built_rank_ok. Qed.
Lemma built_select_all bsize n fuel qvs : n < RSQ_MAXN -> (S (S (N.to_nat (n / (8 * bsize)))) <= fuel)%nat ->
  Forall (lvl_built bsize n) qvs -> Forall (lvl_select_ok bsize fuel) qvs.
Proof. intros Hn Hf. apply Forall_impl. intros r. now apply lvl_built_select_ok. Qed.

Lemma e2e_facts w bsize s t : width_ok w -> (bsize = 256 \/ bsize = 512) ->
  Forall (fun x => x < 2 ^ w) s -> len s < RSQ_MAXN -> qwt_new w bsize s = Val t ->
  Forall (lvl_built bsize (len s)) (q_qvs t) /\ qwt_spec w bsize t s /\ Forall lvl_rank_ok (q_qvs t) /\
  2 < w /\ len s < 2 ^ 64 /\ q_n_levels t <= 2 ^ 62 /\ q_n_levels t < 2 ^ 62 /\ q_n t = len s.
Proof.
  intros Hwok Hb HF Hn E. destruct (qwt_new_built w bsize s t Hwok Hb HF Hn E) as (HB & Hspec & Hnl).
  split; [exact HB|]. split; [exact Hspec|]. split; [exact (built_rank_all bsize (len s) (q_qvs t) Hn HB)|].
  split; [exact (width_gt2 w Hwok)|]. split; [exact (RSQ_MAXN_lt64 _ Hn)|].
  change (2 ^ 62) with 4611686018427387904. split; [lia|]. split; [lia|]. apply Hspec.
Qed.

Ltac e2e_get_tac bsz g sim :=
  intros w s t Hwok HF Hn E i; destruct (e2e_facts w bsz s t Hwok ltac:(auto) HF Hn E) as (HB & Hspec & HR & Hw2 & Hn64 & Hnl62 & Hnl62' & Hqn);
  destruct (N.ltb_spec i (2 ^ 64)) as [Hi|Hi];
  [ apply sim; [exact Hw2|exact HR|exact Hi|]; destruct Hspec as (_ & _ & _ & _ & Hget & _); apply Hget
  | unfold g; rewrite Hqn; destruct (N.leb_spec (len s) i); [|lia]; rewrite nthN_none by lia; reflexivity ].

Theorem g_qwt256_get_new : forall w s t, width_ok w -> Forall (fun x => x < 2 ^ w) s -> len s < RSQ_MAXN ->
  qwt_new w 256 s = Val t -> forall i,
  g_qwt256_get w (q_n t) (q_n_levels t) (qwt_data t) (qwt_pos t) (qwt_sbs t) (qwt_occs t) i = Val (nthN s i).
Proof. e2e_get_tac 256 g_qwt256_get g_qwt256_get_sim. Qed.
Theorem g_qwt512_get_new : forall w s t, width_ok w -> Forall (fun x => x < 2 ^ w) s -> len s < RSQ_MAXN ->
  qwt_new w 512 s = Val t -> forall i,
  g_qwt512_get w (q_n t) (q_n_levels t) (qwt_data t) (qwt_pos t) (qwt_sbs t) (qwt_occs t) i = Val (nthN s i).
Proof. e2e_get_tac 512 g_qwt512_get g_qwt512_get_sim. Qed.

Ltac e2e_get_unchecked_tac bsz sim :=
  intros w s t Hwok HF Hn E i x Hx; destruct (e2e_facts w bsz s t Hwok ltac:(auto) HF Hn E) as (HB & Hspec & HR & Hw2 & Hn64 & Hnl62 & Hnl62' & Hqn);
  pose proof (nthN_some_lt _ _ _ Hx) as Hi;
  apply sim; [exact Hw2|exact HR|lia|];
  destruct Hspec as (_ & _ & _ & _ & _ & _ & _ & _ & Hgu & _); now apply Hgu.

Theorem g_qwt256_get_unchecked_new : forall w s t, width_ok w -> Forall (fun x => x < 2 ^ w) s ->
  len s < RSQ_MAXN -> qwt_new w 256 s = Val t -> forall i x, nthN s i = Some x ->
  g_qwt256_get_unchecked w (q_n_levels t) (qwt_data t) (qwt_pos t) (qwt_sbs t) (qwt_occs t) i = Val x.
Proof. e2e_get_unchecked_tac 256 g_qwt256_get_unchecked_sim. Qed.
Theorem g_qwt512_get_unchecked_new : forall w s t, width_ok w -> Forall (fun x => x < 2 ^ w) s ->
  len s < RSQ_MAXN -> qwt_new w 512 s = Val t -> forall i x, nthN s i = Some x ->
  g_qwt512_get_unchecked w (q_n_levels t) (qwt_data t) (qwt_pos t) (qwt_sbs t) (qwt_occs t) i = Val x.
Proof. e2e_get_unchecked_tac 512 g_qwt512_get_unchecked_sim. Qed.

Ltac e2e_rank_tac bsz g sim :=
  intros w s t Hwok HF Hn E c i Hc; destruct (e2e_facts w bsz s t Hwok ltac:(auto) HF Hn E) as (HB & Hspec & HR & Hw2 & Hn64 & Hnl62 & Hnl62' & Hqn);
  destruct (N.ltb_spec i (2 ^ 64)) as [Hi|Hi];
  [ apply sim; [exact HR|exact Hnl62|exact Hi|];
    destruct Hspec as (_ & _ & _ & _ & _ & Hrank & _); now apply Hrank
  | unfold g; rewrite Hqn; replace (len s <? i) with true by lia;
    replace (i <=? len s) with false by lia;
    rewrite orb_true_r, andb_false_r; reflexivity ].

Theorem g_qwt256_rank_new : forall w s t, width_ok w -> Forall (fun x => x < 2 ^ w) s -> len s < RSQ_MAXN ->
  qwt_new w 256 s = Val t -> forall c i, c < 2 ^ w ->
  g_qwt256_rank w (q_n t) (q_n_levels t) (q_sigma t) (qwt_data t) (qwt_sbs t) (qwt_occs t) c i
  = Val (if negb (len s =? 0) && (i <=? len s) && (c <=? maxN s) then Some (rank_spec s c i) else None).
Proof. e2e_rank_tac 256 g_qwt256_rank g_qwt256_rank_sim. Qed.
Theorem g_qwt512_rank_new : forall w s t, width_ok w -> Forall (fun x => x < 2 ^ w) s -> len s < RSQ_MAXN ->
  qwt_new w 512 s = Val t -> forall c i, c < 2 ^ w ->
  g_qwt512_rank w (q_n t) (q_n_levels t) (q_sigma t) (qwt_data t) (qwt_sbs t) (qwt_occs t) c i
  = Val (if negb (len s =? 0) && (i <=? len s) && (c <=? maxN s) then Some (rank_spec s c i) else None).
Proof. e2e_rank_tac 512 g_qwt512_rank g_qwt512_rank_sim. Qed.

Ltac e2e_rank_unchecked_tac bsz sim :=
  intros w s t Hwok HF Hn E c i Hpos Hc Hi; destruct (e2e_facts w bsz s t Hwok ltac:(auto) HF Hn E) as (HB & Hspec & HR & Hw2 & Hn64 & Hnl62 & Hnl62' & Hqn);
  apply sim; [exact HR|exact Hnl62|lia|];
  destruct Hspec as (_ & _ & _ & _ & _ & _ & _ & _ & _ & Hru & _); now apply Hru.

Theorem g_qwt256_rank_unchecked_new : forall w s t, width_ok w -> Forall (fun x => x < 2 ^ w) s ->
  len s < RSQ_MAXN -> qwt_new w 256 s = Val t -> forall c i, 0 < len s -> c <= maxN s -> i <= len s ->
  g_qwt256_rank_unchecked w (q_n_levels t) (qwt_data t) (qwt_sbs t) (qwt_occs t) c i = Val (rank_spec s c i).
Proof. e2e_rank_unchecked_tac 256 g_qwt256_rank_unchecked_sim. Qed.
Theorem g_qwt512_rank_unchecked_new : forall w s t, width_ok w -> Forall (fun x => x < 2 ^ w) s ->
  len s < RSQ_MAXN -> qwt_new w 512 s = Val t -> forall c i, 0 < len s -> c <= maxN s -> i <= len s ->
  g_qwt512_rank_unchecked w (q_n_levels t) (qwt_data t) (qwt_sbs t) (qwt_occs t) c i = Val (rank_spec s c i).
Proof. e2e_rank_unchecked_tac 512 g_qwt512_rank_unchecked_sim. Qed.

Ltac e2e_select_tac bsz sim :=
  intros w s t Hwok HF Hn E c k fuel Hc Hk Hf; destruct (e2e_facts w bsz s t Hwok ltac:(auto) HF Hn E) as (HB & Hspec & HR & Hw2 & Hn64 & Hnl62 & Hnl62' & Hqn);
  apply sim; [exact (built_select_all bsz (len s) fuel (q_qvs t) Hn Hf HB)|exact Hnl62'|];
  destruct Hspec as (_ & _ & _ & _ & _ & _ & _ & Hsel & _); now apply Hsel.

Theorem g_qwt256_select_new : forall w s t, width_ok w -> Forall (fun x => x < 2 ^ w) s -> len s < RSQ_MAXN ->
  qwt_new w 256 s = Val t -> forall c k fuel, c < 2 ^ w -> k < 2 ^ 64 ->
  (S (S (N.to_nat (len s / (8 * 256)))) <= fuel)%nat ->
  g_qwt256_select fuel w (q_n t) (q_n_levels t) (q_sigma t) (qwt_data t) (qwt_pos t) (qwt_sbs t) (qwt_samples t)
    (qwt_occs t) c k
  = Val (if negb (len s =? 0) && (c <=? maxN s) then select_spec s c k else None).
Proof. e2e_select_tac 256 g_qwt256_select_sim. Qed.
Theorem g_qwt512_select_new : forall w s t, width_ok w -> Forall (fun x => x < 2 ^ w) s -> len s < RSQ_MAXN ->
  qwt_new w 512 s = Val t -> forall c k fuel, c < 2 ^ w -> k < 2 ^ 64 ->
  (S (S (N.to_nat (len s / (8 * 512)))) <= fuel)%nat ->
  g_qwt512_select fuel w (q_n t) (q_n_levels t) (q_sigma t) (qwt_data t) (qwt_pos t) (qwt_sbs t) (qwt_samples t)
    (qwt_occs t) c k
  = Val (if negb (len s =? 0) && (c <=? maxN s) then select_spec s c k else None).
Proof. e2e_select_tac 512 g_qwt512_select_sim. Qed.

Ltac e2e_select_unchecked_tac bsz sim :=
  intros w s t Hwok HF Hn E c k p fuel Hc Hp Hf; destruct (e2e_facts w bsz s t Hwok ltac:(auto) HF Hn E) as (HB & Hspec & HR & Hw2 & Hn64 & Hnl62 & Hnl62' & Hqn);
  apply sim; [exact (built_select_all bsz (len s) fuel (q_qvs t) Hn Hf HB)|exact Hnl62'|];
  destruct Hspec as (_ & _ & _ & _ & _ & _ & _ & _ & _ & _ & Hsu); now apply Hsu.

Theorem g_qwt256_select_unchecked_new : forall w s t, width_ok w -> Forall (fun x => x < 2 ^ w) s ->
  len s < RSQ_MAXN -> qwt_new w 256 s = Val t -> forall c k p fuel, c < 2 ^ w -> select_spec s c k = Some p ->
  (S (S (N.to_nat (len s / (8 * 256)))) <= fuel)%nat ->
  g_qwt256_select_unchecked fuel w (q_n t) (q_n_levels t) (q_sigma t) (qwt_data t) (qwt_pos t) (qwt_sbs t)
    (qwt_samples t) (qwt_occs t) c k = Val p.
Proof. e2e_select_unchecked_tac 256 g_qwt256_select_unchecked_sim. Qed.
Theorem g_qwt512_select_unchecked_new : forall w s t, width_ok w -> Forall (fun x => x < 2 ^ w) s ->
  len s < RSQ_MAXN -> qwt_new w 512 s = Val t -> forall c k p fuel, c < 2 ^ w -> select_spec s c k = Some p ->
  (S (S (N.to_nat (len s / (8 * 512)))) <= fuel)%nat ->
  g_qwt512_select_unchecked fuel w (q_n t) (q_n_levels t) (q_sigma t) (qwt_data t) (qwt_pos t) (qwt_sbs t)
    (qwt_samples t) (qwt_occs t) c k = Val p.
Proof. e2e_select_unchecked_tac 512 g_qwt512_select_unchecked_sim. Qed.

(* len / is_empty / n_levels *)
Theorem g_qwt_len_new : forall w bsize s t, width_ok w -> (bsize = 256 \/ bsize = 512) ->
  Forall (fun x => x < 2 ^ w) s -> len s < RSQ_MAXN -> qwt_new w bsize s = Val t ->
  g_qwt256_len (q_n t) = Val (len s) /\ g_qwt512_len (q_n t) = Val (len s) /\
  g_qwt256_is_empty (q_n t) = Val (len s =? 0) /\ g_qwt512_is_empty (q_n t) = Val (len s =? 0) /\
  g_qwt256_n_levels (q_n_levels t) = Val (if len s =? 0 then 0 else (msb (maxN s) + 1 + 1) / 2) /\
  g_qwt512_n_levels (q_n_levels t) = Val (if len s =? 0 then 0 else (msb (maxN s) + 1 + 1) / 2).
Proof.
  intros w bsize s t Hwok Hb HF Hn E.
  destruct (qwt_new_built w bsize s t Hwok Hb HF Hn E) as (_ & (H1 & H2 & _ & H4 & _) & _).
  unfold g_qwt256_len, g_qwt512_len, g_qwt256_is_empty, g_qwt512_is_empty, g_qwt256_n_levels, g_qwt512_n_levels.
  unfold qwt_len in H1. unfold qwt_is_empty in H2. rewrite H1, H4. repeat split; reflexivity.
Qed.

(* ---- non-vacuity: the generated functions evaluated (vm_compute) on the fields of the tree qwt_new builds for
   the 40-symbol example of Proofs/QWTP.v (same expected values as qwt_example_checks / qwt_example_spec),
   and on u128 symbols above 2^64 (64 levels: the i64 `shift` runs from 126 down to -2) *)
Definition g_qwt_example_checks256 : Prop :=
  match qwt_new 8 256 qwt_example_input with
  | Val t =>
      let n := q_n t in let nl := q_n_levels t in let sg := q_sigma t in
      let d := qwt_data t in let p := qwt_pos t in let sb := qwt_sbs t in let sm := qwt_samples t in
      let oc := qwt_occs t in
      g_qwt256_len n = Val 40 /\ g_qwt256_n_levels nl = Val 4 /\ g_qwt256_is_empty n = Val false /\
      g_qwt256_get 8 n nl d p sb oc 17 = Val (Some 44) /\ g_qwt256_get 8 n nl d p sb oc 39 = Val (Some 54) /\
      g_qwt256_get 8 n nl d p sb oc 40 = Val None /\
      g_qwt256_rank 8 n nl sg d sb oc 10 40 = Val (Some 3) /\ g_qwt256_rank 8 n nl sg d sb oc 54 30 = Val (Some 1) /\
      g_qwt256_rank 8 n nl sg d sb oc 3 40 = Val (Some 0) /\ g_qwt256_rank 8 n nl sg d sb oc 3 41 = Val None /\
      g_qwt256_rank 8 n nl sg d sb oc 65 40 = Val None /\
      g_qwt256_select 3 8 n nl sg d p sb sm oc 10 1 = Val (Some 15) /\
      g_qwt256_select 3 8 n nl sg d p sb sm oc 0 2 = Val (Some 35) /\
      g_qwt256_select 3 8 n nl sg d p sb sm oc 10 7 = Val None /\
      g_qwt256_select 3 8 n nl sg d p sb sm oc 3 0 = Val None /\
      g_qwt256_select 3 8 n nl sg d p sb sm oc 65 0 = Val None /\
      g_qwt256_get_unchecked 8 nl d p sb oc 17 = Val 44 /\ g_qwt256_rank_unchecked 8 nl d sb oc 10 40 = Val 3 /\
      g_qwt256_select_unchecked 3 8 n nl sg d p sb sm oc 54 1 = Val 32
  | Fault _ => False
  end.
Definition g_qwt_example_checks512 : Prop :=
  match qwt_new 8 512 qwt_example_input with
  | Val t =>
      let n := q_n t in let nl := q_n_levels t in let sg := q_sigma t in
      let d := qwt_data t in let p := qwt_pos t in let sb := qwt_sbs t in let sm := qwt_samples t in
      let oc := qwt_occs t in
      g_qwt512_len n = Val 40 /\ g_qwt512_n_levels nl = Val 4 /\ g_qwt512_is_empty n = Val false /\
      g_qwt512_get 8 n nl d p sb oc 17 = Val (Some 44) /\ g_qwt512_get 8 n nl d p sb oc 39 = Val (Some 54) /\
      g_qwt512_get 8 n nl d p sb oc 40 = Val None /\
      g_qwt512_rank 8 n nl sg d sb oc 10 40 = Val (Some 3) /\ g_qwt512_rank 8 n nl sg d sb oc 54 30 = Val (Some 1) /\
      g_qwt512_rank 8 n nl sg d sb oc 3 40 = Val (Some 0) /\ g_qwt512_rank 8 n nl sg d sb oc 3 41 = Val None /\
      g_qwt512_rank 8 n nl sg d sb oc 65 40 = Val None /\
      g_qwt512_select 3 8 n nl sg d p sb sm oc 10 1 = Val (Some 15) /\
      g_qwt512_select 3 8 n nl sg d p sb sm oc 0 2 = Val (Some 35) /\
      g_qwt512_select 3 8 n nl sg d p sb sm oc 10 7 = Val None /\
      g_qwt512_select 3 8 n nl sg d p sb sm oc 3 0 = Val None /\
      g_qwt512_select 3 8 n nl sg d p sb sm oc 65 0 = Val None /\
      g_qwt512_get_unchecked 8 nl d p sb oc 17 = Val 44 /\ g_qwt512_rank_unchecked 8 nl d sb oc 10 40 = Val 3 /\
      g_qwt512_select_unchecked 3 8 n nl sg d p sb sm oc 54 1 = Val 32
  | Fault _ => False
  end.
Example g_qwt_example_256 : g_qwt_example_checks256.
Proof. vm_compute. repeat split; reflexivity. Qed.
Example g_qwt_example_512 : g_qwt_example_checks512.
Proof. vm_compute. repeat split; reflexivity. Qed.
Example g_qwt_example_u128 :
  let s := [2 ^ 100 + 5; 7; 2 ^ 100 + 5; 2 ^ 127; 0; 2 ^ 64 + 1] in
  match qwt_new 128 256 s with
  | Val t =>
      let n := q_n t in let nl := q_n_levels t in let sg := q_sigma t in
      let d := qwt_data t in let p := qwt_pos t in let sb := qwt_sbs t in let sm := qwt_samples t in
      let oc := qwt_occs t in
      g_qwt256_n_levels nl = Val 64 /\ g_qwt256_get 128 n nl d p sb oc 3 = Val (Some (2 ^ 127)) /\
      g_qwt256_rank 128 n nl sg d sb oc (2 ^ 100 + 5) 6 = Val (Some 2) /\
      g_qwt256_select 3 128 n nl sg d p sb sm oc (2 ^ 64 + 1) 0 = Val (Some 5) /\
      g_qwt256_select 3 128 n nl sg d p sb sm oc (2 ^ 100 + 5) 1 = Val (Some 2)
  | Fault _ => False
  end.
Proof. vm_compute. repeat split; reflexivity. Qed.

(* ================================================================== a purely structural sufficient condition *)
(* The last clause of [lvl_select_ok] (select positions fit a usize) follows from a bound on the number of
   superblocks: a position is (superblock index) * 8 * bsize + (block index <= 7) * bsize + (offset <= 512). *)
Lemma idx_lt {A} (l : list A) i a : idx l i = Val a -> i < len l.
Proof. unfold idx. destruct (nthN l i) eqn:E; [|discriminate]. intros _. eapply nthN_some_lt; eassumption. Qed.

Lemma block_pred_loop_fst target : forall fuel cnt prev bid, bid + N.of_nat fuel <= 8 ->
  fst (sb_block_pred_loop cnt prev target bid fuel) <= 7.
Proof.
  induction fuel as [|f IH]; intros cnt prev bid H; cbn [sb_block_pred_loop].
  - change (BLOCKS_IN_SB - 1) with 7. cbn [fst]. lia.
  - cbv zeta. destruct (target <=? N.land cnt BLK_MASK_BP); [cbn [fst]; lia|]. apply IH. lia.
Qed.

Lemma select_block_pos_bound bsize rs c i pos rank :
  rss_select_block bsize rs c i = Val (pos, rank) -> pos + bsize <= len (rs_superblocks rs) * bsize * 8.
Proof.
  unfold rss_select_block. cbv zeta. intros E.
  destruct (osub i 1) as [i1|]; cbn [bind] in E; [|discriminate].
  destruct (idx (rs_samples rs) c) as [samples|]; cbn [bind] in E; [|discriminate].
  destruct (idx samples (i1 / SELECT_NUM_SAMPLES)) as [first0|]; cbn [bind] in E; [|discriminate].
  destruct (idx samples (i1 / SELECT_NUM_SAMPLES + 1)) as [last0|]; cbn [bind] in E; [|discriminate].
  destruct (osub (1 + last0) first0) as [d|]; cbn [bind] in E; [|discriminate].
  destruct (rss_scan rs c i first0 (1 + last0) (N.sqrt d + 1) _) as [first1|]; cbn [bind] in E; [|discriminate].
  destruct (osub first1 (N.sqrt d + 1)) as [first2|]; cbn [bind] in E; [|discriminate].
  destruct (rss_scan rs c i first2 (1 + last0) 1 _) as [first3|]; cbn [bind] in E; [|discriminate].
  destruct (osub first3 1) as [first4|]; cbn [bind] in E; [|discriminate].
  destruct (idx (rs_superblocks rs) first4) as [sb|] eqn:Esb; cbn [bind] in E; [|discriminate].
  apply idx_lt in Esb.
  destruct (sb_get_superblock_counter sb c) as [rk|]; cbn [bind] in E; [|discriminate].
  destruct (osub i rk) as [t|]; cbn [bind] in E; [|discriminate].
  unfold sb_block_predecessor in E.
  destruct (idx sb c) as [cnt|]; cbn [bind] in E; [|discriminate].
  pose proof (block_pred_loop_fst t (N.to_nat (BLOCKS_IN_SB - 1)) cnt 0 1 ltac:(change (BLOCKS_IN_SB - 1) with 7; lia)) as Hb.
  destruct (sb_block_pred_loop cnt 0 t 1 (N.to_nat (BLOCKS_IN_SB - 1))) as [block_id block_rank].
  cbn [fst] in Hb. apply Val_inj in E. injection E as <- _. change RS_BLOCKS_IN_SB with 8.
  assert (H1 : (first4 + 1) * bsize <= len (rs_superblocks rs) * bsize) by (apply N.mul_le_mono_r; lia).
  assert (H2 : block_id * bsize <= 7 * bsize) by (apply N.mul_le_mono_r; lia).
  lia.
Qed.

Lemma sel_line_bound c l i res p i' r' : line_ok l -> sel_line c l i res = (Some p, i', r') -> p <= res + 256.
Proof.
  intros Hl. destruct (halves l Hl) as (_ & HA & HB & _ & _).
  unfold sel_line. cbv zeta. rewrite firstn128, skipn128.
  pose proof (half_select_le c (firstnN 128 l) i HA).
  pose proof (half_select_le c (skipnN 128 l) (i - countN c (firstnN 128 l)) HB).
  destruct (i <? countN c (firstnN 128 l)); [intros E; injection E as <- _ _; lia|].
  destruct (i - countN c (firstnN 128 l) <? countN c (skipnN 128 l)); [|discriminate].
  intros E. injection E as <- _ _. lia.
Qed.

Lemma select_intra_bound bsize r c i pos off : rsq_lines_ok r ->
  rsq_select_intra_block bsize r c i pos = Val off -> off <= 512.
Proof.
  intros Hr. unfold rsq_select_intra_block. cbv zeta.
  destruct (osub i 1) as [i0|]; cbn [bind]; [|discriminate].
  destruct (uidx (qv_data (rsq_qv r)) (N.shiftr pos 8)) as [d0|] eqn:E0; cbn [bind]; [|discriminate].
  pose proof (uidx_Forall _ _ _ _ Hr E0) as Hd0.
  destruct (sel_line c d0 i0 0) as [[[p|] i1] r1] eqn:Es0.
  - intros E. apply Val_inj in E. subst off. apply sel_line_bound in Es0; [lia|exact Hd0].
  - apply sel_line_none_res in Es0. subst r1.
    destruct (bsize =? 256); [intros E; apply Val_inj in E; lia|].
    destruct (uidx (qv_data (rsq_qv r)) (N.shiftr pos 8 + 1)) as [d1|] eqn:E1; cbn [bind]; [|discriminate].
    pose proof (uidx_Forall _ _ _ _ Hr E1) as Hd1.
    destruct (sel_line c d1 i1 256) as [[[p|] i2] r2] eqn:Es1; intros E; apply Val_inj in E; subst off; [|lia].
    apply sel_line_bound in Es1; [lia|exact Hd1].
Qed.

Lemma select_pos_bound bsize r c k p : bsize <= 512 -> rsq_lines_ok r ->
  len (rs_superblocks (rsq_rs r)) < 2 ^ 48 ->
  rsq_select bsize r c k = Val (Some p) -> p < 2 ^ 64.
Proof.
  intros Hb Hr Hn. unfold rsq_select.
  destruct (3 <? c); [discriminate|].
  destruct (rsq_occs_unchecked r c) as [occ|]; cbn [bind]; [|discriminate].
  destruct (occ <=? k); [discriminate|].
  destruct (oadd 64 k 1) as [i1|]; cbn [bind]; [|discriminate].
  destruct (rss_select_block bsize (rsq_rs r) c i1) as [[pos rank]|] eqn:Eb; cbn [bind]; [|discriminate].
  destruct (osub k rank) as [t|]; cbn [bind]; [|discriminate].
  destruct (oadd 64 t 1) as [t1|]; cbn [bind]; [|discriminate].
  destruct (rsq_select_intra_block bsize r c t1 pos) as [off|] eqn:Eo; cbn [bind]; [|discriminate].
  intros E. apply Val_inj in E. injection E as <-.
  apply select_block_pos_bound in Eb. apply select_intra_bound in Eo; [|exact Hr].
  change (2 ^ 48) with 281474976710656 in Hn. rewrite p64.
  assert (H : len (rs_superblocks (rsq_rs r)) * bsize <= 281474976710656 * 512) by (apply N.mul_le_mono; lia).
  lia.
Qed.

Theorem lvl_select_ok_structural : forall bsize fuel r, bsize <= 512 ->
  rsq_lines_ok r -> rss_typed (rsq_rs r) -> Forall (fun x => x < 2 ^ 63) (rsq_occs_smaller r) ->
  (S (length (rs_superblocks (rsq_rs r))) <= fuel)%nat -> len (rs_superblocks (rsq_rs r)) < 2 ^ 48 ->
  lvl_select_ok bsize fuel r.
Proof.
  intros bsize fuel r Hb Hl (Hs & Hw) Ho Hf Hn. split; [split; [exact Hl|split; [exact Hw|exact Ho]]|].
  split; [exact Hs|]. split; [exact Hf|]. intros c k p _. now apply select_pos_bound.
Qed.
Theorem lvl_rank_ok_structural : forall r,
  rsq_lines_ok r -> rss_typed (rsq_rs r) -> Forall (fun x => x < 2 ^ 63) (rsq_occs_smaller r) -> lvl_rank_ok r.
Proof. intros r Hl (_ & Hw) Ho. split; [exact Hl|split; [exact Hw|exact Ho]]. Qed.

(* ================================================================== get / rank: EQUALITIES *)
(* On a tree whose levels satisfy [lvl_rank_ok] the checked additions of the source cannot overflow (a rank
   is below 2^45, a prefix count below 2^63), so that get / rank and their unchecked variants are EQUAL to
   the hand model, faults included (same fault, same order), for every usize position. *)
Lemma rank_block_bound bsize rs c i a : Forall (Forall (fun w => w < 2 ^ 128)) (rs_superblocks rs) ->
  rss_rank_block bsize rs c i = Val a -> a < 2 ^ 44 + 4096.
Proof.
  intros Hs Ea. unfold rss_rank_block in Ea.
  destruct (odebug_assert (c <=? 3)) as [[]|] in Ea; cbn [bind] in Ea; [|discriminate].
  destruct (uidx (rs_superblocks rs) _) as [sb|] eqn:Esb; cbn [bind] in Ea; [|discriminate].
  pose proof (uidx_Forall _ _ _ _ Hs Esb) as Hsb. cbv beta in Hsb.
  now apply sb_get_rank_bound in Ea.
Qed.

Theorem g_rsq256_rank_unchecked_eq : forall r c i, rsq_lines_ok r ->
  Forall (Forall (fun w => w < 2 ^ 128)) (rs_superblocks (rsq_rs r)) -> i < 2 ^ 64 ->
  g_rsq256_rank_unchecked (rsq_wdata r) (rs_superblocks (rsq_rs r)) c i = rsq_rank_unchecked 256 r c i.
Proof.
  intros r c i Hl Hw Hi. unfold g_rsq256_rank_unchecked, rsq_rank_unchecked.
  rewrite g_rss256_rank_block_ok, g_rsq256_rank_intra_block_ok by assumption.
  destruct (odebug_assert (c <=? 3)) as [[]|]; cbn [bind]; [|reflexivity].
  destruct (rss_rank_block 256 (rsq_rs r) c i) as [a|] eqn:Ea; cbn [bind]; [|reflexivity].
  destruct (rsq_rank_intra_block 256 r c i) as [b|] eqn:Eb; cbn [bind]; [|reflexivity].
  apply rank_block_bound in Ea; [|exact Hw]. apply rank_intra_bound in Eb. apply oadd_small.
  change (2 ^ 44) with 17592186044416 in Ea. rewrite p64. lia.
Qed.
Theorem g_rsq512_rank_unchecked_eq : forall r c i, rsq_lines_ok r ->
  Forall (Forall (fun w => w < 2 ^ 128)) (rs_superblocks (rsq_rs r)) -> i < 2 ^ 64 ->
  g_rsq512_rank_unchecked (rsq_wdata r) (rs_superblocks (rsq_rs r)) c i = rsq_rank_unchecked 512 r c i.
Proof.
  intros r c i Hl Hw Hi. unfold g_rsq512_rank_unchecked, rsq_rank_unchecked.
  rewrite g_rss512_rank_block_ok, g_rsq512_rank_intra_block_ok by assumption.
  destruct (odebug_assert (c <=? 3)) as [[]|]; cbn [bind]; [|reflexivity].
  destruct (rss_rank_block 512 (rsq_rs r) c i) as [a|] eqn:Ea; cbn [bind]; [|reflexivity].
  destruct (rsq_rank_intra_block 512 r c i) as [b|] eqn:Eb; cbn [bind]; [|reflexivity].
  apply rank_block_bound in Ea; [|exact Hw]. apply rank_intra_bound in Eb. apply oadd_small.
  change (2 ^ 44) with 17592186044416 in Ea. rewrite p64. lia.
Qed.

(* the walks of the hand model stay within usize *)
Lemma rank_walk_bounds wT bsize symbol qvs : Forall lvl_rank_ok qvs ->
  forall n level cur_p cur_i sh p' i' s', cur_p < 2 ^ 64 -> cur_i < 2 ^ 64 -> sh < 2 ^ 63 ->
  qwt_rank_walk wT bsize qvs symbol sh cur_p cur_i level n = Val (p', i', s') ->
  p' < 2 ^ 64 /\ i' < 2 ^ 64 /\ s' < 2 ^ 63.
Proof.
  intros HF. induction n as [|n IH]; intros level cur_p cur_i sh p' i' s' Hp Hi Hs; cbn [qwt_rank_walk].
  - intros E. apply Val_inj in E. injection E as <- <- <-. auto.
  - destruct (two_bits wT symbol sh) as [tb|]; cbn [bind]; [|discriminate].
    destruct (idx qvs level) as [qv|] eqn:Eqv; cbn [bind]; [|discriminate].
    pose proof (idx_Forall _ _ _ _ HF Eqv) as (Hl & Hw & Ho).
    destruct (rsq_occs_smaller_unchecked qv tb) as [offset|] eqn:Eo; cbn [bind]; [|discriminate].
    destruct (occs_smaller_bound _ _ _ Ho Eo) as [Hoff _].
    destruct (rsq_rank_unchecked bsize qv tb cur_p) as [rp|] eqn:Erp; cbn [bind]; [|discriminate].
    destruct (rsq_rank_unchecked bsize qv tb cur_i) as [ri|] eqn:Eri; cbn [bind]; [|discriminate].
    pose proof (rank_unchecked_bound _ _ _ _ _ Hw Erp) as Hrp.
    pose proof (rank_unchecked_bound _ _ _ _ _ Hw Eri) as Hri.
    change (2 ^ 45) with 35184372088832 in Hrp, Hri. rewrite p63 in Hoff, Hs.
    destruct (osub sh 2) as [sh'|] eqn:Esh; cbn [bind]; [|discriminate].
    apply osub_Val in Esh. destruct Esh as [-> Hsh].
    apply IH; rewrite ?p64, ?p63; lia.
Qed.

Lemma get_walk_bounds wT bsize qvs : Forall lvl_rank_ok qvs ->
  forall n level result cur_i res' i', cur_i < 2 ^ 64 ->
  qwt_get_walk wT bsize qvs result cur_i level n = Val (res', i') -> i' < 2 ^ 64.
Proof.
  intros HF. induction n as [|n IH]; intros level result cur_i res' i' Hi; cbn [qwt_get_walk].
  - intros E. apply Val_inj in E. injection E as _ <-. exact Hi.
  - destruct (idx qvs level) as [qv|] eqn:Eqv; cbn [bind]; [|discriminate].
    pose proof (idx_Forall _ _ _ _ HF Eqv) as (Hl & Hw & Ho).
    destruct (rsq_get_unchecked qv cur_i) as [sym|]; cbn [bind]; [|discriminate].
    destruct (rsq_occs_smaller_unchecked qv sym) as [offset|] eqn:Eo; cbn [bind]; [|discriminate].
    destruct (occs_smaller_bound _ _ _ Ho Eo) as [Hoff _].
    destruct (rsq_rank_unchecked bsize qv sym cur_i) as [ri|] eqn:Eri; cbn [bind]; [|discriminate].
    pose proof (rank_unchecked_bound _ _ _ _ _ Hw Eri) as Hri.
    change (2 ^ 45) with 35184372088832 in Hri. rewrite p63 in Hoff.
    apply IH. rewrite p64. lia.
Qed.

Lemma sym_mod_small2 wT x : 2 < wT -> x < 4 -> x mod 2 ^ wT = x.
Proof.
  intros Hw Hx. apply N.mod_small. assert (H : 2 ^ 3 <= 2 ^ wT) by (apply N.pow_le_mono_r; lia).
  change (2 ^ 3) with 8 in H. lia.
Qed.

Section GenericEq.
  Variable bsize : N.
  Variable g_get_u : list (list N) -> N -> N -> outcome N.
  Variable g_occs_su : list N -> N -> outcome N.
  Variable g_rank_u : list (list N) -> list (list N) -> N -> N -> outcome N.
  Hypothesis get_u_ok : forall r i, rsq_lines_ok r ->
    g_get_u (rsq_wdata r) (rsq_pos r) i = rsq_get_unchecked r i.
  Hypothesis occs_su_ok : forall r c, g_occs_su (rsq_occs_smaller r) c = rsq_occs_smaller_unchecked r c.
  Hypothesis rank_u_eq : forall r c i, rsq_lines_ok r ->
    Forall (Forall (fun w => w < 2 ^ 128)) (rs_superblocks (rsq_rs r)) -> i < 2 ^ 64 ->
    g_rank_u (rsq_wdata r) (rs_superblocks (rsq_rs r)) c i = rsq_rank_unchecked bsize r c i.

  Lemma rank_loop_eq wT symbol qvs : Forall lvl_rank_ok qvs ->
    forall n level cur_p cur_i sh, cur_p < 2 ^ 64 -> cur_i < 2 ^ 64 -> 2 * N.of_nat n <= sh -> sh < 2 ^ 63 ->
    for_loop (G_rank_body g_occs_su g_rank_u wT qvs symbol) level n (cur_p, cur_i, Z.of_N sh) =
    (let! (p', i', s') := qwt_rank_walk wT bsize qvs symbol sh cur_p cur_i level n in
     Val (Done (p', i', Z.of_N s'))).
  Proof.
    intros HF. induction n as [|n IH]; intros level cur_p cur_i sh Hp Hi Hn Hs.
    - reflexivity.
    - cbn [qwt_rank_walk for_loop]. unfold G_rank_body at 1. cbv beta iota zeta.
      assert (Hs' : sh < 9223372036854775808) by (now rewrite p63 in Hs).
      rewrite shamt_of_N by (rewrite p64; lia).
      unfold two_bits. destruct (oshr wT symbol sh) as [y|]; cbn [bind]; [|reflexivity].
      rewrite land3_mod8. set (tb := N.land (y mod 2 ^ 64) 3).
      rewrite !idx_map.
      destruct (idx qvs level) as [qv|] eqn:Eqv; cbn [bind]; [|reflexivity].
      pose proof (idx_Forall _ _ _ _ HF Eqv) as (Hl & Hw & Ho).
      rewrite occs_su_ok.
      destruct (rsq_occs_smaller_unchecked qv tb) as [offset|] eqn:Eo; cbn [bind]; [|reflexivity].
      destruct (occs_smaller_bound _ _ _ Ho Eo) as [Hoff _]. rewrite p63 in Hoff.
      unfold lvl_sbs at 1 2. rewrite !rank_u_eq by assumption.
      destruct (rsq_rank_unchecked bsize qv tb cur_p) as [rp|] eqn:Erp; cbn [bind]; [|reflexivity].
      pose proof (rank_unchecked_bound _ _ _ _ _ Hw Erp) as Hrp. change (2 ^ 45) with 35184372088832 in Hrp.
      rewrite oadd_small by (rewrite p64; lia). cbn [bind].
      destruct (rsq_rank_unchecked bsize qv tb cur_i) as [ri|] eqn:Eri; cbn [bind]; [|reflexivity].
      pose proof (rank_unchecked_bound _ _ _ _ _ Hw Eri) as Hri. change (2 ^ 45) with 35184372088832 in Hri.
      rewrite oadd_small by (rewrite p64; lia). cbn [bind].
      rewrite zisub2 by lia. cbn [bind].
      unfold osub. destruct (N.leb_spec 2 sh); [|lia]. cbn [bind].
      replace (Z.of_N sh - 2)%Z with (Z.of_N (sh - 2)) by lia.
      apply IH; rewrite ?p64, ?p63; lia.
  Qed.

  Theorem G_rank_unchecked_eq : forall wT t symbol i,
    Forall lvl_rank_ok (q_qvs t) -> q_n_levels t <= 2 ^ 62 -> i < 2 ^ 64 ->
    G_rank_unchecked g_occs_su g_rank_u wT (q_n_levels t) (qwt_data t) (qwt_sbs t) (qwt_occs t) symbol i
    = qwt_rank_unchecked wT bsize t symbol i.
  Proof.
    intros wT t symbol i HF Hnl Hi. unfold qwt_rank_unchecked, G_rank_unchecked.
    destruct (osub (q_n_levels t) 1) as [l1|] eqn:El1; cbn [bind]; [|reflexivity].
    apply osub_Val in El1. destruct El1 as [El1 Hl1]. change (2 ^ 62) with 4611686018427387904 in Hnl.
    unfold omul. destruct (N.ltb_spec (2 * l1) (2 ^ 64)) as [_|H]; [|rewrite p64 in H; lia]. cbn [bind].
    rewrite zwrap_small by lia. rewrite N.sub_0_r.
    assert (H0 : 0 < 2 ^ 64) by (rewrite p64; lia).
    assert (H2 : 2 * l1 < 2 ^ 63) by (rewrite p63; lia).
    pose proof (rank_loop_eq wT symbol (q_qvs t) HF (N.to_nat l1) 0 0 i (2 * l1) H0 Hi ltac:(lia) H2) as Hloop.
    unfold G_rank_body in Hloop. unfold qwt_data, qwt_sbs, qwt_occs. rewrite Hloop. clear Hloop.
    destruct (qwt_rank_walk wT bsize (q_qvs t) symbol (2 * l1) 0 i 0 (N.to_nat l1)) as [[[p' i'] s']|] eqn:Ew;
      cbn [bind]; [|reflexivity].
    destruct (rank_walk_bounds wT bsize symbol (q_qvs t) HF _ _ _ _ _ _ _ _ H0 Hi H2 Ew) as (Hp' & Hi' & Hs').
    cbv beta iota zeta.
    rewrite shamt_of_N by (rewrite p63, ?p64 in *; lia).
    unfold two_bits. destruct (oshr wT symbol s') as [y|]; cbn [bind]; [|reflexivity].
    rewrite land3_mod8. set (tb := N.land (y mod 2 ^ 64) 3).
    rewrite !idx_map.
    destruct (idx (q_qvs t) l1) as [qv|] eqn:Eqv; cbn [bind]; [|reflexivity].
    pose proof (idx_Forall _ _ _ _ HF Eqv) as (Hl & Hw & Ho).
    unfold lvl_sbs. rewrite !rank_u_eq by assumption.
    destruct (rsq_rank_unchecked bsize qv tb i') as [ci|]; cbn [bind]; [|reflexivity].
    reflexivity.
  Qed.

  Theorem G_rank_eq : forall wT t symbol i,
    Forall lvl_rank_ok (q_qvs t) -> q_n_levels t <= 2 ^ 62 -> i < 2 ^ 64 ->
    G_rank g_occs_su g_rank_u wT (q_n t) (q_n_levels t) (q_sigma t) (qwt_data t) (qwt_sbs t) (qwt_occs t) symbol i
    = qwt_rank wT bsize t symbol i.
  Proof.
    intros wT t symbol i HF Hnl Hi. unfold qwt_rank, G_rank.
    replace ((q_n t =? 0) || (q_n t <? i) || (q_sigma t <? symbol))%bool
      with ((q_n t <? i) || (q_sigma t <? symbol) || (q_n t =? 0))%bool
      by (destruct (q_n t =? 0), (q_n t <? i), (q_sigma t <? symbol); reflexivity).
    destruct ((q_n t <? i) || (q_sigma t <? symbol) || (q_n t =? 0))%bool; [reflexivity|].
    now rewrite G_rank_unchecked_eq.
  Qed.

  Lemma get_loop_eq wT qvs : 2 < wT -> Forall lvl_rank_ok qvs ->
    forall n level result cur_i, cur_i < 2 ^ 64 ->
    for_loop (G_get_body g_get_u g_occs_su g_rank_u wT qvs) level n (result, cur_i) =
    (let! x := qwt_get_walk wT bsize qvs result cur_i level n in Val (Done x)).
  Proof.
    intros HwT HF. induction n as [|n IH]; intros level result cur_i Hi.
    - reflexivity.
    - cbn [qwt_get_walk for_loop]. unfold G_get_body at 1. cbv beta iota zeta.
      rewrite !idx_map.
      destruct (idx qvs level) as [qv|] eqn:Eqv; cbn [bind]; [|reflexivity].
      pose proof (idx_Forall _ _ _ _ HF Eqv) as (Hl & Hw & Ho).
      rewrite get_u_ok by exact Hl.
      destruct (rsq_get_unchecked qv cur_i) as [sym|] eqn:Esym; cbn [bind]; [|reflexivity].
      pose proof (get_unchecked_lt4 _ _ _ Hl Esym) as Hsym.
      unfold oshl. destruct (N.ltb_spec 2 wT); [|lia]. cbn [bind].
      rewrite (sym_mod_small2 wT sym HwT Hsym).
      rewrite occs_su_ok.
      destruct (rsq_occs_smaller_unchecked qv sym) as [offset|] eqn:Eo; cbn [bind]; [|reflexivity].
      destruct (occs_smaller_bound _ _ _ Ho Eo) as [Hoff _]. rewrite p63 in Hoff.
      unfold lvl_sbs at 1. rewrite rank_u_eq by assumption.
      destruct (rsq_rank_unchecked bsize qv sym cur_i) as [ri|] eqn:Eri; cbn [bind]; [|reflexivity].
      pose proof (rank_unchecked_bound _ _ _ _ _ Hw Eri) as Hri. change (2 ^ 45) with 35184372088832 in Hri.
      rewrite oadd_small by (rewrite p64; lia). cbn [bind].
      apply IH. rewrite p64. lia.
  Qed.

  Theorem G_get_unchecked_eq : forall wT t i, 2 < wT ->
    Forall lvl_rank_ok (q_qvs t) -> i < 2 ^ 64 ->
    G_get_unchecked g_get_u g_occs_su g_rank_u wT (q_n_levels t) (qwt_data t) (qwt_pos t) (qwt_sbs t) (qwt_occs t) i
    = qwt_get_unchecked wT bsize t i.
  Proof.
    intros wT t i HwT HF Hi. unfold qwt_get_unchecked, G_get_unchecked. cbv zeta.
    destruct (osub (q_n_levels t) 1) as [l1|] eqn:El1; cbn [bind]; [|reflexivity].
    rewrite N.sub_0_r.
    pose proof (get_loop_eq wT (q_qvs t) HwT HF (N.to_nat l1) 0 0 i Hi) as Hloop.
    unfold G_get_body in Hloop. unfold qwt_data, qwt_pos, qwt_sbs, qwt_occs. rewrite Hloop. clear Hloop.
    destruct (qwt_get_walk wT bsize (q_qvs t) 0 i 0 (N.to_nat l1)) as [[res' i']|] eqn:Ew; cbn [bind]; [|reflexivity].
    cbv beta iota zeta.
    rewrite !idx_map.
    destruct (idx (q_qvs t) l1) as [qv|] eqn:Eqv; cbn [bind]; [|reflexivity].
    pose proof (idx_Forall _ _ _ _ HF Eqv) as (Hl & Hw & Ho).
    rewrite get_u_ok by exact Hl.
    destruct (rsq_get_unchecked qv i') as [sym|] eqn:Esym; cbn [bind]; [|reflexivity].
    pose proof (get_unchecked_lt4 _ _ _ Hl Esym) as Hsym.
    unfold oshl. destruct (N.ltb_spec 2 wT); [|lia]. cbn [bind].
    rewrite (sym_mod_small2 wT sym HwT Hsym). reflexivity.
  Qed.

  Theorem G_get_eq : forall wT t i, 2 < wT ->
    Forall lvl_rank_ok (q_qvs t) -> i < 2 ^ 64 ->
    G_get g_get_u g_occs_su g_rank_u wT (q_n t) (q_n_levels t) (qwt_data t) (qwt_pos t) (qwt_sbs t) (qwt_occs t) i
    = qwt_get wT bsize t i.
  Proof.
    intros wT t i HwT HF Hi. unfold qwt_get, G_get.
    destruct (q_n t <=? i); [reflexivity|]. now rewrite G_get_unchecked_eq.
  Qed.
End GenericEq.

Ltac insteq256 thm :=
  exact (thm 256 g_rsq256_get_unchecked g_rsq256_occs_smaller_unchecked g_rsq256_rank_unchecked
           g_rsq256_get_unchecked_ok g_rsq256_occs_smaller_unchecked_ok g_rsq256_rank_unchecked_eq).
Ltac insteq512 thm :=
  exact (thm 512 g_rsq512_get_unchecked g_rsq512_occs_smaller_unchecked g_rsq512_rank_unchecked
           g_rsq512_get_unchecked_ok g_rsq512_occs_smaller_unchecked_ok g_rsq512_rank_unchecked_eq).

Theorem g_qwt256_get_unchecked_ok : forall wT t i, 2 < wT -> Forall lvl_rank_ok (q_qvs t) -> i < 2 ^ 64 ->
  g_qwt256_get_unchecked wT (q_n_levels t) (qwt_data t) (qwt_pos t) (qwt_sbs t) (qwt_occs t) i
  = qwt_get_unchecked wT 256 t i.
Proof. insteq256 G_get_unchecked_eq. Qed.
Theorem g_qwt512_get_unchecked_ok : forall wT t i, 2 < wT -> Forall lvl_rank_ok (q_qvs t) -> i < 2 ^ 64 ->
  g_qwt512_get_unchecked wT (q_n_levels t) (qwt_data t) (qwt_pos t) (qwt_sbs t) (qwt_occs t) i
  = qwt_get_unchecked wT 512 t i.
Proof. insteq512 G_get_unchecked_eq. Qed.
Theorem g_qwt256_get_ok : forall wT t i, 2 < wT -> Forall lvl_rank_ok (q_qvs t) -> i < 2 ^ 64 ->
  g_qwt256_get wT (q_n t) (q_n_levels t) (qwt_data t) (qwt_pos t) (qwt_sbs t) (qwt_occs t) i = qwt_get wT 256 t i.
Proof. insteq256 G_get_eq. Qed.
Theorem g_qwt512_get_ok : forall wT t i, 2 < wT -> Forall lvl_rank_ok (q_qvs t) -> i < 2 ^ 64 ->
  g_qwt512_get wT (q_n t) (q_n_levels t) (qwt_data t) (qwt_pos t) (qwt_sbs t) (qwt_occs t) i = qwt_get wT 512 t i.
Proof. insteq512 G_get_eq. Qed.
Theorem g_qwt256_rank_unchecked_ok : forall wT t symbol i,
  Forall lvl_rank_ok (q_qvs t) -> q_n_levels t <= 2 ^ 62 -> i < 2 ^ 64 ->
  g_qwt256_rank_unchecked wT (q_n_levels t) (qwt_data t) (qwt_sbs t) (qwt_occs t) symbol i
  = qwt_rank_unchecked wT 256 t symbol i.
Proof. insteq256 G_rank_unchecked_eq. Qed.
Theorem g_qwt512_rank_unchecked_ok : forall wT t symbol i,
  Forall lvl_rank_ok (q_qvs t) -> q_n_levels t <= 2 ^ 62 -> i < 2 ^ 64 ->
  g_qwt512_rank_unchecked wT (q_n_levels t) (qwt_data t) (qwt_sbs t) (qwt_occs t) symbol i
  = qwt_rank_unchecked wT 512 t symbol i.
Proof. insteq512 G_rank_unchecked_eq. Qed.
Theorem g_qwt256_rank_ok : forall wT t symbol i,
  Forall lvl_rank_ok (q_qvs t) -> q_n_levels t <= 2 ^ 62 -> i < 2 ^ 64 ->
  g_qwt256_rank wT (q_n t) (q_n_levels t) (q_sigma t) (qwt_data t) (qwt_sbs t) (qwt_occs t) symbol i
  = qwt_rank wT 256 t symbol i.
Proof. insteq256 G_rank_eq. Qed.
Theorem g_qwt512_rank_ok : forall wT t symbol i,
  Forall lvl_rank_ok (q_qvs t) -> q_n_levels t <= 2 ^ 62 -> i < 2 ^ 64 ->
  g_qwt512_rank wT (q_n t) (q_n_levels t) (q_sigma t) (qwt_data t) (qwt_sbs t) (qwt_occs t) symbol i
  = qwt_rank wT 512 t symbol i.
Proof. insteq512 G_rank_eq. Qed.

(* ---- select with purely structural hypotheses on the tree *)
Definition qwt_levels_wf (fuel : nat) (t : qwt) : Prop :=
  Forall (fun r => rsq_lines_ok r /\ rss_typed (rsq_rs r) /\
                   Forall (fun x => x < 2 ^ 63) (rsq_occs_smaller r) /\
                   (S (length (rs_superblocks (rsq_rs r))) <= fuel)%nat /\
                   len (rs_superblocks (rsq_rs r)) < 2 ^ 48) (q_qvs t).

Lemma qwt_levels_wf_select bsize fuel t : bsize <= 512 -> qwt_levels_wf fuel t ->
  Forall (lvl_select_ok bsize fuel) (q_qvs t).
Proof.
  intros Hb. apply Forall_impl. intros r (H1 & H2 & H3 & H4 & H5). now apply lvl_select_ok_structural.
Qed.

Theorem g_qwt256_select_ok : forall fuel wT t symbol i v,
  qwt_levels_wf fuel t -> q_n_levels t < 2 ^ 62 ->
  qwt_select wT 256 t symbol i = Val v ->
  g_qwt256_select fuel wT (q_n t) (q_n_levels t) (q_sigma t) (qwt_data t) (qwt_pos t) (qwt_sbs t) (qwt_samples t)
    (qwt_occs t) symbol i = Val v.
Proof. intros fuel wT t symbol i v H. apply g_qwt256_select_sim. apply qwt_levels_wf_select; [lia|exact H]. Qed.
Theorem g_qwt512_select_ok : forall fuel wT t symbol i v,
  qwt_levels_wf fuel t -> q_n_levels t < 2 ^ 62 ->
  qwt_select wT 512 t symbol i = Val v ->
  g_qwt512_select fuel wT (q_n t) (q_n_levels t) (q_sigma t) (qwt_data t) (qwt_pos t) (qwt_sbs t) (qwt_samples t)
    (qwt_occs t) symbol i = Val v.
Proof. intros fuel wT t symbol i v H. apply g_qwt512_select_sim. apply qwt_levels_wf_select; [lia|exact H]. Qed.
Theorem g_qwt256_select_unchecked_ok : forall fuel wT t symbol i v,
  qwt_levels_wf fuel t -> q_n_levels t < 2 ^ 62 ->
  qwt_select_unchecked wT 256 t symbol i = Val v ->
  g_qwt256_select_unchecked fuel wT (q_n t) (q_n_levels t) (q_sigma t) (qwt_data t) (qwt_pos t) (qwt_sbs t)
    (qwt_samples t) (qwt_occs t) symbol i = Val v.
Proof. intros fuel wT t symbol i v H. apply g_qwt256_select_unchecked_sim. apply qwt_levels_wf_select; [lia|exact H]. Qed.
Theorem g_qwt512_select_unchecked_ok : forall fuel wT t symbol i v,
  qwt_levels_wf fuel t -> q_n_levels t < 2 ^ 62 ->
  qwt_select_unchecked wT 512 t symbol i = Val v ->
  g_qwt512_select_unchecked fuel wT (q_n t) (q_n_levels t) (q_sigma t) (qwt_data t) (qwt_pos t) (qwt_sbs t)
    (qwt_samples t) (qwt_occs t) symbol i = Val v.
Proof. intros fuel wT t symbol i v H. apply g_qwt512_select_unchecked_sim. apply qwt_levels_wf_select; [lia|exact H]. Qed.

(* every tree qwt_new builds satisfies the structural hypotheses *)
Theorem qwt_new_levels_wf : forall w bsize s t fuel, width_ok w -> (bsize = 256 \/ bsize = 512) ->
  Forall (fun x => x < 2 ^ w) s -> len s < RSQ_MAXN -> qwt_new w bsize s = Val t ->
  (S (S (N.to_nat (len s / (8 * bsize)))) <= fuel)%nat ->
  qwt_levels_wf fuel t /\ Forall lvl_rank_ok (q_qvs t) /\ q_n_levels t <= 64.
Proof.
  intros w bsize s t fuel Hwok Hb HF Hn E Hf.
  destruct (qwt_new_built w bsize s t Hwok Hb HF Hn E) as (HB & _ & Hnl).
  split; [|split; [exact (built_rank_all bsize (len s) (q_qvs t) Hn HB)|exact Hnl]].
  revert HB. apply Forall_impl. intros r Hr.
  destruct (lvl_built_rank_ok bsize (len s) r Hn Hr) as (Hl & _ & Ho).
  destruct Hr as (D & HD & _ & _ & Hty & Hlen & _).
  split; [exact Hl|]. split; [exact Hty|]. split; [exact Ho|]. split; [now rewrite Hlen|].
  unfold len. rewrite Hlen. rewrite RSQ_MAXN_val in Hn. change (2 ^ 48) with 281474976710656.
  assert (len s / (8 * bsize) <= len s) by (apply N.div_le_upper_bound; destruct Hb; subst bsize; lia).
  lia.
Qed.

(* ------------------------------------------------------------------ summary / findings
   FIELDS. For a hand-model tree t the generated functions receive q_n t, q_n_levels t, q_sigma t and the
     struct-of-arrays view of q_qvs t: qwt_data / qwt_pos / qwt_sbs / qwt_samples / qwt_occs (= map of
     rsq_wdata / rsq_pos / rs_superblocks / rs_samples / rsq_occs_smaller).  The element width wT is symbolic.
   LEVEL PREDICATES (all structural, all hold for every level qwt_new builds: qwt_new_levels_wf):
     lvl_rank_ok r      well-formed data lines (rsq_lines_ok), superblock words < 2^128, n_occs_smaller entries < 2^63
     qwt_levels_wf fuel t   every level: rsq_lines_ok, rss_typed (u32 samples, u128 words), n_occs_smaller < 2^63,
                            S (number of superblocks) <= fuel, number of superblocks < 2^48
     (lvl_select_ok bsize fuel r, used by the _sim theorems, has the semantic clause "select positions < 2^64" instead
      of the superblock bound; lvl_select_ok_structural derives it.)
   EQUALITIES (E), faults included:
     len, is_empty, n_levels                       no hypothesis
     get_unchecked, get                            2 < wT (`result << 2` on a T of width wT), Forall lvl_rank_ok, i < 2^64
     rank_unchecked, rank                          Forall lvl_rank_ok, n_levels <= 2^62 (`2 * (n_levels - 1)` as i64), i < 2^64
     (the checked `rank + offset` additions of the source, unchecked in the hand model, cannot overflow on such
      levels: a rank is below 2^45 (rank_unchecked_bound); the i64 `shift` stays equal to the hand model's N
      shift, which is >= 2 * (remaining iterations) along the loop: rank_loop_eq.)
   SIMULATIONS (S): select, select_unchecked       qwt_levels_wf fuel t, n_levels < 2^62; ANY i (the source guards
      `rank_b + result` by checked_add, the hand model by the same comparison); the i64 shift of the downward loop
      reaches -2 after the last level where the hand model keeps 0 -- the value is dead (reset to 0 before the
      upward loop), the invariant is shift = 2 * (remaining - 1) while an iteration remains (down_loop_sim).
      Only (S) because RSQVector::rank / select themselves are only simulated (Proofs/FnsRsqOk.v: the hand model
      adds positions unchecked where the source uses checked usize arithmetic).
   END TO END (_new theorems): for w in {8,16,32,64,128}, bsize in {256,512}, every s with symbols < 2^w and
     len s < RSQ_MAXN (= 2^43 - 4096) and t with qwt_new w bsize s = Val t, the generated len / is_empty / n_levels /
     get / get_unchecked / rank / rank_unchecked / select / select_unchecked on the fields of t return exactly the
     list specification of C01 (nthN / rank_spec / select_spec), for every position (no i < 2^64 premise for get
     and rank), and every fuel >= S (S (len s / (8 * bsize))) for select.  Nothing about the constructor is missing:
     the per-level structural facts come from rsq_from_qv_struct (rsq_new_struct / rsq_new_dir of FnsRsqOk.v
     generalised to rsq_from_qv) through qwt_levels_built (the induction of QWTBuild.qwt_levels_ok again).
   MISMATCHES: none found.  The generic text G_* (Section Generic) is checked convertible to BOTH generated
     families by the [exact] of every instance theorem. *)

Print Assumptions g_qwt256_len_ok.
Print Assumptions g_qwt512_len_ok.
Print Assumptions g_qwt256_is_empty_ok.
Print Assumptions g_qwt512_is_empty_ok.
Print Assumptions g_qwt256_n_levels_ok.
Print Assumptions g_qwt512_n_levels_ok.
Print Assumptions g_qwt256_get_unchecked_ok.
Print Assumptions g_qwt512_get_unchecked_ok.
Print Assumptions g_qwt256_get_ok.
Print Assumptions g_qwt512_get_ok.
Print Assumptions g_qwt256_rank_unchecked_ok.
Print Assumptions g_qwt512_rank_unchecked_ok.
Print Assumptions g_qwt256_rank_ok.
Print Assumptions g_qwt512_rank_ok.
Print Assumptions g_qwt256_get_unchecked_sim.
Print Assumptions g_qwt512_get_unchecked_sim.
Print Assumptions g_qwt256_get_sim.
Print Assumptions g_qwt512_get_sim.
Print Assumptions g_qwt256_rank_unchecked_sim.
Print Assumptions g_qwt512_rank_unchecked_sim.
Print Assumptions g_qwt256_rank_sim.
Print Assumptions g_qwt512_rank_sim.
Print Assumptions g_qwt256_select_sim.
Print Assumptions g_qwt512_select_sim.
Print Assumptions g_qwt256_select_unchecked_sim.
Print Assumptions g_qwt512_select_unchecked_sim.
Print Assumptions g_qwt256_select_ok.
Print Assumptions g_qwt512_select_ok.
Print Assumptions g_qwt256_select_unchecked_ok.
Print Assumptions g_qwt512_select_unchecked_ok.
Print Assumptions lvl_select_ok_structural.
Print Assumptions qwt_new_levels_wf.
Print Assumptions g_qwt_len_new.
Print Assumptions g_qwt256_get_new.
Print Assumptions g_qwt512_get_new.
Print Assumptions g_qwt256_get_unchecked_new.
Print Assumptions g_qwt512_get_unchecked_new.
Print Assumptions g_qwt256_rank_new.
Print Assumptions g_qwt512_rank_new.
Print Assumptions g_qwt256_rank_unchecked_new.
Print Assumptions g_qwt512_rank_unchecked_new.
Print Assumptions g_qwt256_select_new.
Print Assumptions g_qwt512_select_new.
Print Assumptions g_qwt256_select_unchecked_new.
Print Assumptions g_qwt512_select_unchecked_new.
Print Assumptions g_qwt_example_256.
Print Assumptions g_qwt_example_512.
Print Assumptions g_qwt_example_u128.
