(* T5 (binary WaveletTree<T, RSWide, COMPRESSED>, src/binwt/mod.rs; element width wT symbolic): the functions
   REGENERATED from the source (Gen/FnsWt.v: g_wt_* for COMPRESSED = false, g_hwt_* for COMPRESSED = true) agree
   with the hand model (Model/Huff.v: wt_* with compressed = false / true), and return the contract of
   Properties/C03.v on every tree wt_build builds.  Also: the four RSWide functions added to Gen/FnsRsw2.v
   (get_unchecked, get, rank0, rank0_unchecked) against Model/RSBin.v.
   Representation: the field `bvs : Vec<RSWide>` is passed as one list per field of RSWide (wt_data .. wt_nzeros
   below); `codes_encode : Option<Vec<PrefixCode>>` as two optional lists (wt_enc_content / wt_enc_len). *)
From Coq Require Import ZArith Lia ZifyBool ZifyN ZifyNat.
From QwtModel Require Import ListX Loops Seq Consts SelTable Words BitVec RSBin QWT Huff ListXP.
From QwtModel Require Import LeavesLib FnsBv FnsRsw2 FnsBvOk FnsRsw2Ok FnsWt.
From QwtModel Require Import QWTWalk.
From QwtModel Require RSBinL RSBinB RSBinW RSBinP WordsP BitVecP BinFinalP RSQBuild QWTArith Codes BinWTBase BinWTP WrapP C03.
Ltac Zify.zify_post_hook ::= Z.div_mod_to_equations.
Open Scope N_scope.
Arguments N.add : simpl never.
Arguments N.sub : simpl never.
Arguments N.mul : simpl never.
Arguments N.eqb : simpl never.
Arguments N.ltb : simpl never.
Arguments N.leb : simpl never.
Arguments N.pred : simpl never.
Arguments N.of_nat : simpl never.
Arguments N.land : simpl never.
Arguments N.lor : simpl never.
Arguments N.lxor : simpl never.
Arguments N.shiftr : simpl never.
Arguments N.shiftl : simpl never.
Arguments N.testbit : simpl never.
Arguments N.div : simpl never.
Arguments N.modulo : simpl never.
Arguments N.pow : simpl never.
Arguments N.ones : simpl never.

Lemma p64 : 2 ^ 64 = 18446744073709551616. Proof. reflexivity. Qed.
Lemma p63 : 2 ^ 63 = 9223372036854775808. Proof. reflexivity. Qed.
Lemma p45 : 2 ^ 45 = 35184372088832. Proof. reflexivity. Qed.
Lemma p44 : 2 ^ 44 = 17592186044416. Proof. reflexivity. Qed.
Lemma p43 : 2 ^ 43 = 8796093022208. Proof. reflexivity. Qed.

(* ================================================================== PART 1: the RSWide additions *)
(* fields: bv_data = chunks 8 (bv_words (rsw_bv r)), bv_n_bits = bv_nbits (rsw_bv r), superblock_metadata = rsw_meta r *)
Theorem g_rsw_get_unchecked_ok : forall r i,
  g_rsw_get_unchecked (chunks 8 (bv_words (rsw_bv r))) i = rsw_get_unchecked r i.
Proof. intros r i. unfold g_rsw_get_unchecked, rsw_get_unchecked. apply g_bv_get_unchecked_chunks. Qed.

Theorem g_rsw_get_ok : forall r i,
  g_rsw_get (chunks 8 (bv_words (rsw_bv r))) (bv_nbits (rsw_bv r)) i = rsw_get r i.
Proof.
  intros r i. unfold g_rsw_get, rsw_get, bv_get, g_bv_len. cbn [bind].
  destruct (bv_nbits (rsw_bv r) <=? i); [reflexivity|]. now rewrite g_rsw_get_unchecked_ok.
Qed.

Theorem g_rsw_rank0_ok : forall r i, i < 2 ^ 64 ->
  Forall (fun w => w < 2 ^ 128) (rsw_meta r) ->
  len (bv_words (rsw_bv r)) mod 8 = 0 -> Forall (fun w => w < 2 ^ 64) (bv_words (rsw_bv r)) ->
  g_rsw_rank0 (chunks 8 (bv_words (rsw_bv r))) (bv_nbits (rsw_bv r)) (rsw_meta r) i = rsw_rank0 r i.
Proof.
  intros r i Hi HM H8 HW. unfold g_rsw_rank0, rsw_rank0. rewrite g_rsw_rank1_ok by assumption. reflexivity.
Qed.

Theorem g_rsw_rank0_unchecked_ok : forall r i, i < 2 ^ 64 ->
  Forall (fun w => w < 2 ^ 128) (rsw_meta r) ->
  len (bv_words (rsw_bv r)) mod 8 = 0 -> Forall (fun w => w < 2 ^ 64) (bv_words (rsw_bv r)) ->
  g_rsw_rank0_unchecked (chunks 8 (bv_words (rsw_bv r))) (rsw_meta r) i = rsw_rank0_unchecked r i.
Proof.
  intros r i Hi HM H8 HW. unfold g_rsw_rank0_unchecked, rsw_rank0_unchecked.
  rewrite g_rsw_rank1_unchecked_ok by assumption. reflexivity.
Qed.

(* simulation forms (trivial consequences) *)
Theorem g_rsw_rank0_sim : forall r i v, i < 2 ^ 64 ->
  Forall (fun w => w < 2 ^ 128) (rsw_meta r) ->
  len (bv_words (rsw_bv r)) mod 8 = 0 -> Forall (fun w => w < 2 ^ 64) (bv_words (rsw_bv r)) ->
  rsw_rank0 r i = Val v ->
  g_rsw_rank0 (chunks 8 (bv_words (rsw_bv r))) (bv_nbits (rsw_bv r)) (rsw_meta r) i = Val v.
Proof. intros r i v Hi HM H8 HW E. now rewrite g_rsw_rank0_ok. Qed.

Theorem g_rsw_rank0_unchecked_sim : forall r i v, i < 2 ^ 64 ->
  Forall (fun w => w < 2 ^ 128) (rsw_meta r) ->
  len (bv_words (rsw_bv r)) mod 8 = 0 -> Forall (fun w => w < 2 ^ 64) (bv_words (rsw_bv r)) ->
  rsw_rank0_unchecked r i = Val v ->
  g_rsw_rank0_unchecked (chunks 8 (bv_words (rsw_bv r))) (rsw_meta r) i = Val v.
Proof. intros r i v Hi HM H8 HW E. now rewrite g_rsw_rank0_unchecked_ok. Qed.

(* end to end for the four additions: every bit list below 2^43 bits *)
Theorem rsw_gen_of_bools_get_rank0_correct : forall bs bv r, len bs < 2 ^ 43 ->
  bv_from_bools bs = Val bv -> rsw_new bv = Val r ->
  (forall i, g_rsw_get (chunks 8 (bv_words bv)) (bv_nbits bv) i = Val (nthN bs i)) /\
  (forall i, i < 2 ^ 64 ->
     g_rsw_rank0 (chunks 8 (bv_words bv)) (bv_nbits bv) (rsw_meta r) i
     = Val (if negb (len bs =? 0) && (i <=? len bs) then Some (rank0_spec bs i) else None)) /\
  (forall i, 0 < len bs -> i <= len bs ->
     g_rsw_rank0_unchecked (chunks 8 (bv_words bv)) (rsw_meta r) i = Val (rank0_spec bs i)).
Proof.
  intros bs bv r Hl Ebv Er. assert (Hl63 : len bs < 2 ^ 63) by (rewrite p43 in Hl; rewrite p63; lia).
  destruct (BitVecP.bv_from_bools_correct bs Hl63) as (bv' & E & Hinv & Habs).
  rewrite Ebv in E. apply Val_inj in E. subst bv'.
  assert (H43 : bv_nbits bv < 2 ^ 43) by (rewrite <- (BitVecP.inv_len bv Hinv), Habs; exact Hl).
  pose proof (BinFinalP.bv_inv_wf_rs bv Hinv H43) as Hwf.
  destruct (RSBinP.rsw_correct WordsP.select_in_word_correct WordsP.popcount_correct bv Hwf)
    as (r' & Er' & _ & (Hget & _ & Hrank0 & _) & Hru & _).
  rewrite Er in Er'. apply Val_inj in Er'. subst r'.
  rewrite Habs in *.
  destruct (rsw_new_sizes bv r Hwf Er) as (Hbv & HM & _ & _ & H8 & HW).
  rewrite <- Hbv in H8, HW |- *.
  split; [|split].
  - intros i. rewrite g_rsw_get_ok. apply Hget.
  - intros i Hi. rewrite g_rsw_rank0_ok by assumption. apply Hrank0.
  - intros i Hpos Hi. rewrite g_rsw_rank0_unchecked_ok by (assumption || (rewrite p43 in Hl; rewrite p64; lia)).
    apply (Hru i Hpos Hi).
Qed.

(* ================================================================== PART 2: the binary wavelet tree *)
(* ------------------------------------------------------------------ the fields of the tree *)
Definition lvl_data (r : rswide) : list (list N) := chunks 8 (bv_words (rsw_bv r)).
Definition lvl_nbits (r : rswide) : N := bv_nbits (rsw_bv r).
Definition lvl_samples (r : rswide) : list (list N) := [rsw_samples0 r; rsw_samples1 r].
Definition wt_data (t : bwt) : list (list (list N)) := map lvl_data (w_bvs t).
Definition wt_nbits (t : bwt) : list N := map lvl_nbits (w_bvs t).
Definition wt_meta (t : bwt) : list (list N) := map rsw_meta (w_bvs t).
Definition wt_samples (t : bwt) : list (list (list N)) := map lvl_samples (w_bvs t).
Definition wt_nzeros (t : bwt) : list N := map rsw_n_zeros (w_bvs t).
Definition wt_enc_content (t : bwt) : option (list N) := option_map (map pc_content) (w_codes t).
Definition wt_enc_len (t : bwt) : option (list N) := option_map (map pc_len) (w_codes t).

Lemma idx_map {A B} (f : A -> B) l i : idx (map f l) i = (let! x := idx l i in Val (f x)).
Proof. unfold idx. rewrite nthN_map. destruct (nthN l i); reflexivity. Qed.

Lemma oadd_small w a b : a + b < 2 ^ w -> oadd w a b = Val (a + b).
Proof. intros H. unfold oadd. destruct (N.ltb_spec (a + b) (2 ^ w)); [reflexivity|lia]. Qed.

(* ------------------------------------------------------------------ well-formed levels *)
(* what the rank / get walks need of a level: the hypotheses of g_rsw_rank1_ok, and a number of zeros that leaves
   room for a rank *)
Definition lvl_ok (r : rswide) : Prop :=
  Forall (fun w => w < 2 ^ 128) (rsw_meta r) /\
  len (bv_words (rsw_bv r)) mod 8 = 0 /\ Forall (fun w => w < 2 ^ 64) (bv_words (rsw_bv r)) /\
  rsw_n_zeros r < 2 ^ 63.
(* .. and select: the hypotheses of g_rsw_select{0,1}_sim *)
Definition lvl_sel_ok (fuel : nat) (r : rswide) : Prop :=
  lvl_ok r /\
  Forall (fun s => s < 2 ^ 48) (rsw_samples0 r) /\ Forall (fun s => s < 2 ^ 48) (rsw_samples1 r) /\
  (S (length (rsw_meta r)) <= fuel)%nat.

Lemma lvl_sel_rank fuel bvs : Forall (lvl_sel_ok fuel) bvs -> Forall lvl_ok bvs.
Proof. apply Forall_impl. intros r H. apply H. Qed.

Lemma line_of_len_le ws b : len (line_of ws b) <= 8.
Proof. unfold line_of, len. rewrite firstn_length. lia. Qed.

Lemma rsw_rank1_unchecked_lt r i v : lvl_ok r -> rsw_rank1_unchecked r i = Val v -> v < 2 ^ 45.
Proof.
  intros (HM & _ & HW & _). unfold rsw_rank1_unchecked. cbv zeta. rewrite p45.
  destruct (i =? 0); [intros E; apply Val_inj in E; lia|].
  destruct (rsw_sub_block_rank r (N.shiftr (i - 1) 9)) as [res|] eqn:Er; cbn [bind]; [|discriminate].
  apply (rsw_sub_block_rank_lt _ _ _ HM) in Er. rewrite p44 in Er.
  destruct (_ <? len (bv_words (rsw_bv r))); cbn [bind]; [|discriminate].
  unfold bline_rank1. destruct (512 <? N.land (i - 1) 511 + 1); cbn [ounwrap bind]; [discriminate|].
  intros E. apply Val_inj in E. subst v.
  pose proof (bline_rank1_loop_le (line_of (bv_words (rsw_bv r)) (N.shiftr (i - 1) 9)) (N.land (i - 1) 511 + 1)
                (line_of_Forall _ _ _ HW)) as Hk.
  pose proof (line_of_len_le (bv_words (rsw_bv r)) (N.shiftr (i - 1) 9)). lia.
Qed.

Lemma rsw_rank1_lt r i p : lvl_ok r -> rsw_rank1 r i = Val (Some p) -> p < 2 ^ 45.
Proof.
  intros Hr. unfold rsw_rank1. destruct (_ || _); [discriminate|].
  destruct (rsw_rank1_unchecked r i) as [v|] eqn:Ev; cbn [bind]; [|discriminate].
  intros E. apply Val_inj in E. injection E as <-. eapply rsw_rank1_unchecked_lt; eassumption.
Qed.

Lemma rsw_rank0_le r i p : rsw_rank0 r i = Val (Some p) -> p <= i.
Proof.
  unfold rsw_rank0. destruct (rsw_rank1 r i) as [[k|]|]; cbn [bind]; [| |discriminate].
  - destruct (osub i k) as [z|] eqn:Ez; cbn [bind]; [|discriminate]. apply osub_Val in Ez.
    intros E. apply Val_inj in E. injection E as <-. lia.
  - intros E. apply Val_inj in E. discriminate E.
Qed.

(* ------------------------------------------------------------------ bit_at: equalities *)
Theorem g_wt_bit_at_ok : forall w symbol repr symbol_len level,
  g_wt_bit_at w symbol repr symbol_len level = wt_bit_at w false symbol repr symbol_len level.
Proof.
  intros w symbol repr sl level. unfold g_wt_bit_at, wt_bit_at, one_bit, osub.
  destruct (N.leb_spec level sl), (N.leb_spec (level + 1) sl); try lia; cbn [bind]; try reflexivity.
  - destruct (N.leb_spec 1 (sl - level)); [|lia]. cbn [bind].
    replace (sl - level - 1) with (sl - (level + 1)) by lia.
    destruct (oshr w symbol (sl - (level + 1))); reflexivity.
  - destruct (N.leb_spec 1 (sl - level)); [lia|]. reflexivity.
Qed.

Theorem g_hwt_bit_at_ok : forall w symbol repr symbol_len level,
  g_hwt_bit_at w symbol repr symbol_len level = wt_bit_at w true symbol repr symbol_len level.
Proof.
  intros w symbol repr sl level. unfold g_hwt_bit_at, wt_bit_at, osub.
  destruct (N.leb_spec level sl), (N.leb_spec (level + 1) sl); try lia; cbn [bind]; try reflexivity.
  - destruct (N.leb_spec 1 (sl - level)); [|lia]. cbn [bind].
    replace (sl - level - 1) with (sl - (level + 1)) by lia. reflexivity.
  - destruct (N.leb_spec 1 (sl - level)); [lia|]. reflexivity.
Qed.

(* ---- len / is_empty / n_levels: equalities *)
Theorem g_wt_len_ok : forall t, g_wt_len (w_n t) = Val (w_n t). Proof. reflexivity. Qed.
Theorem g_hwt_len_ok : forall t, g_hwt_len (w_n t) = Val (w_n t). Proof. reflexivity. Qed.
Theorem g_wt_is_empty_ok : forall t, g_wt_is_empty (w_n t) = Val (w_n t =? 0). Proof. reflexivity. Qed.
Theorem g_hwt_is_empty_ok : forall t, g_hwt_is_empty (w_n t) = Val (w_n t =? 0). Proof. reflexivity. Qed.
Theorem g_wt_n_levels_ok : forall t, g_wt_n_levels (w_n_levels t) = Val (w_n_levels t). Proof. reflexivity. Qed.
Theorem g_hwt_n_levels_ok : forall t, g_hwt_n_levels (w_n_levels t) = Val (w_n_levels t). Proof. reflexivity. Qed.

(* ================================================================== the walks shared by the two flavours *)
(* The generated rank and select loops of the plain and of the Huffman-shaped tree differ only in the bit_at they
   call: the G_ bodies below are that text with bit_at as a section variable. *)
Section Walks.
  Variable compressed : bool.
  Variable wT : N.
  Variable g_bit_at : N -> N -> N -> N -> N -> outcome bool.
  Hypothesis bit_at_ok : forall symbol repr sl level,
    g_bit_at wT symbol repr sl level = wt_bit_at wT compressed symbol repr sl level.

  (* ---------------------------------------------------------------- rank *)
  Definition G_rank_body (bvs : list rswide) (symbol repr symbol_len : N)
    : N -> N * N -> outcome (step (N * N) N) :=
    fun level '(cur_p, cur_i) =>
      let! bit := g_bit_at wT symbol repr symbol_len level in
      let! t1 := idx (map rsw_n_zeros bvs) level in
      let! offset := g_rsw_n_zeros t1 in
      let! t2 := idx (map lvl_data bvs) level in
      let! t3 := idx (map rsw_meta bvs) level in
      let! tmp_p := g_rsw_rank1_unchecked t2 t3 cur_p in
      let! t4 := idx (map lvl_data bvs) level in
      let! t5 := idx (map rsw_meta bvs) level in
      let! tmp_i := g_rsw_rank1_unchecked t4 t5 cur_i in
      let! cur_p := (if bit then
        oadd 64 tmp_p offset
      else
        osub cur_p tmp_p) in
      let! cur_i := (if bit then
        oadd 64 tmp_i offset
      else
        osub cur_i tmp_i) in
      Val (Next (cur_p, cur_i)).

  Lemma rank_loop_sim bvs symbol repr sl : Forall lvl_ok bvs ->
    forall n level cur_p cur_i p' i', cur_p < 2 ^ 64 -> cur_i < 2 ^ 64 ->
    wt_rank_walk wT compressed bvs symbol repr sl cur_p cur_i level n = Val (p', i') ->
    for_loop (G_rank_body bvs symbol repr sl) level n (cur_p, cur_i) = Val (Done (p', i')).
  Proof.
    intros HF. induction n as [|n IH]; intros level cur_p cur_i p' i' Hp Hi.
    - cbn [wt_rank_walk for_loop]. intros E. apply Val_inj in E. injection E as <- <-. reflexivity.
    - cbn [wt_rank_walk for_loop]. unfold G_rank_body at 1. cbv beta iota zeta.
      rewrite bit_at_ok.
      destruct (wt_bit_at wT compressed symbol repr sl level) as [bit|]; cbn [bind]; [|discriminate].
      rewrite !idx_map.
      destruct (idx bvs level) as [bv|] eqn:Ebv; cbn [bind]; [|discriminate].
      pose proof (idx_Forall _ _ _ _ HF Ebv) as Hbv. pose proof Hbv as (HM & H8 & HW & Hz).
      unfold g_rsw_n_zeros. cbn [bind]. unfold lvl_data.
      rewrite !g_rsw_rank1_unchecked_ok by assumption.
      destruct (rsw_rank1_unchecked bv cur_p) as [tp|] eqn:Etp; cbn [bind]; [|discriminate].
      destruct (rsw_rank1_unchecked bv cur_i) as [ti|] eqn:Eti; cbn [bind]; [|discriminate].
      pose proof (rsw_rank1_unchecked_lt _ _ _ Hbv Etp) as Htp.
      pose proof (rsw_rank1_unchecked_lt _ _ _ Hbv Eti) as Hti.
      rewrite p45 in Htp, Hti. rewrite p63 in Hz. unfold rsw_n_zeros_q.
      destruct bit.
      + cbn [bind]. rewrite !oadd_small by (rewrite p64; lia). cbn [bind].
        apply IH; rewrite p64; lia.
      + destruct (osub cur_p tp) as [cp|] eqn:Ecp; cbn [bind]; [|discriminate].
        destruct (osub cur_i ti) as [ci|] eqn:Eci; cbn [bind]; [|discriminate].
        apply osub_Val in Ecp. apply osub_Val in Eci. apply IH; lia.
  Qed.

  (* ---------------------------------------------------------------- select *)
  Definition G_down_body (bvs : list rswide) (symbol repr symbol_len : N)
    : N -> list N * N * list N -> outcome (step (list N * N * list N) (option N)) :=
    fun level '(path_off, b, rank_path_off) =>
            let path_off := path_off ++ [b] in
            let! bit := g_bit_at wT symbol repr symbol_len level in
            let! t8 := (if bit then
              let! t2 := idx (map lvl_data bvs) level in
              let! t3 := idx (map lvl_nbits bvs) level in
              let! t4 := idx (map rsw_meta bvs) level in
              g_rsw_rank1 t2 t3 t4 b
            else
              let! t5 := idx (map lvl_data bvs) level in
              let! t6 := idx (map lvl_nbits bvs) level in
              let! t7 := idx (map rsw_meta bvs) level in
              g_rsw_rank0 t5 t6 t7 b) in
            match t8 with
            | None => Val (Ret None)
            | Some t9 =>
              let rank_b := t9 in
              let! t11 := (if bit then
                let! t10 := idx (map rsw_n_zeros bvs) level in
                g_rsw_n_zeros t10
              else
                Val 0) in
              let! b := oadd 64 rank_b t11 in
              let rank_path_off := rank_path_off ++ [rank_b] in
              Val (Next (path_off, b, rank_path_off))
            end.

  Definition G_up_body (fuel : nat) (bvs : list rswide) (symbol repr symbol_len : N) (path_off rank_path_off : list N)
    : N -> N * N -> outcome (step (N * N) (option N)) :=
    fun level '(b, result) =>
                let! b := idx path_off level in
                let! rank_b := idx rank_path_off level in
                let! bit := g_bit_at wT symbol repr symbol_len level in
                match checked_add 64 rank_b result with
                | None => Val (Ret None)
                | Some t12 =>
                  let k := t12 in
                  let! t22 := (if bit then
                    let! t13 := idx (map lvl_data bvs) level in
                    let! t14 := idx (map lvl_nbits bvs) level in
                    let! t15 := idx (map rsw_meta bvs) level in
                    let! t16 := idx (map lvl_samples bvs) level in
                    let! t17 := idx (map rsw_n_zeros bvs) level in
                    g_rsw_select1 fuel t13 t14 t15 t16 t17 k
                  else
                    let! t18 := idx (map lvl_data bvs) level in
                    let! t19 := idx (map rsw_meta bvs) level in
                    let! t20 := idx (map lvl_samples bvs) level in
                    let! t21 := idx (map rsw_n_zeros bvs) level in
                    g_rsw_select0 fuel t18 t19 t20 t21 k) in
                  match t22 with
                  | None => Val (Ret None)
                  | Some t23 =>
                    let! result := osub t23 b in
                    Val (Next (b, result))
                  end
                end.

  Lemma down_loop_sim bvs symbol repr sl : Forall lvl_ok bvs ->
    forall n level b po rpo v, b < 2 ^ 64 ->
    wt_select_down wT compressed bvs symbol repr sl b level n = Val v ->
    exists r, for_loop (G_down_body bvs symbol repr sl) level n (po, b, rpo) = Val r /\
    match v with
    | None => r = Retd None
    | Some P => length P = n /\ exists b', r = Done (po ++ map fst P, b', rpo ++ map snd P)
    end.
  Proof.
    intros HF. induction n as [|n IH]; intros level b po rpo v Hb.
    - cbn [wt_select_down for_loop]. intros E. apply Val_inj in E. subst v.
      eexists. split; [reflexivity|]. split; [reflexivity|].
      exists b. cbn [map]. now rewrite !app_nil_r.
    - cbn [wt_select_down for_loop]. unfold G_down_body at 1. cbv beta iota zeta.
      rewrite bit_at_ok.
      destruct (wt_bit_at wT compressed symbol repr sl level) as [bit|]; cbn [bind]; [|discriminate].
      rewrite !idx_map.
      destruct (idx bvs level) as [bv|] eqn:Ebv; cbn [bind]; [|discriminate].
      pose proof (idx_Forall _ _ _ _ HF Ebv) as Hbv. pose proof Hbv as (HM & H8 & HW & Hz).
      rewrite p63 in Hz. unfold lvl_data, lvl_nbits.
      assert (Hrank : (if bit
                       then g_rsw_rank1 (chunks 8 (bv_words (rsw_bv bv))) (bv_nbits (rsw_bv bv)) (rsw_meta bv) b
                       else g_rsw_rank0 (chunks 8 (bv_words (rsw_bv bv))) (bv_nbits (rsw_bv bv)) (rsw_meta bv) b)
                      = (if bit then rsw_rank1 bv b else rsw_rank0 bv b)).
      { destruct bit; cbn [bind]; [apply g_rsw_rank1_ok|apply g_rsw_rank0_ok]; assumption. }
      rewrite Hrank. clear Hrank.
      destruct (if bit then rsw_rank1 bv b else rsw_rank0 bv b) as [[rank_b|]|] eqn:Er; cbn [bind];
        [| |discriminate].
      + assert (Hsum : rank_b + (if bit then rsw_n_zeros_q bv else 0) < 2 ^ 64).
        { unfold rsw_n_zeros_q. destruct bit.
          - apply (rsw_rank1_lt _ _ _ Hbv) in Er. rewrite p45 in Er. rewrite p64. lia.
          - apply rsw_rank0_le in Er. lia. }
        assert (Ht11 : (if bit then g_rsw_n_zeros (rsw_n_zeros bv) else Val 0)
                       = Val (if bit then rsw_n_zeros_q bv else 0)).
        { destruct bit; reflexivity. }
        rewrite Ht11. cbn [bind]. rewrite oadd_small by exact Hsum. cbn [bind].
        destruct (wt_select_down wT compressed bvs symbol repr sl (rank_b + (if bit then rsw_n_zeros_q bv else 0))
                    (level + 1) n) as [rest|] eqn:Erest; cbn [bind]; [|discriminate].
        destruct (IH (level + 1) _ (po ++ [b]) (rpo ++ [rank_b]) rest Hsum Erest) as (r & Hr & Hm).
        intros E. exists r. split; [exact Hr|].
        destruct rest as [l|]; apply Val_inj in E; subst v.
        * destruct Hm as (Hlen & b' & ->). split; [cbn [length]; now rewrite Hlen|].
          exists b'. cbn [map fst snd]. now rewrite <- !app_assoc.
        * exact Hm.
      + intros E. apply Val_inj in E. subst v. eexists. split; reflexivity.
  Qed.

  Lemma mpath_app' P1 : forall P2 lvl, mpath (P1 ++ P2) lvl = mpath P1 lvl ++ mpath P2 (lvl + len P1).
  Proof.
    induction P1 as [|[b rb] P1 IH]; intros P2 lvl.
    - cbn [app]. rewrite len_nil, N.add_0_r. reflexivity.
    - cbn [app]. rewrite !mpath_cons, IH, len_cons. cbn [app]. do 3 f_equal. lia.
  Qed.

  Lemma idx_mid' {A B} (f : A -> B) (X : list A) x Y : idx (map f (X ++ x :: Y)) (len X) = Val (f x).
  Proof.
    rewrite idx_map. unfold idx. rewrite nthN_app2 by lia. rewrite N.sub_diag, nthN_0. reflexivity.
  Qed.

  Lemma up_loop_sim fuel bvs symbol repr sl : Forall (lvl_sel_ok fuel) bvs ->
    forall P1 P2 result b0 v,
    wt_select_up wT compressed bvs symbol repr sl result (rev (mpath P1 0)) = Val v ->
    exists r,
      for_loop_rev (G_up_body fuel bvs symbol repr sl (map fst (P1 ++ P2)) (map snd (P1 ++ P2)))
        (len P1) (length P1) (b0, result) = Val r /\
      match v with
      | None => r = Retd None
      | Some x => exists b', r = Done (b', x)
      end.
  Proof.
    intros HF. induction P1 as [|[b rb] P1 IH] using rev_ind; intros P2 result b0 v.
    - cbn [mpath number_levels map rev wt_select_up length for_loop_rev]. intros E. apply Val_inj in E. subst v.
      eexists. split; [reflexivity|]. exists b0. reflexivity.
    - rewrite mpath_app', rev_app_distr, mpath_cons. cbn [mpath number_levels map rev app].
      rewrite N.add_0_l. rewrite <- app_assoc. cbn [app].
      rewrite ?len_app, ?len_cons, ?len_nil, ?N.add_0_l.
      rewrite app_length. cbn [length]. rewrite Nat.add_1_r.
      cbn [wt_select_up for_loop_rev]. replace (len P1 + 1 - 1) with (len P1) by lia.
      unfold G_up_body at 1. cbv beta iota zeta. rewrite !idx_mid'. cbn [bind fst snd].
      rewrite bit_at_ok.
      destruct (wt_bit_at wT compressed symbol repr sl (len P1)) as [bit|]; cbn [bind]; [|discriminate].
      destruct (idx bvs (len P1)) as [bv|] eqn:Ebv; cbn [bind]; [|discriminate].
      pose proof (idx_Forall _ _ _ _ HF Ebv) as ((HM & H8 & HW & Hz) & HS0 & HS1 & Hfuel).
      unfold checked_add.
      destruct (N.leb_spec (2 ^ 64) (rb + result)) as [Hov|Hov], (N.ltb_spec (rb + result) (2 ^ 64)) as [Hov'|Hov'];
        try lia.
      + intros E. apply Val_inj in E. subst v. eexists. split; reflexivity.
      + rewrite !idx_map. rewrite Ebv. cbn [bind]. unfold lvl_data, lvl_nbits, lvl_samples.
        destruct (if bit then rsw_select1 bv (rb + result) else rsw_select0 bv (rb + result)) as [s|] eqn:Es;
          cbn [bind]; [|discriminate].
        assert (Hsel : (if bit
                        then g_rsw_select1 fuel (chunks 8 (bv_words (rsw_bv bv))) (bv_nbits (rsw_bv bv)) (rsw_meta bv)
                               [rsw_samples0 bv; rsw_samples1 bv] (rsw_n_zeros bv) (rb + result)
                        else g_rsw_select0 fuel (chunks 8 (bv_words (rsw_bv bv))) (rsw_meta bv)
                               [rsw_samples0 bv; rsw_samples1 bv] (rsw_n_zeros bv) (rb + result)) = Val s).
        { destruct bit; [apply g_rsw_select1_sim|apply g_rsw_select0_sim]; assumption. }
        rewrite Hsel. cbn [bind]. clear Hsel.
        destruct s as [p|].
        * destruct (osub p b) as [r'|] eqn:Er'; cbn [bind]; [|discriminate].
          intros E. apply (IH ((b, rb) :: P2) r' b v). exact E.
        * intros E. apply Val_inj in E. subst v. eexists. split; reflexivity.
  Qed.

  (* the part of select after the validity tests *)
  Lemma select_tail_sim fuel bvs symbol repr sl i v : Forall (lvl_sel_ok fuel) bvs ->
    (let! down := wt_select_down wT compressed bvs symbol repr sl 0 0 (N.to_nat sl) in
     match down with
     | None => Val None
     | Some path =>
         let numbered := map (fun '(lv, (b, rb)) => (lv, b, rb)) (number_levels path 0) in
         wt_select_up wT compressed bvs symbol repr sl i (rev numbered)
     end) = Val v ->
    (let! r := for_loop (G_down_body bvs symbol repr sl) 0 (N.to_nat (sl - 0)) ([], 0, []) in
     match r with
     | Retd v => Val v
     | Done (path_off, b, rank_path_off) =>
         let! r := for_loop_rev (G_up_body fuel bvs symbol repr sl path_off rank_path_off) sl (N.to_nat (sl - 0)) (b, i) in
         match r with
         | Retd v => Val v
         | Done (b, result) => Val (Some result)
         end
     end) = Val v.
  Proof.
    intros HF.
    destruct (wt_select_down wT compressed bvs symbol repr sl 0 0 (N.to_nat sl)) as [down|] eqn:Ed;
      cbn [bind]; [|discriminate].
    assert (H0 : 0 < 2 ^ 64) by (rewrite p64; lia).
    destruct (down_loop_sim bvs symbol repr sl (lvl_sel_rank _ _ HF) _ _ _ [] [] _ H0 Ed) as (r & Hr & Hm).
    rewrite N.sub_0_r. rewrite Hr. cbn [bind]. clear Hr.
    destruct down as [path|].
    - destruct Hm as (Hlen & b' & ->). cbn [app]. cbv zeta.
      change (map (fun '(lv, (b, rb)) => (lv, b, rb)) (number_levels path 0)) with (mpath path 0).
      intros Eu.
      assert (Hsl : sl = len path) by (unfold len; rewrite Hlen; lia).
      destruct (up_loop_sim fuel bvs symbol repr sl HF path [] i b' v Eu) as (r & Hr & Hm).
      rewrite app_nil_r, <- Hsl, Hlen in Hr. rewrite Hr. cbn [bind]. clear Hr.
      destruct v as [x|].
      + destruct Hm as (b'' & ->). reflexivity.
      + subst r. reflexivity.
    - subst r. trivial.
  Qed.
End Walks.

(* ================================================================== rank: the two instances *)
Lemma len_map_ {A B} (f : A -> B) l : len (map f l) = len l.
Proof. unfold len. now rewrite map_length. Qed.

Theorem g_wt_rank_unchecked_sim : forall wT t symbol i v,
  Forall lvl_ok (w_bvs t) -> i < 2 ^ 64 ->
  wt_rank_unchecked wT false t symbol i = Val v ->
  g_wt_rank_unchecked wT (w_n_levels t) (wt_data t) (wt_meta t) (wt_nzeros t) symbol i = Val v.
Proof.
  intros wT t symbol i v HF Hi. unfold wt_rank_unchecked, g_wt_rank_unchecked. cbn [bind]. cbv zeta.
  destruct (wt_rank_walk wT false (w_bvs t) symbol 0 (w_n_levels t) 0 i 0 (N.to_nat (w_n_levels t)))
    as [[cp ci]|] eqn:Ew; cbn [bind]; [|discriminate].
  assert (H0 : 0 < 2 ^ 64) by (rewrite p64; lia).
  pose proof (rank_loop_sim false wT g_wt_bit_at (g_wt_bit_at_ok wT) (w_bvs t) symbol 0 (w_n_levels t) HF
                _ _ _ _ _ _ H0 Hi Ew) as Hloop.
  rewrite N.sub_0_r. unfold G_rank_body in Hloop. unfold wt_data, wt_meta, wt_nzeros. rewrite Hloop.
  cbn [bind]. trivial.
Qed.

Theorem g_wt_rank_sim : forall wT t symbol i v,
  Forall lvl_ok (w_bvs t) -> i < 2 ^ 64 ->
  wt_rank wT false t symbol i = Val v ->
  g_wt_rank wT (w_n t) (w_n_levels t) (w_sigma t) (wt_data t) (wt_meta t) (wt_nzeros t) symbol i = Val v.
Proof.
  intros wT t symbol i v HF Hi. unfold wt_rank, g_wt_rank, wt_valid.
  destruct ((w_n t =? 0) || (w_n t <? i)); [trivial|].
  destruct (w_sigma t) as [sg|]; cbn [ounwrap bind]; [|discriminate].
  destruct (sg <? symbol); cbn [bind]; [trivial|].
  destruct (wt_rank_unchecked wT false t symbol i) as [x|] eqn:Ex; cbn [bind]; [|discriminate].
  intros E. rewrite (g_wt_rank_unchecked_sim wT t symbol i x HF Hi Ex). exact E.
Qed.

(* has_code: `symbol.as_() as usize` converted back to T equals symbol iff it fits a usize *)
Lemma sym_back wT symbol : symbol < 2 ^ wT ->
  ((symbol mod 2 ^ 64) mod 2 ^ wT =? symbol) = (symbol mod 2 ^ 64 =? symbol).
Proof.
  intros H. destruct (N.le_gt_cases wT 64) as [Hw|Hw].
  - assert (H2 : 2 ^ wT <= 2 ^ 64) by (apply N.pow_le_mono_r; lia).
    rewrite (N.mod_small symbol (2 ^ 64)) by lia. rewrite N.mod_small by lia. reflexivity.
  - assert (H2 : 2 ^ 64 <= 2 ^ wT) by (apply N.pow_le_mono_r; lia).
    assert (H3 : symbol mod 2 ^ 64 < 2 ^ 64) by (apply N.mod_upper_bound; rewrite p64; lia).
    rewrite (N.mod_small (symbol mod 2 ^ 64)) by lia. reflexivity.
Qed.

Theorem g_hwt_has_code_ok : forall wT t symbol, symbol < 2 ^ wT ->
  g_hwt_has_code wT (wt_enc_content t) (wt_enc_len t) symbol =
  (let! v := wt_valid true t symbol in Val (match v with Some _ => true | None => false end)).
Proof.
  intros wT t symbol Hs. unfold g_hwt_has_code, wt_valid, wt_enc_content, wt_enc_len, sym_index. cbv zeta.
  destruct (w_codes t) as [codes|]; cbn [option_map ounwrap bind]; [|reflexivity].
  rewrite (sym_back wT symbol Hs). rewrite len_map_.
  destruct (N.eqb_spec (symbol mod 2 ^ 64) symbol) as [E|E]; cbn [negb andb orb]; [|reflexivity].
  destruct (N.ltb_spec (symbol mod 2 ^ 64) (len codes)), (N.leb_spec (len codes) (symbol mod 2 ^ 64)); try lia;
    cbn [bind]; [|reflexivity].
  rewrite idx_map. destruct (idx codes (symbol mod 2 ^ 64)) as [c|]; cbn [bind]; [|reflexivity].
  destruct (pc_len c =? 0); reflexivity.
Qed.

Theorem g_hwt_rank_unchecked_sim : forall wT t symbol i v,
  Forall lvl_ok (w_bvs t) -> i < 2 ^ 64 ->
  wt_rank_unchecked wT true t symbol i = Val v ->
  g_hwt_rank_unchecked wT (wt_enc_content t) (wt_enc_len t) (wt_data t) (wt_meta t) (wt_nzeros t) symbol i = Val v.
Proof.
  intros wT t symbol i v HF Hi. unfold wt_rank_unchecked, g_hwt_rank_unchecked, wt_enc_content, wt_enc_len, sym_index.
  cbv zeta.
  destruct (w_codes t) as [codes|]; cbn [option_map ounwrap bind]; [|discriminate].
  rewrite !idx_map.
  destruct (idx codes (symbol mod 2 ^ 64)) as [c|] eqn:Ec; cbn [bind]; [|discriminate].
  destruct (wt_rank_walk wT true (w_bvs t) symbol (pc_content c) (pc_len c) 0 i 0 (N.to_nat (pc_len c)))
    as [[cp ci]|] eqn:Ew; cbn [bind]; [|discriminate].
  assert (H0 : 0 < 2 ^ 64) by (rewrite p64; lia).
  pose proof (rank_loop_sim true wT g_hwt_bit_at (g_hwt_bit_at_ok wT) (w_bvs t) symbol (pc_content c) (pc_len c) HF
                _ _ _ _ _ _ H0 Hi Ew) as Hloop.
  rewrite N.sub_0_r. unfold G_rank_body in Hloop. unfold wt_data, wt_meta, wt_nzeros. rewrite Hloop.
  cbn [bind]. trivial.
Qed.

Theorem g_hwt_rank_sim : forall wT t symbol i v,
  Forall lvl_ok (w_bvs t) -> i < 2 ^ 64 -> symbol < 2 ^ wT ->
  wt_rank wT true t symbol i = Val v ->
  g_hwt_rank wT (w_n t) (wt_enc_content t) (wt_enc_len t) (wt_data t) (wt_meta t) (wt_nzeros t) symbol i = Val v.
Proof.
  intros wT t symbol i v HF Hi Hs. unfold wt_rank, g_hwt_rank.
  destruct ((w_n t =? 0) || (w_n t <? i)); [trivial|].
  rewrite (g_hwt_has_code_ok wT t symbol Hs).
  destruct (wt_valid true t symbol) as [[rl|]|]; cbn [bind negb]; [| trivial |discriminate].
  destruct (wt_rank_unchecked wT true t symbol i) as [x|] eqn:Ex; cbn [bind]; [|discriminate].
  intros E. rewrite (g_hwt_rank_unchecked_sim wT t symbol i x HF Hi Ex). exact E.
Qed.

(* ================================================================== select: the two instances *)
Theorem g_wt_select_sim : forall fuel wT t symbol i v,
  Forall (lvl_sel_ok fuel) (w_bvs t) ->
  wt_select wT false t symbol i = Val v ->
  g_wt_select fuel wT (w_n t) (w_n_levels t) (w_sigma t) (wt_data t) (wt_nbits t) (wt_meta t) (wt_samples t)
    (wt_nzeros t) symbol i = Val v.
Proof.
  intros fuel wT t symbol i v HF. unfold wt_select, g_wt_select, wt_valid.
  destruct (w_n t =? 0); [trivial|].
  destruct (w_sigma t) as [sg|]; cbn [ounwrap bind]; [|discriminate].
  destruct (sg <? symbol); cbn [bind]; [trivial|].
  intros E.
  exact (select_tail_sim false wT g_wt_bit_at (g_wt_bit_at_ok wT) fuel (w_bvs t) symbol 0 (w_n_levels t) i v HF E).
Qed.

Theorem g_wt_select_unchecked_sim : forall fuel wT t symbol i v,
  Forall (lvl_sel_ok fuel) (w_bvs t) ->
  wt_select_unchecked wT false t symbol i = Val v ->
  g_wt_select_unchecked fuel wT (w_n t) (w_n_levels t) (w_sigma t) (wt_data t) (wt_nbits t) (wt_meta t) (wt_samples t)
    (wt_nzeros t) symbol i = Val v.
Proof.
  intros fuel wT t symbol i v HF. unfold wt_select_unchecked, g_wt_select_unchecked.
  destruct (wt_select wT false t symbol i) as [s|] eqn:Es; cbn [bind]; [|discriminate].
  rewrite (g_wt_select_sim fuel wT t symbol i s HF Es). cbn [bind]. trivial.
Qed.

Theorem g_hwt_select_sim : forall fuel wT t symbol i v,
  Forall (lvl_sel_ok fuel) (w_bvs t) -> symbol < 2 ^ wT ->
  wt_select wT true t symbol i = Val v ->
  g_hwt_select fuel wT (w_n t) (wt_enc_content t) (wt_enc_len t) (wt_data t) (wt_nbits t) (wt_meta t) (wt_samples t)
    (wt_nzeros t) symbol i = Val v.
Proof.
  intros fuel wT t symbol i v HF Hs. unfold wt_select, g_hwt_select.
  destruct (w_n t =? 0); [trivial|].
  rewrite (g_hwt_has_code_ok wT t symbol Hs).
  destruct (wt_valid true t symbol) as [[[repr sl]|]|] eqn:Ev; cbn [bind negb]; [| trivial |discriminate].
  (* the code found by wt_valid is the table entry *)
  unfold wt_valid in Ev. unfold wt_enc_content, wt_enc_len. unfold sym_index in Ev.
  destruct (w_codes t) as [codes|]; cbn [option_map ounwrap bind] in Ev |- *; [|discriminate].
  destruct (negb (symbol mod 2 ^ 64 =? symbol) || (len codes <=? symbol mod 2 ^ 64)); [discriminate|].
  rewrite !idx_map.
  destruct (idx codes (symbol mod 2 ^ 64)) as [c|]; cbn [bind] in Ev |- *; [|discriminate].
  destruct (pc_len c =? 0); [discriminate|]. apply Val_inj in Ev. injection Ev as <- <-.
  intros E.
  exact (select_tail_sim true wT g_hwt_bit_at (g_hwt_bit_at_ok wT) fuel (w_bvs t) symbol (pc_content c) (pc_len c)
           i v HF E).
Qed.

Theorem g_hwt_select_unchecked_sim : forall fuel wT t symbol i v,
  Forall (lvl_sel_ok fuel) (w_bvs t) -> symbol < 2 ^ wT ->
  wt_select_unchecked wT true t symbol i = Val v ->
  g_hwt_select_unchecked fuel wT (w_n t) (wt_enc_content t) (wt_enc_len t) (wt_data t) (wt_nbits t) (wt_meta t)
    (wt_samples t) (wt_nzeros t) symbol i = Val v.
Proof.
  intros fuel wT t symbol i v HF Hs. unfold wt_select_unchecked, g_hwt_select_unchecked.
  destruct (wt_select wT true t symbol i) as [s|] eqn:Es; cbn [bind]; [|discriminate].
  rewrite (g_hwt_select_sim fuel wT t symbol i s HF Hs Es). cbn [bind]. trivial.
Qed.

(* ================================================================== get: the plain tree *)
Definition G_get_body (wT : N) (bvs : list rswide) : N -> N * N * N -> outcome (step (N * N * N) N) :=
  fun level '(result_t, cur_i, shift) =>
      if false then
        Val (Brk (result_t, cur_i, shift))
      else
        let! t1 := idx (map lvl_data bvs) level in
        let! symbol := g_rsw_get_unchecked t1 cur_i in
        let! t2 := oshl wT result_t 1 in
        let result_t := N.lor t2 ((if symbol then 1 else 0) mod 2 ^ wT) in
        let! t3 := idx (map lvl_data bvs) level in
        let! t4 := idx (map rsw_meta bvs) level in
        let! tmp := g_rsw_rank1_unchecked t3 t4 cur_i in
        let! cur_i := (if symbol then
          let! t5 := idx (map rsw_n_zeros bvs) level in
          let! t6 := g_rsw_n_zeros t5 in
          oadd 64 tmp t6
        else
          osub cur_i tmp) in
        let! shift := oadd 64 shift 1 in
        Val (Next (result_t, cur_i, shift)).

Lemma bit_mod_small wT (b : bool) : 1 < wT -> (if b then 1 else 0) mod 2 ^ wT = (if b then 1 else 0).
Proof.
  intros Hw. apply N.mod_small. assert (H : 2 ^ 1 < 2 ^ wT) by (apply N.pow_lt_mono_r; lia).
  change (2 ^ 1) with 2 in H. destruct b; lia.
Qed.

Lemma get_loop_sim wT t : 1 < wT -> Forall lvl_ok (w_bvs t) ->
  forall n level cur_i result result_t shift res' rt' sh', cur_i < 2 ^ 64 -> shift + N.of_nat n < 2 ^ 64 ->
  wt_get_walk false t cur_i result result_t shift level wT n = Val (res', rt', sh') ->
  exists i', for_loop (G_get_body wT (w_bvs t)) level n (result_t, cur_i, shift) = Val (Done (rt', i', sh')).
Proof.
  intros HwT HF. induction n as [|n IH]; intros level cur_i result result_t shift res' rt' sh' Hi Hsh.
  - cbn [wt_get_walk for_loop]. intros E. apply Val_inj in E. injection E as <- <- <-. eexists. reflexivity.
  - cbn [wt_get_walk for_loop bind]. unfold G_get_body at 1. cbv beta iota zeta.
    rewrite !idx_map.
    destruct (idx (w_bvs t) level) as [bv|] eqn:Ebv; cbn [bind]; [|discriminate].
    pose proof (idx_Forall _ _ _ _ HF Ebv) as Hbv. pose proof Hbv as (HM & H8 & HW & Hz). rewrite p63 in Hz.
    unfold lvl_data. rewrite g_rsw_get_unchecked_ok.
    destruct (rsw_get_unchecked bv cur_i) as [sym|]; cbn [bind]; [|discriminate].
    unfold oshl. destruct (N.ltb_spec 1 wT); [|lia]. cbn [bind].
    rewrite (bit_mod_small wT sym HwT).
    rewrite g_rsw_rank1_unchecked_ok by assumption.
    destruct (rsw_rank1_unchecked bv cur_i) as [tmp|] eqn:Etmp; cbn [bind]; [|discriminate].
    pose proof (rsw_rank1_unchecked_lt _ _ _ Hbv Etmp) as Htmp. rewrite p45 in Htmp.
    unfold g_rsw_n_zeros, rsw_n_zeros_q. cbn [bind].
    destruct sym.
    + rewrite oadd_small by (rewrite p64; lia). cbn [bind].
      rewrite (oadd_small 64 shift 1) by lia. cbn [bind].
      apply IH; [rewrite p64|]; lia.
    + destruct (osub cur_i tmp) as [ci|] eqn:Eci; cbn [bind]; [|discriminate]. apply osub_Val in Eci.
      rewrite (oadd_small 64 shift 1) by lia. cbn [bind].
      apply IH; lia.
Qed.

Theorem g_wt_get_unchecked_sim : forall wT t i v, 1 < wT ->
  Forall lvl_ok (w_bvs t) -> w_n_levels t < 2 ^ 64 -> i < 2 ^ 64 ->
  wt_get_unchecked wT false t i = Val v ->
  g_wt_get_unchecked wT (w_n_levels t) (wt_data t) (wt_meta t) (wt_nzeros t) i = Val v.
Proof.
  intros wT t i v HwT HF Hnl Hi. unfold wt_get_unchecked, g_wt_get_unchecked. cbv zeta.
  destruct (wt_get_walk false t i 0 0 0 0 wT (N.to_nat (w_n_levels t))) as [[[res' rt'] sh']|] eqn:Ew;
    cbn [bind]; [|discriminate].
  destruct (get_loop_sim wT t HwT HF (N.to_nat (w_n_levels t)) 0 i 0 0 0 res' rt' sh' Hi ltac:(lia) Ew) as (i' & Hloop).
  rewrite N.sub_0_r. unfold G_get_body in Hloop. unfold wt_data, wt_meta, wt_nzeros. rewrite Hloop.
  cbn [bind]. trivial.
Qed.

Theorem g_wt_get_sim : forall wT t i v, 1 < wT ->
  Forall lvl_ok (w_bvs t) -> w_n_levels t < 2 ^ 64 -> i < 2 ^ 64 ->
  wt_get wT false t i = Val v ->
  g_wt_get wT (w_n t) (w_n_levels t) (wt_data t) (wt_meta t) (wt_nzeros t) i = Val v.
Proof.
  intros wT t i v HwT HF Hnl Hi. unfold wt_get, g_wt_get.
  destruct (w_n t <=? i); [trivial|].
  destruct (wt_get_unchecked wT false t i) as [x|] eqn:Ex; cbn [bind]; [|discriminate].
  intros E. rewrite (g_wt_get_unchecked_sim wT t i x HwT HF Hnl Hi Ex). exact E.
Qed.

(* ================================================================== get: the Huffman-shaped tree *)
Definition G_hget_body (bvs : list rswide) (lens : list N) : N -> N * N * N -> outcome (step (N * N * N) N) :=
  fun level '(result, cur_i, shift) =>
      let! t1 := idx lens level in
      if N.leb t1 cur_i then
        Val (Brk (result, cur_i, shift))
      else
        let! t2 := idx (map lvl_data bvs) level in
        let! symbol := g_rsw_get_unchecked t2 cur_i in
        let result := N.lor (N.shiftl result 1 mod 2 ^ 32) (if symbol then 1 else 0) in
        let! t3 := idx (map lvl_data bvs) level in
        let! t4 := idx (map rsw_meta bvs) level in
        let! tmp := g_rsw_rank1_unchecked t3 t4 cur_i in
        let! cur_i := (if symbol then
          let! t5 := idx (map rsw_n_zeros bvs) level in
          let! t6 := g_rsw_n_zeros t5 in
          oadd 64 tmp t6
        else
          osub cur_i tmp) in
        let! shift := oadd 64 shift 1 in
        Val (Next (result, cur_i, shift)).

Lemma hget_loop_sim wT t : Forall lvl_ok (w_bvs t) ->
  forall n level cur_i result result_t shift res' rt' sh', cur_i < 2 ^ 64 -> shift + N.of_nat n < 2 ^ 64 ->
  wt_get_walk true t cur_i result result_t shift level wT n = Val (res', rt', sh') ->
  exists i', for_loop (G_hget_body (w_bvs t) (w_lens t)) level n (result, cur_i, shift) = Val (Done (res', i', sh')).
Proof.
  intros HF. induction n as [|n IH]; intros level cur_i result result_t shift res' rt' sh' Hi Hsh.
  - cbn [wt_get_walk for_loop]. intros E. apply Val_inj in E. injection E as <- <- <-. eexists. reflexivity.
  - cbn [wt_get_walk for_loop]. unfold G_hget_body at 1. cbv beta iota zeta.
    destruct (idx (w_lens t) level) as [ln|]; cbn [bind]; [|discriminate].
    destruct (ln <=? cur_i).
    { intros E. apply Val_inj in E. injection E as <- <- <-. eexists. reflexivity. }
    rewrite !idx_map.
    destruct (idx (w_bvs t) level) as [bv|] eqn:Ebv; cbn [bind]; [|discriminate].
    pose proof (idx_Forall _ _ _ _ HF Ebv) as Hbv. pose proof Hbv as (HM & H8 & HW & Hz). rewrite p63 in Hz.
    unfold lvl_data. rewrite g_rsw_get_unchecked_ok.
    destruct (rsw_get_unchecked bv cur_i) as [sym|]; cbn [bind]; [|discriminate].
    rewrite g_rsw_rank1_unchecked_ok by assumption.
    destruct (rsw_rank1_unchecked bv cur_i) as [tmp|] eqn:Etmp; cbn [bind]; [|discriminate].
    pose proof (rsw_rank1_unchecked_lt _ _ _ Hbv Etmp) as Htmp. rewrite p45 in Htmp.
    unfold g_rsw_n_zeros, rsw_n_zeros_q. cbn [bind].
    destruct sym.
    + rewrite oadd_small by (rewrite p64; lia). cbn [bind].
      rewrite (oadd_small 64 shift 1) by lia. cbn [bind].
      apply IH; [rewrite p64|]; lia.
    + destruct (osub cur_i tmp) as [ci|] eqn:Eci; cbn [bind]; [|discriminate]. apply osub_Val in Eci.
      rewrite (oadd_small 64 shift 1) by lia. cbn [bind].
      apply IH; lia.
Qed.

(* binary_search_by_key on the decode table = the hand model's first match *)
Lemma find_fst_of_find (key : N) : forall (tab : list (N * N)) j p,
  find (fun p => fst p =? key) tab = Some p ->
  exists i, find_fst tab key j = Some (j + i) /\ nthN tab i = Some p.
Proof.
  induction tab as [|[x y] tab IH]; intros j p; cbn [find find_fst fst]; [discriminate|].
  destruct (x =? key).
  - intros E. injection E as <-. exists 0. split; [now rewrite N.add_0_r|apply nthN_0].
  - intros E. destruct (IH (j + 1) p E) as (i & Hi & Hn). exists (i + 1). split.
    + rewrite Hi. f_equal. lia.
    + rewrite nthN_succ. exact Hn.
Qed.

Theorem g_hwt_get_unchecked_sim : forall wT t i v,
  Forall lvl_ok (w_bvs t) -> w_n_levels t < 2 ^ 64 -> i < 2 ^ 64 ->
  wt_get_unchecked wT true t i = Val v ->
  g_hwt_get_unchecked wT (w_n_levels t) (w_decode t) (wt_data t) (wt_meta t) (wt_nzeros t) (w_lens t) i = Val v.
Proof.
  intros wT t i v HF Hnl Hi. unfold wt_get_unchecked, g_hwt_get_unchecked. cbv zeta.
  destruct (wt_get_walk true t i 0 0 0 0 wT (N.to_nat (w_n_levels t))) as [[[res' rt'] sh']|] eqn:Ew;
    cbn [bind]; [|discriminate].
  destruct (hget_loop_sim wT t HF (N.to_nat (w_n_levels t)) 0 i 0 0 0 res' rt' sh' Hi ltac:(lia) Ew) as (i' & Hloop).
  rewrite N.sub_0_r. unfold G_hget_body in Hloop. unfold wt_data, wt_meta, wt_nzeros. rewrite Hloop.
  cbn [bind]. clear Hloop.
  destruct (w_decode t) as [dec|]; cbn [ounwrap bind]; [|discriminate].
  destruct (idx dec sh') as [tab|] eqn:Et; cbn [bind]; [|discriminate].
  unfold table_lookup. destruct (find (fun p => fst p =? res') tab) as [p|] eqn:Ef; cbn [bind]; [|discriminate].
  destruct (snd p <? 2 ^ wT); [|discriminate]. intros E. apply Val_inj in E. subst v.
  destruct (find_fst_of_find res' tab 0 p Ef) as (j & Hj & Hn). rewrite N.add_0_l in Hj.
  unfold obsearch_fst. rewrite Hj. cbn [ounwrap bind]. unfold idx. rewrite Hn. reflexivity.
Qed.

Theorem g_hwt_get_sim : forall wT t i v,
  Forall lvl_ok (w_bvs t) -> w_n_levels t < 2 ^ 64 -> i < 2 ^ 64 ->
  wt_get wT true t i = Val v ->
  g_hwt_get wT (w_n t) (w_n_levels t) (w_decode t) (wt_data t) (wt_meta t) (wt_nzeros t) (w_lens t) i = Val v.
Proof.
  intros wT t i v HF Hnl Hi. unfold wt_get, g_hwt_get.
  destruct (w_n t <=? i); [trivial|].
  destruct (wt_get_unchecked wT true t i) as [x|] eqn:Ex; cbn [bind]; [|discriminate].
  intros E. rewrite (g_hwt_get_unchecked_sim wT t i x HF Hnl Hi Ex). exact E.
Qed.

(* ================================================================== END TO END *)
(* ---- every level wt_build creates is well formed.  A level is `rsw_new bv` for the bit vector
   `bv_from_bools bits` of at most len seq bits (wt_levels, both flavours): the size facts come from
   FnsRsw2Ok.rsw_new_sizes, the metadata length and the number of zeros from RSBinW.rsw_new_ok. *)
Ltac dbind H :=
  match type of H with
  | bind ?x _ = Val _ => let E := fresh "E" in destruct x eqn:E; cbn [bind] in H; [|discriminate H]
  end.

Definition lvl_built (n : N) (r : rswide) : Prop :=
  exists bits bv, len bits <= n /\ bv_from_bools bits = Val bv /\ rsw_new bv = Val r.

Lemma lvl_built_mono n m r : n <= m -> lvl_built n r -> lvl_built m r.
Proof. intros H (bits & bv & Hb & E1 & E2). exists bits, bv. split; [lia|]. split; assumption. Qed.

Lemma wt_levels_built : forall nl w compressed seq codes n_levels shift rs lens,
  wt_levels w compressed seq codes n_levels shift nl = Val (rs, lens) -> Forall (lvl_built (len seq)) rs.
Proof.
  induction nl as [|nl IH]; intros w compressed seq codes n_levels shift rs lens E; cbn [wt_levels] in E.
  - injection E as <- <-. constructor.
  - dbind E. rename a into bs. rename E0 into Ebs. cbv zeta in E.
    pose proof (WrapP.mapo_len _ _ _ Ebs) as Hbs.
    set (bits := flat_map (fun o : option bool => match o with Some d => [d] | None => [] end) bs) in *.
    assert (Hbits : len bits <= len seq) by (unfold bits; pose proof (WrapP.flat_opt_len bs); lia).
    dbind E. rename a into bv. rename E0 into Ebv.
    dbind E. rename a into r. rename E0 into Er.
    dbind E. rename a into seq'. rename E0 into Eseq'.
    dbind E. destruct a as [rest lens']. rename E0 into Erest. injection E as <- <-.
    assert (Hseq' : len seq' <= len seq).
    { destruct compressed.
      - apply (WrapP.part_with_codes_len 2 seq shift codes seq'); [now left|exact Eseq'].
      - dbind Eseq'. exact (WrapP.stable_partition_of_2_len w seq a seq' Eseq'). }
    constructor.
    + exists bits, bv. split; [exact Hbits|]. split; assumption.
    + eapply Forall_impl; [|exact (IH _ _ _ _ _ _ _ _ Erest)]. intros r0. now apply lvl_built_mono.
Qed.

Lemma wt_build_levels_built w compressed seq tab t :
  wt_build w compressed seq tab = Val t -> Forall (lvl_built (len seq)) (w_bvs t).
Proof.
  intros E. destruct seq as [|x0 seq'].
  - cbn [wt_build] in E. injection E as <-. constructor.
  - unfold wt_build in E. cbv beta iota zeta in E. destruct compressed.
    + dbind E. destruct a as [bvs lens]. injection E as <-. cbn [w_bvs].
      exact (wt_levels_built _ _ _ _ _ _ _ _ _ E0).
    + dbind E. destruct a as [bvs lens]. injection E as <-. cbn [w_bvs].
      exact (wt_levels_built _ _ _ _ _ _ _ _ _ E0).
Qed.

Lemma lvl_built_sel_ok n fuel r : n < 2 ^ 43 -> (N.to_nat (n / 4096) + 3 <= fuel)%nat ->
  lvl_built n r -> lvl_sel_ok fuel r.
Proof.
  intros Hn Hf (bits & bv & Hb & Ebv & Er). rewrite p43 in Hn.
  assert (H63 : len bits < 2 ^ 63) by (rewrite p63; lia).
  destruct (BitVecP.bv_from_bools_correct bits H63) as (bv' & E & Hinv & Habs).
  rewrite Ebv in E. apply Val_inj in E. subst bv'.
  assert (Enb : bv_nbits bv = len bits) by (rewrite <- (BitVecP.inv_len bv Hinv), Habs; reflexivity).
  assert (H43 : bv_nbits bv < 2 ^ 43) by (rewrite p43; lia).
  pose proof (BinFinalP.bv_inv_wf_rs bv Hinv H43) as Hwf.
  destruct (rsw_new_sizes bv r Hwf Er) as (Hbv & HM & HS0 & HS1 & H8 & HW).
  destruct (RSBinW.rsw_new_ok WordsP.popcount_correct bv Hwf) as (r' & E & _ & (Hlen & _) & Hnz).
  rewrite Er in E. apply Val_inj in E. subst r'.
  rewrite <- Hbv in H8, HW.
  split; [split; [exact HM|split; [exact H8|split; [exact HW|]]]|split; [exact HS0|split; [exact HS1|]]].
  - rewrite Hnz, p63. lia.
  - unfold len in Hlen. unfold RSBinB.nlines in Hlen. lia.
Qed.

Lemma built_sel_all n fuel bvs : n < 2 ^ 43 -> (N.to_nat (n / 4096) + 3 <= fuel)%nat ->
  Forall (lvl_built n) bvs -> Forall (lvl_sel_ok fuel) bvs.
Proof. intros Hn Hf. apply Forall_impl. intros r. now apply lvl_built_sel_ok. Qed.

Lemma built_ok_all n bvs : n < 2 ^ 43 -> Forall (lvl_built n) bvs -> Forall lvl_ok bvs.
Proof.
  intros Hn HB. apply (lvl_sel_rank (N.to_nat (n / 4096) + 3)). now apply (built_sel_all n).
Qed.

Lemma maxn_43 n : n < RSQBuild.RSQ_MAXN -> n < 2 ^ 43.
Proof. rewrite RSQBuild.RSQ_MAXN_val, p43. lia. Qed.

Lemma width_gt1 w : (w = 8 \/ w = 16 \/ w = 32 \/ w = 64 \/ w = 128) -> 1 < w /\ 0 < w /\ w <= 128.
Proof. lia. Qed.

(* ---------------------------------------------------------------- the plain tree *)
Lemma wt_built_facts w seq t :
  (w = 8 \/ w = 16 \/ w = 32 \/ w = 64 \/ w = 128) -> Forall (fun x => x < 2 ^ w) seq ->
  len seq < RSQBuild.RSQ_MAXN -> wt_build w false seq [] = Val t ->
  C03.C03_plain_contract w t seq /\ Forall (lvl_built (len seq)) (w_bvs t) /\ Forall lvl_ok (w_bvs t) /\
  w_n_levels t < 2 ^ 64 /\ 1 < w /\ len seq < 2 ^ 43 /\ w_n t = len seq.
Proof.
  intros Hw HF Hn E.
  destruct (C03.C03_wt_correct w seq Hw HF Hn) as (t' & E' & HC).
  rewrite E in E'. apply Val_inj in E'. subst t'.
  pose proof (wt_build_levels_built w false seq [] t E) as HB.
  pose proof (maxn_43 _ Hn) as H43. destruct (width_gt1 w Hw) as (H1 & H0 & H128).
  split; [exact HC|]. split; [exact HB|]. split; [exact (built_ok_all _ _ H43 HB)|].
  split; [|split; [exact H1|split; [exact H43|apply HC]]].
  destruct HC as (_ & Hnl & _). rewrite Hnl. rewrite p64. destruct (len seq =? 0); [lia|].
  assert (Hpow : 0 < 2 ^ w) by (apply N.neq_0_lt_0, N.pow_nonzero; lia).
  pose proof (QWTArith.maxN_lt seq (2 ^ w) Hpow HF) as Hmax.
  pose proof (QWTArith.msb_lt _ _ H0 Hmax). lia.
Qed.

Theorem g_wt_get_built : forall w seq t,
  (w = 8 \/ w = 16 \/ w = 32 \/ w = 64 \/ w = 128) -> Forall (fun x => x < 2 ^ w) seq ->
  len seq < RSQBuild.RSQ_MAXN -> wt_build w false seq [] = Val t -> forall i,
  g_wt_get w (w_n t) (w_n_levels t) (wt_data t) (wt_meta t) (wt_nzeros t) i = Val (nthN seq i).
Proof.
  intros w seq t Hw HF Hn E i.
  destruct (wt_built_facts w seq t Hw HF Hn E) as (HC & HB & HR & Hnl & H1 & H43 & Hwn).
  destruct (N.ltb_spec i (2 ^ 64)) as [Hi|Hi].
  - apply g_wt_get_sim; try assumption. destruct HC as (_ & _ & Hget & _). apply Hget.
  - unfold g_wt_get. rewrite Hwn. rewrite p43 in H43. rewrite p64 in Hi.
    destruct (N.leb_spec (len seq) i); [|lia]. rewrite nthN_none by lia. reflexivity.
Qed.

Theorem g_wt_get_unchecked_built : forall w seq t,
  (w = 8 \/ w = 16 \/ w = 32 \/ w = 64 \/ w = 128) -> Forall (fun x => x < 2 ^ w) seq ->
  len seq < RSQBuild.RSQ_MAXN -> wt_build w false seq [] = Val t -> forall i x, nthN seq i = Some x ->
  g_wt_get_unchecked w (w_n_levels t) (wt_data t) (wt_meta t) (wt_nzeros t) i = Val x.
Proof.
  intros w seq t Hw HF Hn E i x Hx.
  destruct (wt_built_facts w seq t Hw HF Hn E) as (HC & HB & HR & Hnl & H1 & H43 & Hwn).
  pose proof (nthN_some_lt _ _ _ Hx) as Hi.
  apply g_wt_get_unchecked_sim; try assumption; [rewrite p43 in H43; rewrite p64; lia|].
  destruct HC as (_ & _ & _ & _ & _ & Hgu & _). now apply Hgu.
Qed.

Theorem g_wt_rank_built : forall w seq t,
  (w = 8 \/ w = 16 \/ w = 32 \/ w = 64 \/ w = 128) -> Forall (fun x => x < 2 ^ w) seq ->
  len seq < RSQBuild.RSQ_MAXN -> wt_build w false seq [] = Val t -> forall c i, c < 2 ^ w ->
  g_wt_rank w (w_n t) (w_n_levels t) (w_sigma t) (wt_data t) (wt_meta t) (wt_nzeros t) c i
  = Val (if negb (len seq =? 0) && (i <=? len seq) && (c <=? maxN seq) then Some (rank_spec seq c i) else None).
Proof.
  intros w seq t Hw HF Hn E c i Hc.
  destruct (wt_built_facts w seq t Hw HF Hn E) as (HC & HB & HR & Hnl & H1 & H43 & Hwn).
  destruct (N.ltb_spec i (2 ^ 64)) as [Hi|Hi].
  - apply g_wt_rank_sim; try assumption. destruct HC as (_ & _ & _ & Hrank & _). now apply Hrank.
  - unfold g_wt_rank. rewrite Hwn. rewrite p43 in H43. rewrite p64 in Hi.
    replace (len seq <? i) with true by lia. replace (i <=? len seq) with false by lia.
    rewrite orb_true_r, andb_false_r. reflexivity.
Qed.

Theorem g_wt_rank_unchecked_built : forall w seq t,
  (w = 8 \/ w = 16 \/ w = 32 \/ w = 64 \/ w = 128) -> Forall (fun x => x < 2 ^ w) seq ->
  len seq < RSQBuild.RSQ_MAXN -> wt_build w false seq [] = Val t ->
  forall c i, 0 < len seq -> c <= maxN seq -> i <= len seq ->
  g_wt_rank_unchecked w (w_n_levels t) (wt_data t) (wt_meta t) (wt_nzeros t) c i = Val (rank_spec seq c i).
Proof.
  intros w seq t Hw HF Hn E c i Hpos Hc Hi.
  destruct (wt_built_facts w seq t Hw HF Hn E) as (HC & HB & HR & Hnl & H1 & H43 & Hwn).
  apply g_wt_rank_unchecked_sim; try assumption; [rewrite p43 in H43; rewrite p64; lia|].
  destruct HC as (_ & _ & _ & _ & _ & _ & Hru & _). now apply Hru.
Qed.

Theorem g_wt_select_built : forall w seq t,
  (w = 8 \/ w = 16 \/ w = 32 \/ w = 64 \/ w = 128) -> Forall (fun x => x < 2 ^ w) seq ->
  len seq < RSQBuild.RSQ_MAXN -> wt_build w false seq [] = Val t ->
  forall c k fuel, c < 2 ^ w -> k < 2 ^ 64 -> (N.to_nat (len seq / 4096) + 3 <= fuel)%nat ->
  g_wt_select fuel w (w_n t) (w_n_levels t) (w_sigma t) (wt_data t) (wt_nbits t) (wt_meta t) (wt_samples t)
    (wt_nzeros t) c k
  = Val (if negb (len seq =? 0) && (c <=? maxN seq) then select_spec seq c k else None).
Proof.
  intros w seq t Hw HF Hn E c k fuel Hc Hk Hf.
  destruct (wt_built_facts w seq t Hw HF Hn E) as (HC & HB & HR & Hnl & H1 & H43 & Hwn).
  apply g_wt_select_sim; [exact (built_sel_all _ fuel _ H43 Hf HB)|].
  destruct HC as (_ & _ & _ & _ & Hsel & _). now apply Hsel.
Qed.

Theorem g_wt_select_unchecked_built : forall w seq t,
  (w = 8 \/ w = 16 \/ w = 32 \/ w = 64 \/ w = 128) -> Forall (fun x => x < 2 ^ w) seq ->
  len seq < RSQBuild.RSQ_MAXN -> wt_build w false seq [] = Val t ->
  forall c k p fuel, c < 2 ^ w -> select_spec seq c k = Some p -> (N.to_nat (len seq / 4096) + 3 <= fuel)%nat ->
  g_wt_select_unchecked fuel w (w_n t) (w_n_levels t) (w_sigma t) (wt_data t) (wt_nbits t) (wt_meta t) (wt_samples t)
    (wt_nzeros t) c k = Val p.
Proof.
  intros w seq t Hw HF Hn E c k p fuel Hc Hp Hf.
  destruct (wt_built_facts w seq t Hw HF Hn E) as (HC & HB & HR & Hnl & H1 & H43 & Hwn).
  apply g_wt_select_unchecked_sim; [exact (built_sel_all _ fuel _ H43 Hf HB)|].
  destruct HC as (_ & _ & _ & _ & _ & _ & _ & Hsu). now apply Hsu.
Qed.

Theorem g_wt_len_built : forall w seq t,
  (w = 8 \/ w = 16 \/ w = 32 \/ w = 64 \/ w = 128) -> Forall (fun x => x < 2 ^ w) seq ->
  len seq < RSQBuild.RSQ_MAXN -> wt_build w false seq [] = Val t ->
  g_wt_len (w_n t) = Val (len seq) /\ g_wt_is_empty (w_n t) = Val (len seq =? 0) /\
  g_wt_n_levels (w_n_levels t) = Val (if len seq =? 0 then 0 else msb (maxN seq) + 1).
Proof.
  intros w seq t Hw HF Hn E.
  destruct (wt_built_facts w seq t Hw HF Hn E) as ((H1 & H2 & _) & _).
  unfold g_wt_len, g_wt_is_empty, g_wt_n_levels. rewrite H1, H2. repeat split; reflexivity.
Qed.

(* ---------------------------------------------------------------- the Huffman-shaped tree *)
(* code lengths of a compatible table are at most 32 (code_wf), so the tree has at most 32 levels *)
Lemma table_len_le32 seq tab : C03.C03_table_ok seq tab -> maxN (map pc_len tab) <= 32.
Proof.
  intros (_ & Hwf & Hocc & _).
  assert (H : maxN (map pc_len tab) < 33); [|lia].
  apply QWTArith.maxN_lt; [lia|]. apply Forall_forall. intros x Hx.
  apply in_map_iff in Hx as (c & <- & Hc). apply In_nth_error in Hc as (j & Ej).
  assert (En : nthN tab (N.of_nat j) = Some c) by (rewrite nthN_nth_error, Nat2N.id; exact Ej).
  destruct (N.eq_dec (pc_len c) 0) as [E0|E0]; [lia|].
  pose proof (Hocc _ _ En E0) as Hin. destruct (Hwf _ Hin) as (c' & En' & W).
  rewrite En in En'. injection En' as <-. unfold Codes.code_wf in W.
  apply andb_prop in W as [W _]. apply andb_prop in W as [W _]. apply andb_prop in W as [_ W]. lia.
Qed.

Lemma hwt_built_facts w seq tab t :
  (w = 8 \/ w = 16 \/ w = 32 \/ w = 64 \/ w = 128) -> Forall (fun x => x < 2 ^ w) seq ->
  len seq < RSQBuild.RSQ_MAXN -> seq <> [] -> C03.C03_table_ok seq tab -> wt_build w true seq tab = Val t ->
  C03.C03_huffman_contract w t seq /\ Forall (lvl_built (len seq)) (w_bvs t) /\ Forall lvl_ok (w_bvs t) /\
  w_n_levels t < 2 ^ 64 /\ len seq < 2 ^ 43 /\ w_n t = len seq /\ 0 < len seq.
Proof.
  intros Hw HF Hn Hne Htab E.
  destruct (C03.C03_hwt_correct w seq tab Hw HF Hn Hne Htab) as (t' & E' & HC).
  rewrite E in E'. apply Val_inj in E'. subst t'.
  pose proof (wt_build_levels_built w true seq tab t E) as HB.
  pose proof (maxn_43 _ Hn) as H43.
  split; [exact HC|]. split; [exact HB|]. split; [exact (built_ok_all _ _ H43 HB)|].
  split; [|split; [exact H43|split; [apply HC|]]].
  - pose proof (table_len_le32 seq tab Htab) as H32.
    destruct seq as [|x0 seq']; [congruence|]. rewrite BinWTP.wt_build_huff_cons in E.
    dbind E. destruct a as [bvs lens]. injection E as <-. cbn [w_n_levels]. rewrite p64. lia.
  - destruct seq; [congruence|]. rewrite len_cons. lia.
Qed.

Theorem g_hwt_get_built : forall w seq tab t,
  (w = 8 \/ w = 16 \/ w = 32 \/ w = 64 \/ w = 128) -> Forall (fun x => x < 2 ^ w) seq ->
  len seq < RSQBuild.RSQ_MAXN -> seq <> [] -> C03.C03_table_ok seq tab -> wt_build w true seq tab = Val t ->
  forall i,
  g_hwt_get w (w_n t) (w_n_levels t) (w_decode t) (wt_data t) (wt_meta t) (wt_nzeros t) (w_lens t) i
  = Val (nthN seq i).
Proof.
  intros w seq tab t Hw HF Hn Hne Htab E i.
  destruct (hwt_built_facts w seq tab t Hw HF Hn Hne Htab E) as (HC & HB & HR & Hnl & H43 & Hwn & Hpos).
  destruct (N.ltb_spec i (2 ^ 64)) as [Hi|Hi].
  - apply g_hwt_get_sim; try assumption. destruct HC as (_ & Hget & _). apply Hget.
  - unfold g_hwt_get. rewrite Hwn. rewrite p43 in H43. rewrite p64 in Hi.
    destruct (N.leb_spec (len seq) i); [|lia]. rewrite nthN_none by lia. reflexivity.
Qed.

Theorem g_hwt_get_unchecked_built : forall w seq tab t,
  (w = 8 \/ w = 16 \/ w = 32 \/ w = 64 \/ w = 128) -> Forall (fun x => x < 2 ^ w) seq ->
  len seq < RSQBuild.RSQ_MAXN -> seq <> [] -> C03.C03_table_ok seq tab -> wt_build w true seq tab = Val t ->
  forall i x, nthN seq i = Some x ->
  g_hwt_get_unchecked w (w_n_levels t) (w_decode t) (wt_data t) (wt_meta t) (wt_nzeros t) (w_lens t) i = Val x.
Proof.
  intros w seq tab t Hw HF Hn Hne Htab E i x Hx.
  destruct (hwt_built_facts w seq tab t Hw HF Hn Hne Htab E) as (HC & HB & HR & Hnl & H43 & Hwn & Hpos).
  pose proof (nthN_some_lt _ _ _ Hx) as Hi.
  apply g_hwt_get_unchecked_sim; try assumption; [rewrite p43 in H43; rewrite p64; lia|].
  destruct HC as (_ & _ & _ & _ & Hgu & _). now apply Hgu.
Qed.

Theorem g_hwt_rank_built : forall w seq tab t,
  (w = 8 \/ w = 16 \/ w = 32 \/ w = 64 \/ w = 128) -> Forall (fun x => x < 2 ^ w) seq ->
  len seq < RSQBuild.RSQ_MAXN -> seq <> [] -> C03.C03_table_ok seq tab -> wt_build w true seq tab = Val t ->
  forall c i, c < 2 ^ w ->
  g_hwt_rank w (w_n t) (wt_enc_content t) (wt_enc_len t) (wt_data t) (wt_meta t) (wt_nzeros t) c i
  = Val (if (i <=? len seq) && (0 <? countN c seq) then Some (rank_spec seq c i) else None).
Proof.
  intros w seq tab t Hw HF Hn Hne Htab E c i Hc.
  destruct (hwt_built_facts w seq tab t Hw HF Hn Hne Htab E) as (HC & HB & HR & Hnl & H43 & Hwn & Hpos).
  destruct (N.ltb_spec i (2 ^ 64)) as [Hi|Hi].
  - apply g_hwt_rank_sim; try assumption. destruct HC as (_ & _ & Hrank & _). now apply Hrank.
  - unfold g_hwt_rank. rewrite Hwn. rewrite p43 in H43. rewrite p64 in Hi.
    replace (len seq <? i) with true by lia. replace (i <=? len seq) with false by lia.
    rewrite orb_true_r. reflexivity.
Qed.

Theorem g_hwt_rank_unchecked_built : forall w seq tab t,
  (w = 8 \/ w = 16 \/ w = 32 \/ w = 64 \/ w = 128) -> Forall (fun x => x < 2 ^ w) seq ->
  len seq < RSQBuild.RSQ_MAXN -> seq <> [] -> C03.C03_table_ok seq tab -> wt_build w true seq tab = Val t ->
  forall c i, 0 < countN c seq -> i <= len seq ->
  g_hwt_rank_unchecked w (wt_enc_content t) (wt_enc_len t) (wt_data t) (wt_meta t) (wt_nzeros t) c i
  = Val (rank_spec seq c i).
Proof.
  intros w seq tab t Hw HF Hn Hne Htab E c i Hc Hi.
  destruct (hwt_built_facts w seq tab t Hw HF Hn Hne Htab E) as (HC & HB & HR & Hnl & H43 & Hwn & Hpos).
  apply g_hwt_rank_unchecked_sim; try assumption; [rewrite p43 in H43; rewrite p64; lia|].
  destruct HC as (_ & _ & _ & _ & _ & Hru & _). now apply Hru.
Qed.

Theorem g_hwt_select_built : forall w seq tab t,
  (w = 8 \/ w = 16 \/ w = 32 \/ w = 64 \/ w = 128) -> Forall (fun x => x < 2 ^ w) seq ->
  len seq < RSQBuild.RSQ_MAXN -> seq <> [] -> C03.C03_table_ok seq tab -> wt_build w true seq tab = Val t ->
  forall c k fuel, c < 2 ^ w -> k < 2 ^ 64 -> (N.to_nat (len seq / 4096) + 3 <= fuel)%nat ->
  g_hwt_select fuel w (w_n t) (wt_enc_content t) (wt_enc_len t) (wt_data t) (wt_nbits t) (wt_meta t) (wt_samples t)
    (wt_nzeros t) c k
  = Val (select_spec seq c k).
Proof.
  intros w seq tab t Hw HF Hn Hne Htab E c k fuel Hc Hk Hf.
  destruct (hwt_built_facts w seq tab t Hw HF Hn Hne Htab E) as (HC & HB & HR & Hnl & H43 & Hwn & Hpos).
  apply g_hwt_select_sim; [exact (built_sel_all _ fuel _ H43 Hf HB)|exact Hc|].
  destruct HC as (_ & _ & _ & Hsel & _). now apply Hsel.
Qed.

Theorem g_hwt_select_unchecked_built : forall w seq tab t,
  (w = 8 \/ w = 16 \/ w = 32 \/ w = 64 \/ w = 128) -> Forall (fun x => x < 2 ^ w) seq ->
  len seq < RSQBuild.RSQ_MAXN -> seq <> [] -> C03.C03_table_ok seq tab -> wt_build w true seq tab = Val t ->
  forall c k p fuel, c < 2 ^ w -> select_spec seq c k = Some p -> (N.to_nat (len seq / 4096) + 3 <= fuel)%nat ->
  g_hwt_select_unchecked fuel w (w_n t) (wt_enc_content t) (wt_enc_len t) (wt_data t) (wt_nbits t) (wt_meta t)
    (wt_samples t) (wt_nzeros t) c k = Val p.
Proof.
  intros w seq tab t Hw HF Hn Hne Htab E c k p fuel Hc Hp Hf.
  destruct (hwt_built_facts w seq tab t Hw HF Hn Hne Htab E) as (HC & HB & HR & Hnl & H43 & Hwn & Hpos).
  apply g_hwt_select_unchecked_sim; [exact (built_sel_all _ fuel _ H43 Hf HB)|exact Hc|].
  destruct HC as (_ & _ & _ & _ & _ & _ & Hsu). now apply Hsu.
Qed.

(* has_code answers "the symbol occurs in the sequence" (read off the rank contract at i = 0) *)
Theorem g_hwt_has_code_built : forall w seq tab t,
  (w = 8 \/ w = 16 \/ w = 32 \/ w = 64 \/ w = 128) -> Forall (fun x => x < 2 ^ w) seq ->
  len seq < RSQBuild.RSQ_MAXN -> seq <> [] -> C03.C03_table_ok seq tab -> wt_build w true seq tab = Val t ->
  forall c, c < 2 ^ w ->
  g_hwt_has_code w (wt_enc_content t) (wt_enc_len t) c = Val (0 <? countN c seq).
Proof.
  intros w seq tab t Hw HF Hn Hne Htab E c Hc.
  destruct (hwt_built_facts w seq tab t Hw HF Hn Hne Htab E) as (HC & HB & HR & Hnl & H43 & Hwn & Hpos).
  rewrite (g_hwt_has_code_ok w t c Hc).
  destruct HC as (_ & _ & Hrank & _). specialize (Hrank c 0 Hc). unfold wt_rank in Hrank. rewrite Hwn in Hrank.
  replace (len seq =? 0) with false in Hrank by lia. replace (len seq <? 0) with false in Hrank by lia.
  replace (0 <=? len seq) with true in Hrank by lia. cbn [orb andb] in Hrank.
  destruct (wt_valid true t c) as [[rl|]|]; cbn [bind] in Hrank |- *; [| |discriminate].
  - destruct (wt_rank_unchecked w true t c 0) as [x|]; cbn [bind] in Hrank; [|discriminate].
    apply Val_inj in Hrank. destruct (0 <? countN c seq); [reflexivity|discriminate].
  - apply Val_inj in Hrank. destruct (0 <? countN c seq); [discriminate|reflexivity].
Qed.

Theorem g_hwt_len_built : forall w seq tab t,
  (w = 8 \/ w = 16 \/ w = 32 \/ w = 64 \/ w = 128) -> Forall (fun x => x < 2 ^ w) seq ->
  len seq < RSQBuild.RSQ_MAXN -> seq <> [] -> C03.C03_table_ok seq tab -> wt_build w true seq tab = Val t ->
  g_hwt_len (w_n t) = Val (len seq) /\ g_hwt_is_empty (w_n t) = Val false /\
  g_hwt_n_levels (w_n_levels t) = Val (maxN (map pc_len tab)).
Proof.
  intros w seq tab t Hw HF Hn Hne Htab E.
  destruct (hwt_built_facts w seq tab t Hw HF Hn Hne Htab E) as (HC & HB & HR & Hnl & H43 & Hwn & Hpos).
  unfold g_hwt_len, g_hwt_is_empty, g_hwt_n_levels. rewrite Hwn.
  split; [reflexivity|]. split; [f_equal; lia|].
  destruct seq as [|x0 seq']; [congruence|]. rewrite BinWTP.wt_build_huff_cons in E.
  dbind E. destruct a as [bvs lens]. injection E as <-. reflexivity.
Qed.

(* ---------------------------------------------------------------- hwt_new = craft2 then wt_build *)
(* the tree HWT::new returns is `wt_build w true seq tab` for a compatible table: every g_hwt_*_built theorem
   above applies to it *)
Theorem hwt_new_built : forall w seq f t, seq <> [] -> maxN seq < 2 ^ 64 - 1 -> WrapP.lengths_for2 seq f ->
  hwt_new w seq f = Val t ->
  exists tab, C03.C03_table_ok seq tab /\ wt_build w true seq tab = Val t.
Proof.
  intros w seq f t Hne Hmax Hlf E. unfold hwt_new in E. destruct seq as [|x0 seq']; [congruence|].
  dbind E. rename a into tab. exists tab. split; [|exact E].
  exact (WrapP.craft2_table_ok_seq _ f tab Hne Hmax Hlf E0).
Qed.

Theorem g_hwt_new_correct : forall w seq f t,
  (w = 8 \/ w = 16 \/ w = 32 \/ w = 64 \/ w = 128) -> Forall (fun x => x < 2 ^ w) seq ->
  len seq < RSQBuild.RSQ_MAXN -> seq <> [] -> maxN seq < 2 ^ 64 - 1 -> WrapP.lengths_for2 seq f ->
  hwt_new w seq f = Val t ->
  (forall i, g_hwt_get w (w_n t) (w_n_levels t) (w_decode t) (wt_data t) (wt_meta t) (wt_nzeros t) (w_lens t) i
             = Val (nthN seq i)) /\
  (forall c i, c < 2 ^ w ->
     g_hwt_rank w (w_n t) (wt_enc_content t) (wt_enc_len t) (wt_data t) (wt_meta t) (wt_nzeros t) c i
     = Val (if (i <=? len seq) && (0 <? countN c seq) then Some (rank_spec seq c i) else None)) /\
  (forall c k fuel, c < 2 ^ w -> k < 2 ^ 64 -> (N.to_nat (len seq / 4096) + 3 <= fuel)%nat ->
     g_hwt_select fuel w (w_n t) (wt_enc_content t) (wt_enc_len t) (wt_data t) (wt_nbits t) (wt_meta t)
       (wt_samples t) (wt_nzeros t) c k = Val (select_spec seq c k)) /\
  (forall c, c < 2 ^ w -> g_hwt_has_code w (wt_enc_content t) (wt_enc_len t) c = Val (0 <? countN c seq)).
Proof.
  intros w seq f t Hw HF Hn Hne Hmax Hlf E.
  destruct (hwt_new_built w seq f t Hne Hmax Hlf E) as (tab & Htab & Eb).
  split; [|split; [|split]].
  - exact (g_hwt_get_built w seq tab t Hw HF Hn Hne Htab Eb).
  - exact (g_hwt_rank_built w seq tab t Hw HF Hn Hne Htab Eb).
  - exact (g_hwt_select_built w seq tab t Hw HF Hn Hne Htab Eb).
  - exact (g_hwt_has_code_built w seq tab t Hw HF Hn Hne Htab Eb).
Qed.

(* ---------------------------------------------------------------- the empty tree (either flavour) *)
Theorem g_wt_empty : forall w compressed tab t, wt_build w compressed [] tab = Val t ->
  (forall i, g_wt_get w (w_n t) (w_n_levels t) (wt_data t) (wt_meta t) (wt_nzeros t) i = Val None) /\
  (forall i, g_hwt_get w (w_n t) (w_n_levels t) (w_decode t) (wt_data t) (wt_meta t) (wt_nzeros t) (w_lens t) i
             = Val None) /\
  (forall c i, g_wt_rank w (w_n t) (w_n_levels t) (w_sigma t) (wt_data t) (wt_meta t) (wt_nzeros t) c i = Val None) /\
  (forall c i, g_hwt_rank w (w_n t) (wt_enc_content t) (wt_enc_len t) (wt_data t) (wt_meta t) (wt_nzeros t) c i
               = Val None) /\
  (forall fuel c k, g_wt_select fuel w (w_n t) (w_n_levels t) (w_sigma t) (wt_data t) (wt_nbits t) (wt_meta t)
                      (wt_samples t) (wt_nzeros t) c k = Val None) /\
  (forall fuel c k, g_hwt_select fuel w (w_n t) (wt_enc_content t) (wt_enc_len t) (wt_data t) (wt_nbits t)
                      (wt_meta t) (wt_samples t) (wt_nzeros t) c k = Val None).
Proof.
  intros w compressed tab t E. cbn [wt_build] in E. injection E as <-. repeat split; intros; try reflexivity.
  - unfold g_wt_get. cbn [w_n]. destruct (N.leb_spec 0 i); [reflexivity|lia].
  - unfold g_hwt_get. cbn [w_n]. destruct (N.leb_spec 0 i); [reflexivity|lia].
Qed.

(* ---- non-vacuity: the generated functions evaluated (vm_compute) on the fields of the trees wt_build builds for
   the examples of Proofs/BinWTP.v (same expected values as wt_example / hwt_example there), and on u128 symbols *)
Example g_wt_example :
  match wt_build 16 false BinWTP.wt_ex_seq [] with
  | Val t =>
      let n := w_n t in let nl := w_n_levels t in let sg := w_sigma t in
      let d := wt_data t in let nb := wt_nbits t in let m := wt_meta t in let sm := wt_samples t in
      let z := wt_nzeros t in
      g_wt_len n = Val 30 /\ g_wt_n_levels nl = Val 9 /\ g_wt_is_empty n = Val false /\
      map (g_wt_get 16 n nl d m z) [0; 7; 17; 29; 30] =
        [Val (Some 0); Val (Some 63); Val (Some 268); Val (Some 300); Val None] /\
      map (fun c => g_wt_rank 16 n nl sg d m z c 30) [34; 10; 300; 3; 301] =
        [Val (Some 2); Val (Some 1); Val (Some 1); Val (Some 0); Val None] /\
      g_wt_rank 16 n nl sg d m z 34 16 = Val (Some 1) /\ g_wt_rank 16 n nl sg d m z 34 31 = Val None /\
      map (g_wt_select 3 16 n nl sg d nb m sm z 34) [0; 1; 2] = [Val (Some 2); Val (Some 16); Val None] /\
      g_wt_select 3 16 n nl sg d nb m sm z 3 0 = Val None /\ g_wt_select 3 16 n nl sg d nb m sm z 301 0 = Val None /\
      g_wt_get_unchecked 16 nl d m z 17 = Val 268 /\ g_wt_rank_unchecked 16 nl d m z 34 30 = Val 2 /\
      g_wt_select_unchecked 3 16 n nl sg d nb m sm z 300 0 = Val 29
  | Fault _ => False
  end.
Proof. vm_compute. repeat split; reflexivity. Qed.

Example g_wt_example_u128 :
  let s := [2 ^ 100 + 5; 7; 2 ^ 100 + 5; 2 ^ 127; 0; 2 ^ 64 + 1] in
  match wt_build 128 false s [] with
  | Val t =>
      let n := w_n t in let nl := w_n_levels t in let sg := w_sigma t in
      let d := wt_data t in let nb := wt_nbits t in let m := wt_meta t in let sm := wt_samples t in
      let z := wt_nzeros t in
      g_wt_n_levels nl = Val 128 /\ g_wt_get 128 n nl d m z 3 = Val (Some (2 ^ 127)) /\
      g_wt_rank 128 n nl sg d m z (2 ^ 100 + 5) 6 = Val (Some 2) /\
      g_wt_select 3 128 n nl sg d nb m sm z (2 ^ 64 + 1) 0 = Val (Some 5) /\
      g_wt_select 3 128 n nl sg d nb m sm z (2 ^ 100 + 5) 1 = Val (Some 2)
  | Fault _ => False
  end.
Proof. vm_compute. repeat split; reflexivity. Qed.

Example g_hwt_example :
  match wt_build 8 true BinWTP.hwt_ex_seq BinWTP.hwt_ex_tab with
  | Val t =>
      let n := w_n t in let nl := w_n_levels t in let ec := wt_enc_content t in let el := wt_enc_len t in
      let dc := w_decode t in let ls := w_lens t in
      let d := wt_data t in let nb := wt_nbits t in let m := wt_meta t in let sm := wt_samples t in
      let z := wt_nzeros t in
      g_hwt_len n = Val 30 /\ g_hwt_n_levels nl = Val 3 /\ g_hwt_is_empty n = Val false /\
      map (g_hwt_get 8 n nl dc d m z ls) [0; 1; 2; 3; 29; 30] =
        [Val (Some 5); Val (Some 0); Val (Some 9); Val (Some 2); Val (Some 9); Val None] /\
      map (fun c => g_hwt_rank 8 n ec el d m z c 17) [0; 2; 5; 9; 1; 300] =
        [Val (Some 3); Val (Some 3); Val (Some 5); Val (Some 6); Val None; Val None] /\
      map (g_hwt_select 3 8 n ec el d nb m sm z 9) [0; 1; 9; 10; 11] =
        [Val (Some 2); Val (Some 6); Val (Some 29); Val None; Val None] /\
      g_hwt_rank 8 n ec el d m z 5 30 = Val (Some 10) /\ g_hwt_rank 8 n ec el d m z 5 31 = Val None /\
      map (g_hwt_has_code 8 ec el) [0; 1; 2; 5; 9; 10; 300] =
        [Val true; Val false; Val true; Val true; Val true; Val false; Val false] /\
      g_hwt_select_unchecked 3 8 n ec el d nb m sm z 2 3 = Val 21 /\ g_hwt_get_unchecked 8 nl dc d m z ls 7 = Val 0 /\
      g_hwt_rank_unchecked 8 ec el d m z 0 30 = Val 5
  | Fault _ => False
  end.
Proof. vm_compute. repeat split; reflexivity. Qed.

(* symbols outside the element type: the hand model takes any N as symbol, a Rust caller only symbols < 2^wT.
   The Huffman simulations (rank, select, has_code) therefore ask symbol < 2^wT: for such symbols the generated test
   `T::from(symbol.as_()) == symbol` (back =? symbol) and the hand model's `sym_index symbol =? symbol` agree (sym_back).
   For symbol >= 2^wT they can differ (wT = 8, symbol = 300: back = 44 <> 300 while sym_index 300 = 300), which is
   not a value of the Rust element type. *)

(* Nothing about the constructor is missing: every level wt_build creates is `rsw_new (bv_from_bools bits)` with
   len bits <= len seq (wt_levels_built), hence well formed (lvl_built_sel_ok: FnsRsw2Ok.rsw_new_sizes, and
   RSBinW.rsw_new_ok for the metadata length (<= len seq / 4096 + 2, whence the fuel bound) and the number of zeros).
   No mismatch between the generated functions and the hand model was found:
     - bit_at, len, is_empty, n_levels, has_code (symbol < 2^wT): equalities;
     - get / get_unchecked: simulations; the extra machine checks of the generated code (`result_t << 1` needs
       1 < wT, `shift += 1` needs n_levels < 2^64, `tmp + n_zeros` needs n_zeros < 2^63) hold for every built tree;
       the Huffman tree's binary search of the decode table returns the entry the hand model's table_lookup finds;
     - rank / rank_unchecked: simulations (`tmp + offset` cannot overflow: ranks are below 2^45);
     - select / select_unchecked: simulations for every fuel above the metadata length of every level
       (`rank_b + n_zeros` cannot overflow; `rank_b + result` is a checked_add in the source and a test against 2^64 in
       the hand model). *)

Print Assumptions g_rsw_get_unchecked_ok.
Print Assumptions g_rsw_get_ok.
Print Assumptions g_rsw_rank0_ok.
Print Assumptions g_rsw_rank0_unchecked_ok.
Print Assumptions g_rsw_rank0_sim.
Print Assumptions g_rsw_rank0_unchecked_sim.
Print Assumptions rsw_gen_of_bools_get_rank0_correct.
Print Assumptions g_wt_bit_at_ok.
Print Assumptions g_hwt_bit_at_ok.
Print Assumptions g_wt_len_ok.
Print Assumptions g_hwt_len_ok.
Print Assumptions g_wt_is_empty_ok.
Print Assumptions g_hwt_is_empty_ok.
Print Assumptions g_wt_n_levels_ok.
Print Assumptions g_hwt_n_levels_ok.
Print Assumptions g_hwt_has_code_ok.
Print Assumptions g_wt_get_unchecked_sim.
Print Assumptions g_wt_get_sim.
Print Assumptions g_wt_rank_unchecked_sim.
Print Assumptions g_wt_rank_sim.
Print Assumptions g_wt_select_sim.
Print Assumptions g_wt_select_unchecked_sim.
Print Assumptions g_hwt_get_unchecked_sim.
Print Assumptions g_hwt_get_sim.
Print Assumptions g_hwt_rank_unchecked_sim.
Print Assumptions g_hwt_rank_sim.
Print Assumptions g_hwt_select_sim.
Print Assumptions g_hwt_select_unchecked_sim.
Print Assumptions wt_levels_built.
Print Assumptions lvl_built_sel_ok.
Print Assumptions g_wt_get_built.
Print Assumptions g_wt_get_unchecked_built.
Print Assumptions g_wt_rank_built.
Print Assumptions g_wt_rank_unchecked_built.
Print Assumptions g_wt_select_built.
Print Assumptions g_wt_select_unchecked_built.
Print Assumptions g_wt_len_built.
Print Assumptions g_hwt_get_built.
Print Assumptions g_hwt_get_unchecked_built.
Print Assumptions g_hwt_rank_built.
Print Assumptions g_hwt_rank_unchecked_built.
Print Assumptions g_hwt_select_built.
Print Assumptions g_hwt_select_unchecked_built.
Print Assumptions g_hwt_has_code_built.
Print Assumptions g_hwt_len_built.
Print Assumptions hwt_new_built.
Print Assumptions g_hwt_new_correct.
Print Assumptions g_wt_empty.
Print Assumptions g_wt_example.
Print Assumptions g_wt_example_u128.
Print Assumptions g_hwt_example.
