(* C01 helper: the constructor of the quad wavelet tree stores, at level l, a rank/select quad
   vector over the level-l digits of the l-th stable reordering of the sequence
   (Theory/WaveletMatrix.v: [wm_levels]). *)
From Coq Require Import ZArith Lia ZifyBool ZifyN ZifyNat.
From QwtModel Require Import ListX Seq Consts QVec RSQ QWT ListXP ConstsOk QVecP RSQList RSQWord RSQBuild RSQP.
From QwtModel Require Import WaveletMatrix QWTArith.
Ltac Zify.zify_post_hook ::= Z.div_mod_to_equations.
Arguments N.add : simpl never.
Arguments N.sub : simpl never.
Arguments N.mul : simpl never.
Arguments N.eqb : simpl never.
Arguments N.ltb : simpl never.
Arguments N.leb : simpl never.
Arguments N.pred : simpl never.
Arguments N.of_nat : simpl never.
Arguments N.land : simpl never.
Arguments N.lor : simpl never.
Arguments N.shiftr : simpl never.
Arguments N.shiftl : simpl never.
Arguments N.div : simpl never.
Arguments N.modulo : simpl never.
Arguments N.pow : simpl never.
Arguments N.sqrt : simpl never.
Arguments N.log2 : simpl never.
Arguments N.max : simpl never.

(* the l-th reordering and the digit list stored at level l, for a tree of L levels *)
Definition qlev (L l : nat) (s : list N) : list N := lev N 4 (qdig L) l s.
Definition qD (L l : nat) (s : list N) : list N := map (qdig L l) (qlev L l s).

Lemma qlev_len L l s : len (qlev L l s) = len s.
Proof. apply (lev_length N 4 (qdig L) (qdig_lt L)). Qed.
Lemma qD_len L l s : len (qD L l s) = len s.
Proof. unfold qD. now rewrite len_map, qlev_len. Qed.
Lemma qlev_S L l s : qlev L (S l) s = parts N (qdig L) l 4 (qlev L l s).
Proof. reflexivity. Qed.

(* the invariant of a built tree *)
Definition tree_ok (bsize : N) (L : nat) (s : list N) (qvs : list rsq) : Prop :=
  forall l, (l < L)%nat ->
    exists r, nthN qvs (N.of_nat l) = Some r /\ rsq_spec bsize r (qD L l s).

Lemma map_sym4_id l : Forall (fun x => x < 4) l -> map sym4 l = l.
Proof.
  induction 1 as [|x l Hx HF IH]; cbn [map]; [reflexivity|].
  rewrite IH. f_equal. unfold sym4. lia.
Qed.

Lemma qD_lt4 L l s : Forall (fun x => x < 4) (qD L l s).
Proof.
  unfold qD. apply Forall_forall. intros d Hd. apply in_map_iff in Hd.
  destruct Hd as (x & <- & _). exact (qdig_lt L l x).
Qed.

Lemma qwt_levels_ok w bsize L s : (bsize = 256 \/ bsize = 512) -> len s < RSQ_MAXN ->
  2 * N.of_nat (L - 1) < w ->
  forall n l0 shift, (l0 + n = L)%nat -> ((0 < n)%nat -> shift = 2 * N.of_nat (L - 1 - l0)) ->
  exists rs, qwt_levels w bsize (qlev L l0 s) shift n = Val rs /\
    Forall2 (rsq_spec bsize) rs (wm_levels N 4 (qdig L) l0 n s) /\
    forall j, (j < n)%nat ->
      exists r, nthN rs (N.of_nat j) = Some r /\ rsq_spec bsize r (qD L (l0 + j) s).
Proof.
  intros Hb Hn Hw. induction n as [|n IH]; intros l0 shift Hl Hs.
  - exists []. split; [reflexivity|]. split; [constructor|]. intros j Hj. lia.
  - rewrite (Hs ltac:(lia)). clear Hs shift. cbn [qwt_levels].
    assert (Hsh : 2 * N.of_nat (L - 1 - l0) < w) by lia.
    rewrite (mapo_val _ (qdig L l0)) by (intros x _; now apply two_bits_qdig).
    cbn [bind]. fold (qD L l0 s).
    destruct (qvb_push_all_inv (qD L l0 s) qvb_new [] qvb_inv_new) as (q & Eq & Hq).
    rewrite Eq. cbn [bind]. cbn [app] in Hq. rewrite (map_sym4_id _ (qD_lt4 L l0 s)) in Hq.
    destruct (rsq_from_qv_correct bsize q (qD L l0 s) Hb Hq (qD_lt4 L l0 s)) as (r & Er & Hr).
    { now rewrite qD_len. }
    rewrite Er. cbn [bind].
    rewrite (stable_partition_parts w L l0 _ Hsh). cbn [bind]. rewrite <- qlev_S.
    destruct (IH (S l0) (if 2 <=? 2 * N.of_nat (L - 1 - l0) then 2 * N.of_nat (L - 1 - l0) - 2
                         else 2 * N.of_nat (L - 1 - l0))) as (rest & Erest & HF2 & Hrest); [lia| |].
    { intros Hn0. replace (2 <=? 2 * N.of_nat (L - 1 - l0)) with true by lia. lia. }
    rewrite Erest. cbn [bind]. exists (r :: rest). split; [reflexivity|].
    split; [cbn [wm_levels]; constructor; [exact Hr|exact HF2]|].
    intros j Hj. destruct j as [|j].
    + exists r. rewrite Nat.add_0_r. split; [reflexivity|exact Hr].
    + destruct (Hrest j ltac:(lia)) as (r' & En & Hr'). exists r'.
      replace (N.of_nat (S j)) with (N.of_nat j + 1) by lia. rewrite nthN_succ.
      replace (l0 + S j)%nat with (S l0 + j)%nat by lia. split; assumption.
Qed.

Lemma qwt_levels_tree w bsize L s : (bsize = 256 \/ bsize = 512) -> len s < RSQ_MAXN ->
  (0 < L)%nat -> 2 * N.of_nat (L - 1) < w ->
  exists qvs, qwt_levels w bsize s (2 * N.of_nat (L - 1)) L = Val qvs /\ tree_ok bsize L s qvs /\
    Forall2 (rsq_spec bsize) qvs (wm_levels N 4 (qdig L) 0 L s).
Proof.
  intros Hb Hn HL Hw.
  destruct (qwt_levels_ok w bsize L s Hb Hn Hw L 0%nat (2 * N.of_nat (L - 1))) as (qvs & E & HF2 & H);
    [lia|intros _; f_equal; f_equal; lia|].
  exists qvs. split; [exact E|]. split; [|exact HF2]. intros l Hl. exact (H l Hl).
Qed.
