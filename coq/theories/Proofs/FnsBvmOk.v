(* T5 (BitVectorMut, the growable bit vector, and the remaining BitVector accessors): the definitions REGENERATED
   from src/bitvector/mod.rs (Gen/FnsBvm.v, Gen/FnsBv.v, tools/gen_fns.py) agree with the hand model
   (Model/BitVec.v), and, composed with the C08 theorems (Proofs/BitVecP.v), the regenerated operations and
   observers behave as the list specification under every history.

   State correspondence.  A `&mut self` method is translated to a function of the three fields returning their
   new values; the field `data: Vec<DataLine>` is a list of lines of 8 words, the hand model keeps the flat
   word list.  For a hand state b
        fields b = (chunks 8 (bv_words b), bv_nbits b, bv_nones b)
   and b has whole lines when  len (bv_words b) mod 8 = 0  (then concat (chunks 8 ws) = ws and every chunk has
   8 words; conversely a list of 8-word lines is the chunks of its concatenation: [chunks_concat]).

   See the summary at the end of the file for the list of statements. *)
From Coq Require Import ZArith Lia ZifyBool ZifyN ZifyNat.
From QwtModel Require Import ListX Loops Consts SelTable Words BitVec ListXP BitsLib LeavesUtils FnsBv FnsBvm
  LeavesLib BitVecW BitVecIter BitVecP FnsBvOk.
Open Scope N_scope.
Ltac Zify.zify_post_hook ::= Z.div_mod_to_equations.
Arguments N.add : simpl never.
Arguments N.sub : simpl never.
Arguments N.mul : simpl never.
Arguments N.eqb : simpl never.
Arguments N.ltb : simpl never.
Arguments N.leb : simpl never.
Arguments N.pred : simpl never.
Arguments N.of_nat : simpl never.
Arguments N.land : simpl never.
Arguments N.lor : simpl never.
Arguments N.lxor : simpl never.
Arguments N.shiftr : simpl never.
Arguments N.shiftl : simpl never.
Arguments N.testbit : simpl never.
Arguments N.div : simpl never.
Arguments N.modulo : simpl never.
Arguments N.pow : simpl never.

(* ================================================================== helpers *)
Lemma bind_Val_inv {A B} (x : outcome A) (f : A -> outcome B) v :
  bind x f = Val v -> exists a, x = Val a /\ f a = Val v.
Proof. destruct x as [a|]; cbn [bind]; intros H; [now exists a|discriminate]. Qed.
Ltac binv H a E := apply bind_Val_inv in H; destruct H as (a & E & H).

Lemma oadd_ok w a b : a + b < 2 ^ w -> oadd w a b = Val (a + b).
Proof. intros H. unfold oadd. destruct (N.ltb_spec (a + b) (2 ^ w)); [reflexivity|lia]. Qed.
Lemma oadd_Val w a b v : oadd w a b = Val v -> v = a + b /\ a + b < 2 ^ w.
Proof. unfold oadd. destruct (N.ltb_spec (a + b) (2 ^ w)); intros E; [now inversion E|discriminate]. Qed.
Lemma oassert_Val c u : oassert c = Val u -> c = true.
Proof. destruct c; [reflexivity|discriminate]. Qed.
Lemma oshr_ok w x s : s < w -> oshr w x s = Val (N.shiftr x s).
Proof. intros H. unfold oshr. destruct (N.ltb_spec s w); [reflexivity|lia]. Qed.

Lemma popcount_le64 w : w < 2 ^ 64 -> popcount w <= 64.
Proof. intros H. apply (popcount_le_bits 64). exact H. Qed.

(* ------------------------------------------------------------------ lines of 8 words *)
Definition lines8 (data : list (list N)) : Prop := Forall (fun l => len l = 8) data.
Definition zline : list N := [0; 0; 0; 0; 0; 0; 0; 0].

Lemma firstn_app_exact {A} (l1 l2 : list A) n : length l1 = n -> firstn n (l1 ++ l2) = l1.
Proof. intros <-. induction l1 as [|x l1 IH]; cbn [length app firstn]; [now destruct l2|now rewrite IH]. Qed.
Lemma skipn_app_exact {A} (l1 l2 : list A) n : length l1 = n -> skipn n (l1 ++ l2) = l2.
Proof. intros <-. induction l1 as [|x l1 IH]; cbn [length app skipn]; [reflexivity|exact IH]. Qed.

Lemma chunks_aux_concat : forall (data : list (list N)) fuel, lines8 data ->
  (length (concat data) <= fuel)%nat -> chunks_aux 8 (concat data) fuel = data.
Proof.
  induction data as [|l data IH]; intros fuel HL Hf.
  - destruct fuel; reflexivity.
  - inversion HL as [|? ? Hl HL']; subst. cbn [concat] in *.
    assert (Hl8 : length l = 8%nat) by (unfold len in Hl; lia).
    rewrite app_length in Hf.
    destruct fuel as [|fuel]; [lia|]. cbn [chunks_aux].
    destruct l as [|a l']; [discriminate Hl8|]. cbn [app].
    change (a :: l' ++ concat data) with ((a :: l') ++ concat data).
    rewrite firstn_app_exact, skipn_app_exact by exact Hl8. f_equal.
    apply IH; [assumption|]. lia.
Qed.

Lemma chunks_concat data : lines8 data -> chunks 8 (concat data) = data.
Proof. intros HL. apply chunks_aux_concat; [assumption|lia]. Qed.

Lemma lines8_chunks ws : len ws mod 8 = 0 -> lines8 (chunks 8 ws).
Proof. apply chunks_lines8. Qed.

Lemma len_concat8 data : lines8 data -> len (concat data) = 8 * len data.
Proof. apply len_concat_uniform. Qed.

Lemma nthN_concat8 data line k : lines8 data -> k < 8 ->
  nthN (concat data) (line * 8 + k) = match nthN data line with Some l => nthN l k | None => None end.
Proof.
  intros HL Hk. rewrite (nthN_concat_uniform 8 data) by (try assumption; lia).
  replace ((line * 8 + k) / 8) with line by lia. replace ((line * 8 + k) mod 8) with k by lia. reflexivity.
Qed.

Lemma setN_concat8 : forall data line l k v, lines8 data -> nthN data line = Some l -> k < 8 ->
  setN (concat data) (line * 8 + k) v = concat (setN data line (setN l k v)).
Proof.
  induction data as [|x data IH]; intros line l k v HL El Hk; [discriminate El|].
  inversion HL as [|? ? Hx HL']; subst. cbn [nthN] in El. cbn [setN concat].
  destruct (N.eqb_spec line 0) as [->|Hne].
  - injection El as El. subst l. cbn [concat]. replace (0 * 8 + k) with k by lia.
    apply setN_app1. lia.
  - cbn [concat]. rewrite setN_app2 by lia. f_equal.
    replace (line * 8 + k - len x) with (N.pred line * 8 + k) by lia.
    apply IH; assumption.
Qed.

Lemma setN_setN {A} : forall (l : list A) i x y, setN (setN l i x) i y = setN l i y.
Proof.
  induction l as [|a l IH]; intros i x y; [reflexivity|].
  cbn [setN]. destruct (N.eqb_spec i 0) as [->|Hne]; cbn [setN].
  - reflexivity.
  - destruct (N.eqb_spec i 0); [lia|]. now rewrite IH.
Qed.

Lemma lines8_setN data line l : lines8 data -> len l = 8 -> lines8 (setN data line l).
Proof. intros HL Hl. apply Forall_setN; assumption. Qed.

Lemma lines8_nth data line l : lines8 data -> nthN data line = Some l -> len l = 8.
Proof. intros HL E. exact (Forall_nthN _ _ _ _ HL E). Qed.

(* the state correspondence *)
Definition fields (b : bitvec) : list (list N) * N * N := (chunks 8 (bv_words b), bv_nbits b, bv_nones b).

(* ================================================================== DataLine::set_symbol *)
Lemma shl_small s k : s <= 1 -> k < 64 -> N.shiftl s k mod 2 ^ 64 = N.shiftl s k.
Proof.
  intros Hs Hk. apply N.mod_small. rewrite N.shiftl_mul_pow2.
  assert (2 ^ k < 2 ^ 64) by (apply N.pow_lt_mono_r; lia). nia.
Qed.

(* on its own: the generated set_symbol on a line of the data is the hand set_symbol on the flat list *)
Theorem g_bline_set_symbol_sim : forall data line sym i ws',
  lines8 data -> bvl_set_symbol (concat data) line sym i = Val ws' ->
  exists l l', nthN data line = Some l /\ g_bline_set_symbol l sym i = Val l' /\ len l' = 8 /\
               ws' = concat (setN data line l').
Proof.
  intros data line sym i ws' HL E. unfold bvl_set_symbol in E. rewrite BV_LINE_BITS_val in E.
  destruct (N.ltb_spec i 512) as [Hi|]; [|discriminate E]. cbn [oassert bind] in E.
  assert (Hk : N.shiftr i 6 < 8) by (rewrite shr6; lia).
  unfold idx in E. rewrite nthN_concat8 in E by assumption.
  destruct (nthN data line) as [l|] eqn:El; [|discriminate E].
  destruct (nthN l (N.shiftr i 6)) as [w|] eqn:Ew; [|discriminate E].
  cbn [bind] in E. apply Val_inj in E. subst ws'.
  pose proof (lines8_nth _ _ _ HL El) as Hl.
  eexists l, _. split; [reflexivity|]. split; [|split].
  - unfold g_bline_set_symbol. destruct (N.ltb_spec i 512); [|lia]. cbn [oassert bind].
    unfold oshl. destruct (N.ltb_spec (i mod 64) 64); [|lia]. cbn [bind].
    unfold idx. rewrite Ew. cbn [bind]. rewrite nthN_setN_same by (rewrite Hl; exact Hk). cbn [bind].
    rewrite setN_setN. reflexivity.
  - rewrite setN_len. exact Hl.
  - rewrite (shl_small 1) by lia.
    rewrite (shl_small (N.land sym 1)) by (try lia; destruct (land1_cases sym) as [-> | ->]; lia).
    apply setN_concat8; assumption.
Qed.

(* ================================================================== observers (equalities) *)
Theorem g_bvm_len_ok : forall b, g_bvm_len (bv_nbits b) = Val (bv_len b).
Proof. reflexivity. Qed.
Theorem g_bvm_is_empty_ok : forall b, g_bvm_is_empty (bv_nbits b) = Val (bv_is_empty b).
Proof. reflexivity. Qed.
Theorem g_bvm_count_ones_ok : forall b, g_bvm_count_ones (bv_nones b) = Val (bv_count_ones b).
Proof. reflexivity. Qed.
Theorem g_bvm_count_zeros_ok : forall b, g_bvm_count_zeros (bv_nbits b) (bv_nones b) = bv_count_zeros b.
Proof. reflexivity. Qed.
Theorem g_bv_count_ones_ok : forall b, g_bv_count_ones (bv_nones b) = Val (bv_count_ones b).
Proof. reflexivity. Qed.
Theorem g_bv_count_zeros_ok : forall b, g_bv_count_zeros (bv_nbits b) (bv_nones b) = bv_count_zeros b.
Proof. reflexivity. Qed.

Theorem g_bvm_get_unchecked_ok : forall b data index, concat data = bv_words b ->
  g_bvm_get_unchecked data index = bv_get_unchecked b index.
Proof.
  intros b data index E. unfold g_bvm_get_unchecked, bv_get_unchecked. rewrite E. apply g_get_bit_slice_ok.
Qed.

Theorem g_bvm_get_ok : forall b data index, concat data = bv_words b ->
  g_bvm_get data (bv_nbits b) index = bv_get b index.
Proof.
  intros b data index E. unfold g_bvm_get, bv_get, g_bvm_len. cbn [bind].
  destruct (bv_nbits b <=? index); [reflexivity|].
  now rewrite (g_bvm_get_unchecked_ok b data index E).
Qed.

(* get_bits_slice: the generated code checks `shift + len` and `block + 1` at 64 bits *)
Theorem g_get_bits_slice_ok : forall ws index len_, index < 2 ^ 64 -> len_ + 64 <= 2 ^ 64 ->
  g_get_bits_slice ws index len_ = bv_get_bits_slice ws index len_.
Proof.
  intros ws index n Hi Hn. unfold g_get_bits_slice, bv_get_bits_slice. cbv zeta.
  change (2 ^ 64 - 1) with (M64 - 1).
  obind.
  assert (Hs : N.land index 63 < 64).
  { change 63 with (N.ones 6). pose proof (land_ones_lt index 6) as H. change (2 ^ 6) with 64 in H. exact H. }
  rewrite oadd_ok by lia. cbn [bind].
  destruct (N.land index 63 + n <=? 64).
  - obind. rewrite oshr_ok by exact Hs. reflexivity.
  - obind. rewrite oshr_ok by exact Hs. cbn [bind].
    assert (Hb : N.shiftr index 6 + 1 < 2 ^ 64).
    { rewrite shr6. lia. }
    rewrite oadd_ok by exact Hb. cbn [bind]. reflexivity.
Qed.

Theorem g_bv_get_bits_unchecked_ok : forall b data index len_, concat data = bv_words b ->
  index < 2 ^ 64 -> len_ + 64 <= 2 ^ 64 ->
  g_bv_get_bits_unchecked data index len_ = bv_get_bits_unchecked b index len_.
Proof.
  intros b data index n E Hi Hn. unfold g_bv_get_bits_unchecked, bv_get_bits_unchecked. rewrite E.
  now apply g_get_bits_slice_ok.
Qed.
Theorem g_bvm_get_bits_unchecked_ok : forall b data index len_, concat data = bv_words b ->
  index < 2 ^ 64 -> len_ + 64 <= 2 ^ 64 ->
  g_bvm_get_bits_unchecked data index len_ = bv_get_bits_unchecked b index len_.
Proof. exact g_bv_get_bits_unchecked_ok. Qed.

(* get_bits: unconditional equalities (the guards put index and len in range before the slice is read);
   BitVectorMut has `>=` (strict = true, the known finding KF-13), BitVector has `>` *)
Theorem g_bvm_get_bits_ok : forall b data index len_, concat data = bv_words b ->
  g_bvm_get_bits data (bv_nbits b) index len_ = bv_get_bits true b index len_.
Proof.
  intros b data index n E. unfold g_bvm_get_bits, bv_get_bits, checked_add.
  destruct (N.eqb_spec n 0) as [->|Hn0]; cbn [orb]; [reflexivity|].
  destruct (N.ltb_spec 64 n) as [H64|H64]; cbn [orb]; [reflexivity|].
  destruct (N.ltb_spec (index + n) (2 ^ 64)) as [Hov|Hov]; [|reflexivity].
  destruct (bv_nbits b <=? index + n); [reflexivity|].
  rewrite (g_bvm_get_bits_unchecked_ok b) by (try assumption; lia). reflexivity.
Qed.
Theorem g_bv_get_bits_ok : forall b data index len_, concat data = bv_words b ->
  g_bv_get_bits data (bv_nbits b) index len_ = bv_get_bits false b index len_.
Proof.
  intros b data index n E. unfold g_bv_get_bits, bv_get_bits, checked_add.
  destruct (N.eqb_spec n 0) as [->|Hn0]; cbn [orb]; [reflexivity|].
  destruct (N.ltb_spec 64 n) as [H64|H64]; cbn [orb]; [reflexivity|].
  destruct (N.ltb_spec (index + n) (2 ^ 64)) as [Hov|Hov]; [|reflexivity].
  destruct (bv_nbits b <? index + n); [reflexivity|].
  rewrite (g_bv_get_bits_unchecked_ok b) by (try assumption; lia). reflexivity.
Qed.

(* get_word(i) = self.data[i >> 3].words[i % 8] *)
Theorem g_bvm_get_word_ok : forall b i, len (bv_words b) mod 8 = 0 ->
  g_bvm_get_word (chunks 8 (bv_words b)) i = bv_get_word b i.
Proof.
  intros b i Hm. unfold g_bvm_get_word, bv_get_word, idx.
  rewrite <- (nthN_chunks_word (bv_words b) i Hm).
  destruct (nthN (chunks 8 (bv_words b)) (N.shiftr i 3)) as [l|]; reflexivity.
Qed.
Theorem g_bv_get_word_ok : forall b i, len (bv_words b) mod 8 = 0 ->
  g_bv_get_word (chunks 8 (bv_words b)) i = bv_get_word b i.
Proof. exact g_bvm_get_word_ok. Qed.

(* n_lines: the number of DataLines (no counterpart in the hand model: the number of words / 8) *)
Theorem g_bv_n_lines_ok : forall b, len (bv_words b) mod 8 = 0 ->
  g_bv_n_lines (chunks 8 (bv_words b)) = Val (len (bv_words b) / 8).
Proof. intros b Hm. unfold g_bv_n_lines. now rewrite len_chunks. Qed.

(* shrink_to_fit changes no field (capacity is not modelled) *)
Theorem g_bvm_shrink_to_fit_ok : forall data n_bits n_ones,
  g_bvm_shrink_to_fit data n_bits n_ones = Val (data, n_bits, n_ones).
Proof. reflexivity. Qed.

(* ================================================================== the `&mut self` operations *)
(* Each operation is first proved in "data form": for ANY list of 8-word lines [data] whose concatenation is
   the word list of the hand state; the statements with [chunks 8] follow (section "chunks form"). *)
Notation gstate := (list (list N) * N * N)%type.

(* ------------------------------------------------------------------ push *)
Lemma g_bvm_push_data : forall data b bit b',
  lines8 data -> bv_words b = concat data -> bv_nones b <= bv_nbits b ->
  bvm_push b bit = Val b' ->
  exists data', g_bvm_push data (bv_nbits b) (bv_nones b) bit = Val (data', bv_nbits b', bv_nones b') /\
    lines8 data' /\ bv_words b' = concat data' /\ bv_nones b' <= bv_nbits b'.
Proof.
  intros data b bit b' HL Hw Hle E. unfold bvm_push in E. rewrite BV_PUSH_MOD_val, Hw in E.
  unfold g_bvm_push. cbv zeta.
  set (pos := bv_nbits b mod 512) in *.
  assert (H1 : exists data1, (if pos =? 0 then Val (data ++ [zline]) else Val data) = Val data1 /\ lines8 data1 /\
      (if pos =? 0 then concat data ++ repeat 0 8 else concat data) = concat data1).
  { destruct (pos =? 0).
    - exists (data ++ [zline]). split; [reflexivity|]. split.
      + apply Forall_app. split; [assumption|]. constructor; [reflexivity|constructor].
      + rewrite concat_app. reflexivity.
    - exists data. auto. }
  destruct H1 as (data1 & E1 & HL1 & Ec1). unfold zline in E1. rewrite E1. cbn [bind]. rewrite Ec1 in E.
  clear E1 Ec1.
  binv E ws2 E2. binv E nb En. apply Val_inj in E. subst b'. cbn [bv_words bv_nbits bv_nones].
  apply oadd_Val in En. destruct En as [-> Hnb].
  destruct bit.
  - rewrite len_concat8 in E2 by assumption.
    destruct (N.eqb_spec (8 * len data1) 0) as [Hz|Hnz].
    + assert (data1 = []) by (apply len_0_nil; lia). subst data1. cbn [last_opt bind].
      rewrite oadd_ok by lia. cbn [bind]. rewrite oadd_ok by lia. cbn [bind].
      exists []. apply Val_inj in E2. subst ws2. split; [reflexivity|]. split; [constructor|]. split; [reflexivity|lia].
    + assert (Hne : data1 <> []) by (intros ->; apply Hnz; reflexivity).
      destruct (exists_last Hne) as (d & x & ->).
      rewrite last_opt_app. cbv beta iota.
      rewrite len_app, len_cons, len_nil in E2.
      replace (8 * (len d + (0 + 1)) / 8 - 1) with (len d) in E2 by lia.
      destruct (g_bline_set_symbol_sim _ _ _ _ _ HL1 E2) as (l & l' & El & Eg & Hl' & ->).
      rewrite nthN_app2, N.sub_diag in El by lia. change (nthN [x] 0) with (Some x) in El.
      injection El as El. subst l. rewrite Eg. cbn [bind]. rewrite set_last_app.
      rewrite oadd_ok by lia. cbn [bind]. rewrite oadd_ok by lia. cbn [bind].
      rewrite setN_app2, N.sub_diag by lia. change (setN [x] 0 l') with [l'].
      exists (d ++ [l']). split; [reflexivity|]. split.
      * apply Forall_app in HL1. destruct HL1 as [HLd _]. apply Forall_app. split; [assumption|].
        constructor; [assumption|constructor].
      * split; [reflexivity|lia].
  - apply Val_inj in E2. subst ws2. cbn [bind]. rewrite oadd_ok by lia. cbn [bind].
    exists data1. split; [reflexivity|]. split; [assumption|]. split; [reflexivity|lia].
Qed.

(* ------------------------------------------------------------------ append_bits *)
(* `assert!(len == 64 || (bits >> len) == 0)`: the generated right operand is a checked shift *)
Lemma g_bits_assert n bits :
  (n =? 64) || ((if n <? 64 then N.shiftr bits n else 1) =? 0) = true ->
  (if N.eqb n 64 then Val true else let! t1 := oshr 64 bits n in Val (N.eqb t1 0)) = Val true.
Proof.
  intros H. destruct (N.eqb_spec n 64) as [|Hne]; [reflexivity|]. cbn [orb] in H.
  destruct (N.ltb_spec n 64) as [Hlt|Hge].
  - rewrite oshr_ok by exact Hlt. cbn [bind]. now rewrite H.
  - vm_compute in H. discriminate H.
Qed.

Lemma g_append_loop_sim bits R (body : N -> gstate -> outcome (step gstate R)) :
  (forall i d nb no, body i (d, nb, no) =
     (let! t3 := oshr 64 bits i in
      let! (d', nb', no') := g_bvm_push d nb no (N.eqb (N.land t3 1) 1) in
      Val (Next (d', nb', no')))) ->
  forall fuel data b i b', lines8 data -> bv_words b = concat data -> bv_nones b <= bv_nbits b ->
  i + N.of_nat fuel <= 64 -> bvm_append_loop b bits i fuel = Val b' ->
  exists data', for_loop body i fuel (data, bv_nbits b, bv_nones b) = Val (Done (data', bv_nbits b', bv_nones b')) /\
    lines8 data' /\ bv_words b' = concat data' /\ bv_nones b' <= bv_nbits b'.
Proof.
  intros Hbody. induction fuel as [|fuel IH]; intros data b i b' HL Hw Hle Hi E.
  - cbn [bvm_append_loop] in E. apply Val_inj in E. subst b'. exists data. cbn [for_loop]. auto.
  - cbn [bvm_append_loop] in E. binv E b1 E1. cbn [for_loop]. rewrite Hbody.
    rewrite oshr_ok by lia. cbn [bind].
    destruct (g_bvm_push_data _ _ _ _ HL Hw Hle E1) as (d1 & G1 & HL1 & Hw1 & Hle1).
    rewrite G1. cbn [bind]. apply (IH d1 b1 (i + 1) b'); try assumption. lia.
Qed.

Lemma g_bvm_append_bits_data : forall data b bits n b',
  lines8 data -> bv_words b = concat data -> bv_nones b <= bv_nbits b ->
  bvm_append_bits b bits n = Val b' ->
  exists data', g_bvm_append_bits data (bv_nbits b) (bv_nones b) bits n = Val (data', bv_nbits b', bv_nones b') /\
    lines8 data' /\ bv_words b' = concat data' /\ bv_nones b' <= bv_nbits b'.
Proof.
  intros data b bits n b' HL Hw Hle E. unfold bvm_append_bits in E.
  binv E u1 A1. apply oassert_Val in A1. binv E u2 A2. apply oassert_Val in A2.
  unfold g_bvm_append_bits. rewrite (g_bits_assert _ _ A1). cbn [oassert bind]. rewrite A2. cbn [oassert bind].
  destruct (N.eqb_spec n 0) as [Hn0|Hn0].
  - apply Val_inj in E. subst b'. exists data. auto.
  - rewrite N.sub_0_r.
    match goal with |- context [for_loop ?f 0 _ _] =>
      destruct (g_append_loop_sim bits _ f (fun _ _ _ _ => eq_refl) (N.to_nat n) data b 0 b')
        as (data' & G & HL' & Hw' & Hle'); try assumption end.
    + apply N.leb_le in A2. lia.
    + rewrite G. cbn [bind]. exists data'. auto.
Qed.

(* ------------------------------------------------------------------ extend_with_zeros *)
Lemma lines8_firstnN : forall data n, lines8 data -> lines8 (firstnN n data).
Proof.
  induction data as [|x data IH]; intros n HL; cbn [firstnN]; [constructor|].
  inversion HL; subst. destruct (n =? 0); constructor; auto. now apply IH.
Qed.

Lemma firstnN_concat8 data n : lines8 data -> firstnN (n * 8) (concat data) = concat (firstnN n data).
Proof.
  intros HL. apply list_ext_nthN. intros j. rewrite nthN_firstnN.
  rewrite (nthN_concat_uniform 8 (firstnN n data)) by (try lia; now apply lines8_firstnN).
  rewrite nthN_firstnN. rewrite (nthN_concat_uniform 8 data) by (try lia; assumption).
  destruct (N.ltb_spec j (n * 8)), (N.ltb_spec (j / 8) n); try lia; reflexivity.
Qed.

Lemma concat_repeat_zline k : concat (repeat zline k) = repeat 0 (k * 8).
Proof. induction k as [|k IH]; [reflexivity|]. cbn [repeat concat Nat.mul Nat.add]. rewrite IH. reflexivity. Qed.

Lemma resize_concat8 data n : lines8 data ->
  resize_words (concat data) (n * 8) = concat (resize_with data n zline) /\ lines8 (resize_with data n zline).
Proof.
  intros HL. unfold resize_words, resize_with. rewrite len_concat8 by assumption.
  destruct (N.leb_spec (n * 8) (8 * len data)), (N.leb_spec n (len data)); try lia.
  - split; [now apply firstnN_concat8|now apply lines8_firstnN].
  - split.
    + rewrite concat_app, concat_repeat_zline. f_equal. f_equal. lia.
    + apply Forall_app. split; [assumption|]. apply Forall_repeat. reflexivity.
Qed.

Lemma g_bvm_extend_with_zeros_data : forall data b n b',
  lines8 data -> bv_words b = concat data ->
  bvm_extend_with_zeros b n = Val b' ->
  exists data', g_bvm_extend_with_zeros data (bv_nbits b) (bv_nones b) n = Val (data', bv_nbits b', bv_nones b') /\
    lines8 data' /\ bv_words b' = concat data' /\ bv_nbits b <= bv_nbits b' /\ bv_nones b' = bv_nones b.
Proof.
  intros data b n b' HL Hw E. unfold bvm_extend_with_zeros in E. rewrite Hw in E.
  binv E nb En. binv E t Et. apply Val_inj in E. subst b'. cbn [bv_words bv_nbits bv_nones].
  unfold g_bvm_extend_with_zeros. rewrite En. cbn [bind]. change BV_EXT_ROUND with 511 in Et. rewrite Et. cbn [bind].
  cbv zeta. change BV_EXT_DIV with 512.
  destruct (resize_concat8 data (t / 512) HL) as [Er HLr].
  eexists. split; [reflexivity|]. split; [exact HLr|]. split; [exact Er|].
  apply oadd_Val in En. lia.
Qed.

(* ------------------------------------------------------------------ set *)
Lemma g_bvm_set_data : forall data b index bit b',
  lines8 data -> bv_words b = concat data -> bv_nones b + 1 < 2 ^ 64 ->
  bvm_set b index bit = Val b' ->
  exists data', g_bvm_set data (bv_nbits b) (bv_nones b) index bit = Val (data', bv_nbits b', bv_nones b') /\
    lines8 data' /\ bv_words b' = concat data' /\ bv_nbits b' = bv_nbits b /\ bv_nones b' <= bv_nones b + 1.
Proof.
  intros data b index bit b' HL Hw Hno E. unfold bvm_set in E. cbv zeta in E.
  binv E u1 A1. apply oassert_Val in A1. binv E cur Ecur. binv E ones Eones. binv E u2 Hchk. binv E ws2 Es.
  apply Val_inj in E. subst b'. cbn [bv_words bv_nbits bv_nones].
  change BV_SET_SHIFT with 9 in *. change BV_SET_MASK with 511 in *. rewrite Hw in Es.
  destruct (g_bline_set_symbol_sim _ _ _ _ _ HL Es) as (l & l' & El & Eg & Hl' & ->).
  unfold g_bvm_set. rewrite A1. cbn [oassert bind].
  rewrite !(g_bvm_get_unchecked_ok b data index (eq_sym Hw)), Ecur.
  assert (Hones : ones <= bv_nones b + 1).
  { destruct bit, cur; cbn [andb negb] in Eones; try (apply Val_inj in Eones; lia).
    apply osub_Val in Eones. lia. }
  destruct bit, cur; cbn [andb negb bind] in *.
  - apply Val_inj in Eones. subst ones. cbv zeta. unfold idx. rewrite El. cbn [bind]. rewrite Eg. cbn [bind].
    eexists. split; [reflexivity|]. split; [now apply lines8_setN|]. auto.
  - rewrite oadd_ok by lia. cbn [bind]. apply Val_inj in Eones. subst ones.
    cbv zeta. unfold idx. rewrite El. cbn [bind]. rewrite Eg. cbn [bind].
    eexists. split; [reflexivity|]. split; [now apply lines8_setN|]. auto.
  - rewrite Eones. cbn [bind]. cbv zeta. unfold idx. rewrite El. cbn [bind]. rewrite Eg. cbn [bind].
    eexists. split; [reflexivity|]. split; [now apply lines8_setN|]. auto.
  - apply Val_inj in Eones. subst ones. cbv zeta. unfold idx. rewrite El. cbn [bind]. rewrite Eg. cbn [bind].
    eexists. split; [reflexivity|]. split; [now apply lines8_setN|]. auto.
Qed.

(* ------------------------------------------------------------------ set_bits *)
Lemma g_set_bits_loop_sim index bits R (body : N -> list (list N) -> outcome (step (list (list N)) R)) :
  (forall i d, body i d =
     (let! t5 := oadd 64 index i in
      let t6 := N.shiftr t5 9 in
      let! t7 := idx d t6 in
      let! t8 := oshr 64 bits i in
      let! t9 := oadd 64 index i in
      let! t10 := g_bline_set_symbol t7 (N.land t8 1) (t9 mod 512) in
      let d := setN d t6 t10 in
      Val (Next d))) ->
  forall fuel data i ws', lines8 data -> i + N.of_nat fuel <= 64 -> index + i + N.of_nat fuel <= 2 ^ 64 ->
  bvm_set_bits_loop (concat data) index bits i fuel = Val ws' ->
  exists data', for_loop body i fuel data = Val (Done data') /\ lines8 data' /\ ws' = concat data'.
Proof.
  intros Hbody. induction fuel as [|fuel IH]; intros data i ws' HL Hi Hr E.
  - cbn [bvm_set_bits_loop] in E. apply Val_inj in E. subst ws'. exists data. cbn [for_loop]. auto.
  - cbn [bvm_set_bits_loop] in E. cbv zeta in E.
    change BV_SETBITS_SHIFT with 9 in E. change BV_SETBITS_MOD with 512 in E.
    binv E u Hc. binv E ws1 E1.
    destruct (g_bline_set_symbol_sim _ _ _ _ _ HL E1) as (l & l' & El & Eg & Hl' & ->).
    cbn [for_loop]. rewrite Hbody. rewrite oadd_ok by lia. cbn [bind]. cbv zeta.
    unfold idx. rewrite El. cbn [bind]. rewrite oshr_ok by lia. cbn [bind]. rewrite Eg. cbn [bind].
    apply (IH _ (i + 1) ws'); [now apply lines8_setN|lia|lia|exact E].
Qed.

Lemma g_bvm_set_bits_data : forall data b index n bits b',
  lines8 data -> bv_words b = concat data -> bits < 2 ^ 64 -> bv_nones b + 64 < 2 ^ 64 ->
  bvm_set_bits b index n bits = Val b' ->
  exists data', g_bvm_set_bits data (bv_nbits b) (bv_nones b) index n bits = Val (data', bv_nbits b', bv_nones b') /\
    lines8 data' /\ bv_words b' = concat data' /\ bv_nbits b' = bv_nbits b.
Proof.
  intros data b index n bits b' HL Hw Hbits Hno E. unfold bvm_set_bits in E.
  binv E e Ee. binv E u1 A1. apply oassert_Val in A1. binv E u2 A2. apply oassert_Val in A2.
  binv E u3 A3. apply oassert_Val in A3.
  unfold g_bvm_set_bits. rewrite Ee. cbn [bind]. rewrite A1. cbn [oassert bind].
  rewrite (g_bits_assert _ _ A2). cbn [oassert bind]. rewrite A3. cbn [oassert bind].
  apply oadd_Val in Ee. destruct Ee as [-> He]. apply N.leb_le in A3.
  destruct (N.eqb_spec n 0) as [Hn0|Hn0].
  - apply Val_inj in E. subst b'. exists data. auto.
  - rewrite Hw in E. cbv zeta in E. binv E old Eold. binv E o1 Eo1. binv E ws2 Eloop. apply Val_inj in E. subst b'.
    cbn [bv_words bv_nbits bv_nones].
    unfold g_bvm_get_bits_unchecked. rewrite g_get_bits_slice_ok by lia. rewrite Eold. cbn [bind].
    rewrite Eo1. cbn [bind]. apply osub_Val in Eo1. pose proof (popcount_le64 bits Hbits).
    rewrite oadd_ok by lia. cbn [bind]. rewrite N.sub_0_r.
    match goal with |- context [for_loop ?f 0 _ _] =>
      destruct (g_set_bits_loop_sim index bits _ f (fun _ _ => eq_refl) (N.to_nat n) data 0 ws2)
        as (data' & G & HL' & Hw'); try assumption; try lia end.
    rewrite G. cbn [bind]. exists data'. auto.
Qed.

(* ================================================================== chunks form *)
(* the statements of the task: from a hand state with whole lines, the generated operation applied to the
   fields returns the fields of the hand result, which again has whole lines *)
Lemma from_chunks ws : len ws mod 8 = 0 -> lines8 (chunks 8 ws) /\ ws = concat (chunks 8 ws).
Proof. intros H. split; [now apply lines8_chunks|]. symmetry. apply (concat_chunks 7). Qed.

Lemma to_fields data b : lines8 data -> bv_words b = concat data ->
  (data, bv_nbits b, bv_nones b) = fields b /\ len (bv_words b) mod 8 = 0.
Proof.
  intros HL Hw. unfold fields. rewrite Hw, chunks_concat by assumption. split; [reflexivity|].
  rewrite len_concat8 by assumption. lia.
Qed.

Theorem g_bvm_push_sim : forall b bit b', len (bv_words b) mod 8 = 0 -> bv_nones b <= bv_nbits b ->
  bvm_push b bit = Val b' ->
  g_bvm_push (chunks 8 (bv_words b)) (bv_nbits b) (bv_nones b) bit
    = Val (chunks 8 (bv_words b'), bv_nbits b', bv_nones b') /\
  len (bv_words b') mod 8 = 0 /\ bv_nones b' <= bv_nbits b'.
Proof.
  intros b bit b' H8 Hle E. destruct (from_chunks _ H8) as [HL Hw].
  destruct (g_bvm_push_data _ _ _ _ HL Hw Hle E) as (d' & G & HL' & Hw' & Hle').
  destruct (to_fields _ _ HL' Hw') as [Ef H8']. rewrite G, Ef. auto.
Qed.

Theorem g_bvm_append_bits_sim : forall b bits n b', len (bv_words b) mod 8 = 0 -> bv_nones b <= bv_nbits b ->
  bvm_append_bits b bits n = Val b' ->
  g_bvm_append_bits (chunks 8 (bv_words b)) (bv_nbits b) (bv_nones b) bits n
    = Val (chunks 8 (bv_words b'), bv_nbits b', bv_nones b') /\
  len (bv_words b') mod 8 = 0 /\ bv_nones b' <= bv_nbits b'.
Proof.
  intros b bits n b' H8 Hle E. destruct (from_chunks _ H8) as [HL Hw].
  destruct (g_bvm_append_bits_data _ _ _ _ _ HL Hw Hle E) as (d' & G & HL' & Hw' & Hle').
  destruct (to_fields _ _ HL' Hw') as [Ef H8']. rewrite G, Ef. auto.
Qed.

Theorem g_bvm_extend_with_zeros_sim : forall b n b', len (bv_words b) mod 8 = 0 ->
  bvm_extend_with_zeros b n = Val b' ->
  g_bvm_extend_with_zeros (chunks 8 (bv_words b)) (bv_nbits b) (bv_nones b) n
    = Val (chunks 8 (bv_words b'), bv_nbits b', bv_nones b') /\
  len (bv_words b') mod 8 = 0.
Proof.
  intros b n b' H8 E. destruct (from_chunks _ H8) as [HL Hw].
  destruct (g_bvm_extend_with_zeros_data _ _ _ _ HL Hw E) as (d' & G & HL' & Hw' & _).
  destruct (to_fields _ _ HL' Hw') as [Ef H8']. rewrite G, Ef. auto.
Qed.

Theorem g_bvm_set_sim : forall b index bit b', len (bv_words b) mod 8 = 0 -> bv_nones b + 1 < 2 ^ 64 ->
  bvm_set b index bit = Val b' ->
  g_bvm_set (chunks 8 (bv_words b)) (bv_nbits b) (bv_nones b) index bit
    = Val (chunks 8 (bv_words b'), bv_nbits b', bv_nones b') /\
  len (bv_words b') mod 8 = 0.
Proof.
  intros b index bit b' H8 Hno E. destruct (from_chunks _ H8) as [HL Hw].
  destruct (g_bvm_set_data _ _ _ _ _ HL Hw Hno E) as (d' & G & HL' & Hw' & _).
  destruct (to_fields _ _ HL' Hw') as [Ef H8']. rewrite G, Ef. auto.
Qed.

Theorem g_bvm_set_bits_sim : forall b index n bits b', len (bv_words b) mod 8 = 0 ->
  bits < 2 ^ 64 -> bv_nones b + 64 < 2 ^ 64 ->
  bvm_set_bits b index n bits = Val b' ->
  g_bvm_set_bits (chunks 8 (bv_words b)) (bv_nbits b) (bv_nones b) index n bits
    = Val (chunks 8 (bv_words b'), bv_nbits b', bv_nones b') /\
  len (bv_words b') mod 8 = 0.
Proof.
  intros b index n bits b' H8 Hbits Hno E. destruct (from_chunks _ H8) as [HL Hw].
  destruct (g_bvm_set_bits_data _ _ _ _ _ _ HL Hw Hbits Hno E) as (d' & G & HL' & Hw' & _).
  destruct (to_fields _ _ HL' Hw') as [Ef H8']. rewrite G, Ef. auto.
Qed.

(* the observers that read the lines, on the chunks of a hand state *)
Corollary g_bvm_get_unchecked_chunks : forall b index,
  g_bvm_get_unchecked (chunks 8 (bv_words b)) index = bv_get_unchecked b index.
Proof. intros. apply g_bvm_get_unchecked_ok, (concat_chunks 7). Qed.
Corollary g_bvm_get_chunks : forall b index,
  g_bvm_get (chunks 8 (bv_words b)) (bv_nbits b) index = bv_get b index.
Proof. intros. apply g_bvm_get_ok, (concat_chunks 7). Qed.
Corollary g_bvm_get_bits_chunks : forall b index len_,
  g_bvm_get_bits (chunks 8 (bv_words b)) (bv_nbits b) index len_ = bv_get_bits true b index len_.
Proof. intros. apply g_bvm_get_bits_ok, (concat_chunks 7). Qed.
Corollary g_bv_get_bits_chunks : forall b index len_,
  g_bv_get_bits (chunks 8 (bv_words b)) (bv_nbits b) index len_ = bv_get_bits false b index len_.
Proof. intros. apply g_bv_get_bits_ok, (concat_chunks 7). Qed.
Corollary g_bvm_get_bits_unchecked_chunks : forall b index len_, index < 2 ^ 64 -> len_ + 64 <= 2 ^ 64 ->
  g_bvm_get_bits_unchecked (chunks 8 (bv_words b)) index len_ = bv_get_bits_unchecked b index len_.
Proof. intros. apply g_bvm_get_bits_unchecked_ok; try assumption. apply (concat_chunks 7). Qed.
Corollary g_bv_get_bits_unchecked_chunks : forall b index len_, index < 2 ^ 64 -> len_ + 64 <= 2 ^ 64 ->
  g_bv_get_bits_unchecked (chunks 8 (bv_words b)) index len_ = bv_get_bits_unchecked b index len_.
Proof. intros. apply g_bv_get_bits_unchecked_ok; try assumption. apply (concat_chunks 7). Qed.

(* ================================================================== END TO END (C08) *)
(* what the invariant of C08 gives for the hypotheses of the simulations *)
Lemma inv_lines b : bv_inv b -> len (bv_words b) mod 8 = 0.
Proof. intros H. rewrite (inv_words_len b H). lia. Qed.
Lemma inv_nones_le b : bv_inv b -> bv_nones b <= bv_nbits b /\ bv_nbits b < 2 ^ 63.
Proof.
  intros H. split; [|exact (inv_small b H)].
  rewrite (inv_nones b H), <- (inv_len b H). apply countb_le_len.
Qed.

(* ------------------------------------------------------------------ the operations *)
(* The two `Extend` impls are loops over the regenerated push / extend_with_zeros / set:
     for bit in iter { self.push(bit) }
     for pos in iter { if pos >= self.n_bits { self.extend_with_zeros(pos + 1 - self.n_bits) } self.set(pos, true) }
   (the loops themselves are written here by hand, as in Model/BitVec.v; every call is a generated function) *)
Fixpoint g_extend_bools (d : list (list N)) (nb no : N) (bs : list bool) : outcome gstate :=
  match bs with
  | [] => Val (d, nb, no)
  | x :: r => let! (d', nb', no') := g_bvm_push d nb no x in g_extend_bools d' nb' no' r
  end.
Fixpoint g_extend_positions (d : list (list N)) (nb no : N) (ps : list N) : outcome gstate :=
  match ps with
  | [] => Val (d, nb, no)
  | p :: r =>
      let! (d1, nb1, no1) :=
        (if nb <=? p then (let! p1 := oadd 64 p 1 in let! k := osub p1 nb in g_bvm_extend_with_zeros d nb no k)
         else Val (d, nb, no)) in
      let! (d2, nb2, no2) := g_bvm_set d1 nb1 no1 p true in
      g_extend_positions d2 nb2 no2 r
  end.

(* one operation of a history, on the three fields: GENERATED functions only for OPush / OAppend / OZeros /
   OSet / OSetBits *)
Definition gstep (s : gstate) (o : bvop) : outcome gstate :=
  let '(d, nb, no) := s in
  match o with
  | OPush bit => g_bvm_push d nb no bit
  | OAppend bits n => g_bvm_append_bits d nb no bits n
  | OZeros n => g_bvm_extend_with_zeros d nb no n
  | OSet i bit => g_bvm_set d nb no i bit
  | OSetBits i n bits => g_bvm_set_bits d nb no i n bits
  | OExtBools bs => g_extend_bools d nb no bs
  | OExtPos ps => g_extend_positions d nb no ps
  end.
(* the fold of the generated operations over a history *)
Fixpoint grun (s : gstate) (h : list bvop) : outcome gstate :=
  match h with [] => Val s | o :: r => let! s' := gstep s o in grun s' r end.
(* BitVectorMut::default() / new(): no line, no bit *)
Definition gempty : gstate := ([], 0, 0).

(* histories made of the five regenerated operations only *)
Definition op_gen (o : bvop) : Prop :=
  match o with OExtBools _ | OExtPos _ => False | _ => True end.

Lemma g_extend_bools_sim : forall bs b b', len (bv_words b) mod 8 = 0 -> bv_nones b <= bv_nbits b ->
  bvm_extend_bools b bs = Val b' ->
  g_extend_bools (chunks 8 (bv_words b)) (bv_nbits b) (bv_nones b) bs = Val (fields b').
Proof.
  induction bs as [|x bs IH]; intros b b' H8 Hle E; cbn [bvm_extend_bools g_extend_bools] in *.
  - apply Val_inj in E. subst b'. reflexivity.
  - binv E b1 E1. destruct (g_bvm_push_sim _ _ _ H8 Hle E1) as (G1 & H81 & Hle1).
    rewrite G1. cbn [bind]. now apply IH.
Qed.

Lemma bvm_set_Val_lt b i bit b' : bvm_set b i bit = Val b' -> i < bv_nbits b.
Proof. unfold bvm_set. intros E. binv E u A. apply oassert_Val in A. lia. Qed.

Lemma g_extend_positions_sim : forall ps b b', bv_inv b -> Forall (fun p => p < 2 ^ 63 - 1) ps ->
  bvm_extend_positions b ps = Val b' ->
  g_extend_positions (chunks 8 (bv_words b)) (bv_nbits b) (bv_nones b) ps = Val (fields b').
Proof.
  induction ps as [|p ps IH]; intros b b' Hinv HF E; cbn [bvm_extend_positions g_extend_positions] in *.
  - apply Val_inj in E. subst b'. reflexivity.
  - inversion HF as [|? ? Hp HF']; subst. binv E b1 E1. binv E b2 E2.
    destruct (inv_nones_le b Hinv) as [Hle Hsm].
    assert (H1 : bv_inv b1 /\
      (if bv_nbits b <=? p
       then (let! p1 := oadd 64 p 1 in let! k := osub p1 (bv_nbits b) in
             g_bvm_extend_with_zeros (chunks 8 (bv_words b)) (bv_nbits b) (bv_nones b) k)
       else Val (chunks 8 (bv_words b), bv_nbits b, bv_nones b)) = Val (fields b1)).
    { destruct (N.leb_spec (bv_nbits b) p) as [Hge|Hlt].
      - binv E1 p1 Ep1. binv E1 k Ek. rewrite Ep1. cbn [bind]. rewrite Ek. cbn [bind].
        apply oadd_Val in Ep1. destruct Ep1 as [-> _]. apply osub_Val in Ek. destruct Ek as [-> _].
        split.
        + destruct (bvm_extend_with_zeros_spec b (p + 1 - bv_nbits b) Hinv) as (b1' & E1' & Hinv1 & _); [lia|].
          rewrite E1 in E1'. apply Val_inj in E1'. now subst b1'.
        + apply g_bvm_extend_with_zeros_sim; [now apply inv_lines|exact E1].
      - apply Val_inj in E1. subst b1. auto. }
    destruct H1 as [Hinv1 G1]. rewrite G1. unfold fields at 1. cbn [bind].
    destruct (inv_nones_le b1 Hinv1) as [Hle1 Hsm1].
    destruct (g_bvm_set_sim b1 p true b2 (inv_lines b1 Hinv1)) as [G2 _]; [lia|exact E2|].
    rewrite G2. cbn [bind]. apply IH; try assumption.
    destruct (bvm_set_spec b1 p true Hinv1 (bvm_set_Val_lt _ _ _ _ E2)) as (b2' & E2' & Hinv2 & _).
    rewrite E2 in E2'. apply Val_inj in E2'. now subst b2'.
Qed.

(* one operation: the generated operation on the fields of a state of the invariant returns the fields of
   what the hand operation returns *)
Theorem gstep_sim : forall b o b', bv_inv b -> op_pre (bv_abs b) o = true -> op_small (bv_abs b) o ->
  bvstep b o = Val b' -> gstep (fields b) o = Val (fields b').
Proof.
  intros b o b' Hinv Hpre Hsm E. pose proof (inv_lines b Hinv) as H8.
  destruct (inv_nones_le b Hinv) as [Hle Hnb].
  unfold fields at 1. destruct o as [bit|bits n|n|i bit|i n bits|bs|ps]; cbn [bvstep gstep op_pre op_small] in *.
  - now apply g_bvm_push_sim.
  - now apply g_bvm_append_bits_sim.
  - now apply g_bvm_extend_with_zeros_sim.
  - apply g_bvm_set_sim; [assumption|lia|assumption].
  - apply g_bvm_set_bits_sim; [assumption| |lia|assumption].
    assert (2 ^ n <= 2 ^ 64) by (apply N.pow_le_mono_r; lia). lia.
  - now apply g_extend_bools_sim.
  - now apply g_extend_positions_sim.
Qed.

(* (1) every operation, from every state of the invariant, with its documented precondition: the GENERATED
   operation returns the fields of a state of the invariant whose abstraction is the list specification *)
Theorem g_step_correct : forall b o, bv_inv b -> op_pre (bv_abs b) o = true -> op_small (bv_abs b) o ->
  exists b', gstep (fields b) o = Val (fields b') /\ bv_inv b' /\ bv_abs b' = op_spec (bv_abs b) o.
Proof.
  intros b o Hinv Hpre Hsm. destruct (bv_step_correct b o Hinv Hpre Hsm) as (b' & E & Hinv' & Habs).
  exists b'. split; [|auto]. now apply gstep_sim.
Qed.

(* ------------------------------------------------------------------ (2) the observers *)
(* what the regenerated observers of BitVectorMut (and of BitVector, which has the same fields) answer on the
   fields [s] when the vector holds the bits [l]; get_bits of BitVectorMut with the `>=` of KF-13 (i + n < len),
   get_bits of BitVector with i + n <= len *)
Definition gobs (s : gstate) (l : list bool) : Prop :=
  let '(data, nb, no) := s in
  g_bvm_len nb = Val (len l) /\
  g_bvm_is_empty nb = Val (len l =? 0) /\
  g_bvm_count_ones no = Val (countb l) /\
  g_bvm_count_zeros nb no = Val (len l - countb l) /\
  (forall i, g_bvm_get data nb i = Val (nthN l i)) /\
  (forall i n, g_bvm_get_bits data nb i n =
     Val (if (1 <=? n) && (n <=? 64) && (i + n <? len l)
          then Some (bits_value (firstnN n (skipnN i l))) else None)) /\
  (forall w, g_bvm_get_word data w =
     if w <? 8 * ((len l + 511) / 512) then Val (bits_value (firstnN 64 (skipnN (64 * w) l))) else Fault Panic) /\
  (forall i, i < len l -> g_bvm_get_unchecked data i = Val (nthb l i)) /\
  (forall i n, 1 <= n -> n <= 64 -> i + n <= len l ->
     g_bvm_get_bits_unchecked data i n = Val (bits_value (firstnN n (skipnN i l)))) /\
  (* BitVector *)
  g_bv_count_ones no = Val (countb l) /\
  g_bv_count_zeros nb no = Val (len l - countb l) /\
  g_bv_n_lines data = Val ((len l + 511) / 512) /\
  (forall i n, g_bv_get_bits data nb i n =
     Val (if (1 <=? n) && (n <=? 64) && (i + n <=? len l)
          then Some (bits_value (firstnN n (skipnN i l))) else None)) /\
  (forall w, g_bv_get_word data w =
     if w <? 8 * ((len l + 511) / 512) then Val (bits_value (firstnN 64 (skipnN (64 * w) l))) else Fault Panic) /\
  (forall i n, 1 <= n -> n <= 64 -> i + n <= len l ->
     g_bv_get_bits_unchecked data i n = Val (bits_value (firstnN n (skipnN i l)))).

Theorem g_len_correct : forall b, bv_inv b -> g_bvm_len (bv_nbits b) = Val (len (bv_abs b)).
Proof. intros b H. rewrite g_bvm_len_ok. now rewrite (bv_len_correct b H). Qed.
Theorem g_is_empty_correct : forall b, bv_inv b -> g_bvm_is_empty (bv_nbits b) = Val (len (bv_abs b) =? 0).
Proof. intros b H. rewrite g_bvm_is_empty_ok. now rewrite (bv_is_empty_correct b H). Qed.
Theorem g_counts_correct : forall b, bv_inv b ->
  g_bvm_count_ones (bv_nones b) = Val (countb (bv_abs b)) /\
  g_bvm_count_zeros (bv_nbits b) (bv_nones b) = Val (len (bv_abs b) - countb (bv_abs b)).
Proof.
  intros b H. destruct (bv_count_correct b H) as [H1 H0].
  rewrite g_bvm_count_ones_ok, g_bvm_count_zeros_ok, H1, H0. auto.
Qed.
Theorem g_get_correct : forall b i, bv_inv b ->
  g_bvm_get (chunks 8 (bv_words b)) (bv_nbits b) i = Val (nthN (bv_abs b) i).
Proof. intros b i H. rewrite g_bvm_get_chunks. now apply bv_get_correct. Qed.
(* KF-13: `i + n < len` exactly as C08_get_bits states it for strict = true *)
Theorem g_get_bits_correct : forall b i n, bv_inv b ->
  g_bvm_get_bits (chunks 8 (bv_words b)) (bv_nbits b) i n =
  Val (if (1 <=? n) && (n <=? 64) && (i + n <? len (bv_abs b))
       then Some (bits_value (firstnN n (skipnN i (bv_abs b)))) else None).
Proof. intros b i n H. rewrite g_bvm_get_bits_chunks. exact (bv_get_bits_correct true b i n H). Qed.
Theorem g_bv_get_bits_correct : forall b i n, bv_inv b ->
  g_bv_get_bits (chunks 8 (bv_words b)) (bv_nbits b) i n =
  Val (if (1 <=? n) && (n <=? 64) && (i + n <=? len (bv_abs b))
       then Some (bits_value (firstnN n (skipnN i (bv_abs b)))) else None).
Proof. intros b i n H. rewrite g_bv_get_bits_chunks. exact (bv_get_bits_correct false b i n H). Qed.
Theorem g_get_word_correct : forall b w, bv_inv b ->
  g_bvm_get_word (chunks 8 (bv_words b)) w =
  if w <? 8 * ((len (bv_abs b) + 511) / 512)
  then Val (bits_value (firstnN 64 (skipnN (64 * w) (bv_abs b)))) else Fault Panic.
Proof. intros b w H. rewrite g_bvm_get_word_ok by now apply inv_lines. now apply bv_get_word_correct. Qed.
Theorem g_get_unchecked_correct : forall b i, bv_inv b -> i < len (bv_abs b) ->
  g_bvm_get_unchecked (chunks 8 (bv_words b)) i = Val (nthb (bv_abs b) i).
Proof. intros b i H Hi. rewrite g_bvm_get_unchecked_chunks. now apply bv_get_unchecked_correct. Qed.
Theorem g_get_bits_unchecked_correct : forall b i n, bv_inv b -> 1 <= n -> n <= 64 -> i + n <= len (bv_abs b) ->
  g_bvm_get_bits_unchecked (chunks 8 (bv_words b)) i n = Val (bits_value (firstnN n (skipnN i (bv_abs b)))).
Proof.
  intros b i n H H1 H2 H3. pose proof (inv_len b H) as Hl. pose proof (inv_small b H) as Hs.
  rewrite g_bvm_get_bits_unchecked_chunks by lia. now apply bv_get_bits_unchecked_correct.
Qed.
Theorem g_n_lines_correct : forall b, bv_inv b ->
  g_bv_n_lines (chunks 8 (bv_words b)) = Val ((len (bv_abs b) + 511) / 512).
Proof.
  intros b H. rewrite g_bv_n_lines_ok by now apply inv_lines. rewrite (inv_words_len b H), (inv_len b H).
  f_equal. lia.
Qed.

Theorem g_observers_correct : forall b, bv_inv b -> gobs (fields b) (bv_abs b).
Proof.
  intros b H. unfold gobs, fields. destruct (g_counts_correct b H) as [H1 H0].
  split; [now apply g_len_correct|]. split; [now apply g_is_empty_correct|].
  split; [exact H1|]. split; [exact H0|].
  split; [intros; now apply g_get_correct|]. split; [intros; now apply g_get_bits_correct|].
  split; [intros; now apply g_get_word_correct|]. split; [intros; now apply g_get_unchecked_correct|].
  split; [intros; now apply g_get_bits_unchecked_correct|].
  split; [exact H1|]. split; [exact H0|]. split; [now apply g_n_lines_correct|].
  split; [intros; now apply g_bv_get_bits_correct|]. split; [intros; now apply g_get_word_correct|].
  intros. now apply g_get_bits_unchecked_correct.
Qed.

(* ------------------------------------------------------------------ (3) histories *)
Lemma g_history_from : forall h b, bv_inv b -> hist_ok (bv_abs b) h ->
  exists b', grun (fields b) h = Val (fields b') /\ bv_inv b' /\ bv_abs b' = fold_left op_spec h (bv_abs b).
Proof.
  induction h as [|o h IH]; intros b Hinv Hok; cbn [grun fold_left].
  - exists b. auto.
  - destruct Hok as (Hpre & Hsm & Hok).
    destruct (g_step_correct b o Hinv Hpre Hsm) as (b1 & E1 & Hinv1 & Habs1). rewrite E1. cbn [bind].
    rewrite <- Habs1 in Hok |- *. now apply IH.
Qed.

(* every history from the empty vector: folding the GENERATED operations gives the fields of a state of the
   invariant whose abstraction is the list obtained by folding op_spec *)
Theorem g_history_correct : forall h, hist_ok [] h ->
  exists b, grun gempty h = Val (fields b) /\ bv_inv b /\ bv_abs b = fold_left op_spec h [].
Proof.
  intros h Hok. destruct bv_inv_empty as [Hinv Habs]. rewrite <- Habs in Hok |- *.
  change gempty with (fields bv_empty). now apply g_history_from.
Qed.

(* the same about the regenerated code only (no hand-model function in the statement): after any history
   satisfying the documented preconditions the generated operations have not faulted and every generated
   observer answers as the list computed by the specification *)
Theorem g_history_observed : forall h, hist_ok [] h ->
  exists s, grun gempty h = Val s /\ gobs s (fold_left op_spec h []).
Proof.
  intros h Hok. destruct (g_history_correct h Hok) as (b & E & Hinv & Habs).
  exists (fields b). split; [exact E|]. rewrite <- Habs. now apply g_observers_correct.
Qed.

(* non-vacuity: the history of C08_example, run through the generated operations *)
Example g_ex_run :
  match grun gempty ex_hist with
  | Val (data, nb, no) =>
      g_bvm_len nb = Val 601 /\ g_bvm_count_ones no = Val 14 /\ g_bvm_count_zeros nb no = Val 587 /\ len data = 2 /\
      g_bvm_get data nb 600 = Val (Some true) /\ g_bvm_get data nb 601 = Val None /\
      g_bvm_get_bits data nb 508 7 = Val (Some 123) /\
      g_bvm_get_bits data nb 593 8 = Val None /\ g_bv_get_bits data nb 593 8 = Val (Some 128) /\
      g_bvm_get_word data 9 = Val 16777216 /\ g_bvm_get_word data 16 = Fault Panic
  | Fault _ => False
  end.
Proof. vm_compute. repeat split. Qed.

(* histories made of the five regenerated operations only: [grun] is then a fold of generated functions alone *)
Corollary g_history_generated_only : forall h, Forall op_gen h -> hist_ok [] h ->
  exists s, grun gempty h = Val s /\ gobs s (fold_left op_spec h []).
Proof. intros h _. apply g_history_observed. Qed.

(* ------------------------------------------------------------------ the documented panics *)
(* the converse direction for the preconditions: when the documented precondition of an operation is violated
   the GENERATED operation faults too (C08_step_panics for the regenerated code) *)
Lemma g_bits_assert_fail n bits : bits < 2 ^ 64 -> (n <=? 64) && (bits <? 2 ^ n) = false ->
  (exists f, (if N.eqb n 64 then Val true else let! t1 := oshr 64 bits n in Val (N.eqb t1 0)) = Fault f) \/
  (if N.eqb n 64 then Val true else let! t1 := oshr 64 bits n in Val (N.eqb t1 0)) = Val false.
Proof.
  intros Ht H. destruct (N.eqb_spec n 64) as [->|Hne].
  - change (64 <=? 64) with true in H. cbn [andb] in H. destruct (N.ltb_spec bits (2 ^ 64)); [discriminate H|lia].
  - unfold oshr. destruct (N.ltb_spec n 64) as [Hlt|Hge]; cbn [bind]; [|left; eauto].
    right. f_equal. destruct (N.eqb_spec (N.shiftr bits n) 0) as [Hz|]; [|reflexivity].
    exfalso. rewrite N.shiftr_div_pow2 in Hz. pose proof (pow2_pos n).
    destruct (N.leb_spec n 64); [|lia]. cbn [andb] in H.
    destruct (N.ltb_spec bits (2 ^ n)) as [|Hb]; [discriminate H|].
    assert (1 <= bits / 2 ^ n) by (apply N.div_le_lower_bound; lia). lia.
Qed.

Theorem g_step_panics : forall b o, bv_inv b -> op_typed o -> op_pre (bv_abs b) o = false ->
  exists f, gstep (fields b) o = Fault f.
Proof.
  intros b o Hinv Hty Hpre. pose proof (inv_len b Hinv) as Hl.
  unfold fields. destruct o as [bit|bits n|n|i bit|i n bits|bs|ps]; cbn [gstep op_pre op_typed] in *;
    try discriminate Hpre.
  - unfold g_bvm_append_bits. destruct (g_bits_assert_fail n bits Hty Hpre) as [(f & ->)| ->]; cbn [oassert bind]; eauto.
  - unfold g_bvm_set. rewrite Hl in Hpre. rewrite Hpre. cbn [oassert bind]. eauto.
  - unfold g_bvm_set_bits. unfold oadd. destruct (N.ltb_spec (i + n) (2 ^ 64)); cbn [bind]; [|eauto].
    rewrite Hl in Hpre. destruct (N.leb_spec (i + n) (bv_nbits b)); cbn [oassert bind]; [|eauto].
    cbn [andb] in Hpre.
    destruct (g_bits_assert_fail n bits Hty Hpre) as [(f & ->)| ->]; cbn [oassert bind]; eauto.
Qed.

(* ================================================================== SUMMARY
   Equalities (E), all arguments unless a hypothesis is shown:
     g_bvm_len_ok / g_bvm_is_empty_ok / g_bvm_count_ones_ok / g_bvm_count_zeros_ok / g_bv_count_ones_ok /
     g_bv_count_zeros_ok / g_bvm_shrink_to_fit_ok                                   by computation
     g_bvm_get_unchecked_ok, g_bvm_get_ok             concat data = bv_words b
     g_get_bits_slice_ok                              index < 2^64, len + 64 <= 2^64   (usize arguments; the generated
                                                      code checks `shift + len` and `block + 1` at 64 bits)
     g_bv(m)_get_bits_unchecked_ok                    the same
     g_bvm_get_bits_ok  (strict = true, KF-13 `>=`),  g_bv_get_bits_ok (strict = false, `>`)      unconditional
     g_bvm_get_word_ok, g_bv_get_word_ok, g_bv_n_lines_ok      len (bv_words b) mod 8 = 0
   Simulations (S) of the `&mut self` operations: hand_op b args = Val b' ->
        g_op (chunks 8 (bv_words b)) (bv_nbits b) (bv_nones b) args = Val (chunks 8 (bv_words b'), bv_nbits b', bv_nones b')
        /\ len (bv_words b') mod 8 = 0
     g_bline_set_symbol_sim       (on line [line] of any list of 8-word lines)
     g_bvm_push_sim, g_bvm_append_bits_sim     len ws mod 8 = 0, bv_nones b <= bv_nbits b (preserved)
                                               [`self.n_ones += 1` is checked in the generated code, plain in the model]
     g_bvm_extend_with_zeros_sim               len ws mod 8 = 0
     g_bvm_set_sim                             len ws mod 8 = 0, bv_nones b + 1 < 2^64
     g_bvm_set_bits_sim                        len ws mod 8 = 0, bits < 2^64, bv_nones b + 64 < 2^64
   End to end, with bv_inv of Proofs/BitVecP.v (all its bounds follow from it):
     g_step_correct        (1)   g_step_panics (the documented panics)
     g_observers_correct   (2)   (and the separate g_len_correct, g_counts_correct, g_get_correct,
                                  g_get_bits_correct [KF-13], g_bv_get_bits_correct, g_get_word_correct, ...)
     g_history_correct, g_history_observed   (3)
   No mismatch between the hand model and the generated code was found.  Differences that the simulations absorb:
   the generated code checks `n_ones += 1`, `n_ones += popcount(bits)`, `block + 1`, `shift + len` at 64 bits
   (never failing under the invariant); for `len > 64` the assertion `len == 64 || bits >> len == 0` is Fault
   Overflow (shift amount) in the generated code and Fault Panic in the model (both fault). *)
Print Assumptions g_bline_set_symbol_sim.
Print Assumptions g_get_bits_slice_ok.
Print Assumptions g_bvm_get_ok.
Print Assumptions g_bvm_get_bits_ok.
Print Assumptions g_bv_get_bits_ok.
Print Assumptions g_bvm_get_word_ok.
Print Assumptions g_bv_n_lines_ok.
Print Assumptions g_bvm_push_sim.
Print Assumptions g_bvm_append_bits_sim.
Print Assumptions g_bvm_extend_with_zeros_sim.
Print Assumptions g_bvm_set_sim.
Print Assumptions g_bvm_set_bits_sim.
Print Assumptions gstep_sim.
Print Assumptions g_step_correct.
Print Assumptions g_step_panics.
Print Assumptions g_observers_correct.
Print Assumptions g_history_correct.
Print Assumptions g_history_observed.
Print Assumptions g_history_generated_only.
Print Assumptions g_ex_run.
