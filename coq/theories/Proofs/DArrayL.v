(* Generic list / bit lemmas used by the darray proofs (Proofs/DArrayB.v, Proofs/DArrayP.v). *)
From Coq Require Import ZArith Lia ZifyBool ZifyN ZifyNat.
From QwtModel Require Import ListX Consts Words Seq ListXP.
Ltac Zify.zify_post_hook ::= Z.div_mod_to_equations.
Arguments N.add : simpl never.
Arguments N.sub : simpl never.
Arguments N.mul : simpl never.
Arguments N.eqb : simpl never.
Arguments N.ltb : simpl never.
Arguments N.leb : simpl never.
Arguments N.pred : simpl never.
Arguments N.of_nat : simpl never.
Arguments N.to_nat : simpl never.
Arguments N.land : simpl never.
Arguments N.lor : simpl never.
Arguments N.lxor : simpl never.
Arguments N.shiftr : simpl never.
Arguments N.shiftl : simpl never.
Arguments N.div : simpl never.
Arguments N.modulo : simpl never.
Arguments N.pow : simpl never.
Arguments N.testbit : simpl never.

(* ------------------------------------------------------------------ nthN rules *)
Lemma len_repeat {A} (a : A) n : len (repeat a n) = N.of_nat n.
Proof. unfold len. now rewrite repeat_length. Qed.
Lemma len_rev {A} (l : list A) : len (rev l) = len l.
Proof. unfold len. now rewrite rev_length. Qed.
Lemma len_map {A B} (f : A -> B) l : len (map f l) = len l.
Proof. unfold len. now rewrite map_length. Qed.
Lemma len_0_nil {A} (l : list A) : len l = 0 -> l = [].
Proof. destruct l; [reflexivity|]. rewrite len_cons. lia. Qed.

Lemma nthN_ext {A} : forall (l1 l2 : list A), (forall i, nthN l1 i = nthN l2 i) -> l1 = l2.
Proof.
  induction l1 as [|x l1 IH]; intros [|y l2] H.
  - reflexivity.
  - specialize (H 0). discriminate.
  - specialize (H 0). discriminate.
  - pose proof (H 0) as H0. rewrite !nthN_0 in H0. injection H0 as ->. f_equal.
    apply IH. intros i. specialize (H (i + 1)). now rewrite !nthN_succ in H.
Qed.

Lemma nthN_app {A} (l1 l2 : list A) x :
  nthN (l1 ++ l2) x = if x <? len l1 then nthN l1 x else nthN l2 (x - len l1).
Proof.
  destruct (N.ltb_spec x (len l1)); [now apply nthN_app1|now apply nthN_app2].
Qed.
Lemma nthN_app_some {A} (l1 l2 : list A) x a : nthN l1 x = Some a -> nthN (l1 ++ l2) x = Some a.
Proof. intros H. rewrite nthN_app1; [exact H|]. eapply nthN_some_lt; eauto. Qed.
Lemma nthN_snoc {A} (l : list A) a : nthN (l ++ [a]) (len l) = Some a.
Proof. rewrite nthN_app2 by lia. now rewrite N.sub_diag. Qed.

Lemma nthN_firstnN {A} (l : list A) : forall a x,
  nthN (firstnN a l) x = if x <? a then nthN l x else None.
Proof.
  induction l as [|y l IH]; intros a x; cbn [firstnN].
  - cbn [nthN]. now destruct (x <? a).
  - destruct (N.eqb_spec a 0) as [->|Ha].
    + replace (x <? 0) with false by lia. reflexivity.
    + cbn [nthN]. destruct (N.eqb_spec x 0) as [->|Hx].
      * replace (0 <? a) with true by lia. reflexivity.
      * rewrite IH. replace (N.pred x <? N.pred a) with (x <? a) by lia. reflexivity.
Qed.
Lemma nthN_skipnN {A} (l : list A) : forall a x, nthN (skipnN a l) x = nthN l (a + x).
Proof.
  induction l as [|y l IH]; intros a x; cbn [skipnN].
  - reflexivity.
  - destruct (N.eqb_spec a 0) as [->|Ha].
    + now rewrite N.add_0_l.
    + rewrite IH. replace (a + x) with ((N.pred a + x) + 1) by lia. now rewrite nthN_succ.
Qed.
Lemma nthN_repeat_full {A} (a : A) n x : nthN (repeat a n) x = if x <? N.of_nat n then Some a else None.
Proof.
  destruct (N.ltb_spec x (N.of_nat n)); [now apply nthN_repeat|].
  apply nthN_none. now rewrite len_repeat.
Qed.
Lemma nthN_rev_last {A} (l : list A) x : nthN (rev (x :: l)) (len l) = Some x.
Proof. cbn [rev]. rewrite <- (len_rev l). apply nthN_snoc. Qed.

Lemma len_firstnN_le {A} (l : list A) a : a <= len l -> len (firstnN a l) = a.
Proof. intros H. rewrite firstnN_len. lia. Qed.
Lemma len_skipnN {A} (l : list A) a : len (skipnN a l) = len l - a.
Proof. rewrite skipnN_skipn. unfold len. rewrite skipn_length. lia. Qed.

Lemma len_by_nthN {A} (l : list A) n :
  (forall j, j < n -> nthN l j <> None) -> (forall j, n <= j -> nthN l j = None) -> len l = n.
Proof.
  intros H1 H2.
  destruct (N.lt_trichotomy (len l) n) as [H|[H|H]]; [|exact H|].
  - exfalso. apply (H1 (len l) H). apply nthN_none. lia.
  - exfalso. destruct (nthN_lt_some l n H) as (a & E). rewrite H2 in E by lia. discriminate.
Qed.

(* ------------------------------------------------------------------ firstnN / skipnN algebra *)
Ltac nth_rules :=
  repeat first [rewrite nthN_app | rewrite nthN_firstnN | rewrite nthN_skipnN | rewrite nthN_repeat_full
               | rewrite firstnN_len | rewrite len_skipnN | rewrite len_repeat].

Lemma firstnN_succ {A} (y : A) l x : firstnN (x + 1) (y :: l) = y :: firstnN x l.
Proof. cbn [firstnN]. destruct (N.eqb_spec (x + 1) 0); [lia|]. do 2 f_equal. lia. Qed.
Lemma firstnN_0 {A} (l : list A) : firstnN 0 l = [].
Proof. destruct l; reflexivity. Qed.
Lemma skipnN_0 {A} (l : list A) : skipnN 0 l = l.
Proof. destruct l; reflexivity. Qed.

Lemma firstnN_skipnN_id {A} (l : list A) a : firstnN a l ++ skipnN a l = l.
Proof. rewrite firstnN_firstn, skipnN_skipn. apply firstn_skipn. Qed.

Lemma firstnN_app_ge {A} (l1 l2 : list A) a : len l1 <= a ->
  firstnN a (l1 ++ l2) = l1 ++ firstnN (a - len l1) l2.
Proof.
  intros H. apply nthN_ext. intros x. nth_rules.
  destruct (N.ltb_spec x (len l1)), (N.ltb_spec x a); try lia; try reflexivity.
  - destruct (N.ltb_spec (x - len l1) (a - len l1)); try lia. reflexivity.
  - destruct (N.ltb_spec (x - len l1) (a - len l1)); try lia. reflexivity.
Qed.

Lemma firstnN_add {A} (l : list A) a b : firstnN (a + b) l = firstnN a l ++ firstnN b (skipnN a l).
Proof.
  destruct (N.le_gt_cases a (len l)) as [H|H].
  - rewrite <- (firstnN_skipnN_id l a) at 1.
    rewrite firstnN_app_ge by (rewrite len_firstnN_le by exact H; lia).
    rewrite len_firstnN_le by exact H. do 2 f_equal. lia.
  - rewrite !firstnN_all by lia.
    rewrite (len_0_nil (skipnN a l)) by (rewrite len_skipnN; lia).
    cbn [firstnN]. now rewrite app_nil_r.
Qed.

Lemma firstnN_firstnN {A} (l : list A) a b : a <= b -> firstnN a (firstnN b l) = firstnN a l.
Proof.
  intros H. apply nthN_ext. intros x. nth_rules.
  destruct (N.ltb_spec x a); [|reflexivity]. replace (x <? b) with true by lia. reflexivity.
Qed.
Lemma skipnN_firstnN {A} (l : list A) a b : skipnN a (firstnN (a + b) l) = firstnN b (skipnN a l).
Proof.
  apply nthN_ext. intros x. nth_rules.
  destruct (N.ltb_spec x b), (N.ltb_spec (a + x) (a + b)); try lia; reflexivity.
Qed.
Lemma skipnN_add {A} (l : list A) a b : skipnN (a + b) l = skipnN b (skipnN a l).
Proof. apply nthN_ext. intros x. nth_rules. f_equal. lia. Qed.
Lemma firstnN_map {A B} (f : A -> B) l a : firstnN a (map f l) = map f (firstnN a l).
Proof. rewrite !firstnN_firstn. apply firstn_map. Qed.
Lemma skipnN_app_exact {A} (l1 l2 : list A) : skipnN (len l1) (l1 ++ l2) = l2.
Proof.
  apply nthN_ext. intros x. nth_rules.
  destruct (N.ltb_spec (len l1 + x) (len l1)); try lia. f_equal. lia.
Qed.

(* uniform concat: the j-th chunk *)
Lemma concat_chunk {A} (k : N) (ls : list (list A)) j l :
  0 < k -> Forall (fun l => len l = k) ls -> nthN ls j = Some l ->
  firstnN k (skipnN (k * j) (concat ls)) = l.
Proof.
  intros Hk HF Hj. apply nthN_ext. intros x. nth_rules.
  assert (Hl : len l = k).
  { rewrite nthN_nth_error in Hj. apply nth_error_In in Hj.
    rewrite Forall_forall in HF. now apply HF. }
  destruct (N.ltb_spec x k) as [Hx|Hx].
  - rewrite (nthN_concat_uniform k) by assumption.
    replace (k * j + x) with (x + j * k) by lia.
    rewrite N.div_add, N.mod_add, N.div_small, N.mod_small by lia. rewrite N.add_0_l.
    now rewrite Hj.
  - symmetry. apply nthN_none. lia.
Qed.

(* ------------------------------------------------------------------ counting *)
Lemma countN_firstnN_add c l a b :
  countN c (firstnN (a + b) l) = countN c (firstnN a l) + countN c (firstnN b (skipnN a l)).
Proof. now rewrite firstnN_add, countN_app. Qed.
Lemma countN_firstnN_mono c l a b : a <= b -> countN c (firstnN a l) <= countN c (firstnN b l).
Proof. intros H. replace b with (a + (b - a)) by lia. rewrite countN_firstnN_add. lia. Qed.
Lemma countN_repeat0 n : countN 1 (repeat 0 n) = 0.
Proof. apply countN_repeat_other. lia. Qed.
Lemma countN_firstnN_hit c l x : nthN l x = Some c ->
  countN c (firstnN (x + 1) l) = countN c (firstnN x l) + 1.
Proof.
  intros H. rewrite countN_firstnN_add. f_equal.
  destruct (skipnN x l) as [|y r] eqn:E.
  - assert (E2 : nthN (skipnN x l) 0 = Some c) by (rewrite nthN_skipnN, N.add_0_r; exact H).
    rewrite E in E2. discriminate.
  - assert (E2 : nthN (skipnN x l) 0 = Some c) by (rewrite nthN_skipnN, N.add_0_r; exact H).
    rewrite E, nthN_0 in E2. injection E2 as ->.
    pose proof (firstnN_succ c r 0) as E3. rewrite N.add_0_l, firstnN_0 in E3. rewrite E3. cbn [countN].
    rewrite N.eqb_refl. lia.
Qed.

Lemma countb_le_len s : countb s <= len s.
Proof. induction s as [|x s IH]; cbn [countb]; [lia|]. rewrite len_cons. destruct x; lia. Qed.

(* ------------------------------------------------------------------ select_from *)
Lemma select_from_hit : forall l c x k pos,
  nthN l x = Some c -> countN c (firstnN x l) = k -> select_from l c k pos = Some (pos + x).
Proof.
  induction l as [|y l IH]; intros c x k pos Hn Hc; [discriminate|].
  cbn [select_from].
  destruct (N.eqb_spec x 0) as [->|Hx].
  - rewrite nthN_0 in Hn. injection Hn as ->. rewrite firstnN_0 in Hc. cbn [countN] in Hc. subst k.
    rewrite !N.eqb_refl. f_equal. lia.
  - replace x with ((x - 1) + 1) in Hn, Hc by lia. rewrite nthN_succ in Hn. rewrite firstnN_succ in Hc.
    cbn [countN] in Hc.
    destruct (N.eqb_spec y c) as [->|Hy].
    + destruct (N.eqb_spec k 0) as [->|Hk]; [lia|].
      rewrite (IH c (x - 1) (N.pred k) (pos + 1) Hn) by lia. f_equal. lia.
    + rewrite (IH c (x - 1) k (pos + 1) Hn) by lia. f_equal. lia.
Qed.

Lemma select_from_inv : forall l c k pos p,
  select_from l c k pos = Some p ->
  pos <= p /\ nthN l (p - pos) = Some c /\ countN c (firstnN (p - pos) l) = k.
Proof.
  induction l as [|y l IH]; intros c k pos p H; [discriminate|].
  cbn [select_from] in H.
  destruct (N.eqb_spec y c) as [->|Hy].
  - destruct (N.eqb_spec k 0) as [->|Hk].
    + injection H as <-. rewrite N.sub_diag, nthN_0, firstnN_0. cbn [countN]. repeat split; lia.
    + apply IH in H. destruct H as (H1 & H2 & H3).
      replace (p - pos) with ((p - (pos + 1)) + 1) by lia. rewrite nthN_succ, firstnN_succ.
      cbn [countN]. rewrite N.eqb_refl. repeat split; [lia|exact H2|lia].
  - apply IH in H. destruct H as (H1 & H2 & H3).
    replace (p - pos) with ((p - (pos + 1)) + 1) by lia. rewrite nthN_succ, firstnN_succ.
    cbn [countN]. destruct (N.eqb_spec y c); [congruence|]. repeat split; [lia|exact H2|lia].
Qed.

Lemma select_from_none : forall l c k pos, countN c l <= k -> select_from l c k pos = None.
Proof.
  induction l as [|y l IH]; intros c k pos H; [reflexivity|].
  cbn [select_from]. cbn [countN] in H.
  destruct (N.eqb_spec y c) as [->|Hy].
  - destruct (N.eqb_spec k 0) as [->|Hk]; [lia|]. apply IH. lia.
  - apply IH. lia.
Qed.

(* ------------------------------------------------------------------ seqN, bits_of *)
Lemma seqN_length s n : length (seqN s n) = n.
Proof. revert s. induction n as [|n IH]; intros s; cbn [seqN length]; [reflexivity|]. now rewrite IH. Qed.
Lemma nthN_seqN : forall n s x, x < N.of_nat n -> nthN (seqN s n) x = Some (s + x).
Proof.
  induction n as [|n IH]; intros s x H; [lia|].
  cbn [seqN]. destruct (N.eqb_spec x 0) as [->|Hx].
  - rewrite nthN_0. f_equal. lia.
  - replace x with ((x - 1) + 1) by lia. rewrite nthN_succ, IH by lia. f_equal. lia.
Qed.
Lemma seqN_In : forall n s x, In x (seqN s n) -> s <= x < s + N.of_nat n.
Proof.
  induction n as [|n IH]; intros s x H; [destruct H|].
  cbn [seqN] in H. destruct H as [<-|H]; [lia|]. apply IH in H. lia.
Qed.

Lemma len_bits_of n x : len (bits_of n x) = N.of_nat n.
Proof. unfold bits_of, len. now rewrite map_length, seqN_length. Qed.
Lemma nthN_bits_of n w x : x < N.of_nat n -> nthN (bits_of n w) x = Some (N.b2n (N.testbit w x)).
Proof. intros H. unfold bits_of. rewrite nthN_map, nthN_seqN by exact H. now rewrite N.add_0_l. Qed.

Lemma lt_pow2_testbit b n m : b < 2 ^ n -> n <= m -> N.testbit b m = false.
Proof. intros H Hm. rewrite <- (N.mod_small b (2 ^ n)) by exact H. now apply N.mod_pow2_bits_high. Qed.
Lemma testbit_lt_pow2 b n : (forall m, n <= m -> N.testbit b m = false) -> b < 2 ^ n.
Proof.
  intros H. assert (E : b = b mod 2 ^ n).
  { apply N.bits_inj. intros m. destruct (N.lt_ge_cases m n) as [Hm|Hm].
    - now rewrite N.mod_pow2_bits_low.
    - rewrite N.mod_pow2_bits_high by exact Hm. now apply H. }
  rewrite E. apply N.mod_lt. apply N.pow_nonzero. lia.
Qed.
Lemma land_lt_pow2 a b n : b < 2 ^ n -> N.land a b < 2 ^ n.
Proof.
  intros H. apply testbit_lt_pow2. intros m Hm. rewrite N.land_spec, (lt_pow2_testbit b n m H Hm).
  apply andb_false_r.
Qed.
