(* T5 (the collecting constructors of src/bitvector/mod.rs): the definitions REGENERATED from the source
   (Gen/FnsBvnew.v: impl Extend<bool> / Extend<usize> for BitVectorMut, FromIterator<bool> / FromIterator<usize>
   for BitVectorMut, FromIterator<bool> for BitVector) are
     (1) EQUAL to the hand-written loops [g_extend_bools] / [g_extend_positions] of Proofs/FnsBvmOk.v (whose every
         step is a generated push / extend_with_zeros / set), for all arguments;
     (2) hence the constructors are those loops run from the empty vector (shrink_to_fit and From<BitVectorMut>
         change no field);
     (3) END TO END, about regenerated code only: the constructors return the fields of a vector of the invariant
         of C08 whose abstraction is the input bit list (resp. the list specification of the positions), and the
         regenerated observers on these fields answer for that list;
     (4) examples by computation.
   See the summary at the end of the file. *)
From Coq Require Import ZArith Lia ZifyBool ZifyN ZifyNat.
From QwtModel Require Import ListX Loops Consts SelTable Words BitVec ListXP BitsLib LeavesUtils FnsBv FnsBvm
  FnsBvnew LeavesLib BitVecW BitVecIter BitVecP FnsBvOk FnsBvmOk.
Open Scope N_scope.
Arguments N.add : simpl never.
Arguments N.sub : simpl never.
Arguments N.mul : simpl never.
Arguments N.eqb : simpl never.
Arguments N.ltb : simpl never.
Arguments N.leb : simpl never.
Arguments N.pow : simpl never.

(* ================================================================== (1) the regenerated loops *)
(* impl Extend<bool> for BitVectorMut: for bit in iter { self.push(bit) } *)
Theorem g_bvm_extend_bools_ok : forall bs d nb no,
  g_bvm_extend_bools d nb no bs = g_extend_bools d nb no bs.
Proof.
  unfold g_bvm_extend_bools.
  induction bs as [|x bs IH]; intros d nb no; cbn [iter_loop g_extend_bools bind]; [reflexivity|].
  destruct (g_bvm_push d nb no x) as [[[d' nb'] no']|f]; cbn [bind]; [|reflexivity].
  apply IH.
Qed.

(* impl Extend<usize> for BitVectorMut:
   for pos in iter { if pos >= self.n_bits { self.extend_with_zeros(pos + 1 - self.n_bits) } self.set(pos, true) } *)
Theorem g_bvm_extend_positions_ok : forall ps d nb no,
  g_bvm_extend_positions d nb no ps = g_extend_positions d nb no ps.
Proof.
  unfold g_bvm_extend_positions.
  induction ps as [|p ps IH]; intros d nb no; cbn [iter_loop g_extend_positions bind]; [reflexivity|].
  destruct (nb <=? p).
  - destruct (oadd 64 p 1) as [p1|f]; cbn [bind]; [|reflexivity].
    destruct (osub p1 nb) as [k|f]; cbn [bind]; [|reflexivity].
    destruct (g_bvm_extend_with_zeros d nb no k) as [[[d1 nb1] no1]|f]; cbn [bind]; [|reflexivity].
    destruct (g_bvm_set d1 nb1 no1 p true) as [[[d2 nb2] no2]|f]; cbn [bind]; [|reflexivity].
    apply IH.
  - cbn [bind].
    destruct (g_bvm_set d nb no p true) as [[[d2 nb2] no2]|f]; cbn [bind]; [|reflexivity].
    apply IH.
Qed.

(* ================================================================== (2) the constructors *)
(* impl FromIterator<bool> for BitVectorMut: default(); extend(iter); shrink_to_fit() *)
Theorem g_bvm_from_bools_ok : forall bs, g_bvm_from_bools bs = g_extend_bools [] 0 0 bs.
Proof.
  intros bs. unfold g_bvm_from_bools. rewrite g_bvm_extend_bools_ok.
  destruct (g_extend_bools [] 0 0 bs) as [[[d nb] no]|f]; reflexivity.
Qed.

(* impl FromIterator<usize> for BitVectorMut: default(); extend(iter); shrink_to_fit() *)
Theorem g_bvm_from_positions_ok : forall ps, g_bvm_from_positions ps = g_extend_positions [] 0 0 ps.
Proof.
  intros ps. unfold g_bvm_from_positions. rewrite g_bvm_extend_positions_ok.
  destruct (g_extend_positions [] 0 0 ps) as [[[d nb] no]|f]; reflexivity.
Qed.

(* impl FromIterator<bool> for BitVector: BitVectorMut::default(); extend(iter); bvm.into() *)
Theorem g_bv_from_bools_ok : forall bs, g_bv_from_bools bs = g_extend_bools [] 0 0 bs.
Proof.
  intros bs. unfold g_bv_from_bools. rewrite g_bvm_extend_bools_ok.
  destruct (g_extend_bools [] 0 0 bs) as [[[d nb] no]|f]; reflexivity.
Qed.

Corollary g_bv_from_bools_bvm : forall bs, g_bv_from_bools bs = g_bvm_from_bools bs.
Proof. intros bs. now rewrite g_bv_from_bools_ok, g_bvm_from_bools_ok. Qed.

(* in terms of the one-operation histories of Proofs/FnsBvmOk.v *)
Lemma grun_one : forall s o, grun s [o] = gstep s o.
Proof. intros s o. cbn [grun]. destruct (gstep s o); reflexivity. Qed.

Corollary g_bvm_from_bools_run : forall bs, g_bvm_from_bools bs = grun gempty [OExtBools bs].
Proof. intros bs. rewrite grun_one. apply g_bvm_from_bools_ok. Qed.
Corollary g_bv_from_bools_run : forall bs, g_bv_from_bools bs = grun gempty [OExtBools bs].
Proof. intros bs. rewrite grun_one. apply g_bv_from_bools_ok. Qed.
Corollary g_bvm_from_positions_run : forall ps, g_bvm_from_positions ps = grun gempty [OExtPos ps].
Proof. intros ps. rewrite grun_one. apply g_bvm_from_positions_ok. Qed.

(* ================================================================== (3) END TO END (C08) *)
Lemma hist_bools_ok bs : len bs < 2 ^ 63 -> hist_ok [] [OExtBools bs].
Proof. intros H. cbn [hist_ok op_pre op_small op_spec app]. auto. Qed.
Lemma hist_pos_ok ps : Forall (fun p => p < 2 ^ 63 - 1) ps -> hist_ok [] [OExtPos ps].
Proof. intros H. cbn [hist_ok op_pre op_small]. auto. Qed.

(* the regenerated FromIterator<bool> for BitVector builds a vector of the invariant whose abstraction is the
   input bit list *)
Theorem g_bv_from_bools_correct : forall bs, len bs < 2 ^ 63 ->
  exists b, g_bv_from_bools bs = Val (chunks 8 (bv_words b), bv_nbits b, bv_nones b) /\ bv_inv b /\ bv_abs b = bs.
Proof.
  intros bs H. destruct (g_history_correct _ (hist_bools_ok bs H)) as (b & E & Hinv & Habs).
  exists b. rewrite g_bv_from_bools_run. auto.
Qed.

Theorem g_bvm_from_bools_correct : forall bs, len bs < 2 ^ 63 ->
  exists b, g_bvm_from_bools bs = Val (chunks 8 (bv_words b), bv_nbits b, bv_nones b) /\ bv_inv b /\ bv_abs b = bs.
Proof.
  intros bs H. destruct (g_history_correct _ (hist_bools_ok bs H)) as (b & E & Hinv & Habs).
  exists b. rewrite g_bvm_from_bools_run. auto.
Qed.

Theorem g_bvm_from_positions_correct : forall ps, Forall (fun p => p < 2 ^ 63 - 1) ps ->
  exists b, g_bvm_from_positions ps = Val (chunks 8 (bv_words b), bv_nbits b, bv_nones b) /\ bv_inv b /\
            bv_abs b = op_spec [] (OExtPos ps).
Proof.
  intros ps H. destruct (g_history_correct _ (hist_pos_ok ps H)) as (b & E & Hinv & Habs).
  exists b. rewrite g_bvm_from_positions_run. auto.
Qed.

(* the extend operations from ANY state of the invariant (the `Extend` impls on their own) *)
Theorem g_bvm_extend_bools_correct : forall b bs, bv_inv b -> len (bv_abs b ++ bs) < 2 ^ 63 ->
  exists b', g_bvm_extend_bools (chunks 8 (bv_words b)) (bv_nbits b) (bv_nones b) bs
               = Val (chunks 8 (bv_words b'), bv_nbits b', bv_nones b') /\
             bv_inv b' /\ bv_abs b' = bv_abs b ++ bs.
Proof.
  intros b bs Hinv H. rewrite g_bvm_extend_bools_ok.
  exact (g_step_correct b (OExtBools bs) Hinv eq_refl H).
Qed.

Theorem g_bvm_extend_positions_correct : forall b ps, bv_inv b -> Forall (fun p => p < 2 ^ 63 - 1) ps ->
  exists b', g_bvm_extend_positions (chunks 8 (bv_words b)) (bv_nbits b) (bv_nones b) ps
               = Val (chunks 8 (bv_words b'), bv_nbits b', bv_nones b') /\
             bv_inv b' /\ bv_abs b' = op_spec (bv_abs b) (OExtPos ps).
Proof.
  intros b ps Hinv H. rewrite g_bvm_extend_positions_ok.
  exact (g_step_correct b (OExtPos ps) Hinv eq_refl H).
Qed.

(* ------------------------------------------------------------------ the observers *)
(* the observers of BitVector that [gobs] does not list: len, is_empty, get, get_unchecked *)
Definition gobs_bv (s : gstate) (l : list bool) : Prop :=
  let '(data, nb, no) := s in
  g_bv_len nb = Val (len l) /\
  g_bv_is_empty nb = Val (len l =? 0) /\
  (forall i, g_bv_get data nb i = Val (nthN l i)) /\
  (forall i, i < len l -> g_bv_get_unchecked data i = Val (nthb l i)).

Theorem g_bv_observers_correct : forall b, bv_inv b -> gobs_bv (fields b) (bv_abs b).
Proof.
  intros b H. unfold gobs_bv, fields.
  split; [rewrite g_bv_len_ok; now rewrite (bv_len_correct b H)|].
  split; [change (g_bv_is_empty (bv_nbits b)) with (Val (bv_is_empty b)); now rewrite (bv_is_empty_correct b H)|].
  split; [intros i; rewrite g_bv_get_chunks; now apply bv_get_correct|].
  intros i Hi. rewrite g_bv_get_unchecked_chunks. now apply bv_get_unchecked_correct.
Qed.

(* regenerated code only: constructor, then observers *)
Theorem g_bv_from_bools_observed : forall bs, len bs < 2 ^ 63 ->
  exists s, g_bv_from_bools bs = Val s /\ gobs s bs /\ gobs_bv s bs.
Proof.
  intros bs H. destruct (g_bv_from_bools_correct bs H) as (b & E & Hinv & Habs).
  exists (fields b). split; [exact E|]. rewrite <- Habs.
  split; [now apply g_observers_correct|now apply g_bv_observers_correct].
Qed.

Theorem g_bvm_from_bools_observed : forall bs, len bs < 2 ^ 63 ->
  exists s, g_bvm_from_bools bs = Val s /\ gobs s bs /\ gobs_bv s bs.
Proof. intros bs H. rewrite <- g_bv_from_bools_bvm. now apply g_bv_from_bools_observed. Qed.

Theorem g_bvm_from_positions_observed : forall ps, Forall (fun p => p < 2 ^ 63 - 1) ps ->
  exists s, g_bvm_from_positions ps = Val s /\ gobs s (op_spec [] (OExtPos ps)) /\
            gobs_bv s (op_spec [] (OExtPos ps)).
Proof.
  intros ps H. destruct (g_bvm_from_positions_correct ps H) as (b & E & Hinv & Habs).
  exists (fields b). split; [exact E|]. rewrite <- Habs.
  split; [now apply g_observers_correct|now apply g_bv_observers_correct].
Qed.

(* the two observers asked for, spelled out: BitVector::from_iter(bs) has length len bs and bit i is nth bs i *)
Corollary g_bv_from_bools_len_get : forall bs, len bs < 2 ^ 63 ->
  exists data nb no, g_bv_from_bools bs = Val (data, nb, no) /\
    g_bv_len nb = Val (len bs) /\ (forall i, g_bv_get data nb i = Val (nthN bs i)) /\
    g_bv_count_ones no = Val (countb bs).
Proof.
  intros bs H. destruct (g_bv_from_bools_observed bs H) as ([[data nb] no] & E & Ho & Hb).
  exists data, nb, no. split; [exact E|]. destruct Hb as (Hl & _ & Hg & _).
  split; [exact Hl|]. split; [exact Hg|]. apply Ho.
Qed.

(* the hand constructor of C08 and the regenerated one build the same fields *)
Corollary g_bv_from_bools_hand : forall bs b, len bs < 2 ^ 63 -> bv_from_bools bs = Val b ->
  g_bv_from_bools bs = Val (fields b).
Proof.
  intros bs b H E. rewrite g_bv_from_bools_ok. unfold bv_from_bools in E.
  change ([] : list (list N)) with (chunks 8 (bv_words bv_empty)).
  apply (g_extend_bools_sim bs bv_empty b); [reflexivity|cbn [bv_empty bv_nones bv_nbits]; lia|exact E].
Qed.

(* ================================================================== (4) examples *)
Definition ex_bits70 : list bool :=
  [true; false; true; true; false; false; true; false; true; true;
   false; false; false; true; false; true; true; true; false; false;
   true; false; false; true; false; true; false; true; true; false;
   false; true; true; false; true; false; false; false; true; true;
   true; false; true; false; true; false; false; true; true; false;
   false; false; true; true; false; true; false; true; true; true;
   false; true; false; false; true; false; true; true; false; true].

Example g_ex_from_bools :
  match g_bv_from_bools ex_bits70 with
  | Val (data, nb, no) =>
      len data = 1 /\ g_bv_len nb = Val 70 /\ g_bv_count_ones no = Val (countb ex_bits70) /\
      g_bv_get data nb 0 = Val (Some true) /\ g_bv_get data nb 1 = Val (Some false) /\
      g_bv_get data nb 64 = Val (Some true) /\ g_bv_get data nb 69 = Val (Some true) /\
      g_bv_get data nb 70 = Val None /\
      g_bv_get_bits data nb 62 8 = Val (Some (bits_value (firstnN 8 (skipnN 62 ex_bits70)))) /\
      g_bvm_from_bools ex_bits70 = Val (data, nb, no) /\
      g_bv_from_bools ex_bits70 = Val (data, nb, no) /\
      (exists b, bv_from_bools ex_bits70 = Val b /\ fields b = (data, nb, no))
  | Fault _ => False
  end.
Proof. vm_compute. repeat split. eexists. split; reflexivity. Qed.

Example g_ex_from_positions :
  match g_bvm_from_positions [3; 64; 65; 200] with
  | Val (data, nb, no) =>
      len data = 1 /\ g_bvm_len nb = Val 201 /\ g_bvm_count_ones no = Val 4 /\
      g_bvm_get data nb 3 = Val (Some true) /\ g_bvm_get data nb 4 = Val (Some false) /\
      g_bvm_get data nb 64 = Val (Some true) /\ g_bvm_get data nb 65 = Val (Some true) /\
      g_bvm_get data nb 66 = Val (Some false) /\ g_bvm_get data nb 200 = Val (Some true) /\
      g_bvm_get data nb 201 = Val None /\
      g_bvm_get_word data 0 = Val 8 /\ g_bvm_get_word data 1 = Val 3 /\ g_bvm_get_word data 3 = Val 256 /\
      (exists b, bv_from_positions [3; 64; 65; 200] = Val b /\ fields b = (data, nb, no))
  | Fault _ => False
  end.
Proof. vm_compute. repeat split. eexists. split; reflexivity. Qed.

(* ================================================================== SUMMARY
   Equalities (E), for all arguments, no hypothesis:
     g_bvm_extend_bools_ok      g_bvm_extend_bools d nb no bs     = g_extend_bools d nb no bs
     g_bvm_extend_positions_ok  g_bvm_extend_positions d nb no ps = g_extend_positions d nb no ps
     g_bvm_from_bools_ok / g_bv_from_bools_ok     ... bs = g_extend_bools [] 0 0 bs       (= grun gempty [OExtBools bs])
     g_bvm_from_positions_ok                      ... ps = g_extend_positions [] 0 0 ps   (= grun gempty [OExtPos ps])
   so the hand-written loops of Proofs/FnsBvmOk.v (inside gstep, cases OExtBools / OExtPos) ARE the regenerated
   `Extend` impls, and every theorem of FnsBvmOk.v about histories is about regenerated code only.
   End to end (bv_inv, bv_abs of Proofs/BitVecP.v):
     g_bv_from_bools_correct, g_bvm_from_bools_correct        len bs < 2^63
     g_bvm_from_positions_correct                             Forall (fun p => p < 2^63 - 1) ps
     g_bvm_extend_bools_correct, g_bvm_extend_positions_correct   from any state of the invariant
     g_bv_observers_correct (g_bv_len, g_bv_is_empty, g_bv_get, g_bv_get_unchecked), with g_observers_correct:
     g_bv_from_bools_observed, g_bvm_from_bools_observed, g_bvm_from_positions_observed, g_bv_from_bools_len_get
   No mismatch found; nothing left unproved. *)
Print Assumptions g_bvm_extend_bools_ok.
Print Assumptions g_bvm_extend_positions_ok.
Print Assumptions g_bvm_from_bools_ok.
Print Assumptions g_bvm_from_positions_ok.
Print Assumptions g_bv_from_bools_ok.
Print Assumptions g_bv_from_bools_correct.
Print Assumptions g_bvm_from_bools_correct.
Print Assumptions g_bvm_from_positions_correct.
Print Assumptions g_bvm_extend_bools_correct.
Print Assumptions g_bvm_extend_positions_correct.
Print Assumptions g_bv_observers_correct.
Print Assumptions g_bv_from_bools_observed.
Print Assumptions g_bvm_from_bools_observed.
Print Assumptions g_bvm_from_positions_observed.
Print Assumptions g_bv_from_bools_len_get.
Print Assumptions g_bv_from_bools_hand.
Print Assumptions g_ex_from_bools.
Print Assumptions g_ex_from_positions.
