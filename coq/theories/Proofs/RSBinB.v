(* Bit level lemmas and the flat 0/1 view of a bit vector, for RSBinP.v.
   popcount / select_in_word are used through the two hypotheses of the Sections. *)
From Coq Require Import ZArith Lia ZifyBool ZifyN ZifyNat.
From QwtModel Require Import ListX Seq RSBin ListXP RSBinL.
Ltac Zify.zify_post_hook ::= Z.div_mod_to_equations.
Arguments N.add : simpl never.
Arguments N.sub : simpl never.
Arguments N.mul : simpl never.
Arguments N.eqb : simpl never.
Arguments N.ltb : simpl never.
Arguments N.leb : simpl never.
Arguments N.pred : simpl never.
Arguments N.of_nat : simpl never.
Arguments N.land : simpl never.
Arguments N.lor : simpl never.
Arguments N.lxor : simpl never.
Arguments N.shiftr : simpl never.
Arguments N.shiftl : simpl never.
Arguments N.div : simpl never.
Arguments N.modulo : simpl never.
Arguments N.pow : simpl never.
Arguments N.testbit : simpl never.

Definition popcount_ok : Prop :=
  forall n x, x < 2 ^ N.of_nat n -> popcount x = countN 1 (bits_of n x).
Definition siw_ok : Prop := forall w k, w < 2 ^ 64 -> k < 128 ->
  select_in_word w k = Val (match select_spec (bits_of 64 w) 1 k with Some p => p | None => 64 end).

Definition cbit (one : bool) : N := if one then 1 else 0.
Definition wsel (one : bool) (w : N) : N := if one then w else notw w.

(* ------------------------------------------------------------------ seqN / bits_of *)
Lemma len_seqN n : forall a, len (seqN a n) = N.of_nat n.
Proof. induction n as [|n IH]; intros a; cbn [seqN]; [reflexivity|]. rewrite len_cons, IH. lia. Qed.

Lemma nthN_seqN n : forall a i, i < N.of_nat n -> nthN (seqN a n) i = Some (a + i).
Proof.
  induction n as [|n IH]; intros a i Hi; [lia|]. cbn [seqN].
  destruct (N.eq_dec i 0) as [->|Hn]; [rewrite nthN_0, N.add_0_r; reflexivity|].
  succ_of i j. rewrite nthN_succ, IH by lia. f_equal. lia.
Qed.

Lemma In_seqN n : forall a i, In i (seqN a n) -> a <= i /\ i < a + N.of_nat n.
Proof.
  induction n as [|n IH]; intros a i H; [destruct H|]. cbn [seqN In] in H.
  destruct H as [<-|H]; [lia|]. apply IH in H. lia.
Qed.

Lemma len_bits_of n x : len (bits_of n x) = N.of_nat n.
Proof. unfold bits_of, len. rewrite map_length. apply (len_seqN n 0). Qed.

Lemma bin_bits_of n x : bin (bits_of n x).
Proof.
  unfold bits_of, bin. apply Forall_forall. intros y Hy. apply in_map_iff in Hy.
  destruct Hy as (i & <- & _). destruct (N.testbit x i); cbn [N.b2n]; lia.
Qed.

Lemma nthN_bits_of n x i : i < N.of_nat n -> nthN (bits_of n x) i = Some (N.b2n (N.testbit x i)).
Proof. intros H. unfold bits_of. rewrite nthN_map, nthN_seqN by assumption. rewrite N.add_0_l. reflexivity. Qed.

Lemma bits_above x n i : x < 2 ^ n -> n <= i -> N.testbit x i = false.
Proof. intros H Hi. rewrite <- (N.mod_small x (2 ^ n)) by assumption. apply N.mod_pow2_bits_high. exact Hi. Qed.

Lemma lt_pow2_bits x n : (forall i, n <= i -> N.testbit x i = false) -> x < 2 ^ n.
Proof.
  intros H. assert (E : x = x mod 2 ^ n).
  { apply N.bits_inj. intros i. destruct (N.lt_ge_cases i n) as [Hi|Hi].
    - now rewrite N.mod_pow2_bits_low.
    - rewrite N.mod_pow2_bits_high by assumption. now apply H. }
  rewrite E. apply N.mod_lt. apply N.pow_nonzero. lia.
Qed.

Lemma popcount_double x : popcount (2 * x) = popcount x.
Proof. destruct x; reflexivity. Qed.
Lemma popcount_mul_pow2 x k : popcount (x * 2 ^ k) = popcount x.
Proof.
  induction k as [|k IH] using N.peano_ind.
  - rewrite N.pow_0_r, N.mul_1_r. reflexivity.
  - rewrite N.pow_succ_r'. replace (x * (2 * 2 ^ k)) with (2 * (x * 2 ^ k)) by lia.
    now rewrite popcount_double.
Qed.

Lemma M64m1 : M64 - 1 = N.ones 64. Proof. reflexivity. Qed.
Lemma M64_val : M64 = 2 ^ 64. Proof. reflexivity. Qed.

Lemma testbit_notw w i : N.testbit (notw w) i = xorb (N.testbit w i) (i <? 64).
Proof.
  unfold notw. rewrite M64m1, N.lxor_spec. f_equal.
  destruct (N.ltb_spec i 64); [now apply N.ones_spec_low | now apply N.ones_spec_high].
Qed.

Lemma notw_lt w : w < 2 ^ 64 -> notw w < 2 ^ 64.
Proof.
  intros H. apply lt_pow2_bits. intros i Hi. rewrite testbit_notw, (bits_above w 64 i H Hi).
  destruct (N.ltb_spec i 64); [lia|reflexivity].
Qed.

Lemma bits_of_notw w : bits_of 64 (notw w) = map flip01 (bits_of 64 w).
Proof.
  unfold bits_of. rewrite map_map. apply map_ext_in. intros i Hi. apply In_seqN in Hi.
  rewrite testbit_notw. destruct (N.ltb_spec i 64); [|lia].
  destruct (N.testbit w i); reflexivity.
Qed.

Lemma countN_mod_seq w r : forall n a,
  countN 1 (map (fun i => N.b2n (N.testbit (w mod 2 ^ r) i)) (seqN a n)) =
  rank_spec (map (fun i => N.b2n (N.testbit w i)) (seqN a n)) 1 (r - a).
Proof.
  induction n as [|n IH]; intros a; cbn [seqN map countN]; [reflexivity|].
  destruct (N.lt_ge_cases a r) as [Ha|Ha].
  - replace (r - a) with (r - (a + 1) + 1) by lia. rewrite rank_spec_cons, IH.
    rewrite N.mod_pow2_bits_low by lia. reflexivity.
  - replace (r - a) with 0 by lia. rewrite rank_spec_0, IH. replace (r - (a + 1)) with 0 by lia.
    rewrite rank_spec_0. rewrite N.mod_pow2_bits_high by lia. reflexivity.
Qed.

Section Bits.
Hypothesis PC : popcount_ok.
Hypothesis SIW : siw_ok.

Lemma popcount_bits w : w < 2 ^ 64 -> popcount w = countN 1 (bits_of 64 w).
Proof. intros H. apply (PC 64%nat). exact H. Qed.

Lemma popcount_le64 w : w < 2 ^ 64 -> popcount w <= 64.
Proof.
  intros H. rewrite popcount_bits by assumption.
  pose proof (countN_le_len 1 (bits_of 64 w)). rewrite len_bits_of in H0. lia.
Qed.

Lemma rank_bits_low w r : r <= 64 -> rank_spec (bits_of 64 w) 1 r = popcount (w mod 2 ^ r).
Proof.
  intros Hr.
  assert (Hm : w mod 2 ^ r < 2 ^ 64).
  { assert (w mod 2 ^ r < 2 ^ r) by (apply N.mod_lt, N.pow_nonzero; lia).
    assert (2 ^ r <= 2 ^ 64) by (apply N.pow_le_mono_r; lia). lia. }
  rewrite (popcount_bits _ Hm). unfold bits_of. rewrite countN_mod_seq, N.sub_0_r. reflexivity.
Qed.

Lemma popcount_notw w : w < 2 ^ 64 -> popcount (notw w) = 64 - popcount w.
Proof.
  intros H. rewrite (popcount_bits _ (notw_lt w H)), (popcount_bits _ H), bits_of_notw.
  rewrite countN_flip by apply bin_bits_of.
  pose proof (count01 _ (bin_bits_of 64 w)) as E. rewrite len_bits_of in E. lia.
Qed.

(* the masked word of RSNarrow's rank: keeps the low l bits *)
Lemma popcount_shl_low w l : 1 <= l -> l <= 64 ->
  popcount (N.shiftl w (64 - l) mod M64) = popcount (w mod 2 ^ l).
Proof.
  intros H1 H2. rewrite N.shiftl_mul_pow2, M64_val.
  replace (2 ^ 64) with (2 ^ l * 2 ^ (64 - l)) by (rewrite <- N.pow_add_r; f_equal; lia).
  rewrite N.mul_mod_distr_r by (apply N.pow_nonzero; lia).
  apply popcount_mul_pow2.
Qed.

Lemma popcount_wsel one w : w < 2 ^ 64 -> popcount (wsel one w) = countN (cbit one) (bits_of 64 w).
Proof.
  intros H. destruct one; cbn [wsel cbit].
  - apply popcount_bits. exact H.
  - rewrite popcount_notw, popcount_bits by assumption.
    pose proof (count01 _ (bin_bits_of 64 w)) as E. rewrite len_bits_of in E. lia.
Qed.

Lemma siw_c one w d q : w < 2 ^ 64 -> select_spec (bits_of 64 w) (cbit one) d = Some q ->
  select_in_word (wsel one w) d = Val q.
Proof.
  intros Hw Hs. pose proof (select_spec_some_lt _ _ _ _ Hs) as [Hd _].
  pose proof (countN_le_len (cbit one) (bits_of 64 w)) as Hc. rewrite len_bits_of in Hc.
  change (N.of_nat 64) with 64 in Hc.
  assert (Hd' : d < 128) by lia. clear Hd Hc.
  destruct one.
  - change (select_in_word w d = Val q). change (select_spec (bits_of 64 w) 1 d = Some q) in Hs.
    rewrite (SIW w d Hw Hd'). rewrite Hs. reflexivity.
  - change (select_in_word (notw w) d = Val q). change (select_spec (bits_of 64 w) 0 d = Some q) in Hs.
    rewrite (SIW _ d (notw_lt w Hw) Hd'). rewrite bits_of_notw.
    rewrite select_spec_flip by apply bin_bits_of. rewrite Hs. reflexivity.
Qed.

(* ------------------------------------------------------------------ the flat view *)
Definition FL (ws : list N) : list N := concat (map (bits_of 64) ws).
Definition words_ok (ws : list N) : Prop := Forall (fun w => w < 2 ^ 64) ws.
Definition R1 (ws : list N) (j : N) : N := rank_spec (FL ws) 1 j.
Definition Rc (ws : list N) (one : bool) (j : N) : N := if one then R1 ws j else j - R1 ws j.

Lemma FL_uniform ws : Forall (fun l => len l = 64) (map (bits_of 64) ws).
Proof. apply Forall_forall. intros l Hl. apply in_map_iff in Hl. destruct Hl as (w & <- & _). apply len_bits_of. Qed.

Lemma len_FL ws : len (FL ws) = 64 * len ws.
Proof. unfold FL. rewrite (len_concat_uniform 64) by apply FL_uniform. unfold len. now rewrite map_length. Qed.

Lemma FL_cons w l : FL (w :: l) = bits_of 64 w ++ FL l.
Proof. reflexivity. Qed.

Lemma bin_FL ws : bin (FL ws).
Proof. apply bin_concat. apply Forall_forall. intros l Hl. apply in_map_iff in Hl. destruct Hl as (w & <- & _). apply bin_bits_of. Qed.

Lemma firstnN_map {A B} (f : A -> B) l n : firstnN n (map f l) = map f (firstnN n l).
Proof. rewrite !firstnN_firstn. apply firstn_map. Qed.
Lemma skipnN_map {A B} (f : A -> B) l n : skipnN n (map f l) = map f (skipnN n l).
Proof. rewrite !skipnN_skipn. apply skipn_map. Qed.
Lemma window_map {A B} (f : A -> B) l a n : window a n (map f l) = map f (window a n l).
Proof. unfold window. now rewrite skipnN_map, firstnN_map. Qed.

Lemma FL_window ws a n : window (64 * a) (64 * n) (FL ws) = FL (window a n ws).
Proof. unfold FL. rewrite (window_concat_uniform 64) by apply FL_uniform. now rewrite window_map. Qed.

Lemma FL_window_word ws g w : nthN ws g = Some w -> window (64 * g) 64 (FL ws) = bits_of 64 w.
Proof.
  intros H. change 64 with (64 * 1) at 2. rewrite FL_window, (window_one ws g w H).
  unfold FL. cbn [map concat]. apply app_nil_r.
Qed.

Lemma line_of_window ws b : line_of ws b = window (8 * b) 8 ws.
Proof. unfold line_of, window. rewrite firstnN_firstn. rewrite (N.mul_comm b 8). reflexivity. Qed.

Lemma FL_window_line ws b : window (512 * b) 512 (FL ws) = FL (line_of ws b).
Proof.
  rewrite line_of_window. replace (512 * b) with (64 * (8 * b)) by lia. change 512 with (64 * 8).
  apply FL_window.
Qed.

Lemma words_ok_window ws a n : words_ok ws -> words_ok (window a n ws).
Proof. intros H. unfold window. apply Forall_firstnN, Forall_skipnN. exact H. Qed.

Lemma R1_0 ws : R1 ws 0 = 0. Proof. apply rank_spec_0. Qed.
Lemma R1_mono ws i j : i <= j -> R1 ws i <= R1 ws j. Proof. apply rank_spec_mono. Qed.
Lemma R1_lip ws i j : i <= j -> R1 ws j <= R1 ws i + (j - i). Proof. apply rank_spec_lip. Qed.
Lemma R1_le ws i : R1 ws i <= i. Proof. apply rank_spec_le. Qed.
Lemma R1_sat ws j : 64 * len ws <= j -> R1 ws j = R1 ws (64 * len ws).
Proof. intros H. unfold R1. rewrite !rank_spec_all by (rewrite len_FL; lia). reflexivity. Qed.
Lemma R1_le_len ws j : R1 ws j <= 64 * len ws.
Proof.
  destruct (N.le_gt_cases j (64 * len ws)).
  - pose proof (R1_le ws j). lia.
  - rewrite R1_sat by lia. apply R1_le.
Qed.

Lemma Rc_mono ws one i j : i <= j -> Rc ws one i <= Rc ws one j.
Proof.
  intros H. destruct one; cbn [Rc]; [now apply R1_mono|].
  pose proof (R1_lip ws i j H). pose proof (R1_le ws i). lia.
Qed.
Lemma Rc_0 ws one : Rc ws one 0 = 0.
Proof. destruct one; cbn [Rc]; rewrite R1_0; reflexivity. Qed.
Lemma Rc_lip ws one i j : i <= j -> Rc ws one j <= Rc ws one i + (j - i).
Proof.
  intros H. destruct one; cbn [Rc]; [now apply R1_lip|].
  pose proof (R1_mono ws i j H). pose proof (R1_le ws i). lia.
Qed.

Lemma Rc_rank ws one j : j <= 64 * len ws -> Rc ws one j = rank_spec (FL ws) (cbit one) j.
Proof.
  intros H. destruct one; cbn [Rc cbit]; [reflexivity|].
  pose proof (rank01 (FL ws) j (bin_FL ws)) as E. rewrite len_FL in E. unfold R1. lia.
Qed.

Lemma Rc_select ws one k p : select_spec (FL ws) (cbit one) k = Some p ->
  p < 64 * len ws /\ Rc ws one p = k /\ Rc ws one (p + 1) = k + 1.
Proof.
  intros H. pose proof (select_spec_some_lt _ _ _ _ H) as [_ Hp]. rewrite len_FL in Hp.
  apply select_spec_some_iff in H. destruct H as [Hn Hr].
  rewrite !Rc_rank by lia. rewrite (rank_spec_succ _ _ _ _ Hn), N.eqb_refl. lia.
Qed.

Lemma select_window s c k p a n : select_spec s c k = Some p -> a <= p -> p < a + n ->
  select_spec (window a n s) c (k - rank_spec s c a) = Some (p - a).
Proof.
  intros H Ha Hp. apply select_spec_some_iff in H. destruct H as [Hn Hr].
  apply select_spec_some_iff. split.
  - rewrite nthN_window by lia. replace (a + (p - a)) with p by lia. exact Hn.
  - rewrite rank_spec_window by lia. replace (a + (p - a)) with p by lia. lia.
Qed.

(* words *)
Lemma R1_word ws g w r : nthN ws g = Some w -> r <= 64 ->
  R1 ws (64 * g + r) = R1 ws (64 * g) + popcount (w mod 2 ^ r).
Proof.
  intros Hg Hr. rewrite <- rank_bits_low by assumption. rewrite <- (FL_window_word ws g w Hg).
  rewrite rank_spec_window by assumption. fold (R1 ws (64 * g + r)). fold (R1 ws (64 * g)).
  pose proof (R1_mono ws (64 * g) (64 * g + r)). lia.
Qed.

Lemma R1_word_full ws g w : words_ok ws -> nthN ws g = Some w ->
  R1 ws (64 * (g + 1)) = R1 ws (64 * g) + popcount w.
Proof.
  intros Hok Hg. replace (64 * (g + 1)) with (64 * g + 64) by lia.
  rewrite (R1_word ws g w 64 Hg) by lia. rewrite N.mod_small; [reflexivity|].
  apply (Forall_nthN _ _ _ _ Hok Hg).
Qed.

Lemma nthN_FL_word ws g w r : nthN ws g = Some w -> r < 64 ->
  nthN (FL ws) (64 * g + r) = Some (N.b2n (N.testbit w r)).
Proof.
  intros Hg Hr. rewrite <- nthN_window with (n := 64) by assumption.
  rewrite (FL_window_word ws g w Hg). apply nthN_bits_of. lia.
Qed.

Lemma sum_popcount l : words_ok l -> sumN (map popcount l) = countN 1 (FL l).
Proof.
  induction 1 as [|w l Hw Hl IH]; [reflexivity|].
  rewrite FL_cons. cbn [map sumN]. rewrite countN_app. rewrite IH, popcount_bits by assumption.
  reflexivity.
Qed.

Lemma R1_line ws b : words_ok ws ->
  R1 ws (512 * (b + 1)) = R1 ws (512 * b) + line_n_ones (line_of ws b).
Proof.
  intros Hok. unfold line_n_ones. rewrite sum_popcount by (rewrite line_of_window; now apply words_ok_window).
  rewrite <- FL_window_line.
  rewrite <- (rank_spec_all _ 1 512) by (unfold window; rewrite firstnN_len; lia).
  rewrite rank_spec_window by lia. fold (R1 ws (512 * b + 512)). fold (R1 ws (512 * b)).
  replace (512 * (b + 1)) with (512 * b + 512) by lia.
  pose proof (R1_mono ws (512 * b) (512 * b + 512)). lia.
Qed.

Lemma line_n_ones_le ws b : words_ok ws -> line_n_ones (line_of ws b) <= 512.
Proof.
  intros Hok. pose proof (R1_line ws b Hok). pose proof (R1_lip ws (512 * b) (512 * (b + 1))). lia.
Qed.

(* word containing a selected position *)
Lemma select_word_local ws one k p w : select_spec (FL ws) (cbit one) k = Some p ->
  nthN ws (p / 64) = Some w ->
  select_spec (bits_of 64 w) (cbit one) (k - Rc ws one (64 * (p / 64))) = Some (p mod 64).
Proof.
  intros Hs Hw. pose proof (Rc_select _ _ _ _ Hs) as (Hp & _).
  rewrite <- (FL_window_word ws (p / 64) w Hw). rewrite Rc_rank by lia.
  replace (p mod 64) with (p - 64 * (p / 64)) by lia.
  apply select_window; [assumption|lia|lia].
Qed.

Lemma select_line_local ws one k p : select_spec (FL ws) (cbit one) k = Some p ->
  select_spec (FL (line_of ws (p / 512))) (cbit one) (k - Rc ws one (512 * (p / 512))) = Some (p mod 512).
Proof.
  intros Hs. pose proof (Rc_select _ _ _ _ Hs) as (Hp & _).
  rewrite <- FL_window_line. rewrite Rc_rank by lia.
  replace (p mod 512) with (p - 512 * (p / 512)) by lia.
  apply select_window; [assumption|lia|lia].
Qed.

(* ------------------------------------------------------------------ DataLine rank / select *)
Lemma bline_rank1_loop_spec l : words_ok l -> forall left,
  bline_rank1_loop l left false = rank_spec (FL l) 1 left.
Proof.
  induction 1 as [|w l Hw Hl IH]; intros left; [reflexivity|].
  cbn [bline_rank1_loop]. rewrite FL_cons.
  rewrite rank_spec_app, len_bits_of. change (N.of_nat 64) with 64.
  destruct (N.ltb_spec 63 left) as [H63|H63].
  - rewrite M64m1, N.land_ones, N.mod_small by assumption.
    destruct (N.ltb_spec left 64) as [H64|H64]; [lia|].
    destruct (N.leb_spec left 64) as [Hle|Hle].
    + assert (left = 64) by lia. subst left. rewrite N.sub_diag.
      rewrite (rank_spec_all (bits_of 64 w)) by (rewrite len_bits_of; lia).
      rewrite IH, rank_spec_0, popcount_bits by assumption. lia.
    + rewrite IH, popcount_bits by assumption. reflexivity.
  - destruct (N.ltb_spec left 64) as [H64|H64]; [|lia].
    destruct (N.leb_spec left 64) as [Hle|Hle]; [|lia].
    replace (N.shiftl 1 left - 1) with (N.ones left) by (unfold N.ones; rewrite N.pred_sub; reflexivity).
    rewrite N.land_ones, rank_bits_low by lia. lia.
Qed.

Lemma bline_select_loop_spec one l : words_ok l -> forall d rank off q,
  rank <= d -> select_spec (FL l) (cbit one) (d - rank) = Some q ->
  bline_select_loop (negb one) l d rank off = Val (off + q).
Proof.
  induction 1 as [|w l Hw Hl IH]; intros d rank off q Hr Hs; [discriminate|].
  cbn [bline_select_loop].
  replace (if negb one then notw w else w) with (wsel one w) by (destruct one; reflexivity).
  rewrite popcount_wsel by assumption.
  unfold osub. destruct (N.leb_spec rank d); [|lia]. cbn [bind].
  rewrite FL_cons, select_spec_app in Hs.
  destruct (N.ltb_spec (d - rank) (countN (cbit one) (bits_of 64 w))) as [Hlt|Hge].
  - rewrite (siw_c one w (d - rank) q Hw Hs). reflexivity.
  - rewrite len_bits_of in Hs. change (N.of_nat 64) with 64 in Hs.
    destruct (select_spec (FL l) (cbit one) (d - rank - countN (cbit one) (bits_of 64 w))) as [q'|] eqn:E;
      [|discriminate].
    cbn [option_map] in Hs. injection Hs as <-.
    rewrite (IH d (rank + countN (cbit one) (bits_of 64 w)) (off + 64) q'); [f_equal; lia|lia|].
    rewrite <- E. f_equal. lia.
Qed.

End Bits.

(* ------------------------------------------------------------------ bit vectors *)
Definition bv_wf (b : bitvec) : Prop :=
  len (bv_words b) = 8 * ((bv_nbits b + 511) / 512) /\ Forall (fun w => w < 2 ^ 64) (bv_words b) /\
  (forall j, bv_nbits b <= j -> j < 64 * len (bv_words b) -> nthN (concat (map (bits_of 64) (bv_words b))) j = Some 0) /\
  bv_nbits b < 2 ^ 43.

Definition nlines (b : bitvec) : N := (bv_nbits b + 511) / 512.

Lemma wf_len b : bv_wf b -> len (bv_words b) = 8 * nlines b.
Proof. intros (H & _). exact H. Qed.
Lemma wf_ok b : bv_wf b -> words_ok (bv_words b).
Proof. intros (_ & H & _). exact H. Qed.
Lemma wf_nbits b : bv_wf b -> bv_nbits b <= 512 * nlines b /\ 512 * nlines b < bv_nbits b + 512 /\ bv_nbits b < 2 ^ 43.
Proof. intros (_ & _ & _ & H). unfold nlines. change (2 ^ 43) with 8796093022208 in *. lia. Qed.

Lemma R1_pad b j : bv_wf b -> bv_nbits b <= j -> R1 (bv_words b) j = R1 (bv_words b) (bv_nbits b).
Proof.
  intros Hwf Hj. replace j with (bv_nbits b + (j - bv_nbits b)) by lia.
  generalize (j - bv_nbits b) as d. clear j Hj.
  induction d as [|d IH] using N.peano_ind; [now rewrite N.add_0_r|].
  replace (bv_nbits b + N.succ d) with (bv_nbits b + d + 1) by lia. rewrite <- IH.
  unfold R1. destruct (nthN (FL (bv_words b)) (bv_nbits b + d)) as [x|] eqn:E.
  - rewrite (rank_spec_succ _ _ _ _ E). pose proof (nthN_some_lt _ _ _ E) as Hlt. rewrite len_FL in Hlt.
    destruct Hwf as (_ & _ & Hpad & _). unfold FL in E. rewrite Hpad in E by lia. injection E as <-.
    change (0 =? 1) with false. cbv iota. lia.
  - apply rank_spec_succ_none. exact E.
Qed.

Lemma abs_map b : map N_of_bool (bv_abs b) = firstnN (bv_nbits b) (FL (bv_words b)).
Proof. unfold bv_abs. apply map_N_of_bool_bin. apply Forall_firstnN. apply bin_FL. Qed.

Lemma len_abs b : bv_wf b -> len (bv_abs b) = bv_nbits b.
Proof.
  intros Hwf. unfold bv_abs, len. rewrite map_length. fold (len (firstnN (bv_nbits b) (concat (map (bits_of 64) (bv_words b))))).
  rewrite firstnN_len. fold (FL (bv_words b)). rewrite len_FL, (wf_len b Hwf).
  pose proof (wf_nbits b Hwf). lia.
Qed.

Lemma rank1_abs b i : bv_wf b -> i <= bv_nbits b -> rank1_spec (bv_abs b) i = R1 (bv_words b) i.
Proof.
  intros Hwf Hi. unfold rank1_spec. rewrite abs_map, rank_spec_firstnN.
  now replace (N.min i (bv_nbits b)) with i by lia.
Qed.
Lemma rank0_abs b i : bv_wf b -> i <= bv_nbits b -> rank0_spec (bv_abs b) i = i - R1 (bv_words b) i.
Proof.
  intros Hwf Hi. unfold rank0_spec. rewrite abs_map, rank_spec_firstnN.
  replace (N.min i (bv_nbits b)) with i by lia.
  pose proof (rank01 (FL (bv_words b)) i (bin_FL _)) as E. rewrite len_FL, (wf_len b Hwf) in E.
  pose proof (wf_nbits b Hwf). unfold R1. lia.
Qed.
Lemma countb_abs b : bv_wf b -> countb (bv_abs b) = R1 (bv_words b) (bv_nbits b).
Proof.
  intros Hwf. rewrite countb_countN, abs_map. unfold R1. rewrite rank_spec_count. reflexivity.
Qed.

Lemma select_abs b one k p : select_spec (map N_of_bool (bv_abs b)) (cbit one) k = Some p ->
  select_spec (FL (bv_words b)) (cbit one) k = Some p.
Proof.
  rewrite abs_map. intros H. apply select_spec_some_iff in H. destruct H as [Hn Hr].
  rewrite nthN_firstnN in Hn. destruct (N.ltb_spec p (bv_nbits b)) as [Hp|Hp]; [|discriminate].
  rewrite rank_spec_firstnN in Hr. replace (N.min p (bv_nbits b)) with p in Hr by lia.
  apply select_spec_some_iff. split; assumption.
Qed.

Lemma count_abs b one : bv_wf b ->
  countN (cbit one) (map N_of_bool (bv_abs b)) = Rc (bv_words b) one (bv_nbits b).
Proof.
  intros Hwf. rewrite Rc_rank by (rewrite (wf_len b Hwf); pose proof (wf_nbits b Hwf); lia).
  rewrite abs_map, rank_spec_count. reflexivity.
Qed.

Lemma land63 x : N.land x 63 = x mod 64.
Proof. change 63 with (N.ones 6). rewrite N.land_ones. reflexivity. Qed.
Lemma land511 x : N.land x 511 = x mod 512.
Proof. change 511 with (N.ones 9). rewrite N.land_ones. reflexivity. Qed.
Lemma shiftr6 x : N.shiftr x 6 = x / 64.
Proof. rewrite N.shiftr_div_pow2. reflexivity. Qed.
Lemma shiftr9 x : N.shiftr x 9 = x / 512.
Proof. rewrite N.shiftr_div_pow2. reflexivity. Qed.
Lemma shiftr3 x : N.shiftr x 3 = x / 8.
Proof. rewrite N.shiftr_div_pow2. reflexivity. Qed.

Lemma bv_get_correct b i : bv_wf b -> bv_get b i = Val (nthN (bv_abs b) i).
Proof.
  intros Hwf. unfold bv_get, bv_abs. rewrite nthN_map, nthN_firstnN. fold (FL (bv_words b)).
  destruct (N.leb_spec (bv_nbits b) i) as [Hge|Hlt].
  - destruct (N.ltb_spec i (bv_nbits b)); [lia|reflexivity].
  - destruct (N.ltb_spec i (bv_nbits b)); [|lia].
    unfold bv_get_unchecked, bv_get_bit_slice. rewrite shiftr6, land63.
    pose proof (wf_nbits b Hwf) as Hn. pose proof (wf_len b Hwf) as Hl.
    destruct (nthN_lt_some (bv_words b) (i / 64)) as (w & Ew); [lia|].
    unfold idx. rewrite Ew. cbn [bind].
    assert (Ei : nthN (FL (bv_words b)) i = Some (N.b2n (N.testbit w (i mod 64)))).
    { rewrite <- (nthN_FL_word _ _ _ _ Ew) by lia. f_equal. lia. }
    rewrite Ei. cbn [option_map]. do 2 f_equal.
    assert (El : N.land (N.shiftr w (i mod 64)) 1 = N.b2n (N.testbit w (i mod 64))).
    { change 1 with (N.ones 1). rewrite N.land_ones, N.shiftr_div_pow2, N.testbit_spec', N.pow_1_r. reflexivity. }
    rewrite El. reflexivity.
Qed.
