(* HuffQWaveletTree::rank_prefetch_unchecked / rank_prefetch (WITH_PREFETCH_SUPPORT = false: HQWT256 / HQWT512)
   regenerated (Gen/FnsHqwt.v): the estimation phase (code lookup, the i64 shift, `while shift >= 2` with the reads of
   occs_smaller_unchecked / rank_block_unchecked of every level, the checked arithmetic and the index checks of the
   arguments of the prefetch_data calls) never faults on a tree the constructor builds and has no effect: the
   regenerated methods are EQUAL to the regenerated rank_unchecked / rank, hence to the list specification. *)
From Coq Require Import ZArith Lia ZifyBool ZifyN ZifyNat.
From QwtModel Require Import ListX Loops Seq Consts SelTable Words QVec RSQ QWT Huff ListXP ConstsOk WordsP BitsLib LeafP.
From QwtModel Require Import LeavesLib FnsRss FnsQv2 FnsRsq FnsQv2Ok FnsRssOk FnsRsqOk FnsHqwt.
From QwtModel Require Import QVecP RSQList RSQWord RSQBuild RSQP WaveletMatrix HuffWM Codes HQWTBridge HQWTWalks HQWTCode HQWTP CraftP HQWTNewP.
From QwtModel Require Import FnsHqwtOk.
Ltac Zify.zify_post_hook ::= Z.div_mod_to_equations.
Open Scope N_scope.
Arguments N.add : simpl never.
Arguments N.sub : simpl never.
Arguments N.mul : simpl never.
Arguments N.eqb : simpl never.
Arguments N.ltb : simpl never.
Arguments N.leb : simpl never.
Arguments N.of_nat : simpl never.
Arguments N.land : simpl never.
Arguments N.shiftr : simpl never.
Arguments N.div : simpl never.
Arguments N.modulo : simpl never.
Arguments N.pow : simpl never.
Arguments Z.of_N : simpl never.
Arguments Z.to_N : simpl never.
Arguments Z.of_nat : simpl never.
Arguments Z.modulo : simpl never.
Arguments Z.pow : simpl never.
Arguments Z.sub : simpl never.
Arguments Z.add : simpl never.
Arguments Z.mul : simpl never.
Arguments Z.leb : simpl never.

(* ------------------------------------------------------------------ small facts *)
Lemma omul_small w a b : a * b < 2 ^ w -> omul w a b = Val (a * b).
Proof. intros H. unfold omul. destruct (N.ltb_spec (a * b) (2 ^ w)); [reflexivity|lia]. Qed.

(* `(repr >> shift) as u8 & 3` *)
Lemma land_mod8_3 x : N.land (x mod 2 ^ 8) 3 = N.land x 3.
Proof.
  rewrite <- N.land_ones, <- N.land_assoc. reflexivity.
Qed.

Lemma rank_block_bound bsize rs c i a : Forall (Forall (fun w => w < 2 ^ 128)) (rs_superblocks rs) ->
  rss_rank_block bsize rs c i = Val a -> a < 2 ^ 44 + 4096.
Proof.
  intros Hs Ea. unfold rss_rank_block in Ea.
  destruct (odebug_assert (c <=? 3)) as [[]|] in Ea; cbn [bind] in Ea; [|discriminate].
  destruct (uidx (rs_superblocks rs) _) as [sb|] eqn:Esb; cbn [bind] in Ea; [|discriminate].
  pose proof (uidx_Forall _ _ _ _ Hs Esb) as Hsb. cbv beta in Hsb.
  now apply sb_get_rank_bound in Ea.
Qed.

(* ================================================================== the generic text *)
(* the text of Gen/FnsHqwt.v with the functions that depend on the block size abstracted (checked convertible to
   both generated instances by the [exact] of the instance theorems below); the final call is the generic text
   G_rank_unchecked of Proofs/FnsHqwtOk.v *)
Section GenericPf.
  Variable bsize : N.
  Variable g_occs_su : list N -> N -> outcome N.
  Variable g_rank_blk : list (list N) -> N -> N -> outcome N.
  Variable g_rank_u : list (list N) -> list (list N) -> N -> N -> outcome N.
  Hypothesis occs_su_ok : forall r c, g_occs_su (rsq_occs_smaller r) c = rsq_occs_smaller_unchecked r c.
  Hypothesis rank_blk_ok : forall r c i,
    g_rank_blk (rs_superblocks (rsq_rs r)) c i = rss_rank_block bsize (rsq_rs r) c i.

  (* for i in 0..level { self.qvs[level + 1].prefetch_data(range.end + 2 * BLOCK_SIZE + i * BLOCK_SIZE); } *)
  Definition G_pf_inner {R} (qvs_qv_data : list (list (list N))) (level range_end BLOCK_SIZE : N)
    : N -> unit -> outcome (step unit R) :=
    fun i _ =>
          let! t15 := oadd 64 level 1 in
          let! _ := idx qvs_qv_data t15 in
          let! t16 := omul 64 2 BLOCK_SIZE in
          let! t17 := oadd 64 range_end t16 in
          let! t18 := omul 64 i BLOCK_SIZE in
          let! t19 := oadd 64 t17 t18 in
          Val (Next tt).

  Definition G_pf_cond : N * N * N * Z -> outcome bool :=
    fun '(range_start, range_end, level, shift) => Val (Z.leb (2%Z) shift).

  Definition G_pf_body (repr : N) (qvs_qv_data : list (list (list N))) (qvs_rs_support_superblocks : list (list (list N)))
    (qvs_n_occs_smaller : list (list N)) (BLOCK_SIZE : N) : N * N * N * Z -> outcome (step (N * N * N * Z) N) :=
    fun '(range_start, range_end, level, shift) =>
      let! t3 := oshr 32 repr (Z.to_N (Z.modulo shift (2 ^ 64)%Z)) in
      let two_bits := N.land (t3 mod 2 ^ 8) 3 in
      let! t4 := idx qvs_n_occs_smaller level in
      let! offset := g_occs_su t4 two_bits in
      let! t5 := idx qvs_rs_support_superblocks level in
      let! rank_start := g_rank_blk t5 two_bits range_start in
      let! t6 := idx qvs_rs_support_superblocks level in
      let! rank_end := g_rank_blk t6 two_bits range_end in
      let! t7 := oadd 64 rank_start offset in
      let! t8 := oadd 64 rank_end offset in
      let range_start := t7 in
      let range_end := t8 in
      let! t9 := oadd 64 level 1 in
      let! _ := idx qvs_qv_data t9 in
      let! t10 := oadd 64 level 1 in
      let! _ := idx qvs_qv_data t10 in
      let! t11 := oadd 64 range_start BLOCK_SIZE in
      let! t12 := oadd 64 level 1 in
      let! _ := idx qvs_qv_data t12 in
      let! t13 := oadd 64 level 1 in
      let! _ := idx qvs_qv_data t13 in
      let! t14 := oadd 64 range_end BLOCK_SIZE in
      let! r := for_loop (G_pf_inner qvs_qv_data level range_end BLOCK_SIZE) 0 (N.to_nat (level - 0)) tt in
      match r with
      | Retd v => Val v
      | Done _ =>
          let! level := oadd 64 level 1 in
          let! shift := zisub 64 shift (2%Z) in
          Val (Next (range_start, range_end, level, shift))
      end.

  Definition G_pf_unchecked (fuel : nat) (wT : N) (codes_encode_content : list N) (codes_encode_len : list N) (qvs_qv_data : list (list (list N))) (qvs_rs_support_superblocks : list (list (list N))) (qvs_n_occs_smaller : list (list N)) (symbol : N) (i : N) : outcome N :=
    let t1 := symbol mod 2 ^ 64 in
    let! _ := idx codes_encode_content t1 in
    let range_start := 0 in
    let range_end := i in
    let! t2 := idx codes_encode_len t1 in
    let! shift := zisub 64 (zwrap 64 (Z.of_N t2)) (2%Z) in
    let! repr := idx codes_encode_content t1 in
    let BLOCK_SIZE := 256 in
    let level := 0 in
    let! _ := idx qvs_qv_data 0 in
    let! _ := idx qvs_qv_data 0 in
    let! r := while_loop G_pf_cond
                (G_pf_body repr qvs_qv_data qvs_rs_support_superblocks qvs_n_occs_smaller BLOCK_SIZE)
                fuel (range_start, range_end, level, shift) in
    match r with
    | Retd v => Val v
    | Done (range_start, range_end, level, shift) =>
        G_rank_unchecked g_occs_su g_rank_u fuel wT codes_encode_content codes_encode_len qvs_qv_data qvs_rs_support_superblocks qvs_n_occs_smaller symbol i
    end.

  Definition G_pf (fuel : nat) (wT : N) (n : N) (codes_encode_content : list N) (codes_encode_len : list N) (qvs_qv_data : list (list (list N))) (qvs_rs_support_superblocks : list (list (list N))) (qvs_n_occs_smaller : list (list N)) (symbol : N) (i : N) : outcome (option N) :=
    let! t2 := (if N.ltb n i then Val true else
      let! t1 := g_hqwt256_code_index wT codes_encode_content codes_encode_len symbol in
      Val (match t1 with None => true | Some _ => false end)) in
    if t2 then
      Val None
    else
      let! t3 := G_pf_unchecked fuel wT codes_encode_content codes_encode_len qvs_qv_data qvs_rs_support_superblocks qvs_n_occs_smaller symbol i in
      Val (Some t3).

  (* ---- the inner loop: arguments of the prefetches `range.end + 2 * 256 + i * 256`, i < level *)
  Lemma pf_inner_done {R} (data : list (list (list N))) level re x :
    idx data (level + 1) = Val x -> level <= 2 ^ 32 -> re < 2 ^ 63 + 2 ^ 46 ->
    forall k lo, lo + N.of_nat k <= level ->
    for_loop (@G_pf_inner R data level re 256) lo k tt = Val (Done tt).
  Proof.
    intros Ex Hl Hre. change (2 ^ 32) with 4294967296 in Hl.
    change (2 ^ 63 + 2 ^ 46) with 9223442405598953472 in Hre.
    induction k as [|k IH]; intros lo Hlo; [reflexivity|].
    cbn [for_loop]. unfold G_pf_inner at 1.
    rewrite oadd_small by (rewrite p64; lia). cbn [bind]. rewrite Ex. cbn [bind].
    rewrite (omul_small 64 2 256) by (rewrite p64; lia). cbn [bind].
    rewrite oadd_small by (rewrite p64; lia). cbn [bind].
    rewrite omul_small by (rewrite p64; lia). cbn [bind].
    rewrite oadd_small by (rewrite p64; lia). cbn [bind].
    apply IH. lia.
  Qed.

  (* ---- the estimation loop: wherever the hand model's walk returns, the generated loop ends normally.
     The i64 shift of the source is 2 * (remaining iterations) while an iteration remains; the loop is left when it
     is below 2 (0, or -2 for the code of length 0 of a symbol that does not occur) *)
  Lemma pf_loop_sim repr qvs : Forall lvl_rank_ok qvs ->
    forall n fuel level rs re sh z, level + N.of_nat n <= 2 ^ 32 -> (n <= 15)%nat -> (n < fuel)%nat ->
    ((0 < n)%nat -> z = Z.of_N sh /\ sh = 2 * N.of_nat n) -> (n = 0%nat -> (z < 2)%Z) ->
    hq_estimate_walk bsize qvs repr sh rs re level n = Val tt ->
    exists st, while_loop G_pf_cond
                 (G_pf_body repr (map rsq_wdata qvs) (map lvl_sbs qvs) (map rsq_occs_smaller qvs) 256)
                 fuel (rs, re, level, z) = Val (Done st).
  Proof.
    intros HF. induction n as [|n IH]; intros fuel level rs re sh z Hlv Hn Hfuel Hz Hz0;
      (destruct fuel as [|fuel]; [lia|]).
    - intros _. specialize (Hz0 eq_refl). cbn [while_loop G_pf_cond bind].
      replace (2 <=? z)%Z with false by lia. eexists. reflexivity.
    - destruct (Hz ltac:(lia)) as [-> Hsh]. clear Hz Hz0.
      cbn [hq_estimate_walk while_loop G_pf_cond bind].
      replace (2 <=? Z.of_N sh)%Z with true by lia. cbv iota.
      unfold G_pf_body at 1. cbv beta iota zeta.
      rewrite shamt_of_N by (rewrite p64; lia).
      unfold oshr. destruct (N.ltb_spec sh 32) as [_|H32]; [|lia]. cbn [bind].
      rewrite land_mod8_3. set (tb := N.land (N.shiftr repr sh) 3).
      rewrite !idx_map.
      destruct (idx qvs level) as [qv|] eqn:Eqv; cbn [bind]; [|discriminate].
      pose proof (idx_Forall _ _ _ _ HF Eqv) as (Hl & Hw & Ho).
      rewrite occs_su_ok.
      destruct (rsq_occs_smaller_unchecked qv tb) as [offset|] eqn:Eo; cbn [bind]; [|discriminate].
      destruct (occs_smaller_bound _ _ _ Ho Eo) as [Hoff _].
      unfold lvl_sbs at 1 2. rewrite !rank_blk_ok.
      destruct (rss_rank_block bsize (rsq_rs qv) tb rs) as [a|] eqn:Ea; cbn [bind]; [|discriminate].
      destruct (rss_rank_block bsize (rsq_rs qv) tb re) as [b|] eqn:Eb; cbn [bind]; [|discriminate].
      pose proof (rank_block_bound _ _ _ _ _ Hw Ea) as Ha.
      pose proof (rank_block_bound _ _ _ _ _ Hw Eb) as Hb.
      change (2 ^ 44 + 4096) with 17592186048512 in Ha, Hb. rewrite p63 in Hoff.
      change (2 ^ 32) with 4294967296 in Hlv.
      destruct (idx qvs (level + 1)) as [qv1|] eqn:Eqv1; cbn [bind]; [|discriminate].
      intros E.
      rewrite !oadd_small by (rewrite p64; lia). cbn [bind].
      rewrite !idx_map, Eqv1. cbn [bind].
      rewrite (pf_inner_done _ level (b + offset) (rsq_wdata qv1)).
      + cbn [bind]. rewrite !oadd_small by (rewrite p64; lia). cbn [bind].
        rewrite zisub2 by lia. cbn [bind].
        apply (IH fuel (level + 1) (a + offset) (b + offset) (sh - 2) (Z.of_N sh - 2)%Z);
          [change (2 ^ 32) with 4294967296; lia|lia|lia|lia|lia|exact E].
      + rewrite idx_map, Eqv1. reflexivity.
      + change (2 ^ 32) with 4294967296. lia.
      + change (2 ^ 63 + 2 ^ 46) with 9223442405598953472. lia.
      + lia.
  Qed.

  (* ---- rank_prefetch_unchecked: the estimation phase is transparent wherever the hand model's estimation walk
     returns (or the code lookup already faults: then both sides are the same fault) *)
  Theorem G_pf_unchecked_eq : forall wT t symbol i fuel,
    Forall lvl_rank_ok (h_qvs t) -> codes_ok t -> (17 <= fuel)%nat ->
    (forall code, idx (h_codes t) (sym_index symbol) = Val code ->
       exists v, hq_rank_prefetch_unchecked bsize t symbol i = Val v) ->
    G_pf_unchecked fuel wT (hq_enc_content t) (hq_enc_len t) (hq_data t) (hq_sbs t) (hq_occs t) symbol i
    = G_rank_unchecked g_occs_su g_rank_u fuel wT (hq_enc_content t) (hq_enc_len t) (hq_data t) (hq_sbs t) (hq_occs t) symbol i.
  Proof.
    intros wT t symbol i fuel HF HC Hfuel Hv. unfold G_pf_unchecked. cbv zeta.
    fold (sym_index symbol).
    destruct (idx (h_codes t) (sym_index symbol)) as [code|f] eqn:Ec.
    2:{ unfold G_rank_unchecked. cbv zeta. fold (sym_index symbol).
        unfold hq_enc_content. rewrite !idx_map, Ec. reflexivity. }
    destruct (Hv code eq_refl) as (v & Ev). clear Hv. revert Ev.
    unfold hq_rank_prefetch_unchecked. rewrite Ec. cbn [bind].
    destruct (idx (h_qvs t) 0) as [r0|] eqn:E0; cbn [bind]; [|discriminate].
    destruct (hq_estimate_walk bsize (h_qvs t) (pc_content code) (pc_len code - 2) 0 i 0 (N.to_nat (pc_len code / 2 - 1)))
      as [[]|] eqn:Ew; cbn [bind]; [|discriminate].
    intros _.
    pose proof (idx_Forall _ _ _ _ HC Ec) as [Hev H32]. cbv beta in Hev, H32.
    unfold hq_enc_content at 1 2, hq_enc_len at 1. rewrite !idx_map, Ec. cbn [bind].
    rewrite zwrap_small by lia. rewrite zisub2 by lia. cbn [bind].
    unfold hq_data at 1 2. rewrite !idx_map, E0. cbn [bind].
    destruct (pf_loop_sim (pc_content code) (h_qvs t) HF (N.to_nat (pc_len code / 2 - 1)) fuel 0 0 i
                (pc_len code - 2) (Z.of_N (pc_len code) - 2)%Z) as (st & Est).
    - change (2 ^ 32) with 4294967296. lia.
    - lia.
    - lia.
    - lia.
    - lia.
    - exact Ew.
    - unfold hq_data, hq_sbs, hq_occs. rewrite Est. cbn [bind]. destruct st as [[[a b] c] d]. reflexivity.
  Qed.

  (* ---- rank_prefetch: the same guard as rank *)
  Theorem G_pf_eq : forall wT t symbol i fuel,
    Forall lvl_rank_ok (h_qvs t) -> codes_ok t -> (17 <= fuel)%nat ->
    (i <= h_n t -> forall code, idx (h_codes t) (sym_index symbol) = Val code ->
       exists v, hq_rank_prefetch_unchecked bsize t symbol i = Val v) ->
    G_pf fuel wT (h_n t) (hq_enc_content t) (hq_enc_len t) (hq_data t) (hq_sbs t) (hq_occs t) symbol i
    = G_rank g_occs_su g_rank_u fuel wT (h_n t) (hq_enc_content t) (hq_enc_len t) (hq_data t) (hq_sbs t) (hq_occs t) symbol i.
  Proof.
    intros wT t symbol i fuel HF HC Hfuel Hv. unfold G_pf, G_rank.
    destruct (N.ltb_spec (h_n t) i) as [Hi|Hi]; [reflexivity|]. cbn [bind].
    rewrite (G_pf_unchecked_eq wT t symbol i fuel HF HC Hfuel (Hv Hi)). reflexivity.
  Qed.
End GenericPf.

(* ================================================================== the two instances *)
(* [exact (G_.. ..)] also checks that the generated definition IS the generic text instantiated with the
   B = 256 / B = 512 functions (conversion). *)
Theorem g_hqwt256_rank_prefetch_unchecked_sim : forall wT t symbol i fuel,
  Forall lvl_rank_ok (h_qvs t) -> codes_ok t -> (17 <= fuel)%nat ->
  (forall code, idx (h_codes t) (sym_index symbol) = Val code ->
     exists v, hq_rank_prefetch_unchecked 256 t symbol i = Val v) ->
  g_hqwt256_rank_prefetch_unchecked fuel wT (hq_enc_content t) (hq_enc_len t) (hq_data t) (hq_sbs t) (hq_occs t) symbol i
  = g_hqwt256_rank_unchecked fuel wT (hq_enc_content t) (hq_enc_len t) (hq_data t) (hq_sbs t) (hq_occs t) symbol i.
Proof.
  exact (G_pf_unchecked_eq 256 g_rsq256_occs_smaller_unchecked g_rsq256_rank_block_unchecked g_rsq256_rank_unchecked
           g_rsq256_occs_smaller_unchecked_ok g_rsq256_rank_block_unchecked_ok).
Qed.
Theorem g_hqwt512_rank_prefetch_unchecked_sim : forall wT t symbol i fuel,
  Forall lvl_rank_ok (h_qvs t) -> codes_ok t -> (17 <= fuel)%nat ->
  (forall code, idx (h_codes t) (sym_index symbol) = Val code ->
     exists v, hq_rank_prefetch_unchecked 512 t symbol i = Val v) ->
  g_hqwt512_rank_prefetch_unchecked fuel wT (hq_enc_content t) (hq_enc_len t) (hq_data t) (hq_sbs t) (hq_occs t) symbol i
  = g_hqwt512_rank_unchecked fuel wT (hq_enc_content t) (hq_enc_len t) (hq_data t) (hq_sbs t) (hq_occs t) symbol i.
Proof.
  exact (G_pf_unchecked_eq 512 g_rsq512_occs_smaller_unchecked g_rsq512_rank_block_unchecked g_rsq512_rank_unchecked
           g_rsq512_occs_smaller_unchecked_ok g_rsq512_rank_block_unchecked_ok).
Qed.

Theorem g_hqwt256_rank_prefetch_sim : forall wT t symbol i fuel,
  Forall lvl_rank_ok (h_qvs t) -> codes_ok t -> (17 <= fuel)%nat ->
  (i <= h_n t -> forall code, idx (h_codes t) (sym_index symbol) = Val code ->
     exists v, hq_rank_prefetch_unchecked 256 t symbol i = Val v) ->
  g_hqwt256_rank_prefetch fuel wT (h_n t) (hq_enc_content t) (hq_enc_len t) (hq_data t) (hq_sbs t) (hq_occs t) symbol i
  = g_hqwt256_rank fuel wT (h_n t) (hq_enc_content t) (hq_enc_len t) (hq_data t) (hq_sbs t) (hq_occs t) symbol i.
Proof.
  exact (G_pf_eq 256 g_rsq256_occs_smaller_unchecked g_rsq256_rank_block_unchecked g_rsq256_rank_unchecked
           g_rsq256_occs_smaller_unchecked_ok g_rsq256_rank_block_unchecked_ok).
Qed.
Theorem g_hqwt512_rank_prefetch_sim : forall wT t symbol i fuel,
  Forall lvl_rank_ok (h_qvs t) -> codes_ok t -> (17 <= fuel)%nat ->
  (i <= h_n t -> forall code, idx (h_codes t) (sym_index symbol) = Val code ->
     exists v, hq_rank_prefetch_unchecked 512 t symbol i = Val v) ->
  g_hqwt512_rank_prefetch fuel wT (h_n t) (hq_enc_content t) (hq_enc_len t) (hq_data t) (hq_sbs t) (hq_occs t) symbol i
  = g_hqwt512_rank fuel wT (h_n t) (hq_enc_content t) (hq_enc_len t) (hq_data t) (hq_sbs t) (hq_occs t) symbol i.
Proof.
  exact (G_pf_eq 512 g_rsq512_occs_smaller_unchecked g_rsq512_rank_block_unchecked g_rsq512_rank_unchecked
           g_rsq512_occs_smaller_unchecked_ok g_rsq512_rank_block_unchecked_ok).
Qed.

(* ================================================================== the hand model on built trees *)
Lemma sym_index_idem c : sym_index (sym_index c) = sym_index c.
Proof. unfold sym_index. apply N.mod_mod. discriminate. Qed.

Lemma idx_Some' {A} (l : list A) i a : idx l i = Val a -> nthN l i = Some a.
Proof. unfold idx. destruct (nthN l i); [|discriminate]. intros E. apply Val_inj in E. now subst. Qed.

(* on every tree hq_build builds: the levels and the table are well formed, and the hand model's
   rank_prefetch_unchecked returns a value for EVERY symbol that indexes into the code table (with or without a
   code, also symbols >= 2^64 whose `as usize` truncation indexes the table) and every i <= len *)
Lemma hq_pf_facts w bsize seq tab t : width_ok w -> (bsize = 256 \/ bsize = 512) ->
  Forall (fun x => x < 2 ^ w) seq -> len seq < RSQ_MAXN -> table_ok seq tab -> hq_build bsize seq tab = Val t ->
  hq_spec w bsize t seq /\ Forall lvl_rank_ok (h_qvs t) /\ codes_ok t /\ h_n t = len seq /\
  (forall c i, i <= len seq -> forall code, idx (h_codes t) (sym_index c) = Val code ->
     exists v, hq_rank_prefetch_unchecked bsize t c i = Val v).
Proof.
  intros Hw Hb HF Hn Htok Hbuild.
  destruct (hq_build_correct w bsize seq tab Hw Hb HF Hn Htok) as (t' & Et & Hspec).
  rewrite Hbuild in Et. apply Val_inj in Et. subst t'.
  destruct (hq_build_wf bsize seq tab t _ Hb Hn Htok Hbuild (le_n _)) as (Hlv & Hco & _).
  pose proof (lvl_select_rank _ _ _ Hlv) as Hlr.
  pose proof Hspec as (S1 & _ & _ & _ & _ & _ & S7 & _).
  split; [exact Hspec|]. split; [exact Hlr|]. split; [exact Hco|]. split; [exact S1|].
  intros c i Hi code Ec.
  destruct seq as [|x0 seq'].
  - exfalso. unfold hq_build in Hbuild.
    destruct (rsq_default bsize) as [d|]; cbn [bind] in Hbuild; [|discriminate].
    apply Val_inj in Hbuild. subst t. cbn [h_codes] in Ec. discriminate.
  - set (s := x0 :: seq') in *.
    assert (Hcodes : h_codes t = tab).
    { unfold s in Hbuild. rewrite hq_build_cons in Hbuild.
      destruct (hq_levels bsize (x0 :: seq') tab 2 _) as [[qvs lens]|]; cbn [bind] in Hbuild; [|discriminate].
      apply Val_inj in Hbuild. subst t. reflexivity. }
    destruct Htok as (_ & _ & Hocc & _).
    destruct (N.eq_dec (pc_len code) 0) as [E0|Hne].
    + (* a symbol without a code: no estimation step, rank_unchecked returns i *)
      assert (Hq : exists r0, idx (h_qvs t) 0 = Val r0).
      { destruct (S7 x0 0) as [_ P].
        - apply countN_pos_In. left. reflexivity.
        - lia.
        - unfold hq_rank_prefetch_unchecked in P.
          destruct (idx (h_codes t) (sym_index x0)); cbn [bind] in P; [|discriminate].
          destruct (idx (h_qvs t) 0) as [r0|]; cbn [bind] in P; [|discriminate]. now exists r0. }
      destruct Hq as (r0 & Er0).
      unfold hq_rank_prefetch_unchecked, hq_rank_unchecked. rewrite Ec, Er0. cbn [bind]. rewrite E0.
      change (N.to_nat (0 / 2 - 1)) with 0%nat. change (N.to_nat (0 / 2)) with 0%nat.
      cbn [hq_estimate_walk hq_rank_walk bind]. unfold osub. destruct (N.leb_spec 0 i); [|lia].
      eexists. reflexivity.
    + (* a symbol with a code occurs in the sequence (its `as usize` truncation does) *)
      assert (Hcl : hq_rank_prefetch_unchecked bsize t c i = hq_rank_prefetch_unchecked bsize t (sym_index c) i).
      { unfold hq_rank_prefetch_unchecked, hq_rank_unchecked. rewrite sym_index_idem. reflexivity. }
      rewrite Hcodes in Ec. apply idx_Some' in Ec.
      pose proof (Hocc _ _ Ec Hne) as Hin. apply countN_pos_In in Hin.
      destruct (S7 (sym_index c) i Hin Hi) as [_ P]. rewrite Hcl, P. eexists. reflexivity.
Qed.

(* ================================================================== (1) rank_prefetch_unchecked on built trees *)
(* the estimation phase never faults and has no effect: EVERY symbol (with or without a code, no `c < 2^w`
   needed; a symbol outside the table is the same index panic on both sides), every i <= len; fuel >= 17 *)
Theorem g_hqwt256_rank_prefetch_unchecked_built : forall w seq tab t fuel, width_ok w ->
  Forall (fun x => x < 2 ^ w) seq -> len seq < RSQ_MAXN -> table_ok seq tab ->
  hq_build 256 seq tab = Val t -> (17 <= fuel)%nat ->
  forall c i, i <= len seq ->
  g_hqwt256_rank_prefetch_unchecked fuel w (hq_enc_content t) (hq_enc_len t) (hq_data t) (hq_sbs t) (hq_occs t) c i
  = g_hqwt256_rank_unchecked fuel w (hq_enc_content t) (hq_enc_len t) (hq_data t) (hq_sbs t) (hq_occs t) c i.
Proof.
  intros w seq tab t fuel Hw HF Hn Htok Hbuild Hf17 c i Hi.
  destruct (hq_pf_facts w 256 seq tab t Hw ltac:(auto) HF Hn Htok Hbuild) as (_ & Hlr & Hco & _ & Hv).
  apply (g_hqwt256_rank_prefetch_unchecked_sim w t c i fuel Hlr Hco Hf17). now apply Hv.
Qed.
Theorem g_hqwt512_rank_prefetch_unchecked_built : forall w seq tab t fuel, width_ok w ->
  Forall (fun x => x < 2 ^ w) seq -> len seq < RSQ_MAXN -> table_ok seq tab ->
  hq_build 512 seq tab = Val t -> (17 <= fuel)%nat ->
  forall c i, i <= len seq ->
  g_hqwt512_rank_prefetch_unchecked fuel w (hq_enc_content t) (hq_enc_len t) (hq_data t) (hq_sbs t) (hq_occs t) c i
  = g_hqwt512_rank_unchecked fuel w (hq_enc_content t) (hq_enc_len t) (hq_data t) (hq_sbs t) (hq_occs t) c i.
Proof.
  intros w seq tab t fuel Hw HF Hn Htok Hbuild Hf17 c i Hi.
  destruct (hq_pf_facts w 512 seq tab t Hw ltac:(auto) HF Hn Htok Hbuild) as (_ & Hlr & Hco & _ & Hv).
  apply (g_hqwt512_rank_prefetch_unchecked_sim w t c i fuel Hlr Hco Hf17). now apply Hv.
Qed.

(* .. and with the precondition of the unsafe method (the symbol occurs) it is the list specification *)
Corollary g_hqwt256_rank_prefetch_unchecked_spec : forall w seq tab t fuel, width_ok w ->
  Forall (fun x => x < 2 ^ w) seq -> len seq < RSQ_MAXN -> table_ok seq tab ->
  hq_build 256 seq tab = Val t -> (17 <= fuel)%nat ->
  forall c i, 0 < countN c seq -> i <= len seq ->
  g_hqwt256_rank_prefetch_unchecked fuel w (hq_enc_content t) (hq_enc_len t) (hq_data t) (hq_sbs t) (hq_occs t) c i
  = Val (rank_spec seq c i).
Proof.
  intros w seq tab t fuel Hw HF Hn Htok Hbuild Hf17 c i Hc Hi.
  rewrite (g_hqwt256_rank_prefetch_unchecked_built w seq tab t fuel Hw HF Hn Htok Hbuild Hf17 c i Hi).
  destruct (hq_pf_facts w 256 seq tab t Hw ltac:(auto) HF Hn Htok Hbuild) as (Hspec & Hlr & Hco & _ & _).
  destruct Hspec as (_ & _ & _ & _ & _ & _ & S7 & _).
  pose proof (RSQ_MAXN_lt64 _ Hn) as Hn64.
  apply (g_hqwt256_rank_unchecked_ok w t c i _ fuel Hlr Hco ltac:(lia) Hf17). now apply S7.
Qed.
Corollary g_hqwt512_rank_prefetch_unchecked_spec : forall w seq tab t fuel, width_ok w ->
  Forall (fun x => x < 2 ^ w) seq -> len seq < RSQ_MAXN -> table_ok seq tab ->
  hq_build 512 seq tab = Val t -> (17 <= fuel)%nat ->
  forall c i, 0 < countN c seq -> i <= len seq ->
  g_hqwt512_rank_prefetch_unchecked fuel w (hq_enc_content t) (hq_enc_len t) (hq_data t) (hq_sbs t) (hq_occs t) c i
  = Val (rank_spec seq c i).
Proof.
  intros w seq tab t fuel Hw HF Hn Htok Hbuild Hf17 c i Hc Hi.
  rewrite (g_hqwt512_rank_prefetch_unchecked_built w seq tab t fuel Hw HF Hn Htok Hbuild Hf17 c i Hi).
  destruct (hq_pf_facts w 512 seq tab t Hw ltac:(auto) HF Hn Htok Hbuild) as (Hspec & Hlr & Hco & _ & _).
  destruct Hspec as (_ & _ & _ & _ & _ & _ & S7 & _).
  pose proof (RSQ_MAXN_lt64 _ Hn) as Hn64.
  apply (g_hqwt512_rank_unchecked_ok w t c i _ fuel Hlr Hco ltac:(lia) Hf17). now apply S7.
Qed.

(* ================================================================== (2) the checked method *)
(* equal to the regenerated rank for EVERY symbol and EVERY i (out of range / no code: both None) *)
Theorem g_hqwt256_rank_prefetch_eq_rank : forall w seq tab t fuel, width_ok w ->
  Forall (fun x => x < 2 ^ w) seq -> len seq < RSQ_MAXN -> table_ok seq tab ->
  hq_build 256 seq tab = Val t -> (17 <= fuel)%nat ->
  forall c i,
  g_hqwt256_rank_prefetch fuel w (h_n t) (hq_enc_content t) (hq_enc_len t) (hq_data t) (hq_sbs t) (hq_occs t) c i
  = g_hqwt256_rank fuel w (h_n t) (hq_enc_content t) (hq_enc_len t) (hq_data t) (hq_sbs t) (hq_occs t) c i.
Proof.
  intros w seq tab t fuel Hw HF Hn Htok Hbuild Hf17 c i.
  destruct (hq_pf_facts w 256 seq tab t Hw ltac:(auto) HF Hn Htok Hbuild) as (_ & Hlr & Hco & Hqn & Hv).
  apply (g_hqwt256_rank_prefetch_sim w t c i fuel Hlr Hco Hf17). rewrite Hqn. intros Hi. now apply Hv.
Qed.
Theorem g_hqwt512_rank_prefetch_eq_rank : forall w seq tab t fuel, width_ok w ->
  Forall (fun x => x < 2 ^ w) seq -> len seq < RSQ_MAXN -> table_ok seq tab ->
  hq_build 512 seq tab = Val t -> (17 <= fuel)%nat ->
  forall c i,
  g_hqwt512_rank_prefetch fuel w (h_n t) (hq_enc_content t) (hq_enc_len t) (hq_data t) (hq_sbs t) (hq_occs t) c i
  = g_hqwt512_rank fuel w (h_n t) (hq_enc_content t) (hq_enc_len t) (hq_data t) (hq_sbs t) (hq_occs t) c i.
Proof.
  intros w seq tab t fuel Hw HF Hn Htok Hbuild Hf17 c i.
  destruct (hq_pf_facts w 512 seq tab t Hw ltac:(auto) HF Hn Htok Hbuild) as (_ & Hlr & Hco & Hqn & Hv).
  apply (g_hqwt512_rank_prefetch_sim w t c i fuel Hlr Hco Hf17). rewrite Hqn. intros Hi. now apply Hv.
Qed.

(* .. hence the list specification, as g_hqwtNNN_end_to_end states it for rank (same hypotheses) *)
Theorem g_hqwt256_rank_prefetch_built : forall w seq tab t fuel, width_ok w ->
  Forall (fun x => x < 2 ^ w) seq -> len seq < RSQ_MAXN -> table_ok seq tab ->
  hq_build 256 seq tab = Val t ->
  (17 <= fuel)%nat -> (S (S (N.to_nat (len seq / (8 * 256)))) <= fuel)%nat ->
  forall c i, c < 2 ^ w -> i < 2 ^ 64 ->
  g_hqwt256_rank_prefetch fuel w (h_n t) (hq_enc_content t) (hq_enc_len t) (hq_data t) (hq_sbs t) (hq_occs t) c i
  = Val (if (i <=? len seq) && (0 <? countN c seq) then Some (rank_spec seq c i) else None).
Proof.
  intros w seq tab t fuel Hw HF Hn Htok Hbuild Hf17 Hf c i Hc Hi.
  rewrite (g_hqwt256_rank_prefetch_eq_rank w seq tab t fuel Hw HF Hn Htok Hbuild Hf17 c i).
  pose proof (g_hqwt256_end_to_end w seq tab t fuel Hw HF Hn Htok Hbuild Hf17 Hf) as C.
  unfold g_hqwt_contract in C. cbv zeta in C. destruct C as (_ & _ & _ & _ & C5 & _). now apply C5.
Qed.
Theorem g_hqwt512_rank_prefetch_built : forall w seq tab t fuel, width_ok w ->
  Forall (fun x => x < 2 ^ w) seq -> len seq < RSQ_MAXN -> table_ok seq tab ->
  hq_build 512 seq tab = Val t ->
  (17 <= fuel)%nat -> (S (S (N.to_nat (len seq / (8 * 512)))) <= fuel)%nat ->
  forall c i, c < 2 ^ w -> i < 2 ^ 64 ->
  g_hqwt512_rank_prefetch fuel w (h_n t) (hq_enc_content t) (hq_enc_len t) (hq_data t) (hq_sbs t) (hq_occs t) c i
  = Val (if (i <=? len seq) && (0 <? countN c seq) then Some (rank_spec seq c i) else None).
Proof.
  intros w seq tab t fuel Hw HF Hn Htok Hbuild Hf17 Hf c i Hc Hi.
  rewrite (g_hqwt512_rank_prefetch_eq_rank w seq tab t fuel Hw HF Hn Htok Hbuild Hf17 c i).
  pose proof (g_hqwt512_end_to_end w seq tab t fuel Hw HF Hn Htok Hbuild Hf17 Hf) as C.
  unfold g_hqwt_contract in C. cbv zeta in C. destruct C as (_ & _ & _ & _ & C5 & _). now apply C5.
Qed.

(* ================================================================== (3) HuffQWaveletTree::new *)
(* the tree hq_new builds with the table craft4 returns (hypotheses of g_hqwtNNN_new_end_to_end) *)
Corollary g_hqwt256_new_rank_prefetch : forall w seq f tab t fuel, width_ok w ->
  Forall (fun x => x < 2 ^ w) seq -> len seq < RSQ_MAXN -> seq <> [] -> maxN seq < 2 ^ 64 - 1 ->
  lengths_for seq f -> craft4 f (sym_index (maxN seq)) = Val tab -> hq_new 256 seq f = Val t ->
  (17 <= fuel)%nat -> (S (S (N.to_nat (len seq / (8 * 256)))) <= fuel)%nat ->
  let ec := hq_enc_content t in let el := hq_enc_len t in
  let d := hq_data t in let sb := hq_sbs t in let oc := hq_occs t in
  (forall c i, i <= len seq ->
     g_hqwt256_rank_prefetch_unchecked fuel w ec el d sb oc c i = g_hqwt256_rank_unchecked fuel w ec el d sb oc c i) /\
  (forall c i, 0 < countN c seq -> i <= len seq ->
     g_hqwt256_rank_prefetch_unchecked fuel w ec el d sb oc c i = Val (rank_spec seq c i)) /\
  (forall c i, g_hqwt256_rank_prefetch fuel w (h_n t) ec el d sb oc c i = g_hqwt256_rank fuel w (h_n t) ec el d sb oc c i) /\
  (forall c i, c < 2 ^ w -> i < 2 ^ 64 ->
     g_hqwt256_rank_prefetch fuel w (h_n t) ec el d sb oc c i
     = Val (if (i <=? len seq) && (0 <? countN c seq) then Some (rank_spec seq c i) else None)).
Proof.
  intros w seq f tab t fuel Hw HF Hn Hne Hmax Hlf Hc Hnew Hf17 Hf. cbv zeta.
  pose proof (craft_table_ok_seq seq f tab Hne Hmax Hlf Hc) as Htok.
  pose proof (hq_new_build 256 seq f tab t Hne Hc Hnew) as Hbuild.
  split; [|split; [|split]].
  - exact (g_hqwt256_rank_prefetch_unchecked_built w seq tab t fuel Hw HF Hn Htok Hbuild Hf17).
  - exact (g_hqwt256_rank_prefetch_unchecked_spec w seq tab t fuel Hw HF Hn Htok Hbuild Hf17).
  - exact (g_hqwt256_rank_prefetch_eq_rank w seq tab t fuel Hw HF Hn Htok Hbuild Hf17).
  - exact (g_hqwt256_rank_prefetch_built w seq tab t fuel Hw HF Hn Htok Hbuild Hf17 Hf).
Qed.
Corollary g_hqwt512_new_rank_prefetch : forall w seq f tab t fuel, width_ok w ->
  Forall (fun x => x < 2 ^ w) seq -> len seq < RSQ_MAXN -> seq <> [] -> maxN seq < 2 ^ 64 - 1 ->
  lengths_for seq f -> craft4 f (sym_index (maxN seq)) = Val tab -> hq_new 512 seq f = Val t ->
  (17 <= fuel)%nat -> (S (S (N.to_nat (len seq / (8 * 512)))) <= fuel)%nat ->
  let ec := hq_enc_content t in let el := hq_enc_len t in
  let d := hq_data t in let sb := hq_sbs t in let oc := hq_occs t in
  (forall c i, i <= len seq ->
     g_hqwt512_rank_prefetch_unchecked fuel w ec el d sb oc c i = g_hqwt512_rank_unchecked fuel w ec el d sb oc c i) /\
  (forall c i, 0 < countN c seq -> i <= len seq ->
     g_hqwt512_rank_prefetch_unchecked fuel w ec el d sb oc c i = Val (rank_spec seq c i)) /\
  (forall c i, g_hqwt512_rank_prefetch fuel w (h_n t) ec el d sb oc c i = g_hqwt512_rank fuel w (h_n t) ec el d sb oc c i) /\
  (forall c i, c < 2 ^ w -> i < 2 ^ 64 ->
     g_hqwt512_rank_prefetch fuel w (h_n t) ec el d sb oc c i
     = Val (if (i <=? len seq) && (0 <? countN c seq) then Some (rank_spec seq c i) else None)).
Proof.
  intros w seq f tab t fuel Hw HF Hn Hne Hmax Hlf Hc Hnew Hf17 Hf. cbv zeta.
  pose proof (craft_table_ok_seq seq f tab Hne Hmax Hlf Hc) as Htok.
  pose proof (hq_new_build 512 seq f tab t Hne Hc Hnew) as Hbuild.
  split; [|split; [|split]].
  - exact (g_hqwt512_rank_prefetch_unchecked_built w seq tab t fuel Hw HF Hn Htok Hbuild Hf17).
  - exact (g_hqwt512_rank_prefetch_unchecked_spec w seq tab t fuel Hw HF Hn Htok Hbuild Hf17).
  - exact (g_hqwt512_rank_prefetch_eq_rank w seq tab t fuel Hw HF Hn Htok Hbuild Hf17).
  - exact (g_hqwt512_rank_prefetch_built w seq tab t fuel Hw HF Hn Htok Hbuild Hf17 Hf).
Qed.

(* ================================================================== (4) non-vacuity (vm_compute) *)
(* (a) the example tree of Proofs/HQWTP.v (30 symbols; 0, 2 have codes of 4 bits: one estimation step; 5, 9 codes
   of 2 bits: none; 1, 7 are in the table without a code; 300 is outside the table), minimal fuel 17;
   (c, i) with i = len, i = len + 1, symbols without a code *)
Definition hq_pf_example_queries : list (N * N) :=
  [(0, 0); (0, 30); (0, 31); (5, 17); (5, 30); (5, 31); (9, 30); (2, 17); (1, 17); (1, 30); (1, 31); (300, 17); (7, 0);
   (9, 1000)].
Definition hq_pf_example_spec : N * N -> outcome (option N) := fun '(c, i) =>
  Val (if (i <=? 30) && (0 <? countN c hq_ex_seq) then Some (rank_spec hq_ex_seq c i) else None).

Example g_hqwt256_rank_prefetch_example :
  match hq_build 256 hq_ex_seq hq_ex_tab with
  | Val t =>
      let ec := hq_enc_content t in let el := hq_enc_len t in
      let d := hq_data t in let sb := hq_sbs t in let oc := hq_occs t in
      h_n t = 30 /\ h_n_levels t = 2 /\ el = [4; 0; 4; 0; 0; 2; 0; 0; 0; 2] /\
      map (fun '(c, i) => g_hqwt256_rank_prefetch 17 8 (h_n t) ec el d sb oc c i) hq_pf_example_queries
      = map (fun '(c, i) => g_hqwt256_rank 17 8 (h_n t) ec el d sb oc c i) hq_pf_example_queries /\
      map (fun '(c, i) => g_hqwt256_rank_prefetch 17 8 (h_n t) ec el d sb oc c i) hq_pf_example_queries
      = map hq_pf_example_spec hq_pf_example_queries /\
      map (fun '(c, i) => g_hqwt256_rank_prefetch 17 8 (h_n t) ec el d sb oc c i) hq_pf_example_queries
      = [Val (Some 0); Val (Some 5); Val None; Val (Some 5); Val (Some 10); Val None; Val (Some 10); Val (Some 3);
         Val None; Val None; Val None; Val None; Val None; Val None] /\
      map (fun '(c, i) => g_hqwt256_rank_prefetch_unchecked 17 8 ec el d sb oc c i) hq_pf_example_queries
      = map (fun '(c, i) => g_hqwt256_rank_unchecked 17 8 ec el d sb oc c i) hq_pf_example_queries /\
      g_hqwt256_rank_prefetch_unchecked 17 8 ec el d sb oc 2 30 = Val 5 /\
      g_hqwt256_rank_prefetch_unchecked 17 8 ec el d sb oc 1 30 = Val 30 /\
      g_hqwt256_rank_prefetch_unchecked 17 8 ec el d sb oc 300 17 = Fault Panic
  | Fault _ => False
  end.
Proof. vm_compute. repeat split; reflexivity. Qed.

Example g_hqwt512_rank_prefetch_example :
  match hq_build 512 hq_ex_seq hq_ex_tab with
  | Val t =>
      let ec := hq_enc_content t in let el := hq_enc_len t in
      let d := hq_data t in let sb := hq_sbs t in let oc := hq_occs t in
      h_n t = 30 /\ h_n_levels t = 2 /\ el = [4; 0; 4; 0; 0; 2; 0; 0; 0; 2] /\
      map (fun '(c, i) => g_hqwt512_rank_prefetch 17 8 (h_n t) ec el d sb oc c i) hq_pf_example_queries
      = map (fun '(c, i) => g_hqwt512_rank 17 8 (h_n t) ec el d sb oc c i) hq_pf_example_queries /\
      map (fun '(c, i) => g_hqwt512_rank_prefetch 17 8 (h_n t) ec el d sb oc c i) hq_pf_example_queries
      = map hq_pf_example_spec hq_pf_example_queries /\
      map (fun '(c, i) => g_hqwt512_rank_prefetch 17 8 (h_n t) ec el d sb oc c i) hq_pf_example_queries
      = [Val (Some 0); Val (Some 5); Val None; Val (Some 5); Val (Some 10); Val None; Val (Some 10); Val (Some 3);
         Val None; Val None; Val None; Val None; Val None; Val None] /\
      map (fun '(c, i) => g_hqwt512_rank_prefetch_unchecked 17 8 ec el d sb oc c i) hq_pf_example_queries
      = map (fun '(c, i) => g_hqwt512_rank_unchecked 17 8 ec el d sb oc c i) hq_pf_example_queries /\
      g_hqwt512_rank_prefetch_unchecked 17 8 ec el d sb oc 2 30 = Val 5 /\
      g_hqwt512_rank_prefetch_unchecked 17 8 ec el d sb oc 1 30 = Val 30 /\
      g_hqwt512_rank_prefetch_unchecked 17 8 ec el d sb oc 300 17 = Fault Panic
  | Fault _ => False
  end.
Proof. vm_compute. repeat split; reflexivity. Qed.

(* (b) a tree with three levels built by hq_new (codes of 2, 4 and 6 bits: symbols 0, 7, 8, 9 take two estimation
   steps, the second one with level = 1, i.e. one iteration of the inner loop of prefetch arguments) *)
Definition hq_pf_ex2_seq : list N :=
  [1; 2; 3; 4; 5; 6; 7; 8; 9; 0; 1; 1; 2; 7; 7; 3; 0; 9; 8; 4; 1; 2; 3; 1; 2; 3; 5; 6; 0; 7; 1; 1; 2; 2; 3; 3; 9; 4; 8; 0].
Definition hq_pf_ex2_lens : list (N * N) :=
  [(1, 2); (2, 2); (3, 2); (4, 4); (5, 4); (6, 4); (7, 6); (8, 6); (9, 6); (0, 6)].
Definition hq_pf_ex2_queries : list (N * N) :=
  [(0, 0); (0, 40); (0, 41); (7, 17); (7, 40); (8, 39); (9, 40); (4, 40); (1, 40); (1, 41); (10, 17); (300, 17); (12, 40)].
Definition hq_pf_ex2_spec : N * N -> outcome (option N) := fun '(c, i) =>
  Val (if (i <=? 40) && (0 <? countN c hq_pf_ex2_seq) then Some (rank_spec hq_pf_ex2_seq c i) else None).

Example g_hqwt256_rank_prefetch_example2 :
  match hq_new 256 hq_pf_ex2_seq hq_pf_ex2_lens with
  | Val t =>
      let ec := hq_enc_content t in let el := hq_enc_len t in
      let d := hq_data t in let sb := hq_sbs t in let oc := hq_occs t in
      h_n t = 40 /\ h_n_levels t = 3 /\ el = [6; 2; 2; 2; 4; 4; 4; 6; 6; 6] /\
      map (fun '(c, i) => g_hqwt256_rank_prefetch 17 8 (h_n t) ec el d sb oc c i) hq_pf_ex2_queries
      = map (fun '(c, i) => g_hqwt256_rank 17 8 (h_n t) ec el d sb oc c i) hq_pf_ex2_queries /\
      map (fun '(c, i) => g_hqwt256_rank_prefetch 17 8 (h_n t) ec el d sb oc c i) hq_pf_ex2_queries
      = map hq_pf_ex2_spec hq_pf_ex2_queries /\
      map (fun '(c, i) => g_hqwt256_rank_prefetch 17 8 (h_n t) ec el d sb oc c i) hq_pf_ex2_queries
      = [Val (Some 0); Val (Some 4); Val None; Val (Some 3); Val (Some 4); Val (Some 3); Val (Some 3); Val (Some 3);
         Val (Some 7); Val None; Val None; Val None; Val None] /\
      map (fun '(c, i) => g_hqwt256_rank_prefetch_unchecked 17 8 ec el d sb oc c i) hq_pf_ex2_queries
      = map (fun '(c, i) => g_hqwt256_rank_unchecked 17 8 ec el d sb oc c i) hq_pf_ex2_queries /\
      g_hqwt256_rank_prefetch_unchecked 17 8 ec el d sb oc 7 40 = Val 4
  | Fault _ => False
  end.
Proof. vm_compute. repeat split; reflexivity. Qed.

Example g_hqwt512_rank_prefetch_example2 :
  match hq_new 512 hq_pf_ex2_seq hq_pf_ex2_lens with
  | Val t =>
      let ec := hq_enc_content t in let el := hq_enc_len t in
      let d := hq_data t in let sb := hq_sbs t in let oc := hq_occs t in
      h_n t = 40 /\ h_n_levels t = 3 /\ el = [6; 2; 2; 2; 4; 4; 4; 6; 6; 6] /\
      map (fun '(c, i) => g_hqwt512_rank_prefetch 17 8 (h_n t) ec el d sb oc c i) hq_pf_ex2_queries
      = map (fun '(c, i) => g_hqwt512_rank 17 8 (h_n t) ec el d sb oc c i) hq_pf_ex2_queries /\
      map (fun '(c, i) => g_hqwt512_rank_prefetch 17 8 (h_n t) ec el d sb oc c i) hq_pf_ex2_queries
      = map hq_pf_ex2_spec hq_pf_ex2_queries /\
      map (fun '(c, i) => g_hqwt512_rank_prefetch 17 8 (h_n t) ec el d sb oc c i) hq_pf_ex2_queries
      = [Val (Some 0); Val (Some 4); Val None; Val (Some 3); Val (Some 4); Val (Some 3); Val (Some 3); Val (Some 3);
         Val (Some 7); Val None; Val None; Val None; Val None] /\
      map (fun '(c, i) => g_hqwt512_rank_prefetch_unchecked 17 8 ec el d sb oc c i) hq_pf_ex2_queries
      = map (fun '(c, i) => g_hqwt512_rank_unchecked 17 8 ec el d sb oc c i) hq_pf_ex2_queries /\
      g_hqwt512_rank_prefetch_unchecked 17 8 ec el d sb oc 7 40 = Val 4
  | Fault _ => False
  end.
Proof. vm_compute. repeat split; reflexivity. Qed.

(* the general theorem instantiated on example (a) *)
Example g_hqwt256_rank_prefetch_example_thm : exists t, hq_build 256 hq_ex_seq hq_ex_tab = Val t /\
  forall c i, c < 2 ^ 8 -> i < 2 ^ 64 ->
  g_hqwt256_rank_prefetch 17 8 (h_n t) (hq_enc_content t) (hq_enc_len t) (hq_data t) (hq_sbs t) (hq_occs t) c i
  = Val (if (i <=? len hq_ex_seq) && (0 <? countN c hq_ex_seq) then Some (rank_spec hq_ex_seq c i) else None).
Proof.
  destruct (hq_example_thm 256 (or_introl eq_refl)) as (t & Et & _). exists t. split; [exact Et|].
  apply (g_hqwt256_rank_prefetch_built 8 hq_ex_seq hq_ex_tab t 17); try exact Et.
  - left. reflexivity.
  - apply Forall_forall. intros x Hx.
    assert (H : forallb (fun y => y <? 2 ^ 8) hq_ex_seq = true) by (vm_compute; reflexivity).
    rewrite forallb_forall in H. specialize (H x Hx). lia.
  - reflexivity.
  - exact hq_ex_table_ok.
  - lia.
  - vm_compute. lia.
Qed.

(* ------------------------------------------------------------------ summary / findings
   GENERIC TEXT. G_pf_inner / G_pf_cond / G_pf_body / G_pf_unchecked / G_pf (Section GenericPf) is the text of
     Gen/FnsHqwt.v with g_rsqNNN_occs_smaller_unchecked, g_rsqNNN_rank_block_unchecked abstracted and the final call
     written as the generic G_rank_unchecked of Proofs/FnsHqwtOk.v; the [exact] of the four instance theorems checks
     it convertible to BOTH generated families.
   SIMULATION (pf_loop_sim): one generated `while shift >= 2` step against one step of hq_estimate_walk.
     Hypotheses: Forall lvl_rank_ok qvs (superblock words < 2^128: a block rank is < 2^44 + 4096; n_occs_smaller
     entries < 2^63), at most 15 remaining iterations (codes_ok: code lengths even and <= 32, so the i64 shift starts
     at len - 2 <= 30, is 2 * remaining while an iteration remains and the loop is left at 0, or at -2 for the empty
     code of a symbol that does not occur), level + remaining <= 2^32, fuel > remaining.  No bound on the current
     range is needed: the new range is rank_block + offset < 2^63 + 2^45, so `range + 256` and
     `range.end + 2*256 + i*256` (i < level <= 2^32) stay below 2^64; `level + 1` is the index the hand model checks
     too (idx qvs (level + 1)); `(repr >> shift) as u8 & 3` = `(repr >> shift) & 3`.
   RESULT. g_hqwtNNN_rank_prefetch_unchecked_sim: wherever the hand model's rank_prefetch_unchecked returns a value,
     or the code lookup `codes_encode[symbol as usize]` is out of range (then both sides are that index panic),
     the regenerated rank_prefetch_unchecked is EQUAL (faults and fuel exhaustion of the final rank included) to the
     regenerated rank_unchecked, for fuel >= 17 (the estimation loop needs at most 16 <= fuel; 17 is the bound of
     the rank theorems).  On every tree hq_build builds (hq_pf_facts, from HQWTP.hq_build_correct /
     rank_prefetch_unchecked_ok and hq_build_wf) this holds for EVERY symbol -- with a code, in the table without a
     code (no estimation step: shift = -2), outside the table, also >= 2^w -- and every i <= len: theorems
     g_hqwtNNN_rank_prefetch_unchecked_built (only `17 <= fuel`), g_hqwtNNN_rank_prefetch_eq_rank (every symbol, every
     i, only `17 <= fuel`), g_hqwtNNN_rank_prefetch_built (list specification, hypotheses of g_hqwtNNN_end_to_end),
     g_hqwtNNN_new_rank_prefetch (hq_new, hypotheses of g_hqwtNNN_new_end_to_end).
   MISMATCHES: none found. *)

Print Assumptions g_hqwt256_rank_prefetch_unchecked_sim.
Print Assumptions g_hqwt512_rank_prefetch_unchecked_sim.
Print Assumptions g_hqwt256_rank_prefetch_sim.
Print Assumptions g_hqwt512_rank_prefetch_sim.
Print Assumptions hq_pf_facts.
Print Assumptions g_hqwt256_rank_prefetch_unchecked_built.
Print Assumptions g_hqwt512_rank_prefetch_unchecked_built.
Print Assumptions g_hqwt256_rank_prefetch_unchecked_spec.
Print Assumptions g_hqwt512_rank_prefetch_unchecked_spec.
Print Assumptions g_hqwt256_rank_prefetch_eq_rank.
Print Assumptions g_hqwt512_rank_prefetch_eq_rank.
Print Assumptions g_hqwt256_rank_prefetch_built.
Print Assumptions g_hqwt512_rank_prefetch_built.
Print Assumptions g_hqwt256_new_rank_prefetch.
Print Assumptions g_hqwt512_new_rank_prefetch.
Print Assumptions g_hqwt256_rank_prefetch_example.
Print Assumptions g_hqwt512_rank_prefetch_example.
Print Assumptions g_hqwt256_rank_prefetch_example2.
Print Assumptions g_hqwt512_rank_prefetch_example2.
Print Assumptions g_hqwt256_rank_prefetch_example_thm.
