(* Word-level lemmas for the bit vector model: the state seen as a function from bit
   positions to booleans ([wbit]), the leaf functions of the code on that view. *)
From Coq Require Import ZArith Lia ZifyBool ZifyN ZifyNat.
From QwtModel Require Import ListX Consts Words BitVec ListXP BitsLib.
Ltac Zify.zify_post_hook ::= Z.div_mod_to_equations.
Arguments N.add : simpl never.
Arguments N.sub : simpl never.
Arguments N.mul : simpl never.
Arguments N.eqb : simpl never.
Arguments N.ltb : simpl never.
Arguments N.leb : simpl never.
Arguments N.pred : simpl never.
Arguments N.of_nat : simpl never.
Arguments N.land : simpl never.
Arguments N.lor : simpl never.
Arguments N.lxor : simpl never.
Arguments N.shiftr : simpl never.
Arguments N.shiftl : simpl never.
Arguments N.testbit : simpl never.
Arguments N.div : simpl never.
Arguments N.modulo : simpl never.
Arguments N.pow : simpl never.

(* constants extracted from the Rust source *)
Lemma BV_LINE_BITS_val : BV_LINE_BITS = 512. Proof. reflexivity. Qed.
Lemma BV_PUSH_MOD_val : BV_PUSH_MOD = 512. Proof. reflexivity. Qed.
Lemma BV_EXT_ROUND_val : BV_EXT_ROUND = 511. Proof. reflexivity. Qed.
Lemma BV_EXT_DIV_val : BV_EXT_DIV = 512. Proof. reflexivity. Qed.
Lemma BV_SET_SHIFT_val : BV_SET_SHIFT = 9. Proof. reflexivity. Qed.
Lemma BV_SET_MASK_val : BV_SET_MASK = 511. Proof. reflexivity. Qed.
Lemma BV_SETBITS_SHIFT_val : BV_SETBITS_SHIFT = 9. Proof. reflexivity. Qed.
Lemma BV_SETBITS_MOD_val : BV_SETBITS_MOD = 512. Proof. reflexivity. Qed.

Definition word_ok (w : N) : Prop := w < 2 ^ 64.
Definition words_ok (ws : list N) : Prop := Forall word_ok ws.

Lemma Forall_nthN {A} (P : A -> Prop) l i a : Forall P l -> nthN l i = Some a -> P a.
Proof.
  intros HF H. rewrite nthN_nth_error in H. apply nth_error_In in H.
  rewrite Forall_forall in HF. now apply HF.
Qed.
Lemma Forall_setN {A} (P : A -> Prop) l : forall i v, Forall P l -> P v -> Forall P (setN l i v).
Proof.
  induction l as [|x l IH]; intros i v HF Hv; cbn [setN]; [constructor|].
  inversion HF as [|? ? Hx HF']; subst.
  destruct (i =? 0); constructor; auto.
Qed.
Lemma Forall_repeat {A} (P : A -> Prop) a n : P a -> Forall P (repeat a n).
Proof. intros H. induction n; cbn [repeat]; constructor; auto. Qed.
Lemma word_ok_0 : word_ok 0.
Proof. unfold word_ok. apply pow2_pos. Qed.

(* ------------------------------------------------------------ the flat view *)
Definition flat (ws : list N) : list N := concat (map (bits_of 64) ws).
Definition wbit (ws : list N) (j : N) : bool :=
  match nthN ws (j / 64) with Some w => N.testbit w (j mod 64) | None => false end.

Lemma flat_uniform ws : Forall (fun l => len l = 64) (map (bits_of 64) ws).
Proof. apply Forall_forall. intros l Hl. apply in_map_iff in Hl. destruct Hl as (w & <- & _). apply len_bits_of. Qed.
Lemma len_flat ws : len (flat ws) = 64 * len ws.
Proof. unfold flat. rewrite (len_concat_uniform 64) by apply flat_uniform. now rewrite len_map. Qed.
Lemma nthN_flat ws j : nthN (flat ws) j = if j <? 64 * len ws then Some (N.b2n (wbit ws j)) else None.
Proof.
  unfold flat. rewrite (nthN_concat_uniform 64) by (try apply flat_uniform; lia).
  rewrite nthN_map. unfold wbit.
  destruct (N.ltb_spec j (64 * len ws)) as [H|H].
  - destruct (nthN_lt_some ws (j / 64)) as (w & ->); [lia|]. cbn [option_map].
    rewrite nthN_bits_of. destruct (N.ltb_spec (j mod 64) (N.of_nat 64)); [reflexivity|lia].
  - rewrite nthN_none by lia. reflexivity.
Qed.

Definition absl (ws : list N) (nbits : N) : list bool :=
  map (fun x => x =? 1) (firstnN nbits (flat ws)).
Lemma bv_abs_absl b : bv_abs b = absl (bv_words b) (bv_nbits b).
Proof. reflexivity. Qed.
Lemma len_absl ws nbits : nbits <= 64 * len ws -> len (absl ws nbits) = nbits.
Proof. intros H. unfold absl. rewrite len_map, firstnN_len, len_flat. lia. Qed.
Lemma nthN_absl ws nbits j : nbits <= 64 * len ws ->
  nthN (absl ws nbits) j = if j <? nbits then Some (wbit ws j) else None.
Proof.
  intros H. unfold absl. rewrite nthN_map, nthN_firstnN, nthN_flat.
  destruct (N.ltb_spec j nbits) as [Hj|Hj]; [|reflexivity].
  destruct (N.ltb_spec j (64 * len ws)); [|lia]. cbn [option_map]. now rewrite b2n_eqb1.
Qed.

Lemma wbit_out ws j : 64 * len ws <= j -> wbit ws j = false.
Proof. intros H. unfold wbit. rewrite nthN_none by lia. reflexivity. Qed.
Lemma wbit_app_zeros ws k j : wbit (ws ++ repeat 0 k) j = wbit ws j.
Proof.
  unfold wbit. rewrite nthN_app. destruct (N.ltb_spec (j / 64) (len ws)) as [H|H]; [reflexivity|].
  rewrite (nthN_none ws) by assumption. rewrite nthN_repeat_gen.
  destruct (_ <? _); [apply N.bits_0|reflexivity].
Qed.
Lemma wbit_setN ws wi w' j : wi < len ws ->
  wbit (setN ws wi w') j = if j / 64 =? wi then N.testbit w' (j mod 64) else wbit ws j.
Proof.
  intros H. unfold wbit. rewrite nthN_setN.
  destruct (N.eqb_spec (j / 64) wi) as [E|E]; cbn [andb]; [|reflexivity].
  destruct (N.ltb_spec wi (len ws)); [reflexivity|lia].
Qed.
Lemma wbit_nth ws j w : nthN ws (j / 64) = Some w -> wbit ws j = N.testbit w (j mod 64).
Proof. intros H. unfold wbit. now rewrite H. Qed.

(* all bits equal -> same words *)
Lemma words_ext ws1 ws2 : words_ok ws1 -> words_ok ws2 -> len ws1 = len ws2 ->
  (forall j, wbit ws1 j = wbit ws2 j) -> ws1 = ws2.
Proof.
  intros H1 H2 Hl Hb. apply list_ext_nthN. intros i.
  destruct (N.ltb_spec i (len ws1)) as [Hi|Hi].
  - destruct (nthN_lt_some ws1 i Hi) as (w1 & E1). destruct (nthN_lt_some ws2 i) as (w2 & E2); [lia|].
    rewrite E1, E2. f_equal. apply N.bits_inj. intros k.
    destruct (N.ltb_spec k 64) as [Hk|Hk].
    + specialize (Hb (64 * i + k)).
      assert (Ed : (64 * i + k) / 64 = i) by lia. assert (Em : (64 * i + k) mod 64 = k) by lia.
      rewrite (wbit_nth ws1 _ w1), (wbit_nth ws2 _ w2) in Hb by (rewrite Ed; assumption).
      now rewrite Em in Hb.
    + rewrite (lt_pow2_bits w1 64), (lt_pow2_bits w2 64); auto.
      * apply (Forall_nthN _ _ _ _ H2 E2).
      * apply (Forall_nthN _ _ _ _ H1 E1).
  - rewrite !nthN_none by lia. reflexivity.
Qed.

(* ------------------------------------------------------------ set_symbol *)
Lemma set_bit_word w sym k : word_ok w -> k < 64 ->
  let w2 := N.lxor (N.lxor w (N.land w (N.shiftl 1 k))) (N.shiftl (N.land sym 1) k) in
  word_ok w2 /\ forall j, N.testbit w2 j = if j =? k then N.testbit sym 0 else N.testbit w j.
Proof.
  intros Hw Hk w2.
  assert (Hb : forall j, N.testbit w2 j = if j =? k then N.testbit sym 0 else N.testbit w j).
  { intros j. unfold w2. rewrite !N.lxor_spec, N.land_spec, N.shiftl_1_l, N.pow2_bits_eqb.
    destruct (N.eqb_spec j k) as [->|Hne].
    - rewrite N.eqb_refl, andb_true_r, xorb_nilpotent, xorb_false_l.
      rewrite N.shiftl_spec_high' by lia. rewrite N.sub_diag, N.land_spec.
      change 1 with (2 ^ 0) at 1. rewrite N.pow2_bits_eqb. cbn. now rewrite andb_true_r.
    - destruct (N.eqb_spec k j); [congruence|]. rewrite andb_false_r, xorb_false_r.
      destruct (N.ltb_spec j k) as [Hlt|Hge].
      + rewrite N.shiftl_spec_low by assumption. now rewrite xorb_false_r.
      + rewrite N.shiftl_spec_high' by assumption. rewrite N.land_spec.
        change 1 with (2 ^ 0) at 1. rewrite N.pow2_bits_eqb.
        destruct (N.eqb_spec 0 (j - k)); [lia|]. now rewrite andb_false_r, xorb_false_r. }
  split; [|exact Hb].
  apply bits_lt_pow2. intros j Hj. rewrite Hb. destruct (N.eqb_spec j k); [lia|].
  now apply (lt_pow2_bits w 64).
Qed.

Lemma bvl_set_symbol_spec ws line sym p :
  words_ok ws -> p < 512 -> line * 8 + p / 64 < len ws ->
  exists ws', bvl_set_symbol ws line sym p = Val ws' /\ len ws' = len ws /\ words_ok ws' /\
    forall j, wbit ws' j = if j =? 512 * line + p then N.testbit sym 0 else wbit ws j.
Proof.
  intros Hok Hp Hlt. unfold bvl_set_symbol. rewrite BV_LINE_BITS_val.
  destruct (N.ltb_spec p 512) as [_|]; [|lia]. cbn [oassert bind]. rewrite shr6.
  destruct (nthN_lt_some ws _ Hlt) as (w & Ew). unfold idx. rewrite Ew. cbn [bind].
  assert (Hw : word_ok w) by apply (Forall_nthN _ _ _ _ Hok Ew).
  assert (Hk : p mod 64 < 64) by lia.
  destruct (set_bit_word w sym (p mod 64) Hw Hk) as [Hok2 Hbits].
  eexists; split; [reflexivity|]. split; [apply setN_len|]. split; [now apply Forall_setN|].
  intros j. rewrite wbit_setN by assumption.
  destruct (N.eqb_spec (j / 64) (line * 8 + p / 64)) as [E|E].
  - rewrite Hbits. rewrite (wbit_nth ws j w) by (rewrite E; exact Ew).
    destruct (N.eqb_spec (j mod 64) (p mod 64)), (N.eqb_spec j (512 * line + p)); try reflexivity; lia.
  - destruct (N.eqb_spec j (512 * line + p)); [|reflexivity]. lia.
Qed.

(* ------------------------------------------------------------ single bit read *)
Lemma bv_get_bit_slice_spec ws j : j < 64 * len ws -> bv_get_bit_slice ws j = Val (wbit ws j).
Proof.
  intros H. unfold bv_get_bit_slice. rewrite shr6, land63.
  destruct (nthN_lt_some ws (j / 64)) as (w & Ew); [lia|]. unfold idx. rewrite Ew. cbn [bind].
  rewrite land1_shiftr_testbit. now rewrite (wbit_nth ws j w).
Qed.
Lemma bv_get_bit_slice_out ws j : 64 * len ws <= j -> bv_get_bit_slice ws j = Fault Panic.
Proof.
  intros H. unfold bv_get_bit_slice. rewrite shr6. unfold idx. rewrite nthN_none by lia. reflexivity.
Qed.

(* ------------------------------------------------------------ multi-bit read *)
Lemma mask_spec n : 1 <= n -> n <= 64 ->
  (if n =? 64 then Val (M64 - 1) else let! s := oshl 64 1 n in osub s 1) = Val (N.ones n).
Proof.
  intros H1 H64. destruct (N.eqb_spec n 64) as [->|Hne]; [reflexivity|].
  unfold oshl. destruct (N.ltb_spec n 64); [|lia]. cbn [bind].
  rewrite N.shiftl_1_l. rewrite N.mod_small by (apply N.pow_lt_mono_r; lia).
  unfold osub. pose proof (pow2_pos n). destruct (N.leb_spec 1 (2 ^ n)); [|lia].
  f_equal. rewrite N.ones_equiv. lia.
Qed.

Lemma bv_get_bits_slice_spec ws i n :
  words_ok ws -> 1 <= n -> n <= 64 -> i + n <= 64 * len ws ->
  exists v, bv_get_bits_slice ws i n = Val v /\ v < 2 ^ n /\
            forall j, j < n -> N.testbit v j = wbit ws (i + j).
Proof.
  intros Hok H1 H64 Hr. unfold bv_get_bits_slice. rewrite shr6, land63, mask_spec by assumption.
  cbn [bind].
  destruct (nthN_lt_some ws (i / 64)) as (w & Ew); [lia|]. unfold idx. rewrite Ew. cbn [bind].
  assert (Hw : word_ok w) by apply (Forall_nthN _ _ _ _ Hok Ew).
  destruct (N.leb_spec (i mod 64 + n) 64) as [Hin|Hst].
  - eexists; split; [reflexivity|]. rewrite N.land_ones. split.
    + apply N.mod_lt. pose proof (pow2_pos n). lia.
    + intros j Hj. rewrite N.mod_pow2_bits_low by assumption. rewrite N.shiftr_spec'.
      assert (Ed : (i + j) / 64 = i / 64) by lia. assert (Em : (i + j) mod 64 = j + i mod 64) by lia.
      rewrite (wbit_nth ws (i + j) w) by (rewrite Ed; exact Ew). now rewrite Em.
  - destruct (nthN_lt_some ws (i / 64 + 1)) as (w' & Ew'); [lia|]. rewrite Ew'. cbn [bind].
    unfold osub. destruct (N.leb_spec (i mod 64) 64); [|lia]. cbn [bind].
    unfold oshl. destruct (N.ltb_spec (64 - i mod 64) 64); [|lia]. cbn [bind].
    eexists; split; [reflexivity|].
    assert (Hb : forall j, N.testbit (N.lor (N.shiftr w (i mod 64))
                   (N.land (N.shiftl w' (64 - i mod 64) mod 2 ^ 64) (N.ones n))) j =
                 if j <? n then wbit ws (i + j) else false).
    { intros j. rewrite N.lor_spec, N.shiftr_spec', N.land_spec.
      destruct (N.ltb_spec j n) as [Hj|Hj].
      - rewrite N.ones_spec_low by assumption. rewrite andb_true_r.
        rewrite N.mod_pow2_bits_low by lia.
        destruct (N.ltb_spec j (64 - i mod 64)) as [Hlo|Hhi].
        + rewrite N.shiftl_spec_low by assumption. rewrite orb_false_r.
          assert (Ed : (i + j) / 64 = i / 64) by lia. assert (Em : (i + j) mod 64 = j + i mod 64) by lia.
          rewrite (wbit_nth ws (i + j) w) by (rewrite Ed; exact Ew). now rewrite Em.
        + rewrite N.shiftl_spec_high' by assumption.
          rewrite (lt_pow2_bits w 64 Hw) by lia. rewrite orb_false_l.
          assert (Ed : (i + j) / 64 = i / 64 + 1) by lia.
          assert (Em : (i + j) mod 64 = j - (64 - i mod 64)) by lia.
          rewrite (wbit_nth ws (i + j) w') by (rewrite Ed; exact Ew'). now rewrite Em.
      - rewrite N.ones_spec_high by assumption. rewrite andb_false_r, orb_false_r.
        apply (lt_pow2_bits w 64 Hw). lia. }
    split.
    + apply bits_lt_pow2. intros j Hj. rewrite Hb. destruct (N.ltb_spec j n); [lia|reflexivity].
    + intros j Hj. rewrite Hb. destruct (N.ltb_spec j n); [reflexivity|lia].
Qed.

(* ------------------------------------------------------------ the set_bits loop *)
Lemma land1_shiftr_bit0 bits i : N.testbit (N.land (N.shiftr bits i) 1) 0 = N.testbit bits i.
Proof.
  rewrite N.land_spec, N.shiftr_spec'. change 1 with (2 ^ 0) at 1. rewrite N.pow2_bits_eqb.
  cbn. rewrite andb_true_r. now rewrite N.add_0_l.
Qed.

Lemma bvm_set_bits_loop_spec index bits : forall fuel ws i0,
  words_ok ws -> len ws mod 8 = 0 -> index + i0 + N.of_nat fuel <= 64 * len ws ->
  exists ws', bvm_set_bits_loop ws index bits i0 fuel = Val ws' /\ len ws' = len ws /\ words_ok ws' /\
    forall j, wbit ws' j = if (index + i0 <=? j) && (j <? index + i0 + N.of_nat fuel)
                           then N.testbit bits (j - index) else wbit ws j.
Proof.
  induction fuel as [|fuel IH]; intros ws i0 Hok H8 Hr; cbn [bvm_set_bits_loop].
  - exists ws. repeat split; auto. intros j.
    destruct (N.leb_spec (index + i0) j), (N.ltb_spec j (index + i0 + N.of_nat 0)); cbn [andb]; try reflexivity; lia.
  - rewrite BV_SETBITS_SHIFT_val, BV_SETBITS_MOD_val, shr9.
    destruct (N.ltb_spec ((index + i0) / 512 * 8) (len ws)) as [_|Hge]; [|lia]. cbn [bind].
    destruct (bvl_set_symbol_spec ws ((index + i0) / 512) (N.land (N.shiftr bits i0) 1) ((index + i0) mod 512))
      as (ws1 & E1 & Hl1 & Hok1 & Hb1); [assumption|lia|lia|].
    rewrite E1. cbn [bind].
    destruct (IH ws1 (i0 + 1)) as (ws2 & E2 & Hl2 & Hok2 & Hb2); [assumption|lia|lia|].
    exists ws2. split; [exact E2|]. split; [lia|]. split; [assumption|].
    intros j. rewrite Hb2, Hb1, land1_shiftr_bit0.
    destruct (N.eqb_spec j (512 * ((index + i0) / 512) + (index + i0) mod 512)) as [Ej|Ej];
    destruct (N.leb_spec (index + (i0 + 1)) j), (N.ltb_spec j (index + (i0 + 1) + N.of_nat fuel)),
             (N.leb_spec (index + i0) j), (N.ltb_spec j (index + i0 + N.of_nat (S fuel)));
      cbn [andb]; try reflexivity; try lia; f_equal; lia.
Qed.
