(* T5 (QWaveletTree::new, src/quadwt/mod.rs, B = 256 and 512, element width wT symbolic): the constructor
   REGENERATED from the source (Gen/FnsQwtnew.v: g_qwt256_new / g_qwt512_new) builds exactly the fields of the
   tree the hand model builds (Model/QWT.v: qwt_new), and -- composed with Proofs/FnsQwtOk.v -- the regenerated
   constructor followed by the regenerated queries is the list specification.

   The facts about g_msb, g_stable_partition_of_4 and the QVectorBuilder functions are the theorems of
   Proofs/FnsQvbOk.v (g_msb_ok, g_stable_partition_of_4_ok, g_qvb_with_capacity_val, g_qvb_push_sim,
   g_qvb_build_ok).  The fact about RSQVector::from (proved elsewhere) is taken as the Hypothesis of a Section
   (H_from256 / H_from512), so that it is the only PREMISE of the theorems once the Section is closed (no Axiom /
   Parameter); the fact about RSQVector::default is derived from it (default() = from(QVector::default())). *)
From Coq Require Import ZArith Lia ZifyBool ZifyN ZifyNat Permutation.
From QwtModel Require Import ListX Loops Seq Consts SelTable Words QVec RSQ QWT ListXP ConstsOk WordsP BitsLib LeafP.
From QwtModel Require Import LeavesLib FnsUtils FnsRss FnsQv2 FnsQvb FnsRsq FnsQv2Ok FnsRssOk FnsRsqOk FnsQwt FnsQwtnew.
From QwtModel Require Import QVecP RSQList RSQWord RSQBuild RSQP WaveletMatrix QWTArith QWTBuild QWTWalk QWTP.
From QwtModel Require Import FnsRssNewOk FnsQwtOk FnsQvbOk.
Open Scope N_scope.
Ltac Zify.zify_post_hook ::= Z.div_mod_to_equations.
Arguments N.add : simpl never.
Arguments N.sub : simpl never.
Arguments N.mul : simpl never.
Arguments N.eqb : simpl never.
Arguments N.ltb : simpl never.
Arguments N.leb : simpl never.
Arguments N.pred : simpl never.
Arguments N.of_nat : simpl never.
Arguments N.land : simpl never.
Arguments N.lor : simpl never.
Arguments N.lxor : simpl never.
Arguments N.shiftr : simpl never.
Arguments N.shiftl : simpl never.
Arguments N.testbit : simpl never.
Arguments N.div : simpl never.
Arguments N.modulo : simpl never.
Arguments N.pow : simpl never.
Arguments N.ones : simpl never.
Arguments N.max : simpl never.
Arguments N.log2 : simpl never.

(* ================================================================== the generic text of the constructor *)
(* the two generated definitions differ by the RSQVector functions they call only: [Gnew gfrom gdefault] is their
   common text, cut at the two loop bodies *)
Notation GR5 := ((list (list N)) * N * (list (list N)) * (list (list N)) * (list N))%type (only parsing).
Notation GST :=
  (list (list (list N)) * list N * list (list (list N)) * list (list (list N)) * list (list N) * list N * N)%type
  (only parsing).

Definition G_push_body {R} (wT shift : N) : N -> (list (list N)) * N -> outcome (step ((list (list N)) * N) R) :=
  fun symbol '(cur_qv_data, cur_qv_position) =>
    let! t9 := oshr wT symbol shift in
    let two_bits := (N.land (t9 mod 2 ^ 64) 3) mod 2 ^ 8 in
    let! (cur_qv_data, cur_qv_position) := g_qvb_push cur_qv_data cur_qv_position two_bits in
    Val (Next (cur_qv_data, cur_qv_position)).

Definition G_level_body {R} (gfrom : list (list N) -> N -> outcome GR5) (wT : N)
  : N -> GST -> outcome (step GST R) :=
  fun _level '(qvs_qv_data, qvs_qv_position, qvs_rs_support_superblocks, qvs_rs_support_select_samples,
               qvs_n_occs_smaller, sequence, shift) =>
    let! (cur_qv_data, cur_qv_position) := g_qvb_with_capacity (len sequence) in
    let! r := iter_loop (G_push_body wT shift) sequence (cur_qv_data, cur_qv_position) in
    match r with
    | Retd v => Val v
    | Done (cur_qv_data, cur_qv_position) =>
        let! (qv_data, qv_position) := g_qvb_build cur_qv_data cur_qv_position in
        let! (t10, t11, t12, t13, t14) := gfrom qv_data qv_position in
        let qvs_qv_data := qvs_qv_data ++ [t10] in
        let qvs_qv_position := qvs_qv_position ++ [t11] in
        let qvs_rs_support_superblocks := qvs_rs_support_superblocks ++ [t12] in
        let qvs_rs_support_select_samples := qvs_rs_support_select_samples ++ [t13] in
        let qvs_n_occs_smaller := qvs_n_occs_smaller ++ [t14] in
        let! sequence := g_stable_partition_of_4 wT sequence shift in
        let! shift := (if N.leb 2 shift then
          let! shift := osub shift 2 in
          Val shift
        else
          Val shift
        ) in
        Val (Next (qvs_qv_data, qvs_qv_position, qvs_rs_support_superblocks, qvs_rs_support_select_samples,
                   qvs_n_occs_smaller, sequence, shift))
    end.

Definition Gnew (gfrom : list (list N) -> N -> outcome GR5) (gdefault : outcome GR5) (wT : N) (sequence : list N)
  : outcome ((list N) * (N * N * N * (list (list (list N))) * (list N) * (list (list (list N))) *
                         (list (list (list N))) * (list (list N)))) :=
  if len sequence =? 0 then
    let! (t1, t2, t3, t4, t5) := gdefault in
    Val (sequence, (0, 0, 0, [t1], [t2], [t3], [t4], [t5]))
  else
    let! sigma := ounwrap (max_opt sequence) in
    let! t6 := g_msb wT sigma in
    let! log_sigma := oadd 32 t6 1 in
    let! t7 := oadd 32 log_sigma 1 in
    let n_levels := t7 / 2 in
    let! t8 := osub n_levels 1 in
    let! shift := omul 64 2 t8 in
    let! r := for_loop (G_level_body gfrom wT) 0 (N.to_nat (n_levels - 0)) ([], [], [], [], [], sequence, shift) in
    match r with
    | Retd v => Val v
    | Done (qvs_qv_data, qvs_qv_position, qvs_rs_support_superblocks, qvs_rs_support_select_samples,
            qvs_n_occs_smaller, sequence, shift) =>
        Val (sequence, (len sequence, n_levels, sigma, qvs_qv_data, qvs_qv_position, qvs_rs_support_superblocks,
                        qvs_rs_support_select_samples, qvs_n_occs_smaller))
    end.

(* the generated definitions ARE the generic text (conversion) *)
Lemma g_qwt256_new_unfold : g_qwt256_new = Gnew g_rsq256_from g_rsq256_default.
Proof. reflexivity. Qed.
Lemma g_qwt512_new_unfold : g_qwt512_new = Gnew g_rsq512_from g_rsq512_default.
Proof. reflexivity. Qed.

(* ================================================================== small facts *)
(* the digit both sides push: (x >> shift) & 3 *)
Definition dg (shift x : N) : N := (x / 2 ^ shift) mod 4.

Lemma dg_lt4 shift x : dg shift x < 4.
Proof. unfold dg. apply N.mod_lt. lia. Qed.

Lemma gen_digit shift x : (N.land (N.shiftr x shift mod 2 ^ 64) 3) mod 2 ^ 8 = dg shift x.
Proof. rewrite land3_mod8, land3, N.shiftr_div_pow2, mod64_mod4. reflexivity. Qed.

Lemma mapo_two_bits w shift l : shift < w -> mapo (fun s => two_bits w s shift) l = Val (map (dg shift) l).
Proof. intros H. apply mapo_val. intros x _. now apply two_bits_val. Qed.

Lemma sym4_small x : x < 4 -> sym4 x = x.
Proof. intros H. unfold sym4. now apply N.mod_small. Qed.

(* l.iter().max() on a non-empty slice *)
Lemma fold_max_maxN l : forall x, fold_left N.max l x = N.max x (maxN l).
Proof.
  induction l as [|y l IH]; intros x; cbn [fold_left maxN]; [lia|]. rewrite IH. lia.
Qed.
Lemma max_opt_maxN x l : max_opt (x :: l) = Some (maxN (x :: l)).
Proof. unfold max_opt. rewrite fold_max_maxN. reflexivity. Qed.

(* the stable partition permutes its input *)
Lemma filter4_perm (f : N -> N) l : (forall x, f x < 4) ->
  Permutation l (filter (fun x => f x =? 0) l ++ filter (fun x => f x =? 1) l ++
                 filter (fun x => f x =? 2) l ++ filter (fun x => f x =? 3) l).
Proof.
  intros Hf. induction l as [|x l IH]; [constructor|].
  cbn [filter]. pose proof (Hf x) as Hx.
  assert (C : f x = 0 \/ f x = 1 \/ f x = 2 \/ f x = 3) by lia.
  destruct C as [e|[e|[e|e]]]; rewrite e.
  - change (0 =? 0) with true. change (0 =? 1) with false. change (0 =? 2) with false. change (0 =? 3) with false.
    cbv iota. cbn [app]. now constructor.
  - change (1 =? 0) with false. change (1 =? 1) with true. change (1 =? 2) with false. change (1 =? 3) with false.
    cbv iota. now apply Permutation_cons_app.
  - change (2 =? 0) with false. change (2 =? 1) with false. change (2 =? 2) with true. change (2 =? 3) with false.
    cbv iota. rewrite app_assoc. apply Permutation_cons_app. now rewrite <- app_assoc.
  - change (3 =? 0) with false. change (3 =? 1) with false. change (3 =? 2) with false. change (3 =? 3) with true.
    cbv iota. rewrite 2!app_assoc. apply Permutation_cons_app. now rewrite <- 2!app_assoc.
Qed.

Lemma sp4_perm w seq shift seq' : shift < w -> stable_partition_of_4 w seq shift = Val seq' -> Permutation seq seq'.
Proof.
  intros Hs E. rewrite stable_partition_of_4_val in E by exact Hs. apply Val_inj in E. subst seq'.
  cbn [map concat]. rewrite app_nil_r. apply (filter4_perm (fun x => (x / 2 ^ shift) mod 4)).
  intros x. apply N.mod_lt. lia.
Qed.

Lemma perm_len {A} (l1 l2 : list A) : Permutation l1 l2 -> len l1 = len l2.
Proof. intros H. unfold len. now rewrite (Permutation_length H). Qed.

Lemma perm_Forall {A} (P : A -> Prop) (l1 l2 : list A) : Permutation l1 l2 -> Forall P l1 -> Forall P l2.
Proof. intros H HF. rewrite Forall_forall in *. intros x Hx. apply HF. eapply Permutation_in; [apply Permutation_sym; exact H|exact Hx]. Qed.

(* ================================================================== the simulation *)
  (* ---- the inner loop: pushing the digits of the level, in lockstep with qvb_push_all (g_qvb_push_sim) *)
  Lemma push_loop_sim {R} wT shift : shift < wT -> forall l b s, qvb_inv b s -> Forall (fun x => x < 4) s ->
    len s + len l < 2 ^ 61 ->
    exists b', qvb_push_all b (map (dg shift) l) = Val b' /\
      iter_loop (@G_push_body R wT shift) l (pack_qdata (qv_data b), qv_position b)
      = Val (Done (pack_qdata (qv_data b'), qv_position b')) /\
      qvb_inv b' (s ++ map (dg shift) l).
  Proof.
    intros Hsh. induction l as [|x l IH]; intros b s Hb Hs4 Hn.
    - exists b. cbn [map qvb_push_all iter_loop]. rewrite app_nil_r. auto.
    - cbn [map qvb_push_all iter_loop]. rewrite len_cons in Hn.
      destruct (qvb_push_inv b s (dg shift x) Hb) as (b1 & E1 & H1).
      rewrite (sym4_small _ (dg_lt4 shift x)) in H1.
      rewrite E1. cbn [bind].
      assert (Hs1 : len (s ++ [dg shift x]) + len l < 2 ^ 61) by (rewrite len_app, len_cons, len_nil; lia).
      assert (Hs41 : Forall (fun x => x < 4) (s ++ [dg shift x])).
      { apply Forall_app. split; [exact Hs4|]. constructor; [apply dg_lt4|constructor]. }
      destruct (IH b1 _ H1 Hs41 Hs1) as (b' & E' & Hl & H').
      exists b'. split; [exact E'|]. split; [|now rewrite <- app_assoc in H'].
      unfold G_push_body at 1. unfold oshr. replace (shift <? wT) with true by lia. cbn [bind]. cbv zeta.
      rewrite gen_digit.
      rewrite (g_qvb_push_sim b (dg shift x) b1 (qvb_inv_lines_ok b s Hb Hs4)).
      + cbn [bind]. exact Hl.
      + pose proof (dg_lt4 shift x). lia.
      + destruct Hb as (Hpos & _). rewrite Hpos. change (2 ^ 61) with 2305843009213693952 in Hn.
        rewrite p64. lia.
      + exact E1.
  Qed.

  Section Generic.
    Variable bsize : N.
    Variable gfrom : list (list N) -> N -> outcome GR5.
    Variable gdefault : outcome GR5.
    Hypothesis H_from : forall q r, qv_lines_ok q -> qv_cap_ok q -> rsq_from_qv bsize q = Val r ->
      gfrom (pack_qdata (qv_data q)) (qv_position q)
      = Val (rsq_wdata r, rsq_pos r, rs_superblocks (rsq_rs r), rs_samples (rsq_rs r), rsq_occs_smaller r).
    Hypothesis H_default : forall r, rsq_default bsize = Val r ->
      gdefault = Val (rsq_wdata r, rsq_pos r, rs_superblocks (rsq_rs r), rs_samples (rsq_rs r), rsq_occs_smaller r).

    (* ---- the outer loop over the levels, in lockstep with qwt_levels; [done] = the levels built so far *)
    Lemma levels_sim {R} wT : width_ok wT -> forall k lvl seq shift done rs,
      shift < wT -> Forall (fun x => x < 2 ^ wT) seq -> len seq < RSQ_MAXN ->
      qwt_levels wT bsize seq shift k = Val rs ->
      exists seq' shift',
        for_loop (@G_level_body R gfrom wT) lvl k
          (map rsq_wdata done, map rsq_pos done, map lvl_sbs done, map lvl_samples done,
           map rsq_occs_smaller done, seq, shift)
        = Val (Done (map rsq_wdata (done ++ rs), map rsq_pos (done ++ rs), map lvl_sbs (done ++ rs),
                     map lvl_samples (done ++ rs), map rsq_occs_smaller (done ++ rs), seq', shift')) /\
        Permutation seq seq'.
    Proof using H_from.
      clear H_default.
      intros Hwok. induction k as [|k IH]; intros lvl seq shift done rs Hsh HF Hn E.
      - cbn [qwt_levels] in E. apply Val_inj in E. subst rs. rewrite app_nil_r.
        exists seq, shift. split; [reflexivity|apply Permutation_refl].
      - cbn [qwt_levels] in E. rewrite (mapo_two_bits wT shift seq Hsh) in E. cbn [bind] in E.
        assert (Hn61 : len (@nil N) + len seq < 2 ^ 61).
        { rewrite RSQ_MAXN_val in Hn. rewrite len_nil. change (2 ^ 61) with 2305843009213693952. lia. }
        destruct (@push_loop_sim (step GST R) wT shift Hsh seq qvb_new [] qvb_inv_new (Forall_nil _) Hn61)
          as (q & Eq & Hloop & Hq).
        cbn [app] in Hq. rewrite Eq in E. cbn [bind] in E.
        destruct (rsq_from_qv bsize q) as [r|] eqn:Er; cbn [bind] in E; [|discriminate].
        destruct (stable_partition_of_4 wT seq shift) as [seq1|] eqn:Esp; cbn [bind] in E; [|discriminate].
        destruct (qwt_levels wT bsize seq1 (if 2 <=? shift then shift - 2 else shift) k) as [rest|] eqn:Erest;
          cbn [bind] in E; [|discriminate].
        apply Val_inj in E. subst rs.
        pose proof (sp4_perm wT seq shift seq1 Hsh Esp) as Hperm.
        assert (HF1 : Forall (fun x => x < 2 ^ wT) seq1) by (eapply perm_Forall; eassumption).
        assert (Hn1 : len seq1 < RSQ_MAXN) by (rewrite <- (perm_len _ _ Hperm); exact Hn).
        assert (Hsh1 : (if 2 <=? shift then shift - 2 else shift) < wT) by (destruct (2 <=? shift); lia).
        destruct (IH (lvl + 1) seq1 _ (done ++ [r]) rest Hsh1 HF1 Hn1 Erest) as (seq' & shift' & Hfl & Hperm').
        exists seq', shift'. split; [|eapply Permutation_trans; eassumption].
        rewrite <- app_assoc in Hfl. cbn [app] in Hfl. rewrite <- Hfl. clear Hfl.
        cbn [for_loop]. unfold G_level_body at 1. cbv beta iota.
        rewrite g_qvb_with_capacity_val by (rewrite RSQ_MAXN_val in Hn; rewrite p64; lia).
        cbn [bind]. cbv beta iota.
        rewrite Hloop. cbn [bind]. cbv beta iota.
        rewrite (g_qvb_build_ok q). unfold qvb_build. cbn [bind]. cbv beta iota.
        assert (HF4 : Forall (fun x => x < 4) (map (dg shift) seq)).
        { apply Forall_forall. intros y Hy. apply in_map_iff in Hy. destruct Hy as (x & <- & _). apply dg_lt4. }
        rewrite (H_from q r (qvb_inv_lines_ok q _ Hq HF4) (qvb_inv_cap_ok q _ Hq) Er).
        cbn [bind]. cbv beta iota zeta.
        rewrite (g_stable_partition_of_4_ok wT seq shift (RSQ_MAXN_lt64 _ Hn)), Esp. cbn [bind].
        assert (Eshift : (if N.leb 2 shift then let! shift0 := osub shift 2 in Val shift0 else Val shift)
                         = Val (if 2 <=? shift then shift - 2 else shift)).
        { unfold osub. destruct (2 <=? shift); reflexivity. }
        rewrite Eshift. cbn [bind].
        rewrite !map_app. cbn [map]. reflexivity.
    Qed.

    (* ---- (1) the constructor *)
    Theorem Gnew_sim : forall wT seq t, width_ok wT -> Forall (fun x => x < 2 ^ wT) seq -> len seq < RSQ_MAXN ->
      qwt_new wT bsize seq = Val t ->
      exists seq', Gnew gfrom gdefault wT seq
                   = Val (seq', (q_n t, q_n_levels t, q_sigma t, qwt_data t, qwt_pos t, qwt_sbs t, qwt_samples t,
                                 qwt_occs t)) /\
                   Permutation seq seq'.
    Proof using H_from H_default.
      intros wT seq t Hwok HF Hn E.
      destruct seq as [|x0 seq0] eqn:Eseq.
      - exists []. split; [|constructor].
        unfold qwt_new in E. destruct (rsq_default bsize) as [d|] eqn:Ed; cbn [bind] in E; [|discriminate].
        apply Val_inj in E. subst t. unfold Gnew. change (len (@nil N) =? 0) with true. cbv iota.
        rewrite (H_default d eq_refl). cbn [bind]. cbv beta iota. reflexivity.
      - rewrite <- Eseq in *.
        assert (Hne : len seq <> 0) by (rewrite Eseq, len_cons; lia).
        assert (Enew : qwt_new wT bsize seq =
                  let! s0 := osub (levels_of seq) 1 in
                  let! qvs := qwt_levels wT bsize seq (2 * s0) (N.to_nat (levels_of seq)) in
                  Val {| q_n := len seq; q_n_levels := levels_of seq; q_sigma := maxN seq; q_qvs := qvs |}).
        { rewrite Eseq. reflexivity. }
        rewrite Enew in E. clear Enew.
        assert (Hwpos : 0 < wT) by (unfold width_ok in Hwok; lia).
        assert (Hw128 : wT <= 128) by (unfold width_ok in Hwok; lia).
        assert (Hpow : 0 < 2 ^ wT) by (apply N.neq_0_lt_0, N.pow_nonzero; lia).
        pose proof (maxN_lt seq (2 ^ wT) Hpow HF) as Hmax.
        pose proof (msb_lt _ _ Hwpos Hmax) as Hmsb.
        pose proof (qlevels_shift seq wT Hwpos Hmax) as Hshift. rewrite <- levels_of_qlevels in Hshift.
        destruct (osub (levels_of seq) 1) as [s0|] eqn:Es0; cbn [bind] in E; [|discriminate].
        pose proof Es0 as Es0'. apply osub_Val in Es0'. destruct Es0' as [Es0v Hs0].
        destruct (qwt_levels wT bsize seq (2 * s0) (N.to_nat (levels_of seq))) as [qvs|] eqn:Eq; cbn [bind] in E;
          [|discriminate].
        apply Val_inj in E. subst t.
        assert (Hsh0 : 2 * s0 < wT) by lia.
        destruct (@levels_sim (list N * (N * N * N * list (list (list N)) * list N * list (list (list N)) *
                                          list (list (list N)) * list (list N)))
                              wT Hwok (N.to_nat (levels_of seq)) 0 seq (2 * s0) [] qvs Hsh0 HF Hn Eq)
          as (seq' & shift' & Hfl & Hperm).
        exists seq'. split; [|exact Hperm].
        unfold Gnew. replace (len seq =? 0) with false by lia. cbv iota.
        rewrite Eseq at 1. rewrite max_opt_maxN. rewrite <- Eseq. cbn [ounwrap bind].
        rewrite (g_msb_ok wT (maxN seq) Hwok Hmax). cbn [bind].
        rewrite (oadd_small 32 (msb (maxN seq)) 1) by (change (2 ^ 32) with 4294967296; lia). cbn [bind].
        rewrite (oadd_small 32 (msb (maxN seq) + 1) 1) by (change (2 ^ 32) with 4294967296; lia). cbn [bind].
        cbv zeta. fold (levels_of seq). rewrite Es0. cbn [bind].
        unfold omul. replace (2 * s0 <? 2 ^ 64) with true by (rewrite p64; lia). cbn [bind].
        rewrite N.sub_0_r. cbn [map app] in Hfl. rewrite Hfl. cbn [bind]. cbv beta iota.
        rewrite <- (perm_len _ _ Hperm). reflexivity.
    Qed.
  End Generic.


(* ================================================================== B = 256 *)
Section From256.
  (* RSQVector::from, proved in another file *)
  Hypothesis H_from256 : forall q r, qv_lines_ok q -> qv_cap_ok q -> rsq_from_qv 256 q = Val r ->
    g_rsq256_from (pack_qdata (qv_data q)) (qv_position q)
    = Val (rsq_wdata r, rsq_pos r, rs_superblocks (rsq_rs r), rs_samples (rsq_rs r), rsq_occs_smaller r).

  (* RSQVector::default() = Self::from(QVector::default()): the empty quad vector *)
  Lemma g_rsq256_default_sim : forall r, rsq_default 256 = Val r ->
    g_rsq256_default
    = Val (rsq_wdata r, rsq_pos r, rs_superblocks (rsq_rs r), rs_samples (rsq_rs r), rsq_occs_smaller r).
  Proof. intros r E. exact (H_from256 qvb_new r qvb_new_lines_ok (qvb_inv_cap_ok _ _ qvb_inv_new) E). Qed.

  (* (1) the constructor ([exact] checks that the generated text is the generic one, by conversion) *)
  Theorem g_qwt256_new_sim : forall wT seq t, width_ok wT -> Forall (fun x => x < 2 ^ wT) seq ->
    len seq < RSQ_MAXN -> qwt_new wT 256 seq = Val t ->
    exists seq', g_qwt256_new wT seq
                 = Val (seq', (q_n t, q_n_levels t, q_sigma t, qwt_data t, qwt_pos t, qwt_sbs t, qwt_samples t,
                               qwt_occs t)) /\
                 Permutation seq seq'.
  Proof. exact (Gnew_sim 256 g_rsq256_from g_rsq256_default H_from256 g_rsq256_default_sim). Qed.

  (* (2) END TO END: the regenerated constructor followed by the regenerated queries is the list specification:
     no hand-model function in the statement *)
  Theorem g_qwt256_new_e2e : forall w s, width_ok w -> Forall (fun x => x < 2 ^ w) s -> len s < RSQ_MAXN ->
    exists s' n nl sg d p sb sm oc,
      g_qwt256_new w s = Val (s', (n, nl, sg, d, p, sb, sm, oc)) /\ Permutation s s' /\
      g_qwt256_len n = Val (len s) /\ g_qwt256_is_empty n = Val (len s =? 0) /\
      g_qwt256_n_levels nl = Val (if len s =? 0 then 0 else (msb (maxN s) + 1 + 1) / 2) /\
      (forall i, g_qwt256_get w n nl d p sb oc i = Val (nthN s i)) /\
      (forall c i, c < 2 ^ w ->
         g_qwt256_rank w n nl sg d sb oc c i
         = Val (if negb (len s =? 0) && (i <=? len s) && (c <=? maxN s) then Some (rank_spec s c i) else None)) /\
      (forall c k fuel, c < 2 ^ w -> k < 2 ^ 64 -> (S (S (N.to_nat (len s / (8 * 256)))) <= fuel)%nat ->
         g_qwt256_select fuel w n nl sg d p sb sm oc c k
         = Val (if negb (len s =? 0) && (c <=? maxN s) then select_spec s c k else None)) /\
      (forall i x, nthN s i = Some x -> g_qwt256_get_unchecked w nl d p sb oc i = Val x) /\
      (forall c i, 0 < len s -> c <= maxN s -> i <= len s ->
         g_qwt256_rank_unchecked w nl d sb oc c i = Val (rank_spec s c i)) /\
      (forall c k p' fuel, c < 2 ^ w -> select_spec s c k = Some p' ->
         (S (S (N.to_nat (len s / (8 * 256)))) <= fuel)%nat ->
         g_qwt256_select_unchecked fuel w n nl sg d p sb sm oc c k = Val p').
  Proof.
    intros w s Hwok HF Hn.
    destruct (qwt_new_correct w 256 s Hwok (or_introl eq_refl) HF Hn) as (t & Et & _).
    destruct (g_qwt256_new_sim w s t Hwok HF Hn Et) as (s' & Eg & Hperm).
    destruct (g_qwt_len_new w 256 s t Hwok (or_introl eq_refl) HF Hn Et) as (L1 & _ & L3 & _ & L5 & _).
    exists s', (q_n t), (q_n_levels t), (q_sigma t), (qwt_data t), (qwt_pos t), (qwt_sbs t), (qwt_samples t),
      (qwt_occs t).
    split; [exact Eg|]. split; [exact Hperm|]. split; [exact L1|]. split; [exact L3|]. split; [exact L5|].
    split; [exact (g_qwt256_get_new w s t Hwok HF Hn Et)|].
    split; [exact (g_qwt256_rank_new w s t Hwok HF Hn Et)|].
    split; [exact (g_qwt256_select_new w s t Hwok HF Hn Et)|].
    split; [exact (g_qwt256_get_unchecked_new w s t Hwok HF Hn Et)|].
    split; [exact (g_qwt256_rank_unchecked_new w s t Hwok HF Hn Et)|].
    exact (g_qwt256_select_unchecked_new w s t Hwok HF Hn Et).
  Qed.
End From256.

(* ================================================================== B = 512 *)
Section From512.
  (* RSQVector::from, proved in another file *)
  Hypothesis H_from512 : forall q r, qv_lines_ok q -> qv_cap_ok q -> rsq_from_qv 512 q = Val r ->
    g_rsq512_from (pack_qdata (qv_data q)) (qv_position q)
    = Val (rsq_wdata r, rsq_pos r, rs_superblocks (rsq_rs r), rs_samples (rsq_rs r), rsq_occs_smaller r).

  (* RSQVector::default() = Self::from(QVector::default()): the empty quad vector *)
  Lemma g_rsq512_default_sim : forall r, rsq_default 512 = Val r ->
    g_rsq512_default
    = Val (rsq_wdata r, rsq_pos r, rs_superblocks (rsq_rs r), rs_samples (rsq_rs r), rsq_occs_smaller r).
  Proof. intros r E. exact (H_from512 qvb_new r qvb_new_lines_ok (qvb_inv_cap_ok _ _ qvb_inv_new) E). Qed.

  (* (1) the constructor ([exact] checks that the generated text is the generic one, by conversion) *)
  Theorem g_qwt512_new_sim : forall wT seq t, width_ok wT -> Forall (fun x => x < 2 ^ wT) seq ->
    len seq < RSQ_MAXN -> qwt_new wT 512 seq = Val t ->
    exists seq', g_qwt512_new wT seq
                 = Val (seq', (q_n t, q_n_levels t, q_sigma t, qwt_data t, qwt_pos t, qwt_sbs t, qwt_samples t,
                               qwt_occs t)) /\
                 Permutation seq seq'.
  Proof. exact (Gnew_sim 512 g_rsq512_from g_rsq512_default H_from512 g_rsq512_default_sim). Qed.

  (* (2) END TO END: the regenerated constructor followed by the regenerated queries is the list specification:
     no hand-model function in the statement *)
  Theorem g_qwt512_new_e2e : forall w s, width_ok w -> Forall (fun x => x < 2 ^ w) s -> len s < RSQ_MAXN ->
    exists s' n nl sg d p sb sm oc,
      g_qwt512_new w s = Val (s', (n, nl, sg, d, p, sb, sm, oc)) /\ Permutation s s' /\
      g_qwt512_len n = Val (len s) /\ g_qwt512_is_empty n = Val (len s =? 0) /\
      g_qwt512_n_levels nl = Val (if len s =? 0 then 0 else (msb (maxN s) + 1 + 1) / 2) /\
      (forall i, g_qwt512_get w n nl d p sb oc i = Val (nthN s i)) /\
      (forall c i, c < 2 ^ w ->
         g_qwt512_rank w n nl sg d sb oc c i
         = Val (if negb (len s =? 0) && (i <=? len s) && (c <=? maxN s) then Some (rank_spec s c i) else None)) /\
      (forall c k fuel, c < 2 ^ w -> k < 2 ^ 64 -> (S (S (N.to_nat (len s / (8 * 512)))) <= fuel)%nat ->
         g_qwt512_select fuel w n nl sg d p sb sm oc c k
         = Val (if negb (len s =? 0) && (c <=? maxN s) then select_spec s c k else None)) /\
      (forall i x, nthN s i = Some x -> g_qwt512_get_unchecked w nl d p sb oc i = Val x) /\
      (forall c i, 0 < len s -> c <= maxN s -> i <= len s ->
         g_qwt512_rank_unchecked w nl d sb oc c i = Val (rank_spec s c i)) /\
      (forall c k p' fuel, c < 2 ^ w -> select_spec s c k = Some p' ->
         (S (S (N.to_nat (len s / (8 * 512)))) <= fuel)%nat ->
         g_qwt512_select_unchecked fuel w n nl sg d p sb sm oc c k = Val p').
  Proof.
    intros w s Hwok HF Hn.
    destruct (qwt_new_correct w 512 s Hwok (or_intror eq_refl) HF Hn) as (t & Et & _).
    destruct (g_qwt512_new_sim w s t Hwok HF Hn Et) as (s' & Eg & Hperm).
    destruct (g_qwt_len_new w 512 s t Hwok (or_intror eq_refl) HF Hn Et) as (_ & L1 & _ & L3 & _ & L5).
    exists s', (q_n t), (q_n_levels t), (q_sigma t), (qwt_data t), (qwt_pos t), (qwt_sbs t), (qwt_samples t),
      (qwt_occs t).
    split; [exact Eg|]. split; [exact Hperm|]. split; [exact L1|]. split; [exact L3|]. split; [exact L5|].
    split; [exact (g_qwt512_get_new w s t Hwok HF Hn Et)|].
    split; [exact (g_qwt512_rank_new w s t Hwok HF Hn Et)|].
    split; [exact (g_qwt512_select_new w s t Hwok HF Hn Et)|].
    split; [exact (g_qwt512_get_unchecked_new w s t Hwok HF Hn Et)|].
    split; [exact (g_qwt512_rank_unchecked_new w s t Hwok HF Hn Et)|].
    exact (g_qwt512_select_unchecked_new w s t Hwok HF Hn Et).
  Qed.
End From512.

(* ================================================================== after the Sections: H_from is the only premise *)
Check Gnew_sim.
Check g_rsq256_default_sim.
Check g_rsq512_default_sim.
Check g_qwt256_new_sim.
Check g_qwt512_new_sim.
Check g_qwt256_new_e2e.
Check g_qwt512_new_e2e.

(* ---- non-vacuity: the regenerated constructor evaluated (vm_compute) on 300 u8 symbols (two data lines per level,
   4 levels) returns exactly the fields of the tree the hand model builds, and a permutation of its input whose
   length is that of the input *)
Definition g_qwt_new_example_input : list N := map (fun i => (i * i * 7 + 3 * i) mod 200) (seqN 0 300).

Example g_qwt256_new_example :
  match qwt_new 8 256 g_qwt_new_example_input, g_qwt256_new 8 g_qwt_new_example_input with
  | Val t, Val (s', flds) =>
      flds = (q_n t, q_n_levels t, q_sigma t, qwt_data t, qwt_pos t, qwt_sbs t, qwt_samples t, qwt_occs t) /\
      q_n t = 300 /\ q_n_levels t = 4 /\ len s' = 300 /\ len (qwt_data t) = 4
  | _, _ => False
  end.
Proof. vm_compute. repeat split; reflexivity. Qed.

Example g_qwt512_new_example :
  match qwt_new 8 512 g_qwt_new_example_input, g_qwt512_new 8 g_qwt_new_example_input with
  | Val t, Val (s', flds) =>
      flds = (q_n t, q_n_levels t, q_sigma t, qwt_data t, qwt_pos t, qwt_sbs t, qwt_samples t, qwt_occs t) /\
      q_n t = 300 /\ q_n_levels t = 4 /\ len s' = 300 /\ len (qwt_data t) = 4
  | _, _ => False
  end.
Proof. vm_compute. repeat split; reflexivity. Qed.

(* the empty sequence *)
Example g_qwt256_new_example_empty :
  match qwt_new 8 256 [], g_qwt256_new 8 [] with
  | Val t, Val (s', flds) =>
      flds = (q_n t, q_n_levels t, q_sigma t, qwt_data t, qwt_pos t, qwt_sbs t, qwt_samples t, qwt_occs t) /\ s' = []
  | _, _ => False
  end.
Proof. vm_compute. repeat split; reflexivity. Qed.

Print Assumptions Gnew_sim.
Print Assumptions g_qwt256_new_sim.
Print Assumptions g_qwt512_new_sim.
Print Assumptions g_qwt256_new_e2e.
Print Assumptions g_qwt512_new_e2e.
Print Assumptions g_qwt256_new_example.
Print Assumptions g_qwt512_new_example.
Print Assumptions g_qwt256_new_example_empty.

(* SUMMARY.
   The facts about g_msb, g_stable_partition_of_4, QVectorBuilder::{with_capacity, push, build} are the theorems
   of Proofs/FnsQvbOk.v, used directly.  The only remaining premise is the simulation of RSQVector::from
   (H_from256 in Section From256, H_from512 in Section From512; Gnew_sim is the generic statement for any block
   size / from / default satisfying the two RSQVector facts, the default fact being derived from the from fact by
   g_rsq256_default_sim / g_rsq512_default_sim).  After the Sections:
     g_qwt256_new_sim / g_qwt512_new_sim : H_from -> for qwt_new wT B seq = Val t (symbols below 2^wT,
       len seq < RSQ_MAXN) the regenerated constructor returns (seq', fields of t), seq' a permutation of seq;
     g_qwt256_new_e2e / g_qwt512_new_e2e : H_from -> the regenerated constructor followed by the regenerated
       queries (len, is_empty, n_levels, get, rank, select and the unchecked variants) is the list specification.
   No mismatch between the generated constructor and the hand model was found: on every in-range input both
   succeed with the same fields (the u32 additions on msb+1, the usize products 2*(n_levels-1) and 2*len+512 and
   the builder's position+2 never overflow for len seq < RSQ_MAXN, wT <= 128). *)
