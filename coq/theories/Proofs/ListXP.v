(* Lemmas about the N-indexed list helpers of Base/ListX.v *)
From Coq Require Import ZArith Lia ZifyBool ZifyN ZifyNat.
From QwtModel Require Import ListX.
Ltac Zify.zify_post_hook ::= Z.div_mod_to_equations.
Arguments N.add : simpl never.
Arguments N.sub : simpl never.
Arguments N.mul : simpl never.
Arguments N.eqb : simpl never.
Arguments N.ltb : simpl never.
Arguments N.leb : simpl never.
Arguments N.pred : simpl never.
Arguments N.of_nat : simpl never.

Lemma len_nil {A} : len (@nil A) = 0. Proof. reflexivity. Qed.
Lemma len_cons {A} (x : A) l : len (x :: l) = len l + 1.
Proof. unfold len. cbn [length]. lia. Qed.
Lemma len_app {A} (l1 l2 : list A) : len (l1 ++ l2) = len l1 + len l2.
Proof. unfold len. rewrite app_length. lia. Qed.

Ltac lens :=
  repeat first [rewrite len_app | rewrite len_cons
               | match goal with |- context [@len ?A (@nil ?A)] => change (@len A (@nil A)) with 0 end].
Tactic Notation "lens" "in" hyp(H) :=
  repeat first [rewrite len_app in H | rewrite len_cons in H
               | match type of H with context [@len ?A (@nil ?A)] => change (@len A (@nil A)) with 0 in H end].

Lemma nthN_nth_error {A} (l : list A) : forall i, nthN l i = nth_error l (N.to_nat i).
Proof.
  induction l as [|x l IH]; intros i; cbn [nthN].
  - now destruct (N.to_nat i).
  - destruct (N.eqb_spec i 0) as [->|Hn]; [reflexivity|].
    rewrite IH. replace (N.to_nat i) with (S (N.to_nat (N.pred i))) by lia. reflexivity.
Qed.

Lemma nthN_0 {A} (x : A) l : nthN (x :: l) 0 = Some x.
Proof. reflexivity. Qed.
Lemma nthN_succ {A} (x : A) l i : nthN (x :: l) (i + 1) = nthN l i.
Proof.
  cbn [nthN]. destruct (N.eqb_spec (i + 1) 0); [lia|]. f_equal. lia.
Qed.

Lemma nthN_some_lt {A} (l : list A) i a : nthN l i = Some a -> i < len l.
Proof.
  rewrite nthN_nth_error. intros H. assert (N.to_nat i < length l)%nat.
  { apply nth_error_Some. congruence. } unfold len. lia.
Qed.
Lemma nthN_none {A} (l : list A) i : len l <= i -> nthN l i = None.
Proof.
  rewrite nthN_nth_error. intros H. apply nth_error_None. unfold len in H. lia.
Qed.
Lemma nthN_lt_some {A} (l : list A) i : i < len l -> exists a, nthN l i = Some a.
Proof.
  intros H. destruct (nthN l i) eqn:E; eauto.
  rewrite nthN_nth_error in E. apply nth_error_None in E. unfold len in H. lia.
Qed.

Lemma nthN_app1 {A} (l1 l2 : list A) i : i < len l1 -> nthN (l1 ++ l2) i = nthN l1 i.
Proof.
  intros H. rewrite !nthN_nth_error. apply nth_error_app1. unfold len in H. lia.
Qed.
Lemma nthN_app2 {A} (l1 l2 : list A) i : len l1 <= i -> nthN (l1 ++ l2) i = nthN l2 (i - len l1).
Proof.
  intros H. rewrite !nthN_nth_error. unfold len in *. rewrite nth_error_app2 by lia. f_equal. lia.
Qed.

Lemma nthN_map {A B} (f : A -> B) l i : nthN (map f l) i = option_map f (nthN l i).
Proof. rewrite !nthN_nth_error. apply nth_error_map. Qed.

Lemma nthN_repeat {A} (a : A) n i : i < N.of_nat n -> nthN (repeat a n) i = Some a.
Proof.
  intros H. rewrite nthN_nth_error.
  destruct (nth_error (repeat a n) (N.to_nat i)) eqn:E.
  - apply nth_error_In in E. apply repeat_spec in E. now subst.
  - apply nth_error_None in E. rewrite repeat_length in E. lia.
Qed.

Lemma firstnN_firstn {A} (l : list A) : forall i, firstnN i l = firstn (N.to_nat i) l.
Proof.
  induction l as [|x l IH]; intros i; cbn [firstnN].
  - now destruct (N.to_nat i).
  - destruct (N.eqb_spec i 0) as [->|Hn]; [reflexivity|].
    rewrite IH. replace (N.to_nat i) with (S (N.to_nat (N.pred i))) by lia. reflexivity.
Qed.
Lemma skipnN_skipn {A} (l : list A) : forall i, skipnN i l = skipn (N.to_nat i) l.
Proof.
  induction l as [|x l IH]; intros i; cbn [skipnN].
  - now destruct (N.to_nat i).
  - destruct (N.eqb_spec i 0) as [->|Hn]; [reflexivity|].
    rewrite IH. replace (N.to_nat i) with (S (N.to_nat (N.pred i))) by lia. reflexivity.
Qed.

Lemma firstnN_all {A} (l : list A) i : len l <= i -> firstnN i l = l.
Proof. intros H. rewrite firstnN_firstn. apply firstn_all2. unfold len in H. lia. Qed.
Lemma firstnN_app_exact {A} (l1 l2 : list A) : firstnN (len l1) (l1 ++ l2) = l1.
Proof.
  rewrite firstnN_firstn. unfold len. rewrite Nnat.Nat2N.id.
  rewrite firstn_app, Nat.sub_diag, firstn_all. cbn. now rewrite app_nil_r.
Qed.
Lemma firstnN_len {A} (l : list A) i : len (firstnN i l) = N.min i (len l).
Proof. rewrite firstnN_firstn. unfold len. rewrite firstn_length. lia. Qed.

Lemma setN_len {A} (l : list A) : forall i v, len (setN l i v) = len l.
Proof.
  induction l as [|x l IH]; intros i v; cbn [setN]; [reflexivity|].
  destruct (N.eqb_spec i 0); rewrite !len_cons; [reflexivity|]. now rewrite IH.
Qed.
Lemma setN_length {A} (l : list A) i v : length (setN l i v) = length l.
Proof. pose proof (setN_len l i v) as H. unfold len in H. lia. Qed.

Lemma nthN_setN_same {A} (l : list A) : forall i v, i < len l -> nthN (setN l i v) i = Some v.
Proof.
  induction l as [|x l IH]; intros i v H; [rewrite len_nil in H; lia|].
  cbn [setN nthN]. destruct (N.eqb_spec i 0) as [->|Hn]; cbn [nthN].
  - reflexivity.
  - destruct (N.eqb_spec i 0); [lia|]. apply IH. rewrite len_cons in H. lia.
Qed.
Lemma nthN_setN_other {A} (l : list A) : forall i j v, i <> j -> nthN (setN l i v) j = nthN l j.
Proof.
  induction l as [|x l IH]; intros i j v H; [reflexivity|].
  cbn [setN]. destruct (N.eqb_spec i 0) as [->|Hn]; cbn [nthN].
  - destruct (N.eqb_spec j 0); [lia|reflexivity].
  - destruct (N.eqb_spec j 0); [reflexivity|]. apply IH. lia.
Qed.

Lemma setN_app1 {A} (l1 l2 : list A) : forall i v, i < len l1 -> setN (l1 ++ l2) i v = setN l1 i v ++ l2.
Proof.
  induction l1 as [|x l1 IH]; intros i v H; [rewrite len_nil in H; lia|].
  cbn [app setN]. destruct (N.eqb_spec i 0); [reflexivity|].
  cbn [app]. f_equal. apply IH. rewrite len_cons in H. lia.
Qed.
Lemma setN_app2 {A} (l1 l2 : list A) : forall i v, len l1 <= i -> setN (l1 ++ l2) i v = l1 ++ setN l2 (i - len l1) v.
Proof.
  induction l1 as [|x l1 IH]; intros i v H.
  - cbn [app]. rewrite len_nil. now rewrite N.sub_0_r.
  - rewrite len_cons in H. cbn [app setN]. destruct (N.eqb_spec i 0); [lia|].
    f_equal. rewrite IH by lia. do 2 f_equal. rewrite len_cons. lia.
Qed.

Lemma last_opt_app {A} (l : list A) x : last_opt (l ++ [x]) = Some x.
Proof.
  induction l as [|y l IH]; [reflexivity|].
  cbn [app]. destruct (l ++ [x]) eqn:E; [now destruct l|]. cbn [last_opt]. exact IH.
Qed.
Lemma set_last_app {A} (l : list A) x v : set_last (l ++ [x]) v = l ++ [v].
Proof.
  induction l as [|y l IH]; [reflexivity|].
  cbn [app]. destruct (l ++ [x]) eqn:E; [now destruct l|]. cbn [set_last]. f_equal. exact IH.
Qed.

Lemma countN_app c l1 l2 : countN c (l1 ++ l2) = countN c l1 + countN c l2.
Proof. induction l1 as [|x l1 IH]; cbn [app countN]; [lia|]. rewrite IH. lia. Qed.
Lemma countN_le_len c l : countN c l <= len l.
Proof. induction l as [|x l IH]; cbn [countN]; [unfold len; cbn; lia|]. rewrite len_cons. destruct (x =? c); lia. Qed.
Lemma countN_repeat_other c d n : c <> d -> countN c (repeat d n) = 0.
Proof. intros H. induction n as [|n IH]; cbn [repeat countN]; [reflexivity|]. destruct (N.eqb_spec d c); [congruence|lia]. Qed.

Lemma count_lt_app c l1 l2 : count_lt c (l1 ++ l2) = count_lt c l1 + count_lt c l2.
Proof. induction l1 as [|x l1 IH]; cbn [app count_lt]; [lia|]. rewrite IH. lia. Qed.

(* concat of lines that all have the same length *)
Lemma nthN_concat_uniform {A} (k : N) (ls : list (list A)) :
  0 < k -> Forall (fun l => len l = k) ls ->
  forall i, nthN (concat ls) i = match nthN ls (i / k) with Some l => nthN l (i mod k) | None => None end.
Proof.
  intros Hk. induction ls as [|l ls IH]; intros HF i.
  - reflexivity.
  - inversion HF as [|? ? Hl HF']; subst. cbn [concat].
    destruct (N.ltb_spec i (len l)) as [Hi|Hi].
    + rewrite nthN_app1 by assumption. rewrite N.div_small, N.mod_small by assumption. reflexivity.
    + rewrite nthN_app2 by assumption. rewrite IH by assumption.
      assert (E1 : i / len l = (i - len l) / len l + 1).
      { replace i with ((i - len l) + 1 * len l) at 1 by lia. rewrite N.div_add by lia. reflexivity. }
      assert (E2 : i mod len l = (i - len l) mod len l).
      { replace i with ((i - len l) + 1 * len l) at 1 by lia. rewrite N.mod_add by lia. reflexivity. }
      rewrite E1, E2, nthN_succ. reflexivity.
Qed.

Lemma len_concat_uniform {A} (k : N) (ls : list (list A)) :
  Forall (fun l => len l = k) ls -> len (concat ls) = k * len ls.
Proof.
  induction 1 as [|l ls Hl HF IH]; [unfold len; cbn [concat length]; lia|].
  cbn [concat]. rewrite len_app, len_cons, IH, Hl. lia.
Qed.
