(* C06: RSNarrow and RSWide (Model/RSBin.v) answer get / rank / select / n_ones / n_zeros exactly
   like the list specification (Spec/Seq.v), for every well-formed bit vector, without Fault.

   Files:  RSBinL.v  generic list lemmas (rank_spec / select_spec theory, windows, the two scans,
                     packed counters [enc], select samples [sinv] / [samples_ok])
           RSBinB.v  bit level lemmas, the flat 0/1 view [FL] of the word slice, [bv_wf]
           RSBinN.v  RSNarrow: construction invariant [ninv], directory [rsn_dir_ok], queries
           RSBinW.v  RSWide:   construction invariant [winv], directory [rsw_dir_ok], queries
           RSBinP.v  (this file) the two theorems, the example, Print Assumptions.

   [popcount] and [select_in_word] are used through the two Section hypotheses below (they are
   proved separately); after the Section is closed they are explicit premises of the theorems. *)
From Coq Require Import ZArith Lia ZifyBool ZifyN ZifyNat.
From QwtModel Require Import ListX Seq RSBin ListXP RSBinL RSBinB RSBinN RSBinW.
Ltac Zify.zify_post_hook ::= Z.div_mod_to_equations.
Arguments N.add : simpl never.
Arguments N.sub : simpl never.
Arguments N.mul : simpl never.
Arguments N.eqb : simpl never.
Arguments N.ltb : simpl never.
Arguments N.leb : simpl never.
Arguments N.pred : simpl never.
Arguments N.of_nat : simpl never.
Arguments N.land : simpl never.
Arguments N.lor : simpl never.
Arguments N.shiftr : simpl never.
Arguments N.div : simpl never.
Arguments N.modulo : simpl never.

(* [bv_wf] is defined in RSBinB.v (it is needed by the helper files); this is its definition *)
Lemma bv_wf_def (b : bitvec) : bv_wf b <->
  (len (bv_words b) = 8 * ((bv_nbits b + 511) / 512) /\ Forall (fun w => w < 2 ^ 64) (bv_words b) /\
   (forall j, bv_nbits b <= j -> j < 64 * len (bv_words b) -> nthN (concat (map (bits_of 64) (bv_words b))) j = Some 0) /\
   bv_nbits b < 2 ^ 43).
Proof. reflexivity. Qed.

Definition bin_spec (s : list bool) (get : N -> outcome (option bool)) (rank1 rank0 select1 select0 : N -> outcome (option N))
                    (n_ones n_zeros : outcome N) : Prop :=
  (forall i, get i = Val (nthN s i)) /\
  (* the code answers None for every rank query on an EMPTY vector, also for i = 0 *)
  (forall i, rank1 i = Val (if (negb (len s =? 0)) && (i <=? len s) then Some (rank1_spec s i) else None)) /\
  (forall i, rank0 i = Val (if (negb (len s =? 0)) && (i <=? len s) then Some (rank0_spec s i) else None)) /\
  (forall k, k < 2 ^ 64 -> select1 k = Val (select1_spec s k)) /\
  (forall k, k < 2 ^ 64 -> select0 k = Val (select0_spec s k)) /\
  n_ones = Val (countb s) /\ n_zeros = Val (len s - countb s).

Section RSBin.
Hypothesis select_in_word_correct : forall w k, w < 2 ^ 64 -> k < 128 ->
  select_in_word w k = Val (match select_spec (bits_of 64 w) 1 k with Some p => p | None => 64 end).
Hypothesis popcount_correct : forall n x, x < 2 ^ N.of_nat n -> popcount x = countN 1 (bits_of n x).

Let PC : popcount_ok := popcount_correct.
Let SIW : siw_ok := select_in_word_correct.

Theorem rsn_correct : forall bv, bv_wf bv -> exists r, rsn_new bv = Val r /\ rsn_bv r = bv /\
  bin_spec (bv_abs bv) (rsn_get r) (rsn_rank1 r) (rsn_rank0 r) (rsn_select1 r) (rsn_select0 r) (rsn_n_ones r) (rsn_n_zeros r) /\
  (forall i, 0 < len (bv_abs bv) -> i <= len (bv_abs bv) -> rsn_rank1_unchecked r i = Val (rank1_spec (bv_abs bv) i)) /\
  (forall k p, select1_spec (bv_abs bv) k = Some p -> rsn_select_unchecked true r k = Val p) /\
  (forall k p, select0_spec (bv_abs bv) k = Some p -> rsn_select_unchecked false r k = Val p).
Proof.
  intros bv Hwf. destruct (rsn_new_ok PC bv Hwf) as (r & Enew & Hbv & Hdir).
  exists r. split; [exact Enew|]. split; [exact Hbv|]. split; [|split; [|split]].
  - unfold bin_spec. split; [|split; [|split; [|split; [|split; [|split]]]]].
    + intros i. unfold rsn_get. rewrite Hbv. apply bv_get_correct. exact Hwf.
    + apply (rsn_rank1_ok PC bv r Hwf Hbv Hdir).
    + apply (rsn_rank0_ok PC bv r Hwf Hbv Hdir).
    + intros k _. apply (rsn_select1_ok PC SIW bv r Hwf Hbv Hdir).
    + intros k _. apply (rsn_select0_ok PC SIW bv r Hwf Hbv Hdir).
    + apply (rsn_n_ones_ok PC bv r Hwf Hbv Hdir).
    + apply (rsn_n_zeros_ok PC bv r Hwf Hbv Hdir).
  - intros i _ Hi. rewrite (len_abs bv Hwf) in Hi.
    rewrite (rsn_rank1_unchecked_ok PC bv r Hwf Hbv Hdir i Hi), (rank1_abs bv i Hwf Hi). reflexivity.
  - intros k p H. apply (rsn_select_unchecked_ok SIW bv r Hwf Hbv Hdir true k p H).
  - intros k p H. apply (rsn_select_unchecked_ok SIW bv r Hwf Hbv Hdir false k p H).
Qed.

Theorem rsw_correct : forall bv, bv_wf bv -> exists r, rsw_new bv = Val r /\ rsw_bv r = bv /\
  bin_spec (bv_abs bv) (rsw_get r) (rsw_rank1 r) (rsw_rank0 r) (rsw_select1 r) (rsw_select0 r) (rsw_n_ones r) (Val (rsw_n_zeros_q r)) /\
  (forall i, 0 < len (bv_abs bv) -> i <= len (bv_abs bv) -> rsw_rank1_unchecked r i = Val (rank1_spec (bv_abs bv) i) /\ rsw_rank0_unchecked r i = Val (rank0_spec (bv_abs bv) i)) /\
  (forall k p, select1_spec (bv_abs bv) k = Some p -> rsw_select_unchecked true r k = Val p) /\
  (forall k p, select0_spec (bv_abs bv) k = Some p -> rsw_select_unchecked false r k = Val p).
Proof.
  intros bv Hwf. destruct (rsw_new_ok PC bv Hwf) as (r & Enew & Hbv & Hdir & Hnz).
  exists r. split; [exact Enew|]. split; [exact Hbv|]. split; [|split; [|split]].
  - unfold bin_spec. split; [|split; [|split; [|split; [|split; [|split]]]]].
    + intros i. unfold rsw_get. rewrite Hbv. apply bv_get_correct. exact Hwf.
    + apply (rsw_rank1_ok PC bv r Hwf Hbv Hdir Hnz).
    + apply (rsw_rank0_ok PC bv r Hwf Hbv Hdir Hnz).
    + intros k _. apply (rsw_select1_ok PC SIW bv r Hwf Hbv Hdir Hnz).
    + intros k _. apply (rsw_select0_ok PC SIW bv r Hwf Hbv Hdir Hnz).
    + apply (rsw_n_ones_ok bv r Hwf Hbv Hnz).
    + f_equal. apply (rsw_n_zeros_ok bv r Hwf Hnz).
  - intros i _ Hi. rewrite (len_abs bv Hwf) in Hi.
    rewrite (rsw_rank1_unchecked_ok PC bv r Hwf Hbv Hdir Hnz i Hi), (rank1_abs bv i Hwf Hi).
    rewrite (rsw_rank0_unchecked_ok PC bv r Hwf Hbv Hdir Hnz i Hi), (rank0_abs bv i Hwf Hi). split; reflexivity.
  - intros k p H. apply (rsw_select_unchecked_ok PC SIW bv r Hwf Hbv Hdir Hnz true k p H).
  - intros k p H. apply (rsw_select_unchecked_ok PC SIW bv r Hwf Hbv Hdir Hnz false k p H).
Qed.

End RSBin.

(* ------------------------------------------------------------------ a concrete vector *)
(* 1500 bits: multiples of 3, positions = 2 mod 7, and everything after position 1200;
   815 ones, 685 zeros; three 512-bit lines, 24 words *)
Definition ex_bits : list bool :=
  map (fun i => (i mod 3 =? 0) || (i mod 7 =? 2) || (1200 <? i)) (seqN 0 1500).

Example rs_example :
  match bv_from_bools ex_bits with
  | Val bv =>
      bv_nbits bv = 1500 /\ len (bv_words bv) = 24 /\ bv_abs bv = ex_bits /\
      match rsn_new bv, rsw_new bv with
      | Val rn, Val rw =>
          rsn_get rn 3 = Val (Some true) /\ rsw_get rw 4 = Val (Some false) /\ rsw_get rw 1500 = Val None /\
          rsn_rank1 rn 1000 = Val (Some 429) /\ rsw_rank1 rw 1000 = Val (Some 429) /\
          rsn_rank0 rn 1000 = Val (Some 571) /\ rsw_rank0 rw 1000 = Val (Some 571) /\
          rsn_rank1 rn 1500 = Val (Some 815) /\ rsw_rank1 rw 1500 = Val (Some 815) /\
          rsn_rank1 rn 1501 = Val None /\ rsw_rank1 rw 1501 = Val None /\
          rsn_select1 rn 0 = Val (Some 0) /\ rsw_select1 rw 0 = Val (Some 0) /\
          rsn_select1 rn 500 = Val (Some 1167) /\ rsw_select1 rw 500 = Val (Some 1167) /\
          rsn_select1 rn 814 = Val (Some 1499) /\ rsw_select1 rw 814 = Val (Some 1499) /\
          rsn_select1 rn 815 = Val None /\ rsw_select1 rw 815 = Val None /\
          rsn_select0 rn 0 = Val (Some 1) /\ rsw_select0 rw 0 = Val (Some 1) /\
          rsn_select0 rn 400 = Val (Some 701) /\ rsw_select0 rw 400 = Val (Some 701) /\
          rsn_select0 rn 684 = Val (select0_spec ex_bits 684) /\ rsw_select0 rw 684 = Val (select0_spec ex_bits 684) /\
          rsn_select0 rn 685 = Val None /\ rsw_select0 rw 685 = Val None /\
          rsn_n_ones rn = Val 815 /\ rsw_n_ones rw = Val 815 /\
          rsn_n_zeros rn = Val 685 /\ rsw_n_zeros_q rw = 685 /\
          rank1_spec ex_bits 1000 = 429 /\ select1_spec ex_bits 500 = Some 1167 /\ select0_spec ex_bits 400 = Some 701
      | _, _ => False
      end
  | Fault _ => False
  end.
Proof. vm_compute. repeat split; reflexivity. Qed.

Print Assumptions rsn_correct.
Print Assumptions rsw_correct.
