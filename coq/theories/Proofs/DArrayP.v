(* darray (Model/DArrayM.v) against the list specification (Spec/Seq.v): construction never
   faults and select1 / select0 / get / len / counts answer exactly like the specification,
   for every bit vector.  The construction invariant is in Proofs/DArrayB.v. *)
From Coq Require Import ZArith Lia ZifyBool ZifyN ZifyNat.
From QwtModel Require Import ListX Consts Words BitVec RSBin DArrayM Seq ListXP DArrayL DArrayB.
Ltac Zify.zify_post_hook ::= Z.div_mod_to_equations.
Arguments N.add : simpl never.
Arguments N.sub : simpl never.
Arguments N.mul : simpl never.
Arguments N.eqb : simpl never.
Arguments N.ltb : simpl never.
Arguments N.leb : simpl never.
Arguments N.pred : simpl never.
Arguments N.of_nat : simpl never.
Arguments N.to_nat : simpl never.
Arguments N.land : simpl never.
Arguments N.lor : simpl never.
Arguments N.lxor : simpl never.
Arguments N.shiftr : simpl never.
Arguments N.shiftl : simpl never.
Arguments N.div : simpl never.
Arguments N.modulo : simpl never.
Arguments N.pow : simpl never.
Arguments N.testbit : simpl never.
Arguments Z.of_N : simpl never.
Arguments Z.to_N : simpl never.
Arguments Z.sub : simpl never.
Arguments Z.opp : simpl never.
Arguments Z.ltb : simpl never.

Definition bv_wf (b : bitvec) : Prop :=
  len (bv_words b) = 8 * ((bv_nbits b + 511) / 512) /\ Forall (fun w => w < 2 ^ 64) (bv_words b) /\
  (forall j, bv_nbits b <= j -> j < 64 * len (bv_words b) -> nthN (concat (map (bits_of 64) (bv_words b))) j = Some 0) /\
  bv_nbits b < 2 ^ 63.

(* positions of the elements equal to bit, increasing *)
Fixpoint positions_of (bit : bool) (l : list bool) (pos : N) : list N :=
  match l with
  | [] => []
  | x :: r => (if Bool.eqb x bit then [pos] else []) ++ positions_of bit r (pos + 1)
  end.

(* ------------------------------------------------------------------ positions_of and select *)
Lemma N_of_bool_eqb x bit : (N_of_bool x =? N_of_bool bit) = Bool.eqb x bit.
Proof. destruct x, bit; reflexivity. Qed.

Lemma positions_nth bit : forall s pos k,
  nthN (positions_of bit s pos) k = select_from (map N_of_bool s) (N_of_bool bit) k pos.
Proof.
  induction s as [|x s IH]; intros pos k; cbn [positions_of map select_from]; [reflexivity|].
  rewrite N_of_bool_eqb. destruct (Bool.eqb x bit); cbn [app].
  - cbn [nthN]. destruct (k =? 0); [reflexivity|apply IH].
  - apply IH.
Qed.

Lemma positions_len bit : forall s pos,
  len (positions_of bit s pos) = countN (N_of_bool bit) (map N_of_bool s).
Proof.
  induction s as [|x s IH]; intros pos; cbn [positions_of map countN]; [reflexivity|].
  rewrite N_of_bool_eqb, len_app, IH. destruct (Bool.eqb x bit); [rewrite len_cons|]; lens; lia.
Qed.

Lemma count1_countb s : countN 1 (map N_of_bool s) = countb s.
Proof. induction s as [|x s IH]; cbn [map countN countb]; [reflexivity|]. rewrite IH. now destruct x. Qed.
Lemma count0_countb s : countN 0 (map N_of_bool s) + countb s = len s.
Proof.
  induction s as [|x s IH]; cbn [map countN countb]; [reflexivity|]. rewrite len_cons.
  destruct x; cbn [N_of_bool]; [replace (1 =? 0) with false by lia|replace (0 =? 0) with true by lia]; lia.
Qed.

Lemma select1_positions s k : select1_spec s k = nthN (positions_of true s 0) k.
Proof. now rewrite positions_nth. Qed.
Lemma select0_positions s k : select0_spec s k = nthN (positions_of false s 0) k.
Proof. now rewrite positions_nth. Qed.

Lemma positions_mono bit s pos : mono (positions_of bit s pos).
Proof.
  intros a b x y Hab Ha Hb. pose proof Ha as Ha'. pose proof Hb as Hb'.
  rewrite positions_nth in Ha', Hb'.
  apply select_from_inv in Ha'. apply select_from_inv in Hb'.
  destruct Ha' as (Ha1 & _ & Ha3). destruct Hb' as (Hb1 & _ & Hb3).
  destruct (N.le_gt_cases x y) as [H|H]; [exact H|]. exfalso.
  pose proof (countN_firstnN_mono (N_of_bool bit) (map N_of_bool s) (y - pos) (x - pos)) as Hm.
  assert (Eab : a = b) by lia. rewrite Eab in Ha. rewrite Ha in Hb. injection Hb as Hxy. lia.
Qed.

(* ------------------------------------------------------------------ the bits of a bit vector *)
Definition BB (bv : bitvec) : list N := concat (map (bits_of 64) (bv_words bv)).
Definition wfor (bit : bool) (w : N) : N := if bit then w else notw w.
Definition fc (bit : bool) (x : N) : N := if x =? N_of_bool bit then 1 else 0.
(* the bits that select scans: the words themselves for ones, the complemented words for zeros *)
Definition EB (bit : bool) (bv : bitvec) : list N :=
  concat (map (bits_of 64) (map (wfor bit) (bv_words bv))).

Lemma bits_of_01 n w : Forall (fun x => x < 2) (bits_of n w).
Proof.
  unfold bits_of. apply Forall_forall. intros x Hx. apply in_map_iff in Hx.
  destruct Hx as (i & <- & _). destruct (N.testbit w i); cbn [N.b2n]; lia.
Qed.
Lemma BB_01 bv : Forall (fun x => x < 2) (BB bv).
Proof.
  unfold BB. apply Forall_concat. apply Forall_forall. intros l Hl. apply in_map_iff in Hl.
  destruct Hl as (w & <- & _). apply bits_of_01.
Qed.
Lemma Forall_firstnN {A} (Q : A -> Prop) (l : list A) : Forall Q l -> forall a, Forall Q (firstnN a l).
Proof.
  induction 1 as [|x l Hx HF IH]; intros a; cbn [firstnN]; [constructor|].
  destruct (a =? 0); constructor; auto.
Qed.
Lemma map_01_id l : Forall (fun x => x < 2) l -> map N_of_bool (map (fun x => x =? 1) l) = l.
Proof.
  induction 1 as [|x l Hx HF IH]; cbn [map]; [reflexivity|]. rewrite IH. f_equal.
  assert (x = 0 \/ x = 1) as [->| ->] by lia; reflexivity.
Qed.
Lemma abs_bits bv : map N_of_bool (bv_abs bv) = firstnN (bv_nbits bv) (BB bv).
Proof. unfold bv_abs. fold (BB bv). apply map_01_id. apply Forall_firstnN. apply BB_01. Qed.

Lemma bits_lines_len (ws : list N) : Forall (fun l => len l = 64) (map (bits_of 64) ws).
Proof.
  apply Forall_forall. intros l Hl. apply in_map_iff in Hl. destruct Hl as (w & <- & _).
  rewrite len_bits_of. reflexivity.
Qed.
Lemma len_BB bv : len (BB bv) = 64 * len (bv_words bv).
Proof. unfold BB. rewrite (len_concat_uniform 64) by apply bits_lines_len. now rewrite len_map. Qed.
Lemma len_EB bit bv : len (EB bit bv) = 64 * len (bv_words bv).
Proof. unfold EB. rewrite (len_concat_uniform 64) by apply bits_lines_len. now rewrite !len_map. Qed.

Lemma abs_len bv : bv_wf bv -> len (bv_abs bv) = bv_nbits bv.
Proof.
  intros (Hl & _). unfold bv_abs. fold (BB bv). rewrite len_map, firstnN_len, len_BB. lia.
Qed.

Lemma bits_of_wfor bit w : bits_of 64 (wfor bit w) = map (fc bit) (bits_of 64 w).
Proof.
  unfold bits_of. rewrite map_map. apply map_ext_in. intros i Hi. apply seqN_In in Hi.
  destruct bit; unfold wfor, fc; cbn [N_of_bool].
  - destruct (N.testbit w i); reflexivity.
  - unfold notw. change (M64 - 1) with (N.ones 64). rewrite N.lxor_spec, N.ones_spec_low by lia.
    destruct (N.testbit w i); reflexivity.
Qed.
Lemma EB_map bit bv : EB bit bv = map (fc bit) (BB bv).
Proof.
  unfold EB, BB. rewrite concat_map, !map_map. f_equal. apply map_ext. intros w. apply bits_of_wfor.
Qed.
Lemma countN_fc bit l : countN 1 (map (fc bit) l) = countN (N_of_bool bit) l.
Proof.
  induction l as [|x l IH]; cbn [map countN]; [reflexivity|]. rewrite IH. f_equal.
  unfold fc. destruct (x =? N_of_bool bit); reflexivity.
Qed.

Lemma wfor_lt bit w : w < 2 ^ 64 -> wfor bit w < 2 ^ 64.
Proof.
  intros H. destruct bit; [exact H|]. unfold wfor, notw. apply testbit_lt_pow2. intros m Hm.
  change (M64 - 1) with (N.ones 64).
  rewrite N.lxor_spec, (lt_pow2_testbit w 64 m H Hm), N.ones_spec_high by exact Hm. reflexivity.
Qed.

(* occurrence number k of [bit] is at position p: what it means on the scanned bits *)
Lemma positions_EB bit bv k p :
  nthN (positions_of bit (bv_abs bv) 0) k = Some p ->
  p < bv_nbits bv /\ nthN (EB bit bv) p = Some 1 /\ countN 1 (firstnN p (EB bit bv)) = k.
Proof.
  intros H. rewrite positions_nth, abs_bits in H. apply select_from_inv in H.
  rewrite N.sub_0_r in H. destruct H as (_ & H2 & H3).
  rewrite nthN_firstnN in H2. destruct (N.ltb_spec p (bv_nbits bv)) as [Hp|Hp]; [|discriminate].
  rewrite firstnN_firstnN in H3 by lia.
  rewrite EB_map, nthN_map, H2, firstnN_map, countN_fc. cbn [option_map].
  unfold fc. rewrite N.eqb_refl. auto.
Qed.

(* the first word of the scan: bits below the start position are cleared *)
Lemma bits_mask e sh : sh < 64 ->
  bits_of 64 (N.land e (N.shiftl (M64 - 1) sh mod M64)) =
  repeat 0 (N.to_nat sh) ++ skipnN sh (bits_of 64 e).
Proof.
  intros Hsh. apply nthN_ext. intros x.
  rewrite nthN_app, len_repeat, Nnat.N2Nat.id, nthN_repeat_full, Nnat.N2Nat.id, nthN_skipnN.
  destruct (N.ltb_spec x 64) as [Hx|Hx].
  - rewrite nthN_bits_of by lia. rewrite N.land_spec. unfold M64. rewrite N.mod_pow2_bits_low by exact Hx.
    change (2 ^ 64 - 1) with (N.ones 64).
    destruct (N.ltb_spec x sh) as [Hlt|Hge].
    + rewrite N.shiftl_spec_low by exact Hlt. now rewrite andb_false_r.
    + rewrite N.shiftl_spec_high' by exact Hge. rewrite N.ones_spec_low by lia. rewrite andb_true_r.
      replace (sh + (x - sh)) with x by lia. rewrite nthN_bits_of by lia. reflexivity.
  - rewrite nthN_none by (rewrite len_bits_of; lia).
    replace (x <? sh) with false by lia. symmetry. apply nthN_none. rewrite len_bits_of. lia.
Qed.

Section DArray.

Hypothesis select_in_word_correct : forall w k, w < 2 ^ 64 -> k < 128 ->
  select_in_word w k = Val (match select_spec (bits_of 64 w) 1 k with Some p => p | None => 64 end).
Hypothesis popcount_correct : forall n x, x < 2 ^ N.of_nat n -> popcount x = countN 1 (bits_of n x).
Hypothesis pi_collect_new_correct : forall bit b fuel, bv_wf b -> bv_nbits b < N.of_nat fuel ->
  pi_collect bit b pi_new fuel = positions_of bit (bv_abs b) 0.
Hypothesis bv_get_correct : forall b i, bv_wf b -> bv_get b i = Val (nthN (bv_abs b) i).
Hypothesis bv_from_bools_wf : forall bs, len bs < 2 ^ 63 ->
  exists b, bv_from_bools bs = Val b /\ bv_wf b /\ bv_abs b = bs.

(* ------------------------------------------------------------------ the word scan *)
(* q = position of the wanted occurrence, i = its number; (word, rem, j) = scan state, m = number
   of low bits of word j that have been cleared (non-zero only for the first word) *)
Lemma da_scan_ok bit bv q i :
  Forall (fun w => w < 2 ^ 64) (bv_words bv) ->
  nthN (EB bit bv) q = Some 1 -> countN 1 (firstnN q (EB bit bv)) = i ->
  forall fuel word rem j m w,
    nthN (bv_words bv) j = Some w ->
    bits_of 64 word = repeat 0 (N.to_nat m) ++ skipnN m (bits_of 64 (wfor bit w)) ->
    word < 2 ^ 64 -> m <= 64 ->
    rem + countN 1 (firstnN (64 * j + m) (EB bit bv)) = i ->
    64 * j + m <= q -> len (bv_words bv) < j + N.of_nat fuel ->
    exists word' rem' j', da_scan bit bv word rem j fuel = Val (word', rem', j') /\
      word' < 2 ^ 64 /\ rem' <= rem /\ 64 * j' <= q /\
      select_spec (bits_of 64 word') 1 rem' = Some (q - 64 * j').
Proof.
  intros HW Hq Hi. set (E := EB bit bv) in *.
  assert (Hqlt : q < 64 * len (bv_words bv)).
  { rewrite <- (len_EB bit bv). eapply nthN_some_lt. exact Hq. }
  induction fuel as [|f IH]; intros word rem j m w Hw Hbits Hword Hm Hrem Hjq Hfuel.
  { apply nthN_some_lt in Hw. lia. }
  cbn [da_scan].
  set (be := bits_of 64 (wfor bit w)) in *.
  assert (Hchunk : firstnN 64 (skipnN (64 * j) E) = be).
  { apply concat_chunk; [lia|apply bits_lines_len|]. rewrite !nthN_map, Hw. reflexivity. }
  assert (Hsk : skipnN m be = firstnN (64 - m) (skipnN (64 * j + m) E)).
  { rewrite <- Hchunk. replace 64 with (m + (64 - m)) at 1 by lia.
    rewrite skipnN_firstnN, <- skipnN_add. reflexivity. }
  assert (Hpop : popcount word = countN 1 (skipnN m be)).
  { rewrite (popcount_correct 64%nat word) by exact Hword.
    rewrite Hbits, countN_app, countN_repeat0. lia. }
  assert (Hcnt : countN 1 (firstnN (64 * j + 64) E) =
                 countN 1 (firstnN (64 * j + m) E) + countN 1 (skipnN m be)).
  { replace (64 * j + 64) with ((64 * j + m) + (64 - m)) by lia.
    rewrite countN_firstnN_add, Hsk. reflexivity. }
  destruct (N.ltb_spec rem (popcount word)) as [Hfound|Hnot].
  - (* the wanted occurrence is in this word *)
    exists word, rem, j. split; [reflexivity|].
    assert (Hqj : q < 64 * j + 64).
    { destruct (N.lt_ge_cases q (64 * j + 64)) as [H|H]; [exact H|].
      pose proof (countN_firstnN_mono 1 E _ _ H). lia. }
    set (x := q - 64 * j).
    split; [exact Hword|]. split; [lia|]. split; [lia|].
    unfold select_spec. rewrite (select_from_hit _ 1 x rem 0); [f_equal; lia| |].
    + rewrite Hbits, nthN_app, len_repeat, Nnat.N2Nat.id.
      replace (x <? m) with false by lia. rewrite nthN_skipnN.
      replace (m + (x - m)) with x by lia. unfold be. fold be. rewrite <- Hchunk.
      rewrite nthN_firstnN. replace (x <? 64) with true by lia. rewrite nthN_skipnN.
      replace (64 * j + x) with q by lia. exact Hq.
    + rewrite Hbits, firstnN_app_ge by (rewrite len_repeat; lia).
      rewrite countN_app, countN_repeat0, len_repeat, Nnat.N2Nat.id, Hsk.
      rewrite firstnN_firstnN by lia.
      assert (Hc : countN 1 (firstnN q E) =
                   countN 1 (firstnN (64 * j + m) E) + countN 1 (firstnN (x - m) (skipnN (64 * j + m) E))).
      { replace q with ((64 * j + m) + (x - m)) at 1 by lia. apply countN_firstnN_add. }
      lia.
  - (* it is further on *)
    assert (Hqj : 64 * j + 64 <= q).
    { destruct (N.lt_ge_cases q (64 * j + 64)) as [H|H]; [|exact H].
      assert (H' : q + 1 <= 64 * j + 64) by lia.
      pose proof (countN_firstnN_mono 1 E _ _ H') as Hmono.
      rewrite (countN_firstnN_hit 1 E q Hq) in Hmono. lia. }
    destruct (nthN_lt_some (bv_words bv) (j + 1)) as (w' & Hw'); [lia|].
    unfold bv_get_word, idx. rewrite Hw'. cbn [bind].
    change (if bit then w' else notw w') with (wfor bit w').
    assert (Hw'lt : w' < 2 ^ 64).
    { rewrite Forall_forall in HW. apply HW. rewrite nthN_nth_error in Hw'.
      eapply nth_error_In. exact Hw'. }
    destruct (IH (wfor bit w') (rem - popcount word) (j + 1) 0 w') as (word' & rem' & j' & E1 & H1 & H2 & H3 & H4).
    + exact Hw'.
    + change (N.to_nat 0) with 0%nat. cbn [repeat app]. now rewrite skipnN_0.
    + apply wfor_lt. exact Hw'lt.
    + lia.
    + replace (64 * (j + 1) + 0) with (64 * j + 64) by lia. lia.
    + lia.
    + lia.
    + exists word', rem', j'. split; [exact E1|]. split; [exact H1|]. split; [lia|]. split; [exact H3|exact H4].
Qed.

(* ------------------------------------------------------------------ select *)
Lemma da_select_ok bit bv inv :
  bv_wf bv ->
  inv_n_sets inv = len (positions_of bit (bv_abs bv) 0) ->
  (forall i, i < len (positions_of bit (bv_abs bv) 0) ->
     sel_ok (positions_of bit (bv_abs bv) 0) (inv_block inv) (inv_sub inv) (inv_overflow inv) i) ->
  forall i, da_select bit bv inv i = Val (nthN (positions_of bit (bv_abs bv) 0) i).
Proof.
  intros Hwf Hn Hsel i. set (P := positions_of bit (bv_abs bv) 0) in *.
  unfold da_select. rewrite Hn.
  destruct (N.leb_spec (len P) i) as [Hge|Hlt].
  { now rewrite nthN_none. }
  rewrite DA_BLOCK_val, DA_SUBBLOCK_val.
  change (1024 - 1) with (N.ones 10). change (32 - 1) with (N.ones 5). rewrite !N.land_ones.
  change (2 ^ 10) with 1024. change (2 ^ 5) with 32.
  destruct (Hsel i Hlt) as [(o & p & H1 & H2 & H3)|(first & sb & p & H1 & H2 & H3 & H4)];
    rewrite H1; cbn [bind].
  - (* sparse block *)
    replace (- Z.of_N o - 1 <? 0)%Z with true by lia.
    replace (Z.to_N (- (- Z.of_N o - 1) - 1)) with o by lia.
    unfold idx. rewrite H3. cbn [bind]. now rewrite H2.
  - (* dense block *)
    replace (Z.of_N first <? 0)%Z with false by lia. rewrite N2Z.id.
    unfold idx at 1. rewrite H2. cbn [bind]. rewrite H4.
    destruct (N.eqb_spec (i mod 32) 0) as [Hz|Hnz].
    { replace (nthN P i) with (nthN P (32 * (i / 32))) by (f_equal; lia). now rewrite H3. }
    destruct (nthN_lt_some P i Hlt) as (q & Hq). rewrite Hq.
    destruct (positions_EB bit bv _ _ H3) as (Hpn & Hp1 & Hp2).
    destruct (positions_EB bit bv _ _ Hq) as (Hqn & Hq1 & Hq2).
    destruct Hwf as (Hlen & HW & _ & _).
    assert (Hpq : p < q).
    { destruct (N.lt_ge_cases p q) as [H|H]; [exact H|].
      pose proof (countN_firstnN_mono 1 (EB bit bv) _ _ H). lia. }
    rewrite N.shiftr_div_pow2. change (2 ^ 6) with 64.
    change 63 with (N.ones 6). rewrite N.land_ones. change (2 ^ 6) with 64.
    destruct (nthN_lt_some (bv_words bv) (p / 64)) as (w & Hw); [lia|].
    unfold bv_get_word at 1. unfold idx at 1. rewrite Hw. cbn [bind].
    change (if bit then w else notw w) with (wfor bit w).
    assert (Hwlt : w < 2 ^ 64).
    { rewrite Forall_forall in HW. apply HW. rewrite nthN_nth_error in Hw.
      eapply nth_error_In. exact Hw. }
    set (word := N.land (wfor bit w) (N.shiftl (M64 - 1) (p mod 64) mod M64)).
    destruct (da_scan_ok bit bv q i HW Hq1 Hq2 (S (length (bv_words bv))) word (i mod 32) (p / 64) (p mod 64) w)
      as (word' & rem' & j' & E1 & H5 & H6 & H7 & H8).
    + exact Hw.
    + apply bits_mask. lia.
    + apply land_lt_pow2. apply N.mod_lt. discriminate.
    + lia.
    + replace (64 * (p / 64) + p mod 64) with p by lia. lia.
    + lia.
    + unfold len. lia.
    + rewrite E1. cbn [bind]. rewrite select_in_word_correct by lia. rewrite H8. cbn [bind].
      rewrite N.shiftl_mul_pow2. change (2 ^ 6) with 64. do 2 f_equal. lia.
Qed.

Lemma inv_new_ok bit bv : bv_wf bv ->
  exists inv, inv_new bit bv = Val inv /\
    inv_n_sets inv = len (positions_of bit (bv_abs bv) 0) /\
    forall i, da_select bit bv inv i = Val (nthN (positions_of bit (bv_abs bv) 0) i).
Proof.
  intros Hwf. unfold inv_new. cbv zeta.
  rewrite pi_collect_new_correct by (try exact Hwf; lia).
  destruct (inv_build _ (positions_mono bit (bv_abs bv) 0)) as (blk & sub & ovf & E & Hsel).
  rewrite E. eexists. split; [reflexivity|]. split; [reflexivity|].
  apply da_select_ok; [exact Hwf|reflexivity|exact Hsel].
Qed.

(* ------------------------------------------------------------------ the statements *)
Definition da_spec (s0 : bool) (d : darray) (s : list bool) : Prop :=
  da_len d = len s /\ da_count_ones d = countb s /\ da_count_zeros d = Val (len s - countb s) /\
  (forall i, da_get d i = Val (nthN s i)) /\
  (forall k, da_select1 d k = Val (select1_spec s k)) /\
  (s0 = true -> forall k, da_select0 true d k = Val (select0_spec s k)) /\
  (* documented panic: select0 without select0 support *)
  (s0 = false -> forall k, da_select0 false d k = Fault Panic).

Theorem da_new_correct : forall s0 bv, bv_wf bv ->
  exists d, da_new s0 bv = Val d /\ da_bv d = bv /\ da_spec s0 d (bv_abs bv).
Proof.
  intros s0 bv Hwf.
  destruct (inv_new_ok true bv Hwf) as (ones & E1 & Hn1 & Hs1).
  assert (Hz : exists zeros, (if s0 then let! z := inv_new false bv in Val (Some z) else Val None) = Val zeros /\
                 (s0 = true -> exists z, zeros = Some z /\
                    forall i, da_select false bv z i = Val (nthN (positions_of false (bv_abs bv) 0) i))).
  { destruct s0.
    - destruct (inv_new_ok false bv Hwf) as (z & E0 & _ & Hs0). rewrite E0. cbn [bind].
      eexists. split; [reflexivity|]. intros _. eauto.
    - eexists. split; [reflexivity|]. discriminate. }
  destruct Hz as (zeros & Ez & Hzs).
  unfold da_new. rewrite E1. cbn [bind]. rewrite Ez. cbn [bind].
  eexists. split; [reflexivity|]. split; [reflexivity|].
  pose proof (abs_len bv Hwf) as Hlen.
  pose proof (countb_le_len (bv_abs bv)) as Hcl.
  unfold da_spec, da_len, da_count_ones, da_count_zeros, da_get, da_select1, da_select0, bv_len.
  cbn [da_bv da_ones da_zeros]. rewrite Hn1, positions_len, count1_countb. cbn [N_of_bool].
  split; [now rewrite Hlen|]. split; [reflexivity|]. split.
  { unfold osub. rewrite <- Hlen. replace (countb (bv_abs bv) <=? len (bv_abs bv)) with true by lia. reflexivity. }
  split; [intros i; now apply bv_get_correct|].
  split; [intros k; now rewrite Hs1, select1_positions|].
  split.
  - intros Hs k. destruct (Hzs Hs) as (z & -> & Hs0). cbn [oassert bind ounwrap].
    now rewrite Hs0, select0_positions.
  - intros _ k. reflexivity.
Qed.

Theorem da_from_bools_correct : forall s0 bs, len bs < 2 ^ 63 ->
  exists d, da_from_bools s0 bs = Val d /\ da_spec s0 d bs.
Proof.
  intros s0 bs Hl. destruct (bv_from_bools_wf bs Hl) as (bv & E & Hwf & Habs).
  destruct (da_new_correct s0 bv Hwf) as (d & Ed & _ & Hspec).
  exists d. unfold da_from_bools. rewrite E. cbn [bind]. rewrite <- Habs. auto.
Qed.

(* position-list constructor: documented panic iff the list is not strictly increasing *)
Theorem da_from_positions_panics : forall s0 ps,
  strictly_increasing ps = false -> da_from_positions s0 ps = Fault Panic.
Proof. intros s0 ps H. unfold da_from_positions. rewrite H. reflexivity. Qed.

End DArray.

(* ------------------------------------------------------------------ non-vacuity, by evaluation *)
Definition opt_eqb (a b : option N) : bool :=
  match a, b with Some x, Some y => x =? y | None, None => true | _, _ => false end.
Definition out_is (a : outcome (option N)) (b : option N) : bool :=
  match a with Val x => opt_eqb x b | Fault _ => false end.
Fixpoint sample_bits (n : nat) (x : N) : list bool :=
  match n with O => [] | S m => N.testbit (x * x + 7 * x) 3 :: sample_bits m (x + 1) end.

(* 138 bits, 70 ones: every select1 / select0 query (including the out-of-range ones) agrees *)
Example da_example :
  let bs := sample_bits 138 0 in
  countb bs = 70 /\
  match da_from_bools true bs with
  | Val d =>
      da_len d = 138 /\ da_count_ones d = 70 /\ da_count_zeros d = Val 68 /\
      forallb (fun k => out_is (da_select1 d k) (select1_spec bs k) &&
                        out_is (da_select0 true d k) (select0_spec bs k)) (seqN 0 140) = true
  | Fault _ => False
  end.
Proof. vm_compute. repeat split; reflexivity. Qed.

(* a sparse block (two ones 66560 bits apart, then two more), on a word vector given directly *)
Example da_example_sparse :
  let bv := mk_bv ([1] ++ repeat 0 1039 ++ [2 ^ 63 + 5] ++ repeat 0 7) (64 * 1041) 4 in
  match da_new true bv with
  | Val d =>
      inv_block (da_ones d) = [(-1)%Z] /\ inv_overflow (da_ones d) = [0; 66560; 66562; 66623] /\
      map (da_select1 d) [0; 1; 2; 3; 4] =
        [Val (Some 0); Val (Some 66560); Val (Some 66562); Val (Some 66623); Val None] /\
      map (da_select0 true d) [0; 1; 31; 32; 1023; 1024; 1025; 66619; 66620] =
        [Val (Some 1); Val (Some 2); Val (Some 32); Val (Some 33); Val (Some 1024); Val (Some 1025);
         Val (Some 1026); Val (Some 66622); Val None]
  | Fault _ => False
  end.
Proof. vm_compute. repeat split; reflexivity. Qed.

Print Assumptions da_new_correct.
Print Assumptions da_from_bools_correct.
Print Assumptions da_from_positions_panics.
