(* Wrap-up statements tying existing results together:
   1. (C12) the iterator over the binary wavelet trees (plain and Huffman-shaped), and over freshly
      built trees of every family;
   2. (C03) the end-to-end binary Huffman constructor hwt_new = craft2 then wt_build;
   3. (C14) tree-level bound on the retained heap bytes of the binary trees;
   4. (C16) reported space of the Huffman-shaped trees (quad and binary) vs retained heap bytes of
      their levels. *)
From Coq Require Import ZArith Lia ZifyBool ZifyN ZifyNat Sorted.
From QwtModel Require Import ListX Seq Consts QVec RSQ QWT BitVec RSBin Huff Iter Space.
From QwtModel Require Import ListXP WordsP QVecP RSQBits RSQList RSQBuild BitVecP RSBinB.
From QwtModel Require Import Codes CraftP HQWTNewP IterP SpaceP BinWTBase BinWTP.
From QwtModel Require HQWTP QWTP.
Ltac Zify.zify_post_hook ::= Z.div_mod_to_equations.
Arguments N.add : simpl never.
Arguments N.sub : simpl never.
Arguments N.mul : simpl never.
Arguments N.eqb : simpl never.
Arguments N.ltb : simpl never.
Arguments N.leb : simpl never.
Arguments N.pred : simpl never.
Arguments N.of_nat : simpl never.
Arguments N.land : simpl never.
Arguments N.lor : simpl never.
Arguments N.shiftr : simpl never.
Arguments N.shiftl : simpl never.
Arguments N.div : simpl never.
Arguments N.modulo : simpl never.
Arguments N.pow : simpl never.
Arguments N.sqrt : simpl never.
Arguments N.log2 : simpl never.
Arguments N.max : simpl never.

Lemma maxn_lt_264 n : n < RSQ_MAXN -> n < 2 ^ 64.
Proof. rewrite RSQ_MAXN_val. change (2 ^ 64) with 18446744073709551616. lia. Qed.

(* ================================================================== 2. (C03) hwt_new *)
(* f lists exactly the distinct symbols of seq with their code lengths (in bits), in the order the
   builder sorted them; binary fragments *)
Definition lengths_for2 (seq : list N) (f : list (N * N)) : Prop :=
  (forall x, In x seq <-> In x (map fst f)) /\ craft_input_ok 1 f (maxN seq).

Lemma sym_index_small x : x < 2 ^ 64 - 1 -> sym_index x = x.
Proof.
  intros H. unfold sym_index. apply N.mod_small. change (2 ^ 64) with 18446744073709551616 in *. lia.
Qed.

Theorem craft2_table_ok_seq : forall seq f tab, seq <> [] -> maxN seq < 2 ^ 64 - 1 -> lengths_for2 seq f ->
  craft2 f (sym_index (maxN seq)) = Val tab -> table_ok2 seq tab.
Proof.
  intros seq f tab Hne Hmax (Hin & Hi) H. unfold craft2 in H.
  rewrite (sym_index_small _ Hmax) in H.
  destruct (craft_table_ok 1 f (maxN seq) _ tab Hi H) as (T1 & T2 & T3 & T4).
  unfold table_ok2. split; [|split; [|split; [|split]]].
  - rewrite T1. change (2 ^ 64) with 18446744073709551616 in *. lia.
  - intros x Hx. apply Hin in Hx. apply in_map_iff in Hx as ([s l] & <- & Hp). cbn [fst].
    destruct (T2 s l Hp) as (c & Hc & _ & Hw). exists c. split; assumption.
  - intros x c Hc Hl.
    destruct (in_dec N.eq_dec x (map fst f)) as [Hxin|Hxout]; [now apply Hin|].
    exfalso. apply nthN_some_lt in Hc as Hlt. rewrite T1 in Hlt.
    rewrite (T3 x Hxout ltac:(lia)) in Hc. injection Hc as <-. apply Hl. reflexivity.
  - intros syms Hsub. unfold code_wm_ok in *.
    apply (HQWTP.wm_ok_sub _ _ _ (map fst f) syms T4). intros x Hx. apply Hin, Hsub, Hx.
  - intros x y c Hx Hy Ex Ey.
    apply (craft_codes_distinct 1 f (maxN seq) _ tab Hi H x y c); try assumption; now apply Hin.
Qed.

Theorem hwt_new_correct : forall w seq f, width_ok w -> Forall (fun x => x < 2 ^ w) seq ->
  len seq < RSQ_MAXN -> seq <> [] -> maxN seq < 2 ^ 64 - 1 -> lengths_for2 seq f ->
  forall tab, craft2 f (sym_index (maxN seq)) = Val tab ->   (* the builder did not fault: see hwt_new_total *)
  exists t, hwt_new w seq f = Val t /\ hwt_spec w t seq.
Proof.
  intros w seq f Hw HF Hn Hne Hmax Hlf tab Hc.
  pose proof (craft2_table_ok_seq seq f tab Hne Hmax Hlf Hc) as HT.
  destruct (hwt_build_correct select_in_word_correct popcount_correct w seq tab Hw HF Hn Hne HT) as (t & E & HS).
  exists t. split; [|exact HS].
  unfold hwt_new. destruct seq as [|x0 seq']; [congruence|]. rewrite Hc. cbn [bind]. exact E.
Qed.

(* with the explicit sufficient condition for the code builder to return (CraftP.craft_total);
   the scratch array of the binary builder has max(alphabet size, 2) entries *)
Corollary hwt_new_total : forall w seq f, width_ok w -> Forall (fun x => x < 2 ^ w) seq ->
  len seq < RSQ_MAXN -> seq <> [] -> maxN seq < 2 ^ 64 - 1 ->
  lengths_for2 seq f -> Forall (fun p => snd p <= 32) f -> craft_fits 1 f (N.max (len f) 2) = true ->
  exists t, hwt_new w seq f = Val t /\ hwt_spec w t seq.
Proof.
  intros w seq f Hw HF Hn Hne Hmax Hlf H32 Hfit.
  destruct (craft_total 1 f (maxN seq) (N.max (len f) 2) (proj2 Hlf) H32 Hfit) as (tab & Ht).
  apply (hwt_new_correct w seq f Hw HF Hn Hne Hmax Hlf tab).
  unfold craft2. rewrite (sym_index_small _ Hmax). exact Ht.
Qed.

(* the empty sequence (hwt_new does not call the code builder) *)
Theorem hwt_new_nil : forall w f, exists t, hwt_new w [] f = Val t /\ hwt_spec w t [].
Proof. intros w f. exact (hwt_build_nil w []). Qed.

(* ================================================================== 1. (C12) iterators *)
Theorem wt_iter_correct : forall w t seq, wt_spec w t seq -> len seq < 2 ^ 64 ->
  forall h, wtit_run (wt_get_unchecked w false t) (wtit_new (w_n t)) h = Val (deque_run seq h).
Proof.
  intros w t seq HS Hl h.
  destruct HS as (El & _ & _ & _ & _ & Hgu & _).
  rewrite El. now apply wtit_run_correct.
Qed.

Theorem hwt_iter_correct : forall w t seq, hwt_spec w t seq -> len seq < 2 ^ 64 ->
  forall h, wtit_run (wt_get_unchecked w true t) (wtit_new (w_n t)) h = Val (deque_run seq h).
Proof.
  intros w t seq HS Hl h.
  destruct HS as (El & _ & _ & _ & Hgu & _).
  rewrite El. now apply wtit_run_correct.
Qed.

(* from the constructors: iterating a freshly built tree *)
Corollary wt_new_iter : forall w seq, width_ok w -> Forall (fun x => x < 2 ^ w) seq -> len seq < RSQ_MAXN ->
  exists t, wt_build w false seq [] = Val t /\
    forall h, wtit_run (wt_get_unchecked w false t) (wtit_new (w_n t)) h = Val (deque_run seq h).
Proof.
  intros w seq Hw HF Hn.
  destruct (wt_build_correct select_in_word_correct popcount_correct w seq Hw HF Hn) as (t & E & HS).
  exists t. split; [exact E|]. apply (wt_iter_correct w t seq HS). now apply maxn_lt_264.
Qed.

Corollary hwt_build_iter : forall w seq tab, width_ok w -> Forall (fun x => x < 2 ^ w) seq ->
  len seq < RSQ_MAXN -> seq <> [] -> table_ok2 seq tab ->
  exists t, wt_build w true seq tab = Val t /\
    forall h, wtit_run (wt_get_unchecked w true t) (wtit_new (w_n t)) h = Val (deque_run seq h).
Proof.
  intros w seq tab Hw HF Hn Hne HT.
  destruct (hwt_build_correct select_in_word_correct popcount_correct w seq tab Hw HF Hn Hne HT) as (t & E & HS).
  exists t. split; [exact E|]. apply (hwt_iter_correct w t seq HS). now apply maxn_lt_264.
Qed.

Corollary hwt_new_iter : forall w seq f, width_ok w -> Forall (fun x => x < 2 ^ w) seq ->
  len seq < RSQ_MAXN -> seq <> [] -> maxN seq < 2 ^ 64 - 1 -> lengths_for2 seq f ->
  forall tab, craft2 f (sym_index (maxN seq)) = Val tab ->
  exists t, hwt_new w seq f = Val t /\
    forall h, wtit_run (wt_get_unchecked w true t) (wtit_new (w_n t)) h = Val (deque_run seq h).
Proof.
  intros w seq f Hw HF Hn Hne Hmax Hlf tab Hc.
  destruct (hwt_new_correct w seq f Hw HF Hn Hne Hmax Hlf tab Hc) as (t & E & HS).
  exists t. split; [exact E|]. apply (hwt_iter_correct w t seq HS). now apply maxn_lt_264.
Qed.

Corollary hq_new_iter : forall w bsize seq f, HQWTP.width_ok w -> (bsize = 256 \/ bsize = 512) ->
  Forall (fun x => x < 2 ^ w) seq -> len seq < RSQ_MAXN -> seq <> [] -> maxN seq < 2 ^ 64 - 1 ->
  lengths_for seq f ->
  forall tab, craft4 f (sym_index (maxN seq)) = Val tab ->
  exists t, hq_new bsize seq f = Val t /\
    forall h, wtit_run (hq_get_unchecked w bsize t) (wtit_new (hq_len t)) h = Val (deque_run seq h).
Proof.
  intros w bsize seq f Hw Hb HF Hn Hne Hmax Hlf tab Hc.
  destruct (hq_new_correct w bsize seq f Hw Hb HF Hn Hne Hmax Hlf tab Hc) as (t & E & HS).
  exists t. split; [exact E|]. apply (hq_iter_correct w bsize t seq HS). now apply maxn_lt_264.
Qed.

(* ================================================================== 4. (C16) Huffman-shaped trees *)
(* heap bytes retained by the levels of the Huffman quad tree: the boxed slice of RSQVectors, what
   each of them keeps alive, and the vector of level lengths *)
Definition hq_heap_levels (t : hqwt) : N :=
  sz_rsq abi64 * len (h_qvs t) + sumN (map rsq_heap (h_qvs t)) + 8 * len (h_lens t).

(* reported = retained by the levels + 16 (n, n_levels) + what the code reports for the code table
   (256 * 8) and for the decode tables (5 bytes per entry) *)
Theorem hq_space_heap : forall t, Forall (fun r => len (rs_samples (rsq_rs r)) = 4) (h_qvs t) ->
  hq_space t None = hq_heap_levels t + 16 + 256 * 8 + sumN (map (fun v => len v * 5) (h_decode t)).
Proof.
  intros t HF. unfold hq_space, hq_heap_levels. cbn [sz_rsq abi64].
  rewrite (sumN_map_add_Forall _ rsq_space rsq_heap 144 _ rsq_space_heap HF). lia.
Qed.

Lemma sum_rsw_space l : sumN (map rsw_space l) = sumN (map rsw_heap l) + 80 * len l.
Proof.
  apply sumN_map_add. intros r. pose proof (rsw_space_heap r). lia.
Qed.

(* binary trees, both flavours: per level the code does not report n_zeros (8 of the 88 inline
   bytes of an RSWide); the compressed one adds the code table (256 * 8) and 5 bytes per decode
   TABLE *)
Theorem wt_space_heap_gen : forall compressed t,
  wt_space compressed t + 8 * len (w_bvs t) =
  wt_heap_plain abi64 t + 16 +
  (if compressed then 256 * 8 + match w_decode t with Some d => len d * 5 | None => 0 end else 0).
Proof.
  intros compressed t. unfold wt_space, wt_heap_plain. cbn [sz_rsw abi64].
  rewrite sum_rsw_space. destruct compressed; lia.
Qed.

Theorem hwt_space_heap : forall t,
  wt_space true t + 8 * len (w_bvs t) =
  wt_heap_plain abi64 t + 16 + 256 * 8 + match w_decode t with Some d => len d * 5 | None => 0 end.
Proof. intros t. rewrite (wt_space_heap_gen true t). lia. Qed.

(* ================================================================== 3. (C14) the binary trees *)
(* ---------------------------------------------------------------- list facts *)
Lemma mapo_len {A B} (f : A -> outcome B) : forall l l', mapo f l = Val l' -> len l' = len l.
Proof.
  induction l as [|x l IH]; intros l' E; cbn [mapo] in E.
  - injection E as <-. reflexivity.
  - dbind E. dbind E. injection E as <-. rewrite !len_cons, (IH _ eq_refl). reflexivity.
Qed.

Lemma flat_opt_len {B} (l : list (option B)) :
  len (flat_map (fun o => match o with Some d => [d] | None => [] end) l) <= len l.
Proof.
  induction l as [|o l IH]; cbn [flat_map]; [lens; lia|]. destruct o; cbv iota; lens; lia.
Qed.

Lemma len_combine_le {A B} (a : list A) (b : list B) : len (combine a b) <= len b.
Proof. unfold len. rewrite combine_length. lia. Qed.

Lemma len_filter_le {A} (p : A -> bool) l : len (filter p l) <= len l.
Proof. induction l as [|x l IH]; cbn [filter]; [lens; lia|]. destruct (p x); lens; lia. Qed.

(* buckets 0..4 of a tagged list are pairwise disjoint *)
Lemma pick5_len {A} (l : list (N * A)) :
  len (filter (fun p => fst p =? 0) l) + len (filter (fun p => fst p =? 1) l) +
  len (filter (fun p => fst p =? 2) l) + len (filter (fun p => fst p =? 3) l) +
  len (filter (fun p => fst p =? 4) l) <= len l.
Proof.
  induction l as [|x l IH]; cbn [filter]; [lens; lia|].
  destruct (N.eqb_spec (fst x) 0), (N.eqb_spec (fst x) 1), (N.eqb_spec (fst x) 2),
           (N.eqb_spec (fst x) 3), (N.eqb_spec (fst x) 4); lens; lia.
Qed.

Lemma pick3_len {A} (l : list (N * A)) :
  len (filter (fun p => fst p =? 0) l) + len (filter (fun p => fst p =? 1) l) +
  len (filter (fun p => fst p =? 2) l) <= len l.
Proof. pose proof (pick5_len l). lia. Qed.

Lemma pick2_len {A} (l : list (N * A)) :
  len (filter (fun p => fst p =? 0) l) + len (filter (fun p => fst p =? 1) l) <= len l.
Proof. pose proof (pick5_len l). lia. Qed.

Lemma part_with_codes_len nb seq shift codes seq' : nb = 2 \/ nb = 4 ->
  part_with_codes nb seq shift codes = Val seq' -> len seq' <= len seq.
Proof.
  intros Hnb E. unfold part_with_codes in E. dbind E. rename a into tagged.
  pose proof (mapo_len _ _ _ E0) as Hl. injection E as <-.
  pose proof (pick5_len tagged) as H5. pose proof (pick3_len tagged) as H3.
  destruct Hnb as [-> | ->].
  - change (2 =? 4) with false. cbv iota. lens. rewrite !len_map'. lia.
  - change (4 =? 4) with true. cbv iota. lens. rewrite !len_map'. lia.
Qed.

Lemma stable_partition_of_2_len w seq sh seq' :
  stable_partition_of_2 w seq sh = Val seq' -> len seq' <= len seq.
Proof.
  intros E. unfold stable_partition_of_2 in E. dbind E. rename a into ds. injection E as <-.
  pose proof (pick2_len (combine ds seq)) as H2. pose proof (len_combine_le ds seq).
  lens. rewrite !len_map'. lia.
Qed.

(* ---------------------------------------------------------------- one level *)
(* heap bytes of an RSWide over n bits (SpaceP.rsw_heap_bound, constants collected:
   136 = 64 (partial line) + 32 (two extra u128) + 40 (five extra hints)) *)
Definition rsw_bytes (n : N) : N := n / 8 + (n / 4096) * 16 + (n / 8192) * 8 + 136.

Lemma rsw_bytes_mono n m : n <= m -> rsw_bytes n <= rsw_bytes m.
Proof. intros H. unfold rsw_bytes. lia. Qed.

Lemma rsw_of_bools_heap bits bv r : len bits < 2 ^ 43 ->
  bv_from_bools bits = Val bv -> rsw_new bv = Val r ->
  bv_len bv = len bits /\ bv_abs bv = bits /\ rsw_heap r <= rsw_bytes (len bits).
Proof.
  intros Hn Eb Er.
  assert (H63 : len bits < 2 ^ 63) by (norm_pow; norm_pow in Hn; lia).
  destruct (bv_from_bools_correct bits H63) as (b' & Eb' & Hinv & Habs).
  rewrite Eb in Eb'. injection Eb' as <-.
  assert (Enb : bv_nbits bv = len bits) by (rewrite <- (inv_len bv Hinv), Habs; reflexivity).
  assert (Hwf : RSBinB.bv_wf bv) by (apply SpaceP.bv_inv_wf; [exact Hinv|lia]).
  pose proof (rsw_heap_bound bv r Hwf Er) as Hb. rewrite Enb in Hb.
  split; [exact Enb|]. split; [exact Habs|]. unfold rsw_bytes. lia.
Qed.

(* ---------------------------------------------------------------- all the levels, both flavours *)
(* For EVERY successful run of the level construction: nl levels, nl recorded lengths, the recorded
   length of a level is the number of bits of its vector, it is at most the sequence length, and
   the level retains at most rsw_bytes(length) heap bytes. *)
Lemma wt_levels_heap : forall nl w compressed seq codes n_levels shift rs lens,
  len seq < 2 ^ 43 ->
  wt_levels w compressed seq codes n_levels shift nl = Val (rs, lens) ->
  len rs = N.of_nat nl /\ len lens = N.of_nat nl /\
  map (fun r => bv_len (rsw_bv r)) rs = lens /\
  sumN (map rsw_heap rs) <= sumN (map rsw_bytes lens) /\
  Forall (fun ln => ln <= len seq) lens.
Proof.
  induction nl as [|nl IH]; intros w compressed seq codes n_levels shift rs lens Hn E; cbn [wt_levels] in E.
  - injection E as <- <-. cbn [map sumN]. split; [reflexivity|]. split; [reflexivity|]. split; [reflexivity|]. split; [lia|constructor].
  - dbind E. rename a into bs. rename E0 into Ebs. cbv zeta in E.
    pose proof (mapo_len _ _ _ Ebs) as Hbs.
    set (bits := flat_map (fun o : option bool => match o with Some d => [d] | None => [] end) bs) in *.
    assert (Hbits : len bits <= len seq) by (unfold bits; pose proof (flat_opt_len bs); lia).
    dbind E. rename a into bv. rename E0 into Ebv.
    dbind E. rename a into r. rename E0 into Er.
    dbind E. rename a into seq'. rename E0 into Eseq'.
    dbind E. destruct a as [rest lens']. rename E0 into Erest. injection E as <- <-.
    assert (Hseq' : len seq' <= len seq).
    { destruct compressed.
      - apply (part_with_codes_len 2 seq shift codes seq'); [now left|exact Eseq'].
      - dbind Eseq'. exact (stable_partition_of_2_len w seq a seq' Eseq'). }
    destruct (IH w compressed seq' codes n_levels (shift + 1) rest lens' ltac:(lia) Erest)
      as (I1 & I2 & I3 & I4 & I5).
    destruct (rsw_of_bools_heap bits bv r ltac:(lia) Ebv Er) as (B1 & _ & B3).
    assert (Ebvr : rsw_bv r = bv).
    { assert (Hwf : RSBinB.bv_wf bv).
      { assert (H63 : len bits < 2 ^ 63) by (norm_pow; norm_pow in Hn; lia).
        destruct (bv_from_bools_correct bits H63) as (b' & Eb' & Hinv & Habs).
        rewrite Ebv in Eb'. injection Eb' as <-.
        apply SpaceP.bv_inv_wf; [exact Hinv|]. rewrite <- (inv_len bv Hinv), Habs. lia. }
      exact (proj1 (rsw_new_lens bv r Hwf Er)). }
    rewrite !len_cons, I1, I2. cbn [map sumN]. rewrite Ebvr, I3, B1.
    split; [lia|]. split; [lia|]. split; [reflexivity|]. split; [lia|].
    constructor; [exact Hbits|]. eapply Forall_impl; [|exact I5]. cbv beta. intros ln Hln. lia.
Qed.

Lemma sum_bytes_le n lens : Forall (fun ln => ln <= n) lens ->
  sumN (map rsw_bytes lens) <= rsw_bytes n * len lens.
Proof.
  intros HF. apply (sumN_map_le (fun ln => ln <= n)); [|exact HF].
  intros ln Hln. now apply rsw_bytes_mono.
Qed.

Lemma maxn_lt_243 n : n < RSQ_MAXN -> n < 2 ^ 43.
Proof. rewrite RSQ_MAXN_val. change (2 ^ 43) with 8796093022208. lia. Qed.

(* ---------------------------------------------------------------- the plain tree *)
(* every successfully built plain tree over a non-empty sequence: msb(max) + 1 levels, each
   recorded length at most len seq, the heap bytes of the levels bounded level by level *)
Lemma wt_build_plain_levels : forall w seq t, len seq < RSQ_MAXN -> seq <> [] ->
  wt_build w false seq [] = Val t ->
  len (w_bvs t) = msb (maxN seq) + 1 /\ len (w_lens t) = msb (maxN seq) + 1 /\
  map (fun r => bv_len (rsw_bv r)) (w_bvs t) = w_lens t /\
  sumN (map rsw_heap (w_bvs t)) <= sumN (map rsw_bytes (w_lens t)) /\
  Forall (fun ln => ln <= len seq) (w_lens t).
Proof.
  intros w seq t Hn Hne E. destruct seq as [|x0 seq']; [congruence|].
  rewrite wt_build_plain_cons in E. set (s := x0 :: seq') in *. unfold blevels in E.
  dbind E. destruct a as [bvs lens]. injection E as <-. cbn [w_bvs w_lens].
  destruct (wt_levels_heap _ _ _ _ _ _ _ _ _ (maxn_lt_243 _ Hn) E0) as (H1 & H2 & H3 & H4 & H5).
  rewrite H1, H2. repeat split; try assumption; lia.
Qed.

(* C14, plain binary tree: L = bitlen(max) levels (msb + 1); per level n/8 bytes of bits, one u128
   per 4096 bits, one usize hint per 8192 bits (ones and zeros together), and 232 bytes of constants
   (64 partial line + 32 two extra u128 + 40 five extra hints + 88 inline RSWide + 8 level length).
   No premise on the width or on the symbols is needed beyond the construction having returned. *)
Theorem wt_heap_bound_gen : forall w seq t, len seq < RSQ_MAXN -> seq <> [] ->
  wt_build w false seq [] = Val t ->
  wt_heap_plain abi64 t <=
  (msb (maxN seq) + 1) * (len seq / 8 + (len seq / 4096) * 16 + (len seq / 8192) * 8 + 232).
Proof.
  intros w seq t Hn Hne E.
  destruct (wt_build_plain_levels w seq t Hn Hne E) as (H1 & H2 & _ & H4 & H5).
  pose proof (sum_bytes_le (len seq) (w_lens t) H5) as Hs.
  unfold wt_heap_plain. cbn [sz_rsw abi64]. rewrite H1, H2 in *.
  set (S1 := sumN (map rsw_heap (w_bvs t))) in *. set (S2 := sumN (map rsw_bytes (w_lens t))) in *.
  unfold rsw_bytes in Hs.
  set (L := msb (maxN seq) + 1) in *. set (n := len seq) in *.
  set (B := n / 8 + n / 4096 * 16 + n / 8192 * 8) in *.
  clearbody B L S1 S2. clear -H4 Hs. lia.
Qed.

Theorem wt_heap_bound : forall w seq t, width_ok w -> Forall (fun x => x < 2 ^ w) seq ->
  len seq < RSQ_MAXN -> seq <> [] -> wt_build w false seq [] = Val t ->
  wt_heap_plain abi64 t <=
  (msb (maxN seq) + 1) * (len seq / 8 + (len seq / 4096) * 16 + (len seq / 8192) * 8 + 232).
Proof. intros w seq t _ _. apply wt_heap_bound_gen. Qed.

(* the empty tree retains nothing (either flavour) *)
Theorem wt_heap_empty : forall w compressed tab t, wt_build w compressed [] tab = Val t ->
  wt_heap_plain abi64 t = 0.
Proof. intros w compressed tab t E. cbn [wt_build] in E. injection E as <-. reflexivity. Qed.

(* total form: the constructor returns (BinWTP.wt_build_correct) and the tree obeys the bound *)
Corollary wt_new_heap_bound : forall w seq, width_ok w -> Forall (fun x => x < 2 ^ w) seq ->
  len seq < RSQ_MAXN -> seq <> [] ->
  exists t, wt_build w false seq [] = Val t /\ wt_spec w t seq /\
    wt_heap_plain abi64 t <=
    (msb (maxN seq) + 1) * (len seq / 8 + (len seq / 4096) * 16 + (len seq / 8192) * 8 + 232).
Proof.
  intros w seq Hw HF Hn Hne.
  destruct (wt_build_correct select_in_word_correct popcount_correct w seq Hw HF Hn) as (t & E & HS).
  exists t. split; [exact E|]. split; [exact HS|]. now apply (wt_heap_bound_gen w).
Qed.

(* ---------------------------------------------------------------- the Huffman-shaped binary tree *)
(* levels shrink: the bound is in terms of the recorded level lengths (w_lens t = the number of bits
   of each level, at most len seq each, max code length many) *)
Theorem hwt_heap_bound : forall w seq tab t, len seq < RSQ_MAXN -> seq <> [] ->
  wt_build w true seq tab = Val t ->
  len (w_lens t) = maxN (map pc_len tab) /\
  map (fun r => bv_len (rsw_bv r)) (w_bvs t) = w_lens t /\
  Forall (fun ln => ln <= len seq) (w_lens t) /\
  wt_heap_plain abi64 t <=
    sumN (map (fun n => n / 8 + (n / 4096) * 16 + (n / 8192) * 8 + 232) (w_lens t)).
Proof.
  intros w seq tab t Hn Hne E. destruct seq as [|x0 seq']; [congruence|].
  rewrite wt_build_huff_cons in E. set (s := x0 :: seq') in *.
  dbind E. destruct a as [bvs lens]. injection E as <-. cbn [w_bvs w_lens].
  destruct (wt_levels_heap _ _ _ _ _ _ _ _ _ (maxn_lt_243 _ Hn) E0) as (H1 & H2 & H3 & H4 & H5).
  split; [rewrite H2; lia|]. split; [exact H3|]. split; [exact H5|].
  unfold wt_heap_plain. cbn [sz_rsw abi64 w_bvs w_lens].
  rewrite (sumN_map_add (fun n => n / 8 + n / 4096 * 16 + n / 8192 * 8 + 232) rsw_bytes 96)
    by (intros n; unfold rsw_bytes; lia).
  rewrite H1, H2. lia.
Qed.

(* coarser: every level bounded by the full length *)
Corollary hwt_heap_bound_coarse : forall w seq tab t, len seq < RSQ_MAXN -> seq <> [] ->
  wt_build w true seq tab = Val t ->
  wt_heap_plain abi64 t <=
    maxN (map pc_len tab) * (len seq / 8 + (len seq / 4096) * 16 + (len seq / 8192) * 8 + 232).
Proof.
  intros w seq tab t Hn Hne E. destruct (hwt_heap_bound w seq tab t Hn Hne E) as (H1 & _ & H3 & H4).
  etransitivity; [exact H4|]. rewrite <- H1, N.mul_comm.
  apply (sumN_map_le (fun ln => ln <= len seq)); [|exact H3]. intros n Hle. lia.
Qed.

(* ================================================================== 4'. (C16) built Huffman quad trees *)
Lemma rsq_level_bytes_mono bsize n m : bsz bsize -> n <= m ->
  rsq_level_bytes bsize n <= rsq_level_bytes bsize m.
Proof. intros [-> | ->] H; unfold rsq_level_bytes; lia. Qed.

(* every successful run of the level construction of the Huffman quad tree *)
Lemma hq_levels_heap : forall nl bsize seq codes shift qvs lens, bsz bsize -> len seq < RSQ_MAXN ->
  hq_levels bsize seq codes shift nl = Val (qvs, lens) ->
  len qvs = N.of_nat nl /\ len lens = N.of_nat nl /\
  Forall (fun r => len (rs_samples (rsq_rs r)) = 4) qvs /\
  sumN (map rsq_heap qvs) <= sumN (map (rsq_level_bytes bsize) lens) /\
  Forall (fun ln => ln <= len seq) lens.
Proof.
  induction nl as [|nl IH]; intros bsize seq codes shift qvs lens Hb Hn E; cbn [hq_levels] in E.
  - injection E as <- <-. cbn [map sumN]. split; [reflexivity|]. split; [reflexivity|]. split; [constructor|]. split; [lia|constructor].
  - dbind E. rename a into ds. rename E0 into Eds. cbv zeta in E.
    pose proof (mapo_len _ _ _ Eds) as Hds.
    set (digits := flat_map (fun o : option N => match o with Some d => [d] | None => [] end) ds) in *.
    assert (Hdl : len digits <= len seq) by (unfold digits; pose proof (flat_opt_len ds); lia).
    assert (Hd4 : Forall (fun x => x < 4) digits).
    { assert (HQ : Forall (fun o : option N => match o with Some d => d < 4 | None => True end) ds).
      { refine (proj1 (mapo_Forall _ (fun _ => True) _ _ seq ds _ Eds)).
        - intros x y _ Ey. dbind Ey. destruct (shift <=? pc_len a); injection Ey as <-; [|exact I].
          change 3 with (N.ones 2). rewrite N.land_ones. apply N.mod_lt. discriminate.
        - apply Forall_forall. intros; exact I. }
      unfold digits. clear -HQ. induction HQ as [|o l Ho HF IHl]; cbn [flat_map]; [constructor|].
      destruct o; cbn [app]; [constructor; assumption|assumption]. }
    destruct (qvb_push_all_inv digits qvb_new [] qvb_inv_new) as (q & Eq & Hq).
    rewrite Eq in E. cbn [bind] in E. cbn [app] in Hq. rewrite (HQWTBridge.map_sym4_id _ Hd4) in Hq.
    dbind E. rename a into r. rename E0 into Er.
    dbind E. rename a into seq'. rename E0 into Eseq'.
    dbind E. destruct a as [rest lens']. rename E0 into Erest. injection E as <- <-.
    pose proof (part_with_codes_len 4 seq shift codes seq' ltac:(now right) Eseq') as Hseq'.
    destruct (IH bsize seq' codes (shift + 2) rest lens' Hb ltac:(lia) Erest) as (I1 & I2 & I3 & I4 & I5).
    destruct (rsq_from_qv_level bsize q digits r Hb Hq Hd4 ltac:(lia) Er) as (L1 & L2).
    rewrite !len_cons, I1, I2, (qv_len_inv q _ Hq). cbn [map sumN].
    split; [lia|]. split; [lia|]. split; [constructor; assumption|]. split; [lia|].
    constructor; [exact Hdl|]. eapply Forall_impl; [|exact I5]. cbv beta. intros ln Hln. lia.
Qed.

(* every built Huffman quad tree satisfies the side condition of hq_space_heap, and its levels are
   bounded level by level: per level of recorded length n, the one-level size of RSQVector
   (SpaceP.rsq_level_bytes) + 144 inline + 8 for the length *)
Theorem hq_build_heap : forall bsize seq tab t, (bsize = 256 \/ bsize = 512) -> len seq < RSQ_MAXN ->
  hq_build bsize seq tab = Val t ->
  Forall (fun r => len (rs_samples (rsq_rs r)) = 4) (h_qvs t) /\
  Forall (fun ln => ln <= len seq) (h_lens t) /\
  hq_heap_levels t <= sumN (map (fun n => rsq_level_bytes bsize n + 152) (h_lens t)).
Proof.
  intros bsize seq tab t Hb Hn E. unfold hq_heap_levels. cbn [sz_rsq abi64].
  rewrite (sumN_map_add (fun n => rsq_level_bytes bsize n + 152) (rsq_level_bytes bsize) 152)
    by (intros; reflexivity).
  destruct seq as [|x0 seq'].
  - cbn [hq_build] in E. dbind E. injection E as <-. cbn [h_qvs h_lens].
    unfold rsq_default in E0.
    destruct (rsq_from_qv_level bsize qvb_new [] a Hb qvb_inv_new (Forall_nil _) Hn E0) as (L1 & L2).
    split; [constructor; [exact L2|constructor]|]. split; [constructor; [lia|constructor]|].
    cbn [map sumN]. change (len (@nil N)) with 0 in L1. lens. lia.
  - rewrite HQWTP.hq_build_cons in E. set (s := x0 :: seq') in *.
    dbind E. destruct a as [qvs lens]. injection E as <-. cbn [h_qvs h_lens].
    destruct (hq_levels_heap _ _ _ _ _ _ _ Hb Hn E0) as (H1 & H2 & H3 & H4 & H5).
    split; [exact H3|]. split; [exact H5|]. rewrite H1, H2. lia.
Qed.

Corollary hq_build_space_heap : forall bsize seq tab t, (bsize = 256 \/ bsize = 512) ->
  len seq < RSQ_MAXN -> hq_build bsize seq tab = Val t ->
  hq_space t None = hq_heap_levels t + 16 + 256 * 8 + sumN (map (fun v => len v * 5) (h_decode t)).
Proof.
  intros bsize seq tab t Hb Hn E. apply hq_space_heap. exact (proj1 (hq_build_heap bsize seq tab t Hb Hn E)).
Qed.

Corollary hq_new_space_heap : forall bsize seq f t, (bsize = 256 \/ bsize = 512) ->
  len seq < RSQ_MAXN -> hq_new bsize seq f = Val t ->
  hq_space t None = hq_heap_levels t + 16 + 256 * 8 + sumN (map (fun v => len v * 5) (h_decode t)).
Proof.
  intros bsize seq f t Hb Hn E. unfold hq_new in E. destruct seq as [|x0 seq'].
  - exact (hq_build_space_heap bsize [] [] t Hb Hn E).
  - dbind E. exact (hq_build_space_heap bsize _ a t Hb Hn E).
Qed.

(* ================================================================== narrow element types *)
Lemma maxN_lt_pow w (s : list N) : s <> [] -> Forall (fun x => x < 2 ^ w) s -> maxN s < 2 ^ w.
Proof.
  induction s as [|x s IH]; intros Hs HFs; [congruence|]. inversion HFs as [|? ? Hx HFs']; subst.
  cbn [maxN]. destruct s as [|y s]; [cbn [maxN]; lia|].
  specialize (IH ltac:(discriminate) HFs'). lia.
Qed.

(* for u8 / u16 / u32 the bound on the maximum is implied *)
Corollary hwt_new_correct_narrow : forall w seq f, w = 8 \/ w = 16 \/ w = 32 ->
  Forall (fun x => x < 2 ^ w) seq -> len seq < RSQ_MAXN -> seq <> [] -> lengths_for2 seq f ->
  forall tab, craft2 f (sym_index (maxN seq)) = Val tab ->
  exists t, hwt_new w seq f = Val t /\ hwt_spec w t seq.
Proof.
  intros w seq f Hw HF Hn Hne Hlf tab Hc.
  apply (hwt_new_correct w seq f) with (tab := tab); try assumption.
  - unfold width_ok. lia.
  - pose proof (maxN_lt_pow w seq Hne HF) as Hm.
    assert (2 ^ w <= 2 ^ 32) by (apply N.pow_le_mono_r; lia).
    change (2 ^ 32) with 4294967296 in *. change (2 ^ 64) with 18446744073709551616. lia.
Qed.

(* ================================================================== non-vacuity / actual numbers *)
(* the request of BinWTP.hwt_ex_craft: symbols 5, 9, 0, 2 with code lengths 1, 2, 3, 3 *)
Definition hwn_f : list (N * N) := [(5, 1); (9, 2); (0, 3); (2, 3)].

Example hwn_lengths_for2 : lengths_for2 hwt_ex_seq hwn_f.
Proof.
  split.
  - intros x. unfold hwt_ex_seq, hwn_f. cbn [map fst In]. split; intros H;
      repeat (destruct H as [<-|H]; [tauto|]); contradiction.
  - split; [now left|]. split; [|split; [|split]].
    + unfold hwn_f. cbn [map fst]. repeat (constructor; [cbn [In]; lia|]). constructor.
    + unfold hwn_f, hwt_ex_seq. repeat (constructor; [cbn [fst snd]; vm_compute; repeat split; discriminate|]). constructor.
    + unfold hwn_f. repeat (constructor; [|repeat (constructor; [cbn [snd]; lia|]); constructor]). constructor.
    + vm_compute. reflexivity.
Qed.

Example hwn_fits : craft_fits 1 hwn_f (N.max (len hwn_f) 2) = true.
Proof. vm_compute. reflexivity. Qed.

Example hwn_thm : exists t, hwt_new 8 hwt_ex_seq hwn_f = Val t /\ hwt_spec 8 t hwt_ex_seq /\
  forall h, wtit_run (wt_get_unchecked 8 true t) (wtit_new (w_n t)) h = Val (deque_run hwt_ex_seq h).
Proof.
  assert (HF : Forall (fun x => x < 2 ^ 8) hwt_ex_seq).
  { apply Forall_forall. intros x Hx.
    assert (H : forallb (fun y => y <? 2 ^ 8) hwt_ex_seq = true) by (vm_compute; reflexivity).
    rewrite forallb_forall in H. specialize (H x Hx). lia. }
  destruct (hwt_new_total 8 hwt_ex_seq hwn_f) as (t & E & HS).
  - left. reflexivity.
  - exact HF.
  - reflexivity.
  - discriminate.
  - vm_compute. reflexivity.
  - exact hwn_lengths_for2.
  - unfold hwn_f. repeat (constructor; [cbn [snd]; lia|]). constructor.
  - exact hwn_fits.
  - exists t. split; [exact E|]. split; [exact HS|]. apply (hwt_iter_correct 8 t _ HS). vm_compute. reflexivity.
Qed.

(* the model iterator over the built tree on a concrete history *)
Example hwn_iter_run :
  match hwt_new 8 [5; 0; 9; 2; 5] hwn_f with
  | Val t => wtit_run (wt_get_unchecked 8 true t) (wtit_new (w_n t)) [INext; ILen; IBack; IBack; INext; INext; INext; ILen]
             = Val [OSome 5; OLen 4; OSome 5; OSome 2; OSome 0; OSome 9; ONone; OLen 0]
  | Fault _ => False
  end.
Proof. vm_compute. reflexivity. Qed.

(* plain tree of BinWTP.wt_example (30 symbols, 9 levels): 2016 bytes retained, 1960 reported,
   bound 2115 *)
Example wt_heap_30 :
  match wt_build 16 false wt_ex_seq [] with
  | Val t => wt_heap_plain abi64 t = 2016 /\ wt_space false t = 1960 /\
             (msb (maxN wt_ex_seq) + 1) * (len wt_ex_seq / 8 + (len wt_ex_seq / 4096) * 16 + (len wt_ex_seq / 8192) * 8 + 232) = 2115
  | Fault _ => False
  end.
Proof. vm_compute. repeat split; reflexivity. Qed.

(* the bound of wt_heap_bound is attained: 7681 zeros (one level; see SpaceP.rsw_bound_attained) *)
Example wt_heap_bound_attained :
  let s := repeat 0 (N.to_nat 7681) in
  match wt_build 8 false s [] with
  | Val t => wt_heap_plain abi64 t = 1208 /\
             (msb (maxN s) + 1) * (len s / 8 + (len s / 4096) * 16 + (len s / 8192) * 8 + 232) = 1208
  | Fault _ => False
  end.
Proof. vm_compute. split; reflexivity. Qed.

(* compressed binary tree of BinWTP.hwt_example (levels of 30, 20, 10 bits): 672 retained,
   2732 reported (= 672 + 16 + 2048 + 4 * 5 - 3 * 8), level-wise bound 702 *)
Example hwt_heap_30 :
  match wt_build 8 true hwt_ex_seq hwt_ex_tab with
  | Val t => wt_heap_plain abi64 t = 672 /\ wt_space true t = 2732 /\ w_lens t = [30; 20; 10] /\
             w_decode t <> None /\ match w_decode t with Some d => len d | None => 0 end = 4 /\
             sumN (map (fun n => n / 8 + (n / 4096) * 16 + (n / 8192) * 8 + 232) (w_lens t)) = 702
  | Fault _ => False
  end.
Proof. vm_compute. repeat split; try reflexivity. discriminate. Qed.

(* Huffman quad tree of HQWTNewP.hqn_thm (levels of 12 and 4 symbols): levels retain 624 bytes
   (the level-wise bound is exact here), reported 2713 = 624 + 16 + 2048 + 5 * 5 *)
Example hq_heap_12 :
  match hq_new 256 hqn_seq hqn_f with
  | Val t => hq_space t None = 2713 /\ hq_heap_levels t = 624 /\ h_lens t = [12; 4] /\
             sumN (map (fun v => len v * 5) (h_decode t)) = 25 /\
             sumN (map (fun n => rsq_level_bytes 256 n + 152) (h_lens t)) = 624
  | Fault _ => False
  end.
Proof. vm_compute. repeat split; reflexivity. Qed.

Print Assumptions craft2_table_ok_seq.
Print Assumptions hwt_new_correct.
Print Assumptions hwt_new_total.
Print Assumptions hwt_new_nil.
Print Assumptions hwt_new_correct_narrow.
Print Assumptions wt_iter_correct.
Print Assumptions hwt_iter_correct.
Print Assumptions wt_new_iter.
Print Assumptions hwt_build_iter.
Print Assumptions hwt_new_iter.
Print Assumptions hq_new_iter.
Print Assumptions hq_space_heap.
Print Assumptions wt_space_heap_gen.
Print Assumptions hwt_space_heap.
Print Assumptions wt_levels_heap.
Print Assumptions wt_build_plain_levels.
Print Assumptions wt_heap_bound_gen.
Print Assumptions wt_heap_bound.
Print Assumptions wt_heap_empty.
Print Assumptions wt_new_heap_bound.
Print Assumptions hwt_heap_bound.
Print Assumptions hwt_heap_bound_coarse.
Print Assumptions hq_levels_heap.
Print Assumptions hq_build_heap.
Print Assumptions hq_build_space_heap.
Print Assumptions hq_new_space_heap.
Print Assumptions hwn_lengths_for2.
Print Assumptions hwn_fits.
Print Assumptions hwn_thm.
Print Assumptions hwn_iter_run.
Print Assumptions wt_heap_30.
Print Assumptions wt_heap_bound_attained.
Print Assumptions hwt_heap_30.
Print Assumptions hq_heap_12.
