(* T5 (the CONSTRUCTORS RSNarrow::new, RSWide::new and DataLine::n_ones / n_zeros): the definitions REGENERATED
   from src/bitvector/rs_narrow.rs, src/bitvector/rs_wide.rs, src/bitvector/mod.rs (Gen/FnsRsn2.v, Gen/FnsRsw2.v,
   Gen/FnsBv.v, tools/gen_fns.py) are simulated by the hand model (Model/RSBin.v: rsn_new, rsw_new, line_n_ones),
   and, composed with the theorems about the regenerated queries (Proofs/FnsRsn2Ok.v, Proofs/FnsRsw2Ok.v), the
   regenerated constructor followed by the regenerated queries answers like the list specification.

   The generated constructors take the fields of `bv: BitVector` as parameters (bv_data = chunks 8 (bv_words bv),
   bv_n_bits, bv_n_ones) and return the tuple of the fields of Self.

   Statements
     g_bline_n_ones_ok   (E)  g_bline_n_ones l = Val (line_n_ones l)         (u64 words, fewer than 2^58 of them)
     g_bline_n_zeros_ok  (E)  g_bline_n_zeros l = Val (512 - line_n_ones l)  (u64 words, at most 8 of them)
     g_rsn_new_ok        (S)  rsn_new bv = Val r -> g_rsn_new (chunks 8 ws) nbits n_ones
                                = Val (chunks 8 ws, nbits, n_ones, rsn_pairs r, [rsn_samples0 r; rsn_samples1 r])
     g_rsw_new_ok        (S)  rsw_new bv = Val r -> g_rsw_new (chunks 8 ws) nbits n_ones
                                = Val (chunks 8 ws, nbits, n_ones, rsw_meta r, [rsw_samples0 r; rsw_samples1 r], rsw_n_zeros r)
       hypotheses of both: len ws mod 8 = 0 (whole DataLines), words below 2^64 (the element type),
       len ws <= 2^57 (true of every vector of fewer than 2^63 bits); the parameter bv_n_ones is not read.
     g_rsn_new_wf / g_rsw_new_wf   the same under RSBinB.bv_wf bv
     g_rsn_new_of_bools_correct / g_rsw_new_of_bools_correct   END TO END: for bs with len bs < 2^43 and
       bv_from_bools bs = Val bv, the regenerated constructor returns (.., pairs, samples) on which the
       regenerated select1 / select0 / rank1 / n_ones / n_zeros / get / *_unchecked return the list specification.
   Proof: the loop state of the generated code (forward lists built with ++ [x], the two sample vectors as a
   2-element list updated by push_at) is the image ([ngs] / [wgs]) of the hand model's state (reversed lists) after
   the same prefix of words / lines; the 8 iterations of the inner loop of RSNarrow::new over line b are 8 steps of
   rsn_word at the indices b*8+b1 (nline_ok), the flat loop splits over concat (rsn_loop_app); rsw_loop over the
   flat list with firstn/skipn is a loop over the chunks (rsw_loop_lines).  The machine checks the hand model does
   not have are discharged from counters bounded by 64 * words (nbnd) / 512 * lines (wbnd).
   No mismatch between the hand model and the generated code was found. *)
From Coq Require Import ZArith Lia ZifyBool ZifyN ZifyNat.
From QwtModel Require Import ListX Loops Seq Consts SelTable Words BitVec RSBin ListXP
  LeavesUtils LeavesRSN LeavesRSW FnsBv FnsRsn2 FnsRsw2 LeavesLib LeavesUtilsOk FnsBvOk.
From QwtModel Require FnsRsn2Ok FnsRsw2Ok.
From QwtModel Require RSBinL RSBinB RSBinN RSBinW RSBinP WordsP BitVecP BinFinalP BitsLib.
Open Scope N_scope.
Ltac Zify.zify_post_hook ::= Z.div_mod_to_equations.
Arguments N.add : simpl never.
Arguments N.sub : simpl never.
Arguments N.mul : simpl never.
Arguments N.eqb : simpl never.
Arguments N.ltb : simpl never.
Arguments N.leb : simpl never.
Arguments N.pred : simpl never.
Arguments N.of_nat : simpl never.
Arguments N.land : simpl never.
Arguments N.lor : simpl never.
Arguments N.lxor : simpl never.
Arguments N.shiftr : simpl never.
Arguments N.shiftl : simpl never.
Arguments N.div : simpl never.
Arguments N.modulo : simpl never.
Arguments N.pow : simpl never.

(* ================================================================== helpers *)
Lemma bind_Val_inv {A B} (x : outcome A) (f : A -> outcome B) v :
  bind x f = Val v -> exists a, x = Val a /\ f a = Val v.
Proof. destruct x as [a|]; cbn [bind]; intros H; [now exists a|discriminate]. Qed.
Ltac binv H a E := apply bind_Val_inv in H; destruct H as (a & E & H).

Lemma oadd_ok w a b : a + b < 2 ^ w -> oadd w a b = Val (a + b).
Proof. intros H. unfold oadd. destruct (N.ltb_spec (a + b) (2 ^ w)); [reflexivity|lia]. Qed.
Lemma omul_ok w a b : a * b < 2 ^ w -> omul w a b = Val (a * b).
Proof. intros H. unfold omul. destruct (N.ltb_spec (a * b) (2 ^ w)); [reflexivity|lia]. Qed.
Lemma osub_ok a b : b <= a -> osub a b = Val (a - b).
Proof. intros H. unfold osub. destruct (N.leb_spec b a); [reflexivity|lia]. Qed.

Lemma popcount_le64 w : w < 2 ^ 64 -> popcount w <= 64.
Proof. intros H. apply (popcount_le_bits 64). exact H. Qed.

Lemma push_at_0 {A} (a b : list A) x : push_at [a; b] 0 x = Val [a ++ [x]; b].
Proof. reflexivity. Qed.
Lemma push_at_1 {A} (a b : list A) x : push_at [a; b] 1 x = Val [a; b ++ [x]].
Proof. reflexivity. Qed.

Lemma len_rev {A} (l : list A) : len (rev l) = len l.
Proof. unfold len. now rewrite rev_length. Qed.

Lemma bind_assoc {A B C} (x : outcome A) (f : A -> outcome B) (g : B -> outcome C) :
  bind (bind x f) g = bind x (fun a => bind (f a) g).
Proof. now destruct x. Qed.

(* one step of the walk through a generated body whose checks cannot fail *)
Ltac ostep :=
  lazymatch goal with
  | |- bind (if ?c then _ else _) _ = _ => destruct c
  | |- bind (bind _ _) _ = _ => rewrite bind_assoc
  | |- bind (oadd _ _ _) _ = _ => rewrite oadd_ok by lia
  | |- bind (osub _ _) _ = _ => rewrite osub_ok by lia
  | |- bind (push_at _ 0 _) _ = _ => rewrite push_at_0
  | |- bind (push_at _ 1 _) _ = _ => rewrite push_at_1
  end.

Lemma len_snoc {A} (l : list A) x : len (l ++ [x]) = len l + 1.
Proof. now rewrite len_app, len_cons, len_nil. Qed.

(* a `for` whose body only updates the state *)
Lemma for_loop_iterN {S R} (f : S -> S) : forall n i s,
  for_loop (fun (_ : N) s => Val (@Next S R (f s))) i n s = Val (Done (iterN f n s)).
Proof. induction n as [|n IH]; intros i s; [reflexivity|]. cbn [for_loop bind iterN]. apply IH. Qed.

(* ================================================================== DataLine::n_ones / n_zeros *)
Lemma ofold_popcount : forall (l : list N) a, Forall (fun w => w < 2 ^ 64) l -> a + 64 * len l < 2 ^ 64 ->
  ofold (fun a x => oadd 64 a (popcount x)) l a = Val (a + sumN (map popcount l)).
Proof.
  induction l as [|x l IH]; intros a HF Ha.
  - cbn [ofold map sumN]. now rewrite N.add_0_r.
  - inversion HF as [|? ? Hx HF']; subst. rewrite len_cons in Ha. pose proof (popcount_le64 x Hx) as Hp.
    cbn [ofold map sumN]. rewrite oadd_ok by lia. cbn [bind]. rewrite IH by (assumption || lia). f_equal. lia.
Qed.

Lemma line_n_ones_le : forall l, Forall (fun w => w < 2 ^ 64) l -> line_n_ones l <= 64 * len l.
Proof.
  unfold line_n_ones. induction l as [|x l IH]; intros HF; [cbn [map sumN]; lia|].
  inversion HF as [|? ? Hx HF']; subst. rewrite len_cons. pose proof (popcount_le64 x Hx). specialize (IH HF').
  cbn [map sumN]. lia.
Qed.

(* any slice of u64 words shorter than 2^58 words (a DataLine has 8) *)
Theorem g_bline_n_ones_ok : forall l, Forall (fun w => w < 2 ^ 64) l -> len l < 2 ^ 58 ->
  g_bline_n_ones l = Val (line_n_ones l).
Proof.
  intros l HF HL. unfold g_bline_n_ones, line_n_ones. rewrite ofold_popcount by (assumption || lia).
  now rewrite N.add_0_l.
Qed.

Theorem g_bline_n_zeros_ok : forall l, Forall (fun w => w < 2 ^ 64) l -> len l <= 8 ->
  g_bline_n_zeros l = Val (512 - line_n_ones l).
Proof.
  intros l HF HL. unfold g_bline_n_zeros. rewrite g_bline_n_ones_ok by (assumption || lia). cbn [bind].
  pose proof (line_n_ones_le l HF). apply osub_ok. lia.
Qed.

(* ================================================================== RSNarrow::new *)
(* the loop state of the generated code: (subranks, next_rank, cur_subrank, select_samples, cur_hint_1,
   zeros_so_far, cur_hint_0, block_rank_pairs) *)
Notation NS := (N * N * N * list (list N) * N * N * N * list N)%type (only parsing).

(* the state of the generated loops that corresponds to a state of the hand model (whose lists are reversed) *)
Definition ngs (st : rsn_state) : NS :=
  (ns_subranks st, ns_next_rank st, ns_cur_subrank st, [rev (ns_s0 st); rev (ns_s1 st)], ns_hint1 st,
   ns_zeros st, ns_hint0 st, rev (ns_pairs st)).

(* the body of the inner loop (over the 8 words of line b) and of the outer loop (over the lines), verbatim from
   Gen/FnsRsn2.v: [g_rsn_new_unfold] below checks by conversion that g_rsn_new is built from them *)
Definition nbody_in {R} (b b1 word : N) : NS -> outcome (step NS R) :=
  fun '(subranks, next_rank, cur_subrank, select_samples, cur_hint_1, zeros_so_far, cur_hint_0, block_rank_pairs) =>
          let word_pop := popcount word in
          let! t1 := omul 64 b 8 in
          let! t2 := oadd 64 t1 b1 in
          let shift := t2 mod 8 in
          let! subranks := (if N.leb 1 shift then
            let subranks := N.shiftl subranks 9 mod 2 ^ 64 in
            let subranks := N.lor subranks cur_subrank in
            Val subranks
          else
            Val subranks
          ) in
          let! next_rank := oadd 64 next_rank word_pop in
          let! cur_subrank := oadd 64 cur_subrank word_pop in
          let! t3 := if 1024 =? 0 then Fault Panic else Val (next_rank / 1024) in
          let! (select_samples, cur_hint_1) := (if N.ltb cur_hint_1 t3 then
            let! select_samples := push_at select_samples 1 b in
            let! cur_hint_1 := oadd 64 cur_hint_1 1 in
            Val (select_samples, cur_hint_1)
          else
            Val (select_samples, cur_hint_1)
          ) in
          let! t4 := osub 64 word_pop in
          let! zeros_so_far := oadd 64 zeros_so_far t4 in
          let! t5 := if 1024 =? 0 then Fault Panic else Val (zeros_so_far / 1024) in
          let! (select_samples, cur_hint_0) := (if N.ltb cur_hint_0 t5 then
            let! select_samples := push_at select_samples 0 b in
            let! cur_hint_0 := oadd 64 cur_hint_0 1 in
            Val (select_samples, cur_hint_0)
          else
            Val (select_samples, cur_hint_0)
          ) in
          let! t6 := osub 8 1 in
          let! (block_rank_pairs, subranks, cur_subrank) := (if N.eqb shift t6 then
            let block_rank_pairs := block_rank_pairs ++ [subranks] in
            let block_rank_pairs := block_rank_pairs ++ [next_rank] in
            let subranks := 0 in
            let cur_subrank := 0 in
            Val (block_rank_pairs, subranks, cur_subrank)
          else
            Val (block_rank_pairs, subranks, cur_subrank)
          ) in
          Val (Next (subranks, next_rank, cur_subrank, select_samples, cur_hint_1, zeros_so_far, cur_hint_0, block_rank_pairs)).

Definition nbody_out {R} (b : N) (dl : list N) : NS -> outcome (step NS R) :=
  fun '(subranks, next_rank, cur_subrank, select_samples, cur_hint_1, zeros_so_far, cur_hint_0, block_rank_pairs) =>
      let! r := iteri_loop (nbody_in b) 0 dl (subranks, next_rank, cur_subrank, select_samples, cur_hint_1, zeros_so_far, cur_hint_0, block_rank_pairs) in
      match r with
      | Retd v => Val v
      | Done (subranks, next_rank, cur_subrank, select_samples, cur_hint_1, zeros_so_far, cur_hint_0, block_rank_pairs) =>
          Val (Next (subranks, next_rank, cur_subrank, select_samples, cur_hint_1, zeros_so_far, cur_hint_0, block_rank_pairs))
      end.

Definition ntail (bv_data : list (list N)) (bv_n_bits bv_n_ones : N) (s : NS) :=
  let '(subranks, next_rank, cur_subrank, select_samples, cur_hint_1, zeros_so_far, cur_hint_0, block_rank_pairs) := s in
      let! left_ := osub 8 ((len bv_data) mod 8) in
      let! r := for_loop (fun _ subranks =>
          let subranks := N.shiftl subranks 9 mod 2 ^ 64 in
          let subranks := N.lor subranks cur_subrank in
          Val (Next subranks)
        ) 0 (N.to_nat (left_ - 0)) subranks in
      match r with
      | Retd v => Val v
      | Done subranks =>
          let block_rank_pairs := block_rank_pairs ++ [subranks] in
          let! block_rank_pairs := (if N.ltb 0 ((len bv_data) mod 8) then
            let block_rank_pairs := block_rank_pairs ++ [next_rank] in
            let block_rank_pairs := block_rank_pairs ++ [0] in
            Val block_rank_pairs
          else
            Val block_rank_pairs
          ) in
          let! t7 := osub ((len block_rank_pairs) / 2) 1 in
          let! select_samples := push_at select_samples 0 t7 in
          let! t8 := osub ((len block_rank_pairs) / 2) 1 in
          let! select_samples := push_at select_samples 1 t8 in
          Val (bv_data, bv_n_bits, bv_n_ones, block_rank_pairs, select_samples)
      end.

Lemma g_rsn_new_unfold bv_data bv_n_bits bv_n_ones :
  g_rsn_new bv_data bv_n_bits bv_n_ones =
  (let! r := iteri_loop nbody_out 0 bv_data (0, 0, 0, [[0]; [0]], 0, 0, 0, [0]) in
   match r with
   | Retd v => Val v
   | Done s => ntail bv_data bv_n_bits bv_n_ones s
   end).
Proof. reflexivity. Qed.

(* bounds kept along the loops: g = number of words already processed *)
Definition nbnd (st : rsn_state) (g : N) : Prop :=
  ns_next_rank st <= 64 * g /\ ns_cur_subrank st <= 64 * g /\ ns_zeros st <= 64 * g /\
  ns_hint1 st <= g /\ ns_hint0 st <= g.

Lemma nbnd_word st g w : nbnd st g -> w < 2 ^ 64 -> nbnd (rsn_word st g w) (g + 1).
Proof.
  intros (H1 & H2 & H3 & H4 & H5) Hw. pose proof (popcount_le64 w Hw) as Hp.
  destruct st as [pairs nr cs sr s0 s1 h0 h1 z]. unfold nbnd, rsn_word in *.
  cbn [ns_pairs ns_next_rank ns_cur_subrank ns_subranks ns_s0 ns_s1 ns_hint0 ns_hint1 ns_zeros] in *.
  destruct (h1 <? _); destruct (h0 <? _); destruct (_ =? RSN_BLOCK_SIZE - 1);
  cbn [ns_pairs ns_next_rank ns_cur_subrank ns_subranks ns_s0 ns_s1 ns_hint0 ns_hint1 ns_zeros]; lia.
Qed.

Lemma nbody_in_ok {R} b b1 w st : w < 2 ^ 64 -> b1 < 8 -> b * 8 + 8 <= 2 ^ 57 -> nbnd st (b * 8 + b1) ->
  @nbody_in R b b1 w (ngs st) = Val (Next (ngs (rsn_word st (b * 8 + b1) w))).
Proof.
  intros Hw Hb1 Hb (H1 & H2 & H3 & H4 & H5). pose proof (popcount_le64 w Hw) as Hp.
  destruct st as [pairs nr cs sr s0 s1 h0 h1 z]. unfold ngs, nbody_in, rsn_word.
  unfold RSN_BLOCK_SIZE, RSN_SUB_BITS, RSN_ONES_PER_HINT, RSN_ZEROS_PER_HINT, M64.
  cbn [ns_pairs ns_next_rank ns_cur_subrank ns_subranks ns_s0 ns_s1 ns_hint0 ns_hint1 ns_zeros] in *.
  cbv zeta.
  rewrite omul_ok by lia. cbn [bind]. rewrite oadd_ok by lia. cbn [bind].
  replace ((b * 8 + b1) / 8) with b by lia.
  set (sh := (b * 8 + b1) mod 8). set (pc := popcount w) in *.
  change (1024 =? 0) with false. change (osub 8 1) with (Val 7). change (8 - 1) with 7. cbv iota.
  repeat (cbn [bind]; cbv beta iota; ostep).
  all: reflexivity.
Qed.

(* the 8 words of line b (indices b*8+j ..) = as many steps of the flat loop of the hand model *)
Lemma nline_ok {R} b : b * 8 + 8 <= 2 ^ 57 -> forall l j st, j + len l <= 8 -> Forall (fun w => w < 2 ^ 64) l ->
  nbnd st (b * 8 + j) ->
  iteri_loop (@nbody_in R b) j l (ngs st) = Val (Done (ngs (rsn_loop st (b * 8 + j) l))) /\
  nbnd (rsn_loop st (b * 8 + j) l) (b * 8 + j + len l).
Proof.
  intros Hb. induction l as [|w l IH]; intros j st Hj HF Hbnd.
  - cbn [iteri_loop rsn_loop]. rewrite len_nil, N.add_0_r. split; [reflexivity|exact Hbnd].
  - inversion HF as [|? ? Hw HF']; subst. rewrite len_cons in *.
    cbn [iteri_loop rsn_loop]. rewrite nbody_in_ok by (assumption || lia). cbn [bind].
    replace (b * 8 + j + 1) with (b * 8 + (j + 1)) by lia.
    replace (b * 8 + j + (len l + 1)) with (b * 8 + (j + 1) + len l) by lia.
    apply IH; [lia|exact HF'|].
    replace (b * 8 + (j + 1)) with (b * 8 + j + 1) by lia. apply nbnd_word; assumption.
Qed.

Lemma rsn_loop_app : forall l1 l2 st g, rsn_loop st g (l1 ++ l2) = rsn_loop (rsn_loop st g l1) (g + len l1) l2.
Proof.
  induction l1 as [|w l1 IH]; intros l2 st g.
  - cbn [app rsn_loop]. now rewrite len_nil, N.add_0_r.
  - cbn [app rsn_loop]. rewrite IH, len_cons. f_equal. lia.
Qed.

Lemma nbody_out_ok {R} b l st : b * 8 + 8 <= 2 ^ 57 -> len l = 8 -> Forall (fun w => w < 2 ^ 64) l ->
  nbnd st (b * 8) ->
  @nbody_out R b l (ngs st) = Val (Next (ngs (rsn_loop st (b * 8) l))) /\
  nbnd (rsn_loop st (b * 8) l) ((b + 1) * 8).
Proof.
  intros Hb Hl HF Hbnd.
  destruct (@nline_ok (step NS R) b Hb l 0 st) as (E & Hb'); [lia|exact HF|now rewrite N.add_0_r|].
  rewrite N.add_0_r in *. split.
  - unfold nbody_out. change (ngs st) with (ns_subranks st, ns_next_rank st, ns_cur_subrank st, [rev (ns_s0 st); rev (ns_s1 st)], ns_hint1 st,
   ns_zeros st, ns_hint0 st, rev (ns_pairs st)) at 1. cbv beta iota.
    change (ns_subranks st, ns_next_rank st, ns_cur_subrank st, [rev (ns_s0 st); rev (ns_s1 st)], ns_hint1 st,
   ns_zeros st, ns_hint0 st, rev (ns_pairs st)) with (ngs st).
    rewrite E. cbn [bind]. reflexivity.
  - replace ((b + 1) * 8) with (b * 8 + len l) by lia. exact Hb'.
Qed.

Lemma nlines_ok {R} : forall ls b st, (b + len ls) * 8 <= 2 ^ 57 -> Forall (fun l => len l = 8) ls ->
  Forall (Forall (fun w => w < 2 ^ 64)) ls -> nbnd st (b * 8) ->
  iteri_loop (@nbody_out R) b ls (ngs st) = Val (Done (ngs (rsn_loop st (b * 8) (concat ls)))) /\
  nbnd (rsn_loop st (b * 8) (concat ls)) ((b + len ls) * 8).
Proof.
  induction ls as [|l ls IH]; intros b st Hb H8 HF Hbnd.
  - cbn [iteri_loop concat rsn_loop]. rewrite len_nil, N.add_0_r. split; [reflexivity|exact Hbnd].
  - inversion H8 as [|? ? Hl H8']; subst. inversion HF as [|? ? Hw HF']; subst. rewrite len_cons in *.
    destruct (@nbody_out_ok R b l st) as (E & Hb'); [lia|exact Hl|exact Hw|exact Hbnd|].
    cbn [iteri_loop concat]. rewrite E. cbn [bind]. rewrite rsn_loop_app, Hl.
    replace (b * 8 + 8) with ((b + 1) * 8) by lia.
    replace (b + (len ls + 1)) with (b + 1 + len ls) by lia.
    apply IH; [lia|exact H8'|exact HF'|exact Hb'].
Qed.

Lemma Forall_chunks_aux {A} (P : A -> Prop) k : forall fuel (l : list A), Forall P l ->
  Forall (Forall P) (chunks_aux k l fuel).
Proof.
  induction fuel as [|f IH]; intros l HF; [constructor|].
  cbn [chunks_aux]. destruct l as [|x l]; [constructor|].
  constructor; [apply FnsRsw2Ok.Forall_firstn; exact HF|apply IH, FnsRsw2Ok.Forall_skipn; exact HF].
Qed.
Lemma Forall_chunks {A} (P : A -> Prop) k (l : list A) : Forall P l -> Forall (Forall P) (chunks k l).
Proof. apply Forall_chunks_aux. Qed.

(* ------------------------------------------------------------------ RSNarrow::new *)
(* hypotheses: whole lines, u64 words, fewer than 2^57 words (every bit vector of fewer than 2^63 bits);
   bv_n_ones is not read *)
Theorem g_rsn_new_ok : forall bv r n_ones,
  len (bv_words bv) mod 8 = 0 -> Forall (fun w => w < 2 ^ 64) (bv_words bv) -> len (bv_words bv) <= 2 ^ 57 ->
  rsn_new bv = Val r ->
  g_rsn_new (chunks 8 (bv_words bv)) (bv_nbits bv) n_ones
  = Val (chunks 8 (bv_words bv), bv_nbits bv, n_ones, rsn_pairs r, [rsn_samples0 r; rsn_samples1 r]).
Proof.
  intros bv r n_ones H8 HW HL Hr.
  pose proof (len_chunks (bv_words bv) H8) as Hlc.
  rewrite g_rsn_new_unfold.
  set (st0 := mk_rsns [0] 0 0 0 [0] [0] 0 0 0).
  change (0, 0, 0, [[0]; [0]], 0, 0, 0, [0]) with (ngs st0).
  destruct (@nlines_ok (list (list N) * N * N * list N * list (list N)) (chunks 8 (bv_words bv)) 0 st0) as (E & _).
  - rewrite Hlc. lia.
  - apply chunks_lines8. exact H8.
  - apply Forall_chunks. exact HW.
  - unfold nbnd, st0. cbn [ns_next_rank ns_cur_subrank ns_zeros ns_hint1 ns_hint0]. lia.
  - rewrite E. cbn [bind]. rewrite (concat_chunks 7). change (0 * 8) with 0.
    unfold rsn_new in Hr. fold st0 in Hr. cbv zeta in Hr.
    set (st := rsn_loop st0 0 (bv_words bv)) in *.
    unfold ntail, ngs. rewrite Hlc.
    unfold RSN_BLOCK_SIZE, RSN_SUB_BITS_TAIL, M64 in Hr.
    rewrite osub_ok by lia. cbn [bind]. rewrite N.sub_0_r.
    rewrite for_loop_iterN.
    set (sub := iterN _ _ _) in *.
    binv Hr lastv El. apply Val_inj in Hr. subst r. cbn [rsn_pairs rsn_samples0 rsn_samples1].
    remember (0 <? (len (bv_words bv) / 8) mod 8) as c eqn:Ec. destruct c; cbn [bind].
    + replace (len (((rev (ns_pairs st) ++ [sub]) ++ [ns_next_rank st]) ++ [0])) with (len (0 :: ns_next_rank st :: sub :: ns_pairs st))
        by (rewrite !len_snoc, !len_cons, len_rev; reflexivity).
      rewrite El. cbn [bind]. rewrite push_at_0. cbn [bind]. rewrite push_at_1. cbn [rev]. reflexivity.
    + replace (len (rev (ns_pairs st) ++ [sub])) with (len (sub :: ns_pairs st))
        by (rewrite !len_snoc, !len_cons, len_rev; reflexivity).
      rewrite El. cbn [bind]. rewrite push_at_0. cbn [bind]. rewrite push_at_1. cbn [rev]. reflexivity.
Qed.

(* on the well-formed bit vectors of the correctness theorems (RSBinB.bv_wf: whole lines, u64 words, padding bits
   zero, fewer than 2^43 bits) *)
Lemma wf_sizes bv : RSBinB.bv_wf bv ->
  len (bv_words bv) mod 8 = 0 /\ Forall (fun w => w < 2 ^ 64) (bv_words bv) /\ len (bv_words bv) <= 2 ^ 57.
Proof.
  intros Hwf. pose proof (RSBinB.wf_len bv Hwf) as Hl. pose proof (RSBinB.wf_nbits bv Hwf) as (_ & Hn & H43).
  split; [lia|]. split; [exact (RSBinB.wf_ok bv Hwf)|lia].
Qed.

Corollary g_rsn_new_wf : forall bv r, RSBinB.bv_wf bv -> rsn_new bv = Val r ->
  g_rsn_new (chunks 8 (bv_words bv)) (bv_nbits bv) (bv_nones bv)
  = Val (chunks 8 (bv_words bv), bv_nbits bv, bv_nones bv, rsn_pairs r, [rsn_samples0 r; rsn_samples1 r]).
Proof.
  intros bv r Hwf Hr. destruct (wf_sizes bv Hwf) as (H8 & HW & HL). now apply g_rsn_new_ok.
Qed.

(* ------------------------------------------------------------------ RSNarrow end to end *)
(* the REGENERATED constructor followed by the REGENERATED queries answers like the list specification; the only
   hand-modelled step left is the construction of the bit vector (bv_from_bools) *)
Theorem g_rsn_new_of_bools_correct : forall bs bv, len bs < 2 ^ 43 -> bv_from_bools bs = Val bv ->
  exists pairs samples,
    g_rsn_new (chunks 8 (bv_words bv)) (bv_nbits bv) (bv_nones bv)
      = Val (chunks 8 (bv_words bv), bv_nbits bv, bv_nones bv, pairs, samples) /\
    (forall fuel k, (S (length pairs) <= fuel)%nat -> k < 2 ^ 64 ->
       g_rsn_select1 fuel (chunks 8 (bv_words bv)) (bv_nbits bv) pairs samples k = Val (select1_spec bs k)) /\
    (forall fuel k, (S (length pairs) <= fuel)%nat -> k < 2 ^ 64 ->
       g_rsn_select0 fuel (chunks 8 (bv_words bv)) (bv_nbits bv) pairs samples k = Val (select0_spec bs k)) /\
    (forall i, i < 2 ^ 64 ->
       g_rsn_rank1 (chunks 8 (bv_words bv)) (bv_nbits bv) pairs i
       = Val (if negb (len bs =? 0) && (i <=? len bs) then Some (rank1_spec bs i) else None)) /\
    g_rsn_n_ones (chunks 8 (bv_words bv)) (bv_nbits bv) pairs = Val (countb bs) /\
    g_rsn_n_zeros (chunks 8 (bv_words bv)) (bv_nbits bv) pairs = Val (len bs - countb bs) /\
    (forall i, g_bv_get (chunks 8 (bv_words bv)) (bv_nbits bv) i = Val (nthN bs i)) /\
    (forall i, 0 < len bs -> i <= len bs ->
       g_rsn_rank1_unchecked (chunks 8 (bv_words bv)) pairs i = Val (rank1_spec bs i)) /\
    (forall fuel k p, (S (length pairs) <= fuel)%nat -> select1_spec bs k = Some p ->
       g_rsn_select1_unchecked fuel (chunks 8 (bv_words bv)) pairs samples k = Val p) /\
    (forall fuel k p, (S (length pairs) <= fuel)%nat -> select0_spec bs k = Some p ->
       g_rsn_select0_unchecked fuel (chunks 8 (bv_words bv)) pairs samples k = Val p).
Proof.
  intros bs bv Hl Ebv.
  destruct (FnsRsn2Ok.g_rsn_of_bools_correct bs Hl) as (bv' & r & Ebv' & Er & H).
  rewrite Ebv in Ebv'. apply Val_inj in Ebv'. subst bv'.
  assert (Hl63 : len bs < 2 ^ 63) by lia.
  destruct (BitVecP.bv_from_bools_correct bs Hl63) as (bv' & Ebv' & Hinv & Habs).
  rewrite Ebv in Ebv'. apply Val_inj in Ebv'. subst bv'.
  assert (H43 : bv_nbits bv < 2 ^ 43) by (rewrite <- (BitVecP.inv_len bv Hinv), Habs; exact Hl).
  pose proof (BinFinalP.bv_inv_wf_rs bv Hinv H43) as Hwf.
  exists (rsn_pairs r), [rsn_samples0 r; rsn_samples1 r].
  split; [exact (g_rsn_new_wf bv r Hwf Er)|exact H].
Qed.

(* ================================================================== RSWide::new *)
(* the loop state of the generated code: (total_rank, word_pop, cur_metadata, select_samples, cur_hint_1,
   zeros_so_far, cur_hint_0, superblock_metadata) *)
Definition wgs (st : rsw_state) : NS :=
  (ws_total st, ws_pop st, ws_cur st, [rev (ws_s0 st); rev (ws_s1 st)], ws_hint1 st,
   ws_zeros st, ws_hint0 st, rev (ws_meta st)).

(* the loop body and what follows the loop, verbatim from Gen/FnsRsw2.v ([g_rsw_new_unfold] below) *)
Definition wbody {R} (b : N) (dl : list N) : NS -> outcome (step NS R) :=
  fun '(total_rank, word_pop, cur_metadata, select_samples, cur_hint_1, zeros_so_far, cur_hint_0, superblock_metadata) =>
      let! (total_rank, word_pop, cur_metadata) := (if N.eqb (b mod 8) 0 then
        let! total_rank := oadd 128 total_rank word_pop in
        let word_pop := 0 in
        let cur_metadata := 0 in
        let cur_metadata := N.lor cur_metadata total_rank in
        Val (total_rank, word_pop, cur_metadata)
      else
        let cur_metadata := N.shiftl cur_metadata 12 mod 2 ^ 128 in
        let cur_metadata := N.lor cur_metadata word_pop in
        Val (total_rank, word_pop, cur_metadata)
      ) in
      let! t1 := g_bline_n_ones dl in
      let! word_pop := oadd 128 word_pop t1 in
      let! t2 := oadd 128 total_rank word_pop in
      let! t3 := if 8192 =? 0 then Fault Panic else Val (t2 / 8192) in
      let! (select_samples, cur_hint_1) := (if N.ltb cur_hint_1 t3 then
        let! select_samples := push_at select_samples 1 (b / 8) in
        let! cur_hint_1 := oadd 128 cur_hint_1 1 in
        Val (select_samples, cur_hint_1)
      else
        Val (select_samples, cur_hint_1)
      ) in
      let! t4 := g_bline_n_zeros dl in
      let! zeros_so_far := oadd 128 zeros_so_far t4 in
      let! t5 := if 8192 =? 0 then Fault Panic else Val (zeros_so_far / 8192) in
      let! (select_samples, cur_hint_0) := (if N.ltb cur_hint_0 t5 then
        let! select_samples := push_at select_samples 0 (b / 8) in
        let! cur_hint_0 := oadd 128 cur_hint_0 1 in
        Val (select_samples, cur_hint_0)
      else
        Val (select_samples, cur_hint_0)
      ) in
      let! t6 := oadd 64 b 1 in
      let! superblock_metadata := (if N.eqb (t6 mod 8) 0 then
        let superblock_metadata := superblock_metadata ++ [cur_metadata] in
        Val superblock_metadata
      else
        Val superblock_metadata
      ) in
      Val (Next (total_rank, word_pop, cur_metadata, select_samples, cur_hint_1, zeros_so_far, cur_hint_0, superblock_metadata)).

Definition wtail (bv_data : list (list N)) (bv_n_bits bv_n_ones : N) (s : NS) :=
  let '(total_rank, word_pop, cur_metadata, select_samples, cur_hint_1, zeros_so_far, cur_hint_0, superblock_metadata) := s in
      let! total_rank := oadd 128 total_rank word_pop in
      let left_ := (len bv_data) mod 8 in
      let! (cur_metadata, superblock_metadata) := (if negb (N.eqb left_ 0) then
        let! r := for_loop (fun _ cur_metadata =>
            let cur_metadata := N.shiftl cur_metadata 12 mod 2 ^ 128 in
            let cur_metadata := N.lor cur_metadata word_pop in
            Val (Next cur_metadata)
          ) left_ (N.to_nat (8 - left_)) cur_metadata in
        match r with
        | Retd v => Val v
        | Done cur_metadata =>
            let superblock_metadata := superblock_metadata ++ [cur_metadata] in
            Val (cur_metadata, superblock_metadata)
        end
      else
        Val (cur_metadata, superblock_metadata)
      ) in
      let cur_metadata := 0 in
      let cur_metadata := N.lor cur_metadata total_rank in
      let cur_metadata := N.shiftl cur_metadata 84 mod 2 ^ 128 in
      let superblock_metadata := superblock_metadata ++ [cur_metadata] in
      let! t7 := osub (len superblock_metadata) 1 in
      let! select_samples := push_at select_samples 0 t7 in
      let! t8 := osub (len superblock_metadata) 1 in
      let! select_samples := push_at select_samples 1 t8 in
      let! t9 := g_bv_len bv_n_bits in
      let! n_zeros := osub t9 (total_rank mod 2 ^ 64) in
      Val (bv_data, bv_n_bits, bv_n_ones, superblock_metadata, select_samples, n_zeros).

Lemma g_rsw_new_unfold bv_data bv_n_bits bv_n_ones :
  g_rsw_new bv_data bv_n_bits bv_n_ones =
  (let! r := iteri_loop wbody 0 bv_data (0, 0, 0, [[0]; [0]], 0, 0, 0, []) in
   match r with
   | Retd v => Val v
   | Done s => wtail bv_data bv_n_bits bv_n_ones s
   end).
Proof. reflexivity. Qed.

(* bounds kept along the loop: b = number of lines already processed *)
Definition wbnd (st : rsw_state) (b : N) : Prop :=
  ws_total st + ws_pop st <= 512 * b /\ ws_zeros st <= 512 * b /\ ws_hint1 st <= b /\ ws_hint0 st <= b.

Lemma wbnd_line st b l : wbnd st b -> line_n_ones l <= 512 -> wbnd (rsw_line st b l) (b + 1).
Proof.
  intros (H1 & H2 & H3 & H4) Hp.
  destruct st as [meta total cur pop z s0 s1 h0 h1]. unfold wbnd, rsw_line in *.
  cbn [ws_meta ws_total ws_cur ws_pop ws_zeros ws_s0 ws_s1 ws_hint0 ws_hint1] in *.
  set (ones := line_n_ones l) in *.
  destruct (b mod 8 =? 0); cbv beta iota; destruct (h1 <? _); destruct (h0 <? _);
  cbn [ws_meta ws_total ws_cur ws_pop ws_zeros ws_s0 ws_s1 ws_hint0 ws_hint1]; lia.
Qed.

Lemma wbody_ok {R} b l st : len l = 8 -> Forall (fun w => w < 2 ^ 64) l -> b < 2 ^ 57 -> wbnd st b ->
  @wbody R b l (wgs st) = Val (Next (wgs (rsw_line st b l))).
Proof.
  intros Hl HF Hb (H1 & H2 & H3 & H4).
  pose proof (line_n_ones_le l HF) as Hp. rewrite Hl in Hp.
  destruct st as [meta total cur pop z s0 s1 h0 h1]. unfold wgs, wbody, rsw_line.
  unfold RSW_BLK_BITS, RSW_ONES_PER_HINT, RSW_ZEROS_PER_HINT, M128.
  cbn [ws_meta ws_total ws_cur ws_pop ws_zeros ws_s0 ws_s1 ws_hint0 ws_hint1] in *.
  rewrite g_bline_n_ones_ok, g_bline_n_zeros_ok by (assumption || lia).
  set (ones := line_n_ones l) in *.
  cbv zeta. change (8192 =? 0) with false. cbv iota.
  repeat (cbn [bind]; cbv beta iota; ostep).
  all: reflexivity.
Qed.

(* the hand model's loop over the flat word list, as a loop over the lines *)
Fixpoint rsw_lines (st : rsw_state) (b : N) (ls : list (list N)) : rsw_state :=
  match ls with [] => st | l :: ls' => rsw_lines (rsw_line st b l) (b + 1) ls' end.

Lemma rsw_loop_lines : forall ls st b, Forall (fun l => len l = 8) ls ->
  rsw_loop st b (concat ls) (length ls) = rsw_lines st b ls.
Proof.
  induction ls as [|l ls IH]; intros st b H8; [reflexivity|].
  inversion H8 as [|? ? Hl H8']; subst.
  assert (Hl' : length l = 8%nat) by (unfold len in Hl; lia).
  cbn [concat length rsw_loop rsw_lines].
  assert (E1 : firstn 8 (l ++ concat ls) = l).
  { rewrite firstn_app, Hl', Nat.sub_diag, firstn_O, app_nil_r. apply firstn_all2. lia. }
  assert (E2 : skipn 8 (l ++ concat ls) = concat ls).
  { rewrite skipn_app, Hl', Nat.sub_diag, skipn_O. rewrite skipn_all2 by lia. reflexivity. }
  destruct (l ++ concat ls) as [|x t] eqn:E.
  - destruct l; [cbn [length] in Hl'; lia|discriminate].
  - rewrite E1, E2. apply IH. exact H8'.
Qed.

Lemma wlines_ok {R} : forall ls b st, b + len ls <= 2 ^ 57 -> Forall (fun l => len l = 8) ls ->
  Forall (Forall (fun w => w < 2 ^ 64)) ls -> wbnd st b ->
  iteri_loop (@wbody R) b ls (wgs st) = Val (Done (wgs (rsw_lines st b ls))) /\
  wbnd (rsw_lines st b ls) (b + len ls).
Proof.
  induction ls as [|l ls IH]; intros b st Hb H8 HF Hbnd.
  - cbn [iteri_loop rsw_lines]. rewrite len_nil, N.add_0_r. split; [reflexivity|exact Hbnd].
  - inversion H8 as [|? ? Hl H8']; subst. inversion HF as [|? ? Hw HF']; subst. rewrite len_cons in *.
    cbn [iteri_loop rsw_lines]. rewrite wbody_ok by (assumption || lia). cbn [bind].
    replace (b + (len ls + 1)) with (b + 1 + len ls) by lia.
    apply IH; [lia|exact H8'|exact HF'|].
    apply wbnd_line; [exact Hbnd|]. pose proof (line_n_ones_le l Hw). lia.
Qed.

(* ------------------------------------------------------------------ RSWide::new *)
(* hypotheses: whole lines, u64 words, at most 2^57 lines; bv_n_ones is not read *)
Theorem g_rsw_new_ok : forall bv r n_ones,
  len (bv_words bv) mod 8 = 0 -> Forall (fun w => w < 2 ^ 64) (bv_words bv) -> len (bv_words bv) <= 2 ^ 57 ->
  rsw_new bv = Val r ->
  g_rsw_new (chunks 8 (bv_words bv)) (bv_nbits bv) n_ones
  = Val (chunks 8 (bv_words bv), bv_nbits bv, n_ones, rsw_meta r, [rsw_samples0 r; rsw_samples1 r], rsw_n_zeros r).
Proof.
  intros bv r n_ones H8 HW HL Hr.
  pose proof (len_chunks (bv_words bv) H8) as Hlc.
  pose proof (chunks_lines8 (bv_words bv) H8) as Hc8.
  rewrite g_rsw_new_unfold.
  set (st0 := mk_rsws [] 0 0 0 0 [0] [0] 0 0).
  change (0, 0, 0, [[0]; [0]], 0, 0, 0, []) with (wgs st0).
  destruct (@wlines_ok (list (list N) * N * N * list N * list (list N) * N) (chunks 8 (bv_words bv)) 0 st0) as (E & Hbnd).
  - rewrite Hlc. lia.
  - exact Hc8.
  - apply Forall_chunks. exact HW.
  - unfold wbnd, st0. cbn [ws_total ws_pop ws_zeros ws_hint1 ws_hint0]. lia.
  - rewrite E. cbn [bind].
    assert (Est : rsw_loop st0 0 (bv_words bv) (N.to_nat (len (bv_words bv) / 8)) = rsw_lines st0 0 (chunks 8 (bv_words bv))).
    { transitivity (rsw_loop st0 0 (concat (chunks 8 (bv_words bv))) (length (chunks 8 (bv_words bv)))).
      - f_equal; [symmetry; apply (concat_chunks 7)|]. rewrite <- Hlc. unfold len. lia.
      - apply rsw_loop_lines. exact Hc8. }
    unfold rsw_new in Hr. fold st0 in Hr. cbv zeta in Hr. rewrite Est in Hr.
    rewrite <- Hlc in Hr.
    set (st := rsw_lines st0 0 (chunks 8 (bv_words bv))) in *.
    destruct Hbnd as (Hb1 & _). rewrite N.add_0_l in Hb1.
    unfold wtail, wgs.
    unfold RSW_BLK_BITS_TAIL, RSW_SB_SHIFT, M128, bv_len in Hr.
    rewrite oadd_ok by lia. cbn [bind]. cbv zeta.
    unfold g_bv_len. rewrite N.lor_0_l.
    rewrite (N.mod_small (ws_total st + ws_pop st) (2 ^ 64)) by lia.
    remember (len (chunks 8 (bv_words bv)) mod 8 =? 0) as c eqn:Ec. destruct c; cbn [negb bind]; cbv beta iota.
    + binv Hr lastv El. binv Hr nz Ez. apply Val_inj in Hr. subst r.
      cbn [rsw_meta rsw_samples0 rsw_samples1 rsw_n_zeros].
      rewrite len_snoc, len_rev in *. rewrite len_cons in El.
      rewrite El. cbn [bind]. rewrite push_at_0. cbn [bind]. rewrite push_at_1. cbn [bind].
      rewrite Ez. cbn [bind rev]. reflexivity.
    + rewrite for_loop_iterN. cbn [bind].
      set (cur := iterN _ _ _) in *.
      binv Hr lastv El. binv Hr nz Ez. apply Val_inj in Hr. subst r.
      cbn [rsw_meta rsw_samples0 rsw_samples1 rsw_n_zeros].
      rewrite !len_snoc, len_rev in *. rewrite !len_cons in El.
      rewrite El. cbn [bind]. rewrite push_at_0. cbn [bind]. rewrite push_at_1. cbn [bind].
      rewrite Ez. cbn [bind rev]. reflexivity.
Qed.

Corollary g_rsw_new_wf : forall bv r, RSBinB.bv_wf bv -> rsw_new bv = Val r ->
  g_rsw_new (chunks 8 (bv_words bv)) (bv_nbits bv) (bv_nones bv)
  = Val (chunks 8 (bv_words bv), bv_nbits bv, bv_nones bv, rsw_meta r, [rsw_samples0 r; rsw_samples1 r], rsw_n_zeros r).
Proof.
  intros bv r Hwf Hr. destruct (wf_sizes bv Hwf) as (H8 & HW & HL). now apply g_rsw_new_ok.
Qed.

(* ------------------------------------------------------------------ RSWide end to end *)
Theorem g_rsw_new_of_bools_correct : forall bs bv, len bs < 2 ^ 43 -> bv_from_bools bs = Val bv ->
  exists meta samples n_zeros,
    g_rsw_new (chunks 8 (bv_words bv)) (bv_nbits bv) (bv_nones bv)
      = Val (chunks 8 (bv_words bv), bv_nbits bv, bv_nones bv, meta, samples, n_zeros) /\
    (forall fuel k, (S (length meta) <= fuel)%nat -> k < 2 ^ 64 ->
       g_rsw_select1 fuel (chunks 8 (bv_words bv)) (bv_nbits bv) meta samples n_zeros k = Val (select1_spec bs k)) /\
    (forall fuel k, (S (length meta) <= fuel)%nat -> k < 2 ^ 64 ->
       g_rsw_select0 fuel (chunks 8 (bv_words bv)) meta samples n_zeros k = Val (select0_spec bs k)) /\
    (forall i, i < 2 ^ 64 ->
       g_rsw_rank1 (chunks 8 (bv_words bv)) (bv_nbits bv) meta i
       = Val (if negb (len bs =? 0) && (i <=? len bs) then Some (rank1_spec bs i) else None)) /\
    g_rsw_n_ones (bv_nbits bv) n_zeros = Val (countb bs) /\
    g_rsw_n_zeros n_zeros = Val (len bs - countb bs) /\
    (forall i, g_rsw_get (chunks 8 (bv_words bv)) (bv_nbits bv) i = Val (nthN bs i)) /\
    (forall i, 0 < len bs -> i <= len bs ->
       g_rsw_rank1_unchecked (chunks 8 (bv_words bv)) meta i = Val (rank1_spec bs i)) /\
    (forall fuel k p, (S (length meta) <= fuel)%nat -> k < 2 ^ 64 -> select1_spec bs k = Some p ->
       g_rsw_select1_unchecked fuel (chunks 8 (bv_words bv)) meta samples k = Val p) /\
    (forall fuel k p, (S (length meta) <= fuel)%nat -> k < 2 ^ 64 -> select0_spec bs k = Some p ->
       g_rsw_select0_unchecked fuel (chunks 8 (bv_words bv)) meta samples k = Val p).
Proof.
  intros bs bv Hl Ebv.
  destruct (FnsRsw2Ok.rsw_gen_of_bools_correct bs Hl) as (bv' & r & Ebv' & Er & H).
  rewrite Ebv in Ebv'. apply Val_inj in Ebv'. subst bv'.
  destruct (FnsRsw2Ok.rsw_gen_of_bools_rank_correct_all bs bv r Hl Ebv Er) as (Hr1 & Hr1u).
  assert (Hl63 : len bs < 2 ^ 63) by lia.
  destruct (BitVecP.bv_from_bools_correct bs Hl63) as (bv' & Ebv' & Hinv & Habs).
  rewrite Ebv in Ebv'. apply Val_inj in Ebv'. subst bv'.
  assert (H43 : bv_nbits bv < 2 ^ 43) by (rewrite <- (BitVecP.inv_len bv Hinv), Habs; exact Hl).
  pose proof (BinFinalP.bv_inv_wf_rs bv Hinv H43) as Hwf.
  exists (rsw_meta r), [rsw_samples0 r; rsw_samples1 r], (rsw_n_zeros r).
  split; [exact (g_rsw_new_wf bv r Hwf Er)|].
  split; [intros fuel k Hf Hk; destruct (H fuel Hf) as (A & _); exact (A k Hk)|].
  split; [intros fuel k Hf Hk; destruct (H fuel Hf) as (_ & A & _); exact (A k Hk)|].
  split; [exact Hr1|].
  split; [destruct (H _ (le_n _)) as (_ & _ & A & _); exact A|].
  split; [destruct (H _ (le_n _)) as (_ & _ & _ & A & _); exact A|].
  split.
  { intros i. change (g_rsw_get (chunks 8 (bv_words bv)) (bv_nbits bv) i) with (g_bv_get (chunks 8 (bv_words bv)) (bv_nbits bv) i).
    rewrite g_bv_get_chunks, <- Habs. apply RSBinB.bv_get_correct. exact Hwf. }
  split; [exact Hr1u|].
  split; [intros fuel k p Hf Hk Hp; destruct (H fuel Hf) as (_ & _ & _ & _ & A & _); exact (A k p Hk Hp)|].
  intros fuel k p Hf Hk Hp; destruct (H fuel Hf) as (_ & _ & _ & _ & _ & A); exact (A k p Hk Hp).
Qed.

(* Nothing is missing: the size hypotheses of g_rsn_new_ok / g_rsw_new_ok (whole lines, u64 words, at most 2^57
   words) hold for every well-formed bit vector (wf_sizes), in particular for every vector bv_from_bools builds
   from fewer than 2^43 booleans (BitVecP.bv_from_bools_correct, BinFinalP.bv_inv_wf_rs).
   No mismatch between the generated constructors and the hand model was found:
     - RSNarrow::new: the checked operations of the source that the hand model does not have (`b * 8 + b1`,
       `next_rank += word_pop`, `cur_subrank += word_pop`, `cur_hint_{0,1} += 1`, `64 - word_pop`,
       `zeros_so_far += ..`) cannot fail: after g words all the counters are at most 64 * g (nbnd);
       `8 - len mod 8`, `len / 2 - 1` are the same checked subtractions on both sides.
     - RSWide::new: the u128 additions are bounded by 512 * (number of lines) (wbnd), `b + 1` by the number of
       lines, DataLine::n_ones is a sum of 8 popcounts (<= 512, so n_zeros = 512 - n_ones does not underflow),
       `total_rank as usize` does not truncate. *)
Print Assumptions g_bline_n_ones_ok.
Print Assumptions g_bline_n_zeros_ok.
Print Assumptions g_rsn_new_ok.
Print Assumptions g_rsn_new_wf.
Print Assumptions g_rsn_new_of_bools_correct.
Print Assumptions g_rsw_new_ok.
Print Assumptions g_rsw_new_wf.
Print Assumptions g_rsw_new_of_bools_correct.
