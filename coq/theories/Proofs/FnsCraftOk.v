(* T5: craft_wm_codes of src/quadwt/huffqwt.rs as REGENERATED from the source (Gen/FnsCraft.v,
   g_craft_wm_codes4) agrees with the hand model (Model/Huff.v, craft4) on every request on which the
   hand model returns a table, for every iteration order of the hash map; composed with Proofs/CraftP.v:
   the regenerated code assignment returns a wavelet-matrix compatible table for every admissible request.

   KNOWN DIFFERENCE (stated, not papered over; see g_craft_infeasible_example at the end): on an INFEASIBLE
   length profile (Kraft sum above 1: at some point j = m) the hand model faults (it keeps only the first m
   entries of the scratch array and indexes entry j), while the source reads a zero from the untouched part
   of the scratch array and returns a (meaningless) table.  The simulation is therefore one-directional:
   hand = Val tab -> generated = Val (contents tab, lengths tab). *)
From Coq Require Import ZArith Lia ZifyBool ZifyN ZifyNat Sorted Permutation.
From QwtModel Require Import ListX Loops ListXP BitsLib Huff Codes CraftArith CraftP FnsCraft.
Ltac Zify.zify_post_hook ::= Z.div_mod_to_equations.
Arguments N.add : simpl never.
Arguments N.sub : simpl never.
Arguments N.mul : simpl never.
Arguments N.eqb : simpl never.
Arguments N.ltb : simpl never.
Arguments N.leb : simpl never.
Arguments N.pred : simpl never.
Arguments N.of_nat : simpl never.
Arguments N.land : simpl never.
Arguments N.lor : simpl never.
Arguments N.shiftr : simpl never.
Arguments N.shiftl : simpl never.
Arguments N.div : simpl never.
Arguments N.modulo : simpl never.
Arguments N.pow : simpl never.

(* ================================================================ (1) helper facts *)
Notation dbl := (fun '(k, v) => (k, 2 * v)) (only parsing).
Notation by_snd := (fun p q : N * N => snd p <= snd q) (only parsing).

Lemma omapf_double : forall freq : list (N * N), Forall (fun p => 2 * snd p < 2 ^ 32) freq ->
  omapf (fun '(k, v_) => let! t1 := omul 32 v_ 2 in Val (k, t1)) freq = Val (map dbl freq).
Proof.
  induction freq as [|[k v] freq IH]; intros H; cbn [omapf map]; [reflexivity|].
  inversion H as [|? ? Hv H']; subst. cbn [snd] in Hv. rewrite (IH H'). unfold omul.
  destruct (N.ltb_spec (v * 2) (2 ^ 32)) as [_|Hge]; [|lia]. cbn [bind]. rewrite (N.mul_comm v 2). reflexivity.
Qed.

Lemma insert_by_perm {A} (key : A -> N) x : forall l, Permutation (insert_by key x l) (x :: l).
Proof.
  induction l as [|y l IH]; cbn [insert_by]; [apply Permutation_refl|].
  destruct (key x <=? key y); [apply Permutation_refl|].
  eapply Permutation_trans; [apply perm_skip; exact IH|apply perm_swap].
Qed.

Lemma sort_by_snd_perm {A} : forall l : list (A * N), Permutation (sort_by_snd l) l.
Proof.
  induction l as [|x l IH]; cbn [sort_by_snd fold_right]; [apply Permutation_refl|].
  eapply Permutation_trans; [apply insert_by_perm|]. apply perm_skip. exact IH.
Qed.

Lemma insert_by_sorted {A} (x : A * N) : forall l,
  StronglySorted (fun p q => snd p <= snd q) l ->
  StronglySorted (fun p q => snd p <= snd q) (insert_by snd x l).
Proof.
  induction l as [|y l IH]; intros H; cbn [insert_by].
  - constructor; constructor.
  - inversion H as [|? ? Hs Hy]; subst. destruct (N.leb_spec (snd x) (snd y)) as [Hle|Hgt].
    + constructor; [exact H|]. constructor; [exact Hle|].
      rewrite Forall_forall in Hy |- *. intros z Hz. specialize (Hy z Hz). cbv beta in Hy. lia.
    + constructor; [exact (IH Hs)|]. rewrite Forall_forall in Hy |- *. intros z Hz.
      apply (Permutation_in _ (insert_by_perm snd x l)) in Hz. destruct Hz as [<-|Hz]; [lia|exact (Hy z Hz)].
Qed.

Lemma sort_by_snd_sorted {A} : forall l : list (A * N),
  StronglySorted (fun p q => snd p <= snd q) (sort_by_snd l).
Proof.
  induction l as [|x l IH]; cbn [sort_by_snd fold_right]; [constructor|].
  apply insert_by_sorted. exact IH.
Qed.

Lemma sort_by_snd_id {A} : forall l : list (A * N),
  StronglySorted (fun p q => snd p <= snd q) l -> sort_by_snd l = l.
Proof.
  induction 1 as [|x l Hs IH Hx]; [reflexivity|]. cbn [sort_by_snd fold_right].
  fold (sort_by_snd l). rewrite IH. destruct l as [|y l]; [reflexivity|]. cbn [insert_by].
  inversion Hx as [|? ? Hxy _]; subst. destruct (N.leb_spec (snd x) (snd y)); [reflexivity|lia].
Qed.

Lemma sort_by_snd_len {A} (l : list (A * N)) : len (sort_by_snd l) = len l.
Proof. unfold len. rewrite (Permutation_length (sort_by_snd_perm l)). reflexivity. Qed.

(* ================================================================ (2) simulation of the core *)
(* ---- the machine operations when they succeed *)
Lemma osub_ok a b : b <= a -> osub a b = Val (a - b).
Proof. intros H. unfold osub. destruct (N.leb_spec b a); [reflexivity|lia]. Qed.
Lemma oadd_ok w a b : a + b < 2 ^ w -> oadd w a b = Val (a + b).
Proof. intros H. unfold oadd. destruct (N.ltb_spec (a + b) (2 ^ w)); [reflexivity|lia]. Qed.
Lemma omul_ok w a b : a * b < 2 ^ w -> omul w a b = Val (a * b).
Proof. intros H. unfold omul. destruct (N.ltb_spec (a * b) (2 ^ w)); [reflexivity|lia]. Qed.
Lemma oshr_ok w x s : s < w -> oshr w x s = Val (N.shiftr x s).
Proof. intros H. unfold oshr. destruct (N.ltb_spec s w); [reflexivity|lia]. Qed.
Lemma oshl_ok w x s : s < w -> N.shiftl x s < 2 ^ w -> oshl w x s = Val (N.shiftl x s).
Proof. intros H H2. unfold oshl. destruct (N.ltb_spec s w); [|lia]. rewrite N.mod_small by exact H2. reflexivity. Qed.

(* k << l for k <= 3 fits 32 bits when l <= 30 *)
Lemma shl_small k l : k <= 3 -> l <= 30 -> N.shiftl k l < 2 ^ 32.
Proof.
  intros Hk Hl. rewrite N.shiftl_mul_pow2.
  assert (2 ^ l <= 2 ^ 30) by (apply N.pow_le_mono_r; lia).
  change (2 ^ 32) with (4 * 2 ^ 30). nia.
Qed.

(* ---- reading an array cell with default 0 *)
Definition nthd (l : list N) (i : N) : N := match nthN l i with Some x => x | None => 0 end.

Lemma idx_nthd (l : list N) i : i < len l -> idx l i = Val (nthd l i).
Proof. intros H. unfold idx, nthd. destruct (nthN_lt_some l i H) as (a & ->). reflexivity. Qed.
Lemma nthN_nthd (l : list N) i : i < len l -> nthN l i = Some (nthd l i).
Proof. intros H. unfold nthd. destruct (nthN_lt_some l i H) as (a & ->). reflexivity. Qed.
Lemma nthd_setN (l : list N) i v k :
  nthd (setN l i v) k = if (k =? i) && (i <? len l) then v else nthd l k.
Proof.
  unfold nthd. destruct (N.eqb_spec k i) as [->|Hn]; cbn [andb].
  - destruct (N.ltb_spec i (len l)) as [Hi|Hi].
    + rewrite nthN_setN_same by exact Hi. reflexivity.
    + rewrite !nthN_none; [reflexivity|lia|rewrite setN_len; lia].
  - rewrite nthN_setN_other by (intros E; apply Hn; symmetry; exact E). reflexivity.
Qed.
Lemma nthd_app (a b : list N) i : nthd (a ++ b) i = if i <? len a then nthd a i else nthd b (i - len a).
Proof.
  unfold nthd. destruct (N.ltb_spec i (len a)) as [H|H].
  - rewrite nthN_app1 by exact H. reflexivity.
  - rewrite nthN_app2 by exact H. reflexivity.
Qed.
Lemma nthd_map0 (f : N -> N) l i : i < len l -> nthd (map f l) i = f (nthd l i).
Proof. intros H. unfold nthd. rewrite nthN_map. destruct (nthN_lt_some l i H) as (a & ->). reflexivity. Qed.
Lemma nthd_firstnN (l : list N) k i : i < k -> nthd (firstnN k l) i = nthd l i.
Proof. intros H. unfold nthd. rewrite nthN_firstnN. destruct (N.ltb_spec i k); [reflexivity|lia]. Qed.
Lemma nthd_skipnN (l : list N) k i : nthd (skipnN k l) i = nthd l (k + i).
Proof. unfold nthd. rewrite nthN_skipnN. reflexivity. Qed.
Lemma nthN_ext0 {A} (l1 : list A) : forall l2, (forall i, nthN l1 i = nthN l2 i) -> l1 = l2.
Proof.
  induction l1 as [|x l1 IH]; intros [|y l2] H.
  - reflexivity.
  - specialize (H 0). discriminate H.
  - specialize (H 0). discriminate H.
  - pose proof (H 0) as H0. rewrite !nthN_0 in H0. injection H0 as ->. f_equal.
    apply IH. intros i. specialize (H (i + 1)). now rewrite !nthN_succ in H.
Qed.
Lemma nthd_ext (l1 l2 : list N) : len l1 = len l2 ->
  (forall i, i < len l1 -> nthd l1 i = nthd l2 i) -> l1 = l2.
Proof.
  intros Hl H. apply nthN_ext0. intros i. destruct (N.ltb_spec i (len l1)) as [Hi|Hi].
  - rewrite !nthN_nthd by lia. f_equal. apply H. exact Hi.
  - rewrite !nthN_none by lia. reflexivity.
Qed.

Ltac nthd_eq :=
  match goal with
  | |- N.lor (nthd ?c ?a) ?s = N.lor (nthd ?c ?b) ?s => apply (f_equal (fun z => N.lor (nthd c z) s)); lia
  | |- nthd ?c ?a = nthd ?c ?b => apply (f_equal (fun z => nthd c z)); lia
  end.

(* ---- one iteration of `for r in j..m` (d = m - j): the four writes, all reading the old c[r]
   (the three copies go to indices >= m, different from r) *)
Definition step4 (d l : N) (c : list N) (r : N) : list N :=
  let x := nthd c r in
  setN (setN (setN (setN c (d * 3 + r) x) (d * 2 + r) (N.lor x (N.shiftl 1 l)))
             (d * 1 + r) (N.lor x (N.shiftl 2 l))) r (N.lor x (N.shiftl 3 l)).

Lemma step4_len d l c r : len (step4 d l c r) = len c.
Proof. unfold step4. cbv zeta. rewrite !setN_len. reflexivity. Qed.

Lemma step4_nthd d l c r i : 0 < d -> d * 3 + r < len c ->
  nthd (step4 d l c r) i =
    if i =? r then N.lor (nthd c r) (N.shiftl 3 l)
    else if i =? d * 1 + r then N.lor (nthd c r) (N.shiftl 2 l)
    else if i =? d * 2 + r then N.lor (nthd c r) (N.shiftl 1 l)
    else if i =? d * 3 + r then nthd c r else nthd c i.
Proof.
  intros Hd Hr. unfold step4. cbv zeta. rewrite !nthd_setN, !setN_len.
  repeat match goal with |- context [if ?b then _ else _] => destruct b eqn:?; try lia end; reflexivity.
Qed.

(* the array after the iterations r .. m-1, cell by cell *)
Definition expd (j m l r : N) (c : list N) (i : N) : N :=
  let d := m - j in
  if (r <=? i) && (i <? m) then N.lor (nthd c i) (N.shiftl 3 l)
  else if (d + r <=? i) && (i <? d + m) then N.lor (nthd c (i - d)) (N.shiftl 2 l)
  else if (2 * d + r <=? i) && (i <? 2 * d + m) then N.lor (nthd c (i - 2 * d)) (N.shiftl 1 l)
  else if (3 * d + r <=? i) && (i <? 3 * d + m) then nthd c (i - 3 * d)
  else nthd c i.

Lemma inner_pt {R} (body : N -> list N -> outcome (step (list N) R)) j m l size :
  j <= m -> 4 * m - 3 * j <= size ->
  (forall r c, j <= r -> r < m -> len c = size -> body r c = Val (Next (step4 (m - j) l c r))) ->
  forall n r c, r + N.of_nat n = m -> j <= r -> len c = size ->
  exists c', for_loop body r n c = Val (Done c') /\ len c' = size /\
             forall i, nthd c' i = expd j m l r c i.
Proof.
  intros Hjm Hsz Hbody. induction n as [|n IH]; intros r c Hn Hjr Hlen; cbn [for_loop].
  - exists c. split; [reflexivity|]. split; [exact Hlen|]. intros i. unfold expd. cbv zeta.
    repeat match goal with |- context [if ?b then _ else _] => destruct b eqn:?; try lia end; reflexivity.
  - rewrite (Hbody r c Hjr ltac:(lia) Hlen). cbn [bind].
    destruct (IH (r + 1) (step4 (m - j) l c r) ltac:(lia) ltac:(lia)) as (c' & E & L & P).
    { rewrite step4_len. exact Hlen. }
    exists c'. split; [exact E|]. split; [exact L|]. intros i. rewrite P. unfold expd. cbv zeta.
    rewrite !step4_nthd by lia.
    repeat match goal with |- context [if ?b then _ else _] => destruct b eqn:?; try lia end;
      try reflexivity; nthd_eq.
Qed.

(* the first 4m - 3j cells after the whole loop = the hand model's list expression *)
Lemma inner_list j m l (c c' : list N) : j <= m -> m <= len c -> 4 * m - 3 * j <= len c ->
  len c' = len c -> (forall i, nthd c' i = expd j m l j c i) ->
  let cl := firstnN m c in
  let act := skipnN j cl in
  let tag := fun k => map (fun x => N.lor x (N.shiftl k l)) act in
  firstnN (4 * m - 3 * j) c' = firstnN j cl ++ tag 3 ++ tag 2 ++ tag 1 ++ act.
Proof.
  intros Hjm Hm Hsz Hlen P cl act tag.
  assert (Lcl : len cl = m) by (apply len_firstnN_le'; exact Hm).
  assert (Lpre : len (firstnN j cl) = j) by (apply len_firstnN_le'; lia).
  assert (Lact : len act = m - j) by (unfold act; rewrite len_skipnN'; lia).
  assert (Ltag : forall k, len (tag k) = m - j) by (intros k; unfold tag; rewrite len_map; exact Lact).
  assert (Ll : len (firstnN (4 * m - 3 * j) c') = 4 * m - 3 * j) by (apply len_firstnN_le'; lia).
  apply nthd_ext.
  - rewrite Ll. rewrite !len_app, Lpre, !Ltag, Lact. lia.
  - rewrite Ll. intros i Hi. rewrite nthd_firstnN by exact Hi. rewrite P. unfold expd. cbv zeta.
    rewrite !nthd_app, Lpre, !Ltag.
    assert (Hact : forall q, q < m - j -> nthd act q = nthd c (j + q)).
    { intros q Hq. unfold act, cl. rewrite nthd_skipnN, nthd_firstnN by lia. reflexivity. }
    assert (Htag : forall k q, q < m - j -> nthd (tag k) q = N.lor (nthd c (j + q)) (N.shiftl k l)).
    { intros k q Hq. unfold tag. rewrite nthd_map0 by (rewrite Lact; exact Hq). rewrite Hact by exact Hq. reflexivity. }
    repeat match goal with |- context [if ?b then _ else _] => destruct b eqn:?; try lia end.
    all: first [ rewrite Htag by lia | rewrite Hact by lia | unfold cl; rewrite !nthd_firstnN by lia ];
      try reflexivity; nthd_eq.
Qed.

(* ---- the whole `for r in j..m` = craft_expand on the first m cells *)
Lemma expand_sim {R} (body : N -> list N -> outcome (step (list N) R)) j m l size c cl' :
  len c = size -> j <= m -> m <= size ->
  (4 * m - 3 * j <= size -> l < 32 ->
   forall r c, j <= r -> r < m -> len c = size -> body r c = Val (Next (step4 (m - j) l c r))) ->
  craft_expand 2 (firstnN m c) j l size = Val cl' ->
  exists c', for_loop body j (N.to_nat (m - j)) c = Val (Done c') /\ len c' = size /\
             len cl' = 4 * m - 3 * j /\ len cl' <= size /\ l < 32 /\ firstnN (len cl') c' = cl'.
Proof.
  intros Hlen Hjm Hm Hbody H.
  assert (Lcl : len (firstnN m c) = m) by (apply len_firstnN_le'; lia).
  destruct (craft_expand_spec 2 (firstnN m c) j l size cl' (or_intror eq_refl) ltac:(lia) H) as (Hl & _ & Hs & HL).
  rewrite Lcl in HL. change (2 ^ 2) with 4 in HL.
  assert (Hsz : 4 * m - 3 * j <= size) by lia.
  destruct (inner_pt body j m l size Hjm Hsz (Hbody Hsz Hl) (N.to_nat (m - j)) j c ltac:(lia) ltac:(lia) Hlen)
    as (c' & E & L & P).
  exists c'. split; [exact E|]. split; [exact L|]. split; [lia|]. split; [exact Hs|]. split; [exact Hl|].
  unfold craft_expand in H. cbv zeta in H.
  destruct (N.leb_spec 32 l) as [Hl'|_]; [lia|]. cbn [bind] in H. change (2 =? 2) with true in H. cbv iota in H.
  match type of H with (if ?b then _ else _) = _ => destruct b end; [|discriminate].
  injection H as <-.
  pose proof (inner_list j m l c c' Hjm ltac:(lia) ltac:(lia) ltac:(lia) P) as Q. cbv zeta in Q.
  match goal with |- firstnN (len ?x) _ = _ => replace (len x) with (4 * m - 3 * j) by lia end.
  exact Q.
Qed.

(* ---- `while f[j].1 > l { ... }` = craft_grow *)
Lemma grow_sim {R} (cond : list N * N * N -> outcome bool)
  (wbody : list N * N * N -> outcome (step (list N * N * N) R)) j target size :
  (forall c m l, cond (c, m, l) = Val (l <? target)) ->
  (forall c m l cl', len c = size -> j <= m -> m <= size -> m <= 2 ^ 32 -> l <= 30 ->
     craft_expand 2 (firstnN m c) j l size = Val cl' ->
     exists c', wbody (c, m, l) = Val (Next (c', len cl', l + 2)) /\ len c' = size /\
                firstnN (len cl') c' = cl') ->
  forall fh fg c m l cl' l',
  craft_grow 2 (firstnN m c) j l target size fh = Val (cl', l') ->
  len c = size -> j <= m -> m <= size -> l mod 2 = 0 -> l <= 32 -> m <= 2 ^ l ->
  (N.to_nat ((32 - l) / 2) < fg)%nat ->
  exists c', while_loop cond wbody fg (c, m, l) = Val (Done (c', len cl', l')) /\ len c' = size /\
    firstnN (len cl') c' = cl' /\ j <= len cl' /\ len cl' <= size /\ l' mod 2 = 0 /\ l' <= 32 /\
    len cl' <= 2 ^ l'.
Proof.
  intros Hc Hb. induction fh as [|fh IH]; intros fg c m l cl' l' H Hlen Hjm Hm Hev Hl32 Hpow Hfg;
    cbn [craft_grow] in H; [discriminate|].
  destruct fg as [|fg]; [lia|]. cbn [while_loop]. rewrite Hc. cbn [bind].
  assert (Lcl : len (firstnN m c) = m) by (apply len_firstnN_le'; lia).
  destruct (N.ltb_spec l target) as [Hlt|Hge].
  - destruct (craft_expand 2 (firstnN m c) j l size) as [cl1|] eqn:E; cbn [bind] in H; [|discriminate].
    destruct (craft_expand_spec 2 (firstnN m c) j l size cl1 (or_intror eq_refl) ltac:(lia) E) as (Hl & _ & Hs & HL).
    rewrite Lcl in HL. change (2 ^ 2) with 4 in HL.
    assert (Hl30 : l <= 30) by lia.
    assert (Hm32 : m <= 2 ^ 32).
    { assert (2 ^ l <= 2 ^ 32) by (apply N.pow_le_mono_r; lia). lia. }
    destruct (Hb c m l cl1 Hlen Hjm Hm Hm32 Hl30 E) as (c1 & E1 & L1 & F1). rewrite E1. cbn [bind].
    rewrite <- F1 in H.
    assert (Hp1 : len cl1 <= 2 ^ (l + 2)).
    { rewrite N.pow_add_r. change (2 ^ 2) with 4. lia. }
    apply (IH fg c1 (len cl1) (l + 2) cl' l' H L1); try lia.
  - injection H as <- <-. exists c. rewrite Lcl. split; [reflexivity|]. split; [exact Hlen|].
    split; [reflexivity|]. lia.
Qed.

(* ---- the reversal of the 2-bit fragments = rev_frags *)
Lemma rev_sim_gen {R} (body : N -> N -> outcome (step N R)) cj l :
  (forall k acc, 2 * k + 2 <= l ->
     body k acc = Val (Next (N.lor acc (N.shiftl (N.land (N.shiftr cj (2 * k)) 3) (l - 2 * k - 2))))) ->
  forall n k acc fuel, (n <= fuel)%nat -> 2 * k + 2 * N.of_nat n = l ->
  for_loop body k n acc = Val (Done (N.lor acc (rev_frags 2 cj l (2 * k) fuel))).
Proof.
  intros Hb. induction n as [|n IH]; intros k acc fuel Hf Hl; cbn [for_loop].
  - destruct fuel as [|fuel]; cbn [rev_frags].
    + rewrite N.lor_0_r. reflexivity.
    + destruct (N.ltb_spec (2 * k) l); [lia|]. rewrite N.lor_0_r. reflexivity.
  - destruct fuel as [|fuel]; [lia|]. cbn [rev_frags]. rewrite Hb by lia. cbn [bind].
    destruct (N.ltb_spec (2 * k) l); [|lia].
    rewrite (IH (k + 1) _ fuel) by lia. replace (2 * (k + 1)) with (2 * k + 2) by lia.
    change (2 ^ 2 - 1) with 3. rewrite N.lor_assoc. reflexivity.
Qed.

Lemma rev_sim {R} (body : N -> N -> outcome (step N R)) cj l : l mod 2 = 0 -> l <= 32 ->
  (forall k acc, 2 * k + 2 <= l ->
     body k acc = Val (Next (N.lor acc (N.shiftl (N.land (N.shiftr cj (2 * k)) 3) (l - 2 * k - 2))))) ->
  for_loop body 0 (N.to_nat ((l - 0 + 1) / 2)) 0 = Val (Done (rev_frags 2 cj l 0 40)).
Proof.
  intros Hev Hl Hb. rewrite (rev_sim_gen body cj l Hb _ 0 0 40%nat) by lia.
  rewrite N.lor_0_l. reflexivity.
Qed.

(* ---- `for j in 0..alph_size` = craft_assign; the table is kept as its two columns *)
Notation ostate := (list N * N * N * list N * list N)%type (only parsing).

Lemma assign_sim {R} (obody : N -> ostate -> outcome (step ostate R)) (f : list (N * N)) size :
  (forall j c m l table sym target cl' l' cj,
     len c = size -> j <= m -> m <= size -> l mod 2 = 0 -> l <= 32 -> m <= 2 ^ l ->
     nthN f j = Some (sym, target) ->
     craft_grow 2 (firstnN m c) j l target size 40 = Val (cl', l') ->
     idx cl' j = Val cj -> sym < len table ->
     exists c',
       obody j (c, m, l, map pc_content table, map pc_len table) =
         Val (Next (c', len cl', l',
                    map pc_content (setN table sym (mk_pc (rev_frags 2 cj l' 0 40) l')),
                    map pc_len (setN table sym (mk_pc (rev_frags 2 cj l' 0 40) l')))) /\
       len c' = size /\ firstnN (len cl') c' = cl' /\ len cl' <= size /\
       l' mod 2 = 0 /\ l' <= 32 /\ len cl' <= 2 ^ l') ->
  forall rest pre c m l table tab, f = pre ++ rest ->
  craft_assign 2 rest (firstnN m c) (len pre) l size table = Val tab ->
  len c = size -> len pre <= m -> m <= size -> l mod 2 = 0 -> l <= 32 -> m <= 2 ^ l ->
  exists c' m' l',
    for_loop obody (len pre) (length rest) (c, m, l, map pc_content table, map pc_len table) =
      Val (Done (c', m', l', map pc_content tab, map pc_len tab)).
Proof.
  intros Hob. induction rest as [|[sym target] rest IH]; intros pre c m l table tab Hf H Hlen Hj Hm Hev Hl Hp;
    cbn [craft_assign] in H; cbn [for_loop length].
  - injection H as <-. exists c, m, l. reflexivity.
  - destruct (craft_grow 2 (firstnN m c) (len pre) l target size 40) as [[cl' l']|] eqn:EG;
      cbn [bind] in H; [|discriminate].
    destruct (idx cl' (len pre)) as [cj|] eqn:EI; cbn [bind] in H; [|discriminate].
    destruct (N.ltb_spec sym (len table)) as [Hs|Hs]; cbn [bind] in H; [|discriminate].
    assert (Hn : nthN f (len pre) = Some (sym, target)).
    { rewrite Hf, nthN_app2 by lia. rewrite N.sub_diag. apply nthN_0. }
    destruct (Hob (len pre) c m l table sym target cl' l' cj Hlen Hj Hm Hev Hl Hp Hn EG EI Hs)
      as (c' & E & L & F & S1 & S2 & S3 & S4).
    rewrite E. cbn [bind].
    assert (Hjl : len pre < len cl').
    { unfold idx in EI. destruct (nthN cl' (len pre)) eqn:EN; [|discriminate]. exact (nthN_some_lt _ _ _ EN). }
    rewrite <- F in H.
    replace (len pre + 1) with (len (pre ++ [(sym, target)])) in * by (rewrite len_app; reflexivity).
    apply (IH (pre ++ [(sym, target)]) c' (len cl') l' _ tab); try assumption.
    + rewrite <- app_assoc. exact Hf.
    + rewrite len_app. change (len [(sym, target)]) with 1. lia.
Qed.

(* ---- small facts for the walk through the generated text *)
Lemma map_setN {A B} (g : A -> B) : forall (l : list A) i v, map g (setN l i v) = setN (map g l) i (g v).
Proof.
  induction l as [|x l IH]; intros i v; cbn [setN map]; [reflexivity|].
  destruct (i =? 0); cbn [map]; [reflexivity|]. rewrite IH. reflexivity.
Qed.
Lemma map_repeat0 {A B} (g : A -> B) x n : map g (repeat x n) = repeat (g x) n.
Proof. induction n as [|n IH]; cbn [repeat map]; [reflexivity|]. rewrite IH. reflexivity. Qed.
Lemma idx_firstnN_full (c : list N) n j x : idx (firstnN n c) j = Val x -> idx c j = Val x.
Proof.
  unfold idx. rewrite nthN_firstnN. destruct (j <? n); [|discriminate]. intros H; exact H.
Qed.
Lemma land3_le x : N.land x 3 <= 3.
Proof.
  change 3 with (N.ones 2) at 1. rewrite N.land_ones. change (2 ^ 2) with 4.
  assert (x mod 4 < 4) by (apply N.mod_lt; lia). lia.
Qed.

Ltac oside := first [ apply shl_small; [first [apply land3_le | lia] | lia]
                    | rewrite ?setN_len, ?len_map; lia ].
Ltac ostep :=
  lazymatch goal with
  | |- bind (idx ?l ?i) _ = _ => rewrite (idx_nthd l i) by oside
  | |- bind (osub ?a ?b) _ = _ => rewrite (osub_ok a b) by oside
  | |- bind (omul ?w ?a ?b) _ = _ => rewrite (omul_ok w a b) by oside
  | |- bind (oadd ?w ?a ?b) _ = _ => rewrite (oadd_ok w a b) by oside
  | |- bind (oshl ?w ?a ?b) _ = _ => rewrite (oshl_ok w a b) by oside
  | |- bind (oshr ?w ?a ?b) _ = _ => rewrite (oshr_ok w a b) by oside
  end; cbn [bind].

(* ================================================================ the simulation theorem *)
(* arbitrary iteration order of the hash map: the hand model is run on the stably sorted request *)
Theorem g_craft_sim : forall fuel freq sigma tab,
  let f := sort_by_snd (map dbl freq) in
  Forall (fun p => 2 * snd p < 2 ^ 32) freq -> 4 * len freq < 2 ^ 64 -> sigma + 1 < 2 ^ 64 ->
  (17 <= fuel)%nat ->
  craft4 f sigma = Val tab ->
  g_craft_wm_codes4 fuel freq sigma = Val (map pc_content tab, map pc_len tab).
Proof.
  intros fuel freq sigma tab f HF Hsz Hsig Hfuel H.
  unfold g_craft_wm_codes4. cbv zeta. rewrite (omapf_double freq HF). cbn [bind]. fold f.
  rewrite (omul_ok 64 (len freq) 4) by lia. cbn [bind].
  rewrite (oadd_ok 64 sigma 1) by lia. cbn [bind].
  assert (Lf : len f = len freq).
  { unfold f. rewrite sort_by_snd_len, len_map. reflexivity. }
  unfold craft4, craft_wm_codes in H. rewrite Lf in H.
  set (size := len freq * 4) in *.
  set (table0 := repeat pc_zero (N.to_nat (sigma + 1))) in *.
  replace (repeat 0 (N.to_nat (sigma + 1))) with (map pc_content table0) at 1
    by (unfold table0; rewrite map_repeat0; reflexivity).
  replace (repeat 0 (N.to_nat (sigma + 1))) with (map pc_len table0)
    by (unfold table0; rewrite map_repeat0; reflexivity).
  replace (N.to_nat (len freq - 0)) with (length f)
    by (unfold len in Lf |- *; lia).
  destruct f as [|p0 f0] eqn:Ef.
  { cbn [craft_assign] in H. injection H as <-. cbn [length for_loop bind]. reflexivity. }
  assert (Hne : 0 < len f) by (rewrite Ef; rewrite len_cons; lia).
  rewrite <- Ef in *. clear p0 f0 Ef.
  assert (Hc0 : firstnN 1 (repeat 0 (N.to_nat size)) = [0]).
  { destruct (N.to_nat size) as [|k] eqn:Ek; [lia|]. cbn [repeat firstnN]. change (1 =? 0) with false. cbv iota.
    destruct (repeat 0 k); reflexivity. }
  rewrite <- Hc0 in H.
  match goal with |- context [for_loop ?ob 0 (length f) _] =>
    destruct (assign_sim ob f size) with (rest := f) (pre := @nil (N * N)) (c := repeat 0 (N.to_nat size))
      (m := 1) (l := 0) (table := table0) (tab := tab) as (c' & m' & l' & EL)
  end.
  - (* one iteration of the outer loop *)
    intros j c m l table sym target cl' l' cj Hlen Hjm Hm Hev Hl32 Hpow Hn EG EI Hs.
    cbv beta iota.
    assert (Hfj : idx f j = Val (sym, target)) by (unfold idx; rewrite Hn; reflexivity).
    match goal with |- context [while_loop ?cd ?wb fuel _] =>
      destruct (grow_sim cd wb j target size) with (fh := 40%nat) (fg := fuel) (c := c) (m := m) (l := l)
        (cl' := cl') (l' := l') as (c' & EW & L' & F' & J' & S' & Ev' & L32' & P')
    end; try assumption.
    + intros c0 m0 l0. cbv beta iota. rewrite Hfj. cbn [bind snd]. reflexivity.
    + (* one iteration of the while loop *)
      intros c0 m0 l0 cl0 Hlen0 Hjm0 Hm0 Hm32 Hl30 E0. cbv beta iota.
      match goal with |- context [for_loop ?b j _ c0] =>
        destruct (expand_sim b j m0 l0 size c0 cl0 Hlen0 Hjm0 Hm0) as (c1 & E1 & L1 & LL1 & S1 & Hl0 & F1)
      end; [|exact E0|].
      * (* one iteration of `for r in j..m` *)
        intros Hs4 _ r c1 Hjr Hrm Hlen1. cbv beta.
        repeat ostep.
        unfold step4. cbv zeta. rewrite !nthd_setN.
        repeat match goal with |- context [?a =? ?b] =>
          destruct (N.eqb_spec a b) as [Habs|_]; [exfalso; lia|] end.
        cbn [andb]. reflexivity.
      * exists c1. split; [|split; assumption]. rewrite E1. cbn [bind]. cbv iota. repeat ostep.
        replace (4 * m0 - 3 * j) with (len cl0) by lia. reflexivity.
    + lia.
    + exists c'. split; [|repeat (split; [assumption|]); assumption].
      rewrite EW. cbn [bind]. cbv iota.
      pose proof (idx_firstnN_full c' (len cl') j cj ltac:(rewrite F'; exact EI)) as Ecj.
      match goal with |- context [for_loop ?b 0 (N.to_nat ((l' - 0 + 1) / 2)) 0] =>
        rewrite (rev_sim b cj l' Ev' L32')
      end.
      * cbn [bind]. cbv iota. rewrite Hfj. cbn [bind fst]. ostep.
        rewrite !map_setN. cbn [pc_content pc_len]. reflexivity.
      * intros k acc Hk. cbv beta. rewrite Ecj. cbn [bind].
        replace (0 + k * 2) with (2 * k) by lia. repeat ostep. reflexivity.
  - reflexivity.
  - exact H.
  - unfold len. rewrite repeat_length. lia.
  - change (len []) with 0. lia.
  - lia.
  - reflexivity.
  - lia.
  - change (2 ^ 0) with 1. lia.
  - change (@len (N * N) []) with 0 in EL. rewrite EL. cbn [bind]. reflexivity.
Qed.

(* the request already sorted by length (the order the sorted vector has): the sort is the identity *)
Theorem g_craft_core_sim : forall fuel freq sigma tab,
  let f := map dbl freq in
  StronglySorted (fun p q => snd p <= snd q) f ->
  Forall (fun p => 2 * snd p < 2 ^ 32) freq -> 4 * len freq < 2 ^ 64 -> sigma + 1 < 2 ^ 64 ->
  (17 <= fuel)%nat ->
  craft4 f sigma = Val tab ->
  g_craft_wm_codes4 fuel freq sigma = Val (map pc_content tab, map pc_len tab).
Proof.
  intros fuel freq sigma tab f HS HF Hsz Hsig Hfuel H. subst f.
  apply g_craft_sim; try assumption. cbv zeta. rewrite (sort_by_snd_id _ HS). exact H.
Qed.

(* ================================================================ (3) end to end with Proofs/CraftP.v *)
(* whenever the hand model returns, the request has at most 2^32 symbols (at most 4^16 codewords of <= 32 bits) *)
Lemma grow_bound target size : forall fh c j l cl' l',
  craft_grow 2 c j l target size fh = Val (cl', l') ->
  j <= len c -> l mod 2 = 0 -> l <= 32 -> len c <= 2 ^ l ->
  l' mod 2 = 0 /\ l' <= 32 /\ len cl' <= 2 ^ l' /\ j <= len cl'.
Proof.
  induction fh as [|fh IH]; intros c j l cl' l' H Hj Hev Hl Hp; cbn [craft_grow] in H; [discriminate|].
  destruct (N.ltb_spec l target) as [Hlt|Hge].
  - destruct (craft_expand 2 c j l size) as [c1|] eqn:E; cbn [bind] in H; [|discriminate].
    destruct (craft_expand_spec 2 c j l size c1 (or_intror eq_refl) Hj E) as (Hl' & _ & _ & HL).
    change (2 ^ 2) with 4 in HL.
    assert (Hp1 : len c1 <= 2 ^ (l + 2)) by (rewrite N.pow_add_r; change (2 ^ 2) with 4; lia).
    apply (IH c1 j (l + 2) cl' l' H); lia.
  - injection H as <- <-. lia.
Qed.

Lemma assign_bound size : forall f c j l table tab,
  craft_assign 2 f c j l size table = Val tab ->
  j <= len c -> l mod 2 = 0 -> l <= 32 -> len c <= 2 ^ l -> j + len f <= 2 ^ 32.
Proof.
  induction f as [|[sym target] f IH]; intros c j l table tab H Hj Hev Hl Hp; cbn [craft_assign] in H.
  - change (len []) with 0. assert (2 ^ l <= 2 ^ 32) by (apply N.pow_le_mono_r; lia). lia.
  - destruct (craft_grow 2 c j l target size 40) as [[cl' l']|] eqn:EG; cbn [bind] in H; [|discriminate].
    destruct (idx cl' j) as [cj|] eqn:EI; cbn [bind] in H; [|discriminate].
    destruct (N.ltb_spec sym (len table)) as [Hs|Hs]; cbn [bind] in H; [|discriminate].
    destruct (grow_bound target size _ c j l cl' l' EG Hj Hev Hl Hp) as (B1 & B2 & B3 & B4).
    assert (Hjl : j < len cl').
    { unfold idx in EI. destruct (nthN cl' j) eqn:EN; [|discriminate]. exact (nthN_some_lt _ _ _ EN). }
    pose proof (IH cl' (j + 1) l' _ tab H ltac:(lia) B1 B2 B3). rewrite len_cons. lia.
Qed.

Lemma craft4_len_bound f sigma tab : craft4 f sigma = Val tab -> len f <= 2 ^ 32.
Proof.
  unfold craft4, craft_wm_codes. intros H.
  pose proof (assign_bound _ f [0] 0 0 _ tab H) as B. change (len [0]) with 1 in B. change (2 ^ 0) with 1 in B.
  specialize (B ltac:(lia) eq_refl ltac:(lia) ltac:(lia)). lia.
Qed.

(* The REGENERATED code assignment returns a wavelet-matrix compatible table for every admissible request
   (lengths in fragments, any iteration order of the hash map): the hypotheses are those of craft_total
   (C02_craft_total) on the sorted request f, plus sigma + 1 < 2^64 (`vec![..; sigma + 1]`: the hand model does
   not check this addition; C02_new_end_to_end assumes maxN seq < 2^64 - 1 for the same reason); the conclusion
   is that of craft_table_ok (C02_craft_compatible), with the realised lengths also stated on the hash map. *)
Theorem g_craft_end_to_end : forall fuel freq sigma,
  let f := sort_by_snd (map dbl freq) in
  craft_input_ok 2 f sigma -> Forall (fun p => snd p <= 32) f -> craft_fits 2 f (len f * 4) = true ->
  sigma + 1 < 2 ^ 64 -> (17 <= fuel)%nat ->
  exists tab, g_craft_wm_codes4 fuel freq sigma = Val (map pc_content tab, map pc_len tab) /\
    craft4 f sigma = Val tab /\
    len tab = sigma + 1 /\
    (forall sym l, In (sym, l) f -> exists c, nthN tab sym = Some c /\ pc_len c = l /\ code_wf 2 c = true) /\
    (forall sym v, In (sym, v) freq -> exists c, nthN tab sym = Some c /\ pc_len c = 2 * v /\ code_wf 2 c = true) /\
    (forall sym, ~ In sym (map fst f) -> sym <= sigma -> nthN tab sym = Some pc_zero) /\
    code_wm_ok 2 tab (map fst f) = true.
Proof.
  intros fuel freq sigma f Hok H32 Hfit Hsig Hfuel.
  destruct (craft_total 2 f sigma (len f * 4) Hok H32 Hfit) as (tab & Htab).
  assert (H4 : craft4 f sigma = Val tab) by exact Htab.
  pose proof (craft4_len_bound f sigma tab H4) as Hlen.
  assert (Lf : len f = len freq) by (unfold f; rewrite sort_by_snd_len, len_map; reflexivity).
  assert (Hin : forall sym v, In (sym, v) freq -> In (sym, 2 * v) f).
  { intros sym v Hi. unfold f. apply (Permutation_in _ (Permutation_sym (sort_by_snd_perm _))).
    apply in_map_iff. exists (sym, v). split; [reflexivity|exact Hi]. }
  assert (HF : Forall (fun p => 2 * snd p < 2 ^ 32) freq).
  { apply Forall_forall. intros [k v] Hp. cbn [snd]. rewrite Forall_forall in H32.
    pose proof (H32 _ (Hin k v Hp)) as Q. cbn [snd] in Q. lia. }
  destruct (craft_table_ok 2 f sigma (len f * 4) tab Hok Htab) as (T1 & T2 & T3 & T4).
  exists tab. split.
  - apply g_craft_sim; try assumption. lia.
  - split; [exact H4|]. split; [exact T1|]. split; [exact T2|]. split; [|split; [exact T3|exact T4]].
    intros sym v Hi. exact (T2 sym (2 * v) (Hin sym v Hi)).
Qed.

(* ================================================================ (4) the known difference, and a positive example *)
(* lengths in fragments: one symbol of length 1, eleven of length 2, FIVE of length 3: Kraft sum 65/64 > 1.
   The hand model faults (entry j = m of its list does not exist); the source reads the zero of the
   untouched scratch cell and returns a table (which is not a prefix code). *)
Definition ex_infeasible : list (N * N) :=
  [(2, 1); (0, 2); (1, 2); (3, 2); (4, 2); (5, 2); (6, 2); (7, 2); (8, 2); (9, 2); (10, 2); (11, 2);
   (12, 3); (13, 3); (14, 3); (15, 3); (16, 3)].
Example g_craft_infeasible_example :
  craft4 (sort_by_snd (map dbl ex_infeasible)) 16 = Fault Panic /\
  g_craft_wm_codes4 40 ex_infeasible 16 =
    Val ([11; 7; 3; 3; 10; 6; 2; 9; 5; 1; 8; 4; 3; 2; 1; 0; 0],
         [4; 4; 2; 4; 4; 4; 4; 4; 4; 4; 4; 4; 6; 6; 6; 6; 6]).      (* symbols 15 and 16: the same code *)
Proof. split; vm_compute; reflexivity. Qed.

(* the feasible 16-symbol profile (lengths 1, eleven 2s, four 3s; Kraft sum 1), in a shuffled order *)
Definition ex_feasible : list (N * N) :=
  [(12, 3); (0, 2); (1, 2); (3, 2); (13, 3); (4, 2); (5, 2); (2, 1); (6, 2); (7, 2); (8, 2); (14, 3); (9, 2);
   (10, 2); (11, 2); (15, 3)].
Example g_craft_feasible_example :
  exists tab, craft4 (sort_by_snd (map dbl ex_feasible)) 15 = Val tab /\
              g_craft_wm_codes4 17 ex_feasible 15 = Val (map pc_content tab, map pc_len tab).
Proof. eexists. split; vm_compute; reflexivity. Qed.

(* SUMMARY.
   Proved: g_craft_sim (any order of the hash map), g_craft_core_sim (sorted request), g_craft_end_to_end.
   Hypotheses of the simulation: every length v (in fragments) has 2 * v < 2^32 (`v * 2` on u32);
   4 * len freq < 2^64 (`alph_size * 4`); sigma + 1 < 2^64 (`sigma + 1`); fuel >= 17 for the `while` loop
   (l is even and at most 32 whenever the hand model returns: at most 16 rounds per symbol);
   hand model = Val tab.  Nothing else: 4 * m, 3 * j, (m - j) * k + r, k << l, l + 2, l - t - 2 are shown in
   range from the hand run itself (m <= 2^l <= 2^32, l even, l <= 30 at every expansion).
   In g_craft_end_to_end 4 * len freq < 2^64 is derived (a returning hand run has at most 2^32 symbols).
   Differences hand model / source, both in the direction "source defined or faulting where the model is not":
   (a) infeasible profiles (g_craft_infeasible_example): hand Fault Panic, source returns a meaningless table;
   (b) sigma = 2^64 - 1: the source overflows in `sigma + 1`, the hand model does not check (hypothesis above). *)
Print Assumptions omapf_double.
Print Assumptions sort_by_snd_perm.
Print Assumptions sort_by_snd_sorted.
Print Assumptions sort_by_snd_id.
Print Assumptions g_craft_core_sim.
Print Assumptions g_craft_sim.
Print Assumptions g_craft_end_to_end.
Print Assumptions g_craft_infeasible_example.
Print Assumptions g_craft_feasible_example.
