(* C03 helper: the binary wavelet tree, part 3: construction of one level (bv_from_bools then
   rsw_new give an RSWide vector satisfying [lvl_spec], by Proofs/BitVecP.v and Proofs/RSBinP.v)
   and of all the levels of the PLAIN tree: level l stores the bits [wm_levels] of the generic
   wavelet matrix (arity 2, digit [bdig L]). *)
From Coq Require Import ZArith Lia ZifyBool ZifyN ZifyNat.
From QwtModel Require Import ListX Seq QWT BitVec RSBin Huff ListXP QVecP RSQList RSQWord RSQBuild RSBinL RSBinB RSBinP BitVecP.
From QwtModel Require Import WaveletMatrix QWTArith BinWTBase.
Ltac Zify.zify_post_hook ::= Z.div_mod_to_equations.
Arguments N.add : simpl never.
Arguments N.sub : simpl never.
Arguments N.mul : simpl never.
Arguments N.eqb : simpl never.
Arguments N.ltb : simpl never.
Arguments N.leb : simpl never.
Arguments N.pred : simpl never.
Arguments N.of_nat : simpl never.
Arguments N.land : simpl never.
Arguments N.lor : simpl never.
Arguments N.shiftr : simpl never.
Arguments N.shiftl : simpl never.
Arguments N.div : simpl never.
Arguments N.modulo : simpl never.
Arguments N.pow : simpl never.
Arguments N.sqrt : simpl never.
Arguments N.log2 : simpl never.
Arguments N.max : simpl never.

(* the small lemma asked for: the invariant of BitVecP gives the well-formedness of RSBinB *)
Lemma bv_inv_wf b : bv_inv b -> bv_nbits b < 2 ^ 43 -> bv_wf b.
Proof.
  intros (H1 & H2 & H3 & _ & _) H. unfold bv_wf. repeat split; assumption.
Qed.

Lemma flat_some {A B} (g : A -> B) l :
  flat_map (fun o : option B => match o with Some d => [d] | None => [] end) (map (fun s => Some (g s)) l) =
  map g l.
Proof. induction l as [|a l IH]; cbn [map flat_map app]; [reflexivity|]. now rewrite IH. Qed.

Definition bools (D : list N) : list bool := map (fun d => d =? 1) D.

Lemma len_bools D : len (bools D) = len D.
Proof. apply len_map. Qed.

(* the invariant of a built tree (both flavours): level l is an RSWide vector over [Ds l] *)
Definition btree_ok (Ds : nat -> list N) (M : nat) (bvs : list rswide) (lens : list N) : Prop :=
  forall l, (l < M)%nat ->
    (exists r, nthN bvs (N.of_nat l) = Some r /\ lvl_spec r (Ds l)) /\
    nthN lens (N.of_nat l) = Some (len (Ds l)).

Lemma btree_ok_cons (Ds : nat -> list N) l0 n r rs ln lens :
  lvl_spec r (Ds l0) -> ln = len (Ds l0) ->
  btree_ok (fun j => Ds (S l0 + j)%nat) n rs lens ->
  btree_ok (fun j => Ds (l0 + j)%nat) (S n) (r :: rs) (ln :: lens).
Proof.
  intros Hr Hln HT j Hj. destruct j as [|j].
  - rewrite Nat.add_0_r. change (N.of_nat 0) with 0. rewrite !nthN_0. split; [eauto|now rewrite Hln].
  - replace (N.of_nat (S j)) with (N.of_nat j + 1) by lia. rewrite !nthN_succ.
    replace (l0 + S j)%nat with (S l0 + j)%nat by lia. apply HT. lia.
Qed.

Section Build.
Hypothesis select_in_word_correct : forall w k, w < 2 ^ 64 -> k < 128 ->
  select_in_word w k = Val (match select_spec (bits_of 64 w) 1 k with Some p => p | None => 64 end).
Hypothesis popcount_correct : forall n x, x < 2 ^ N.of_nat n -> popcount x = countN 1 (bits_of n x).

(* one level *)
Lemma rsw_level_ok D : bin D -> 0 < len D -> len D < RSQ_MAXN ->
  exists bv r, bv_from_bools (bools D) = Val bv /\ rsw_new bv = Val r /\ lvl_spec r D /\ bv_len bv = len D.
Proof.
  intros HD Hpos Hn. rewrite RSQ_MAXN_val in Hn.
  assert (E43 : 2 ^ 43 = 8796093022208) by reflexivity.
  assert (E63 : 2 ^ 63 = 9223372036854775808) by reflexivity.
  assert (E64 : 2 ^ 64 = 18446744073709551616) by reflexivity.
  destruct (bv_from_bools_correct (bools D)) as (bv & Ebv & Hinv & Habs); [rewrite len_bools; lia|].
  pose proof (inv_len bv Hinv) as Hl. rewrite Habs, len_bools in Hl.
  assert (Hwf : bv_wf bv) by (apply bv_inv_wf; [exact Hinv|lia]).
  destruct (rsw_correct select_in_word_correct popcount_correct bv Hwf)
    as (r & Er & Hbv & Hspec & Hru & _ & _).
  exists bv, r. split; [exact Ebv|]. split; [exact Er|]. split; [|unfold bv_len; lia].
  rewrite Habs in Hspec, Hru. unfold bin_spec in Hspec.
  destruct Hspec as (_ & Hr1 & Hr0 & Hs1 & Hs0 & _ & Hnz).
  unfold rank1_spec, rank0_spec, select1_spec, select0_spec in *.
  unfold bools in Hr1, Hr0, Hs1, Hs0, Hnz, Hru. rewrite (map_N_of_bool_bin D HD) in Hr1, Hr0, Hs1, Hs0, Hru.
  fold (bools D) in Hr1, Hr0, Hnz, Hru. rewrite len_bools in Hr1, Hr0, Hnz, Hru.
  assert (Hne : (len D =? 0) = false) by lia. rewrite Hne in Hr1, Hr0. cbn [negb andb] in Hr1, Hr0.
  unfold lvl_spec. split; [exact HD|]. split; [exact Hpos|]. split; [lia|].
  split; [|split; [|split; [|split; [|split; [|split]]]]].
  - intros i d Ei. unfold rsw_get_unchecked. rewrite Hbv.
    pose proof (nthN_some_lt _ _ _ Ei) as Hi.
    rewrite (bv_get_unchecked_correct bv i Hinv) by (rewrite Habs, len_bools; exact Hi).
    rewrite Habs. f_equal.
    assert (En : nthN (bools D) i = Some (d =? 1)).
    { unfold bools. rewrite nthN_map, Ei. reflexivity. }
    rewrite nthN_nthb in En by (rewrite len_bools; exact Hi). now injection En.
  - intros i Hi. destruct (Hru i Hpos Hi) as [H1 _]. rewrite H1, rank_spec_lrank. reflexivity.
  - intros i. rewrite Hr1, rank_spec_lrank. reflexivity.
  - intros i. rewrite Hr0, rank_spec_lrank. reflexivity.
  - exact Hs1.
  - exact Hs0.
  - injection Hnz as Hnz. rewrite Hnz, loccs_smaller_1 by exact HD.
    rewrite countb_countN. unfold bools. rewrite (map_N_of_bool_bin D HD). reflexivity.
Qed.

(* ---------------------------------------------------------------- the plain tree *)
Definition blev (L l : nat) (s : list N) : list N := lev N 2 (bdig L) l s.
Definition bD (L l : nat) (s : list N) : list N := map (bdig L l) (blev L l s).

Lemma blev_len L l s : len (blev L l s) = len s.
Proof. apply (lev_length N 2 (bdig L) (bdig_lt L)). Qed.
Lemma bD_len L l s : len (bD L l s) = len s.
Proof. unfold bD. now rewrite len_map, blev_len. Qed.
Lemma blev_S L l s : blev L (S l) s = parts N (bdig L) l 2 (blev L l s).
Proof. reflexivity. Qed.
Lemma bD_bin L l s : bin (bD L l s).
Proof.
  unfold bD, bin. apply Forall_forall. intros d Hd. apply in_map_iff in Hd.
  destruct Hd as (x & <- & _). exact (bdig_lt2 L l x).
Qed.

Lemma wt_levels_plain_ok w L s : 0 < len s -> len s < RSQ_MAXN -> N.of_nat L <= w ->
  forall n l0, (l0 + n = L)%nat ->
  exists rs lens, wt_levels w false (blev L l0 s) [] (N.of_nat L) (N.of_nat l0 + 1) n = Val (rs, lens) /\
    btree_ok (fun j => bD L (l0 + j) s) n rs lens.
Proof.
  intros Hpos Hn Hw. induction n as [|n IH]; intros l0 Hl.
  - exists [], []. split; [reflexivity|]. intros j Hj. lia.
  - cbn [wt_levels].
    assert (Hsh : osub (N.of_nat L) (N.of_nat l0 + 1) = Val (N.of_nat (L - 1 - l0))).
    { unfold osub. destruct (N.leb_spec (N.of_nat l0 + 1) (N.of_nat L)); [f_equal; lia|lia]. }
    rewrite Hsh. cbn [bind].
    assert (Hlt : N.of_nat (L - 1 - l0) < w) by lia.
    rewrite (mapo_val _ (fun x => Some (bdig L l0 x =? 1))).
    2:{ intros x _. cbn [bind]. rewrite (one_bit_bdig w L l0 x Hlt). reflexivity. }
    cbn [bind]. rewrite (flat_some (fun x => bdig L l0 x =? 1)).
    assert (EB : map (fun x => bdig L l0 x =? 1) (blev L l0 s) = bools (bD L l0 s)).
    { unfold bools, bD. now rewrite map_map. }
    rewrite EB.
    destruct (rsw_level_ok (bD L l0 s) (bD_bin L l0 s)) as (bv & r & Ebv & Er & Hr & Hlen);
      [rewrite bD_len; exact Hpos|rewrite bD_len; exact Hn|].
    rewrite Ebv. cbn [bind]. rewrite Er. cbn [bind].
    rewrite (stable_partition_2_parts w L l0 _ Hlt). cbn [bind]. rewrite <- blev_S.
    destruct (IH (S l0) ltac:(lia)) as (rs & lens & E & HT).
    replace (N.of_nat l0 + 1 + 1) with (N.of_nat (S l0) + 1) by lia.
    rewrite E. cbn [bind]. exists (r :: rs), (bv_len bv :: lens). split; [reflexivity|].
    apply (btree_ok_cons (fun j => bD L j s)); [exact Hr|exact Hlen|exact HT].
Qed.

End Build.
