(* The public constructors of the bit-vector iterators, regenerated (Gen/FnsIters.v: BitVector / BitVectorMut ::ones, zeros,
   ones_with_pos, zeros_with_pos, iter): the word view of the data lines handed to the iterator constructors.  Composed with
   Proofs/FnsItersOk.v: the whole public path  bv.ones_with_pos(p) / bv.zeros() ... then next, next, ...  through regenerated
   functions only yields the positions of the bit in the abstract bit list. *)
From Coq Require Import ZArith Lia.
From QwtModel Require Import ListX Loops Consts Words BitVec ListXP BitsLib BitVecW BitVecIter BitVecP
  LeavesUtils FnsBv FnsIters FnsBvOk FnsItersOk.
Open Scope N_scope.

Definition g_bv_positions_from (mutable bit : bool) (data : list (list N)) (n_bits pos : N) :=
  match mutable, bit with
  | false, true => g_bv_ones_with_pos data n_bits pos
  | false, false => g_bv_zeros_with_pos data n_bits pos
  | true, true => g_bvm_ones_with_pos data n_bits pos
  | true, false => g_bvm_zeros_with_pos data n_bits pos
  end.
Definition g_bv_positions (mutable bit : bool) (data : list (list N)) (n_bits : N) :=
  match mutable, bit with
  | false, true => g_bv_ones data n_bits
  | false, false => g_bv_zeros data n_bits
  | true, true => g_bvm_ones data n_bits
  | true, false => g_bvm_zeros data n_bits
  end.

Lemma g_bv_positions_from_words mutable bit data n_bits pos :
  g_bv_positions_from mutable bit data n_bits pos = g_pi_with_pos bit (concat data) n_bits pos.
Proof. destruct mutable, bit; reflexivity. Qed.
Lemma g_bv_positions_words mutable bit data n_bits :
  g_bv_positions mutable bit data n_bits = g_pi_new bit (concat data) n_bits.
Proof. destruct mutable, bit; reflexivity. Qed.

(* every public way to obtain a position iterator (immutable / mutable vector, ones / zeros, from the start / from a position),
   then repeated next: the positions of the bit, in increasing order *)
Theorem g_bv_positions_public : forall mutable bit b pos fuelw n,
  bv_inv b -> pos < 2 ^ 64 -> (S (length (bv_words b)) <= fuelw)%nat -> len (bv_abs b) < N.of_nat n ->
  (let! (d, nb, cp, cwp, cw) := g_bv_positions_from mutable bit (chunks 8 (bv_words b)) (bv_nbits b) pos in
   g_pi_collect bit fuelw d nb cp cwp cw n) = Val (positions_from bit (bv_abs b) pos) /\
  (let! (d, nb, cp, cwp, cw) := g_bv_positions mutable bit (chunks 8 (bv_words b)) (bv_nbits b) in
   g_pi_collect bit fuelw d nb cp cwp cw n) = Val (positions_from bit (bv_abs b) 0).
Proof.
  intros mutable bit b pos fuelw n Hinv Hpos Hf Hn.
  rewrite g_bv_positions_from_words, g_bv_positions_words, (concat_chunks 7 (bv_words b)).
  exact (g_positions_correct bit b pos fuelw n Hinv Hpos Hf Hn).
Qed.

(* bv.iter() then next: the bits in order, then None for ever; len exact *)
Theorem g_bv_iter_public : forall b, bv_inv b ->
  g_bv_iter (chunks 8 (bv_words b)) (bv_nbits b) = Val (bv_words b, bv_nbits b, 0) /\
  g_bvm_iter (chunks 8 (bv_words b)) (bv_nbits b) = Val (bv_words b, bv_nbits b, 0) /\
  forall i, g_bvit_next (bv_words b) (bv_nbits b) i
            = Val (bv_words b, bv_nbits b, (if i <? len (bv_abs b) then i + 1 else i), nthN (bv_abs b) i) /\
            (i <= len (bv_abs b) -> g_bvit_len (bv_nbits b) i = Val (len (bv_abs b) - i)).
Proof.
  intros b Hinv. unfold g_bv_iter, g_bvm_iter. rewrite (concat_chunks 7 (bv_words b)).
  split; [reflexivity|]. split; [reflexivity|]. intros i. exact (g_bvit_correct b i Hinv).
Qed.
Print Assumptions g_bv_positions_public.
Print Assumptions g_bv_iter_public.
