(* BitVectorIntoIter::next / len regenerated (Gen/FnsIters.v): the owning bit iterator yields the bits in order and then None for
   ever; its index stops at the length; len is exact. *)
From Coq Require Import ZArith Lia ZifyBool ZifyN ZifyNat.
From QwtModel Require Import ListX Loops Consts Words BitVec ListXP BitsLib BitVecP LeavesUtils FnsBv FnsIters FnsBvOk.
Open Scope N_scope.

Theorem g_bvinto_correct : forall b i, bv_inv b ->
  g_bvinto_next (chunks 8 (bv_words b)) (bv_nbits b) (bv_nones b) i
  = Val (chunks 8 (bv_words b), bv_nbits b, bv_nones b, (if i <? len (bv_abs b) then i + 1 else i), nthN (bv_abs b) i) /\
  (i <= len (bv_abs b) -> g_bvinto_len (bv_nbits b) i = Val (len (bv_abs b) - i)).
Proof.
  intros b i H. pose proof (inv_len b H) as Hl. pose proof (inv_small b H) as Hs. split.
  - unfold g_bvinto_next. rewrite g_bv_get_chunks, (bv_get_correct b i H). cbn [bind].
    destruct (N.ltb_spec i (len (bv_abs b))) as [Hi|Hi].
    + destruct (nthN_lt_some (bv_abs b) i Hi) as (x & Ex). rewrite Ex. unfold oadd.
      destruct (N.ltb_spec (i + 1) (2 ^ 64)) as [_|Hge]; [reflexivity|]. exfalso. rewrite Hl in Hi. assert (2 ^ 63 < 2 ^ 64) by (apply N.pow_lt_mono_r; lia). lia.
    + rewrite (nthN_none (bv_abs b) i Hi). reflexivity.
  - intros Hi. unfold g_bvinto_len, osub. rewrite <- Hl. destruct (N.leb_spec i (len (bv_abs b))) as [_|Hlt]; [reflexivity|lia].
Qed.
Print Assumptions g_bvinto_correct.
