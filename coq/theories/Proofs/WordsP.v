(* Correctness of the word-level leaf functions of Model/Words.v: popcount, popcnt_wide, msb,
   the in-byte select table and the broadword select (Vigna) on u64 / u128.
   Every statement is for ALL inputs; finite per-byte facts are established by complete
   enumeration (vm_compute of a forallb over the 256 byte values, lifted by forallb_forall). *)
From Coq Require Import ZArith Lia ZifyBool ZifyN ZifyNat.
From QwtModel Require Import ListX Consts SelTable Seq Words ListXP.
Ltac Zify.zify_post_hook ::= Z.div_mod_to_equations.
Arguments N.add : simpl never.
Arguments N.sub : simpl never.
Arguments N.mul : simpl never.
Arguments N.div : simpl never.
Arguments N.modulo : simpl never.
Arguments N.land : simpl never.
Arguments N.lor : simpl never.
Arguments N.shiftl : simpl never.
Arguments N.shiftr : simpl never.
Arguments N.eqb : simpl never.
Arguments N.ltb : simpl never.
Arguments N.leb : simpl never.
Arguments N.pow : simpl never.
Arguments N.pred : simpl never.
Arguments N.of_nat : simpl never.
Arguments N.testbit : simpl never.
Arguments N.log2 : simpl never.

(* ------------------------------------------------------------------ seqN *)
Lemma seqN_app s n m : seqN s (n + m) = seqN s n ++ seqN (s + N.of_nat n) m.
Proof.
  revert s. induction n as [|n IH]; intros s; cbn [seqN Nat.add app].
  - f_equal. lia.
  - f_equal. rewrite IH. do 2 f_equal. lia.
Qed.
Lemma seqN_shift d n : forall s, seqN (s + d) n = map (fun i => i + d) (seqN s n).
Proof.
  induction n as [|n IH]; intros s; cbn [seqN map]; [reflexivity|].
  f_equal. rewrite <- IH. f_equal. lia.
Qed.
Lemma in_seqN i n : forall s, In i (seqN s n) <-> s <= i < s + N.of_nat n.
Proof.
  induction n as [|n IH]; intros s; cbn [seqN In].
  - lia.
  - rewrite IH. lia.
Qed.
Lemma seqN_length n : forall s, length (seqN s n) = n.
Proof. induction n as [|n IH]; intros s; cbn [seqN length]; [reflexivity|]. now rewrite IH. Qed.

(* complete enumeration of the values below a (small) bound *)
Lemma forall_below (P : N -> bool) (n : nat) :
  forallb P (seqN 0 n) = true -> forall b, b < N.of_nat n -> P b = true.
Proof.
  intros H b Hb. rewrite forallb_forall in H. apply H. apply in_seqN. lia.
Qed.

(* ------------------------------------------------------------------ bits_of / popcount *)
Lemma pow2_pos k : 0 < 2 ^ k.
Proof. apply N.neq_0_lt_0, N.pow_nonzero. discriminate. Qed.
Lemma pow2_nz k : 2 ^ k <> 0.
Proof. apply N.pow_nonzero. discriminate. Qed.

Lemma bits_of_length n x : length (bits_of n x) = n.
Proof. unfold bits_of. now rewrite map_length, seqN_length. Qed.
Lemma bits_of_len n x : len (bits_of n x) = N.of_nat n.
Proof. unfold len. now rewrite bits_of_length. Qed.

Lemma bits_of_app n m x :
  bits_of (n + m) x = bits_of n (x mod 2 ^ N.of_nat n) ++ bits_of m (x / 2 ^ N.of_nat n).
Proof.
  unfold bits_of. rewrite seqN_app, map_app. f_equal.
  - apply map_ext_in. intros i Hi. apply in_seqN in Hi.
    rewrite N.mod_pow2_bits_low by lia. reflexivity.
  - rewrite seqN_shift, map_map. apply map_ext. intros i.
    rewrite N.div_pow2_bits. reflexivity.
Qed.

Lemma split_mod k a x : a < 2 ^ k -> (a + 2 ^ k * x) mod 2 ^ k = a.
Proof.
  intros H. rewrite (N.mul_comm (2 ^ k)), N.mod_add by apply pow2_nz. now apply N.mod_small.
Qed.
Lemma split_div k a x : a < 2 ^ k -> (a + 2 ^ k * x) / 2 ^ k = x.
Proof.
  intros H. rewrite (N.mul_comm (2 ^ k)), N.div_add by apply pow2_nz.
  rewrite N.div_small by assumption. lia.
Qed.

Lemma bits_of_split n m a x : a < 2 ^ N.of_nat n ->
  bits_of (n + m) (a + 2 ^ N.of_nat n * x) = bits_of n a ++ bits_of m x.
Proof. intros H. rewrite bits_of_app, split_mod, split_div by assumption. reflexivity. Qed.

Lemma popcount_b2 b y : b < 2 -> popcount (b + 2 * y) = b + popcount y.
Proof.
  intros H. assert (Hb : b = 0 \/ b = 1) by lia.
  destruct Hb as [-> | ->]; destruct y; reflexivity.
Qed.

Lemma popcount_step x : popcount x = x mod 2 + popcount (x / 2).
Proof.
  rewrite <- popcount_b2 by (apply N.mod_lt; discriminate).
  f_equal. rewrite N.add_comm. apply N.div_mod. discriminate.
Qed.

Theorem popcount_correct : forall n x, x < 2 ^ N.of_nat n -> popcount x = countN 1 (bits_of n x).
Proof.
  induction n as [|n IH]; intros x Hx.
  - change (2 ^ N.of_nat 0) with 1 in Hx. assert (x = 0) by lia. subst. reflexivity.
  - change (S n) with (1 + n)%nat. rewrite bits_of_app, countN_app.
    change (2 ^ N.of_nat 1) with 2.
    rewrite <- IH.
    + rewrite popcount_step. f_equal.
      assert (Hm : x mod 2 = 0 \/ x mod 2 = 1) by lia.
      destruct Hm as [-> | ->]; reflexivity.
    + replace (2 ^ N.of_nat (S n)) with (2 * 2 ^ N.of_nat n) in Hx.
      * apply N.div_lt_upper_bound; [discriminate|assumption].
      * rewrite <- N.pow_succ_r'. f_equal. lia.
Qed.

Lemma popcount_split (k : nat) a x : a < 2 ^ N.of_nat k ->
  popcount (a + 2 ^ N.of_nat k * x) = popcount a + popcount x.
Proof.
  revert a. induction k as [|k IH]; intros a Ha.
  - change (2 ^ N.of_nat 0) with 1 in *. assert (a = 0) by lia. subst.
    rewrite N.mul_1_l. reflexivity.
  - assert (E : 2 ^ N.of_nat (S k) = 2 * 2 ^ N.of_nat k).
    { rewrite <- N.pow_succ_r'. f_equal. lia. }
    rewrite E in *.
    rewrite (popcount_step a).
    replace (a + 2 * 2 ^ N.of_nat k * x) with (a mod 2 + 2 * (a / 2 + 2 ^ N.of_nat k * x)).
    + rewrite popcount_b2 by (apply N.mod_lt; discriminate).
      rewrite IH; [lia|]. apply N.div_lt_upper_bound; [discriminate|assumption].
    + pose proof (N.div_mod a 2). lia.
Qed.

Theorem popcnt_wide_correct : forall n data, popcnt_wide n data = sumN (map popcount (firstn n data)).
Proof. reflexivity. Qed.

Theorem popcnt_wide_bits : forall n data, Forall (fun x => x < 2 ^ 64) data ->
  popcnt_wide n data = countN 1 (concat (map (bits_of 64) (firstn n data))).
Proof.
  intros n data H. unfold popcnt_wide.
  assert (HF : Forall (fun x => x < 2 ^ 64) (firstn n data)).
  { clear -H. revert n. induction H as [|x l Hx HF IH]; intros [|n]; cbn [firstn]; auto. }
  induction HF as [|x l Hx HF IH]; [reflexivity|].
  cbn [map sumN concat]. rewrite countN_app, IH. f_equal.
  apply popcount_correct. exact Hx.
Qed.

Theorem msb_w_correct : forall w v, 0 < w -> v < 2 ^ w ->
  msb_w w v = Val (if v =? 0 then 0 else N.log2 v) /\ (v <> 0 -> 2 ^ N.log2 v <= v < 2 ^ (N.log2 v + 1)).
Proof.
  intros w v Hw Hv. split.
  - unfold msb_w. destruct (N.eqb_spec v 0) as [->|Hn]; [reflexivity|].
    assert (Hl : N.log2 v < w) by (apply N.log2_lt_pow2; lia).
    unfold osub. destruct (N.leb_spec (w - 1 - N.log2 v) (w - 1)); [|lia].
    f_equal. lia.
  - intros Hn. rewrite N.add_1_r. apply N.log2_spec. lia.
Qed.
(* ------------------------------------------------------------------ the in-byte table *)
Definition sel8 (b r : N) : N :=
  match select_spec (bits_of 8 b) 1 r with Some p => p | None => 8 end.

Definition sel_table_check (b : N) : bool :=
  forallb (fun r => match nthN sel_table (b + 256 * r) with
                    | Some v => v =? sel8 b r
                    | None => false
                    end) (seqN 0 8).

Lemma sel_table_check_all : forallb sel_table_check (seqN 0 256) = true.
Proof. vm_compute. reflexivity. Qed.

Lemma sel_table_ok : forall b r, b < 256 -> r < 8 ->
  nthN sel_table (b + 256 * r) = Some (match select_spec (bits_of 8 b) 1 r with Some p => p | None => 8 end).
Proof.
  intros b r Hb Hr.
  pose proof (forall_below _ 256 sel_table_check_all b Hb) as H.
  unfold sel_table_check in H.
  pose proof (forall_below _ 8 H r Hr) as H'. cbv beta in H'.
  destruct (nthN sel_table (b + 256 * r)) as [v|]; [|discriminate].
  apply N.eqb_eq in H'. subst v. reflexivity.
Qed.

(* a rank below the popcount of the byte is found, below 8 *)
Definition sel8_check (b : N) : bool :=
  forallb (fun r => if r <? popcount b
                    then match select_spec (bits_of 8 b) 1 r with Some p => p <? 8 | None => false end
                    else true) (seqN 0 8).
Lemma sel8_check_all : forallb sel8_check (seqN 0 256) = true.
Proof. vm_compute. reflexivity. Qed.
Lemma sel8_some b r : b < 256 -> r < popcount b -> r < 8 ->
  exists p, select_spec (bits_of 8 b) 1 r = Some p /\ p < 8.
Proof.
  intros Hb Hr Hr8.
  pose proof (forall_below _ 256 sel8_check_all b Hb) as H.
  unfold sel8_check in H.
  pose proof (forall_below _ 8 H r Hr8) as H'. cbv beta in H'.
  destruct (N.ltb_spec r (popcount b)); [|lia].
  destruct (select_spec (bits_of 8 b) 1 r) as [p|]; [|discriminate].
  exists p. split; [reflexivity|]. now apply N.ltb_lt.
Qed.
(* ------------------------------------------------------------------ field-wise land *)
Lemma testbit_split k a x n : a < 2 ^ k ->
  N.testbit (a + 2 ^ k * x) n = if n <? k then N.testbit a n else N.testbit x (n - k).
Proof.
  intros Ha. destruct (N.ltb_spec n k) as [Hn|Hn].
  - rewrite <- (N.mod_pow2_bits_low (a + 2 ^ k * x) k n) by assumption.
    now rewrite split_mod.
  - replace n with ((n - k) + k) at 1 by lia. rewrite <- N.div_pow2_bits.
    now rewrite split_div.
Qed.

Lemma land_lt k a b : a < 2 ^ k -> N.land a b < 2 ^ k.
Proof.
  intros Ha. rewrite <- (N.mod_small a (2 ^ k)) by assumption.
  rewrite <- N.land_ones, <- N.land_assoc, (N.land_comm (N.ones k)), N.land_assoc, N.land_ones.
  apply N.mod_lt, pow2_nz.
Qed.

Lemma land_split k a b x y : a < 2 ^ k -> b < 2 ^ k ->
  N.land (a + 2 ^ k * x) (b + 2 ^ k * y) = N.land a b + 2 ^ k * N.land x y.
Proof.
  intros Ha Hb. apply N.bits_inj. intros n.
  rewrite N.land_spec, !testbit_split by auto using land_lt.
  rewrite !N.land_spec. destruct (n <? k); reflexivity.
Qed.

Lemma land_split8 a b x y : a < 256 -> b < 256 ->
  N.land (a + 256 * x) (b + 256 * y) = N.land a b + 256 * N.land x y.
Proof. exact (land_split 8 a b x y). Qed.

Lemma lor_disjoint a b : N.land a b = 0 -> N.lor a b = a + b.
Proof. intros H. rewrite N.add_nocarry_lxor by assumption. symmetry. now apply N.lxor_lor. Qed.

Lemma lor_low8 a y : a < 256 -> N.lor a (256 * y) = a + 256 * y.
Proof.
  intros Ha. apply lor_disjoint.
  pose proof (land_split8 a 0 0 y Ha eq_refl) as H.
  rewrite N.mul_0_r, N.add_0_r, N.add_0_l, N.land_0_r, N.land_0_l in H. rewrite H. reflexivity.
Qed.

Lemma land_low4 a y : a < 16 -> N.land (a + 16 * y) 15 = a.
Proof.
  intros Ha. pose proof (land_split 4 a 15 y 0 Ha eq_refl) as H.
  change (2 ^ 4) with 16 in H. rewrite N.mul_0_r, N.add_0_r, N.land_0_r, N.mul_0_r, N.add_0_r in H.
  rewrite H. change 15 with (N.ones 4). rewrite N.land_ones. apply N.mod_small. exact Ha.
Qed.

Lemma land255 x : N.land x 255 = x mod 256.
Proof. change 255 with (N.ones 8). now rewrite N.land_ones. Qed.

(* value of a little-endian list of bytes *)
Fixpoint dv (l : list N) : N :=
  match l with [] => 0 | a :: r => a + 256 * dv r end.

Fixpoint zipw (f : N -> N -> N) (la lb : list N) : list N :=
  match la, lb with
  | a :: la', b :: lb' => f a b :: zipw f la' lb'
  | _, _ => []
  end.

Lemma dv_land la : forall lb, Forall (fun a => a < 256) la -> Forall (fun a => a < 256) lb ->
  length la = length lb -> N.land (dv la) (dv lb) = dv (zipw N.land la lb).
Proof.
  induction la as [|a la IH]; intros [|b lb] Ha Hb Hl; try discriminate.
  - reflexivity.
  - inversion Ha; inversion Hb; subst. cbn [dv zipw].
    rewrite land_split8 by assumption. rewrite IH by (auto; cbn in Hl; lia). reflexivity.
Qed.

Lemma dv_lt l : Forall (fun a => a < 256) l -> dv l < 256 ^ len l.
Proof.
  induction 1 as [|a l Ha HF IH]; [reflexivity|].
  cbn [dv]. rewrite len_cons, N.pow_add_r. change (256 ^ 1) with 256. nia.
Qed.

(* shifting right by whole bytes drops the low bytes *)
Lemma dv_shiftr l : forall t, Forall (fun a => a < 256) l ->
  N.shiftr (dv l) (8 * N.of_nat t) = dv (skipn t l).
Proof.
  induction l as [|a l IH]; intros t HF.
  - destruct t; cbn [skipn dv]; apply N.shiftr_0_l.
  - destruct t as [|t].
    + cbn [skipn]. change (8 * N.of_nat 0) with 0. apply N.shiftr_0_r.
    + inversion HF; subst. cbn [skipn dv].
      replace (8 * N.of_nat (S t)) with (8 + 8 * N.of_nat t) by lia.
      rewrite <- N.shiftr_shiftr, (N.shiftr_div_pow2 _ 8).
      rewrite (split_div 8) by assumption. now apply IH.
Qed.

Lemma dv_low l a : a < 256 -> N.land (dv (a :: l)) 255 = a.
Proof. intros Ha. cbn [dv]. rewrite land255. exact (split_mod 8 a _ Ha). Qed.

Lemma popcount_dv l : Forall (fun a => a < 256) l -> popcount (dv l) = sumN (map popcount l).
Proof.
  induction 1 as [|a l Ha HF IH]; [reflexivity|].
  cbn [dv map sumN]. rewrite (popcount_split 8) by assumption. now rewrite IH.
Qed.

Lemma bits_of_dv l : Forall (fun a => a < 256) l ->
  bits_of (8 * length l) (dv l) = concat (map (bits_of 8) l).
Proof.
  induction 1 as [|a l Ha HF IH]; [reflexivity|].
  cbn [dv map concat length]. replace (8 * S (length l))%nat with (8 + 8 * length l)%nat by lia.
  rewrite (bits_of_split 8) by assumption. now rewrite IH.
Qed.

(* the bytes of a word *)
Lemma bytes_of_word n : forall w, w < 256 ^ N.of_nat n ->
  exists l, length l = n /\ Forall (fun a => a < 256) l /\ w = dv l.
Proof.
  induction n as [|n IH]; intros w Hw.
  - exists []. change (256 ^ N.of_nat 0) with 1 in Hw. repeat split; [constructor|cbn [dv]; lia].
  - destruct (IH (w / 256)) as (l & Hl & HF & E).
    { replace (N.of_nat (S n)) with (1 + N.of_nat n) in Hw by lia.
      rewrite N.pow_add_r in Hw. change (256 ^ 1) with 256 in Hw.
      apply N.div_lt_upper_bound; [discriminate|assumption]. }
    exists (w mod 256 :: l). split; [cbn [length]; lia|]. split.
    + constructor; [apply N.mod_lt; discriminate|assumption].
    + cbn [dv]. rewrite <- E. rewrite N.add_comm. apply N.div_mod. discriminate.
Qed.

Lemma bytes8 w : w < 2 ^ 64 -> exists b0 b1 b2 b3 b4 b5 b6 b7,
  Forall (fun a => a < 256) [b0; b1; b2; b3; b4; b5; b6; b7] /\ w = dv [b0; b1; b2; b3; b4; b5; b6; b7].
Proof.
  intros Hw. destruct (bytes_of_word 8 w Hw) as (l & Hl & HF & E).
  do 8 (destruct l as [|? l]; [discriminate|]). destruct l; [|discriminate].
  eauto 12.
Qed.
(* ------------------------------------------------------------------ SWAR steps, per byte *)
Definition bh1 (b : N) : N := N.land b 170 / 2.
Definition be (b : N) : N := b - bh1 b.
Definition bq3 (b : N) : N := N.land (be b) 204 / 4.
Definition bg (b : N) : N := N.land (be b) 51 + bq3 b.
Definition blo (b : N) : N := bg b mod 16.
Definition bhi (b : N) : N := bg b / 16.

Definition byte_check (b : N) : bool :=
  (N.land b 170 =? 2 * bh1 b) && (bh1 b <=? b) && (be b <? 256) &&
  (N.land (be b) 204 =? 4 * bq3 b) && (bg b =? blo b + 16 * bhi b) &&
  (blo b <=? 4) && (bhi b <=? 4) && (blo b + bhi b =? popcount b) &&
  (N.land b 128 =? (if 128 <=? b then 128 else 0)).
Lemma byte_check_all : forallb byte_check (seqN 0 256) = true.
Proof. vm_compute. reflexivity. Qed.

Ltac split_checks H :=
  rewrite ?andb_true_iff in H;
  repeat match type of H with _ /\ _ => let H' := fresh in destruct H as [H H'] end;
  repeat match goal with
         | H : (_ =? _) = true |- _ => apply N.eqb_eq in H
         | H : (_ <=? _) = true |- _ => apply N.leb_le in H
         | H : (_ <? _) = true |- _ => apply N.ltb_lt in H
         end.

Lemma bf1 b : b < 256 -> N.land b 170 = 2 * bh1 b /\ b = bh1 b + be b.
Proof.
  intros Hb. pose proof (forall_below _ 256 byte_check_all b Hb) as H.
  unfold byte_check in H. split_checks H. split; [assumption|]. unfold be. lia.
Qed.
Lemma bf2 b : b < 256 -> be b < 256 /\ N.land (be b) 204 = 4 * bq3 b.
Proof.
  intros Hb. pose proof (forall_below _ 256 byte_check_all b Hb) as H.
  unfold byte_check in H. split_checks H. auto.
Qed.
Lemma bf3 b : b < 256 -> bg b = blo b + 16 * bhi b /\ blo b <= 4 /\ bhi b <= 4 /\ blo b + bhi b = popcount b.
Proof.
  intros Hb. pose proof (forall_below _ 256 byte_check_all b Hb) as H.
  unfold byte_check in H. split_checks H. auto.
Qed.
Lemma bf4 b : b < 256 -> N.land b 128 = (if 128 <=? b then 128 else 0).
Proof.
  intros Hb. pose proof (forall_below _ 256 byte_check_all b Hb) as H.
  unfold byte_check in H. split_checks H. auto.
Qed.
Lemma popcount_byte_le b : b < 256 -> popcount b <= 8.
Proof. intros H. destruct (bf3 b H) as (_ & ? & ? & <-). lia. Qed.

Lemma shiftr_mul_pow2 x s : N.shiftr (2 ^ s * x) s = x.
Proof. rewrite N.shiftr_div_pow2, N.mul_comm. apply N.div_mul, pow2_nz. Qed.

Ltac inv_forall :=
  repeat match goal with
         | H : Forall _ (_ :: _) |- _ => inversion H; clear H; subst
         | H : Forall _ [] |- _ => clear H
         end.
Ltac explicit8 l Hl :=
  destruct l as [|b0 l]; [discriminate Hl|]; destruct l as [|b1 l]; [discriminate Hl|];
  destruct l as [|b2 l]; [discriminate Hl|]; destruct l as [|b3 l]; [discriminate Hl|];
  destruct l as [|b4 l]; [discriminate Hl|]; destruct l as [|b5 l]; [discriminate Hl|];
  destruct l as [|b6 l]; [discriminate Hl|]; destruct l as [|b7 l]; [discriminate Hl|];
  destruct l; [clear Hl|discriminate Hl]; inv_forall.

Lemma M1_val : SIW_M1 * K_ONES_STEP4 = dv (repeat 170 8). Proof. reflexivity. Qed.
Lemma M2_val : SIW_M2 * K_ONES_STEP4 = dv (repeat 51 8). Proof. reflexivity. Qed.
Lemma M2'_val : 3 * K_ONES_STEP4 = N.shiftr (dv (repeat 204 8)) 2. Proof. reflexivity. Qed.
Lemma M3_val : SIW_M3 * K_ONES_STEP8 = dv (repeat 15 8). Proof. reflexivity. Qed.
Lemma K8_val : K_ONES_STEP8 = 72340172838076673. Proof. reflexivity. Qed.
Lemma L8_val : K_LAMBDAS_STEP8 = dv (repeat 128 8). Proof. reflexivity. Qed.

Lemma step1_half bs : length bs = 8%nat -> Forall (fun a => a < 256) bs ->
  N.shiftr (N.land (dv bs) (SIW_M1 * K_ONES_STEP4)) 1 = dv (map bh1 bs).
Proof.
  intros Hl HF.
  rewrite M1_val, dv_land; [|assumption|repeat constructor|assumption].
  explicit8 bs Hl. cbn [repeat zipw map].
  repeat match goal with H : _ < 256 |- _ => apply bf1 in H; destruct H as (-> & _) end.
  etransitivity; [|apply (shiftr_mul_pow2 _ 1)]. f_equal. cbn [dv]. change (2 ^ 1) with 2. lia.
Qed.
(* pose a per-byte fact for every byte of the context *)
Ltac bfacts lem :=
  repeat match goal with
         | H : ?b < 256 |- _ =>
             let F := fresh "F" in
             pose proof (lem b H) as F; revert H
         end; intros.
Ltac destruct_ands :=
  repeat match goal with H : _ /\ _ |- _ => destruct H end.

Lemma osub_val a b : b <= a -> osub a b = Val (a - b).
Proof. intros H. unfold osub. destruct (N.leb_spec b a); [reflexivity|lia]. Qed.
Lemma oadd_val w a b : a + b < 2 ^ w -> oadd w a b = Val (a + b).
Proof. intros H. unfold oadd. destruct (N.ltb_spec (a + b) (2 ^ w)); [reflexivity|lia]. Qed.
Lemma omul_val w a b : a * b < 2 ^ w -> omul w a b = Val (a * b).
Proof. intros H. unfold omul. destruct (N.ltb_spec (a * b) (2 ^ w)); [reflexivity|lia]. Qed.
Lemma oshr_val w x s : s < w -> oshr w x s = Val (N.shiftr x s).
Proof. intros H. unfold oshr. destruct (N.ltb_spec s w); [reflexivity|lia]. Qed.
Lemma oshl_val w x s : s < w -> oshl w x s = Val (N.shiftl x s mod 2 ^ w).
Proof. intros H. unfold oshl. destruct (N.ltb_spec s w); [reflexivity|lia]. Qed.

Lemma pow64 : 2 ^ 64 = 18446744073709551616. Proof. reflexivity. Qed.

Lemma step1 bs : length bs = 8%nat -> Forall (fun a => a < 256) bs ->
  osub (dv bs) (N.shiftr (N.land (dv bs) (SIW_M1 * K_ONES_STEP4)) 1) = Val (dv (map be bs)).
Proof.
  intros Hl HF. rewrite step1_half by assumption.
  explicit8 bs Hl. bfacts bf1. destruct_ands. cbn [map dv].
  rewrite osub_val by lia. f_equal. apply N.add_sub_eq_l. lia.
Qed.
Lemma step2 bs : length bs = 8%nat -> Forall (fun a => a < 256) bs ->
  oadd 64 (N.land (dv (map be bs)) (SIW_M2 * K_ONES_STEP4))
          (N.land (N.shiftr (dv (map be bs)) 2) (3 * K_ONES_STEP4)) = Val (dv (map bg bs)).
Proof.
  intros Hl HF. rewrite M2'_val, <- N.shiftr_land, M2_val.
  explicit8 bs Hl. bfacts bf2. bfacts bf3. destruct_ands. cbn [map].
  rewrite !dv_land; [|repeat constructor; assumption ..].
  cbn [repeat zipw].
  repeat match goal with H : N.land (be _) 204 = _ |- _ => rewrite H; clear H end.
  match goal with |- oadd 64 ?a (N.shiftr ?b 2) = Val ?c =>
    replace (N.shiftr b 2) with (dv (map bq3 [b0; b1; b2; b3; b4; b5; b6; b7])) end.
  - rewrite oadd_val.
    + f_equal. unfold bg. cbn [map dv]. lia.
    + rewrite pow64. cbn [map dv].
      repeat match goal with H : bg _ = _ |- _ => unfold bg in H end. lia.
  - symmetry. etransitivity; [|apply (shiftr_mul_pow2 _ 2)]. f_equal.
    cbn [map dv]. change (2 ^ 2) with 4. lia.
Qed.

Lemma step3 bs : length bs = 8%nat -> Forall (fun a => a < 256) bs ->
  exists t, oadd 64 (dv (map bg bs)) (N.shiftr (dv (map bg bs)) 4) = Val t /\
            N.land t (SIW_M3 * K_ONES_STEP8) = dv (map popcount bs).
Proof.
  intros Hl HF. explicit8 bs Hl. bfacts bf3. destruct_ands.
  set (l := [b0; b1; b2; b3; b4; b5; b6; b7]).
  assert (E : N.shiftr (dv (map bg l)) 4 =
              dv [bhi b0 + 16 * blo b1; bhi b1 + 16 * blo b2; bhi b2 + 16 * blo b3; bhi b3 + 16 * blo b4;
                  bhi b4 + 16 * blo b5; bhi b5 + 16 * blo b6; bhi b6 + 16 * blo b7; bhi b7]).
  { rewrite N.shiftr_div_pow2. change (2 ^ 4) with 16. symmetry.
    apply N.div_unique with (r := blo b0); [lia|].
    subst l. cbn [map dv].
    repeat match goal with H : bg _ = _ |- _ => rewrite H; clear H end. lia. }
  rewrite E. clear E.
  exists (dv [popcount b0 + 16 * (bhi b0 + blo b1); popcount b1 + 16 * (bhi b1 + blo b2);
              popcount b2 + 16 * (bhi b2 + blo b3); popcount b3 + 16 * (bhi b3 + blo b4);
              popcount b4 + 16 * (bhi b4 + blo b5); popcount b5 + 16 * (bhi b5 + blo b6);
              popcount b6 + 16 * (bhi b6 + blo b7); popcount b7 + 16 * bhi b7]).
  split.
  - rewrite oadd_val.
    + f_equal. subst l. cbn [map dv].
      repeat match goal with H : bg _ = _ |- _ => rewrite H; clear H end. lia.
    + rewrite pow64. subst l. cbn [map dv].
      repeat match goal with H : bg _ = _ |- _ => rewrite H; clear H end. lia.
  - rewrite M3_val, dv_land; [|repeat constructor; lia ..].
    cbn [repeat zipw]. rewrite !land_low4 by lia. reflexivity.
Qed.
(* ------------------------------------------------------------------ prefix sums, comparison with k *)
Fixpoint psums (acc : N) (l : list N) : list N :=
  match l with [] => [] | c :: r => (acc + c) :: psums (acc + c) r end.

Lemma step_bsums cs : length cs = 8%nat -> Forall (fun c => c <= 8) cs ->
  (dv cs * K_ONES_STEP8) mod M64 = dv (psums 0 cs).
Proof.
  intros Hl HF. explicit8 cs Hl. rename b0 into c0, b1 into c1, b2 into c2, b3 into c3,
    b4 into c4, b5 into c5, b6 into c6, b7 into c7.
  symmetry. unfold M64. rewrite pow64, K8_val.
  apply N.mod_unique with
    (q := dv [c1 + c2 + c3 + c4 + c5 + c6 + c7; c2 + c3 + c4 + c5 + c6 + c7; c3 + c4 + c5 + c6 + c7;
              c4 + c5 + c6 + c7; c5 + c6 + c7; c6 + c7; c7]);
    cbn [psums dv]; lia.
Qed.

Lemma step_kmul k : k < 128 -> omul 64 k K_ONES_STEP8 = Val (dv (repeat k 8)).
Proof.
  intros Hk. rewrite omul_val; [f_equal|]; rewrite K8_val; [|rewrite pow64]; cbn [repeat dv]; lia.
Qed.

Lemma step_lor k : k < 128 -> N.lor (dv (repeat k 8)) K_LAMBDAS_STEP8 = dv (repeat (k + 128) 8).
Proof.
  intros Hk. rewrite L8_val. rewrite lor_disjoint.
  - cbn [repeat dv]. lia.
  - rewrite dv_land; [|repeat constructor; lia ..]. cbn [repeat zipw].
    rewrite (bf4 k) by lia. destruct (N.leb_spec 128 k); [lia|]. reflexivity.
Qed.

Lemma land128 d p k : k + 128 = p + d -> k < 128 ->
  N.land d 128 = if p <=? k then 128 else 0.
Proof.
  intros E Hk. rewrite bf4 by lia.
  destruct (N.leb_spec 128 d), (N.leb_spec p k); try reflexivity; lia.
Qed.

Lemma step_geq k ps : k < 128 -> length ps = 8%nat -> Forall (fun p => p <= 64) ps ->
  exists d, osub (dv (repeat (k + 128) 8)) (dv ps) = Val d /\
            N.land d K_LAMBDAS_STEP8 = dv (map (fun p => if p <=? k then 128 else 0) ps).
Proof.
  intros Hk Hl HF. explicit8 ps Hl.
  rename b0 into p0, b1 into p1, b2 into p2, b3 into p3, b4 into p4, b5 into p5, b6 into p6, b7 into p7.
  exists (dv (map (fun p => k + 128 - p) [p0; p1; p2; p3; p4; p5; p6; p7])).
  cbn [map].
  repeat match goal with
         | |- context [k + 128 - ?p] =>
             let d := fresh "d" in let E := fresh "E" in
             remember (k + 128 - p) as d eqn:E; assert (k + 128 = p + d) by lia; clear E
         end.
  split.
  - rewrite osub_val; [f_equal; apply N.add_sub_eq_l|]; cbn [repeat dv]; lia.
  - rewrite L8_val, dv_land; [|repeat constructor; lia ..]. cbn [repeat zipw].
    repeat match goal with
           | H : k + 128 = ?p + ?d |- _ => rewrite (land128 d p k H Hk); clear H
           end.
    reflexivity.
Qed.
(* ------------------------------------------------------------------ select_spec over a concatenation *)
Lemma select_from_shift l c : forall k pos,
  select_from l c k pos = option_map (N.add pos) (select_from l c k 0).
Proof.
  induction l as [|x l IH]; intros k pos; cbn [select_from]; [reflexivity|].
  destruct (x =? c).
  - destruct (k =? 0).
    + cbn [option_map]. f_equal. lia.
    + rewrite (IH _ (pos + 1)), (IH _ (0 + 1)).
      destruct (select_from l c (N.pred k) 0); cbn [option_map]; [f_equal; lia|reflexivity].
  - rewrite (IH _ (pos + 1)), (IH _ (0 + 1)).
    destruct (select_from l c k 0); cbn [option_map]; [f_equal; lia|reflexivity].
Qed.

Lemma select_from_app l1 l2 c : forall k pos,
  select_from (l1 ++ l2) c k pos =
  if k <? countN c l1 then select_from l1 c k pos
  else select_from l2 c (k - countN c l1) (pos + len l1).
Proof.
  induction l1 as [|x l1 IH]; intros k pos; cbn [app select_from countN].
  - destruct (N.ltb_spec k 0); [lia|]. rewrite (@len_nil N). f_equal; lia.
  - rewrite len_cons. destruct (x =? c).
    + destruct (N.eqb_spec k 0) as [->|Hk].
      * destruct (N.ltb_spec 0 (1 + countN c l1)); [reflexivity|lia].
      * rewrite IH.
        destruct (N.ltb_spec (N.pred k) (countN c l1)), (N.ltb_spec k (1 + countN c l1)); try lia.
        -- reflexivity.
        -- f_equal; lia.
    + rewrite IH.
      destruct (N.ltb_spec k (countN c l1)), (N.ltb_spec k (0 + countN c l1)); try lia.
      * reflexivity.
      * f_equal; lia.
Qed.

Lemma select_spec_app l1 l2 c k :
  select_spec (l1 ++ l2) c k =
  if k <? countN c l1 then select_spec l1 c k
  else option_map (N.add (len l1)) (select_spec l2 c (k - countN c l1)).
Proof.
  unfold select_spec. rewrite select_from_app. destruct (k <? countN c l1); [reflexivity|].
  rewrite select_from_shift. f_equal. 
Qed.

(* select over the bits of a list of bytes, driven by the running popcount *)
Fixpoint bsel (bs : list N) (k acc off : N) : option N :=
  match bs with
  | [] => None
  | b :: r => if k <? acc + popcount b
              then option_map (N.add off) (select_spec (bits_of 8 b) 1 (k - acc))
              else bsel r k (acc + popcount b) (off + 8)
  end.

Lemma select_bytes bs : forall k acc off, Forall (fun a => a < 256) bs -> acc <= k ->
  select_from (concat (map (bits_of 8) bs)) 1 (k - acc) off = bsel bs k acc off.
Proof.
  induction bs as [|b bs IH]; intros k acc off HF Hacc; [reflexivity|].
  inversion HF; subst. cbn [map concat bsel].
  rewrite select_from_app, bits_of_len, <- (popcount_correct 8) by assumption.
  change (N.of_nat 8) with 8.
  destruct (N.ltb_spec (k - acc) (popcount b)), (N.ltb_spec k (acc + popcount b)); try lia.
  - apply select_from_shift.
  - rewrite <- IH by (auto; lia). f_equal. lia.
Qed.

Lemma select_word64 bs k : length bs = 8%nat -> Forall (fun a => a < 256) bs ->
  select_spec (bits_of 64 (dv bs)) 1 k = bsel bs k 0 0.
Proof.
  intros Hl HF. replace 64%nat with (8 * length bs)%nat by (rewrite Hl; reflexivity).
  rewrite bits_of_dv by assumption. unfold select_spec.
  rewrite <- select_bytes by (auto; lia). f_equal. lia.
Qed.
Lemma dv_shiftr' l t s : s = 8 * N.of_nat t -> Forall (fun a => a < 256) l ->
  N.shiftr (dv l) s = dv (skipn t l).
Proof. intros ->. apply dv_shiftr. Qed.

Lemma shl8_small x : x < 128 -> N.shiftl x 8 mod 2 ^ 64 = 256 * x.
Proof.
  intros H. rewrite N.shiftl_mul_pow2. change (2 ^ 8) with 256. rewrite pow64.
  rewrite N.mod_small; lia.
Qed.

Lemma step_shl ps : length ps = 8%nat -> Forall (fun p => p <= 64) ps ->
  oshl 64 (dv ps) 8 = Val (dv (0 :: firstn 7 ps)).
Proof.
  intros Hl HF. explicit8 ps Hl. rewrite oshl_val by reflexivity. f_equal.
  rewrite N.shiftl_mul_pow2. change (2 ^ 8) with 256. rewrite pow64. symmetry.
  apply N.mod_unique with (q := b7); cbn [firstn dv]; lia.
Qed.

Lemma bind_val {A B} (a : A) (f : A -> outcome B) : bind (Val a) f = f a.
Proof. reflexivity. Qed.
Ltac bind_step := rewrite bind_val; cbv beta.

Ltac decide_cmp :=
  repeat match goal with
         | |- context [?a <=? ?b] =>
             first [rewrite (proj2 (N.leb_le a b)) by lia | rewrite (proj2 (N.leb_gt a b)) by lia]
         | |- context [?a <? ?b] =>
             first [rewrite (proj2 (N.ltb_lt a b)) by lia | rewrite (proj2 (N.ltb_ge a b)) by lia]
         end.
Ltac compute_place :=
  match goal with
  | |- context [omul 32 (popcount ?x) SIW_PLACE_MUL] =>
      let v := eval vm_compute in (omul 32 (popcount x) SIW_PLACE_MUL) in
      change (omul 32 (popcount x) SIW_PLACE_MUL) with v
  end; bind_step;
  match goal with
  | |- context [?a =? SIW_NOTFOUND] =>
      let v := eval vm_compute in (a =? SIW_NOTFOUND) in change (a =? SIW_NOTFOUND) with v
  end; cbv iota.
(* the case where the answer lies in byte number t *)
Ltac found_case t :=
  bind_step; rewrite !oshr_val by reflexivity; bind_step;
  rewrite !(dv_shiftr' _ t) by (reflexivity || (repeat constructor; lia));
  cbn [skipn]; change SIW_BYTE_MASK with 255; rewrite dv_low by lia;
  rewrite osub_val by lia; bind_step; bind_step; rewrite dv_low by lia;
  rewrite oshl_val by reflexivity; bind_step;
  rewrite shl8_small by lia; rewrite lor_low8 by lia;
  unfold idx; rewrite sel_table_ok by lia; cbv iota; bind_step;
  match goal with
  | |- context [select_spec (bits_of 8 ?b) 1 ?r] =>
      let p := fresh "p" in let Ep := fresh "Ep" in let Hp := fresh "Hp" in
      destruct (sel8_some b r) as (p & Ep & Hp); [lia ..|]; rewrite Ep
  end;
  cbn [option_map]; rewrite oadd_val by (change (2 ^ 32) with 4294967296; lia);
  f_equal; lia.

(* the part of select_in_word after the comparison with k *)
Definition siw_tail (word k byte_sums geq_k_step8 : N) : outcome N :=
  let! place := omul 32 (popcount geq_k_step8) SIW_PLACE_MUL in
  if place =? SIW_NOTFOUND then Val 64
  else
    let! sh := oshl 64 byte_sums 8 in
    let! sr := oshr 64 sh place in
    let! byte_rank := osub k (N.land sr SIW_BYTE_MASK) in
    let! wsh := oshr 64 word place in
    let! br8 := oshl 64 byte_rank 8 in
    let! tv := idx sel_table (N.lor (N.land wsh 255) br8) in
    oadd 32 place tv.

Lemma siw_tail_correct k bs : k < 128 -> length bs = 8%nat -> Forall (fun a => a < 256) bs ->
  siw_tail (dv bs) k (dv (psums 0 (map popcount bs)))
           (dv (map (fun p => if p <=? k then 128 else 0) (psums 0 (map popcount bs)))) =
  Val (match bsel bs k 0 0 with Some p => p | None => 64 end).
Proof.
  intros Hk Hl HF.
  assert (HFc : Forall (fun c => c <= 8) (map popcount bs)).
  { explicit8 bs Hl. cbn [map]. repeat constructor; apply popcount_byte_le; assumption. }
  explicit8 bs Hl. cbn [map psums bsel] in *. inv_forall.
  remember (0 + popcount b0) as p0 eqn:E0. remember (p0 + popcount b1) as p1 eqn:E1.
  remember (p1 + popcount b2) as p2 eqn:E2. remember (p2 + popcount b3) as p3 eqn:E3.
  remember (p3 + popcount b4) as p4 eqn:E4. remember (p4 + popcount b5) as p5 eqn:E5.
  remember (p5 + popcount b6) as p6 eqn:E6. remember (p6 + popcount b7) as p7 eqn:E7.
  unfold siw_tail.
  rewrite step_shl by (reflexivity || (repeat constructor; lia)). cbn [firstn].
  assert (Hc : k < p0 \/ (p0 <= k < p1) \/ (p1 <= k < p2) \/ (p2 <= k < p3) \/ (p3 <= k < p4) \/
               (p4 <= k < p5) \/ (p5 <= k < p6) \/ (p6 <= k < p7) \/ p7 <= k) by lia.
  destruct Hc as [Hc|[Hc|[Hc|[Hc|[Hc|[Hc|[Hc|[Hc|Hc]]]]]]]]; decide_cmp; compute_place.
  - found_case 0%nat.
  - found_case 1%nat.
  - found_case 2%nat.
  - found_case 3%nat.
  - found_case 4%nat.
  - found_case 5%nat.
  - found_case 6%nat.
  - found_case 7%nat.
  - reflexivity.
Qed.

Theorem select_in_word_correct : forall w k, w < 2 ^ 64 -> k < 128 ->
  select_in_word w k = Val (match select_spec (bits_of 64 w) 1 k with Some p => p | None => 64 end).
Proof.
  intros w k Hw Hk.
  destruct (bytes8 w Hw) as (b0 & b1 & b2 & b3 & b4 & b5 & b6 & b7 & HF & ->).
  set (bs := [b0; b1; b2; b3; b4; b5; b6; b7]) in *.
  assert (Hl : length bs = 8%nat) by reflexivity.
  rewrite select_word64 by assumption.
  rewrite <- (siw_tail_correct k bs Hk Hl HF).
  unfold select_in_word. cbv zeta.
  rewrite step1 by assumption. bind_step.
  rewrite step2 by assumption. bind_step.
  destruct (step3 bs Hl HF) as (t & Et & Es). rewrite Et. bind_step. rewrite Es. clear t Et Es.
  assert (HFc : Forall (fun c => c <= 8) (map popcount bs)).
  { subst bs. inv_forall. cbn [map]. repeat constructor; apply popcount_byte_le; assumption. }
  rewrite step_bsums by (assumption || reflexivity).
  rewrite step_kmul by assumption. bind_step.
  rewrite step_lor by assumption.
  destruct (step_geq k (psums 0 (map popcount bs))) as (d & Ed & Eg); [assumption|reflexivity| |].
  { subst bs. cbn [map psums] in *. inv_forall. repeat constructor; lia. }
  rewrite Ed. bind_step. rewrite Eg. reflexivity.
Qed.
(* ------------------------------------------------------------------ u128 *)
Lemma select_from_bounds l c : forall k pos p,
  select_from l c k pos = Some p -> pos <= p < pos + len l.
Proof.
  induction l as [|x l IH]; intros k pos p H; cbn [select_from] in H; [discriminate|].
  rewrite len_cons. destruct (x =? c).
  - destruct (k =? 0).
    + injection H as <-. lia.
    + apply IH in H. lia.
  - apply IH in H. lia.
Qed.

Lemma select_from_some l c : forall k pos, k < countN c l -> exists p, select_from l c k pos = Some p.
Proof.
  induction l as [|x l IH]; intros k pos H; cbn [select_from countN] in *; [lia|].
  destruct (x =? c).
  - destruct (N.eqb_spec k 0); [eauto|]. apply IH. lia.
  - apply IH. lia.
Qed.

Lemma select_spec_bounds l c k p : select_spec l c k = Some p -> p < len l.
Proof. unfold select_spec. intros H. apply select_from_bounds in H. lia. Qed.
Lemma select_spec_some l c k : k < countN c l -> exists p, select_spec l c k = Some p.
Proof. apply select_from_some. Qed.

Theorem select_in_word_u128_correct : forall w k, w < 2 ^ 128 -> k < 128 ->
  select_in_word_u128 w k = Val (match select_spec (bits_of 128 w) 1 k with Some p => p | None => 128 end).
Proof.
  intros w k Hw Hk. unfold select_in_word_u128. cbv zeta.
  rewrite N.shiftr_div_pow2. unfold M64.
  set (lo := w mod 2 ^ 64). set (hi := w / 2 ^ 64).
  assert (Hlo : lo < 2 ^ 64) by (apply N.mod_lt, pow2_nz).
  assert (Hhi : hi < 2 ^ 64).
  { apply N.div_lt_upper_bound; [apply pow2_nz|]. rewrite <- N.pow_add_r. exact Hw. }
  rewrite (N.mod_small hi) by assumption.
  change 128%nat with (64 + 64)%nat. rewrite bits_of_app. change (N.of_nat 64) with 64.
  fold lo hi. rewrite select_spec_app, bits_of_len, <- (popcount_correct 64) by assumption.
  change (N.of_nat 64) with 64.
  destruct (N.ltb_spec k (popcount lo)) as [Hlt|Hge].
  - rewrite select_in_word_correct by assumption.
    destruct (select_spec_some (bits_of 64 lo) 1 k) as (p & Ep).
    { rewrite <- (popcount_correct 64) by assumption. exact Hlt. }
    rewrite Ep. reflexivity.
  - rewrite osub_val by assumption. rewrite bind_val. cbv beta.
    rewrite select_in_word_correct by (assumption || lia). rewrite bind_val. cbv beta.
    destruct (select_spec (bits_of 64 hi) 1 (k - popcount lo)) as [p|] eqn:Ep; cbn [option_map].
    + apply select_spec_bounds in Ep. rewrite bits_of_len in Ep. change (N.of_nat 64) with 64 in Ep.
      rewrite oadd_val by (change (2 ^ 32) with 4294967296; lia). reflexivity.
    + reflexivity.
Qed.

Print Assumptions sel_table_ok.
Print Assumptions select_in_word_correct.
Print Assumptions select_in_word_u128_correct.
Print Assumptions popcount_correct.
Print Assumptions popcnt_wide_correct.
Print Assumptions popcnt_wide_bits.
Print Assumptions msb_w_correct.
