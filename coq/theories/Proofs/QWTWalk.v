(* C01 helper: the level walks of Model/QWT.v compute, inside the outcome monad, the generic
   wavelet-matrix walks of Theory/WaveletMatrix.v on a tree satisfying [tree_ok]. *)
From Coq Require Import ZArith Lia ZifyBool ZifyN ZifyNat.
From QwtModel Require Import ListX Seq Consts QVec RSQ QWT ListXP ConstsOk QVecP RSQList RSQWord RSQBuild RSQP.
From QwtModel Require Import WaveletMatrix QWTArith QWTBuild.
Ltac Zify.zify_post_hook ::= Z.div_mod_to_equations.
Arguments N.add : simpl never.
Arguments N.sub : simpl never.
Arguments N.mul : simpl never.
Arguments N.eqb : simpl never.
Arguments N.ltb : simpl never.
Arguments N.leb : simpl never.
Arguments N.pred : simpl never.
Arguments N.of_nat : simpl never.
Arguments N.land : simpl never.
Arguments N.lor : simpl never.
Arguments N.shiftr : simpl never.
Arguments N.shiftl : simpl never.
Arguments N.div : simpl never.
Arguments N.modulo : simpl never.
Arguments N.pow : simpl never.
Arguments N.sqrt : simpl never.
Arguments N.log2 : simpl never.
Arguments N.max : simpl never.

Lemma rank_spec_lrank D c i : rank_spec D c i = lrank D c i.
Proof. rewrite rank_spec_rk. reflexivity. Qed.

(* what the walks use of a level *)
Lemma rsq_spec_proj bsize r D : rsq_spec bsize r D ->
  (forall c i, rsq_rank bsize r c i =
     Val (if (c <=? 3) && (i <=? len D) then Some (lrank D c i) else None)) /\
  (forall c k, k < 2 ^ 64 -> rsq_select bsize r c k = Val (if c <=? 3 then select_spec D c k else None)) /\
  (forall c i, c <= 3 -> i <= len D -> rsq_rank_unchecked bsize r c i = Val (lrank D c i)) /\
  (forall i x, nthN D i = Some x -> rsq_get_unchecked r i = Val x) /\
  (forall c, c <= 3 -> rsq_occs_smaller_unchecked r c = Val (loccs_smaller D c)) /\
  (forall c i, c <= 3 -> i <= len D ->
     exists v, rss_rank_block bsize (rsq_rs r) c i = Val v /\ v <= lrank D c i).
Proof.
  intros (_ & _ & _ & Hrank & Hsel & _ & _ & Hru & Hgu & _ & _ & Hocc & Hblk).
  split; [|split; [|split; [|split; [|split]]]].
  - intros c i. rewrite Hrank, rank_spec_lrank. reflexivity.
  - exact Hsel.
  - intros c i Hc Hi. rewrite Hru by assumption. now rewrite rank_spec_lrank.
  - exact Hgu.
  - exact Hocc.
  - intros c i Hc Hi. destruct (Hblk c i Hc Hi) as (v & E & Hv). exists v.
    rewrite <- rank_spec_lrank. split; assumption.
Qed.

(* the query part of the specification of a tree (conjuncts 5.. of [qwt_spec] in QWTP.v) *)
Definition qwt_queries_spec (w bsize : N) (t : qwt) (seq : list N) : Prop :=
  (forall i, qwt_get w bsize t i = Val (nthN seq i)) /\
  (forall c i, c < 2 ^ w -> qwt_rank w bsize t c i =
       Val (if negb (len seq =? 0) && (i <=? len seq) && (c <=? maxN seq) then Some (rank_spec seq c i) else None)) /\
  (forall c i, c < 2 ^ w -> qwt_rank_prefetch w bsize t c i = qwt_rank w bsize t c i) /\
  (forall c k, c < 2 ^ w -> k < 2 ^ 64 -> qwt_select w bsize t c k =
       Val (if negb (len seq =? 0) && (c <=? maxN seq) then select_spec seq c k else None)) /\
  (forall i x, nthN seq i = Some x -> qwt_get_unchecked w bsize t i = Val x) /\
  (forall c i, 0 < len seq -> c <= maxN seq -> i <= len seq -> qwt_rank_unchecked w bsize t c i = Val (rank_spec seq c i)
                                                            /\ qwt_rank_prefetch_unchecked w bsize t c i = Val (rank_spec seq c i)) /\
  (forall c k p, c < 2 ^ w -> select_spec seq c k = Some p -> qwt_select_unchecked w bsize t c k = Val p).

Lemma wml_S L l0 n s :
  wm_levels N 4 (qdig L) l0 (S n) s = qD L l0 s :: wm_levels N 4 (qdig L) (S l0) n s.
Proof. reflexivity. Qed.
Lemma rank_walk_cons D Ds d ds p i :
  rank_walk (D :: Ds) (d :: ds) p i =
  rank_walk Ds ds (loccs_smaller D d + lrank D d p) (loccs_smaller D d + lrank D d i).
Proof. reflexivity. Qed.
Lemma select_down_cons D Ds d ds b :
  select_down (D :: Ds) (d :: ds) b = (b, lrank D d b) :: select_down Ds ds (lrank D d b + loccs_smaller D d).
Proof. reflexivity. Qed.

Section Walks.
Variables (w bsize : N) (L : nat) (s : list N) (qvs : list rsq).
Hypothesis HT : tree_ok bsize L s qvs.
Hypothesis HL : (0 < L)%nat.
Hypothesis Hw : 2 * N.of_nat (L - 1) < w.
Hypothesis Hlen : len s < 2 ^ 64.

Local Notation dg := (qdig L).
Local Notation lv := (lev N 4 (qdig L)).
Local Notation wml := (wm_levels N 4 (qdig L)).
Local Notation dgs := (digits_of N (qdig L)).

Lemma tb_ok c l : two_bits w c (2 * N.of_nat (L - 1 - l)) = Val (dg l c).
Proof. apply two_bits_qdig. clear HT Hlen. lia. Qed.

Lemma lv_len l : len (lv l s) = len s.
Proof. exact (qlev_len L l s). Qed.

(* ------------------------------------------------------------ rank *)

Lemma rank_walk_ok c : forall n l0 X Y Z, (l0 + n = L - 1)%nat -> lv l0 s = X ++ Y ++ Z ->
  exists X' Y' Z', lv (L - 1) s = X' ++ Y' ++ Z' /\
    qwt_rank_walk w bsize qvs c (2 * N.of_nat (L - 1 - l0)) (len X) (len X + len Y) (N.of_nat l0) n =
      Val (len X', len X' + len Y', 0) /\
    rank_walk (wml l0 (S n) s) (dgs l0 (S n) c) (len X) (len X + len Y) =
    rank_walk (wml (L - 1) 1 s) (dgs (L - 1) 1 c) (len X') (len X' + len Y').
Proof.
  induction n as [|n IH]; intros l0 X Y Z Hl E.
  - assert (l0 = L - 1)%nat by lia. subst l0. exists X, Y, Z. split; [exact E|]. split; [|reflexivity].
    cbn [qwt_rank_walk]. rewrite Nat.sub_diag. reflexivity.
  - cbn [qwt_rank_walk]. rewrite tb_ok. cbn [bind].
    destruct (HT l0 ltac:(lia)) as (r & Enth & Hr). unfold idx at 1. rewrite Enth. cbn [bind].
    destruct (rsq_spec_proj _ _ _ Hr) as (_ & _ & Pru & _ & Pocc & _).
    pose proof (qdig_le3 L l0 c) as Hd.
    pose proof (lv_len l0) as HLen. rewrite E in HLen. lens in HLen.
    rewrite Pocc by exact Hd. cbn [bind].
    rewrite !Pru by (try exact Hd; rewrite qD_len; lia). cbn [bind].
    unfold osub. replace (2 <=? 2 * N.of_nat (L - 1 - l0)) with true by lia. cbn [bind].
    destruct (block_step N 4 dg (qdig_lt L) l0 s X Y Z (dg l0 c) E (qdig_lt L l0 c))
      as (X1 & Z1 & E1 & HX1).
    unfold qD, qlev.
    assert (HI : lrank (map (dg l0) (lv l0 s)) (dg l0 c) (len X + len Y) =
                 lrank (map (dg l0) (lv l0 s)) (dg l0 c) (len X) +
                 len (filter (fun x => dg l0 x =? dg l0 c) Y)).
    { rewrite E. apply lrank_block. }
    destruct (IH (S l0) X1 _ Z1 ltac:(lia) E1) as (X' & Y' & Z' & E' & HW & HR).
    exists X', Y', Z'. split; [exact E'|]. split.
    + rewrite <- HW. f_equal; try lia.
    + rewrite <- HR. rewrite (digits_of_S N dg l0 (S n)), (wml_S L l0 (S n)), rank_walk_cons.
      unfold qD, qlev. f_equal; lia.
Qed.

Lemma rank_final c i t : q_n_levels t = N.of_nat L -> q_qvs t = qvs -> i <= len s ->
  qwt_rank_unchecked w bsize t c i = Val (len (filter (pre N dg L c) (firstnN i s))).
Proof.
  intros Hnl Hq Hi. unfold qwt_rank_unchecked. rewrite Hnl, Hq. unfold osub at 1.
  replace (1 <=? N.of_nat L) with true by lia. cbn [bind].
  replace (N.of_nat L - 1) with (N.of_nat (L - 1 - 0)) by lia.
  rewrite Nnat.Nat2N.id.
  assert (E : lv 0 s = [] ++ firstnN i s ++ skipnN i s).
  { cbn [lev app]. now rewrite firstnN_skipnN. }
  destruct (rank_walk_ok c (L - 1 - 0) 0%nat _ _ _ ltac:(lia) E) as (X' & Y' & Z' & E' & HW & HR).
  change (N.of_nat 0) with 0 in HW. rewrite len_nil in HW, HR.
  assert (Hl : len (firstnN i s) = i) by (rewrite firstnN_len; lia).
  rewrite N.add_0_l, Hl in HW, HR.
  rewrite HW. cbn [bind].
  replace (S (L - 1 - 0)) with L in HR by lia.
  replace 0 with (2 * N.of_nat (L - 1 - (L - 1))) at 1 by lia.
  rewrite tb_ok. cbn [bind].
  replace (L - 1 - 0)%nat with (L - 1)%nat by lia.
  destruct (HT (L - 1)%nat ltac:(lia)) as (r & Enth & Hr). unfold idx. rewrite Enth. cbn [bind].
  destruct (rsq_spec_proj _ _ _ Hr) as (_ & _ & Pru & _ & _ & _).
  pose proof (qdig_le3 L (L - 1) c) as Hd.
  pose proof (lv_len (L - 1)) as HLen. rewrite E' in HLen. lens in HLen.
  rewrite !Pru by (try exact Hd; rewrite qD_len; lia). cbn [bind].
  pose proof (wm_rank_correct N 4 dg (qdig_lt L) L s c i Hi) as HC. cbv zeta in HC.
  rewrite HR in HC. cbn [wm_levels digits_of seq map rank_walk fst snd] in HC.
  destruct HC as (H1 & H2 & H3). unfold qD, qlev. unfold osub.
  match goal with |- context [?a <=? ?b] => replace (a <=? b) with true by lia end.
  f_equal. lia.
Qed.

Lemma qwt_rank_unchecked_ok c i t : q_n_levels t = N.of_nat L -> q_qvs t = qvs -> i <= len s ->
  (forall x, In x s -> x < 4 ^ N.of_nat L) -> c < 4 ^ N.of_nat L ->
  qwt_rank_unchecked w bsize t c i = Val (rank_spec s c i).
Proof.
  intros Hnl Hq Hi Hs Hc. rewrite (rank_final c i t Hnl Hq Hi). f_equal.
  rewrite (filter_ext_in' _ (fun x => x =? c)).
  - rewrite len_filter_eqb, rank_spec_rk. reflexivity.
  - intros x Hx. apply pre_eq; [|exact Hc]. apply Hs. eapply In_firstnN. exact Hx.
Qed.

(* ------------------------------------------------------------ prefetch estimation *)

Lemma estimate_ok c : forall n l0 rs re, (l0 + n = L - 1)%nat -> rs <= len s -> re <= len s ->
  qwt_estimate_walk w bsize qvs c (2 * N.of_nat (L - 1 - l0)) rs re (N.of_nat l0) n = Val tt.
Proof.
  induction n as [|n IH]; intros l0 rs re Hl Hrs Hre; [reflexivity|].
  cbn [qwt_estimate_walk]. rewrite tb_ok. cbn [bind].
  destruct (HT l0 ltac:(lia)) as (r & Enth & Hr). unfold idx at 1. rewrite Enth. cbn [bind].
  destruct (rsq_spec_proj _ _ _ Hr) as (_ & _ & _ & _ & Pocc & Pblk).
  pose proof (qdig_le3 L l0 c) as Hd.
  rewrite Pocc by exact Hd. cbn [bind].
  destruct (Pblk (dg l0 c) rs Hd ltac:(rewrite qD_len; lia)) as (a & Ea & Ha).
  destruct (Pblk (dg l0 c) re Hd ltac:(rewrite qD_len; lia)) as (b & Eb & Hb').
  rewrite Ea, Eb. cbn [bind].
  destruct (HT (S l0) ltac:(lia)) as (r1 & Enth1 & _). unfold idx.
  replace (N.of_nat l0 + 1) with (N.of_nat (S l0)) by lia. rewrite Enth1. cbn [bind].
  unfold osub. replace (2 <=? 2 * N.of_nat (L - 1 - l0)) with true by lia. cbn [bind].
  replace (2 * N.of_nat (L - 1 - l0) - 2) with (2 * N.of_nat (L - 1 - S l0)) by lia.
  pose proof (count_split (dg l0 c) (qD L l0 s)) as Hcs. rewrite qD_len in Hcs.
  pose proof (rk_le_count (qD L l0 s) (dg l0 c) rs) as H1.
  pose proof (rk_le_count (qD L l0 s) (dg l0 c) re) as H2.
  unfold lrank in Ha, Hb'. unfold rk in H1, H2. unfold loccs_smaller.
  apply IH; lia.
Qed.

(* ------------------------------------------------------------ get *)

Lemma get_walk_ok x : x < 2 ^ w -> forall n l0 X Z, (l0 + n = L - 1)%nat -> lv l0 s = X ++ x :: Z ->
  exists X' Z', lv (L - 1) s = X' ++ x :: Z' /\
    qwt_get_walk w bsize qvs (x / 4 ^ N.of_nat (L - l0)) (len X) (N.of_nat l0) n =
      Val (x / 4 ^ N.of_nat (L - (L - 1)), len X').
Proof.
  intros Hx. induction n as [|n IH]; intros l0 X Z Hl E.
  - assert (l0 = L - 1)%nat by lia. subst l0. exists X, Z. split; [exact E|reflexivity].
  - cbn [qwt_get_walk].
    destruct (HT l0 ltac:(lia)) as (r & Enth & Hr). unfold idx at 1. rewrite Enth. cbn [bind].
    destruct (rsq_spec_proj _ _ _ Hr) as (_ & _ & Pru & Pgu & Pocc & _).
    destruct (get_step N 4 dg (qdig_lt L) l0 s x X Z E) as (Hn & X1 & Z1 & E1 & HX1).
    pose proof (qdig_le3 L l0 x) as Hd.
    pose proof (lv_len l0) as HLen. rewrite E in HLen. lens in HLen.
    rewrite (Pgu _ _ Hn). cbn [bind].
    rewrite Pocc by exact Hd. cbn [bind].
    rewrite Pru by (try exact Hd; rewrite qD_len; lia). cbn [bind].
    pose proof (qdig_step L l0 x ltac:(lia)) as Hst.
    assert (Hle : x / 4 ^ N.of_nat (L - S l0) <= x).
    { assert (Hp : 4 ^ N.of_nat (L - S l0) <> 0) by (apply N.pow_nonzero; lia).
      apply N.div_le_upper_bound; [exact Hp|].
      generalize dependent (4 ^ N.of_nat (L - S l0)). intros p _ Hp. nia. }
    rewrite N.shiftl_mul_pow2, N.mod_small by lia.
    rewrite lor_add by (pose proof (qdig_lt L l0 x) as Hq4; change (N.of_nat 4) with 4 in Hq4; change (2 ^ 2) with 4; lia).
    rewrite <- Hst.
    destruct (IH (S l0) X1 Z1 ltac:(lia) E1) as (X' & Z' & E' & HW).
    exists X', Z'. split; [exact E'|]. rewrite <- HW. unfold qD, qlev. f_equal; lia.
Qed.

Lemma qwt_get_unchecked_ok i x t : q_n_levels t = N.of_nat L -> q_qvs t = qvs ->
  nthN s i = Some x -> x < 2 ^ w -> x < 4 ^ N.of_nat L ->
  qwt_get_unchecked w bsize t i = Val x.
Proof.
  intros Hnl Hq Hi Hx Hx4. unfold qwt_get_unchecked. rewrite Hnl, Hq. unfold osub.
  replace (1 <=? N.of_nat L) with true by lia. cbn [bind].
  replace (N.of_nat L - 1) with (N.of_nat (L - 1)) by lia. rewrite Nnat.Nat2N.id.
  destruct (nthN_split s i x Hi) as (X & Z & E & HX).
  destruct (get_walk_ok x Hx (L - 1) 0%nat X Z ltac:(lia) E) as (X' & Z' & E' & HW).
  rewrite Nat.sub_0_r, (N.div_small _ _ Hx4), HX in HW. change (N.of_nat 0) with 0 in HW.
  rewrite HW. cbn [bind].
  destruct (HT (L - 1)%nat ltac:(lia)) as (r & Enth & Hr). unfold idx. rewrite Enth. cbn [bind].
  destruct (rsq_spec_proj _ _ _ Hr) as (_ & _ & _ & Pgu & _ & _).
  destruct (get_step N 4 dg (qdig_lt L) (L - 1) s x X' Z' E') as (Hn & _).
  rewrite (Pgu _ _ Hn). cbn [bind].
  pose proof (qdig_step L (L - 1) x ltac:(lia)) as Hst.
  replace (L - S (L - 1))%nat with 0%nat in Hst by lia. change (4 ^ N.of_nat 0) with 1 in Hst.
  rewrite N.div_1_r in Hst.
  rewrite N.shiftl_mul_pow2, N.mod_small by lia.
  rewrite lor_add by (pose proof (qdig_lt L (L - 1) x) as Hq4; change (N.of_nat 4) with 4 in Hq4; change (2 ^ 2) with 4; lia).
  now rewrite <- Hst.
Qed.

(* ------------------------------------------------------------ select *)

Lemma select_down_ok c : forall n l0 b shift, (l0 + n = L)%nat ->
  ((0 < n)%nat -> shift = 2 * N.of_nat (L - 1 - l0)) ->
  Forall (fun '(b, rb) => b <= len s /\ rb <= b) (select_down (wml l0 n s) (dgs l0 n c) b) ->
  qwt_select_down w bsize qvs c shift b (N.of_nat l0) n =
    Val (Some (select_down (wml l0 n s) (dgs l0 n c) b)).
Proof.
  induction n as [|n IH]; intros l0 b shift Hl Hs HF; [reflexivity|].
  rewrite (Hs ltac:(lia)). clear Hs shift.
  rewrite (digits_of_S N dg l0 n), (wml_S L l0 n), select_down_cons in *.
  pose proof (Forall_inv HF) as Hhd. pose proof (Forall_inv_tail HF) as HF'. cbv beta iota in Hhd. destruct Hhd as (Hb1 & Hb2).
  cbn [qwt_select_down]. rewrite tb_ok. cbn [bind].
  destruct (HT l0 ltac:(lia)) as (r & Enth & Hr). unfold idx at 1. rewrite Enth. cbn [bind].
  destruct (rsq_spec_proj _ _ _ Hr) as (Prank & _ & _ & _ & Pocc & _).
  pose proof (qdig_le3 L l0 c) as Hd.
  rewrite Prank, qD_len. replace (dg l0 c <=? 3) with true by lia. replace (b <=? len s) with true by lia.
  cbn [andb bind]. rewrite Pocc by exact Hd. cbn [bind].
  unfold qD, qlev.
  replace (N.of_nat l0 + 1) with (N.of_nat (S l0)) by lia.
  rewrite (IH (S l0)); [reflexivity|lia| |exact HF'].
  intros Hn. replace (2 <=? 2 * N.of_nat (L - 1 - l0)) with true by lia. lia.
Qed.

Definition mpath (P : list (N * N)) (lvl : N) : list (N * N * N) :=
  map (fun '(lv, (b, rb)) => (lv, b, rb)) (number_levels P lvl).

Lemma mpath_cons b rb P lvl : mpath ((b, rb) :: P) lvl = (lvl, b, rb) :: mpath P (lvl + 1).
Proof. reflexivity. Qed.

Lemma mpath_len P : forall lvl, len (mpath P lvl) = len P.
Proof.
  induction P as [|[b rb] P IH]; intros lvl; [reflexivity|].
  rewrite mpath_cons, !len_cons, IH. reflexivity.
Qed.

Lemma len_rev {A} (l : list A) : len (rev l) = len l.
Proof. unfold len. now rewrite rev_length. Qed.

Lemma select_down_len c : forall n l0 b, len (select_down (wml l0 n s) (dgs l0 n c) b) = N.of_nat n.
Proof.
  induction n as [|n IH]; intros l0 b; [reflexivity|].
  rewrite (digits_of_S N dg l0 n), (wml_S L l0 n), select_down_cons. rewrite len_cons, IH. lia.
Qed.

Lemma qwt_select_up_app c : forall p1 p2 shift k,
  qwt_select_up w bsize qvs c shift k (p1 ++ p2) =
  let! r := qwt_select_up w bsize qvs c shift k p1 in
  match r with
  | None => Val None
  | Some j => qwt_select_up w bsize qvs c (shift + 2 * len p1) j p2
  end.
Proof.
  induction p1 as [|[[lvl b] rb] p1 IH]; intros p2 shift k.
  - cbn [app qwt_select_up bind]. change (len (@nil (N * N * N))) with 0. f_equal. lia.
  - cbn [app qwt_select_up].
    destruct (two_bits w c shift) as [tb|]; cbn [bind]; [|reflexivity].
    destruct (idx qvs lvl) as [qv|]; cbn [bind]; [|reflexivity].
    destruct (2 ^ 64 <=? rb + k); [reflexivity|].
    destruct (rsq_select bsize qv tb (rb + k)) as [[p|]|]; cbn [bind]; try reflexivity.
    destruct (osub p b) as [r'|]; cbn [bind]; [|reflexivity].
    rewrite IH. rewrite len_cons. replace (shift + 2 * (len p1 + 1)) with (shift + 2 + 2 * len p1) by lia.
    reflexivity.
Qed.

Lemma select_up_ok c : forall n l0 b k, (l0 + n = L)%nat ->
  qwt_select_up w bsize qvs c 0 k (rev (mpath (select_down (wml l0 n s) (dgs l0 n c) b) (N.of_nat l0))) =
  Val (select_up (rev (path N 4 dg l0 n s c b)) k).
Proof.
  induction n as [|n IH]; intros l0 b k Hl; [reflexivity|].
  rewrite select_up_rev_path_S.
  rewrite (digits_of_S N dg l0 n), (wml_S L l0 n), select_down_cons. rewrite mpath_cons. cbn [rev].
  rewrite qwt_select_up_app.
  replace (N.of_nat l0 + 1) with (N.of_nat (S l0)) by lia.
  rewrite (IH (S l0)) by lia. cbn [bind].
  destruct (select_up _ k) as [j|]; [|reflexivity].
  rewrite len_rev, mpath_len, select_down_len.
  replace (0 + 2 * N.of_nat n) with (2 * N.of_nat (L - 1 - l0)) by lia.
  cbn [qwt_select_up]. rewrite tb_ok. cbn [bind].
  destruct (HT l0 ltac:(lia)) as (r & Enth & Hr). unfold idx. rewrite Enth. cbn [bind].
  destruct (rsq_spec_proj _ _ _ Hr) as (_ & Psel & _ & _ & _ & _).
  pose proof (qdig_le3 L l0 c) as Hd. unfold qD, qlev in Psel.
  unfold up_step, qD, qlev.
  set (D := map (dg l0) (lv l0 s)) in *.
  assert (HDl : len D = len s) by (exact (qD_len L l0 s)).
  destruct (N.leb_spec (2 ^ 64) (lrank D (dg l0 c) b + j)) as [Hov|Hov].
  - rewrite select_spec_none; [reflexivity|].
    pose proof (countN_le_len (dg l0 c) D) as Hc. lia.
  - rewrite (Psel _ _ Hov). replace (dg l0 c <=? 3) with true by lia. cbn [bind].
    destruct (select_spec D (dg l0 c) (lrank D (dg l0 c) b + j)) as [p|] eqn:Ep; [|reflexivity].
    assert (Hge : b <= p).
    { apply (select_spec_ge D (dg l0 c) _ p b Ep). unfold lrank, rk. lia. }
    unfold osub. replace (b <=? p) with true by lia. replace (p <? b) with false by lia.
    cbn [bind qwt_select_up]. reflexivity.
Qed.

Lemma qwt_select_ok c k t : q_n_levels t = N.of_nat L -> q_qvs t = qvs ->
  (q_sigma t <? c) || (q_n t =? 0) = false ->
  qwt_select w bsize t c k = Val (select_pred N (pre N dg L c) s k 0).
Proof.
  intros Hnl Hq Hck. unfold qwt_select. rewrite Hck, Hnl, Hq. unfold osub.
  replace (1 <=? N.of_nat L) with true by lia. cbn [bind]. rewrite Nnat.Nat2N.id.
  change 0 with (N.of_nat 0) at 2.
  rewrite (select_down_ok c L 0%nat 0 _ ltac:(lia)).
  - cbn [bind]. pose proof (select_up_ok c L 0%nat 0 k ltac:(lia)) as HU.
    unfold mpath in HU. change (N.of_nat 0) with 0 in HU. rewrite HU. f_equal.
    exact (wm_select_correct N 4 dg (qdig_lt L) L s c k HL).
  - intros _. f_equal. lia.
  - exact (select_down_bounds N 4 dg (qdig_lt L) L s c).
Qed.

(* ------------------------------------------------------------ all queries *)

Lemma prefetch_unchecked_eq c i t : q_n_levels t = N.of_nat L -> q_qvs t = qvs -> i <= len s ->
  qwt_rank_prefetch_unchecked w bsize t c i = qwt_rank_unchecked w bsize t c i.
Proof.
  intros Hnl Hq Hi. unfold qwt_rank_prefetch_unchecked. rewrite Hnl, Hq. unfold osub.
  replace (1 <=? N.of_nat L) with true by lia. cbn [bind].
  destruct (HT 0%nat HL) as (r0 & Enth0 & _). change (N.of_nat 0) with 0 in Enth0.
  unfold idx. rewrite Enth0. cbn [bind].
  replace (N.of_nat L - 1) with (N.of_nat (L - 1 - 0)) by lia. rewrite Nnat.Nat2N.id.
  change 0 with (N.of_nat 0) at 2.
  rewrite (estimate_ok c (L - 1 - 0) 0%nat 0 i) by lia. reflexivity.
Qed.

Lemma nthN_In {A} (l : list A) i x : nthN l i = Some x -> In x l.
Proof. rewrite nthN_nth_error. apply nth_error_In. Qed.

Lemma walks_bundle t : q_n t = len s -> q_n_levels t = N.of_nat L -> q_sigma t = maxN s ->
  q_qvs t = qvs -> len s <> 0 -> (forall x, In x s -> x < 2 ^ w) -> maxN s < 4 ^ N.of_nat L ->
  qwt_queries_spec w bsize t s.
Proof.
  intros Hn Hnl Hsig Hq Hne Hxw Hm4.
  assert (Hx4 : forall x, In x s -> x < 4 ^ N.of_nat L).
  { intros x Hx. pose proof (maxN_ge s x Hx). lia. }
  assert (Hpre : forall c x, c <= maxN s -> In x s -> pre N dg L c x = (x =? c)).
  { intros c x Hc Hx. apply pre_eq; [now apply Hx4|lia]. }
  assert (Hrk : forall c i, c <= maxN s -> i <= len s ->
            qwt_rank_unchecked w bsize t c i = Val (rank_spec s c i)).
  { intros c i Hc Hi. apply qwt_rank_unchecked_ok; try assumption. lia. }
  assert (Hsel : forall c k, c <= maxN s -> qwt_select w bsize t c k = Val (select_spec s c k)).
  { intros c k Hc. rewrite qwt_select_ok; try assumption.
    - f_equal. unfold select_spec. apply select_pred_eqb. intros x Hx. now apply Hpre.
    - rewrite Hsig, Hn. replace (maxN s <? c) with false by lia. replace (len s =? 0) with false by lia.
      reflexivity. }
  unfold qwt_queries_spec. split; [|split; [|split; [|split; [|split; [|split]]]]].
  - intros i. unfold qwt_get. rewrite Hn. destruct (N.leb_spec (len s) i) as [Hi|Hi].
    + now rewrite nthN_none.
    + destruct (nthN_lt_some s i Hi) as (x & Ex). rewrite Ex.
      rewrite (qwt_get_unchecked_ok i x t Hnl Hq Ex); [reflexivity| |]; [apply Hxw|apply Hx4]; eapply nthN_In; eassumption.
  - intros c i _. unfold qwt_rank. rewrite Hn, Hsig. replace (len s =? 0) with false by lia.
    destruct (N.leb_spec i (len s)) as [Hi|Hi], (N.leb_spec c (maxN s)) as [Hc|Hc]; cbn [negb andb].
    + replace (len s <? i) with false by lia. replace (maxN s <? c) with false by lia. cbn [orb].
      rewrite Hrk by assumption. reflexivity.
    + replace (maxN s <? c) with true by lia. now rewrite orb_true_r.
    + replace (len s <? i) with true by lia. reflexivity.
    + replace (len s <? i) with true by lia. reflexivity.
  - intros c i _. unfold qwt_rank_prefetch, qwt_rank. rewrite Hn.
    destruct (N.ltb_spec (len s) i) as [Hi|Hi]; [reflexivity|]. cbn [orb].
    destruct ((q_sigma t <? c) || (len s =? 0)); [reflexivity|].
    now rewrite prefetch_unchecked_eq.
  - intros c k _ _. replace (len s =? 0) with false by lia. cbn [negb andb].
    destruct (N.leb_spec c (maxN s)) as [Hc|Hc]; [now apply Hsel|].
    unfold qwt_select. rewrite Hsig. replace (maxN s <? c) with true by lia. reflexivity.
  - intros i x Ex. apply qwt_get_unchecked_ok; try assumption; [apply Hxw|apply Hx4]; eapply nthN_In; eassumption.
  - intros c i _ Hc Hi. split; [now apply Hrk|]. rewrite prefetch_unchecked_eq by assumption. now apply Hrk.
  - intros c k p _ Ep. unfold qwt_select_unchecked. rewrite Hsel.
    + rewrite Ep. reflexivity.
    + unfold select_spec in Ep. apply select_from_rk in Ep. destruct Ep as (q & _ & Enq & _).
      apply maxN_ge. eapply nthN_In. exact Enq.
Qed.

End Walks.
