(* DArray: FromIterator<bool> regenerated (Gen/FnsDanew.v: BitVector::from_iter then DArray::new, both regenerated): the public
   construction path from a bit sequence, followed by the regenerated queries, is the list specification. *)
From Coq Require Import ZArith Lia ZifyBool ZifyN ZifyNat.
From QwtModel Require Import ListX Loops Consts Words BitVec DArrayM BitVecP.
From QwtModel Require Import FnsBv FnsBvm FnsBvnew FnsIters FnsDanew FnsDaOk FnsBvnewOk FnsDanewOk.
Open Scope N_scope.
Ltac Zify.zify_post_hook ::= Z.div_mod_to_equations.

Definition g_da_from_bools (s0 : bool) := if s0 then g_da0_from_bools else g_da1_from_bools.

Lemma g_da_from_bools_unfold s0 fuel bs :
  g_da_from_bools s0 fuel bs = let! (d, nb, no) := g_bv_from_bools bs in g_da_new s0 fuel d nb no.
Proof. destruct s0; unfold g_da_from_bools, g_da_new, g_da0_from_bools, g_da1_from_bools;
       destruct (g_bv_from_bools bs) as [[[d nb] no]|]; reflexivity. Qed.

Theorem g_da_from_bools_correct : forall s0 bs fuel, len bs < 2 ^ 63 ->
  (N.to_nat (len bs) + N.to_nat (8 * ((len bs + 511) / 512)) + 2 <= fuel)%nat ->
  exists d, g_da_from_bools s0 fuel bs = Val (da_fields d) /\ da_types_ok d /\ C07_gen s0 d bs.
Proof.
  intros s0 bs fuel Hn Hf.
  destruct (g_bv_from_bools_correct bs Hn) as (b & E & Hinv & Habs).
  assert (Hlen : bv_nbits b = len bs).
  { rewrite <- Habs. symmetry. exact (inv_len b Hinv). }
  assert (Hfuel : (N.to_nat (bv_nbits b) + length (bv_words b) + 2 <= fuel)%nat).
  { pose proof (inv_words_len b Hinv) as Hw. unfold len in Hw. rewrite Hlen in *. lia. }
  destruct (g_da_new_of_bitvector s0 b fuel Hinv Hfuel) as (d & G & _ & _ & Ht & Hg).
  exists d. split; [|split; [exact Ht|rewrite <- Habs; exact Hg]].
  rewrite g_da_from_bools_unfold, E. cbn [bind]. exact G.
Qed.
Print Assumptions g_da_from_bools_correct.
